(* C01 — Encode then decode returns the same message. Statements only. *)
From Coq Require Import List NArith Bool.
Import ListNotations.
From Rustun Require Import Base.Tlv Codec.EncodeInto Codec.EncodeMsg Codec.Wire Codec.AttrValue Codec.WireFull Codec.Message
                           Proofs.AttrValueProofs Proofs.MessageProofs Proofs.QuotedTrimProofs Proofs.QuotedCtorProofs.
Open Scope N_scope.

(* one attribute value: under the documented limits (av_wf: string limits 509 / 763, USERNAME 1..508 printable ASCII,
   canonical quoted strings, error codes 300..699, ICMP bounds, duplicate-free UNKNOWN-ATTRIBUTES, ...) the value encoder
   succeeds in every buffer that is large enough and the typed decoder returns the same value — for the 35 kinds whose value
   survives the trip (the Encodable MESSAGE-INTEGRITY / SHA256 / FINGERPRINT decode as the value-carrying variants: C04, C10) *)
Theorem C01_value_roundtrip : forall ud hdr ty a,
  av_wf ty a = true -> av_hdr_ok hdr = true ->
  exists v, (forall room, len v <= room -> av_enc_attr hdr ty a room = VOk v) /\ av_dec_attr ud hdr ty v = VOk a.
Proof. exact AttrValueProofs.dec_enc_attr. Qed.
Print Assumptions C01_value_roundtrip.

(* a whole message: any method 0x000-0xFFF, class, 96-bit transaction id and any sequence of documented-limit values of the
   35 kinds encodes into every buffer that is large enough (and only the 16-bit length can make it fail), the size is
   20 + attribute bytes and a multiple of four, and the default decoder returns exactly those values, in that order, with
   the same size *)
Theorem C01_message_roundtrip : forall (m:tmsg) (l:list (N * aval)) (buf:bytes),
  t_attrs m = tvals l -> t_method m < 4096 -> t_class m < 4 -> length (t_txid m) = 12%nat ->
  Forall (fun x => av_wf (fst x) (snd x) = true) l -> Forall (fun x => fst x < 65536) l ->
  exists t, Forall2 (enc_rel (t_hdr m)) l t /\
    (attr_bytes t <= 65535 -> 20 + attr_bytes t <= len buf ->
       exists out, encode_typed buf m = TOk out (20 + attr_bytes t)
                   /\ (20 + attr_bytes t) mod 4 = 0
                   /\ decode_typed (take (20 + attr_bytes t) out)
                      = DOk (20 + attr_bytes t) (map (fun x => (fst x, VOk (snd x))) l)).
Proof. exact MessageProofs.roundtrip. Qed.
Print Assumptions C01_message_roundtrip.

(* the quoted-string CONSTRUCTORS (Nonce::new, Realm::new: strings.rs formatted_quoted_string_from) — see the end of the file:
   since the repair of defect D8 every value they accept is canonical, i.e. one of the values the theorems above speak of *)
Example C01_example_xor_mapped_address :
  av_enc_attr ([0;1;0;0;33;18;164;66] ++ [183;231;167;1;188;52;214;134;250;135;223;174]) 32 (AvAddr false 32853 [192;0;2;1]) 100
  = VOk [0;1;161;71;225;18;166;67].
Proof. vm_compute. reflexivity. Qed.

(* ------------------------------------------------------------------------------------------------ the constructors *)
(* formatted_quoted_string_from with the repaired skip_trailing_characteres (a removable character preceded by an odd
   number of backslashes is the second half of a quoted-pair and ends the trimming): for EVERY str it accepts — a
   quoted-text or a quoted-string of the grammar, of any length, any characters — the result is a quoted-text with nothing
   left to trim, formatting it again returns it, and `impl Decode for QuotedString` returns it unchanged *)
Theorem C01_formatted_canonical : forall s cps q, av_utf8 s = Some cps -> av_formatted s cps = VOk q ->
  exists cq, av_utf8 q = Some cq /\ av_quoted_text cq = true /\ av_trimmed cq = true /\
             av_formatted q cq = VOk q /\ av_dec_quoted_string q = VOk q.
Proof. exact QuotedTrimProofs.formatted_fixpoint. Qed.
Print Assumptions C01_formatted_canonical.

(* Nonce::new (ty = 21) and Realm::new (ty = 20; ASCII realms, where the PRECIS step is modelled): every accepted input
   stores a value that satisfies the quoted-text grammar, has nothing to trim, is at most 509 bytes long, is a fixed point
   of the formatting and of the constructor, decodes to itself and so survives encode + decode — no exception class *)
Theorem C01_ctor_canonical : forall ty s q, ctor_of ty s = VOk q ->
  exists cq, av_utf8 q = Some cq /\ av_quoted_text cq = true /\ av_trimmed cq = true /\ len q <= 509 /\
             av_formatted q cq = VOk q /\ av_dec_quoted_string q = VOk q /\ quoted_roundtrips q = true /\
             ctor_quoted q = VOk q.
Proof. exact QuotedCtorProofs.ctor_full. Qed.
Print Assumptions C01_ctor_canonical.

(* hence the stored value is within the documented limits of REALM / NONCE, and C01_value_roundtrip /
   C01_message_roundtrip apply to it *)
Theorem C01_ctor_within_limits : forall ty s q, ty = 20 \/ ty = 21 -> bytes_ok s = true -> ctor_of ty s = VOk q ->
  av_wf ty (AvQuoted q) = true.
Proof. exact QuotedCtorProofs.ctor_wf. Qed.
Print Assumptions C01_ctor_within_limits.

(* the class of the former known finding D8 (accepted by the constructor, lost by the round trip) is empty *)
Theorem C01_ctor_class_empty : forall ty s, ctor_class ty s = 0.
Proof. exact QuotedCtorProofs.ctor_class_zero. Qed.
Print Assumptions C01_ctor_class_empty.

(* the defect D8 as it was, about the trimming before the repair (av_skip_trail_pinned): there is an accepted input whose
   stored value does not survive the round trip (a b c backslash dquote: the old trimming removed the second character of
   the quoted-pair); the repaired trimming keeps the pair *)
Example C01_quoted_ctor_pinned_refuted :
  exists s q, ctor_quoted_pinned s = VOk q /\ quoted_roundtrips q = false.
Proof. exists [97;98;99;92;34], [97;98;99;92]. vm_compute. split; reflexivity. Qed.
Example C01_quoted_ctor_repaired :
  ctor_quoted [97;98;99;92;34] = VOk [97;98;99;92;34] /\ quoted_roundtrips [97;98;99;92;34] = true.
Proof. vm_compute. split; reflexivity. Qed.
Example C01_quoted_ctor_ok : ctor_quoted [34;97;98;99;34] = VOk [97;98;99] /\ quoted_roundtrips [97;98;99] = true.
Proof. vm_compute. split; reflexivity. Qed.
