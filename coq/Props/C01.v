(* C01 — Encode then decode returns the same message. Statements only. *)
From Coq Require Import List NArith Bool.
Import ListNotations.
From Rustun Require Import Base.Tlv Codec.EncodeInto Codec.EncodeMsg Codec.Wire Codec.AttrValue Codec.WireFull Codec.Message
                           Proofs.AttrValueProofs Proofs.MessageProofs.
Open Scope N_scope.

(* one attribute value: under the documented limits (av_wf: string limits 509 / 763, USERNAME 1..508 printable ASCII,
   canonical quoted strings, error codes 300..699, ICMP bounds, duplicate-free UNKNOWN-ATTRIBUTES, ...) the value encoder
   succeeds in every buffer that is large enough and the typed decoder returns the same value — for the 35 kinds whose value
   survives the trip (the Encodable MESSAGE-INTEGRITY / SHA256 / FINGERPRINT decode as the value-carrying variants: C04, C10) *)
Theorem C01_value_roundtrip : forall ud hdr ty a,
  av_wf ty a = true -> av_hdr_ok hdr = true ->
  exists v, (forall room, len v <= room -> av_enc_attr hdr ty a room = VOk v) /\ av_dec_attr ud hdr ty v = VOk a.
Proof. exact AttrValueProofs.dec_enc_attr. Qed.
Print Assumptions C01_value_roundtrip.

(* a whole message: any method 0x000-0xFFF, class, 96-bit transaction id and any sequence of documented-limit values of the
   35 kinds encodes into every buffer that is large enough (and only the 16-bit length can make it fail), the size is
   20 + attribute bytes and a multiple of four, and the default decoder returns exactly those values, in that order, with
   the same size *)
Theorem C01_message_roundtrip : forall (m:tmsg) (l:list (N * aval)) (buf:bytes),
  t_attrs m = tvals l -> t_method m < 4096 -> t_class m < 4 -> length (t_txid m) = 12%nat ->
  Forall (fun x => av_wf (fst x) (snd x) = true) l -> Forall (fun x => fst x < 65536) l ->
  exists t, Forall2 (enc_rel (t_hdr m)) l t /\
    (attr_bytes t <= 65535 -> 20 + attr_bytes t <= len buf ->
       exists out, encode_typed buf m = TOk out (20 + attr_bytes t)
                   /\ (20 + attr_bytes t) mod 4 = 0
                   /\ decode_typed (take (20 + attr_bytes t) out)
                      = DOk (20 + attr_bytes t) (map (fun x => (fst x, VOk (snd x))) l)).
Proof. exact MessageProofs.roundtrip. Qed.
Print Assumptions C01_message_roundtrip.

(* the quoted-string CONSTRUCTORS (not the codec) can produce a non-canonical value: Nonce::new of  a b c backslash dquote  stores  a b c backslash,
   which encodes but cannot be decoded (known finding D8, class quoted-ctor-noncanonical); the theorem above is for
   canonical values (av_quoted_ok), the listed class is exactly the constructor outputs that are not *)
Example C01_example_xor_mapped_address :
  av_enc_attr ([0;1;0;0;33;18;164;66] ++ [183;231;167;1;188;52;214;134;250;135;223;174]) 32 (AvAddr false 32853 [192;0;2;1]) 100
  = VOk [0;1;161;71;225;18;166;67].
Proof. vm_compute. reflexivity. Qed.

(* the constructor defect D8 as a theorem about the faithful model: there is an accepted input whose stored value does
   not survive the round trip (a b c backslash dquote: trimming removes the second character of the quoted-pair) *)
Example C01_quoted_ctor_refuted :
  exists s q, ctor_quoted s = VOk q /\ quoted_roundtrips q = false.
Proof. exists [97;98;99;92;34], [97;98;99;92]. vm_compute. split; reflexivity. Qed.
Example C01_quoted_ctor_ok : ctor_quoted [34;97;98;99;34] = VOk [97;98;99] /\ quoted_roundtrips [97;98;99] = true.
Proof. vm_compute. split; reflexivity. Qed.
