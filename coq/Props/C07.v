(* C07 — Short-term credentials: only authenticated messages are delivered (abstract-message level: a MAC verifies iff it was made with the key the verifier uses; the byte-level meaning is C04). Statements only; proofs live in the imported files. *)
From Coq Require Import List NArith Bool.
Import ListNotations.
From Rustun Require Import Agent.Rto Agent.Model Agent.Monitors Proofs.AgentInv Proofs.AgentTrace Proofs.AgentMech.
Open Scope N_scope.

(* an accepted message carries, among the attributes the RFC ordering rule admits, an integrity attribute of the agreed kind that verifies under the configured password *)
Theorem C07_accept_sound :
  forall (rel : bool) (mk : list txid) (s : st_mech) (m : msg) (mk' : list txid) (s' : st_mech),
         st_recv rel mk s m = (None, mk', s') ->
         exists a : attr,
           In a (rfc_filter (m_attrs m)) /\
           (a_is_mi a = true \/ a_is_sha a = true) /\
           keyd_eqb (mac_key a) (KST 0) = true /\
           (st_agreed s = Some IMI -> a_is_mi a = true) /\ (st_agreed s = Some ISHA -> a_is_sha a = true).
Proof. exact AgentMech.st_accept_sound. Qed.
Print Assumptions C07_accept_sound.

(* on the client: a StunMessageReceived event is emitted only if the short-term mechanism accepted the message *)
Theorem C07_client_delivery_sound :
  forall (c : client) (now : N) (w : msg) (s : st_mech) (c' : client) (r : reply) 
           (evs : list event) (m : msg),
         mech_ c = MST s ->
         step c (Recv now true w) = (c', r, evs) ->
         In (Received m) evs ->
         m = wmsg w /\
         evs = [Received m] /\
         r = ROk None /\
         (exists (mk' : list txid) (s' : st_mech),
            st_recv (reliable (cfg c)) (markers c) s (wmsg w) = (None, mk', s') /\
            mech_ c' = MST s' /\
            markers c' = mk' /\
            (exists a : attr,
               In a (rfc_filter (m_attrs w)) /\
               (a_is_mi a = true \/ a_is_sha a = true) /\
               keyd_eqb (mac_key a) (KST 0) = true /\
               (st_agreed s = Some IMI -> a_is_mi a = true) /\ (st_agreed s = Some ISHA -> a_is_sha a = true))).
Proof. exact AgentMech.client_received_st. Qed.
Print Assumptions C07_client_delivery_sound.

(* responses carrying both integrity attributes are rejected without any state change *)
Theorem C07_no_both_in_response :
  forall (rel : bool) (mk : list txid) (s : st_mech) (m : msg),
         is_response m = true ->
         existsb a_is_mi (rfc_filter (m_attrs m)) = true ->
         existsb a_is_sha (rfc_filter (m_attrs m)) = true -> st_recv rel mk s m = (Some EDiscarded, mk, s).
Proof. exact AgentMech.st_no_both_in_response. Qed.
Print Assumptions C07_no_both_in_response.

(* the agreed algorithm changes only when none was agreed, on an authenticated response, to the kind of the accepted attribute *)
Theorem C07_learning :
  forall (rel : bool) (mk : list txid) (s : st_mech) (m : msg) (e : option ierr) 
           (mk' : list txid) (s' : st_mech),
         st_recv rel mk s m = (e, mk', s') ->
         st_agreed s' <> st_agreed s ->
         st_agreed s = None /\
         is_response m = true /\
         e = None /\
         (exists a : attr,
            In a (rfc_filter (m_attrs m)) /\
            (a_is_mi a = true \/ a_is_sha a = true) /\
            keyd_eqb (mac_key a) (KST 0) = true /\ st_agreed s' = Some (if a_is_mi a then IMI else ISHA)).
Proof. exact AgentMech.st_learning. Qed.
Print Assumptions C07_learning.

(* a response whose picked integrity attribute is absent or wrong: protection violated at once on reliable transport *)
Theorem C07_reject_reliable :
  forall (mk : list txid) (s : st_mech) (m : msg) (mi sha : option attr),
         is_response m = true ->
         st_scan true (rfc_filter (m_attrs m)) None None = Some (mi, sha) ->
         st_fails s mi sha -> st_recv true mk s m = (Some EViolated, mk, s).
Proof. exact AgentMech.st_reject_reliable. Qed.
Print Assumptions C07_reject_reliable.

(* ... ignored and marked on unreliable transport (the marker turns the final time-out into protection-violated: C06_tmo_deadline, rsn) *)
Theorem C07_reject_unreliable :
  forall (mk : list txid) (s : st_mech) (m : msg) (mi sha : option attr),
         is_response m = true ->
         st_scan true (rfc_filter (m_attrs m)) None None = Some (mi, sha) ->
         st_fails s mi sha -> st_recv false mk s m = (Some EDiscarded, ins (m_id m) mk, s).
Proof. exact AgentMech.st_reject_unreliable. Qed.
Print Assumptions C07_reject_unreliable.

Theorem C07_reject_indication :
  forall (rel : bool) (mk : list txid) (s : st_mech) (m : msg) (mi sha : option attr),
         m_class m = CIndication ->
         st_scan false (rfc_filter (m_attrs m)) None None = Some (mi, sha) ->
         st_fails s mi sha -> st_recv rel mk s m = (Some EDiscarded, mk, s).
Proof. exact AgentMech.st_reject_indication. Qed.
Print Assumptions C07_reject_indication.

Theorem C07_accept_complete :
  forall (rel : bool) (mk : list txid) (s : st_mech) (m : msg) (mi sha : option attr) (a : attr),
         class_eqb (m_class m) CRequest = false ->
         st_scan (negb (class_eqb (m_class m) CIndication)) (rfc_filter (m_attrs m)) None None = Some (mi, sha) ->
         st_pick s mi sha = Some a ->
         keyd_eqb (mac_key a) (KST 0) = true -> fst (fst (st_recv rel mk s m)) = None.
Proof. exact AgentMech.st_accept_complete. Qed.
Print Assumptions C07_accept_complete.

(* every request and indication carries USERNAME (the configured one, exactly once) and the agreed integrity attribute, or both when none is agreed, keyed with the configured password *)
Theorem C07_outgoing_layout :
  forall (s : st_mech) (app0 : list attr),
         flatten (st_prepare s (of_list app0)) =
         remove_first 6 (ord (of_list app0)) ++ [UserName 0] ++ st_tail s ++ opt_list (sl_fp (of_list app0)) /\
         has_ty 6 (remove_first 6 (ord (of_list app0))) = false.
Proof. exact AgentMech.st_prepare_layout_client. Qed.
Print Assumptions C07_outgoing_layout.

Theorem C07_outgoing_integrity_is_own :
  forall (s : st_mech) (x : attrs) (a : attr),
         AInv x ->
         In a (flatten (st_prepare s x)) -> is_integ a = true -> In a (st_tail s) /\ mac_key a = KST 0.
Proof. exact AgentMech.st_prepare_integrity. Qed.
Print Assumptions C07_outgoing_integrity_is_own.

(* ---- the property in exactly the form in which the implementation is judged: the spec monitor of this property
   (Agent/Monitors.v, from the property text; it runs on every observed call of the implementation) accepts EVERY step of
   EVERY well-formed history of the model (fresh transaction ids, monotone instants, positive RTO), for every configuration
   and credential mechanism (Proofs/AgentMeets.v: obs_of, run_mon; Proofs/AgentMeets2.v) *)
From Rustun Require Import Agent.Rto Agent.Model Agent.Monitors Proofs.AgentMeets Proofs.AgentMeets2.
Theorem C07_model_meets_monitor : forall (cf:config) (m:mech) (mc:mcfg) (cc:ccfg) (ops:list op),
  consistent mc cf -> consistent_cc cc cf m -> well_formed_history ops -> verdicts_true 7 (run_mon mc cc (init cf m) (mall0 cc) ops).
Proof. exact AgentMeets2.model_meets_C07. Qed.
Print Assumptions C07_model_meets_monitor.

(* ---- the attributes the credential mechanism reads of a received message come from the agent's own ordering filter
   (ProtectedAttributeIteratorObject::next, stun-agent/src/lib.rs). Its Rust text, translated by tools/rs2v.py on every run
   (Generated/Code.v), yields exactly the attributes the RFC 8489 ordering rule admits, for every sequence of attribute kinds
   (Proofs/CodeAgreeIter.v) — the abstract model's rfc_filter is that rule *)
From Rustun Require Import Base.GRes Generated.Code Codec.Filter Proofs.CodeAgreeIter.
Theorem C07_code_protected_iter_is_rfc_rule : forall ks,
  gen_collect (S (length ks)) (mk_iter ks {| f_mi := false; f_sha := false; f_fp := false |})
  = map kind_code (keep_admitted (allow {| s_mi := false; s_sha := false; s_fp := false |} ks) ks).
Proof. exact CodeAgreeIter.code_protected_iter_is_rfc_rule. Qed.
Print Assumptions C07_code_protected_iter_is_rfc_rule.

(* ---- the IF direction on the model side (the specification clause Agent/Monitors.v: mon_C07_reject judges the
   implementation; AgentReject.mon_C07_reject_premise: that clause is `if bad_st_response .. then <required outcome> else
   true`): a success / error response for an outstanding request, with the valid FINGERPRINT a fingerprint-checking client
   insists on, whose protected attributes do not carry both integrity kinds and whose integrity attribute of the kind in
   force (the agreed one; MESSAGE-INTEGRITY, else MESSAGE-INTEGRITY-SHA256, while none is agreed) is absent or keyed with
   anything but the configured password, fails the request with ProtectionViolated in this very step on reliable
   transport; on unreliable transport it is discarded without an event, the request is marked and keeps running *)
From Rustun Require Import Proofs.AgentReject.
Theorem C07_bad_response_is_rejected : forall (c:Model.client) (s:Model.st_mech) (now:N) (w:Model.msg),
  Model.mech_ c = Model.MST s ->
  AgentReject.bad_st_response (Model.use_fp (Model.cfg c)) (Model.st_agreed s)
                  (match Model.lookup (Model.m_id w) (Model.T c) with Some _ => true | None => false end) w = true ->
  let '(c', rep, evs) := Model.step c (Model.Recv now true w) in
  if Model.reliable (Model.cfg c)
  then rep = Model.ROk None /\ evs = [Model.Failed (Model.m_id w) Model.ProtectionViolated]
       /\ Model.lookup (Model.m_id w) (Model.T c') = None
       /\ Model.mech_ c' = Model.mech_ c /\ Model.markers c' = Model.markers c
  else rep = Model.RDiscarded /\ evs = [] /\ Model.mem (Model.m_id w) (Model.markers c') = true
       /\ Model.T c' = Model.T c /\ Model.H c' = Model.H c /\ Model.mech_ c' = Model.mech_ c.
Proof. exact AgentReject.bad_st_response_is_rejected. Qed.
Print Assumptions C07_bad_response_is_rejected.

(* ---- the same IF direction at trace level: the monitor mon_C07_reject, in exactly the form ocaml/driver.ml runs it on the
   implementation (on the schedule and short-term monitor states BEFORE the call, as monitor_step has threaded them through
   the prefix), accepts every step of the model in every well-formed history, for every configuration, transport and
   mechanism (Proofs/AgentMeets5.v) *)
From Rustun Require Import Proofs.AgentMeets Proofs.AgentMeets2 Proofs.AgentMeets3 Proofs.AgentMeets5.
Theorem C07_model_meets_reject_monitor :
  forall (cf:Model.config) (m:Model.mech) (mc:Monitors.mcfg) (cc:Monitors.ccfg) (ops:list Model.op),
  AgentMeets.consistent mc cf -> AgentMeets2.consistent_cc cc cf m -> AgentMeets.well_formed_history ops ->
  forall (a:list Model.op) (o:Model.op) (b:list Model.op), ops = a ++ o :: b ->
    let c := fst (AgentMeets3.run_state mc cc (Model.init cf m) (Monitors.mall0 cc) a) in
    let s := snd (AgentMeets3.run_state mc cc (Model.init cf m) (Monitors.mall0 cc) a) in
    let '(c', rep, evs) := Model.step c o in
    Monitors.mon_C07_reject cc (Monitors.ma_core s) (Monitors.ma_st s) (AgentMeets.mop_of o rep) (AgentMeets.obs_of c c' o rep evs) = true.
Proof. exact AgentMeets5.model_meets_C07_reject. Qed.
Print Assumptions C07_model_meets_reject_monitor.
(* and, read the other way: wherever the monitor's premise holds, the model's step yields exactly the rejection *)
Theorem C07_model_rejects_when_monitor_demands :
  forall (cf:Model.config) (m:Model.mech) (mc:Monitors.mcfg) (cc:Monitors.ccfg) (a:list Model.op) (now:N) (w:Model.msg) (b:list Model.op),
  AgentMeets.consistent mc cf -> AgentMeets2.consistent_cc cc cf m -> AgentMeets.well_formed_history (a ++ Model.Recv now true w :: b) ->
  let c := fst (AgentMeets3.run_state mc cc (Model.init cf m) (Monitors.mall0 cc) a) in
  let s := snd (AgentMeets3.run_state mc cc (Model.init cf m) (Monitors.mall0 cc) a) in
  (1 <= Monitors.cc_mech cc <= 3)%N ->
  AgentReject.bad_st_response (Monitors.cc_fp cc) (Monitors.sm_agreed (Monitors.ma_st s))
                  (Monitors.memN (Model.m_id w) (Monitors.live (Monitors.ma_core s))) w = true ->
  let '(c', rep, evs) := Model.step c (Model.Recv now true w) in
  if Monitors.cc_reliable cc
  then rep = Model.ROk None /\ evs = [Model.Failed (Model.m_id w) Model.ProtectionViolated]
       /\ Model.lookup (Model.m_id w) (Model.T c') = None /\ Model.markers c' = Model.markers c
  else rep = Model.RDiscarded /\ evs = [] /\ Model.mem (Model.m_id w) (Model.markers c') = true
       /\ Model.T c' = Model.T c /\ Model.H c' = Model.H c.
Proof. exact AgentMeets5.model_rejects_when_monitor_demands. Qed.
Print Assumptions C07_model_rejects_when_monitor_demands.

(* ---- the integrity bookkeeping the mechanisms call (TransportIntegrity, stun-agent/src/integrity.rs): the Rust text of new,
   discard_message, compute_message_integrity and signal_protection_violated_on_timeout, translated by tools/rs2v.py on every
   run (Generated/Code.v), equals Model.discard_message / Model.compute_mi / Model.mem, Model.del for every state and message
   (Proofs/CodeAgreeIntegrity.v). HashSet<TransactionId> is a list under set semantics (set_insert / set_remove / set_mem of
   Base/GRes.v are Model.ins / del / mem); a message is (class, transaction id); validate_message_integrity is an oracle
   argument of the generated function: the agreement holds for every oracle that answers this call as the abstract model
   does (a MAC verifies iff it was made with the verifier's key; byte level: C04), for any encodings of attributes / keys *)
From Rustun Require Import Base.GRes Generated.Code Proofs.CodeAgreeIntegrity.
Theorem C07_code_integrity_is_model :
  (forall rel : bool, gen_TransportIntegrity_new rel = CodeAgreeIntegrity.ti rel [])
  /\ (forall (rel : bool) (mk : list Model.txid) (m : Model.msg),
        gen_TransportIntegrity_discard_message (CodeAgreeIntegrity.ti rel mk) (CodeAgreeIntegrity.msg_abs m)
        = GRes.GOk (CodeAgreeIntegrity.ierr_code (fst (Model.discard_message rel mk m)),
                    CodeAgreeIntegrity.ti rel (snd (Model.discard_message rel mk m))))
  /\ (forall (enc : Model.attr -> N) (kenc : Model.keyd -> N) (oracle : N -> N -> list N -> bool)
             (rel : bool) (mk : list Model.txid) (key : Model.keyd) (integrity : option Model.attr) (raw : list N) (m : Model.msg),
        (forall a : Model.attr, integrity = Some a -> oracle (enc a) (kenc key) raw = Model.keyd_eqb (Model.mac_key a) key) ->
        gen_TransportIntegrity_compute_message_integrity (CodeAgreeIntegrity.ti rel mk) (kenc key) (option_map enc integrity) raw
          (CodeAgreeIntegrity.msg_abs m) oracle
        = GRes.GOk (CodeAgreeIntegrity.res_code (fst (Model.compute_mi rel mk key integrity m)),
                    CodeAgreeIntegrity.ti rel (snd (Model.compute_mi rel mk key integrity m))))
  /\ (forall (rel : bool) (mk : list Model.txid) (id : N),
        gen_TransportIntegrity_signal_protection_violated_on_timeout (CodeAgreeIntegrity.ti rel mk) id
        = GRes.GOk (Model.mem id mk, CodeAgreeIntegrity.ti rel (Model.del id mk))).
Proof. exact CodeAgreeIntegrity.code_integrity_is_model. Qed.
Print Assumptions C07_code_integrity_is_model.
