(* C15 — RTO estimate follows RFC 6298 with Karn's rule and goes stale after 10 minutes. Statements only.
   Two layers: (1) the SPECIFICATION: RFC 6298 in exact fixed point (Monitors.rfc6298_update, rfc6298_rto), against which the monitor
   Monitors.mon_C15 judges the interval the implementation used, within the tolerance of the property (1e-5 relative + 1 us:
   the implementation computes in f32); (2) the exact MODEL of the implementation's estimator (Agent/F32.v: binary32
   round-to-nearest-even, Duration::as_secs_f32 / from_secs_f32; Agent/RttExact.v: which calls feed it), whose state (rto,
   srtt, rttvar, instant of the last request) is compared with the hook snapshot to the nanosecond after every operation
   of the agent suite, and which supplies the interval of every request of the client model. *)
From Coq Require Import List NArith Bool.
Import ListNotations.
From Rustun Require Import Agent.Rto Agent.Model Agent.Monitors Proofs.RttProofs Agent.F32 Agent.RttExact Proofs.RttExactProofs.
Open Scope N_scope.

Theorem C15_first_sample : forall r, rfc6298_update None r = Some (r, r / 2).
Proof. exact RttProofs.first_sample. Qed.
Theorem C15_later_sample : forall srtt rttvar r,
  rfc6298_update (Some (srtt, rttvar)) r = Some ((7 * srtt + r) / 8, (3 * rttvar + absdiff srtt r) / 4).
Proof. exact RttProofs.later_sample. Qed.
Theorem C15_rto_formula : forall c srtt rttvar, rfc6298_rto c (Some (srtt, rttvar)) = srtt + N.max (fx (cc_gran c)) (4 * rttvar).
Proof. exact RttProofs.rto_formula. Qed.
Theorem C15_rto_initial : forall c, rfc6298_rto c None = fx (cc_rto c).
Proof. exact RttProofs.rto_initial. Qed.
Theorem C15_karn_retransmission_clears_instant : forall now t h mk ev id x d m',
  lookup id t = Some x -> next_rto (tm x) now = (Some d, m') ->
  tmo_one now (t, h, mk, ev) id = (update_t id {| inst := None; pkt := pkt x; tm := m' |} t, (now, d, id) :: h, mk, ev ++ [Out id false (pkt x)]).
Proof. exact RttProofs.tmo_one_clears_instant. Qed.
Print Assumptions C15_first_sample.
Print Assumptions C15_later_sample.
Print Assumptions C15_karn_retransmission_clears_instant.

(* RFC 6298 worked example in nanoseconds (fixed point 2^-16 ns): R = 100 ms then R' = 40 ms, G = 1 ms:
   SRTT = 92.5 ms, RTTVAR = 52.5 ms, RTO = 302.5 ms *)
Example C15_example :
  let c := {| cc_mech := 0; cc_fp := false; cc_reliable := false; cc_rto := 500000000; cc_gran := 1000000 |} in
  rfc6298_rto c (rfc6298_update (rfc6298_update None (fx 100000000)) (fx 40000000)) = fx 302500000.
Proof. vm_compute. reflexivity. Qed.

(* ---- the exact estimator model *)
(* first sample: SRTT = R, RTTVAR = R/2, RTO = SRTT + max(G, 4 RTTVAR), in integer nanoseconds, not rounded up to a second *)
Theorem C15_exact_first_sample : forall s r, rc_srtt s = 0 ->
  rtt_update s r = {| rc_rto := r + N.max (rc_gran s) (r / 2 * 4); rc_srtt := r; rc_rttvar := r / 2; rc_gran := rc_gran s; rc_conf := rc_conf s |}.
Proof. exact RttExactProofs.first_sample_exact. Qed.
(* later samples: RTTVAR from the OLD SRTT, then SRTT, each product through Duration::mul_f32 *)
Theorem C15_exact_later_sample : forall s r, rc_srtt s <> 0 ->
  let rttvar := mul_f32 (rc_rttvar s) c_075 + mul_f32 (absdiffN (rc_srtt s) r) c_025 in
  let srtt := mul_f32 (rc_srtt s) c_0875 + mul_f32 r c_0125 in
  rtt_update s r = {| rc_rto := srtt + N.max (rc_gran s) (mul_f32 rttvar c_4); rc_srtt := srtt; rc_rttvar := rttvar; rc_gran := rc_gran s; rc_conf := rc_conf s |}.
Proof. exact RttExactProofs.later_sample_exact. Qed.
(* it starts at the configured value, returns to it when MORE than ten minutes pass between consecutive requests, keeps
   the estimate otherwise *)
Theorem C15_exact_initial : forall rto gran now, est_rto_for_send (est0 rto gran) now = rto.
Proof. exact RttExactProofs.initial_rto. Qed.
Theorem C15_exact_stale : forall s l now, e_last s = Some l -> 600000000000 < now - l -> est_rto_for_send s now = rc_conf (e_calc s).
Proof. exact RttExactProofs.stale_resets. Qed.
Theorem C15_exact_not_stale : forall s l now, e_last s = Some l -> now - l <= 600000000000 -> est_rto_for_send s now = rc_rto (e_calc s).
Proof. exact RttExactProofs.fresh_keeps. Qed.
(* Karn: no sample from a retransmitted request, from timer calls or refused sends *)
Theorem C15_exact_karn : forall s c now d m id x, (forall e, In e [Received m] -> final_of e = Some id) ->
  find_txn id (T c) = Some x -> inst x = None -> est_step s c (Recv now d m) (ROk None) [Received m] = s.
Proof. exact RttExactProofs.karn_no_sample. Qed.
Print Assumptions C15_exact_later_sample.
Print Assumptions C15_exact_stale.
Print Assumptions C15_exact_karn.
(* the f32 arithmetic is visible: the RFC numbers 92.5 / 52.5 / 302.5 ms come out 8 ns off *)
Example C15_exact_example :
  let s := rtt_update (rtt_update (rtt_new 500000000 1000000) 100000000) 40000000 in
  (rc_srtt s, rc_rttvar s, rc_rto s) = (92499999, 52500001, 302499992).
Proof. exact RttExactProofs.rfc6298_numbers_f32. Qed.

(* ---- the exact estimator stays within the property's tolerance of the RFC 6298 value, for EVERY sequence of samples
   (Proofs/F32Bounds.v: the rounding function is a correct round-to-nearest-even with relative error 2^-24; every
   Duration::mul_f32 by one of the five constants is within c * ns * (2^-22 + 2^-45) + 1/2 ns of the exact product; the
   errors of the recurrences contract; the invariants are polyhedra checked by lia) *)
From Coq Require Import ZArith.
From Rustun Require Import Proofs.F32Bounds.
(* a product *)
Theorem C15_mul_f32_error : forall ns c p q, cst c p q ->
  (2 ^ 45 * Z.abs (ZN q * ZN (mul_f32 ns c) - ZN p * ZN ns) <= (2 ^ 23 + 1) * (ZN p * ZN ns) + 2 ^ 44 * ZN q)%Z.
Proof. exact F32Bounds.mul_f32_bound. Qed.
Print Assumptions C15_mul_f32_error.
(* samples between 1 ms and 650 ms, any number of them, any configured RTO and granularity: the interval computed by the
   exact model is within 1e-5 relative + 1 us (the property's tolerance, Monitors.within_tolerance) of the RFC 6298 value *)
Theorem C15_exact_within_tolerance : forall (c:ccfg) rto gran (rs:list N),
  cc_gran c = gran -> cc_rto c = rto -> (forall r, In r rs -> 1000000 <= r <= 650000000) ->
  within_tolerance (fx (rc_rto (run (rtt_new rto gran) rs))) (rfc6298_rto c (ref_run None rs)) = true.
Proof. exact F32Bounds.global_1ms_650ms. Qed.
Print Assumptions C15_exact_within_tolerance.
(* the same with resets (staleness) anywhere between the samples *)
Theorem C15_exact_within_tolerance_resets : forall (c:ccfg) rto gran (os:list eop),
  cc_gran c = gran -> cc_rto c = rto -> Forall (eop_ok 1000000 650000000) os ->
  within_tolerance (fx (rc_rto (run_ops (rtt_new rto gran) os))) (rfc6298_rto c (ref_ops None os)) = true.
Proof. exact F32Bounds.global_1ms_650ms_ops. Qed.
Print Assumptions C15_exact_within_tolerance_resets.
(* samples up to 10 s: proved within twice the tolerance (2e-5 relative + 2 us); the worst-case bound of the analysis
   reaches 1.48 times the tolerance on this range while the model itself, searched adversarially, stays below 35 % of it:
   this part is C15_partial *)
Theorem C15_exact_within_twice_tolerance_partial : forall (c:ccfg) rto gran (rs:list N),
  cc_gran c = gran -> cc_rto c = rto -> (forall r, In r rs -> 1000000 <= r <= 10000000000) ->
  within_tol 50000 2000 (fx (rc_rto (run (rtt_new rto gran) rs))) (rfc6298_rto c (ref_run None rs)) = true.
Proof. exact F32Bounds.global_1ms_10s_x2. Qed.
Print Assumptions C15_exact_within_twice_tolerance_partial.

(* ---- the Rust text of the estimator (rtt.rs: RttCalcuator::new / reset / update / rto), translated by tools/rs2v.py on every
   run (Generated/Code.v; the f32 constants ALPHA, BETA, 1.0 - ALPHA, 1.0 - BETA, K as f32 folded to binary32 values,
   Duration::mul_f32 = F32.mul_f32), IS the exact estimator model the theorems above are about, for every state and sample *)
From Rustun Require Import Base.GRes Generated.Code Proofs.CodeAgreeRtt.
Theorem C15_code_update_is_model : forall s r, gen_RttCalcuator_update (conv_rtt s) r = GOk (conv_rtt (rtt_update s r)).
Proof. exact CodeAgreeRtt.gen_rtt_update_agrees. Qed.
Theorem C15_code_reset_is_model : forall s, gen_RttCalcuator_reset (conv_rtt s) = GOk (conv_rtt (rtt_reset s)).
Proof. exact CodeAgreeRtt.gen_rtt_reset_agrees. Qed.
Theorem C15_code_new_is_model : forall rto gran, gen_RttCalcuator_new rto gran = conv_rtt (rtt_new rto gran).
Proof. exact CodeAgreeRtt.gen_rtt_new_agrees. Qed.
Print Assumptions C15_code_update_is_model.
Print Assumptions C15_code_reset_is_model.
Print Assumptions C15_code_new_is_model.
