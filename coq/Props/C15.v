(* C15 — RTO estimate follows RFC 6298 with Karn's rule and goes stale after 10 minutes. Statements only.
   The implementation computes in f32 (Duration::mul_f32); the property itself states the tolerance (1e-5 relative + 1 us)
   within which the monitor Monitors.mon_C15 compares the RTO read from the hook with this reference on every history. *)
From Coq Require Import List NArith Bool.
Import ListNotations.
From Rustun Require Import Agent.Rto Agent.Model Agent.Monitors Proofs.RttProofs.
Open Scope N_scope.

Theorem C15_first_sample : forall r, rfc6298_update None r = Some (r, r / 2).
Proof. exact RttProofs.first_sample. Qed.
Theorem C15_later_sample : forall srtt rttvar r,
  rfc6298_update (Some (srtt, rttvar)) r = Some ((7 * srtt + r) / 8, (3 * rttvar + absdiff srtt r) / 4).
Proof. exact RttProofs.later_sample. Qed.
Theorem C15_rto_formula : forall c srtt rttvar, rfc6298_rto c (Some (srtt, rttvar)) = srtt + N.max (fx (cc_gran c)) (4 * rttvar).
Proof. exact RttProofs.rto_formula. Qed.
Theorem C15_rto_initial : forall c, rfc6298_rto c None = fx (cc_rto c).
Proof. exact RttProofs.rto_initial. Qed.
Theorem C15_karn_retransmission_clears_instant : forall now t h mk ev id x d m',
  lookup id t = Some x -> next_rto (tm x) now = (Some d, m') ->
  tmo_one now (t, h, mk, ev) id = (update_t id {| inst := None; pkt := pkt x; tm := m' |} t, (now, d, id) :: h, mk, ev ++ [Out id false (pkt x)]).
Proof. exact RttProofs.tmo_one_clears_instant. Qed.
Print Assumptions C15_first_sample.
Print Assumptions C15_later_sample.
Print Assumptions C15_karn_retransmission_clears_instant.

(* RFC 6298 worked example in nanoseconds (fixed point 2^-16 ns): R = 100 ms then R' = 40 ms, G = 1 ms:
   SRTT = 92.5 ms, RTTVAR = 52.5 ms, RTO = 302.5 ms *)
Example C15_example :
  let c := {| cc_mech := 0; cc_fp := false; cc_reliable := false; cc_rto := 500000000; cc_gran := 1000000 |} in
  rfc6298_rto c (rfc6298_update (rfc6298_update None (fx 100000000)) (fx 40000000)) = fx 302500000.
Proof. vm_compute. reflexivity. Qed.
