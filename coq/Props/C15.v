(* C15 — the RFC 6298 reference is Monitors.mon_C15; statements are added with the proofs; see DESIGN.md *)
From Coq Require Import List NArith Bool.
From Rustun Require Import Agent.Rto Agent.Model Agent.Monitors.
