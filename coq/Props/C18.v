(* C18 — Decoder options only filter or decorate; they never change what the bytes mean. Statements only. *)
From Coq Require Import List NArith Bool.
Import ListNotations.
From Rustun Require Import Base.Tlv Codec.Filter Codec.DecodeLoop Codec.InputText Codec.Wire Proofs.WireProofs.
Open Scope N_scope.

(* on the byte-level decoder model, for every buffer, key, option set and whatever the typed decoders do *)
Theorem C18_validation_monotone : forall dec_ok c b s p,
  decode dec_ok (Some (set_validate c true)) b = WOk s p -> decode dec_ok (Some (set_validate c false)) b = WOk s p.
Proof. exact WireProofs.validation_monotone. Qed.
Print Assumptions C18_validation_monotone.

Theorem C18_not_ignore_superset : forall dec_ok c b, o_validate (w_opts c) = false ->
  match decode dec_ok (Some (set_not_ignore c true)) b with
  | WOk s all => exists sub, decode dec_ok (Some (set_not_ignore c false)) b = WOk s sub /\ exists bs, sub = filter_pos bs all
  | WErr => decode dec_ok (Some (set_not_ignore c false)) b = WErr
  | WPanic => decode dec_ok (Some (set_not_ignore c false)) b = WPanic
  | WUnmodelled => decode dec_ok (Some (set_not_ignore c false)) b = WUnmodelled
  end.
Proof. exact WireProofs.not_ignore_superset. Qed.
Print Assumptions C18_not_ignore_superset.

Theorem C18_none_is_default : forall dec_ok b, decode dec_ok None b = decode dec_ok (Some default_wctx) b.
Proof. exact WireProofs.none_is_default. Qed.

(* keeping unknown-attribute data cannot change which attributes are returned, as long as the typed decoders accept
   the same values with and without it (they do: only Unknown looks at the flag, and it always accepts) *)
Theorem C18_unknown_data_only_decorates :
  forall (attr tlv : Type) (kind_of : tlv -> kind) (dec_value : bool -> tlv -> option attr) (verify : attr -> bool),
  (forall x, dec_value true x = dec_value false x) ->
  forall l o f, loop attr tlv kind_of dec_value verify (with_unknown o true) f l
              = loop attr tlv kind_of dec_value verify (with_unknown o false) f l.
Proof. exact WireProofs.loop_unknown_irrelevant. Qed.
Print Assumptions C18_unknown_data_only_decorates.

(* the generic loop statements (any typed decoders, any verifier) *)
Theorem C18_loop_validation_monotone :
  forall (attr tlv : Type) (kind_of : tlv -> kind) (dec_value : bool -> tlv -> option attr) (verify : attr -> bool) l o f r,
  loop attr tlv kind_of dec_value verify (with_validate o true) f l = Some r ->
  loop attr tlv kind_of dec_value verify (with_validate o false) f l = Some r.
Proof. exact DecodeLoop.C18_validation_monotone. Qed.
Print Assumptions C18_loop_validation_monotone.

(* non-vacuity: the RFC 5769 IPv4 response decodes (positions 0..3) under the basic instance when SOFTWARE etc. are
   replaced by unknown types is exercised by the wire suite; here a small hand-made message *)
Example C18_example :
  decode dec_ok_basic None [0;1;0;8; 33;18;164;66; 1;2;3;4;5;6;7;8;9;10;11;12; 127;1;0;1;255;0;0;0] = WOk 28 [0].
Proof. vm_compute. reflexivity. Qed.

(* ---- the property in exactly the form in which the implementation is judged: the monitors monitor_C18 (sizes and wire
   positions) and monitor_C18val (positions combined with any function of the decoded value) of Codec/WireMon.v, run on the
   17 results of the MODEL (model_obs = what ocaml/driver.ml computes: no context; {no key, key} x validation x unknown data
   x not_ignore), accept EVERY buffer and key — for the full typed decoder wherever the buffer is inside the model (no
   non-ASCII USERNAME: PRECIS tables), which is decided by the default-context decode alone *)
From Rustun Require Import Codec.WireMon Codec.WireFull Proofs.WireMeets.
Theorem C18_model_meets_monitor : forall key b,
  (forall cfg, decode dec_ok_full cfg b <> WUnmodelled) -> monitor_C18 (model_obs dec_ok_full key b) = true.
Proof. exact WireMeets.full_meets_C18. Qed.
Print Assumptions C18_model_meets_monitor.
Theorem C18_model_meets_value_monitor : forall key b (val_of : bytes -> N -> N),
  (forall cfg, decode dec_ok_full cfg b <> WUnmodelled) ->
  monitor_C18val (map_obs (fun p => p * 4294967296 + val_of b p) (model_obs dec_ok_full key b)) = true.
Proof. exact WireMeets.full_meets_C18val. Qed.
Print Assumptions C18_model_meets_value_monitor.
Theorem C18_modelled_by_default_decode : forall b,
  decode dec_ok_full None b <> WUnmodelled -> forall cfg, decode dec_ok_full cfg b <> WUnmodelled.
Proof. exact WireMeets.full_modelled_one. Qed.
(* generic in the typed decoders: the only thing needed of them is that acceptance does not depend on the unknown-data flag *)
Theorem C18_model_meets_monitor_generic : forall dec_ok key b,
  (forall hdr ty v, dec_ok true hdr ty v = dec_ok false hdr ty v) ->
  (forall ctx, decode dec_ok ctx b <> WUnmodelled) -> monitor_C18 (model_obs dec_ok key b) = true.
Proof. exact WireMeets.model_meets_C18. Qed.
Print Assumptions C18_model_meets_monitor_generic.
