(* C18 — Decoder options only filter or decorate; they never change what the bytes mean. Statements only. *)
From Coq Require Import List NArith Bool.
Import ListNotations.
From Rustun Require Import Base.Tlv Codec.Filter Codec.DecodeLoop Codec.InputText Codec.Wire Proofs.WireProofs.
Open Scope N_scope.

(* on the byte-level decoder model, for every buffer, key, option set and whatever the typed decoders do *)
Theorem C18_validation_monotone : forall dec_ok c b s p,
  decode dec_ok (Some (set_validate c true)) b = WOk s p -> decode dec_ok (Some (set_validate c false)) b = WOk s p.
Proof. exact WireProofs.validation_monotone. Qed.
Print Assumptions C18_validation_monotone.

Theorem C18_not_ignore_superset : forall dec_ok c b, o_validate (w_opts c) = false ->
  match decode dec_ok (Some (set_not_ignore c true)) b with
  | WOk s all => exists sub, decode dec_ok (Some (set_not_ignore c false)) b = WOk s sub /\ exists bs, sub = filter_pos bs all
  | WErr => decode dec_ok (Some (set_not_ignore c false)) b = WErr
  | WPanic => decode dec_ok (Some (set_not_ignore c false)) b = WPanic
  | WUnmodelled => decode dec_ok (Some (set_not_ignore c false)) b = WUnmodelled
  end.
Proof. exact WireProofs.not_ignore_superset. Qed.
Print Assumptions C18_not_ignore_superset.

Theorem C18_none_is_default : forall dec_ok b, decode dec_ok None b = decode dec_ok (Some default_wctx) b.
Proof. exact WireProofs.none_is_default. Qed.

(* keeping unknown-attribute data cannot change which attributes are returned, as long as the typed decoders accept
   the same values with and without it (they do: only Unknown looks at the flag, and it always accepts) *)
Theorem C18_unknown_data_only_decorates :
  forall (attr tlv : Type) (kind_of : tlv -> kind) (dec_value : bool -> tlv -> option attr) (verify : attr -> bool),
  (forall x, dec_value true x = dec_value false x) ->
  forall l o f, loop attr tlv kind_of dec_value verify (with_unknown o true) f l
              = loop attr tlv kind_of dec_value verify (with_unknown o false) f l.
Proof. exact WireProofs.loop_unknown_irrelevant. Qed.
Print Assumptions C18_unknown_data_only_decorates.

(* the generic loop statements (any typed decoders, any verifier) *)
Theorem C18_loop_validation_monotone :
  forall (attr tlv : Type) (kind_of : tlv -> kind) (dec_value : bool -> tlv -> option attr) (verify : attr -> bool) l o f r,
  loop attr tlv kind_of dec_value verify (with_validate o true) f l = Some r ->
  loop attr tlv kind_of dec_value verify (with_validate o false) f l = Some r.
Proof. exact DecodeLoop.C18_validation_monotone. Qed.
Print Assumptions C18_loop_validation_monotone.

(* non-vacuity: the RFC 5769 IPv4 response decodes (positions 0..3) under the basic instance when SOFTWARE etc. are
   replaced by unknown types is exercised by the wire suite; here a small hand-made message *)
Example C18_example :
  decode dec_ok_basic None [0;1;0;8; 33;18;164;66; 1;2;3;4;5;6;7;8;9;10;11;12; 127;1;0;1;255;0;0;0] = WOk 28 [0].
Proof. vm_compute. reflexivity. Qed.
