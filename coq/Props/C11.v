(* C11 — Timer notifications are accurate and sufficient for every request to finish. Statements only. *)
From Coq Require Import List NArith Bool.
Import ListNotations.
From Rustun Require Import Agent.Rto Agent.Model Proofs.AgentInv Proofs.AgentTrace Proofs.AgentSched.
Open Scope N_scope.

(* after a successful send_request or a timer call: either nothing is pending and no notification is issued, or the LAST
   event is a notification naming a pending entry of minimal expiry with the time left until it (0 if overdue) *)
Theorem C11_notif_spec : forall c o c' r evs now,
  step c o = (c', r, evs) -> arms o r now ->
  H c' = [] /\ (forall e, In e evs -> is_notif e = false) \/
  (exists pre m, evs = pre ++ [Notif (h_id m) (h_exp m - now)] /\ (forall e, In e pre -> is_notif e = false) /\
                 In m (H c') /\ (forall e, In e (H c') -> h_exp m <= h_exp e)).
Proof. exact AgentInv.notif_spec. Qed.
Theorem C11_notif_iff : forall c o c' r evs now,
  step c o = (c', r, evs) -> arms o r now -> (exists pre id left, evs = pre ++ [Notif id left]) <-> H c' <> [].
Proof. exact AgentInv.notif_iff. Qed.
(* pending timers = outstanding requests (one each), so "something pending" is "some request awaits a response" *)
Theorem C11_pending_iff_outstanding : forall c, Inv c -> (H c = [] <-> T c = []).
Proof. exact AgentInv.inv_H_nil_iff. Qed.
(* responses, indications and refused sends never issue a notification *)
Theorem C11_no_notif_otherwise : forall c o c' r evs,
  step c o = (c', r, evs) -> (forall now, ~ arms o r now) -> forall e, In e evs -> is_notif e = false.
Proof. exact AgentInv.no_notif_otherwise. Qed.
Print Assumptions C11_notif_spec.
Print Assumptions C11_notif_iff.

(* sufficiency: at any point of any history, a timer call at `now` (however late) leaves only entries that expire after
   now, and every request whose deadline t0 + slot Rc has passed gets its Failed event in that very call and leaves the
   table; none fails before its deadline. A controller that fires the armed timer therefore sees every request reach a
   final outcome no later than the first call at or after its deadline. *)
Theorem C11_all_due_processed_and_deadline : forall t0of rof c ops now,
  Inv c -> SInv t0of rof c -> fresh_trace (ids_t (T c)) ops -> Forall (ghost_op t0of rof) ops ->
  let c1 := fst (run c ops) in
  let '(c', _, ev) := step c1 (Tmo now) in
  SInv t0of rof c' /\
  (forall e, In e (H c') -> now < h_exp e) /\
  (forall id, In id (ids_t (T c1)) -> deadline t0of rof c1 id <= now ->
     In (Failed id (rsn id (markers c1))) ev /\ ~ In id (ids_t (T c')) /\ mem id (markers c') = false) /\
  (forall id rs, In (Failed id rs) ev -> deadline t0of rof c1 id <= now /\ rs = rsn id (markers c1) /\ In id (ids_t (T c1))) /\
  (forall id p0, In (Out id false p0) ev -> now < deadline t0of rof c1 id /\ In id (ids_t (T c'))).
Proof. exact AgentSched.run_tmo_deadline. Qed.
Print Assumptions C11_all_due_processed_and_deadline.

(* ---- the property in exactly the form in which the implementation is judged: the spec monitor of this property
   (Agent/Monitors.v, written from the property text; it runs on every observed call of the implementation) accepts EVERY
   step of EVERY well-formed history of the model (fresh transaction ids, monotone instants, positive RTO), for every
   configuration. `obs_of` (Proofs/AgentMeets.v) builds the observation of a model step the way ocaml/driver.ml builds it
   from the implementation's output; run_mon runs model and monitors in lockstep; every step is judged (run_mon_judged). *)
From Rustun Require Import Agent.Rto Agent.Model Agent.Monitors Proofs.AgentMeets.
Theorem C11_model_meets_monitor : forall (cf:config) (m:mech) (mc:mcfg) (cc:ccfg) (ops:list op),
  consistent mc cf -> well_formed_history ops -> verdicts_true 11 (run_mon mc cc (init cf m) (mall0 cc) ops).
Proof. exact AgentMeets.model_meets_C11. Qed.
Print Assumptions C11_model_meets_monitor.
Theorem C11_every_step_judged : forall mc cc ops c s vs, In vs (run_mon mc cc c s ops) -> exists b cl, In (11%N, b, cl) vs.
Proof. intros mc cc ops c s vs H. apply (AgentMeets.run_mon_judged mc cc ops c s vs 11 H). cbn. tauto. Qed.
