(* C17 — A rejected buffer changes nothing. Statements only. *)
From Coq Require Import List NArith Bool.
Import ListNotations.
From Rustun Require Import Agent.Rto Agent.Model Proofs.AgentInv.
Open Scope N_scope.

(* whenever on_buffer_recv returns an error (undecodable bytes, a request, an unknown or finished transaction, a bad or
   missing fingerprint, a message that fails authentication and is to be ignored, a long-term indication, ...): no events,
   the outstanding table, the pending timers, the configuration and the credential state (learned algorithm, long-term
   state and parameters) are exactly as before; the only possible difference is the documented marker, on unreliable
   transport only *)
Theorem C17_reject_noop : forall c now d w c' r evs,
  step c (Recv now d w) = (c', r, evs) -> r <> ROk None ->
  evs = [] /\ T c' = T c /\ H c' = H c /\ cfg c' = cfg c /\ mech_ c' = mech_ c /\
  (markers c' = markers c \/ reliable (cfg c) = false /\ markers c' = ins (m_id w) (markers c)).
Proof. exact AgentInv.reject_noop. Qed.
Print Assumptions C17_reject_noop.

(* ---- the property in exactly the form in which the implementation is judged: the spec monitor of this property
   (Agent/Monitors.v, written from the property text; it runs on every observed call of the implementation) accepts EVERY
   step of EVERY well-formed history of the model (fresh transaction ids, monotone instants, positive RTO), for every
   configuration. `obs_of` (Proofs/AgentMeets.v) builds the observation of a model step the way ocaml/driver.ml builds it
   from the implementation's output; run_mon runs model and monitors in lockstep; every step is judged (run_mon_judged). *)
From Rustun Require Import Agent.Rto Agent.Model Agent.Monitors Proofs.AgentMeets.
Theorem C17_model_meets_monitor : forall (cf:config) (m:mech) (mc:mcfg) (cc:ccfg) (ops:list op),
  consistent mc cf -> well_formed_history ops -> verdicts_true 17 (run_mon mc cc (init cf m) (mall0 cc) ops).
Proof. exact AgentMeets.model_meets_C17. Qed.
Print Assumptions C17_model_meets_monitor.
Theorem C17_every_step_judged : forall mc cc ops c s vs, In vs (run_mon mc cc c s ops) -> exists b cl, In (17%N, b, cl) vs.
Proof. intros mc cc ops c s vs H. apply (AgentMeets.run_mon_judged mc cc ops c s vs 17 H). cbn. tauto. Qed.
