(* C17 — A rejected buffer changes nothing. Statements only. *)
From Coq Require Import List NArith Bool.
Import ListNotations.
From Rustun Require Import Agent.Rto Agent.Model Proofs.AgentInv.
Open Scope N_scope.

(* whenever on_buffer_recv returns an error (undecodable bytes, a request, an unknown or finished transaction, a bad or
   missing fingerprint, a message that fails authentication and is to be ignored, a long-term indication, ...): no events,
   the outstanding table, the pending timers, the configuration and the credential state (learned algorithm, long-term
   state and parameters) are exactly as before; the only possible difference is the documented marker, on unreliable
   transport only *)
Theorem C17_reject_noop : forall c now d w c' r evs,
  step c (Recv now d w) = (c', r, evs) -> r <> ROk None ->
  evs = [] /\ T c' = T c /\ H c' = H c /\ cfg c' = cfg c /\ mech_ c' = mech_ c /\
  (markers c' = markers c \/ reliable (cfg c) = false /\ markers c' = ins (m_id w) (markers c)).
Proof. exact AgentInv.reject_noop. Qed.
Print Assumptions C17_reject_noop.

(* ---- the property in exactly the form in which the implementation is judged: the spec monitor of this property
   (Agent/Monitors.v, written from the property text; it runs on every observed call of the implementation) accepts EVERY
   step of EVERY well-formed history of the model (fresh transaction ids, monotone instants, positive RTO), for every
   configuration. `obs_of` (Proofs/AgentMeets.v) builds the observation of a model step the way ocaml/driver.ml builds it
   from the implementation's output; run_mon runs model and monitors in lockstep; every step is judged (run_mon_judged). *)
From Rustun Require Import Agent.Rto Agent.Model Agent.Monitors Proofs.AgentMeets.
Theorem C17_model_meets_monitor : forall (cf:config) (m:mech) (mc:mcfg) (cc:ccfg) (ops:list op),
  consistent mc cf -> well_formed_history ops -> verdicts_true 17 (run_mon mc cc (init cf m) (mall0 cc) ops).
Proof. exact AgentMeets.model_meets_C17. Qed.
Print Assumptions C17_model_meets_monitor.
Theorem C17_every_step_judged : forall mc cc ops c s vs, In vs (run_mon mc cc c s ops) -> exists b cl, In (17%N, b, cl) vs.
Proof. intros mc cc ops c s vs H. apply (AgentMeets.run_mon_judged mc cc ops c s vs 17 H). cbn. tauto. Qed.

(* ---- the integrity bookkeeping the mechanisms call (TransportIntegrity, stun-agent/src/integrity.rs): the Rust text of new,
   discard_message, compute_message_integrity and signal_protection_violated_on_timeout, translated by tools/rs2v.py on every
   run (Generated/Code.v), equals Model.discard_message / Model.compute_mi / Model.mem, Model.del for every state and message
   (Proofs/CodeAgreeIntegrity.v). HashSet<TransactionId> is a list under set semantics (set_insert / set_remove / set_mem of
   Base/GRes.v are Model.ins / del / mem); a message is (class, transaction id); validate_message_integrity is an oracle
   argument of the generated function: the agreement holds for every oracle that answers this call as the abstract model
   does (a MAC verifies iff it was made with the verifier's key; byte level: C04), for any encodings of attributes / keys *)
From Rustun Require Import Base.GRes Generated.Code Proofs.CodeAgreeIntegrity.
Theorem C17_code_integrity_is_model :
  (forall rel : bool, gen_TransportIntegrity_new rel = CodeAgreeIntegrity.ti rel [])
  /\ (forall (rel : bool) (mk : list Model.txid) (m : Model.msg),
        gen_TransportIntegrity_discard_message (CodeAgreeIntegrity.ti rel mk) (CodeAgreeIntegrity.msg_abs m)
        = GRes.GOk (CodeAgreeIntegrity.ierr_code (fst (Model.discard_message rel mk m)),
                    CodeAgreeIntegrity.ti rel (snd (Model.discard_message rel mk m))))
  /\ (forall (enc : Model.attr -> N) (kenc : Model.keyd -> N) (oracle : N -> N -> list N -> bool)
             (rel : bool) (mk : list Model.txid) (key : Model.keyd) (integrity : option Model.attr) (raw : list N) (m : Model.msg),
        (forall a : Model.attr, integrity = Some a -> oracle (enc a) (kenc key) raw = Model.keyd_eqb (Model.mac_key a) key) ->
        gen_TransportIntegrity_compute_message_integrity (CodeAgreeIntegrity.ti rel mk) (kenc key) (option_map enc integrity) raw
          (CodeAgreeIntegrity.msg_abs m) oracle
        = GRes.GOk (CodeAgreeIntegrity.res_code (fst (Model.compute_mi rel mk key integrity m)),
                    CodeAgreeIntegrity.ti rel (snd (Model.compute_mi rel mk key integrity m))))
  /\ (forall (rel : bool) (mk : list Model.txid) (id : N),
        gen_TransportIntegrity_signal_protection_violated_on_timeout (CodeAgreeIntegrity.ti rel mk) id
        = GRes.GOk (Model.mem id mk, CodeAgreeIntegrity.ti rel (Model.del id mk))).
Proof. exact CodeAgreeIntegrity.code_integrity_is_model. Qed.
Print Assumptions C17_code_integrity_is_model.

(* ---- "when the client rejects a received buffer (undecodable bytes, ...)": bytes that are not a STUN message are rejected by
   the model with the client EXACTLY as before (no marker exception), and the clause Monitors.mon_C17_undecodable, by which
   the implementation is judged on every such buffer of the agent suite, holds of every model step *)
From Rustun Require Import Proofs.AgentMeets5.
Theorem C17_undecodable_changes_nothing : forall (c:Model.client) (now:N) (w:Model.msg),
  Model.step c (Model.Recv now false w) = (c, Model.RInternal, []).
Proof. exact AgentMeets5.undecodable_changes_nothing. Qed.
Theorem C17_model_meets_undecodable_monitor : forall mc c s used o c' rep evs,
  AgentMeets.R mc c s used -> Model.step c o = (c', rep, evs) ->
  Monitors.mon_C17_undecodable s (AgentMeets.mop_of o rep) (AgentMeets.obs_of c c' o rep evs) = true.
Proof. exact AgentMeets5.step_C17_undecodable. Qed.
Print Assumptions C17_undecodable_changes_nothing.
Print Assumptions C17_model_meets_undecodable_monitor.
