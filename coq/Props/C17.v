(* C17 — A rejected buffer changes nothing. Statements only. *)
From Coq Require Import List NArith Bool.
Import ListNotations.
From Rustun Require Import Agent.Rto Agent.Model Proofs.AgentInv.
Open Scope N_scope.

(* whenever on_buffer_recv returns an error (undecodable bytes, a request, an unknown or finished transaction, a bad or
   missing fingerprint, a message that fails authentication and is to be ignored, a long-term indication, ...): no events,
   the outstanding table, the pending timers, the configuration and the credential state (learned algorithm, long-term
   state and parameters) are exactly as before; the only possible difference is the documented marker, on unreliable
   transport only *)
Theorem C17_reject_noop : forall c now d w c' r evs,
  step c (Recv now d w) = (c', r, evs) -> r <> ROk None ->
  evs = [] /\ T c' = T c /\ H c' = H c /\ cfg c' = cfg c /\ mech_ c' = mech_ c /\
  (markers c' = markers c \/ reliable (cfg c) = false /\ markers c' = ins (m_id w) (markers c)).
Proof. exact AgentInv.reject_noop. Qed.
Print Assumptions C17_reject_noop.
