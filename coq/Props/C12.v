(* C12 — The outstanding-request limit counts exactly the unfinished requests. Statements only. *)
From Coq Require Import List NArith Bool.
Import ListNotations.
From Rustun Require Import Agent.Rto Agent.Model Proofs.AgentInv Proofs.AgentTrace.
Open Scope N_scope.

Theorem C12_refuse_iff : forall c now id r method app room,
  N.of_nat (length (T c)) <= limit (cfg c) ->
  snd (fst (step c (Send now id r method app room))) = RMaxOut <-> N.of_nat (length (T c)) = limit (cfg c).
Proof. exact AgentInv.refuse_iff. Qed.
Theorem C12_refusal_noop : forall c now id r method app room,
  snd (fst (step c (Send now id r method app room))) = RMaxOut -> step c (Send now id r method app room) = (c, RMaxOut, []).
Proof. exact AgentInv.refusal_noop. Qed.
(* the count never exceeds the limit, in every reachable state *)
Theorem C12_count_le_limit : forall c o,
  N.of_nat (length (T c)) <= limit (cfg c) -> N.of_nat (length (T (fst (fst (step c o))))) <= limit (cfg (fst (fst (step c o)))).
Proof. exact AgentInv.count_le_limit. Qed.
(* indications never consume a slot (the state does not change at all) *)
Theorem C12_indications_free : forall c id method app room, fst (fst (step c (Indication id method app room))) = c.
Proof. exact AgentInv.indication_state. Qed.
(* every final outcome delivered by a response (message, retry instruction, failure) frees exactly one slot: its own *)
Theorem C12_final_frees_one : forall c now d w c' evs,
  Inv c -> step c (Recv now d w) = (c', ROk None, evs) -> is_response w = true ->
  (length (T c') + 1)%nat = length (T c) /\
  (forall x, In x (ids_t (T c')) <-> In x (ids_t (T c)) /\ x <> m_id w) /\ In (m_id w) (ids_t (T c)).
Proof. exact AgentInv.final_frees_one. Qed.
Print Assumptions C12_refuse_iff.
Print Assumptions C12_refusal_noop.
Print Assumptions C12_count_le_limit.
Print Assumptions C12_final_frees_one.
(* expiry frees the slot too: C06_tmo_deadline item (3) — a request whose deadline has passed is not in the table after the call *)

(* ---- the property in exactly the form in which the implementation is judged: the spec monitor of this property
   (Agent/Monitors.v, written from the property text; it runs on every observed call of the implementation) accepts EVERY
   step of EVERY well-formed history of the model (fresh transaction ids, monotone instants, positive RTO), for every
   configuration. `obs_of` (Proofs/AgentMeets.v) builds the observation of a model step the way ocaml/driver.ml builds it
   from the implementation's output; run_mon runs model and monitors in lockstep; every step is judged (run_mon_judged). *)
From Rustun Require Import Agent.Rto Agent.Model Agent.Monitors Proofs.AgentMeets.
Theorem C12_model_meets_monitor : forall (cf:config) (m:mech) (mc:mcfg) (cc:ccfg) (ops:list op),
  consistent mc cf -> well_formed_history ops -> verdicts_true 12 (run_mon mc cc (init cf m) (mall0 cc) ops).
Proof. exact AgentMeets.model_meets_C12. Qed.
Print Assumptions C12_model_meets_monitor.
Theorem C12_every_step_judged : forall mc cc ops c s vs, In vs (run_mon mc cc c s ops) -> exists b cl, In (12%N, b, cl) vs.
Proof. intros mc cc ops c s vs H. apply (AgentMeets.run_mon_judged mc cc ops c s vs 12 H). cbn. tauto. Qed.
