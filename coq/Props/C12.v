(* C12 — The outstanding-request limit counts exactly the unfinished requests. Statements only. *)
From Coq Require Import List NArith Bool.
Import ListNotations.
From Rustun Require Import Agent.Rto Agent.Model Proofs.AgentInv Proofs.AgentTrace.
Open Scope N_scope.

Theorem C12_refuse_iff : forall c now id r method app room,
  N.of_nat (length (T c)) <= limit (cfg c) ->
  snd (fst (step c (Send now id r method app room))) = RMaxOut <-> N.of_nat (length (T c)) = limit (cfg c).
Proof. exact AgentInv.refuse_iff. Qed.
Theorem C12_refusal_noop : forall c now id r method app room,
  snd (fst (step c (Send now id r method app room))) = RMaxOut -> step c (Send now id r method app room) = (c, RMaxOut, []).
Proof. exact AgentInv.refusal_noop. Qed.
(* the count never exceeds the limit, in every reachable state *)
Theorem C12_count_le_limit : forall c o,
  N.of_nat (length (T c)) <= limit (cfg c) -> N.of_nat (length (T (fst (fst (step c o))))) <= limit (cfg (fst (fst (step c o)))).
Proof. exact AgentInv.count_le_limit. Qed.
(* indications never consume a slot (the state does not change at all) *)
Theorem C12_indications_free : forall c id method app room, fst (fst (step c (Indication id method app room))) = c.
Proof. exact AgentInv.indication_state. Qed.
(* every final outcome delivered by a response (message, retry instruction, failure) frees exactly one slot: its own *)
Theorem C12_final_frees_one : forall c now d w c' evs,
  Inv c -> step c (Recv now d w) = (c', ROk None, evs) -> is_response w = true ->
  (length (T c') + 1)%nat = length (T c) /\
  (forall x, In x (ids_t (T c')) <-> In x (ids_t (T c)) /\ x <> m_id w) /\ In (m_id w) (ids_t (T c)).
Proof. exact AgentInv.final_frees_one. Qed.
Print Assumptions C12_refuse_iff.
Print Assumptions C12_refusal_noop.
Print Assumptions C12_count_le_limit.
Print Assumptions C12_final_frees_one.
(* expiry frees the slot too: C06_tmo_deadline item (3) — a request whose deadline has passed is not in the table after the call *)
