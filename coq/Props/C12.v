(* C12 — statements are added with the proofs; see DESIGN.md *)
From Coq Require Import List NArith Bool.
From Rustun Require Import Agent.Rto Agent.Model Agent.Monitors.
