(* Facts about the byte <-> abstract-message glue (Agent/AbsGlue.v): the nonce-cookie flavours of the abstract model have
   the byte-level meaning nonce_cookie.rs gives them, and the vocabulary is read back exactly. *)
From Coq Require Import List NArith Bool Lia Arith PeanoNat.
Import ListNotations.
From Rustun Require Import Base.Tlv Codec.AttrValue Agent.Model Agent.AbsGlue.
Open Scope N_scope.

(* what Model.harvest1 does with the cookie flavour c of a NONCE: `decodable` = flavours 1..4, password-algorithms bit =
   flavours 2 and 4, anonymity bit = flavours 3 and 4; flavour 0 is not a cookie, 5 and 6 are cookies whose feature
   characters cannot be read (the model treats "not a cookie" and "unreadable" alike: the bits keep their value) *)
Definition model_cookie (c:N) : option (option (bool * bool)) :=
  if c =? 0 then None
  else if (1 <=? c) && (c <=? 4) then Some (Some ((c =? 2) || (c =? 4), (c =? 3) || (c =? 4)))
  else Some None.

Lemma strip_prefix_app p s : strip_prefix p (p ++ s) = Some s.
Proof. induction p as [|x p IH]; cbn [strip_prefix app]; [reflexivity|]. rewrite N.eqb_refl. exact IH. Qed.

(* for EVERY nonce number n: the bytes the vocabulary writes for flavour c are read by the nonce_cookie.rs model exactly
   as the abstract model interprets flavour c *)
Theorem cookie_semantics : forall n c, c <= 6 -> nonce_features (nonce_str n c) = model_cookie c.
Proof.
  intros n c Hc.
  assert (Hcases : c = 0 \/ c = 1 \/ c = 2 \/ c = 3 \/ c = 4 \/ c = 5 \/ c = 6) by lia.
  destruct Hcases as [->|[->|[->|[->|[->|[->| ->]]]]]]; unfold nonce_features.
  - (* plain: the first byte is not the header's *) reflexivity.
  - change (nonce_str n 1) with (nonce_cookie_header ++ (b64_enc3 0 0 0 ++ k_n ++ dec n)).
    rewrite strip_prefix_app. reflexivity.
  - change (nonce_str n 2) with (nonce_cookie_header ++ (b64_enc3 128 0 0 ++ k_n ++ dec n)).
    rewrite strip_prefix_app. reflexivity.
  - change (nonce_str n 3) with (nonce_cookie_header ++ (b64_enc3 64 0 0 ++ k_n ++ dec n)).
    rewrite strip_prefix_app. reflexivity.
  - change (nonce_str n 4) with (nonce_cookie_header ++ (b64_enc3 192 0 0 ++ k_n ++ dec n)).
    rewrite strip_prefix_app. reflexivity.
  - change (nonce_str n 5) with (nonce_cookie_header ++ (k_badfeat_n ++ dec n)).
    rewrite strip_prefix_app. reflexivity.
  - change (nonce_str n 6) with (nonce_cookie_header ++ (k_abc ++ [195; 128; 194; 128] ++ k_n ++ dec n)).
    rewrite strip_prefix_app. reflexivity.
Qed.
Print Assumptions cookie_semantics.

(* the model's reading of a flavour, as used in Model.harvest1, is model_cookie *)
Lemma model_cookie_decodable c : c <= 6 ->
  ((1 <=? c) && (c <=? 4) = true <-> exists f, model_cookie c = Some (Some f)).
Proof.
  intros Hc. unfold model_cookie.
  destruct (c =? 0) eqn:E0.
  - apply N.eqb_eq in E0; subst. cbn. split; [discriminate|intros [f Hf]; discriminate].
  - destruct ((1 <=? c) && (c <=? 4)); split; intros H; try discriminate; eauto.
    destruct H as [f Hf]; discriminate.
Qed.

(* the vocabulary is read back exactly: every nonce number below 2000 in every flavour (finite sweep, bound stated) *)
Fixpoint upto (k:nat) : list N := match k with O => [] | S j => upto j ++ [N.of_nat j] end.
Definition nonce_rt_ok (n c:N) : bool := let '(n', c') := parse_nonce (nonce_str n c) in (n' =? n) && (c' =? c).
Lemma nonce_roundtrip_sweep : forallb (fun n => forallb (nonce_rt_ok n) [0;1;2;3;4;5;6]) (upto 2000) = true.
Proof. vm_compute. reflexivity. Qed.
Lemma in_upto k n : (N.to_nat n < k)%nat -> In n (upto k).
Proof.
  induction k as [|k IH]; intros H; [lia|]. cbn [upto]. apply in_or_app.
  destruct (Nat.eq_dec (N.to_nat n) k) as [E|E].
  - right. left. rewrite <- E. apply N2Nat.id.
  - left. apply IH. lia.
Qed.
Theorem nonce_roundtrip : forall n c, n < 2000 -> c <= 6 -> parse_nonce (nonce_str n c) = (n, c).
Proof.
  intros n c Hn Hc.
  pose proof nonce_roundtrip_sweep as H. rewrite forallb_forall in H.
  specialize (H n (in_upto 2000 n ltac:(lia))). rewrite forallb_forall in H.
  assert (Hin : In c [0;1;2;3;4;5;6]) by (cbn; lia).
  specialize (H c Hin). unfold nonce_rt_ok in H. destruct (parse_nonce (nonce_str n c)) as [n' c'].
  apply andb_prop in H as [H1 H2]. apply N.eqb_eq in H1, H2. subst. reflexivity.
Qed.
Print Assumptions nonce_roundtrip.

(* user / realm / password tokens below 2000 are read back exactly *)
Lemma vocab_sweep : forallb (fun n => (num_after k_user (user_str n) =? n)
    && (match strip_prefix k_realm (realm_str n) with
        | Some r => match strip_suffix k_dot_org r with Some d => num d =? n | None => false end | None => false end))
    (upto 2000) = true.
Proof. vm_compute. reflexivity. Qed.
