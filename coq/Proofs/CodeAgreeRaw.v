(* Agreement of the raw.rs functions GENERATED from /repo's current Rust text (Generated/Code.v, by tools/rs2v.py) with the
   hand-written byte-level models every decoder theorem (C03, C04, C09, C10, C18) is about:
     stun-rs/src/common.rs  check_buffer_boundaries                 = (n <=? len b)
     stun-rs/src/raw.rs     MessageHeader::decode                   = Wire.hdr_valid / Wire.msg_length
                            RawMessage::decode                      = header + 20 + msg_length <= len + the attribute slice
                            RawAttribute::decode, RawAttributesIter = Tlv.dec_tlvs (the raw TLV walk)
                            get_input_text                          = InputText.input_text (find_attr, set_len)
   Statements are for ALL byte lists (elements < 256: bytes_ok); lengths are bounded by isize::MAX (2^63) where the
   usize position arithmetic of the iterator needs it (Rust guarantees it of every slice); never GPanic, never GFuel. *)
From Coq Require Import List NArith ZArith Lia Bool Arith ZifyBool ZifyN.
Ltac Zify.zify_post_hook ::= Z.div_mod_to_equations.
Import ListNotations.
From Rustun Require Import Base.GRes Base.Tlv Generated.Constants Generated.Code Codec.InputText Codec.Wire Proofs.CodeAgreePad.
Open Scope N_scope.

(* ---- lists, N-indexed *)
Lemma len_nil : len [] = 0. Proof. reflexivity. Qed.
Lemma len_cons x l : len (x :: l) = 1 + len l.
Proof. unfold len. cbn [length]. lia. Qed.
Lemma len_take n l : len (take n l) = N.min n (len l).
Proof. unfold len, take. rewrite firstn_length. lia. Qed.
Lemma len_drop n l : len (drop n l) = len l - n.
Proof. unfold len, drop. rewrite skipn_length. lia. Qed.
Lemma skipn_add : forall (a c:nat) (l:list N), skipn a (skipn c l) = skipn (c + a) l.
Proof.
  intros a c. revert a. induction c as [|c IH]; intros a l; [reflexivity|].
  destruct l as [|x l]; [cbn [skipn Nat.add]; destruct a; reflexivity|]. cbn [skipn Nat.add]. apply IH.
Qed.
Lemma drop_drop a c l : drop a (drop c l) = drop (c + a) l.
Proof. unfold drop. rewrite skipn_add. f_equal. lia. Qed.
Lemma drop_0 l : drop 0 l = l. Proof. reflexivity. Qed.
Lemma drop_cons4 x0 x1 x2 x3 n l : drop (4 + n) (x0 :: x1 :: x2 :: x3 :: l) = drop n l.
Proof. unfold drop. replace (N.to_nat (4 + n)) with (4 + N.to_nat n)%nat by lia. reflexivity. Qed.
Lemma bytes_ok_drop n l : bytes_ok l = true -> bytes_ok (drop n l) = true.
Proof.
  unfold bytes_ok, drop. intros H. rewrite forallb_forall in *. intros x Hx. apply H.
  rewrite <- (firstn_skipn (N.to_nat n) l). apply in_or_app. right. exact Hx.
Qed.
Lemma bytes_ok_take n l : bytes_ok l = true -> bytes_ok (take n l) = true.
Proof.
  unfold bytes_ok, take. intros H. rewrite forallb_forall in *. intros x Hx. apply H.
  rewrite <- (firstn_skipn (N.to_nat n) l). apply in_or_app. left. exact Hx.
Qed.
Lemma bytes_ok_cons x l : bytes_ok (x :: l) = true -> x < 256 /\ bytes_ok l = true.
Proof. unfold bytes_ok. cbn [forallb]. intros H. apply andb_prop in H as [A B]. unfold byte_ok in A. apply N.ltb_lt in A. auto. Qed.
Lemma len_drop_split pos l : pos <= len l -> len l = pos + len (drop pos l).
Proof. intros H. rewrite len_drop. lia. Qed.
Lemma drop_nil_len pos l : pos <= len l -> drop pos l = [] -> pos = len l.
Proof. intros H E. pose proof (len_drop pos l) as D. rewrite E, len_nil in D. lia. Qed.
Lemma rd16_lt a b : a < 256 -> b < 256 -> rd16 a b < 65536.
Proof. unfold rd16. lia. Qed.
Lemma pad_lt n : pad n < 4.
Proof. unfold pad. apply N.mod_lt. lia. Qed.
Lemma pad_add4 n : pad (4 + n) = pad n.
Proof. unfold pad. replace ((4 + n) mod 4) with (n mod 4); [reflexivity|]. lia. Qed.

(* ---- the slice primitives of the translated code *)
Lemma be_read2 a b r : be_read 2 (a :: b :: r) = rd16 a b.
Proof. unfold be_read, rd16. change (N.to_nat 2) with 2%nat. cbn [firstn fold_left]. lia. Qed.
Lemma list_N_eqb_is_bytes_eqb : forall a b, list_N_eqb a b = bytes_eqb a b.
Proof. induction a as [|x a IH]; intros [|y b]; cbn [list_N_eqb bytes_eqb]; first [reflexivity | rewrite IH; reflexivity]. Qed.
Lemma magic_cookie_bytes : be32_bytes gen_MAGIC_COOKIE = cookie_bytes.
Proof. vm_compute. reflexivity. Qed.

(* ---- 1. check_buffer_boundaries *)
Lemma gen_check_buffer_boundaries_agrees : forall b n,
  gen_check_buffer_boundaries b n = if n <=? len b then Some tt else None.
Proof.
  (* written so that it survives equivalent rewrites of the comparison (`len >= limit`, `!(len < limit)`, early return) *)
  intros b n. unfold gen_check_buffer_boundaries.
  repeat match goal with
         | |- context [?x <=? ?y] => destruct (N.leb_spec x y)
         | |- context [?x <? ?y] => destruct (N.ltb_spec x y)
         end; cbn [negb]; try reflexivity; lia.
Qed.

(* ---- 2. MessageHeader::decode *)
Definition hdr_type (b:bytes) : N := match b with a0 :: a1 :: _ => N.land (rd16 a0 a1) 16383 | _ => 0 end.
Definition hdr_of (b:bytes) : MessageHeader :=
  {| MessageHeader_bits := 0; MessageHeader_msg_type := hdr_type b; MessageHeader_msg_length := msg_length b;
     MessageHeader_cookie := take 4 (drop 4 b); MessageHeader_transaction_id := take 12 (drop 8 b) |}.

Lemma hdr_valid_short b : len b < 20 -> hdr_valid b = false.
Proof.
  intros H. destruct b as [|a0 [|a1 [|l1 [|l2 [|c0 [|c1 [|c2 [|c3 r]]]]]]]]; try reflexivity.
  cbn [hdr_valid]. rewrite !len_cons in H.
  assert ((12 <=? len r) = false) as -> by (apply N.leb_gt; lia). apply andb_false_r.
Qed.
Lemma hdr_valid_len b : hdr_valid b = true -> 20 <= len b.
Proof. intros H. destruct (N.le_gt_cases 20 (len b)) as [L|L]; [exact L|]. rewrite hdr_valid_short in H by lia. discriminate. Qed.

Lemma gen_header_agrees : forall b, bytes_ok b = true ->
  gen_MessageHeader_decode b = GOk (if hdr_valid b then Some (hdr_of b, 20) else None).
Proof.
  intros b Hok. unfold gen_MessageHeader_decode, gen_check_buffer_boundaries.
  destruct (N.leb_spec 20 (len b)) as [H20|H20].
  2:{ rewrite hdr_valid_short by exact H20. reflexivity. }
  destruct b as [|a0 [|a1 [|l1 [|l2 [|c0 [|c1 [|c2 [|c3 [|t0 [|t1 [|t2 [|t3 [|t4 [|t5 [|t6 [|t7 [|t8 [|t9 [|t10 [|t11 r]]]]]]]]]]]]]]]]]]]];
    try (exfalso; rewrite ?len_cons, ?len_nil in H20; lia).
  apply bytes_ok_cons in Hok as [Ha0 Hok]. apply bytes_ok_cons in Hok as [Ha1 Hok].
  set (b := a0 :: a1 :: l1 :: l2 :: c0 :: c1 :: c2 :: c3 :: t0 :: t1 :: t2 :: t3 :: t4 :: t5 :: t6 :: t7 :: t8 :: t9 :: t10 :: t11 :: r) in *.
  change (4 - 2) with 2. change (8 - 4) with 4. change (20 - 8) with 12.
  assert (T2 : take 2 b = [a0; a1]) by reflexivity.
  assert (D2 : take 2 (drop 2 b) = [l1; l2]) by reflexivity.
  assert (D4 : take 4 (drop 4 b) = [c0; c1; c2; c3]) by reflexivity.
  assert (D8 : take 12 (drop 8 b) = [t0; t1; t2; t3; t4; t5; t6; t7; t8; t9; t10; t11]) by reflexivity.
  unfold hdr_of. rewrite T2, D2, D4, D8.
  assert (E2 : (2 <=? len b) = true) by (apply N.leb_le; lia).
  assert (E4 : (4 <=? len b) = true) by (apply N.leb_le; lia).
  assert (E8 : (8 <=? len b) = true) by (apply N.leb_le; lia).
  rewrite E2, E4, E8. rewrite !be_read2.
  change (len [a0; a1]) with 2. change (len [l1; l2]) with 2. change (len [c0; c1; c2; c3]) with 4.
  change (len [t0; t1; t2; t3; t4; t5; t6; t7; t8; t9; t10; t11]) with 12.
  change (2 <=? 2) with true. change (2 <=? 4) with true. change (4 <=? 8) with true. change (8 <=? 20) with true.
  change (4 =? 4) with true. change (12 =? 12) with true. cbn [andb negb].
  rewrite N.shiftr_div_pow2. change (2 ^ 14) with 16384.
  assert (Hb : rd16 a0 a1 / 16384 = a0 / 64) by (unfold rd16; lia).
  rewrite Hb.
  assert ((a0 / 64 <? 256) = true) as -> by (apply N.ltb_lt; lia).
  assert (Hv : hdr_valid b = (a0 <? 64) && bytes_eqb [c0; c1; c2; c3] cookie_bytes).
  { unfold b. cbn [hdr_valid bytes_eqb cookie_bytes].
    assert ((12 <=? len (t0 :: t1 :: t2 :: t3 :: t4 :: t5 :: t6 :: t7 :: t8 :: t9 :: t10 :: t11 :: r)) = true) as ->
      by (apply N.leb_le; rewrite !len_cons; lia).
    rewrite !andb_true_r. rewrite <- !andb_assoc. reflexivity. }
  rewrite Hv, list_N_eqb_is_bytes_eqb, magic_cookie_bytes.
  destruct (N.eqb_spec (a0 / 64) 0) as [Z|Z].
  - assert ((a0 <? 64) = true) as -> by (apply N.ltb_lt; lia). cbn [negb andb]. rewrite Z.
    destruct (bytes_eqb [c0; c1; c2; c3] cookie_bytes); reflexivity.
  - assert ((a0 <? 64) = false) as -> by (apply N.ltb_ge; lia). reflexivity.
Qed.

(* ---- 3. RawMessage::decode *)
Definition raw_of (b:bytes) : RawMessage :=
  {| RawMessage_header := hdr_of b; RawMessage_attributes := take (msg_length b) (drop 20 b) |}.
Lemma msg_length_lt b : bytes_ok b = true -> msg_length b < 65536.
Proof.
  intros Hok. destruct b as [|a0 [|a1 [|l1 [|l2 r]]]]; cbn [msg_length]; try lia.
  apply bytes_ok_cons in Hok as [_ Hok]. apply bytes_ok_cons in Hok as [_ Hok].
  apply bytes_ok_cons in Hok as [H1 Hok]. apply bytes_ok_cons in Hok as [H2 _]. apply rd16_lt; assumption.
Qed.
Lemma gen_raw_message_agrees : forall b, bytes_ok b = true ->
  gen_RawMessage_decode b
  = GOk (if hdr_valid b && (20 + msg_length b <=? len b) then Some (raw_of b, 20 + msg_length b) else None).
Proof.
  intros b Hok. unfold gen_RawMessage_decode. rewrite gen_header_agrees by exact Hok.
  destruct (hdr_valid b); [|reflexivity]. cbn [andb].
  cbn [hdr_of MessageHeader_msg_length]. pose proof (msg_length_lt b Hok) as HL.
  assert ((20 + msg_length b <? 18446744073709551616) = true) as -> by (apply N.ltb_lt; lia). cbn [negb].
  unfold gen_check_buffer_boundaries.
  destruct (N.leb_spec (20 + msg_length b) (len b)) as [H|H]; [|reflexivity].
  assert ((20 <=? 20 + msg_length b) = true) as -> by (apply N.leb_le; lia). cbn [andb negb].
  replace (20 + msg_length b - 20) with (msg_length b) by lia. reflexivity.
Qed.

(* ---- 4. RawAttribute::decode and the fallible iterator *)
Definition attr_step (buf:bytes) : option (RawAttribute * N) :=
  match buf with
  | t1 :: t2 :: l1 :: l2 :: rest =>
      if len rest <? rd16 l1 l2 then None
      else Some ({| RawAttribute_attr_type := rd16 t1 t2; RawAttribute_value := take (rd16 l1 l2) rest |}, 4 + rd16 l1 l2)
  | _ => None
  end.
Lemma gen_raw_attribute_agrees : forall buf, bytes_ok buf = true -> gen_RawAttribute_decode buf = GOk (attr_step buf).
Proof.
  intros buf Hok. unfold gen_RawAttribute_decode, gen_check_buffer_boundaries.
  destruct buf as [|t1 [|t2 [|l1 [|l2 rest]]]]; try reflexivity.
  apply bytes_ok_cons in Hok as [_ Hok]. apply bytes_ok_cons in Hok as [_ Hok].
  apply bytes_ok_cons in Hok as [Hl1 Hok]. apply bytes_ok_cons in Hok as [Hl2 _].
  pose proof (rd16_lt l1 l2 Hl1 Hl2) as Hn.
  change (attr_step (t1 :: t2 :: l1 :: l2 :: rest))
    with (if len rest <? rd16 l1 l2 then None
          else Some ({| RawAttribute_attr_type := rd16 t1 t2; RawAttribute_value := take (rd16 l1 l2) rest |}, 4 + rd16 l1 l2)).
  set (buf := t1 :: t2 :: l1 :: l2 :: rest).
  assert (HL : len buf = 4 + len rest) by (unfold buf; rewrite !len_cons; lia).
  change (4 - 2) with 2.
  assert (T2 : take 2 buf = [t1; t2]) by reflexivity.
  assert (D2 : take 2 (drop 2 buf) = [l1; l2]) by reflexivity.
  assert (D4 : drop 4 buf = rest) by reflexivity.
  rewrite T2, D2, D4, !be_read2.
  change (len [t1; t2]) with 2. change (len [l1; l2]) with 2.
  assert ((4 <=? len buf) = true) as -> by (apply N.leb_le; lia).
  assert ((2 <=? len buf) = true) as -> by (apply N.leb_le; lia).
  change (2 <=? 2) with true. change (2 <=? 4) with true. cbn [andb negb].
  assert ((4 + rd16 l1 l2 <? 18446744073709551616) = true) as -> by (apply N.ltb_lt; lia). cbn [negb].
  destruct (N.ltb_spec (len rest) (rd16 l1 l2)) as [H|H].
  - assert ((4 + rd16 l1 l2 <=? len buf) = false) as -> by (apply N.leb_gt; lia). reflexivity.
  - assert ((4 + rd16 l1 l2 <=? len buf) = true) as -> by (apply N.leb_le; lia).
    assert ((4 <=? 4 + rd16 l1 l2) = true) as -> by (apply N.leb_le; lia). cbn [andb negb].
    replace (4 + rd16 l1 l2 - 4) with (rd16 l1 l2) by lia. reflexivity.
Qed.

Definition mk_it (A:bytes) (pos:N) : RawAttributesIter := {| RawAttributesIter_buffer := A; RawAttributesIter_pos := pos |}.
(* one call of RawAttributesIter::next at position pos of A, in the vocabulary of Tlv.dec_tlvs *)
Definition next_model (A:bytes) (pos:N) : option (option RawAttribute) * RawAttributesIter :=
  match drop pos A with
  | [] => (Some None, mk_it A pos)
  | t1 :: t2 :: l1 :: l2 :: rest =>
      let n := rd16 l1 l2 in
      if len rest <? n then (None, mk_it A pos)
      else (if len rest <? n + pad n then None
            else Some (Some {| RawAttribute_attr_type := rd16 t1 t2; RawAttribute_value := take n rest |}),
            mk_it A (pos + 4 + (n + pad n)))
  | _ => (None, mk_it A pos)
  end.
Definition isize_max1 : N := 9223372036854775808.   (* 2^63: every Rust slice is at most isize::MAX bytes long *)

Lemma gen_iter_next_agrees : forall A pos, bytes_ok A = true -> len A < isize_max1 -> pos <= len A ->
  gen_RawAttributesIter_next (mk_it A pos) = GOk (next_model A pos).
Proof.
  intros A pos Hok HA Hpos. unfold isize_max1 in HA. unfold gen_RawAttributesIter_next.
  cbn [mk_it RawAttributesIter_buffer RawAttributesIter_pos].
  rewrite gen_raw_attribute_agrees by (apply bytes_ok_drop; exact Hok).
  pose proof (len_drop_split pos A Hpos) as HS.
  pose proof (bytes_ok_drop pos A Hok) as HokD.
  assert ((pos <=? len A) = true) as -> by (apply N.leb_le; exact Hpos). cbn [negb].
  unfold next_model.
  destruct (drop pos A) as [|t1 [|t2 [|l1 [|l2 rest]]]] eqn:ED.
  - rewrite len_nil in HS. assert ((pos =? len A) = true) as -> by (apply N.eqb_eq; lia). reflexivity.
  - rewrite !len_cons, len_nil in HS. assert ((pos =? len A) = false) as -> by (apply N.eqb_neq; lia). reflexivity.
  - rewrite !len_cons, len_nil in HS. assert ((pos =? len A) = false) as -> by (apply N.eqb_neq; lia). reflexivity.
  - rewrite !len_cons, len_nil in HS. assert ((pos =? len A) = false) as -> by (apply N.eqb_neq; lia). reflexivity.
  - rewrite !len_cons in HS. assert ((pos =? len A) = false) as -> by (apply N.eqb_neq; lia).
    apply bytes_ok_cons in HokD as [_ HokD]. apply bytes_ok_cons in HokD as [_ HokD].
    apply bytes_ok_cons in HokD as [Hl1 HokD]. apply bytes_ok_cons in HokD as [Hl2 _].
    pose proof (rd16_lt l1 l2 Hl1 Hl2) as Hn. cbn [attr_step]. cbv zeta.
    destruct (N.ltb_spec (len rest) (rd16 l1 l2)) as [H|H]; [reflexivity|].
    rewrite gen_padding_agrees. rewrite pad_add4. pose proof (pad_lt (rd16 l1 l2)) as Hp.
    assert ((4 + rd16 l1 l2 + pad (rd16 l1 l2) <? 18446744073709551616) = true) as -> by (apply N.ltb_lt; lia).
    assert ((pos + (4 + rd16 l1 l2 + pad (rd16 l1 l2)) <? 18446744073709551616) = true) as -> by (apply N.ltb_lt; lia).
    cbn [negb].
    replace (pos + (4 + rd16 l1 l2 + pad (rd16 l1 l2))) with (pos + 4 + (rd16 l1 l2 + pad (rd16 l1 l2))) by lia.
    destruct (N.ltb_spec (len rest) (rd16 l1 l2 + pad (rd16 l1 l2))) as [H2|H2].
    + assert ((pos + 4 + (rd16 l1 l2 + pad (rd16 l1 l2)) <=? len A) = false) as -> by (apply N.leb_gt; lia). reflexivity.
    + assert ((pos + 4 + (rd16 l1 l2 + pad (rd16 l1 l2)) <=? len A) = true) as -> by (apply N.leb_le; lia). reflexivity.
Qed.

(* the whole walk: call next until it yields Ok(None) (end: Some []) or Err (None) *)
Fixpoint gen_iter_all (fuel:nat) (it:RawAttributesIter) : gres (option (list (N * list N))) :=
  match fuel with
  | O => GFuel
  | S f =>
      match gen_RawAttributesIter_next it with
      | GOk (r, it') =>
          match r with
          | None => GOk None
          | Some None => GOk (Some [])
          | Some (Some a) =>
              match gen_iter_all f it' with
              | GOk (Some l) => GOk (Some ((RawAttribute_attr_type a, RawAttribute_value a) :: l))
              | e => e
              end
          end
      | GPanic => GPanic
      | GFuel => GFuel
      end
  end.
Definition res_opt {T} (r:res T) : option T := match r with Ok a => Some a | _ => None end.

Lemma drop_advance A pos t1 t2 l1 l2 rest adv :
  drop pos A = t1 :: t2 :: l1 :: l2 :: rest -> drop (pos + 4 + adv) A = drop adv rest.
Proof. intros ED. rewrite <- N.add_assoc, <- drop_drop, ED. apply drop_cons4. Qed.

Lemma gen_iter_all_agrees_at : forall f A fuel pos,
  bytes_ok A = true -> len A < isize_max1 -> pos <= len A -> (length (drop pos A) <= f)%nat -> (f < fuel)%nat ->
  gen_iter_all fuel (mk_it A pos) = GOk (res_opt (dec_tlvs f (drop pos A))).
Proof.
  induction f as [|f IH]; intros A fuel pos Hok HA Hpos Hf Hfuel; (destruct fuel as [|fuel]; [lia|]);
    cbn [gen_iter_all]; rewrite gen_iter_next_agrees by assumption; unfold next_model.
  - destruct (drop pos A) as [|x r]; [reflexivity|cbn [length] in Hf; lia].
  - pose proof (len_drop_split pos A Hpos) as HS.
    destruct (drop pos A) as [|t1 [|t2 [|l1 [|l2 rest]]]] eqn:ED; try reflexivity.
    cbn [dec_tlvs]. cbv zeta. set (n := rd16 l1 l2) in *.
    destruct (N.ltb_spec (len rest) n) as [H|H]; [reflexivity|].
    destruct (N.ltb_spec (len rest) (n + pad n)) as [H2|H2]; [reflexivity|].
    rewrite !len_cons in HS.
    rewrite IH; try assumption; try lia.
    + rewrite (drop_advance A pos t1 t2 l1 l2 rest (n + pad n) ED).
      destruct (dec_tlvs f (drop (n + pad n) rest)); reflexivity.
    + rewrite (drop_advance A pos t1 t2 l1 l2 rest (n + pad n) ED). unfold drop. rewrite skipn_length.
      cbn [length] in Hf. lia.
Qed.

Theorem gen_tlv_walk_agrees : forall attrs, bytes_ok attrs = true -> len attrs < isize_max1 ->
  gen_iter_all (S (length attrs)) (gen_RawAttributes_into_fallible_iter (gen_RawAttributes_from attrs))
  = GOk (res_opt (dec_tlvs (length attrs) attrs))
  /\ dec_tlvs (length attrs) attrs <> Panic.
Proof.
  intros attrs Hok HA. split; [|apply dec_tlvs_no_panic; lia].
  change (gen_RawAttributes_into_fallible_iter (gen_RawAttributes_from attrs)) with (mk_it attrs 0).
  rewrite (gen_iter_all_agrees_at (length attrs) attrs (S (length attrs)) 0); try assumption; try lia.
  - reflexivity.
  - rewrite drop_0. lia.
Qed.

(* ---- 5. get_input_text *)
(* the tail of get_input_text once the attribute was found at offset p of the attribute area, ending (padding included)
   at offset e: bounds check of p + 20, copy, u16 conversion of e, write at [2..4] *)
Definition input_text_tail (buffer:bytes) (p e:N) : gres (option (list N)) :=
  if negb (p + 20 <? 18446744073709551616) then GPanic
  else match gen_check_buffer_boundaries buffer (p + 20) with
       | Some _ =>
           if negb (p + 20 <=? len buffer) then GPanic
           else match (if e <? 65536 then Some e else None) with
                | Some q =>
                    if negb ((2 <=? 4) && (4 <=? len (take (p + 20) buffer)) && (2 <=? 4 - 2)) then GPanic
                    else GOk (Some (be_write16 (take (p + 20) buffer) 2 q))
                | None => GOk None
                end
       | None => GOk None
       end.

Lemma gen_loop_agrees : forall f A buffer ty q1 q2 rm attrs fuel pos,
  bytes_ok A = true -> len A < isize_max1 -> pos <= len A -> (length (drop pos A) <= f)%nat -> (f < fuel)%nat ->
  gen_get_input_text_loop_4 fuel buffer ty q1 q2 rm attrs (mk_it A pos) pos None
  = match find_attr f ty pos (drop pos A) with
    | Ok (Some (p, e)) => input_text_tail buffer p e
    | Ok None => GOk None
    | Err => GOk None
    | Panic => GPanic
    end.
Proof.
  induction f as [|f IH]; intros A buffer ty q1 q2 rm attrs fuel pos Hok HA Hpos Hf Hfuel; (destruct fuel as [|fuel]; [lia|]);
    cbn [gen_get_input_text_loop_4]; rewrite gen_iter_next_agrees by assumption; unfold next_model.
  - destruct (drop pos A) as [|x r]; [reflexivity|cbn [length] in Hf; lia].
  - pose proof (len_drop_split pos A Hpos) as HS.
    destruct (drop pos A) as [|t1 [|t2 [|l1 [|l2 rest]]]] eqn:ED; try reflexivity.
    cbn [find_attr]. cbv zeta. set (n := rd16 l1 l2) in *.
    destruct (N.ltb_spec (len rest) n) as [H|H]; [reflexivity|].
    destruct (N.ltb_spec (len rest) (n + pad n)) as [H2|H2]; [reflexivity|].
    rewrite !len_cons in HS. cbn [RawAttribute_attr_type RawAttributesIter_pos mk_it].
    rewrite (N.eqb_sym ty (rd16 t1 t2)).
    destruct (rd16 t1 t2 =? ty); [reflexivity|].
    change {| RawAttributesIter_buffer := A; RawAttributesIter_pos := pos + 4 + (n + pad n) |} with (mk_it A (pos + 4 + (n + pad n))).
    rewrite IH; try assumption; try lia.
    + rewrite (drop_advance A pos t1 t2 l1 l2 rest (n + pad n) ED). reflexivity.
    + rewrite (drop_advance A pos t1 t2 l1 l2 rest (n + pad n) ED). unfold drop. rewrite skipn_length.
      cbn [length] in Hf. lia.
Qed.

Lemma find_attr_bounds : forall f t pos bs p e,
  find_attr f t pos bs = Ok (Some (p, e)) -> pos <= p /\ p + 4 <= e /\ e <= pos + len bs.
Proof.
  induction f as [|f IH]; intros t pos bs p e H.
  - destruct bs; discriminate.
  - destruct bs as [|t1 [|t2 [|l1 [|l2 rest]]]]; try discriminate.
    cbn [find_attr] in H. cbv zeta in H. set (n := rd16 l1 l2) in *. rewrite !len_cons.
    destruct (N.ltb_spec (len rest) n) as [H1|H1]; [discriminate|].
    destruct (N.ltb_spec (len rest) (n + pad n)) as [H2|H2]; [discriminate|].
    destruct (rd16 t1 t2 =? t).
    + injection H as <- <-. lia.
    + apply IH in H. rewrite len_drop in H. lia.
Qed.
Lemma find_attr_no_panic : forall f t pos bs, (length bs <= f)%nat -> find_attr f t pos bs <> Panic.
Proof.
  induction f as [|f IH]; intros t pos bs Hb.
  - destruct bs; [discriminate|cbn in Hb; lia].
  - destruct bs as [|t1 [|t2 [|l1 [|l2 rest]]]]; cbn [find_attr]; try discriminate. cbv zeta.
    destruct (len rest <? rd16 l1 l2); [discriminate|].
    destruct (len rest <? rd16 l1 l2 + pad (rd16 l1 l2)); [discriminate|].
    destruct (rd16 t1 t2 =? t); [discriminate|].
    apply IH. unfold drop. rewrite skipn_length. cbn [length] in Hb. lia.
Qed.

Lemma input_text_unfold b t : 4 <= len b ->
  input_text b t = if len b <? 20 + msg_length b then Err
                   else match find_attr (length b) t 0 (take (msg_length b) (drop 20 b)) with
                        | Ok (Some (p, e)) => Ok (set_len (take (20 + p) b) e)
                        | Ok None => Err
                        | Err => Err
                        | Panic => Panic
                        end.
Proof.
  intros H. destruct b as [|a0 [|a1 [|l1 [|l2 r]]]]; try (exfalso; rewrite ?len_cons, ?len_nil in H; lia). reflexivity.
Qed.
Lemma be_write16_set_len l e : 4 <= len l -> be_write16 l 2 e = set_len l e.
Proof.
  intros H. destruct l as [|a0 [|a1 [|l1 [|l2 r]]]]; try (exfalso; rewrite ?len_cons, ?len_nil in H; lia). reflexivity.
Qed.

Theorem gen_get_input_text_agrees : forall b ty fuel, bytes_ok b = true -> (length b < fuel)%nat ->
  (hdr_valid b = true ->
     gen_get_input_text fuel b ty = GOk (res_opt (input_text b ty)) /\ input_text b ty <> Panic)
  /\ (hdr_valid b = false -> gen_get_input_text fuel b ty = GOk None).
Proof.
  intros b ty fuel Hok Hfuel. unfold gen_get_input_text. rewrite gen_raw_message_agrees by exact Hok.
  split; intros Hv; rewrite Hv; [|reflexivity]. cbn [andb].
  pose proof (hdr_valid_len b Hv) as H20. pose proof (msg_length_lt b Hok) as HL.
  rewrite input_text_unfold by lia.
  destruct (N.leb_spec (20 + msg_length b) (len b)) as [H|H].
  2:{ assert ((len b <? 20 + msg_length b) = true) as -> by (apply N.ltb_lt; lia). split; [reflexivity|discriminate]. }
  assert ((len b <? 20 + msg_length b) = false) as -> by (apply N.ltb_ge; lia).
  cbn [raw_of RawMessage_attributes]. unfold gen_RawAttributes_from.
  set (A := take (msg_length b) (drop 20 b)).
  change (gen_RawAttributes_into_fallible_iter A) with (mk_it A 0).
  assert (HokA : bytes_ok A = true) by (apply bytes_ok_take, bytes_ok_drop; exact Hok).
  assert (HlA : len A = msg_length b) by (unfold A; rewrite len_take, len_drop; lia).
  assert (HnA : (length A <= length b)%nat) by (unfold A, take, drop; rewrite firstn_length, skipn_length; lia).
  rewrite (gen_loop_agrees (length b) A); try assumption; try (unfold isize_max1; lia).
  rewrite drop_0.
  pose proof (find_attr_no_panic (length b) ty 0 A HnA) as HnP.
  destruct (find_attr (length b) ty 0 A) as [[[p e]|]| |] eqn:EF; try (split; [reflexivity|discriminate]).
  2:{ exfalso. apply HnP. reflexivity. }
  apply find_attr_bounds in EF as (B1 & B2 & B3).
  split; [|discriminate]. cbn [res_opt]. unfold input_text_tail, gen_check_buffer_boundaries.
  assert ((p + 20 <? 18446744073709551616) = true) as -> by (apply N.ltb_lt; lia).
  assert ((p + 20 <=? len b) = true) as -> by (apply N.leb_le; lia).
  assert ((e <? 65536) = true) as -> by (apply N.ltb_lt; lia).
  assert (Ht : len (take (p + 20) b) = p + 20) by (rewrite len_take; lia).
  rewrite Ht. assert ((4 <=? p + 20) = true) as -> by (apply N.leb_le; lia).
  change (2 <=? 4) with true. change (2 <=? 4 - 2) with true. cbn [andb negb].
  rewrite be_write16_set_len by lia. rewrite (N.add_comm p 20). reflexivity.
Qed.

(* the form used by Props/C04.v and C10.v: fuel S (length b) *)
Corollary gen_get_input_text_is_model : forall b ty, bytes_ok b = true ->
  (hdr_valid b = true ->
     gen_get_input_text (S (length b)) b ty = GOk (match input_text b ty with Ok t => Some t | _ => None end)
     /\ input_text b ty <> Panic)
  /\ (hdr_valid b = false -> gen_get_input_text (S (length b)) b ty = GOk None).
Proof. intros b ty Hok. apply (gen_get_input_text_agrees b ty (S (length b)) Hok). lia. Qed.

(* ---- consequences in the shape the property files quote *)
(* the header fields of an accepted buffer: bits 0, the magic cookie, and the transaction id is bytes 8..20 *)
Lemma hdr_valid_cookie b : hdr_valid b = true ->
  MessageHeader_cookie (hdr_of b) = cookie_bytes /\ len (MessageHeader_transaction_id (hdr_of b)) = 12.
Proof.
  intros Hv. pose proof (hdr_valid_len b Hv) as H20. cbn [hdr_of MessageHeader_cookie MessageHeader_transaction_id].
  split; [|rewrite len_take, len_drop; lia].
  destruct b as [|a0 [|a1 [|l1 [|l2 [|c0 [|c1 [|c2 [|c3 r]]]]]]]]; try discriminate.
  cbn [hdr_valid] in Hv. repeat (apply andb_prop in Hv as [Hv ?]).
  repeat match goal with H : (_ =? _) = true |- _ => apply N.eqb_eq in H; subst end. reflexivity.
Qed.

Lemma hdr_valid_fields b : hdr_valid b = true ->
  MessageHeader_bits (hdr_of b) = 0 /\ MessageHeader_msg_length (hdr_of b) = msg_length b
  /\ MessageHeader_cookie (hdr_of b) = cookie_bytes
  /\ MessageHeader_transaction_id (hdr_of b) = take 12 (drop 8 b)
  /\ len (MessageHeader_transaction_id (hdr_of b)) = 12.
Proof. intros Hv. destruct (hdr_valid_cookie b Hv) as [C T]. repeat split; assumption || reflexivity. Qed.

(* never a panic, never out of fuel, for any bytes *)
Lemma gen_header_total : forall b, bytes_ok b = true -> exists r, gen_MessageHeader_decode b = GOk r.
Proof. intros b Hok. rewrite gen_header_agrees by exact Hok. eexists. reflexivity. Qed.
Lemma gen_raw_message_total : forall b, bytes_ok b = true -> exists r, gen_RawMessage_decode b = GOk r.
Proof. intros b Hok. rewrite gen_raw_message_agrees by exact Hok. eexists. reflexivity. Qed.
Lemma gen_get_input_text_total : forall b ty, bytes_ok b = true -> exists r, gen_get_input_text (S (length b)) b ty = GOk r.
Proof.
  intros b ty Hok. destruct (gen_get_input_text_is_model b ty Hok) as [HT HF].
  destruct (hdr_valid b); [destruct (HT eq_refl) as [E _]|pose proof (HF eq_refl) as E]; rewrite E; eexists; reflexivity.
Qed.

(* the front end of Wire.decode (header gate, size gate, raw TLV walk with the fuel it uses) is what the code does:
   RawMessage::decode fails exactly when the model answers WErr at its first two gates, and otherwise the iterator run
   over the attribute slice yields the very list (or error) the model's dec_tlvs yields *)
Theorem gen_decode_front_is_wire : forall dec_ok ctx b, bytes_ok b = true ->
  match gen_RawMessage_decode b with
  | GOk None => decode dec_ok ctx b = WErr
  | GOk (Some (m, size)) =>
      size = 20 + msg_length b /\ size <= len b /\ hdr_valid b = true
      /\ RawMessage_attributes m = take (msg_length b) (drop 20 b)
      /\ gen_iter_all (S (length b)) (gen_RawAttributes_into_fallible_iter (gen_RawAttributes_from (RawMessage_attributes m)))
         = GOk (res_opt (dec_tlvs (length b) (take (msg_length b) (drop 20 b))))
      /\ dec_tlvs (length b) (take (msg_length b) (drop 20 b)) <> Panic
  | GPanic | GFuel => False
  end.
Proof.
  intros dec_ok ctx b Hok. rewrite gen_raw_message_agrees by exact Hok. unfold decode.
  destruct (hdr_valid b) eqn:Hv; [|reflexivity]. cbn [andb negb].
  destruct (N.leb_spec (20 + msg_length b) (len b)) as [H|H].
  2:{ assert ((len b <? 20 + msg_length b) = true) as -> by (apply N.ltb_lt; lia). reflexivity. }
  cbn [raw_of RawMessage_attributes]. set (A := take (msg_length b) (drop 20 b)).
  assert (HokA : bytes_ok A = true) by (apply bytes_ok_take, bytes_ok_drop; exact Hok).
  pose proof (msg_length_lt b Hok) as HL.
  assert (HlA : len A <= msg_length b) by (unfold A; rewrite len_take; lia).
  assert (HnA : (length A <= length b)%nat) by (unfold A, take, drop; rewrite firstn_length, skipn_length; lia).
  repeat split; try assumption.
  - change (gen_RawAttributes_into_fallible_iter (gen_RawAttributes_from A)) with (mk_it A 0).
    rewrite (gen_iter_all_agrees_at (length b) A (S (length b)) 0); try assumption; try (unfold isize_max1; lia). reflexivity.
  - apply dec_tlvs_no_panic. exact HnA.
Qed.

(* ---- a latent hazard of the iterator, recorded (not reachable through the crate: every caller stops at the first
   error, which is what gen_iter_all and the loop of get_input_text do): when the last attribute lacks its padding, next()
   returns the "Next position > buffer size" error AFTER advancing pos beyond the end; a further next() would slice
   buffer[pos..] out of range.  Bytes: type 1, length 1, one value byte, no padding. *)
Example gen_iter_not_fused_after_overrun :
  match gen_RawAttributesIter_next (mk_it [0; 1; 0; 1; 7] 0) with
  | GOk (None, it') => RawAttributesIter_pos it' = 8 /\ gen_RawAttributesIter_next it' = GPanic
  | _ => False
  end.
Proof. vm_compute. split; reflexivity. Qed.
