(* The nonce-cookie constants of stun-rs used by the long-term mechanism model equal the ones extracted from the CURRENT
   source of /repo (tools/gen_constants.py -> Generated/Constants.v). Used by C08. *)
From Coq Require Import List NArith ZArith Bool.
Import ListNotations.
From Rustun Require Import Generated.Constants Base.Tlv Agent.F32 Agent.Rto Agent.Model Agent.RttExact Agent.AbsGlue.
Open Scope N_scope.

(* ---- nonce cookie *)
Lemma nonce_cookie_constants : gen_NONCE_COOKIE_HEADER = nonce_cookie_header
  /\ gen_FEATURE_BIT_PASSWORD_ALGORITHMS = 31 /\ gen_FEATURE_BIT_USERNAME_ANONYMITY = 30.
Proof. repeat split; reflexivity. Qed.

