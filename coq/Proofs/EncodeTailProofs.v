(* C14 tail: MessageEncoder::encode (with MESSAGE-INTEGRITY / SHA256 / FINGERPRINT patching) leaves the bytes of the
   caller's buffer beyond the returned size untouched and never changes the buffer's length; the bytes it does write do
   not depend on what the buffer contained before. *)
From Coq Require Import List NArith Lia Bool Arith.
Import ListNotations.
From Rustun Require Import Base.Tlv Crypto.Crc Crypto.Sha256 Crypto.Sha1Md5 Codec.EncodeInto Codec.InputText Codec.EncodeMsg
  Codec.Wire Proofs.CryptoLen Proofs.EncodeMsgProofs.
Open Scope N_scope.

(* ---- write_at touches only [off, off + len d) ---- *)
Lemma drop_write_ge off d buf n : off + len d <= n -> off + len d <= len buf ->
  drop n (write_at off d buf) = drop n buf.
Proof.
  intros Hn Hb. unfold write_at.
  rewrite drop_app_ge' by (rewrite len_take' by lia; lia). rewrite len_take' by lia.
  rewrite drop_app_ge' by lia. rewrite drop_drop'. f_equal. lia.
Qed.

Lemma drop_mono n m b c : n <= m -> drop n b = drop n c -> drop m b = drop m c.
Proof.
  intros Hnm H. replace m with (n + (m - n)) by lia. rewrite <- !drop_drop', H. reflexivity.
Qed.

Lemma take_take' n m l : n <= m -> take n (take m l) = take n l.
Proof. intros H. unfold take. rewrite firstn_firstn. f_equal. lia. Qed.

Lemma take_app_le' n a b : n <= len a -> take n (a ++ b) = take n a.
Proof.
  unfold take, len. intros H. rewrite firstn_app.
  replace (N.to_nat n - length a)%nat with 0%nat by lia. cbn [firstn]. apply app_nil_r.
Qed.

Lemma take_app_ge' n a b : len a <= n -> take n (a ++ b) = a ++ take (n - len a) b.
Proof.
  unfold take, len. intros H. rewrite firstn_app. rewrite (firstn_all2 (n:=N.to_nat n) a) by lia.
  f_equal. f_equal. lia.
Qed.

Lemma drop_take' k n l : drop k (take n l) = take (n - k) (drop k l).
Proof.
  unfold drop, take. rewrite skipn_firstn_comm. f_equal. lia.
Qed.

(* the first n bytes after a write inside [0, n) are that write applied to the first n bytes *)
Lemma take_write_le off d buf n : off + len d <= n -> n <= len buf ->
  take n (write_at off d buf) = write_at off d (take n buf).
Proof.
  intros Hn Hb. unfold write_at.
  rewrite take_app_ge' by (rewrite len_take' by lia; lia). rewrite len_take' by lia.
  rewrite take_app_ge' by lia.
  rewrite take_take' by lia. rewrite drop_take'. do 3 f_equal. lia.
Qed.

Lemma take_mono n m b c : n <= m -> take m b = take m c -> take n b = take n c.
Proof. intros Hnm H. rewrite <- (take_take' n m b), <- (take_take' n m c) by exact Hnm. rewrite H. reflexivity. Qed.

(* ---- one plain step, in explicit form ---- *)
Definition tl_bytes (t:N) (v:bytes) : bytes := be16 t ++ be16 (len v) ++ v ++ zeros (pad (len v)).
Lemma len_tl_bytes t v : len (tl_bytes t v) = 4 + len v + pad (len v).
Proof. unfold tl_bytes. rewrite !len_app, !len_be16, len_zeros. lia. Qed.

Lemma enc_step_ok b L t v b' L' : enc_step (Ok (b, L)) (t, v) = Ok (b', L') ->
  L' = L + 4 + len v + pad (len v) /\ L' + 20 <= len b /\
  b' = write_at 2 (be16 L') (write_at (L + 20) (tl_bytes t v) b).
Proof.
  unfold enc_step. cbn [fst snd].
  destruct (len b - (L + 20) <? 4) eqn:E1; [discriminate|]. apply N.ltb_ge in E1.
  destruct (len b - (L + 20) - 4 <? len v) eqn:E2; [discriminate|]. apply N.ltb_ge in E2.
  destruct (65535 <? len v); [discriminate|].
  destruct (len b - (L + 20) - 4 - len v <? pad (len v)) eqn:E3; [discriminate|]. apply N.ltb_ge in E3.
  destruct (65535 <? L + 4 + len v + pad (len v)); [discriminate|].
  intros H. injection H as Hb HL. subst L'. refine (conj eq_refl (conj _ _)); [lia|]. rewrite <- Hb. reflexivity.
Qed.

(* one step with the patch, in explicit form *)
Lemma enc_step2_ok b L a b' L' : enc_step2 (Ok (b, L)) a = Ok (b', L') ->
  exists b1, enc_step (Ok (b, L)) (e_tlv a) = Ok (b1, L') /\
    ((post_value a (take (L + 20) b1) = None /\ b' = b1) \/ exists v, post_value a (take (L + 20) b1) = Some v /\ len v = len (e_placeholder a) /\ b' = write_at (L + 24) v b1).
Proof.
  unfold enc_step2.
  destruct (enc_step (Ok (b, L)) (e_tlv a)) as [[b1 L1]| |] eqn:E; try discriminate.
  destruct (post_value a (take (L + 20) b1)) as [v|] eqn:Ev; intros H; injection H as Hb HL; subst L1 b'.
  - exists b1. split; [reflexivity|]. right. exists v. split; [exact Ev|]. split; [|reflexivity].
    exact (len_placeholder_post _ _ _ Ev).
  - exists b1. split; [reflexivity|]. left. split; [exact Ev|reflexivity].
Qed.

(* the invariant of the loop: same length as the caller's buffer and everything from L + 20 on is still the caller's *)
Definition tail_inv (buf0:bytes) (st:res (bytes * N)) : Prop :=
  match st with Ok (b, L) => len b = len buf0 /\ drop (L + 20) b = drop (L + 20) buf0 | _ => True end.

Lemma enc_step_tail buf0 b L t v b' L' : tail_inv buf0 (Ok (b, L)) -> enc_step (Ok (b, L)) (t, v) = Ok (b', L') ->
  tail_inv buf0 (Ok (b', L')) /\ L' = L + 4 + len v + pad (len v) /\ L' + 20 <= len b.
Proof.
  intros [Hl Hd] H. apply enc_step_ok in H as (HL & Hroom & ->).
  pose proof (len_tl_bytes t v) as Htl.
  assert (Hw1 : len (write_at (L + 20) (tl_bytes t v) b) = len b) by (apply len_write; lia).
  refine (conj _ (conj HL Hroom)). cbn [tail_inv]. split.
  - rewrite len_write by (rewrite Hw1, len_be16; lia). rewrite Hw1. exact Hl.
  - rewrite drop_write_ge by (rewrite ?Hw1, len_be16; lia).
    rewrite drop_write_ge by lia.
    apply (drop_mono (L + 20)); [lia|exact Hd].
Qed.

Lemma enc_step2_tail buf0 st a : tail_inv buf0 st -> tail_inv buf0 (enc_step2 st a).
Proof.
  destruct st as [[b L]| |]; [|exact (fun H => H)..].
  intros Hinv. destruct (enc_step2 (Ok (b, L)) a) as [[b' L']| |] eqn:E; [|exact I..].
  apply enc_step2_ok in E as (b1 & E1 & Hb').
  unfold e_tlv in E1. destruct (enc_step_tail _ _ _ _ _ _ _ Hinv E1) as ([Hl1 Hd1] & HL & Hroom).
  destruct Hb' as [[_ ->]|(v & _ & Hv & ->)]; [split; assumption|].
  destruct Hinv as [Hl _]. cbn [tail_inv]. split.
  - rewrite len_write by lia. exact Hl1.
  - rewrite drop_write_ge by lia. exact Hd1.
Qed.

Lemma fold_step2_tail buf0 : forall l st, tail_inv buf0 st -> tail_inv buf0 (fold_left enc_step2 l st).
Proof. induction l as [|a l IH]; intros st H; cbn [fold_left]; [exact H|]. apply IH, enc_step2_tail, H. Qed.

Lemma init_tail buf typ txid : length txid = 12%nat -> 20 <= len buf ->
  tail_inv buf (Ok (write_at 0 (EncodeInto.header typ 0 txid) buf, 0)).
Proof.
  intros Htx Hb. cbn [tail_inv]. pose proof (len_header typ 0 txid Htx) as Hh. split.
  - apply len_write. lia.
  - apply drop_write_ge; lia.
Qed.

(* C14, "bytes beyond the returned size are left untouched" (and the buffer keeps its length) *)
Theorem encode_msg_tail : forall buf typ txid l out n, length txid = 12%nat ->
  encode_msg buf typ txid l = Ok (out, n) -> drop n out = drop n buf /\ len out = len buf.
Proof.
  intros buf typ txid l out n Htx. unfold encode_msg.
  destruct (len buf <? 20) eqn:E20; [discriminate|]. apply N.ltb_ge in E20.
  pose proof (fold_step2_tail buf l _ (init_tail buf typ txid Htx E20)) as Hinv.
  destruct (fold_left enc_step2 l _) as [[o L]| |]; try discriminate.
  intros H. injection H as Ho Hn. subst o n. destruct Hinv as [Hl Hd]. split; assumption.
Qed.
Print Assumptions encode_msg_tail.

Lemma bytes_eqb_refl s : bytes_eqb s s = true.
Proof. induction s as [|x s IH]; [reflexivity|]. cbn [bytes_eqb]. rewrite N.eqb_refl, IH. reflexivity. Qed.

(* the model meets the tail monitor for every message and every pre-filled buffer *)
Theorem model_meets_C14_tail : forall buf typ txid l, length txid = 12%nat ->
  monitor_C14_tail
    (match encode_msg buf typ txid l with Ok (_, n) => Some (Some n) | Err => Some None | Panic => None end)
    (match encode_msg buf typ txid l with Ok (out, n) => bytes_eqb (drop n out) (drop n buf) | _ => true end) = true.
Proof.
  intros buf typ txid l Htx. destruct (encode_msg buf typ txid l) as [[out n]| |] eqn:E; [|reflexivity..].
  cbn [monitor_C14_tail]. destruct (encode_msg_tail _ _ _ _ _ _ Htx E) as [-> _]. apply bytes_eqb_refl.
Qed.
Print Assumptions model_meets_C14_tail.

(* ---- the written bytes do not depend on the previous contents (nor on the extra room) of the buffer ---- *)
Lemma enc_step_prefix b1 b2 L t v b1' b2' L1 L2 :
  take (L + 20) b1 = take (L + 20) b2 ->
  enc_step (Ok (b1, L)) (t, v) = Ok (b1', L1) -> enc_step (Ok (b2, L)) (t, v) = Ok (b2', L2) ->
  L1 = L2 /\ L1 = L + 4 + len v + pad (len v) /\ L1 + 20 <= len b1' /\ L1 + 20 <= len b2' /\
  take (L1 + 20) b1' = take (L1 + 20) b2'.
Proof.
  intros Ht H1 H2. apply enc_step_ok in H1 as (HL1 & Hr1 & ->). apply enc_step_ok in H2 as (HL2 & Hr2 & ->).
  assert (HE : L2 = L1) by congruence. clear HL2. subst L2.
  pose proof (len_tl_bytes t v) as Htl.
  assert (Hw : forall b, L1 + 20 <= len b -> len (write_at (L + 20) (tl_bytes t v) b) = len b)
    by (intros b Hb; apply len_write; lia).
  assert (Hw2 : forall b, L1 + 20 <= len b -> len (write_at 2 (be16 L1) (write_at (L + 20) (tl_bytes t v) b)) = len b)
    by (intros b Hb; rewrite len_write; rewrite Hw by exact Hb; [reflexivity|rewrite len_be16; lia]).
  refine (conj eq_refl (conj HL1 _)). rewrite !Hw2 by assumption. refine (conj Hr1 (conj Hr2 _)).
  assert (Hk : forall b, L1 + 20 <= len b ->
     take (L1 + 20) (write_at 2 (be16 L1) (write_at (L + 20) (tl_bytes t v) b))
     = write_at 2 (be16 L1) (take (L + 20) b ++ tl_bytes t v)).
  { intros b Hb. rewrite take_write_le by (rewrite ?Hw by exact Hb; rewrite ?len_be16; lia).
    f_equal. unfold write_at at 1. rewrite app_assoc.
    assert (Hp : len (take (L + 20) b ++ tl_bytes t v) = L1 + 20) by (rewrite len_app, len_take' by lia; lia).
    rewrite <- Hp. apply take_app_exact. }
  rewrite !Hk by assumption. rewrite Ht. reflexivity.
Qed.

Lemma enc_step2_prefix b1 b2 L a b1' b2' L1 L2 :
  take (L + 20) b1 = take (L + 20) b2 ->
  enc_step2 (Ok (b1, L)) a = Ok (b1', L1) -> enc_step2 (Ok (b2, L)) a = Ok (b2', L2) ->
  L1 = L2 /\ take (L1 + 20) b1' = take (L1 + 20) b2'.
Proof.
  intros Ht H1 H2.
  apply enc_step2_ok in H1 as (c1 & E1 & P1). apply enc_step2_ok in H2 as (c2 & E2 & P2).
  unfold e_tlv in E1, E2.
  destruct (enc_step_prefix _ _ _ _ _ _ _ _ _ Ht E1 E2) as (<- & HL & Hr1 & Hr2 & Hc).
  split; [reflexivity|].
  assert (Htext : take (L + 20) c1 = take (L + 20) c2) by (apply (take_mono (L + 20) (L1 + 20)); [lia|exact Hc]).
  rewrite Htext in P1.
  destruct P1 as [[Ev1 ->]|(v1 & Ev1 & Hv1 & ->)], P2 as [[Ev2 ->]|(v2 & Ev2 & Hv2 & ->)].
  - exact Hc.
  - congruence.
  - congruence.
  - assert (v1 = v2) by congruence. subst v2.
    rewrite !take_write_le by lia. rewrite Hc. reflexivity.
Qed.

Lemma fold_step2_err l : fold_left enc_step2 l Err = Err.
Proof. induction l; cbn [fold_left enc_step2]; auto. Qed.
Lemma fold_step2_panic l : fold_left enc_step2 l Panic = Panic.
Proof. induction l; cbn [fold_left enc_step2]; auto. Qed.

Lemma fold_step2_prefix : forall l b1 b2 L b1' b2' L1 L2,
  take (L + 20) b1 = take (L + 20) b2 ->
  fold_left enc_step2 l (Ok (b1, L)) = Ok (b1', L1) -> fold_left enc_step2 l (Ok (b2, L)) = Ok (b2', L2) ->
  L1 = L2 /\ take (L1 + 20) b1' = take (L1 + 20) b2'.
Proof.
  induction l as [|a l IH]; intros b1 b2 L b1' b2' L1 L2 Ht H1 H2; cbn [fold_left] in H1, H2.
  - injection H1 as <- <-. injection H2 as <- <-. split; [reflexivity|exact Ht].
  - destruct (enc_step2 (Ok (b1, L)) a) as [[c1 M1]| |] eqn:E1;
      [|rewrite fold_step2_err in H1; discriminate|rewrite fold_step2_panic in H1; discriminate].
    destruct (enc_step2 (Ok (b2, L)) a) as [[c2 M2]| |] eqn:E2;
      [|rewrite fold_step2_err in H2; discriminate|rewrite fold_step2_panic in H2; discriminate].
    destruct (enc_step2_prefix _ _ _ _ _ _ _ _ Ht E1 E2) as [<- Hc].
    exact (IH _ _ _ _ _ _ _ Hc H1 H2).
Qed.

(* whenever the same message is encoded into two buffers (any contents, any sufficient sizes), the sizes and the
   written bytes agree *)
Theorem encode_msg_prefix_independent : forall buf buf' typ txid l out n out' n', length txid = 12%nat ->
  encode_msg buf typ txid l = Ok (out, n) -> encode_msg buf' typ txid l = Ok (out', n') ->
  n = n' /\ take n out = take n out'.
Proof.
  intros buf buf' typ txid l out n out' n' Htx. unfold encode_msg.
  destruct (len buf <? 20) eqn:E1; [discriminate|]. apply N.ltb_ge in E1.
  destruct (len buf' <? 20) eqn:E2; [discriminate|]. apply N.ltb_ge in E2.
  destruct (fold_left enc_step2 l (Ok (write_at 0 (EncodeInto.header typ 0 txid) buf, 0))) as [[o1 L1]| |] eqn:F1; try discriminate.
  destruct (fold_left enc_step2 l (Ok (write_at 0 (EncodeInto.header typ 0 txid) buf', 0))) as [[o2 L2]| |] eqn:F2; try discriminate.
  intros H1 H2. injection H1 as <- <-. injection H2 as <- <-.
  pose proof (len_header typ 0 txid Htx) as Hh.
  assert (H0 : forall b, 20 <= len b -> take (0 + 20) (write_at 0 (EncodeInto.header typ 0 txid) b) = EncodeInto.header typ 0 txid).
  { intros b Hb. unfold write_at. change (take 0 b) with (@nil N). cbn [app]. change (0 + 20) with 20. rewrite <- Hh. apply take_app_exact. }
  assert (Ht : take (0 + 20) (write_at 0 (EncodeInto.header typ 0 txid) buf) = take (0 + 20) (write_at 0 (EncodeInto.header typ 0 txid) buf'))
    by (rewrite !H0 by assumption; reflexivity).
  destruct (fold_step2_prefix _ _ _ _ _ _ _ _ Ht F1 F2) as [<- Hc]. split; [reflexivity|exact Hc].
Qed.
Print Assumptions encode_msg_prefix_independent.
