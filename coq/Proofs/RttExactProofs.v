(* Facts about the exact estimator model (Agent/F32.v, Agent/RttExact.v). *)
From Coq Require Import List NArith ZArith Bool Lia.
Import ListNotations.
From Rustun Require Import Agent.F32 Agent.Rto Agent.Model Agent.RttExact.
Open Scope N_scope.

(* first sample (RFC 6298 2.2): SRTT = R, RTTVAR = R/2, RTO = SRTT + max(G, 4 RTTVAR) — exact, no rounding to a second *)
Lemma first_sample_exact s r : rc_srtt s = 0 ->
  rtt_update s r = {| rc_rto := r + N.max (rc_gran s) (r / 2 * 4); rc_srtt := r; rc_rttvar := r / 2; rc_gran := rc_gran s; rc_conf := rc_conf s |}.
Proof. intros H. unfold rtt_update. rewrite H. reflexivity. Qed.

(* later samples (2.3): RTTVAR is updated BEFORE SRTT (it uses the old SRTT), through Duration::mul_f32 *)
Lemma later_sample_exact s r : rc_srtt s <> 0 ->
  let rttvar := mul_f32 (rc_rttvar s) c_075 + mul_f32 (absdiffN (rc_srtt s) r) c_025 in
  let srtt := mul_f32 (rc_srtt s) c_0875 + mul_f32 r c_0125 in
  rtt_update s r = {| rc_rto := srtt + N.max (rc_gran s) (mul_f32 rttvar c_4); rc_srtt := srtt; rc_rttvar := rttvar; rc_gran := rc_gran s; rc_conf := rc_conf s |}.
Proof. intros H. unfold rtt_update. destruct (rc_srtt s =? 0) eqn:E; [apply N.eqb_eq in E; contradiction|reflexivity]. Qed.

(* staleness: a request sent more than 600 s after the previous one starts from the configured value again, one sent
   at most 600 s after it keeps the estimate; the first request uses the configured value *)
Lemma stale_resets s l now : e_last s = Some l -> 600000000000 < now - l ->
  est_rto_for_send s now = rc_conf (e_calc s).
Proof. intros Hl H. unfold est_rto_for_send, est_send. rewrite Hl. apply N.ltb_lt in H. rewrite H. reflexivity. Qed.
Lemma fresh_keeps s l now : e_last s = Some l -> now - l <= 600000000000 ->
  est_rto_for_send s now = rc_rto (e_calc s).
Proof. intros Hl H. unfold est_rto_for_send, est_send. rewrite Hl. apply N.ltb_ge in H. rewrite H. reflexivity. Qed.
Lemma initial_rto rto gran now : est_rto_for_send (est0 rto gran) now = rto.
Proof. reflexivity. Qed.

(* Karn: a final outcome of a request whose send instant has been cleared (it was retransmitted), a timer call, an
   indication and a refused send leave the estimator alone *)
Lemma karn_no_sample s c now d m id x : (forall e, In e [Received m] -> final_of e = Some id) ->
  find_txn id (T c) = Some x -> inst x = None ->
  est_step s c (Recv now d m) (ROk None) [Received m] = s.
Proof.
  intros Hf Hx Hi. unfold est_step. cbn [fold_left]. rewrite (Hf _ (or_introl eq_refl)), Hx, Hi. reflexivity.
Qed.
Lemma tmo_no_sample s c now r evs : est_step s c (Tmo now) r evs = s.
Proof. reflexivity. Qed.
Lemma refused_send_no_change s c now id r m a room evs : est_step s c (Send now id r m a room) RMaxOut evs = s.
Proof. reflexivity. Qed.

(* the f32 path on the RFC 6298 worked numbers, R = 100 ms, then R' = 40 ms, G = 1 ms: the exact values are SRTT = 92.5 ms,
   RTTVAR = 52.5 ms, RTO = 302.5 ms; through Duration::mul_f32 the implementation (and this model, bit for bit) gets
   92,499,999 / 52,500,001 / 302,499,992 ns — 8 ns off, well inside the property's tolerance (10^-5 relative + 1 us) *)
Example rfc6298_numbers_f32 :
  let s := rtt_update (rtt_update (rtt_new 500000000 1000000) 100000000) 40000000 in
  (rc_srtt s, rc_rttvar s, rc_rto s) = (92499999, 52500001, 302499992).
Proof. vm_compute. reflexivity. Qed.
(* and a case where f32 is visibly not exact: 0.25 * 123,456,789 ns = 30,864,197.25 ns comes out as 30,864,198 ns *)
Example f32_rounding_visible : mul_f32 123456789 c_025 = 30864198 /\ mul_f32 1000000007 c_0875 = 875000000.
Proof. vm_compute. split; reflexivity. Qed.
