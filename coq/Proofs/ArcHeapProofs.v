From Coq Require Import List NArith Lia Bool Arith.
Import ListNotations.
From Rustun Require Import Agent.ArcHeap.

(* outputs of a whole script under copy-on-write reference counting (the repaired code) and under value semantics *)
Fixpoint outs_s (s:st) (ops:list op) : list out :=
  match ops with [] => [] | o :: r => let '(s', x) := step true s o in x :: outs_s s' r end.
Fixpoint outs_p (p:pst) (ops:list op) : list out :=
  match ops with [] => [] | o :: r => let '(p', x) := pstep p o in x :: outs_p p' r end.
(* a well-formed script binds fresh variables and uses bound ones (what a Rust program can express) *)
Fixpoint wf (p:pst) (ops:list op) : Prop :=
  match ops with [] => True | o :: r => ok_op p o /\ wf (fst (pstep p o)) r end.

Theorem script_refines : forall ops s p, Rel s p -> wf p ops ->
  outs_s s ops = outs_p p ops /\ ~ In HPanic (outs_s s ops).
Proof.
  induction ops as [|o r IH]; intros s p HR Hwf; cbn [outs_s outs_p]; [split; [reflexivity|intros []]|].
  destruct Hwf as [Hok Hwf]. pose proof (step_refines s p o HR Hok) as H.
  destruct (step true s o) as [s' x]. destruct (pstep p o) as [p' x']. cbn [fst] in Hwf.
  destruct H as (-> & Hnp & HR'). destruct (IH s' p' HR' Hwf) as [E NP]. split.
  - f_equal. exact E.
  - intros [H|H]; [apply Hnp; exact H|exact (NP H)].
Qed.

Lemma Rel_init : Rel heap0 [].
Proof.
  constructor; cbn.
  - constructor.
  - intros x. reflexivity.
  - intros h c H. discriminate.
  - intros h _. split; reflexivity.
Qed.

(* C19: for every script "build, clone, mutate either copy, read", no operation panics and every read returns the value
   obtained under value semantics (each binding owns its own list): a clone can be mutated without affecting the value
   it was cloned from *)
Theorem clone_independent ops : wf [] ops -> outs_s heap0 ops = outs_p [] ops /\ ~ In HPanic (outs_s heap0 ops).
Proof. apply script_refines. exact Rel_init. Qed.

(* boolean version of well-formedness and the monitor over observed outputs *)
Definition bound (x:nat) (p:pst) : bool := match lookup x p with Some _ => true | None => false end.
Fixpoint wfb (p:pst) (ops:list op) : bool :=
  match ops with
  | [] => true
  | o :: r => (match o with
               | HNew x => negb (bound x p)
               | HClone x y => bound x p && negb (bound y p)
               | HAdd x _ | HRead x => bound x p end) && wfb (fst (pstep p o)) r
  end.
Lemma wfb_wf : forall ops p, wfb p ops = true -> wf p ops.
Proof.
  induction ops as [|o r IH]; intros p H; cbn [wfb wf] in *; [exact I|].
  apply andb_prop in H as [H1 H2]. split; [|apply IH; exact H2].
  unfold bound in H1. destruct o as [x|x y|x v|x]; cbn [ok_op].
  - destruct (lookup x p); [discriminate|reflexivity].
  - apply andb_prop in H1 as [A B]. split; [destruct (lookup x p); [discriminate|discriminate]|destruct (lookup y p); [discriminate|reflexivity]].
  - destruct (lookup x p); [discriminate|discriminate].
  - destruct (lookup x p); [discriminate|discriminate].
Qed.
