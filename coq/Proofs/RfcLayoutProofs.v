(* The RFC bit-field reference (Rfc/RfcLayout.v) produces the same octets as the codec model
   (Codec/AttrValue.v, Codec/EncodeInto.v, Base/Tlv.v):

     (a) core: a field of 8k bits is the k-octet big-endian encoding; adjacent fields concatenate; octet strings;
     (b) one layout lemma per RFC figure (`layout_*`: the octets of the figure) and one agreement lemma per family
         (`rfc_eq_*`: the model's value encoder writes exactly those octets);
     (c) the IANA table against the model's registry;
     (d) `rfc_value_eq_model` for all 35 encodable attribute kinds, the header theorem, the TLV theorem, and the
         decode-side statements for the three kinds the value encoder does not write (MESSAGE-INTEGRITY,
         MESSAGE-INTEGRITY-SHA256, FINGERPRINT). *)
From Coq Require Import List NArith ZArith Lia Bool Arith ZifyBool ZifyN.
Import ListNotations.
From Rustun Require Import Base.Tlv Codec.AttrValue Proofs.AttrValueProofs Rfc.RfcLayout.
From Rustun Require Codec.MsgType Codec.EncodeInto Codec.EncodeMsg Codec.InputText.
Open Scope N_scope.
Ltac Zify.zify_post_hook ::= Z.div_mod_to_equations.
Arguments N.add : simpl never. Arguments N.sub : simpl never. Arguments N.mul : simpl never.
Arguments N.div : simpl never. Arguments N.modulo : simpl never.
Arguments N.eqb : simpl never. Arguments N.ltb : simpl never. Arguments N.leb : simpl never.
Arguments N.pow : simpl never. Arguments N.shiftl : simpl never. Arguments N.shiftr : simpl never.
Arguments N.land : simpl never. Arguments N.lor : simpl never. Arguments N.lxor : simpl never.
Arguments N.testbit : simpl never.

(* ================================================================================================ (a) core *)
Lemma bits_msb_length w v : length (bits_msb w v) = w.
Proof. induction w as [|w IH]; cbn [bits_msb length]; [reflexivity|rewrite IH; reflexivity]. Qed.

(* a field only shows the low-order bits of its value *)
Lemma bits_msb_low : forall w v v',
  (forall i, i < N.of_nat w -> N.testbit v i = N.testbit v' i) -> bits_msb w v = bits_msb w v'.
Proof.
  induction w as [|w IH]; intros v v' H; cbn [bits_msb]; [reflexivity|].
  f_equal; [apply H; lia|apply IH; intros i Hi; apply H; lia].
Qed.

Lemma testbit_low_part x y b i : y < 2 ^ b -> i < b -> N.testbit (x * 2 ^ b + y) i = N.testbit y i.
Proof.
  intros Hy Hi. rewrite <- (N.mod_pow2_bits_low (x * 2 ^ b + y) b i Hi).
  f_equal. rewrite N.add_comm, N.mod_add by (apply N.pow_nonzero; lia). apply N.mod_small. exact Hy.
Qed.
Lemma testbit_high_part x y b i : y < 2 ^ b -> N.testbit (x * 2 ^ b + y) (i + b) = N.testbit x i.
Proof.
  intros Hy. rewrite <- N.div_pow2_bits. f_equal.
  rewrite N.div_add_l by (apply N.pow_nonzero; lia). rewrite N.div_small by exact Hy. lia.
Qed.

(* field concatenation *)
Lemma bits_msb_app : forall a b x y, y < 2 ^ N.of_nat b ->
  bits_msb a x ++ bits_msb b y = bits_msb (a + b) (x * 2 ^ N.of_nat b + y).
Proof.
  induction a as [|a IH]; intros b x y Hy.
  - cbn [bits_msb app Nat.add]. apply bits_msb_low. intros i Hi. symmetry. apply testbit_low_part; assumption.
  - cbn [bits_msb app Nat.add]. f_equal; [|apply IH; exact Hy].
    replace (N.of_nat (a + b)) with (N.of_nat a + N.of_nat b) by lia.
    symmetry. apply testbit_high_part. exact Hy.
Qed.

Lemma bytes_of_bits_app : forall n l1 l2, length l1 = (8 * n)%nat ->
  bytes_of_bits (l1 ++ l2) = bytes_of_bits l1 ++ bytes_of_bits l2.
Proof.
  induction n as [|n IH]; intros l1 l2 H.
  - destruct l1; [reflexivity|cbn [length] in H; lia].
  - destruct l1 as [|b7 [|b6 [|b5 [|b4 [|b3 [|b2 [|b1 [|b0 r]]]]]]]]; cbn [length] in H; try lia.
    cbn [app bytes_of_bits]. f_equal. apply IH. lia.
Qed.

(* one octet: all 256 values *)
Definition octet_check (v:N) : bool :=
  match bytes_of_bits (bits_msb 8 v) with [x] => x =? v | _ => false end.
Lemma octet_check_all : MsgType.forall_bits 8 octet_check = true.
Proof. vm_compute. reflexivity. Qed.
Lemma bytes_of_bits_octet v : v < 256 -> bytes_of_bits (bits_msb 8 v) = [v].
Proof.
  intros H. pose proof (MsgType.forall_bits_spec 8 octet_check octet_check_all v H) as C.
  unfold octet_check in C. destruct (bytes_of_bits (bits_msb 8 v)) as [|x [|y r]]; try discriminate.
  apply N.eqb_eq in C. subst. reflexivity.
Qed.

(* a field of 8k bits is the k-octet big-endian encoding of (the low 8k bits of) its value *)
Lemma bytes_of_bits_be_n : forall k v, bytes_of_bits (bits_msb (8 * k) v) = av_be_n k v.
Proof.
  induction k as [|k IH]; intros v; [reflexivity|].
  replace (8 * S k)%nat with (8 * k + 8)%nat by lia.
  assert (Hr : v mod 256 < 2 ^ N.of_nat 8) by (change (2 ^ N.of_nat 8) with 256; lia).
  replace (bits_msb (8 * k + 8) v) with (bits_msb (8 * k + 8) (v / 256 * 2 ^ N.of_nat 8 + v mod 256))
    by (f_equal; change (2 ^ N.of_nat 8) with 256; lia).
  rewrite <- bits_msb_app by exact Hr.
  rewrite (bytes_of_bits_app k) by apply bits_msb_length.
  rewrite IH, bytes_of_bits_octet by lia. reflexivity.
Qed.
(* the form asked for: 16 / 32 / 64 ... bit fields are big-endian *)
Lemma bytes_of_bits_be k v : v < 2 ^ (8 * N.of_nat k) -> bytes_of_bits (bits_msb (8 * k) v) = av_be_n k v.
Proof. intros _. apply bytes_of_bits_be_n. Qed.

(* ---- rfc_bytes of a list of fields, field by field ---- *)
Lemma flatten_cons f l : flatten_fields (f :: l) = bits_msb (fst f) (snd f) ++ flatten_fields l.
Proof. reflexivity. Qed.
Lemma flatten_app a b : flatten_fields (a ++ b) = flatten_fields a ++ flatten_fields b.
Proof. apply flat_map_app. Qed.
Lemma rfc_bytes_nil : rfc_bytes [] = [].
Proof. reflexivity. Qed.
Lemma rfc_bytes_nil' : rfc_bytes (@nil (nat * N)) = [].
Proof. reflexivity. Qed.
Ltac rbnil := rewrite ?rfc_bytes_nil, ?rfc_bytes_nil', ?app_nil_r.

Lemma rfc_bytes_cons w k v rest : w = (8 * k)%nat -> rfc_bytes ((w, v) :: rest) = av_be_n k v ++ rfc_bytes rest.
Proof.
  intros ->. unfold rfc_bytes. rewrite flatten_cons. cbn [fst snd].
  rewrite (bytes_of_bits_app k) by apply bits_msb_length. rewrite bytes_of_bits_be_n. reflexivity.
Qed.

(* two adjacent fields are one field *)
Lemma rfc_bytes_merge a b x y rest : y < 2 ^ N.of_nat b ->
  rfc_bytes ((a, x) :: (b, y) :: rest) = rfc_bytes (((a + b)%nat, x * 2 ^ N.of_nat b + y) :: rest).
Proof.
  intros H. unfold rfc_bytes. rewrite !flatten_cons. cbn [fst snd]. rewrite app_assoc, bits_msb_app by exact H.
  reflexivity.
Qed.

Fixpoint fields_width (l:list field) : nat := match l with [] => O | f :: r => (fst f + fields_width r)%nat end.
Lemma flatten_length l : length (flatten_fields l) = fields_width l.
Proof.
  induction l as [|f l IH]; [reflexivity|]. rewrite flatten_cons, app_length, bits_msb_length, IH. reflexivity.
Qed.
Lemma rfc_bytes_app n a b : fields_width a = (8 * n)%nat -> rfc_bytes (a ++ b) = rfc_bytes a ++ rfc_bytes b.
Proof.
  intros H. unfold rfc_bytes. rewrite flatten_app. apply (bytes_of_bits_app n). rewrite flatten_length. exact H.
Qed.

(* small numbers in wide fields *)
Lemma be1 v : v < 256 -> av_be_n 1 v = [v].
Proof. intros H. cbn [av_be_n app]. f_equal. lia. Qed.
Lemma be2_small v : v < 256 -> av_be_n 2 v = [0; v].
Proof. intros H. cbn [av_be_n app]. repeat (f_equal; try lia). Qed.
Lemma be3_small v : v < 256 -> av_be_n 3 v = [0; 0; v].
Proof. intros H. cbn [av_be_n app]. repeat (f_equal; try lia). Qed.
Lemma be2_be16 n : n < 65536 -> av_be_n 2 n = be16 n.
Proof. intros H. unfold be16. cbn [av_be_n app]. repeat (f_equal; try lia). Qed.

(* octet strings *)
Lemma bytes_ok_cons b s : bytes_ok (b :: s) = true -> b < 256 /\ bytes_ok s = true.
Proof.
  unfold bytes_ok. cbn [forallb]. intros H. apply andb_prop in H as [H1 H2]. unfold byte_ok in H1.
  apply N.ltb_lt in H1. auto.
Qed.
Lemma bytes_ok_app a b : bytes_ok (a ++ b) = true -> bytes_ok a = true /\ bytes_ok b = true.
Proof. unfold bytes_ok. rewrite forallb_app. apply andb_prop. Qed.
Lemma bytes_ok_app_intro a b : bytes_ok a = true -> bytes_ok b = true -> bytes_ok (a ++ b) = true.
Proof. unfold bytes_ok. rewrite forallb_app. intros -> ->. reflexivity. Qed.

Lemma rfc_bytes_octets : forall s rest, bytes_ok s = true -> rfc_bytes (octets s ++ rest) = s ++ rfc_bytes rest.
Proof.
  induction s as [|b s IH]; intros rest H; [reflexivity|].
  apply bytes_ok_cons in H as [Hb Hs]. cbn [octets map app].
  rewrite (rfc_bytes_cons 8 1) by reflexivity. rewrite be1 by exact Hb. cbn [app]. f_equal. apply IH. exact Hs.
Qed.
Lemma rfc_bytes_octets_only s : bytes_ok s = true -> rfc_bytes (octets s) = s.
Proof. intros H. rewrite <- (app_nil_r (octets s)), rfc_bytes_octets, rfc_bytes_nil, app_nil_r by exact H. reflexivity. Qed.

(* an octet string read as a number, written back as a field *)
Lemma octets_value_snoc s b : octets_value (s ++ [b]) = octets_value s * 256 + b.
Proof. unfold octets_value. rewrite fold_left_app. reflexivity. Qed.
Lemma be_octets : forall k s, length s = k -> bytes_ok s = true -> av_be_n k (octets_value s) = s.
Proof.
  intros k s. revert k. induction s as [|b s IH] using rev_ind; intros k Hl Hok.
  - subst k. reflexivity.
  - rewrite app_length in Hl. cbn [length] in Hl. destruct k as [|k]; [lia|].
    apply bytes_ok_app in Hok as [Hs Hb]. apply bytes_ok_cons in Hb as [Hb _].
    rewrite octets_value_snoc. cbn [av_be_n].
    replace ((octets_value s * 256 + b) / 256) with (octets_value s) by lia.
    replace ((octets_value s * 256 + b) mod 256) with b by lia.
    rewrite IH by (try assumption; lia). reflexivity.
Qed.
Lemma octets_fold_acc : forall s acc,
  fold_left (fun a b => a * 256 + b) s acc = acc * 256 ^ len s + fold_left (fun a b => a * 256 + b) s 0.
Proof.
  induction s as [|x s IH]; intros acc.
  - cbn [fold_left]. rewrite len_nil. change (256 ^ 0) with 1. lia.
  - cbn [fold_left]. rewrite (IH (acc * 256 + x)), (IH (0 * 256 + x)), len_cons.
    rewrite N.pow_add_r. change (256 ^ 1) with 256. set (P := 256 ^ len s). lia.
Qed.
Lemma octets_value_app a b : octets_value (a ++ b) = octets_value a * 256 ^ len b + octets_value b.
Proof. unfold octets_value. rewrite fold_left_app. apply octets_fold_acc. Qed.

(* XOR of numbers, octet by octet *)
Lemma lxor_div256 a b : N.lxor a b / 256 = N.lxor (a / 256) (b / 256).
Proof. change 256 with (2 ^ 8). rewrite <- !N.shiftr_div_pow2. apply N.shiftr_lxor. Qed.
Lemma lxor_mod256 a b : N.lxor a b mod 256 = N.lxor (a mod 256) (b mod 256).
Proof.
  change 256 with (2 ^ 8). apply N.bits_inj. intros i. rewrite N.lxor_spec.
  destruct (N.lt_ge_cases i 8) as [H|H].
  - rewrite !N.mod_pow2_bits_low by exact H. apply N.lxor_spec.
  - rewrite !N.mod_pow2_bits_high by exact H. reflexivity.
Qed.
Lemma length_be_n k n : length (av_be_n k n) = k.
Proof. pose proof (len_be_n k n) as H. unfold len in H. lia. Qed.
Lemma xor_bytes_app : forall a k1 b k2, length a = length k1 ->
  av_xor_bytes (a ++ b) (k1 ++ k2) = av_xor_bytes a k1 ++ av_xor_bytes b k2.
Proof.
  induction a as [|x a IH]; intros k1 b k2 H; destruct k1 as [|y k1]; cbn [length] in H; try lia.
  - reflexivity.
  - cbn [app av_xor_bytes]. f_equal. apply IH. lia.
Qed.
Lemma be_lxor : forall k a b, av_be_n k (N.lxor a b) = av_xor_bytes (av_be_n k a) (av_be_n k b).
Proof.
  induction k as [|k IH]; intros a b; [reflexivity|].
  cbn [av_be_n]. rewrite xor_bytes_app by (rewrite !length_be_n; reflexivity).
  rewrite lxor_div256, lxor_mod256, IH. reflexivity.
Qed.

(* padding *)
Lemma rfc_pad_len_eq n : rfc_pad_len n = pad n.
Proof.
  unfold rfc_pad_len, pad. pose proof (N.mod_lt n 4 ltac:(lia)) as H.
  destruct (n mod 4) as [|p] eqn:E; [reflexivity|]. symmetry. apply N.mod_small. lia.
Qed.
Lemma rfc_bytes_zero_octets : forall m rest, rfc_bytes (repeat (fld 8 0) m ++ rest) = repeat 0 m ++ rfc_bytes rest.
Proof.
  induction m as [|m IH]; intros rest; [reflexivity|].
  cbn [repeat app]. rewrite (rfc_bytes_cons 8 1) by reflexivity. change (av_be_n 1 0) with [0]. cbn [app].
  f_equal. apply IH.
Qed.
Lemma rfc_bytes_padding n rest : rfc_bytes (rfc_padding n ++ rest) = zeros (pad n) ++ rfc_bytes rest.
Proof. unfold rfc_padding, zeros. rewrite rfc_pad_len_eq. apply rfc_bytes_zero_octets. Qed.
Lemma octets_len_eq s : octets_len s = len s.
Proof. reflexivity. Qed.

(* ================================================================================ (b) figures and families *)
(* the model's value encoder writes exactly the octets of the figure, in every buffer that is large enough *)
Definition agrees (k:avk) (hdr:bytes) (a:aval) (f:list field) : Prop :=
  forall room, len (rfc_bytes f) <= room -> av_enc_kind k hdr a room = VOk (rfc_bytes f).

Lemma be_octets_len k s : len s = N.of_nat k -> bytes_ok s = true -> av_be_n k (octets_value s) = s.
Proof. intros H. apply be_octets. unfold len in H. lia. Qed.

(* ---- Figure 5: MAPPED-ADDRESS, ALTERNATE-SERVER, RESPONSE-ORIGIN, OTHER-ADDRESS ---- *)
Lemma layout_mapped_address (v6:bool) port ip :
  bytes_ok ip = true -> len ip = (if v6 then 16 else 4) ->
  rfc_bytes (rfc_mapped_address v6 port (octets_value ip)) = [0; if v6 then 2 else 1] ++ av_be16 port ++ ip.
Proof.
  intros Hok Hl. unfold rfc_mapped_address, av_be16.
  destruct v6; cbn [rfc_address_bits rfc_family].
  - rewrite (rfc_bytes_cons 8 1), (rfc_bytes_cons 8 1), (rfc_bytes_cons 16 2), (rfc_bytes_cons 128 16) by reflexivity.
    rewrite (be_octets_len 16) by assumption.
    rbnil. reflexivity.
  - rewrite (rfc_bytes_cons 8 1), (rfc_bytes_cons 8 1), (rfc_bytes_cons 16 2), (rfc_bytes_cons 32 4) by reflexivity.
    rewrite (be_octets_len 4) by assumption.
    rbnil. reflexivity.
Qed.
Lemma rfc_eq_addr hdr (v6:bool) port ip :
  port < 65536 -> bytes_ok ip = true -> len ip = (if v6 then 16 else 4) ->
  agrees AvkAddr hdr (AvAddr v6 port ip) (rfc_mapped_address v6 port (octets_value ip)).
Proof.
  intros Hp Hok Hl room. rewrite layout_mapped_address by assumption. intros Hr.
  rewrite len_app, len_app, len_be16, !len_cons, len_nil, Hl in Hr.
  cbn [av_enc_kind]. rewrite Hl. destruct v6; guards; lia_guards; reflexivity.
Qed.

(* ---- Figure 6: XOR-MAPPED-ADDRESS, XOR-PEER-ADDRESS, XOR-RELAYED-ADDRESS ---- *)
Lemma xor_key_v6 txid : length txid = 12%nat -> bytes_ok txid = true ->
  av_be_n 16 (magic_cookie * 2 ^ 96 + octets_value txid) = av_cookie ++ txid.
Proof.
  intros Hl Hok.
  assert (E : octets_value (av_cookie ++ txid) = magic_cookie * 2 ^ 96 + octets_value txid).
  { rewrite octets_value_app. replace (len txid) with 12 by (unfold len; lia). reflexivity. }
  rewrite <- E. apply be_octets.
  - rewrite app_length, Hl. reflexivity.
  - apply bytes_ok_app_intro; [reflexivity|exact Hok].
Qed.
Lemma layout_xor_mapped_address (v6:bool) port ip txid :
  bytes_ok ip = true -> len ip = (if v6 then 16 else 4) -> length txid = 12%nat -> bytes_ok txid = true ->
  rfc_bytes (rfc_xor_mapped_address v6 port (octets_value ip) (octets_value txid))
  = [0; if v6 then 2 else 1] ++ av_be16 (N.lxor port 0x2112)
    ++ av_xor_bytes ip (if v6 then av_cookie ++ txid else av_cookie).
Proof.
  intros Hok Hl Htl Htok. unfold rfc_xor_mapped_address, av_be16. change rfc_cookie_top16 with 0x2112.
  destruct v6; cbn [rfc_address_bits rfc_family rfc_xor_key].
  - rewrite (rfc_bytes_cons 8 1), (rfc_bytes_cons 8 1), (rfc_bytes_cons 16 2), (rfc_bytes_cons 128 16) by reflexivity.
    rewrite (be_lxor 16), xor_key_v6 by assumption.
    rewrite (be_octets_len 16) by assumption.
    rbnil. reflexivity.
  - rewrite (rfc_bytes_cons 8 1), (rfc_bytes_cons 8 1), (rfc_bytes_cons 16 2), (rfc_bytes_cons 32 4) by reflexivity.
    rewrite (be_lxor 4). change (av_be_n 4 magic_cookie) with av_cookie.
    rewrite (be_octets_len 4) by assumption.
    rbnil. reflexivity.
Qed.
Lemma rfc_eq_xor_addr hdr txid (v6:bool) port ip :
  av_dec_header hdr = VOk txid -> length txid = 12%nat -> bytes_ok txid = true ->
  port < 65536 -> bytes_ok ip = true -> len ip = (if v6 then 16 else 4) ->
  agrees AvkXorAddr hdr (AvAddr v6 port ip) (rfc_xor_mapped_address v6 port (octets_value ip) (octets_value txid)).
Proof.
  intros Hh Htl Htok Hp Hok Hl room. rewrite layout_xor_mapped_address by assumption. intros Hr.
  rewrite len_app, len_app, len_be16, len_xor_bytes, !len_cons, len_nil, Hl in Hr.
  cbn [av_enc_kind]. rewrite Hh. cbn [av_bind av_xor_addr]. rewrite Hl.
  destruct v6; guards; lia_guards; reflexivity.
Qed.

(* ---- unsigned integers: RESPONSE-PORT (16), PRIORITY / LIFETIME (32), ICE-CONTROLLED / ICE-CONTROLLING (64) ---- *)
Lemma layout_uint k n : rfc_bytes (rfc_uint (8 * k) n) = av_be_n k n.
Proof. unfold rfc_uint. rewrite (rfc_bytes_cons _ k) by reflexivity. rbnil. reflexivity. Qed.
Lemma rfc_eq_u16 hdr n : agrees AvkU16 hdr (AvU16 n) (rfc_uint 16 n).
Proof.
  intros room. rewrite (layout_uint 2). intros Hr. rewrite len_be_n in Hr. cbn [av_enc_kind]. lia_guards. reflexivity.
Qed.
Lemma rfc_eq_u32 hdr n : agrees AvkU32 hdr (AvU32 n) (rfc_uint 32 n).
Proof.
  intros room. rewrite (layout_uint 4). intros Hr. rewrite len_be_n in Hr. cbn [av_enc_kind]. lia_guards. reflexivity.
Qed.
Lemma rfc_eq_u64 hdr n : agrees AvkU64 hdr (AvU64 n) (rfc_uint 64 n).
Proof.
  intros room. rewrite (layout_uint 8). intros Hr. rewrite len_be_n in Hr. cbn [av_enc_kind]. lia_guards. reflexivity.
Qed.

(* ---- USE-CANDIDATE, DONT-FRAGMENT ---- *)
Lemma rfc_eq_empty hdr : agrees AvkEmpty hdr AvEmpty rfc_empty.
Proof. intros room _. reflexivity. Qed.

(* ---- octet strings: SOFTWARE, PADDING, REALM, NONCE, USERNAME, DATA, MOBILITY-TICKET, USERHASH, RESERVATION-TOKEN ---- *)
Lemma layout_octet_string s : bytes_ok s = true -> rfc_bytes (rfc_octet_string s) = s.
Proof. apply rfc_bytes_octets_only. Qed.
Lemma rfc_eq_text hdr me md s : bytes_ok s = true -> len s <= me ->
  agrees (AvkText me md) hdr (AvText s) (rfc_octet_string s).
Proof.
  intros Hok Hl room. rewrite layout_octet_string by exact Hok. intros Hr.
  cbn [av_enc_kind]. unfold av_enc_bytes. lia_guards. reflexivity.
Qed.
Lemma rfc_eq_quoted hdr s : bytes_ok s = true -> len s <= 509 -> agrees AvkQuoted hdr (AvQuoted s) (rfc_octet_string s).
Proof.
  intros Hok Hl room. rewrite layout_octet_string by exact Hok. intros Hr.
  cbn [av_enc_kind]. unfold av_enc_bytes. lia_guards. reflexivity.
Qed.
Lemma ascii_print_bytes_ok s : av_ascii_print s = true -> bytes_ok s = true.
Proof.
  unfold av_ascii_print, bytes_ok. apply forallb_impl. intros x H. apply andb_prop in H as [_ H].
  apply N.leb_le in H. unfold byte_ok. apply N.ltb_lt. lia.
Qed.
Lemma rfc_eq_user hdr s : av_ascii_print s = true -> len s < 509 -> agrees AvkUser hdr (AvUser s) (rfc_octet_string s).
Proof.
  intros Ha Hl room. rewrite layout_octet_string by (apply ascii_print_bytes_ok; exact Ha). intros Hr.
  cbn [av_enc_kind]. unfold av_enc_bytes. lia_guards. reflexivity.
Qed.
Lemma rfc_eq_opaque hdr s : bytes_ok s = true -> agrees AvkOpaque hdr (AvOpaque s) (rfc_octet_string s).
Proof.
  intros Hok room. rewrite layout_octet_string by exact Hok. intros Hr.
  cbn [av_enc_kind]. unfold av_enc_bytes. lia_guards. reflexivity.
Qed.
Lemma rfc_eq_hash hdr s : bytes_ok s = true -> len s = 32 -> agrees AvkHash hdr (AvFixed s) (rfc_octet_string s).
Proof.
  intros Hok Hl room. rewrite layout_octet_string by exact Hok. intros Hr.
  cbn [av_enc_kind]. unfold av_enc_bytes. rewrite Hl in *. guards. lia_guards. reflexivity.
Qed.
Lemma rfc_eq_token hdr s : bytes_ok s = true -> len s = 8 -> agrees AvkToken hdr (AvFixed s) (rfc_octet_string s).
Proof.
  intros Hok Hl room. rewrite layout_octet_string by exact Hok. intros Hr.
  cbn [av_enc_kind]. rewrite Hl in *. guards. lia_guards. reflexivity.
Qed.

(* ---- Figure 7: ERROR-CODE ---- *)
Lemma layout_error_code code reason : code < 700 -> bytes_ok reason = true ->
  rfc_bytes (rfc_error_code code reason) = [0; 0; code / 100; code mod 100] ++ reason.
Proof.
  intros Hc Hok. unfold rfc_error_code. cbn [app].
  rewrite rfc_bytes_merge by (change (2 ^ N.of_nat 3) with 8; lia).
  rewrite (rfc_bytes_cons _ 3) by reflexivity. rewrite (rfc_bytes_cons 8 1) by reflexivity.
  change (2 ^ N.of_nat 3) with 8. rewrite be3_small by lia. rewrite be1 by lia.
  rewrite rfc_bytes_octets_only by exact Hok. replace (0 * 8 + code / 100) with (code / 100) by lia. reflexivity.
Qed.
Lemma rfc_eq_err hdr code reason :
  300 <= code -> code < 700 -> bytes_ok reason = true -> len reason <= 509 ->
  agrees AvkErr hdr (AvErr code reason) (rfc_error_code code reason).
Proof.
  intros H1 H2 Hok Hl room. rewrite layout_error_code by assumption. intros Hr.
  rewrite len_app, !len_cons, len_nil in Hr. cbn [av_enc_kind].
  rewrite enc_error_code_ok by (try assumption; lia).
  replace ((code - code mod 100) / 100) with (code / 100) by lia. reflexivity.
Qed.

(* ---- RFC 8656 18.12: ADDRESS-ERROR-CODE ---- *)
Lemma layout_address_error_code fam code reason : fam < 256 -> code < 700 -> bytes_ok reason = true ->
  rfc_bytes (rfc_address_error_code fam code reason) = [fam; 0; code / 100; code mod 100] ++ reason.
Proof.
  intros Hf Hc Hok. unfold rfc_address_error_code. cbn [app].
  rewrite (rfc_bytes_cons 8 1) by reflexivity.
  rewrite rfc_bytes_merge by (change (2 ^ N.of_nat 3) with 8; lia).
  rewrite (rfc_bytes_cons _ 2) by reflexivity. rewrite (rfc_bytes_cons 8 1) by reflexivity.
  change (2 ^ N.of_nat 3) with 8. rewrite be2_small by lia. rewrite !be1 by lia.
  rewrite rfc_bytes_octets_only by exact Hok. replace (0 * 8 + code / 100) with (code / 100) by lia. reflexivity.
Qed.
Lemma rfc_eq_aerr hdr fam code reason :
  (fam =? 1) || (fam =? 2) = true -> 300 <= code -> code < 700 -> bytes_ok reason = true -> len reason <= 509 ->
  agrees AvkAErr hdr (AvAErr fam code reason) (rfc_address_error_code fam code reason).
Proof.
  intros Hf H1 H2 Hok Hl room.
  assert (Hf' : fam < 256) by (apply orb_prop in Hf as [E|E]; apply N.eqb_eq in E; lia).
  rewrite layout_address_error_code by assumption. intros Hr.
  rewrite len_app, !len_cons, len_nil in Hr. cbn [av_enc_kind].
  rewrite enc_error_code_ok by (try assumption; lia). cbn [av_bind]. rewrite Hf. lia_guards.
  replace ((code - code mod 100) / 100) with (code / 100) by lia. reflexivity.
Qed.

(* ---- Figure 8: UNKNOWN-ATTRIBUTES ---- *)
Lemma layout_unknown_attributes l : rfc_bytes (rfc_unknown_attributes l) = flat_map av_be16 l.
Proof.
  induction l as [|x l IH]; [reflexivity|]. unfold rfc_unknown_attributes in *. cbn [map flat_map].
  rewrite (rfc_bytes_cons 16 2) by reflexivity. rewrite IH. reflexivity.
Qed.
Lemma rfc_eq_uattrs hdr l : agrees AvkUAttrs hdr (AvUAttrs l) (rfc_unknown_attributes l).
Proof.
  intros room. rewrite layout_unknown_attributes. intros Hr. rewrite len_flat_be16 in Hr.
  cbn [av_enc_kind]. lia_guards. reflexivity.
Qed.

(* ---- Figure 10: PASSWORD-ALGORITHM ---- *)
Lemma params_ok p : av_opt_ok p = true -> bytes_ok (rfc_parameters p) = true.
Proof.
  destruct p as [b|]; cbn [av_opt_ok rfc_parameters]; [|reflexivity].
  intros H. apply andb_prop in H as [H _]. apply andb_prop in H as [H _]. exact H.
Qed.
Lemma params_len p : octets_len (rfc_parameters p) = plen p.
Proof. destruct p; reflexivity. Qed.
Lemma layout_password_algorithm_k alg p rest : av_opt_ok p = true ->
  rfc_bytes (rfc_password_algorithm alg p ++ rest) = alg_bytes alg p ++ rfc_bytes rest.
Proof.
  intros Hp. unfold rfc_password_algorithm, alg_bytes, av_be16. rewrite <- app_assoc. cbn [app].
  rewrite (rfc_bytes_cons 16 2), (rfc_bytes_cons 16 2) by reflexivity.
  rewrite rfc_bytes_octets by (apply params_ok; exact Hp). rewrite params_len, <- !app_assoc.
  destruct p; reflexivity.
Qed.
Lemma layout_password_algorithm alg p : av_opt_ok p = true ->
  rfc_bytes (rfc_password_algorithm alg p) = alg_bytes alg p.
Proof.
  intros Hp. rewrite <- (app_nil_r (rfc_password_algorithm alg p)), layout_password_algorithm_k by exact Hp.
  rewrite rfc_bytes_nil. apply app_nil_r.
Qed.
Lemma rfc_eq_alg hdr alg p : av_alg_ok (alg, p) = true ->
  agrees AvkAlg hdr (AvAlg alg p) (rfc_password_algorithm alg p).
Proof.
  intros H room. pose proof (alg_ok_entry _ H) as [_ Hp]. cbn [snd] in Hp.
  unfold av_alg_ok in H. cbn [fst snd] in H. apply andb_prop in H as [_ H].
  rewrite layout_password_algorithm by exact H. rewrite len_alg_bytes. intros Hr.
  cbn [av_enc_kind]. apply enc_alg_ok; [exact Hr|]. destruct p; cbn [plen popt_ok] in *; lia.
Qed.

(* ---- Figure 9: PASSWORD-ALGORITHMS (padding between the entries, none after the last) ---- *)
Lemma layout_password_algorithms : forall l, forallb av_alg_ok l = true ->
  rfc_bytes (rfc_password_algorithms l) = algs_bytes l.
Proof.
  induction l as [|[a p] rest IH]; intros H; [reflexivity|].
  cbn [forallb] in H. apply andb_prop in H as [Ha Hr].
  unfold av_alg_ok in Ha. cbn [fst snd] in Ha. apply andb_prop in Ha as [_ Hp].
  cbn [rfc_password_algorithms algs_bytes]. rewrite layout_password_algorithm_k by exact Hp. f_equal.
  destruct rest as [|e rest]; [reflexivity|]. cbv beta iota.
  rewrite rfc_bytes_padding, (IH Hr), len_alg_bytes, params_len. reflexivity.
Qed.
Lemma rfc_eq_algs hdr l : forallb av_alg_ok l = true -> agrees AvkAlgs hdr (AvAlgs l) (rfc_password_algorithms l).
Proof.
  intros H room. rewrite layout_password_algorithms by exact H. intros Hr.
  cbn [av_enc_kind]. rewrite enc_algs_ok; [reflexivity| |rewrite len_nil; lia].
  revert H. apply forallb_Forall. apply alg_ok_entry.
Qed.

(* ---- RFC 8656 18.1: CHANNEL-NUMBER ---- *)
Lemma layout_channel_number n : rfc_bytes (rfc_channel_number n) = av_be16 n ++ [0; 0].
Proof.
  unfold rfc_channel_number. rewrite (rfc_bytes_cons 16 2), (rfc_bytes_cons 16 2) by reflexivity. reflexivity.
Qed.
Lemma rfc_eq_chan hdr n : agrees AvkChan hdr (AvChan n) (rfc_channel_number n).
Proof.
  intros room. rewrite layout_channel_number. intros Hr. rewrite len_app, len_be16, !len_cons, len_nil in Hr.
  cbn [av_enc_kind]. lia_guards. reflexivity.
Qed.

(* ---- RFC 8656 18.7: EVEN-PORT ---- *)
Lemma layout_even_port (r:bool) : rfc_bytes (rfc_even_port r) = [if r then 0x80 else 0].
Proof.
  unfold rfc_even_port. rewrite rfc_bytes_merge by reflexivity. rewrite (rfc_bytes_cons _ 1) by reflexivity.
  destruct r; reflexivity.
Qed.
Lemma rfc_eq_even hdr r : agrees AvkEven hdr (AvEven r) (rfc_even_port r).
Proof.
  intros room. rewrite layout_even_port. intros Hr. rewrite !len_cons, len_nil in Hr.
  cbn [av_enc_kind]. lia_guards. reflexivity.
Qed.

(* ---- RFC 8656 18.8: REQUESTED-TRANSPORT ---- *)
Lemma layout_requested_transport p : p < 256 -> rfc_bytes (rfc_requested_transport p) = [p; 0; 0; 0].
Proof.
  intros H. unfold rfc_requested_transport. rewrite (rfc_bytes_cons 8 1), (rfc_bytes_cons 24 3) by reflexivity.
  rewrite be1 by exact H. reflexivity.
Qed.
Lemma rfc_eq_proto hdr p : p < 256 -> agrees AvkProto hdr (AvProto p) (rfc_requested_transport p).
Proof.
  intros H room. rewrite layout_requested_transport by exact H. intros Hr. rewrite !len_cons, len_nil in Hr.
  cbn [av_enc_kind]. lia_guards. reflexivity.
Qed.

(* ---- RFC 8656 18.6 / 18.11: REQUESTED-ADDRESS-FAMILY, ADDITIONAL-ADDRESS-FAMILY ---- *)
Lemma layout_address_family f : f < 256 -> rfc_bytes (rfc_address_family f) = [f; 0; 0; 0].
Proof.
  intros H. unfold rfc_address_family. rewrite (rfc_bytes_cons 8 1), (rfc_bytes_cons 24 3) by reflexivity.
  rewrite be1 by exact H. reflexivity.
Qed.
Lemma rfc_eq_fam hdr f : (f =? 1) || (f =? 2) = true -> agrees AvkFam hdr (AvFam f) (rfc_address_family f).
Proof.
  intros Hf room.
  assert (Hf' : f < 256) by (apply orb_prop in Hf as [E|E]; apply N.eqb_eq in E; lia).
  rewrite layout_address_family by exact Hf'. intros Hr. rewrite !len_cons, len_nil in Hr.
  cbn [av_enc_kind]. rewrite Hf. lia_guards. reflexivity.
Qed.

(* ---- RFC 8656 18.13: ICMP ---- *)
Lemma layout_icmp ty code data : code < 512 -> bytes_ok data = true ->
  rfc_bytes (rfc_icmp ty code data) = [0; 0] ++ av_be16 (ty * 512 + code) ++ data.
Proof.
  intros Hc Hok. unfold rfc_icmp, av_be16. cbn [app].
  rewrite (rfc_bytes_cons 16 2) by reflexivity.
  rewrite rfc_bytes_merge by (change (2 ^ N.of_nat 9) with 512; exact Hc).
  rewrite (rfc_bytes_cons _ 2) by reflexivity. change (2 ^ N.of_nat 9) with 512.
  rewrite rfc_bytes_octets_only by exact Hok. reflexivity.
Qed.
Lemma rfc_eq_icmp hdr ty code data : code <= 511 -> bytes_ok data = true -> len data = 4 ->
  agrees AvkIcmp hdr (AvIcmp ty code data) (rfc_icmp ty code data).
Proof.
  intros Hc Hok Hl room. rewrite layout_icmp by (try assumption; lia). intros Hr.
  rewrite !len_app, len_be16, !len_cons, len_nil, Hl in Hr.
  cbn [av_enc_kind]. rewrite Hl. guards. lia_guards. reflexivity.
Qed.

(* ---- RFC 5780 7.2: CHANGE-REQUEST ---- *)
Lemma layout_change_request_raw w : rfc_bytes (rfc_change_request_raw w) = av_be32 w.
Proof.
  unfold rfc_change_request_raw, av_be32.
  assert (P : 2 ^ N.of_nat 1 = 2) by reflexivity.
  rewrite rfc_bytes_merge by (rewrite P; lia). rewrite rfc_bytes_merge by (rewrite P; lia).
  rewrite rfc_bytes_merge by (rewrite P; lia). rewrite P.
  rewrite (rfc_bytes_cons _ 4) by reflexivity. rbnil. f_equal. lia.
Qed.
(* the word ChangeRequest::new stores for the two flags: ChangeIp = 1 << 2, ChangePort = 1 << 1 *)
Definition change_request_word (change_ip change_port:bool) : N :=
  (if change_ip then 4 else 0) + (if change_port then 2 else 0).
Lemma layout_change_request_flags a b :
  rfc_change_request a b = rfc_change_request_raw (change_request_word a b)
  /\ rfc_bytes (rfc_change_request a b) = av_be32 (change_request_word a b).
Proof. destruct a, b; split; vm_compute; reflexivity. Qed.
Lemma rfc_eq_change_request hdr w : agrees AvkU32 hdr (AvU32 w) (rfc_change_request_raw w).
Proof.
  intros room. rewrite layout_change_request_raw. intros Hr. rewrite len_be32 in Hr.
  cbn [av_enc_kind]. lia_guards. reflexivity.
Qed.

(* ==================================================================== (c) the IANA table and the model's registry *)
(* which of the model's encoder / decoder families each attribute belongs to *)
Definition rfc_kind (a:rfc_attr) : avk :=
  match a with
  | MAPPED_ADDRESS | ALTERNATE_SERVER | RESPONSE_ORIGIN | OTHER_ADDRESS => AvkAddr
  | XOR_MAPPED_ADDRESS | XOR_PEER_ADDRESS | XOR_RELAYED_ADDRESS => AvkXorAddr
  | CHANGE_REQUEST | LIFETIME | PRIORITY => AvkU32
  | RESPONSE_PORT => AvkU16
  | ICE_CONTROLLED | ICE_CONTROLLING => AvkU64
  | DONT_FRAGMENT | USE_CANDIDATE => AvkEmpty
  | PADDING => AvkText 64000 64000
  | SOFTWARE => AvkText 509 763
  | REALM | NONCE => AvkQuoted
  | USERNAME => AvkUser
  | ERROR_CODE => AvkErr
  | ADDRESS_ERROR_CODE => AvkAErr
  | PASSWORD_ALGORITHM => AvkAlg
  | PASSWORD_ALGORITHMS => AvkAlgs
  | UNKNOWN_ATTRIBUTES => AvkUAttrs
  | USERHASH => AvkHash
  | RESERVATION_TOKEN => AvkToken
  | DATA | MOBILITY_TICKET => AvkOpaque
  | CHANNEL_NUMBER => AvkChan
  | EVEN_PORT => AvkEven
  | REQUESTED_TRANSPORT => AvkProto
  | REQUESTED_ADDRESS_FAMILY | ADDITIONAL_ADDRESS_FAMILY => AvkFam
  | ICMP => AvkIcmp
  | MESSAGE_INTEGRITY => AvkMI
  | MESSAGE_INTEGRITY_SHA256 => AvkSha
  | FINGERPRINT => AvkFp
  end.

(* the registry of the model is the IANA table: same 38 code points, each with the family of its figure *)
Theorem registry_eq ty : av_registry ty = option_map rfc_kind (rfc_lookup ty).
Proof.
  unfold av_registry, rfc_lookup, rfc_type_codes. cbn [rfc_find].
  repeat match goal with
  | |- context [ty =? ?c] => destruct (N.eqb_spec ty c); [subst ty; reflexivity|]
  end.
  reflexivity.
Qed.

Lemma rfc_find_in : forall t ty, rfc_find ty t <> None <-> In ty (map fst t).
Proof.
  induction t as [|[c a] t IH]; intros ty; cbn [rfc_find map fst In].
  - split; [intros H; congruence|intros []].
  - destruct (N.eqb_spec ty c) as [->|Ne].
    + split; [intros _; left; reflexivity|intros _; discriminate].
    + rewrite IH. split; [intros H; right; exact H|intros [E|H]; [congruence|exact H]].
Qed.
Theorem rfc_registry_table ty : av_registry ty <> None <-> In ty (map fst rfc_type_codes).
Proof.
  rewrite registry_eq. unfold rfc_lookup. rewrite <- rfc_find_in.
  destruct (rfc_find ty rfc_type_codes); cbn [option_map]; split; congruence.
Qed.
(* "not in the table" as a computation *)
Lemma rfc_not_in_table ty : existsb (N.eqb ty) (map fst rfc_type_codes) = false -> av_registry ty = None.
Proof.
  intros H. destruct (av_registry ty) eqn:E; [|reflexivity]. exfalso.
  assert (I : In ty (map fst rfc_type_codes)) by (apply rfc_registry_table; congruence).
  assert (X : existsb (N.eqb ty) (map fst rfc_type_codes) = true)
    by (apply existsb_exists; exists ty; split; [exact I|apply N.eqb_refl]).
  congruence.
Qed.
Lemma rfc_type_codes_count : length rfc_type_codes = 38%nat /\ NoDup (map fst rfc_type_codes).
Proof.
  split; [reflexivity|]. apply av_nodup_spec. vm_compute. reflexivity.
Qed.
Lemma rfc_type_codes_u16 ty : In ty (map fst rfc_type_codes) -> ty < 65536.
Proof.
  intros H. assert (F : forallb (fun c => c <? 65536) (map fst rfc_type_codes) = true) by (vm_compute; reflexivity).
  rewrite forallb_forall in F. apply N.ltb_lt. apply F. exact H.
Qed.
(* e.g. ALTERNATE-DOMAIN (0x8003, RFC 8489) and the comprehension-required 0x0002 are not implemented *)
Example rfc_not_registered : av_registry 0x8003 = None /\ av_registry 0x0002 = None.
Proof. split; apply rfc_not_in_table; vm_compute; reflexivity. Qed.

(* ============================================================================================ (d) theorems *)
(* ---- every attribute value: the figure filled with the value is what the model's encoder writes ---- *)
Theorem rfc_value_eq_model : forall txid ty a,
  av_wf ty a = true -> length txid = 12%nat -> bytes_ok txid = true ->
  forall hdr, av_dec_header hdr = VOk txid ->
  exists v, rfc_value txid ty a = Some v /\ forall room, len v <= room -> av_enc_attr hdr ty a room = VOk v.
Proof.
  intros txid ty a Hwf Htl Htok hdr Hh.
  unfold rfc_value, rfc_attr_value, av_enc_attr. unfold av_wf in Hwf. rewrite registry_eq in *.
  destruct (rfc_lookup ty) as [at_|]; cbn [option_map] in *; [|discriminate].
  cut (exists f, rfc_fields txid at_ a = Some f /\ agrees (rfc_kind at_) hdr a f).
  { intros (f & -> & Hag). exists (rfc_bytes f). split; [reflexivity|exact Hag]. }
  destruct at_; cbn [rfc_kind] in *; destruct a; try discriminate Hwf;
    (eexists; split; [reflexivity|]); split_wf Hwf;
    repeat match goal with
    | H : (_ <? _) = true |- _ => apply N.ltb_lt in H
    | H : (_ <=? _) = true |- _ => apply N.leb_le in H
    | H : (_ =? _) = true |- _ => apply N.eqb_eq in H
    end.
  all: lazymatch goal with
    | |- agrees AvkAddr _ _ _ => apply rfc_eq_addr; assumption
    | |- agrees AvkXorAddr _ _ _ => apply (rfc_eq_xor_addr hdr txid); assumption
    | |- agrees AvkU16 _ _ _ => apply rfc_eq_u16
    | |- agrees AvkU32 _ _ (rfc_change_request_raw _) => apply rfc_eq_change_request
    | |- agrees AvkU32 _ _ _ => apply rfc_eq_u32
    | |- agrees AvkU64 _ _ _ => apply rfc_eq_u64
    | |- agrees AvkEmpty _ _ _ => apply rfc_eq_empty
    | |- agrees (AvkText _ _) _ _ _ => apply rfc_eq_text; assumption
    | |- agrees AvkQuoted _ _ _ => apply rfc_eq_quoted; assumption
    | |- agrees AvkUser _ _ _ => apply rfc_eq_user; assumption
    | |- agrees AvkErr _ _ _ => apply rfc_eq_err; assumption
    | |- agrees AvkAErr _ _ _ => apply rfc_eq_aerr; assumption
    | |- agrees AvkAlg _ _ _ => apply rfc_eq_alg; assumption
    | |- agrees AvkAlgs _ _ _ => apply rfc_eq_algs; assumption
    | |- agrees AvkUAttrs _ _ _ => apply rfc_eq_uattrs
    | |- agrees AvkHash _ _ _ => apply rfc_eq_hash; assumption
    | |- agrees AvkToken _ _ _ => apply rfc_eq_token; assumption
    | |- agrees AvkOpaque _ _ _ => apply rfc_eq_opaque; assumption
    | |- agrees AvkChan _ _ _ => apply rfc_eq_chan
    | |- agrees AvkEven _ _ _ => apply rfc_eq_even
    | |- agrees AvkProto _ _ _ => apply rfc_eq_proto; assumption
    | |- agrees AvkFam _ _ _ => apply rfc_eq_fam; assumption
    | |- agrees AvkIcmp _ _ _ => apply rfc_eq_icmp; assumption
    end.
Qed.
Print Assumptions rfc_value_eq_model.

(* ---- Figure 4: the attribute TLV ---- *)
Theorem rfc_attribute_eq_tlv ty v : ty < 65536 -> len v < 65536 -> bytes_ok v = true ->
  rfc_bytes (rfc_attribute ty v) = enc_tlv (ty, v).
Proof.
  intros Ht Hl Hok. unfold rfc_attribute, enc_tlv. cbn [fst snd app].
  rewrite (rfc_bytes_cons 16 2), (rfc_bytes_cons 16 2) by reflexivity.
  rewrite octets_len_eq, !be2_be16 by assumption.
  rewrite rfc_bytes_octets by exact Hok.
  rewrite <- (app_nil_r (rfc_padding (len v))), rfc_bytes_padding. rbnil. reflexivity.
Qed.
Print Assumptions rfc_attribute_eq_tlv.

(* the whole attribute, figure 4 around the value, is the TLV of the value the model's encoder writes *)
Theorem rfc_attribute_of_eq_model : forall txid ty a,
  av_wf ty a = true -> length txid = 12%nat -> bytes_ok txid = true ->
  forall hdr, av_dec_header hdr = VOk txid ->
  exists v, (forall room, len v <= room -> av_enc_attr hdr ty a room = VOk v) /\
            (len v < 65536 -> rfc_attribute_of txid ty a = Some (enc_tlv (ty, v))).
Proof.
  intros txid ty a Hwf Htl Htok hdr Hh.
  destruct (rfc_value_eq_model txid ty a Hwf Htl Htok hdr Hh) as (v & Hv & Henc).
  exists v. split; [exact Henc|]. intros Hl. unfold rfc_attribute_of. rewrite Hv. f_equal.
  assert (Hty : ty < 65536).
  { apply rfc_type_codes_u16. apply rfc_registry_table. unfold av_wf in Hwf. destruct (av_registry ty); [discriminate|discriminate Hwf]. }
  apply rfc_attribute_eq_tlv; [exact Hty|exact Hl|].
  (* the octets of a figure are octets *)
  unfold rfc_value, rfc_attr_value in Hv. destruct (rfc_lookup ty); [|discriminate].
  destruct (rfc_fields txid r a) as [f|]; [|discriminate]. injection Hv as <-.
  clear. unfold rfc_bytes. generalize (flatten_fields f). intros l.
  assert (G : forall n l, (length l <= n)%nat -> bytes_ok (bytes_of_bits l) = true).
  { induction n as [|n IH]; intros l0 Hn.
    - destruct l0; [reflexivity|cbn [length] in Hn; lia].
    - destruct l0 as [|b7 [|b6 [|b5 [|b4 [|b3 [|b2 [|b1 [|b0 r0]]]]]]]]; try reflexivity.
      cbn [bytes_of_bits]. unfold bytes_ok. cbn [forallb]. apply andb_true_intro. split.
      + unfold byte_ok. apply N.ltb_lt. unfold bits_value. cbn [fold_left]. unfold bit_value.
        destruct b7, b6, b5, b4, b3, b2, b1, b0; vm_compute; reflexivity.
      + apply IH. cbn [length] in Hn. lia. }
  apply (G (length l)). lia.
Qed.
Print Assumptions rfc_attribute_of_eq_model.

(* ---- Figures 2 and 3: the header ---- *)
Fixpoint list_eqb {A} (eqb:A -> A -> bool) (a b:list A) : bool :=
  match a, b with
  | [], [] => true
  | x :: a', y :: b' => eqb x y && list_eqb eqb a' b'
  | _, _ => false
  end.
Lemma list_eqb_eq {A} (eqb:A -> A -> bool) : (forall x y, eqb x y = true -> x = y) ->
  forall a b, list_eqb eqb a b = true -> a = b.
Proof.
  intros He. induction a as [|x a IH]; intros [|y b] H; cbn [list_eqb] in H; try discriminate; [reflexivity|].
  apply andb_prop in H as [H1 H2]. f_equal; [apply He; exact H1|apply IH; exact H2].
Qed.

(* the 16 bits "0 0 | M11..M7 C1 M6..M4 C0 M3..M0", all 16,384 (method, class) pairs:
   as octets they are the model's message type; as bits they are the `rfc_bits` of Codec/MsgType.v; and the two
   models of MessageType::as_u16 agree *)
Definition type_check (m c:N) : bool :=
  list_eqb N.eqb (rfc_bytes ([fld 2 0] ++ rfc_message_type m c)) (be16 (EncodeMsg.msg_type_of m c))
  && (EncodeMsg.msg_type_of m c =? MsgType.as_u16 m c)
  && list_eqb Bool.eqb (flatten_fields ([fld 2 0] ++ rfc_message_type m c)) (MsgType.rfc_bits m c)
  && (bits_value (flatten_fields ([fld 2 0] ++ rfc_message_type m c)) =? EncodeMsg.msg_type_of m c).
Lemma type_check_all : MsgType.forall_bits 12 (fun m => MsgType.forall_bits 2 (fun c => type_check m c)) = true.
Proof. vm_compute. reflexivity. Qed.
Lemma rfc_message_type_eq m c : m < 4096 -> c < 4 ->
  rfc_bytes ([fld 2 0] ++ rfc_message_type m c) = be16 (EncodeMsg.msg_type_of m c)
  /\ EncodeMsg.msg_type_of m c = MsgType.as_u16 m c
  /\ flatten_fields ([fld 2 0] ++ rfc_message_type m c) = MsgType.rfc_bits m c
  /\ bits_value (flatten_fields ([fld 2 0] ++ rfc_message_type m c)) = EncodeMsg.msg_type_of m c.
Proof.
  intros Hm Hc.
  pose proof (MsgType.forall_bits_spec 12 _ type_check_all m Hm) as H1. cbv beta in H1.
  pose proof (MsgType.forall_bits_spec 2 _ H1 c Hc) as H2. unfold type_check in H2.
  apply andb_prop in H2 as [H2 D]. apply andb_prop in H2 as [H2 C]. apply andb_prop in H2 as [A B].
  apply N.eqb_eq in B, D.
  apply (list_eqb_eq N.eqb) in A; [|intros x y E; apply N.eqb_eq; exact E].
  apply (list_eqb_eq Bool.eqb) in C; [|intros x y E; apply Bool.eqb_prop; exact E].
  auto.
Qed.

Theorem rfc_header_eq_model method class mlen txid :
  method < 4096 -> class < 4 -> mlen < 65536 -> length txid = 12%nat -> bytes_ok txid = true ->
  rfc_bytes (rfc_header method class mlen txid) = EncodeInto.header (EncodeMsg.msg_type_of method class) mlen txid.
Proof.
  intros Hm Hc Hl Htl Htok. unfold rfc_header, EncodeInto.header.
  rewrite app_assoc, (rfc_bytes_app 2) by reflexivity.
  destruct (rfc_message_type_eq method class Hm Hc) as (E & _).
  etransitivity; [apply (f_equal (fun x => x ++ _)); exact E|]. clear E.
  rewrite (rfc_bytes_cons 16 2), (rfc_bytes_cons 32 4), (rfc_bytes_cons 96 12) by reflexivity.
  rewrite be2_be16 by exact Hl. change (av_be_n 4 magic_cookie) with EncodeInto.cookie_bytes.
  rewrite (be_octets 12) by assumption. rbnil. reflexivity.
Qed.
Print Assumptions rfc_header_eq_model.

(* figure 2 with the message type as one 14-bit field *)
Lemma type14_check_all :
  MsgType.forall_bits 12 (fun m => MsgType.forall_bits 2 (fun c => rfc_type14 m c =? EncodeMsg.msg_type_of m c)) = true.
Proof. vm_compute. reflexivity. Qed.
Lemma type14_bound_all :
  MsgType.forall_bits 12 (fun m => MsgType.forall_bits 2 (fun c => rfc_type14 m c <? 16384)) = true.
Proof. vm_compute. reflexivity. Qed.
Lemma rfc_type14_eq m c : m < 4096 -> c < 4 -> rfc_type14 m c = EncodeMsg.msg_type_of m c /\ rfc_type14 m c < 16384.
Proof.
  intros Hm Hc. split.
  - pose proof (MsgType.forall_bits_spec 12 _ type14_check_all m Hm) as H1. cbv beta in H1.
    pose proof (MsgType.forall_bits_spec 2 _ H1 c Hc) as H2. apply N.eqb_eq. exact H2.
  - pose proof (MsgType.forall_bits_spec 12 _ type14_bound_all m Hm) as H1. cbv beta in H1.
    pose proof (MsgType.forall_bits_spec 2 _ H1 c Hc) as H2. apply N.ltb_lt. exact H2.
Qed.
Theorem rfc_header14_eq_model method class mlen txid :
  method < 4096 -> class < 4 -> mlen < 65536 -> length txid = 12%nat -> bytes_ok txid = true ->
  rfc_bytes (rfc_header14 method class mlen txid) = EncodeInto.header (EncodeMsg.msg_type_of method class) mlen txid.
Proof.
  intros Hm Hc Hl Htl Htok. unfold rfc_header14, EncodeInto.header.
  destruct (rfc_type14_eq method class Hm Hc) as (E & B). rewrite E in *. clear E.
  rewrite rfc_bytes_merge by (change (2 ^ N.of_nat 14) with 16384; exact B).
  rewrite (rfc_bytes_cons _ 2), (rfc_bytes_cons 16 2), (rfc_bytes_cons 32 4), (rfc_bytes_cons 96 12) by reflexivity.
  change (2 ^ N.of_nat 14) with 16384. rewrite !be2_be16 by lia.
  change (av_be_n 4 magic_cookie) with EncodeInto.cookie_bytes.
  rewrite (be_octets 12) by assumption. rbnil.
  replace (0 * 16384 + EncodeMsg.msg_type_of method class) with (EncodeMsg.msg_type_of method class) by lia.
  reflexivity.
Qed.
Print Assumptions rfc_header14_eq_model.

(* ---- the message: header, then the attribute TLVs; this is the buffer prefix `encode_into` returns (C14) ---- *)
Lemma rfc_message_body_eq l : forallb tlv_ok l = true -> forallb (fun a => bytes_ok (snd a)) l = true ->
  rfc_message_body l = enc_tlvs l.
Proof.
  unfold rfc_message_body, enc_tlvs. induction l as [|[t v] l IH]; intros H1 H2; [reflexivity|].
  cbn [forallb flat_map fst snd] in *. apply andb_prop in H1 as [Ht H1]. apply andb_prop in H2 as [Hv H2].
  unfold tlv_ok in Ht. cbn [fst snd] in Ht. apply andb_prop in Ht as [Ha Hb]. apply N.ltb_lt in Ha, Hb.
  rewrite rfc_attribute_eq_tlv by assumption. f_equal. apply IH; assumption.
Qed.
Theorem rfc_message_eq_model method class txid l :
  method < 4096 -> class < 4 -> length txid = 12%nat -> bytes_ok txid = true ->
  forallb tlv_ok l = true -> forallb (fun a => bytes_ok (snd a)) l = true -> EncodeInto.attr_bytes l < 65536 ->
  rfc_message method class txid l
  = EncodeInto.header (EncodeMsg.msg_type_of method class) (EncodeInto.attr_bytes l) txid ++ enc_tlvs l.
Proof.
  intros Hm Hc Htl Htok H1 H2 Hl. unfold rfc_message. rewrite rfc_message_body_eq by assumption.
  rewrite octets_len_eq. fold (EncodeInto.attr_bytes l). rewrite rfc_header_eq_model by assumption. reflexivity.
Qed.
Print Assumptions rfc_message_eq_model.

(* ---- the three kinds whose value the value encoder does not write (post_encode patches it): the figure holds what
        the decoder reads back ---- *)
Theorem rfc_message_integrity_eq hdr ud txid mac : bytes_ok mac = true -> len mac = 20 ->
  rfc_value txid 0x0008 (AvMI mac) = Some mac /\ av_dec_attr ud hdr 0x0008 mac = VOk (AvMI mac).
Proof.
  intros Hok Hl. split.
  - unfold rfc_value. change (rfc_lookup 8) with (Some MESSAGE_INTEGRITY). unfold rfc_attr_value. cbn [rfc_fields].
    rewrite layout_octet_string by exact Hok. reflexivity.
  - unfold av_dec_attr. change (av_registry 8) with (Some AvkMI). apply dec_mi_exact. exact Hl.
Qed.
Theorem rfc_message_integrity_sha256_eq hdr ud txid mac : bytes_ok mac = true -> len mac = 32 ->
  rfc_value txid 0x001C (AvSha mac) = Some mac /\ av_dec_attr ud hdr 0x001C mac = VOk (AvSha mac).
Proof.
  intros Hok Hl. split.
  - unfold rfc_value. change (rfc_lookup 28) with (Some MESSAGE_INTEGRITY_SHA256). unfold rfc_attr_value.
    cbn [rfc_fields]. rewrite layout_octet_string by exact Hok. reflexivity.
  - unfold av_dec_attr. change (av_registry 28) with (Some AvkSha). apply dec_sha_exact. exact Hl.
Qed.
Lemma be32_input_text n : n < 4294967296 -> av_be32 n = InputText.be32 n.
Proof. intros H. unfold av_be32, InputText.be32. cbn [av_be_n app]. repeat (f_equal; try lia). Qed.
(* FINGERPRINT: the 32-bit field is CRC-32 xor 0x5354554e -- the four octets `post_value EFp` patches in
   (Codec/EncodeMsg.v: be32 (fp_value text), fp_value text = crc32 text xor 0x5354554e) and the decoder un-xors *)
Theorem rfc_fingerprint_eq hdr ud txid crc : crc < 4294967296 ->
  rfc_value txid 0x8028 (AvFp crc) = Some (InputText.be32 (N.lxor crc 0x5354554e))
  /\ av_dec_attr ud hdr 0x8028 (InputText.be32 (N.lxor crc 0x5354554e)) = VOk (AvFp crc).
Proof.
  intros Hc.
  assert (Hx : N.lxor crc 0x5354554e < 4294967296) by (apply (lxor_lt_pow2 _ _ 32); [exact Hc|reflexivity]).
  rewrite <- be32_input_text by exact Hx. split.
  - unfold rfc_value. change (rfc_lookup 32808) with (Some FINGERPRINT). unfold rfc_attr_value. cbn [rfc_fields].
    unfold rfc_fingerprint. rewrite (rfc_bytes_cons 32 4) by reflexivity. rbnil. reflexivity.
  - unfold av_dec_attr. change (av_registry 32808) with (Some AvkFp). cbn [av_dec_kind].
    unfold av_dec_u32. rewrite len_be32. guards.
    rewrite av_to_ok by (rewrite len_be32; lia). cbn [av_bind].
    unfold av_be32. rewrite take_be32. rewrite av_rd32_ok by (rewrite len_be_n; lia). cbn [av_bind].
    rewrite take_be32. rewrite av_rd_be32 by exact Hx. rewrite lxor_invol. reflexivity.
Qed.
Print Assumptions rfc_fingerprint_eq.
