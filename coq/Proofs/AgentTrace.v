(* Trace-level theorems on the full agent model (Agent/Model.v): what one step may emit, and along any run with
   never-reused transaction ids every transaction gets at most one final event and is silent afterwards (C05).
   Port of the prototype Agent/ClientTrace.v to the real `step`. *)
From Coq Require Import List NArith Lia Bool Arith Permutation.
Import ListNotations.
From Rustun Require Import Agent.Rto Agent.Model Proofs.AgentInv.
Open Scope N_scope.

(* ------------------------------------------------------------------ classification of events *)
(* final events: Retry, Failed, and the delivery of a RESPONSE (an indication's Received is not a final) *)
Definition ev_final (e:event) : option txid :=
  match e with
  | Retry id => Some id
  | Failed id _ => Some id
  | Received m => if is_response m then Some (m_id m) else None
  | _ => None
  end.
(* non-final events that speak about an outstanding transaction: a retransmission and the timer notification *)
Definition ev_live (e:event) : option txid :=
  match e with
  | Out id false _ => Some id
  | Notif id _ => Some id
  | _ => None
  end.
Definition finals (ev:list event) : list txid := flat_map (fun e => opt_list (ev_final e)) ev.

Lemma finals_app a b : finals (a ++ b) = finals a ++ finals b.
Proof. unfold finals. apply flat_map_app. Qed.
Lemma in_finals x ev : In x (finals ev) <-> exists e, In e ev /\ ev_final e = Some x.
Proof.
  unfold finals. rewrite in_flat_map. split; intros (e & Hin & Hx); exists e; (split; [exact Hin|]).
  - destruct (ev_final e) as [y|]; cbn [opt_list In] in Hx; [destruct Hx as [->|[]]; reflexivity|destruct Hx].
  - rewrite Hx. left. reflexivity.
Qed.
Lemma finals_snoc ev e : finals (ev ++ [e]) = finals ev ++ opt_list (ev_final e).
Proof. rewrite finals_app. unfold finals at 2. cbn [flat_map]. rewrite app_nil_r. reflexivity. Qed.

Lemma NoDup_snoc {A} (l:list A) x : NoDup l -> ~ In x l -> NoDup (l ++ [x]).
Proof.
  intros Hnd Hni. apply NoDup_rev in Hnd. rewrite <- (rev_involutive (l ++ [x])). apply NoDup_rev.
  rewrite rev_app_distr. cbn [rev app]. constructor; [|exact Hnd]. intros Hin. apply Hni. apply in_rev. exact Hin.
Qed.
Lemma NoDup_app_disjoint {A} (a b:list A) : NoDup a -> NoDup b -> (forall x, In x a -> In x b -> False) -> NoDup (a ++ b).
Proof.
  induction a as [|x a IH]; cbn [app]; intros Ha Hb Hd; [exact Hb|].
  inversion Ha as [|? ? Hni Ha']; subst. constructor.
  - intros Hin. apply in_app_or in Hin as [Hin|Hin]; [contradiction|]. apply (Hd x); [left; reflexivity|exact Hin].
  - apply IH; auto. intros y Hy1 Hy2. apply (Hd y); [right; exact Hy1|exact Hy2].
Qed.

(* ------------------------------------------------------------------ the on_timeout fold *)
Definition EInv (t0 t:list (txid*txn)) (pending:list txid) (ev:list event) : Prop :=
  (forall e x, In e ev -> ev_final e = Some x -> In x (ids_t t0) /\ ~ In x (ids_t t) /\ ~ In x pending)
  /\ (forall e x, In e ev -> ev_live e = Some x -> In x (ids_t t) /\ ~ In x pending)
  /\ NoDup (finals ev)
  /\ (forall x, In x (ids_t t) -> In x (ids_t t0))
  /\ (forall id p, ~ In (Out id true p) ev).

Lemma tmo_one_einv now t0 t h mk ev id pending :
  TInv t h (id :: pending) -> EInv t0 t (id :: pending) ev ->
  let '(t', _, _, ev') := tmo_one now (t, h, mk, ev) id in EInv t0 t' pending ev'.
Proof.
  intros (Ht & Hnd & Heq) (Hfin & Hnon & Hndf & Hsub & Hfirst). unfold tmo_one.
  assert (Hin_t : In id (ids_t t)) by (apply Heq; apply in_or_app; right; left; reflexivity).
  destruct (lookup id t) as [x|] eqn:Hl; [|exfalso; apply lookup_in in Hin_t; congruence].
  apply NoDup_remove in Hnd as [Hnd Hni].
  assert (Hnp : ~ In id pending) by (intros Hp; apply Hni; apply in_or_app; right; exact Hp).
  destruct (next_rto (tm x) now) as [[d|] m'].
  - (* re-armed *)
    refine (conj _ (conj _ (conj _ (conj _ _)))).
    + intros e y Hin Hf. apply in_app_or in Hin as [Hin|[<-|[]]]; [|discriminate].
      destruct (Hfin e y Hin Hf) as (A & B & C). rewrite ids_update_t. repeat split; auto. intros Hp; apply C; right; exact Hp.
    + intros e y Hin Hf. rewrite ids_update_t. apply in_app_or in Hin as [Hin|[<-|[]]].
      * destruct (Hnon e y Hin Hf) as (A & C). split; auto. intros Hp; apply C; right; exact Hp.
      * cbn [ev_live] in Hf. inversion Hf; subst y. split; assumption.
    + rewrite finals_snoc. cbn [ev_final opt_list]. rewrite app_nil_r. exact Hndf.
    + intros y Hy. rewrite ids_update_t in Hy. apply Hsub; exact Hy.
    + intros i p Hin. apply in_app_or in Hin as [Hin|[Hin|[]]]; [eapply Hfirst; exact Hin|discriminate].
  - (* failed *)
    refine (conj _ (conj _ (conj _ (conj _ _)))).
    + intros e y Hin Hf. apply in_app_or in Hin as [Hin|[<-|[]]].
      * destruct (Hfin e y Hin Hf) as (A & B & C). repeat split; auto.
        -- intros Hr. apply ids_remove_t in Hr as [Hr _]. contradiction.
        -- intros Hp; apply C; right; exact Hp.
      * cbn [ev_final] in Hf. inversion Hf; subst y. repeat split; [apply Hsub; exact Hin_t| |exact Hnp].
        intros Hr. apply ids_remove_t in Hr as [_ Hr]. congruence.
    + intros e y Hin Hf. apply in_app_or in Hin as [Hin|[<-|[]]]; [|discriminate].
      destruct (Hnon e y Hin Hf) as (A & C). split.
      * apply ids_remove_t. split; [exact A|]. intros Heq'. apply C. left. symmetry. exact Heq'.
      * intros Hp; apply C; right; exact Hp.
    + rewrite finals_snoc. cbn [ev_final opt_list]. apply NoDup_snoc; [exact Hndf|].
      intros Hinf. apply in_finals in Hinf as (e & Hine & Hf).
      destruct (Hfin e id Hine Hf) as (_ & _ & C). apply C. left. reflexivity.
    + intros y Hy. apply ids_remove_t in Hy as [Hy _]. apply Hsub; exact Hy.
    + intros i p Hin. apply in_app_or in Hin as [Hin|[Hin|[]]]; [eapply Hfirst; exact Hin|discriminate].
Qed.

Lemma tmo_fold_einv now t0 : forall pending t h mk ev,
  TInv t h pending -> EInv t0 t pending ev ->
  let '(t', h', _, ev') := fold_left (tmo_one now) pending (t, h, mk, ev) in TInv t' h' [] /\ EInv t0 t' [] ev'.
Proof.
  induction pending as [|id pending IH]; intros t h mk ev Hti Hei; cbn [fold_left]; [split; assumption|].
  pose proof (tmo_one_inv now t h mk ev id pending Hti) as H1.
  pose proof (tmo_one_einv now t0 t h mk ev id pending Hti Hei) as H2.
  destruct (tmo_one now (t, h, mk, ev) id) as [[[t1 h1] mk1] ev1]. apply IH; assumption.
Qed.

Lemma notif_ids h now : forall e, In e (notif h now) -> exists m, In m h /\ e = Notif (h_id m) (h_exp m - now).
Proof.
  intros e. destruct (notif_shape h now) as [[_ ->]|(m & Hin & _ & ->)]; [intros []|].
  intros [<-|[]]. exists m. auto.
Qed.
Lemma finals_notif h now : finals (notif h now) = [].
Proof. unfold notif. destruct (min_entry h); reflexivity. Qed.

(* ------------------------------------------------------------------ what one step may emit *)
Definition sent_id (o:op) (x:txid) : Prop := match o with Send _ id _ _ _ _ => x = id | _ => False end.
Definition is_indication_op (o:op) : Prop := match o with Indication _ _ _ _ => True | _ => False end.

Definition step_ok (c:client) (o:op) (c':client) (ev:list event) : Prop :=
  Inv c'
  /\ (forall e x, In e ev -> ev_final e = Some x -> In x (ids_t (T c)) /\ ~ In x (ids_t (T c')))
  /\ (forall e x, In e ev -> ev_live e = Some x -> In x (ids_t (T c')))
  /\ NoDup (finals ev)
  /\ (forall x, In x (ids_t (T c')) -> In x (ids_t (T c)) \/ sent_id o x)
  /\ (forall id p, In (Out id true p) ev -> (sent_id o id /\ In id (ids_t (T c'))) \/ (is_indication_op o /\ m_class p = CIndication)).

Lemma step_ok_quiet c o c' : Inv c' -> T c' = T c -> step_ok c o c' [].
Proof.
  intros Hi HT. refine (conj Hi (conj _ (conj _ (conj _ (conj _ _))))).
  - intros e x [].
  - intros e x [].
  - constructor.
  - rewrite HT. intros x Hx; left; exact Hx.
  - intros i p [].
Qed.

Theorem step_events_spec c o :
  Inv c -> fresh_for c o -> let '(c', _, ev) := step c o in step_ok c o c' ev.
Proof.
  intros Hinv Hfresh. pose proof (inv_step c o Hinv Hfresh) as Hi.
  destruct o as [now id r method app room|id method app room|now d w|now].
  - (* Send *)
    destruct (step_send_cases c now id r method app room) as [(rep & He & _)|(a & d & m1 & _ & _ & _ & He)];
      rewrite He in *; cbn [fst] in Hi.
    { apply step_ok_quiet; [exact Hi|reflexivity]. }
    refine (conj Hi (conj _ (conj _ (conj _ (conj _ _))))).
    + intros e x [<-|Hin] Hf; [discriminate|]. apply notif_ids in Hin as (m & _ & ->). discriminate.
    + intros e x [<-|Hin] Hf; [discriminate|]. apply notif_ids in Hin as (m & Hin & ->). cbn [ev_live] in Hf. inversion Hf; subst x.
      destruct Hi as (_ & _ & Heq). apply Heq. apply in_map. exact Hin.
    + change (?a :: notif ?h now) with ([a] ++ notif h now). rewrite finals_app, finals_notif. cbn. constructor.
    + unfold with_TH; cbn [T ids_t map fst]. intros x [<-|Hx]; [right; reflexivity|left; exact Hx].
    + intros i p [Hin|Hin].
      * inversion Hin; subst. left. split; [reflexivity|]. unfold with_TH; cbn [T ids_t map fst]. left. reflexivity.
      * apply notif_ids in Hin as (m & _ & Hin). discriminate.
  - (* Indication *)
    destruct (step_indication_cases c id method app room) as [(rep & He)|(a & He)]; rewrite He in *; cbn [fst] in Hi.
    { apply step_ok_quiet; [exact Hi|reflexivity]. }
    refine (conj Hi (conj _ (conj _ (conj _ (conj _ _))))).
    + intros e x [<-|[]]; discriminate.
    + intros e x [<-|[]]; discriminate.
    + cbn. constructor.
    + intros x Hx; left; exact Hx.
    + intros i p [Hin|[]]. inversion Hin; subst. right. split; [exact I|reflexivity].
  - (* Recv *)
    destruct (step_recv_cases c now d w) as [(rep & He & _)|[(mk & He & _)|[(Hc & mech' & mk & He)|(Hr & (y & Hl) & mech' & mk & ev & He & Hev)]]];
      rewrite He in *; cbn [fst] in Hi.
    { apply step_ok_quiet; [exact Hi|reflexivity]. }
    { apply step_ok_quiet; [exact Hi|reflexivity]. }
    { assert (Hnf : ev_final (Received (wmsg w)) = None) by (cbn [ev_final]; unfold is_response; cbn [wmsg m_class]; rewrite Hc; reflexivity).
      refine (conj Hi (conj _ (conj _ (conj _ (conj _ _))))).
      + intros e x [<-|[]] Hf. congruence.
      + intros e x [<-|[]]; discriminate.
      + unfold finals; cbn [flat_map]. rewrite Hnf. cbn. constructor.
      + intros x Hx; left; exact Hx.
      + intros i p [Hin|[]]. discriminate. }
    assert (Hf : ev_final ev = Some (m_id w) /\ ev_live ev = None /\ forall i p, ev <> Out i true p).
    { destruct Hev as [->|[->|(rs & ->)]]; cbn [ev_final ev_live wmsg m_id]; repeat split; try discriminate.
      change (is_response (wmsg w)) with (is_response w). rewrite Hr. reflexivity. }
    destruct Hf as (Hf & Hlv & Hno).
    refine (conj Hi (conj _ (conj _ (conj _ (conj _ _))))).
    + intros e x [<-|[]] Hx. rewrite Hf in Hx. inversion Hx; subst x. split; [eapply lookup_some_in; exact Hl|].
      unfold with_TH; cbn [T]. intros Hin. apply ids_remove_t in Hin as [_ Hne]. congruence.
    + intros e x [<-|[]] Hx. congruence.
    + unfold finals; cbn [flat_map]. rewrite Hf. cbn. constructor; [intros []|constructor].
    + unfold with_TH, with_mech; cbn [T]. intros x Hx. apply ids_remove_t in Hx as [Hx _]. left; exact Hx.
    + intros i p [Hin|[]]. exfalso. eapply Hno. exact Hin.
  - (* Tmo *)
    clear Hi. cbn [step].
    pose proof (tinv_split c now Hinv) as Hti.
    assert (Hei : EInv (T c) (T c) (map h_id (filter (fun e => h_exp e <=? now) (H c))) []).
    { refine (conj _ (conj _ (conj _ (conj _ _)))); [intros e x []|intros e x []|constructor|auto|intros i p []]. }
    pose proof (tmo_fold_einv now (T c) _ _ _ (markers c) [] Hti Hei) as Hf.
    destruct (fold_left (tmo_one now) _ (T c, _, markers c, [])) as [[[t' h'] mk'] ev].
    destruct Hf as (Hti' & (Hfin & Hnon & Hndf & Hsub & Hfirst)).
    assert (Hinv' : Inv {| cfg := cfg c; mech_ := mech_ c; markers := mk'; T := t'; H := h' |})
      by (eapply tinv_nil_inv; [exact Hti'|reflexivity|reflexivity]).
    refine (conj Hinv' (conj _ (conj _ (conj _ (conj _ _))))); cbn [T].
    + intros e x Hin Hf. apply in_app_or in Hin as [Hin|Hin].
      * destruct (Hfin e x Hin Hf) as (X & Y & _). split; assumption.
      * apply notif_ids in Hin as (m & _ & ->). discriminate.
    + intros e x Hin Hf. apply in_app_or in Hin as [Hin|Hin].
      * apply (Hnon e x Hin Hf).
      * apply notif_ids in Hin as (m & Hin & ->). cbn [ev_live] in Hf. inversion Hf; subst x.
        destruct Hinv' as (_ & _ & Heq'). cbn [T H] in Heq'. apply Heq'. apply in_map. exact Hin.
    + rewrite finals_app, finals_notif, app_nil_r. exact Hndf.
    + intros x Hx. left. apply Hsub. exact Hx.
    + intros i p Hin. apply in_app_or in Hin as [Hin|Hin]; [exfalso; eapply Hfirst; exact Hin|].
      apply notif_ids in Hin as (m & _ & Hin). discriminate.
Qed.

(* ------------------------------------------------------------------ traces *)
Fixpoint run (c:client) (ops:list op) : client * list event :=
  match ops with
  | [] => (c, [])
  | o :: r => let '(c1, _, ev) := step c o in let '(c2, evs) := run c1 r in (c2, ev ++ evs)
  end.

(* ids handed to Send are never reused: not outstanding and not used before (ids of indications are unconstrained) *)
Definition fresh_op (used:list txid) (o:op) : Prop :=
  match o with Send _ id _ _ _ _ => ~ In id used | _ => True end.
Definition used_step (used:list txid) (o:op) : list txid :=
  match o with Send _ id _ _ _ _ => id :: used | _ => used end.
Fixpoint fresh_trace (used:list txid) (ops:list op) : Prop :=
  match ops with
  | [] => True
  | o :: r => fresh_op used o /\ fresh_trace (used_step used o) r
  end.
Fixpoint used_after (used:list txid) (ops:list op) : list txid :=
  match ops with [] => used | o :: r => used_after (used_step used o) r end.

Lemma used_step_incl used o x : In x used -> In x (used_step used o).
Proof. destruct o; cbn [used_step]; auto. intros Hx; right; exact Hx. Qed.
Lemma used_after_incl : forall ops used x, In x used -> In x (used_after used ops).
Proof. induction ops as [|o r IH]; intros used x Hx; cbn [used_after]; [exact Hx|]. apply IH. apply used_step_incl. exact Hx. Qed.

Lemma run_app : forall ops1 ops2 c,
  run c (ops1 ++ ops2) = let '(c1, e1) := run c ops1 in let '(c2, e2) := run c1 ops2 in (c2, e1 ++ e2).
Proof.
  induction ops1 as [|o r IH]; intros ops2 c; cbn [run app].
  - destruct (run c ops2) as [c2 e2]. reflexivity.
  - destruct (step c o) as [[c1 rep] ev]. rewrite IH. destruct (run c1 r) as [c2 e1]. destruct (run c2 ops2) as [c3 e2].
    rewrite app_assoc. reflexivity.
Qed.
Lemma fresh_trace_app : forall ops1 ops2 used,
  fresh_trace used (ops1 ++ ops2) <-> fresh_trace used ops1 /\ fresh_trace (used_after used ops1) ops2.
Proof.
  induction ops1 as [|o r IH]; intros ops2 used; cbn [fresh_trace app used_after]; [tauto|].
  rewrite IH. tauto.
Qed.

(* one step keeps the bookkeeping of the induction *)
Lemma step_setup c o used :
  Inv c -> (forall x, In x (ids_t (T c)) -> In x used) -> fresh_op used o ->
  let '(c1, _, ev) := step c o in
  step_ok c o c1 ev /\ (forall x, In x (ids_t (T c1)) -> In x (used_step used o)).
Proof.
  intros Hinv Hused Hfo.
  assert (Hff : fresh_for c o).
  { destruct o as [n i rr me ap ro| | |]; cbn [fresh_for fresh_op] in *; try exact I.
    intros Hin. apply Hfo. apply Hused. exact Hin. }
  pose proof (step_events_spec c o Hinv Hff) as Hs.
  destruct (step c o) as [[c1 rep] ev]. split; [exact Hs|].
  destruct Hs as (_ & _ & _ & _ & Hsub & _). intros x Hx.
  destruct (Hsub x Hx) as [Hx'|Hs]; [apply used_step_incl, Hused, Hx'|].
  destruct o; cbn [sent_id used_step] in *; try contradiction. left. symmetry. exact Hs.
Qed.

(* a used id that is not outstanding never comes back, and nothing is said about it any more *)
Lemma silent_run : forall ops c used x,
  Inv c -> (forall y, In y (ids_t (T c)) -> In y used) -> In x used -> ~ In x (ids_t (T c)) -> fresh_trace used ops ->
  let '(c', evs) := run c ops in
  ~ In x (ids_t (T c')) /\ (forall e, In e evs -> ev_final e <> Some x /\ ev_live e <> Some x).
Proof.
  induction ops as [|o r IH]; intros c used x Hinv Hused Hx Hnx Hfr; cbn [run].
  - split; [exact Hnx|intros e []].
  - destruct Hfr as [Hfo Hfr]. pose proof (step_setup c o used Hinv Hused Hfo) as Hs.
    destruct (step c o) as [[c1 rep] ev]. destruct Hs as ((Hinv1 & Hfin & Hlive & _ & Hsub & _) & Hused1).
    assert (Hnx1 : ~ In x (ids_t (T c1))).
    { intros Hin. destruct (Hsub x Hin) as [Hin0|Hs]; [contradiction|].
      destruct o; cbn [sent_id fresh_op] in *; try contradiction. subst x. contradiction. }
    pose proof (IH c1 (used_step used o) x Hinv1 Hused1 (used_step_incl used o x Hx) Hnx1 Hfr) as Hr.
    destruct (run c1 r) as [c2 evs]. destruct Hr as [Hout Hsil]. split; [exact Hout|].
    intros e Hin. apply in_app_or in Hin as [Hin|Hin]; [|apply Hsil; exact Hin]. split; intros He.
    + apply Hnx. apply (Hfin e x Hin He).
    + apply Hnx1. apply (Hlive e x Hin He).
Qed.

Lemma run_nodup : forall ops c used,
  Inv c -> (forall y, In y (ids_t (T c)) -> In y used) -> fresh_trace used ops ->
  NoDup (finals (snd (run c ops))).
Proof.
  induction ops as [|o r IH]; intros c used Hinv Hused Hfr; cbn [run].
  - cbn. constructor.
  - destruct Hfr as [Hfo Hfr]. pose proof (step_setup c o used Hinv Hused Hfo) as Hs.
    destruct (step c o) as [[c1 rep] ev] eqn:Hstep. destruct Hs as ((Hinv1 & Hfin & _ & Hnd & _ & _) & Hused1).
    pose proof (IH c1 (used_step used o) Hinv1 Hused1 Hfr) as Hnd2.
    assert (Hsil : forall x, In x used -> ~ In x (ids_t (T c1)) ->
              forall e, In e (snd (run c1 r)) -> ev_final e <> Some x /\ ev_live e <> Some x).
    { intros x Hx Hnx. pose proof (silent_run r c1 (used_step used o) x Hinv1 Hused1 (used_step_incl used o x Hx) Hnx Hfr) as Hr.
      destruct (run c1 r) as [c2 evs]. apply Hr. }
    destruct (run c1 r) as [c2 evs]. cbn [snd] in *. rewrite finals_app.
    apply NoDup_app_disjoint; [exact Hnd|exact Hnd2|].
    intros x Hx1 Hx2. apply in_finals in Hx1 as (e1 & Hin1 & He1). apply in_finals in Hx2 as (e2 & Hin2 & He2).
    destruct (Hfin e1 x Hin1 He1) as [Hin Hnot].
    destruct (Hsil x (Hused x Hin) Hnot e2 Hin2) as [Hc _]. contradiction.
Qed.

(* C05: along any run from a state satisfying the invariant, with never-reused ids, each transaction gets at most
   one final event *)
Theorem at_most_one_final ops c :
  Inv c -> fresh_trace (ids_t (T c)) ops -> NoDup (finals (snd (run c ops))).
Proof. intros Hinv Hfr. exact (run_nodup ops c (ids_t (T c)) Hinv (fun y Hy => Hy) Hfr). Qed.

(* where a run leaves the table, and what happened to an id that had its final event *)
Lemma run_state : forall ops c used,
  Inv c -> (forall y, In y (ids_t (T c)) -> In y used) -> fresh_trace used ops ->
  let '(c', evs) := run c ops in
  Inv c' /\ (forall y, In y (ids_t (T c')) -> In y (used_after used ops))
  /\ (forall x, In x (finals evs) -> In x (used_after used ops) /\ ~ In x (ids_t (T c'))).
Proof.
  induction ops as [|o r IH]; intros c used Hinv Hused Hfr; cbn [run used_after].
  - refine (conj Hinv (conj Hused _)). intros x [].
  - destruct Hfr as [Hfo Hfr]. pose proof (step_setup c o used Hinv Hused Hfo) as Hs.
    destruct (step c o) as [[c1 rep] ev]. destruct Hs as ((Hinv1 & Hfin & _ & _ & _ & _) & Hused1).
    pose proof (IH c1 (used_step used o) Hinv1 Hused1 Hfr) as Hr.
    assert (Hsil : forall x, In x used -> ~ In x (ids_t (T c1)) -> ~ In x (ids_t (T (fst (run c1 r))))).
    { intros x Hx Hnx. pose proof (silent_run r c1 (used_step used o) x Hinv1 Hused1 (used_step_incl used o x Hx) Hnx Hfr) as Hq.
      destruct (run c1 r) as [c2 evs]. apply Hq. }
    destruct (run c1 r) as [c2 evs]. cbn [fst] in Hsil. destruct Hr as (Hinv2 & Hused2 & Hgone).
    refine (conj Hinv2 (conj Hused2 _)). intros x Hx. rewrite finals_app in Hx. apply in_app_or in Hx as [Hx|Hx].
    + apply in_finals in Hx as (e & Hin & He). destruct (Hfin e x Hin He) as [Hin0 Hnot]. split.
      * apply used_after_incl, used_step_incl, Hused, Hin0.
      * apply Hsil; [apply Hused, Hin0|exact Hnot].
    + apply Hgone. exact Hx.
Qed.

(* once x has had a final event, no later step emits a retransmission of x, a notification for x, or a final for x *)
Theorem silent_after_final c ops1 ops2 x :
  Inv c -> fresh_trace (ids_t (T c)) (ops1 ++ ops2) -> In x (finals (snd (run c ops1))) ->
  forall e, In e (snd (run (fst (run c ops1)) ops2)) -> ev_final e <> Some x /\ ev_live e <> Some x.
Proof.
  intros Hinv Hfr Hx. apply fresh_trace_app in Hfr as [Hfr1 Hfr2].
  pose proof (run_state ops1 c (ids_t (T c)) Hinv (fun y Hy => Hy) Hfr1) as Hs.
  destruct (run c ops1) as [c1 evs1]. cbn [fst snd] in *. destruct Hs as (Hinv1 & Hused1 & Hgone).
  destruct (Hgone x Hx) as [Hux Hnx].
  pose proof (silent_run ops2 c1 _ x Hinv1 Hused1 Hux Hnx Hfr2) as Hr.
  destruct (run c1 ops2) as [c2 evs2]. cbn [snd]. apply Hr.
Qed.

(* the explicit forms of "names x" *)
Corollary silent_after_final_explicit c ops1 ops2 x :
  Inv c -> fresh_trace (ids_t (T c)) (ops1 ++ ops2) -> In x (finals (snd (run c ops1))) ->
  let evs2 := snd (run (fst (run c ops1)) ops2) in
  (forall p, ~ In (Out x false p) evs2) /\ (forall left, ~ In (Notif x left) evs2) /\ ~ In (Retry x) evs2
  /\ (forall rs, ~ In (Failed x rs) evs2) /\ (forall m, is_response m = true -> m_id m = x -> ~ In (Received m) evs2).
Proof.
  intros Hinv Hfr Hx evs2. pose proof (silent_after_final c ops1 ops2 x Hinv Hfr Hx) as Hs. fold evs2 in Hs.
  refine (conj _ (conj _ (conj _ (conj _ _)))).
  - intros p Hin. destruct (Hs _ Hin) as [_ Hl]. apply Hl. reflexivity.
  - intros left Hin. destruct (Hs _ Hin) as [_ Hl]. apply Hl. reflexivity.
  - intros Hin. destruct (Hs _ Hin) as [Hf _]. apply Hf. reflexivity.
  - intros rs Hin. destruct (Hs _ Hin) as [Hf _]. apply Hf. reflexivity.
  - intros m Hr Hid Hin. destruct (Hs _ Hin) as [Hf _]. apply Hf. cbn [ev_final]. rewrite Hr, Hid. reflexivity.
Qed.

(* a response whose transaction is not outstanding (never sent, finished, timed out) is discarded without a trace *)
Theorem late_response_discarded c now w :
  ~ In (m_id w) (ids_t (T c)) -> is_response w = true -> step c (Recv now true w) = (c, RDiscarded, []).
Proof.
  intros Hni Hr. rewrite step_recv_eq. cbv zeta. change (is_response (wmsg w)) with (is_response w). rewrite Hr.
  cbn [wmsg m_class m_id]. apply lookup_none_notin in Hni. rewrite Hni. cbn [andb].
  destruct (class_eqb (m_class w) CRequest); reflexivity.
Qed.

(* ... in particular after its final event *)
Corollary response_after_final_discarded c ops x now w :
  Inv c -> fresh_trace (ids_t (T c)) ops -> In x (finals (snd (run c ops))) -> m_id w = x -> is_response w = true ->
  step (fst (run c ops)) (Recv now true w) = (fst (run c ops), RDiscarded, []).
Proof.
  intros Hinv Hfr Hx Hid Hr.
  pose proof (run_state ops c (ids_t (T c)) Hinv (fun y Hy => Hy) Hfr) as Hs.
  destruct (run c ops) as [c1 evs1]. cbn [fst snd] in *. destruct Hs as (_ & _ & Hgone).
  apply late_response_discarded; [|exact Hr]. rewrite Hid. apply (Hgone x Hx).
Qed.

(* new ids enter the table only through Send *)
Corollary enter_only_by_send c o x :
  Inv c -> fresh_for c o -> In x (ids_t (T (fst (fst (step c o))))) -> In x (ids_t (T c)) \/ sent_id o x.
Proof.
  intros Hinv Hff. pose proof (step_events_spec c o Hinv Hff) as Hs. destruct (step c o) as [[c1 rep] ev]. cbn [fst].
  destruct Hs as (_ & _ & _ & _ & Hsub & _). apply Hsub.
Qed.

Print Assumptions step_events_spec.
Print Assumptions at_most_one_final.
Print Assumptions silent_after_final.
Print Assumptions silent_after_final_explicit.
Print Assumptions late_response_discarded.
Print Assumptions response_after_final_discarded.
