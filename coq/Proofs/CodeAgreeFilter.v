(* Agreement of `ignore_attribute` (stun-rs/src/context.rs), GENERATED from /repo's current Rust text, with Filter.ignore_attribute
   for every filter state and attribute type code, and with the RFC 8489 ordering rule of the property text (C09, C18). *)
From Coq Require Import List NArith ZArith Lia Bool ZifyBool ZifyN.
Ltac Zify.zify_post_hook ::= Z.div_mod_to_equations.
Import ListNotations.
From Rustun Require Import Base.GRes Base.Tlv Generated.Constants Generated.Code Codec.Filter Codec.InputText Codec.Wire Codec.MsgType.
Open Scope N_scope.

(* ---- the admission filter of the decoder *)
Definition conv_filter (f:flt) : AttributeFilter :=
  {| AttributeFilter_message_integrity := f_mi f; AttributeFilter_message_integrity_sha256 := f_sha f; AttributeFilter_fingerprint := f_fp f |}.
Lemma gen_ignore_attribute_agrees : forall f ty,
  gen_ignore_attribute (conv_filter f) ty
  = GOk (fst (ignore_attribute f (kind_of_type ty)), conv_filter (snd (ignore_attribute f (kind_of_type ty)))).
Proof.
  intros [a b c] ty. unfold gen_ignore_attribute, ignore_attribute, kind_of_type, conv_filter.
  cbn [AttributeFilter_message_integrity AttributeFilter_message_integrity_sha256 AttributeFilter_fingerprint f_mi f_sha f_fp].
  change gen_T_MESSAGE_INTEGRITY with T_MI. change gen_T_MESSAGE_INTEGRITY_SHA256 with T_SHA. change gen_T_FINGERPRINT with T_FP.
  destruct (N.eqb_spec ty T_MI) as [E1|E1].
  - subst ty. destruct a, b, c; reflexivity.
  - destruct (N.eqb_spec ty T_SHA) as [E2|E2].
    + subst ty. destruct a, b, c; reflexivity.
    + destruct (N.eqb_spec ty T_FP) as [E3|E3].
      * subst ty. destruct a, b, c; reflexivity.
      * destruct a, b, c; reflexivity.
Qed.
(* every record of the generated type is the image of a model filter state *)
Lemma conv_filter_onto : forall g, exists f, g = conv_filter f.
Proof. intros [a b c]. exists {| f_mi := a; f_sha := b; f_fp := c |}. reflexivity. Qed.

(* ---- composition: the code of ignore_attribute, run over the type codes of a message from the decoder's initial filter,
   admits exactly what the RFC 8489 ordering rule of the property text (Filter.allow) admits *)
Fixpoint gen_run (f:AttributeFilter) (tys:list N) : list bool :=
  match tys with
  | [] => []
  | t :: r => match gen_ignore_attribute f t with GOk (i, f') => negb i :: gen_run f' r | _ => [] end
  end.
Lemma gen_run_agrees : forall tys f, gen_run (conv_filter f) tys = run ignore_attribute f (map kind_of_type tys).
Proof.
  induction tys as [|t r IH]; intros f; cbn [gen_run run map]; [reflexivity|].
  rewrite gen_ignore_attribute_agrees. destruct (ignore_attribute f (kind_of_type t)) as [i f']. cbn [fst snd].
  rewrite IH. reflexivity.
Qed.
Theorem code_filter_is_rfc_rule : forall tys,
  gen_run {| AttributeFilter_message_integrity := false; AttributeFilter_message_integrity_sha256 := false; AttributeFilter_fingerprint := false |} tys
  = allow {| s_mi := false; s_sha := false; s_fp := false |} (map kind_of_type tys).
Proof.
  intros tys. change {| AttributeFilter_message_integrity := false; AttributeFilter_message_integrity_sha256 := false; AttributeFilter_fingerprint := false |}
    with (conv_filter {| f_mi := false; f_sha := false; f_fp := false |}).
  rewrite gen_run_agrees. apply C09_from_start.
Qed.
