(* Error bounds for the exact f32 estimator model (Agent/F32.v): rnd is a correct rounding, Duration::mul_f32 by the
   estimator constants is within ~2^-22 relative + 1/2 ns of the exact product, one-step and global error recurrences
   against the RFC 6298 fixed-point reference of Agent/Monitors.v. *)
From Coq Require Import List NArith ZArith Bool Lia.
Require Import ZifyNat ZifyN.
From Rustun Require Import Agent.F32.
Open Scope N_scope.
Arguments N.add : simpl never. Arguments N.sub : simpl never. Arguments N.mul : simpl never.
Arguments N.div : simpl never. Arguments N.modulo : simpl never. Arguments N.pow : simpl never.

Lemma nbits_spec n : 0 < n -> 2 ^ (nbits n - 1) <= n < 2 ^ nbits n.
Proof.
  intros H. unfold nbits. destruct n as [|p]; [lia|].
  replace (N.log2 (N.pos p) + 1 - 1) with (N.log2 (N.pos p)) by lia.
  rewrite N.add_1_r. apply N.log2_spec. lia.
Qed.
Lemma nbits_pos n : 0 < n -> 1 <= nbits n.
Proof. intros H. unfold nbits. destruct n; lia. Qed.

Lemma round_div_spec a b : 0 < b ->
  let m := round_div a b in 2 * (m * b) <= 2 * a + b /\ 2 * a <= 2 * (m * b) + b.
Proof.
  intros Hb. unfold round_div.
  pose proof (N.div_mod a b ltac:(lia)) as E. pose proof (N.mod_lt a b ltac:(lia)) as L.
  set (q := a / b) in *. set (r := a mod b) in *. clearbody q r.
  destruct (2 * r <? b) eqn:C1; [apply N.ltb_lt in C1; cbv zeta; nia|apply N.ltb_ge in C1].
  destruct (b <? 2 * r) eqn:C2; [apply N.ltb_lt in C2; cbv zeta; nia|apply N.ltb_ge in C2].
  destruct (N.even q); cbv zeta; nia.
Qed.
Lemma round_div_range a b : 0 < b -> a / b <= round_div a b <= a / b + 1.
Proof.
  intros Hb. unfold round_div. destruct (2 * (a mod b) <? b); [lia|].
  destruct (b <? 2 * (a mod b)); [lia|]. destruct (N.even (a / b)); lia.
Qed.
Definition snum (n:N) (s:Z) : N := n * 2 ^ Z.to_N (- s).
Definition sden (d:N) (s:Z) : N := d * 2 ^ Z.to_N s.

Lemma pow2_pos k : 0 < 2 ^ k.
Proof. apply N.neq_0_lt_0. apply N.pow_nonzero. lia. Qed.
Lemma den_pos d s : 0 < d -> 0 < sden d s.
Proof. intros. unfold sden. pose proof (pow2_pos (Z.to_N s)). nia. Qed.
Lemma num_pos n s : 0 < n -> 0 < snum n s.
Proof. intros. unfold snum. pose proof (pow2_pos (Z.to_N (- s))). nia. Qed.

(* one more binary place: snum/sden (s+1) = (snum/sden s) / 2 *)
Lemma shift1 n d s : 2 * (snum n (s + 1) * sden d s) = snum n s * sden d (s + 1).
Proof.
  unfold snum, sden. destruct (Z.ltb_spec s 0) as [L|G].
  - replace (Z.to_N (- s)) with (Z.to_N (- (s + 1)) + 1) by lia.
    replace (Z.to_N (s + 1)) with 0 by lia. replace (Z.to_N s) with 0 by lia.
    rewrite N.pow_add_r. change (2 ^ 1) with 2. change (2 ^ 0) with 1. lia.
  - replace (Z.to_N (- (s + 1))) with 0 by lia. replace (Z.to_N (- s)) with 0 by lia.
    replace (Z.to_N (s + 1)) with (Z.to_N s + 1) by lia.
    rewrite N.pow_add_r. change (2 ^ 1) with 2. change (2 ^ 0) with 1. lia.
Qed.

Lemma quot_eq n d s :
  (if (0 <=? s)%Z then n / (d * pow2 (Z.to_N s)) else (n * pow2 (Z.to_N (- s))) / d) = snum n s / sden d s.
Proof.
  unfold snum, sden, pow2. destruct (Z.leb_spec 0 s).
  - replace (Z.to_N (- s)) with 0 by lia. change (2 ^ 0) with 1. rewrite N.mul_1_r. reflexivity.
  - replace (Z.to_N s) with 0 by lia. change (2 ^ 0) with 1. rewrite N.mul_1_r. reflexivity.
Qed.
Lemma rdiv_eq n d s :
  (if (0 <=? s)%Z then round_div n (d * pow2 (Z.to_N s)) else round_div (n * pow2 (Z.to_N (- s))) d)
  = round_div (snum n s) (sden d s).
Proof.
  unfold snum, sden, pow2. destruct (Z.leb_spec 0 s).
  - replace (Z.to_N (- s)) with 0 by lia. change (2 ^ 0) with 1. rewrite N.mul_1_r. reflexivity.
  - replace (Z.to_N s) with 0 by lia. change (2 ^ 0) with 1. rewrite N.mul_1_r. reflexivity.
Qed.

(* comparing n * 2^a with d * 2^b through the bit lengths *)
Lemma pow_cmp_lt n d p q a b : n < 2 ^ p -> 2 ^ q <= d -> p + a <= q + b -> n * 2 ^ a < d * 2 ^ b.
Proof.
  intros Hn Hd Hl.
  apply N.lt_le_trans with (2 ^ p * 2 ^ a).
  - apply N.mul_lt_mono_pos_r; [apply pow2_pos|assumption].
  - apply N.le_trans with (2 ^ q * 2 ^ b); [|apply N.mul_le_mono_r; assumption].
    rewrite <- !N.pow_add_r. apply N.pow_le_mono_r; lia.
Qed.
Lemma pow_cmp_le n d p q a b : 2 ^ p <= n -> d < 2 ^ q -> q + b <= p + a -> d * 2 ^ b <= n * 2 ^ a.
Proof.
  intros Hn Hd Hl.
  apply N.le_trans with (2 ^ q * 2 ^ b).
  - apply N.mul_le_mono_r. lia.
  - apply N.le_trans with (2 ^ p * 2 ^ a); [|apply N.mul_le_mono_r; assumption].
    rewrite <- !N.pow_add_r. apply N.pow_le_mono_r; lia.
Qed.

(* the first guess of the shift *)
Lemma guess_range n d : 0 < n -> 0 < d ->
  let s := (Z.of_N (nbits n) - Z.of_N (nbits d) - 24)%Z in
  2 ^ 23 * sden d s <= snum n s /\ snum n s < 2 ^ 25 * sden d s.
Proof.
  intros Hn Hd s.
  pose proof (nbits_spec n Hn) as [Ln Un]. pose proof (nbits_spec d Hd) as [Ld Ud].
  pose proof (nbits_pos n Hn). pose proof (nbits_pos d Hd).
  unfold snum, sden. split.
  - rewrite N.mul_assoc, (N.mul_comm (2 ^ 23) d), <- N.mul_assoc, <- N.pow_add_r.
    eapply pow_cmp_le; eauto. subst s. lia.
  - rewrite N.mul_assoc, (N.mul_comm (2 ^ 25) d), <- N.mul_assoc, <- N.pow_add_r.
    eapply pow_cmp_lt; eauto. subst s. lia.
Qed.

Lemma div_ge_iff a b k : 0 < b -> (k <=? a / b) = (k * b <=? a).
Proof.
  intros Hb. destruct (N.leb_spec (k * b) a) as [L|L].
  - apply N.leb_le. apply N.div_le_lower_bound; lia.
  - apply N.leb_gt. apply N.div_lt_upper_bound; lia.
Qed.
Lemma div_lt_iff a b k : 0 < b -> (a / b <? k) = (a <? k * b).
Proof.
  intros Hb. rewrite !N.ltb_antisym. f_equal. apply div_ge_iff; assumption.
Qed.

(* the shape of every non-zero result: a shift s with 2^23 <= n/d/2^s < 2^24, the mantissa rounded to nearest even,
   renormalised when it rounds up to 2^24 *)
Lemma rnd_inv n d e : 0 < n -> 0 < d ->
  exists s, 2 ^ 23 * sden d s <= snum n s /\ snum n s < 2 ^ 24 * sden d s /\
    rnd n d e = let m := round_div (snum n s) (sden d s) in
                if m =? 2 ^ 24 then (2 ^ 23, (e + s + 1)%Z) else (m, (e + s)%Z).
Proof.
  intros Hn Hd. unfold rnd. destruct (N.eqb_spec n 0) as [->|_]; [lia|].
  set (s0 := (Z.of_N (nbits n) - Z.of_N (nbits d) - 24)%Z).
  pose proof (guess_range n d Hn Hd) as [G1 G2]. fold s0 in G1, G2.
  cbv beta zeta. rewrite (quot_eq n d s0). unfold pow2.
  rewrite (div_ge_iff _ _ _ (den_pos d s0 Hd)).
  destruct (N.leb_spec (2 ^ 24 * sden d s0) (snum n s0)) as [C|C]; cbv iota.
  - (* one more place *)
    pose proof (shift1 n d s0) as S1. pose proof (den_pos d s0 Hd) as P0. pose proof (den_pos d (s0 + 1) Hd) as P1.
    assert (R1 : 2 ^ 23 * sden d (s0 + 1) <= snum n (s0 + 1)) by nia.
    assert (R2 : snum n (s0 + 1) < 2 ^ 24 * sden d (s0 + 1)) by nia.
    fold (pow2 (Z.to_N (s0 + 1))). fold (pow2 (Z.to_N (- (s0 + 1)))).
    rewrite (quot_eq n d (s0 + 1)). rewrite (div_lt_iff _ _ _ P1).
    destruct (N.ltb_spec (snum n (s0 + 1)) (2 ^ 23 * sden d (s0 + 1))) as [X|_]; [lia|]; cbv iota.
    exists (s0 + 1)%Z. rewrite rdiv_eq. repeat split; assumption.
  - fold (pow2 (Z.to_N s0)). fold (pow2 (Z.to_N (- s0))).
    rewrite (quot_eq n d s0). rewrite (div_lt_iff _ _ _ (den_pos d s0 Hd)).
    destruct (N.ltb_spec (snum n s0) (2 ^ 23 * sden d s0)) as [X|_]; [lia|]; cbv iota.
    exists s0. rewrite rdiv_eq. repeat split; assumption.
Qed.

(* ---- Stage 1: rnd is a correct rounding.  With s = x - e the exact value n/d * 2^e is (snum n s / sden d s) * 2^x:
   the mantissa m is within 1/2 of snum/sden (half an ulp), and within snum/sden * 2^-24 (relative error 2^-24). *)
Definition half_ulp (A B m:N) : Prop := 2 * (m * B) <= 2 * A + B /\ 2 * A <= 2 * (m * B) + B.
Definition rel24 (A B m:N) : Prop := 2 ^ 24 * (m * B) <= (2 ^ 24 + 1) * A /\ (2 ^ 24 - 1) * A <= 2 ^ 24 * (m * B).

Theorem rnd_spec n d e m x : 0 < n -> 0 < d -> rnd n d e = (m, x) ->
  2 ^ 23 <= m < 2 ^ 24 /\
  half_ulp (snum n (x - e)) (sden d (x - e)) m /\ rel24 (snum n (x - e)) (sden d (x - e)) m.
Proof.
  intros Hn Hd E. destruct (rnd_inv n d e Hn Hd) as (s & R1 & R2 & E'). rewrite E in E'. cbv zeta in E'.
  pose proof (den_pos d s Hd) as PB.
  pose proof (round_div_spec (snum n s) (sden d s) PB) as [H1 H2]. cbv zeta in H1, H2.
  pose proof (round_div_range (snum n s) (sden d s) PB) as [Q1 Q2].
  assert (QL : 2 ^ 23 <= snum n s / sden d s) by (apply N.div_le_lower_bound; lia).
  assert (QU : snum n s / sden d s < 2 ^ 24) by (apply N.div_lt_upper_bound; lia).
  set (m0 := round_div (snum n s) (sden d s)) in *. clearbody m0.
  change (2 ^ 23) with 8388608 in *. change (2 ^ 24) with 16777216 in *.
  destruct (N.eqb_spec m0 16777216) as [M|M].
  - injection E' as -> ->. replace (e + s + 1 - e)%Z with (s + 1)%Z by lia.
    pose proof (shift1 n d s) as S1. pose proof (den_pos d (s + 1) Hd) as PB'.
    set (A := snum n s) in *. set (B := sden d s) in *. set (A' := snum n (s + 1)) in *. set (B' := sden d (s + 1)) in *.
    clearbody A B A' B'. subst m0. unfold half_ulp, rel24. change (2 ^ 24) with 16777216.
    split; [lia|]. repeat split; nia.
  - injection E' as -> ->. replace (e + s - e)%Z with s by lia.
    set (A := snum n s) in *. set (B := sden d s) in *. clearbody A B.
    unfold half_ulp, rel24. change (2 ^ 24) with 16777216.
    split; [lia|]. repeat split; nia.
Qed.
Print Assumptions rnd_spec.

(* the formulation of the task text (e = 0), over Z *)
Corollary rnd_spec_Z n d m x : 0 < n -> 0 < d -> rnd n d 0 = (m, x) ->
  2 ^ 23 <= m < 2 ^ 24 /\
  ((0 <= x)%Z -> (2 * Z.abs (Z.of_N n - Z.of_N m * 2 ^ x * Z.of_N d) <= 2 ^ x * Z.of_N d)%Z) /\
  ((x < 0)%Z -> (2 * Z.abs (Z.of_N n * 2 ^ (- x) - Z.of_N m * Z.of_N d) <= Z.of_N d)%Z).
Proof.
  intros Hn Hd E. destruct (rnd_spec n d 0 m x Hn Hd E) as (R & [H1 H2] & _).
  rewrite Z.sub_0_r in H1, H2. unfold snum, sden in H1, H2. split; [exact R|]. split; intros Hx.
  - replace (Z.to_N (- x)) with 0 in * by lia. change (2 ^ 0) with 1 in *.
    replace (2 ^ x)%Z with (Z.of_N (2 ^ Z.to_N x)) by (rewrite N2Z.inj_pow, Z2N.id by lia; reflexivity).
    set (P := 2 ^ Z.to_N x) in *. clearbody P. nia.
  - replace (Z.to_N x) with 0 in * by lia. change (2 ^ 0) with 1 in *.
    replace (2 ^ (- x))%Z with (Z.of_N (2 ^ Z.to_N (- x))) by (rewrite N2Z.inj_pow, Z2N.id by lia; reflexivity).
    set (P := 2 ^ Z.to_N (- x)) in *. clearbody P. nia.
Qed.
Print Assumptions rnd_spec_Z.
Lemma rnd_zero d e : rnd 0 d e = fzero.
Proof. reflexivity. Qed.

(* ---- Stage 2: Duration::mul_f32.  The error analysis is done over Q (QArith: no axioms); the final statements are
   over N. *)
From Coq Require Import QArith Qabs Qpower Lqa.
Local Open Scope Q_scope.

Definition NQ (n:N) : Q := inject_Z (Z.of_N n).
Definition val (f:f32) : Q := NQ (fst f) * 2 ^ (snd f).
Definition u24 : Q := 1 # 16777216.

Lemma NQ_mul a b : NQ (a * b) == NQ a * NQ b.
Proof. unfold NQ. rewrite N2Z.inj_mul, inject_Z_mult. reflexivity. Qed.
Lemma NQ_add a b : NQ (a + b) == NQ a + NQ b.
Proof. unfold NQ. rewrite N2Z.inj_add, inject_Z_plus. reflexivity. Qed.
Lemma NQ_le a b : (a <= b)%N -> NQ a <= NQ b.
Proof. intros H. unfold NQ. rewrite <- Zle_Qle. lia. Qed.
Lemma NQ_lt a b : (a < b)%N -> NQ a < NQ b.
Proof. intros H. unfold NQ. rewrite <- Zlt_Qlt. lia. Qed.
Lemma NQ_le_inv a b : NQ a <= NQ b -> (a <= b)%N.
Proof. unfold NQ. rewrite <- Zle_Qle. lia. Qed.
Lemma NQ_nonneg a : 0 <= NQ a.
Proof. change 0 with (NQ 0). apply NQ_le. lia. Qed.
Lemma NQ_pos a : (0 < a)%N -> 0 < NQ a.
Proof. intros. change 0 with (NQ 0). apply NQ_lt. assumption. Qed.
Lemma p2_pos z : 0 < 2 ^ z.
Proof. apply Qpower_0_lt. reflexivity. Qed.
Lemma p2_add a b : 2 ^ (a + b) == 2 ^ a * 2 ^ b.
Proof. apply Qpower_plus. discriminate. Qed.
Lemma p2_opp a : 2 ^ (- a) == / 2 ^ a.
Proof. apply Qpower_opp. Qed.
Lemma NQ_pow2 k : NQ (2 ^ k)%N == 2 ^ (Z.of_N k).
Proof. unfold NQ. rewrite N2Z.inj_pow. change (Z.of_N 2) with 2%Z. rewrite Zpower_Qpower by lia. reflexivity. Qed.
Lemma NQ_pow2Z z : (0 <= z)%Z -> NQ (2 ^ Z.to_N z)%N == 2 ^ z.
Proof. intros. rewrite NQ_pow2, Z2N.id by assumption. reflexivity. Qed.

Lemma NQ_num n s : NQ (snum n s) == NQ n * 2 ^ (Z.of_N (Z.to_N (- s))).
Proof. unfold snum. rewrite NQ_mul, NQ_pow2. reflexivity. Qed.
Lemma NQ_den d s : NQ (sden d s) == NQ d * 2 ^ (Z.of_N (Z.to_N s)).
Proof. unfold sden. rewrite NQ_mul, NQ_pow2. reflexivity. Qed.
Lemma numden_pow s : 2 ^ (Z.of_N (Z.to_N s)) == 2 ^ (Z.of_N (Z.to_N (- s))) * 2 ^ s.
Proof. rewrite <- p2_add. replace (Z.of_N (Z.to_N (- s)) + s)%Z with (Z.of_N (Z.to_N s)) by lia. reflexivity. Qed.

(* every rounding multiplies the exact value by a factor in [1 - 2^-24, 1 + 2^-24] *)
Lemma rnd_Q n d e : (0 < d)%N ->
  exists rho, 1 - u24 <= rho <= 1 + u24 /\ val (rnd n d e) == NQ n / NQ d * 2 ^ e * rho.
Proof.
  intros Hd. destruct (N.eq_dec n 0) as [->|Hn].
  - exists 1. split; [unfold u24; lra|]. rewrite rnd_zero. unfold val, fzero. cbn [fst snd].
    change (NQ 0) with 0. unfold Qdiv. ring.
  - assert (Hn' : (0 < n)%N) by lia. destruct (rnd n d e) as [m x] eqn:E.
    destruct (rnd_spec n d e m x Hn' Hd E) as (_ & _ & R1 & R2).
    set (s := (x - e)%Z) in *.
    pose proof (NQ_pos _ (num_pos n s Hn')) as PA. pose proof (NQ_pos _ (den_pos d s Hd)) as PB.
    pose proof (NQ_pos n Hn') as Pn. pose proof (NQ_pos d Hd) as Pd.
    apply NQ_le in R1. apply NQ_le in R2. rewrite !NQ_mul in R1, R2.
    change (NQ (2 ^ 24 + 1)) with 16777217 in R1. change (NQ (2 ^ 24)) with 16777216 in R1, R2.
    change (NQ (2 ^ 24 - 1)) with 16777215 in R2.
    exists (NQ m * NQ (sden d s) / NQ (snum n s)). split.
    + assert (X : NQ m * NQ (sden d s) / NQ (snum n s) * NQ (snum n s) == NQ m * NQ (sden d s)) by (field; lra).
      set (rho := NQ m * NQ (sden d s) / NQ (snum n s)) in *. clearbody rho. unfold u24.
      split.
      * apply Qmult_le_r with (z := NQ (snum n s)); [exact PA|]. rewrite X. lra.
      * apply Qmult_le_r with (z := NQ (snum n s)); [exact PA|]. rewrite X. lra.
    + unfold val. cbn [fst snd]. rewrite NQ_num, NQ_den, (numden_pow s).
      replace x with (e + s)%Z by (subst s; lia). rewrite p2_add.
      pose proof (p2_pos (Z.of_N (Z.to_N (- s)))) as P1. pose proof (p2_pos s) as P2. pose proof (p2_pos e) as P3.
      field. repeat split; lra.
Qed.

Definition rho_ok (rho:Q) : Prop := 1 - u24 <= rho <= 1 + u24.

Lemma of_nat_Q n : exists rho, rho_ok rho /\ val (of_nat_f32 n) == NQ n * rho.
Proof.
  destruct (rnd_Q n 1 0%Z ltac:(lia)) as (rho & R & E). exists rho. split; [exact R|].
  unfold of_nat_f32. rewrite E. change (NQ 1) with 1. change (2 ^ 0) with 1. field.
Qed.
Lemma fmul_Q a b : exists rho, rho_ok rho /\ val (fmul a b) == val a * val b * rho.
Proof.
  destruct (rnd_Q (fst a * fst b) 1 (snd a + snd b)%Z ltac:(lia)) as (rho & R & E). exists rho. split; [exact R|].
  unfold fmul. rewrite E. unfold val. rewrite NQ_mul, p2_add. change (NQ 1) with 1. field.
Qed.
Lemma fdiv_Q a b : (0 < fst b)%N -> exists rho, rho_ok rho /\ val (fdiv a b) == val a / val b * rho.
Proof.
  intros Hb. destruct (rnd_Q (fst a) (fst b) (snd a - snd b)%Z Hb) as (rho & R & E). exists rho. split; [exact R|].
  unfold fdiv. rewrite E. unfold val. unfold Z.sub. rewrite p2_add, p2_opp.
  pose proof (NQ_pos _ Hb). pose proof (p2_pos (snd b)). field. split; lra.
Qed.
Lemma fadd_Q a b : exists rho, rho_ok rho /\ val (fadd a b) == (val a + val b) * rho.
Proof.
  unfold fadd. set (emin := Z.min (snd a) (snd b)).
  destruct (rnd_Q (fst a * pow2 (Z.to_N (snd a - emin)) + fst b * pow2 (Z.to_N (snd b - emin))) 1 emin ltac:(lia))
    as (rho & R & E). exists rho. split; [exact R|].
  rewrite E. unfold val, pow2. rewrite NQ_add, !NQ_mul, !NQ_pow2Z by (subst emin; lia).
  replace (snd a) with (snd a - emin + emin)%Z at 2 by lia. replace (snd b) with (snd b - emin + emin)%Z at 2 by lia.
  rewrite !p2_add. change (NQ 1) with 1. field.
Qed.

Fixpoint qpow (q:Q) (k:nat) : Q := match k with O => 1 | S k => q * qpow q k end.
Lemma qpow_nonneg q k : 0 <= q -> 0 <= qpow q k.
Proof. intros H. induction k; cbn [qpow]; [lra|]. apply Qmult_le_0_compat; assumption. Qed.

(* v is x up to k roundings *)
Definition near (k:nat) (v x:Q) : Prop := qpow (1 - u24) k * x <= v <= qpow (1 + u24) k * x.
Global Instance near_proper k : Proper (Qeq ==> Qeq ==> iff) (near k).
Proof. intros v v' Ev x x' Ex. unfold near. rewrite Ev, Ex. reflexivity. Qed.

Lemma near_0 x : near 0 x x.
Proof. unfold near. cbn [qpow]. lra. Qed.
Lemma near_nonneg k v x : 0 <= x -> near k v x -> 0 <= v.
Proof.
  intros Hx [L _]. eapply Qle_trans; [|exact L]. apply Qmult_le_0_compat; [|exact Hx].
  apply qpow_nonneg. unfold u24. lra.
Qed.
Lemma near_step k v w x rho : 0 <= x -> rho_ok rho -> near k w x -> v == w * rho -> near (S k) v x.
Proof.
  intros Hx [R1 R2] N E. pose proof (near_nonneg k w x Hx N) as Hw. destruct N as [L U].
  unfold near. cbn [qpow]. rewrite E.
  assert (P1 : 0 <= qpow (1 - u24) k * x) by (apply Qmult_le_0_compat; [apply qpow_nonneg; unfold u24; lra|exact Hx]).
  set (A := qpow (1 - u24) k * x) in *. set (B := qpow (1 + u24) k * x) in *.
  rewrite <- !Qmult_assoc. fold A. fold B. clearbody A B. unfold u24 in *. split; nra.
Qed.
Lemma near_add k v1 x1 v2 x2 : near k v1 x1 -> near k v2 x2 -> near k (v1 + v2) (x1 + x2).
Proof. unfold near. intros [L1 U1] [L2 U2]. rewrite !Qmult_plus_distr_r. split; lra. Qed.
Lemma near_weaken k v x : 0 <= x -> near k v x -> near (S k) v x.
Proof.
  intros Hx N. apply near_step with (w := v) (rho := 1); [exact Hx|unfold rho_ok, u24; lra|exact N|ring].
Qed.
Lemma near_scale k c v x : 0 <= c -> near k v x -> near k (c * v) (c * x).
Proof.
  unfold near. intros Hc [L U]. set (A := qpow (1 - u24) k) in *. set (B := qpow (1 + u24) k) in *. clearbody A B.
  split.
  - setoid_replace (A * (c * x)) with (c * (A * x)) by ring. set (y := A * x) in *. clearbody y. nra.
  - setoid_replace (B * (c * x)) with (c * (B * x)) by ring. set (y := B * x) in *. clearbody y. nra.
Qed.

(* Duration::from_secs_f32 rounds to the nearest nanosecond *)
Lemma from_secs_Q m e : (m < 2 ^ 24)%N ->
  NQ (from_secs_f32 (m, e)) - (1 # 2) <= NQ m * 2 ^ e * 1000000000 <= NQ (from_secs_f32 (m, e)) + (1 # 2).
Proof.
  intros Hm. unfold from_secs_f32. destruct (N.eqb_spec m 0) as [->|Hm0].
  { change (NQ 0) with 0. lra. }
  pose proof (NQ_lt _ _ Hm) as HM. change (NQ (2 ^ 24)) with 16777216 in HM. pose proof (NQ_nonneg m) as HM0.
  pose proof (p2_pos e) as PP.
  destruct (Z.ltb_spec (e + 23) (-31)) as [C1|C1].
  { assert (LE : 2 ^ e <= 2 ^ (-55)) by (apply Qpower_le_compat_l; [lia|lra]).
    change (2 ^ (-55)) with (1 # 36028797018963968) in LE. change (NQ 0) with 0.
    set (M := NQ m) in *. set (P := 2 ^ e) in *. clearbody M P. split; nra. }
  assert (DIV : forall r, let D := (2 ^ Z.to_N (- e))%N in (e < 0)%Z ->
            (2 * (r * D) <= 2 * (m * NANOS) + D)%N -> (2 * (m * NANOS) <= 2 * (r * D) + D)%N ->
            NQ r - (1 # 2) <= NQ m * 2 ^ e * 1000000000 <= NQ r + (1 # 2)).
  { intros r D He H1 H2. apply NQ_le in H1. apply NQ_le in H2.
    rewrite !NQ_add, !NQ_mul in H1, H2. change (NQ 2) with 2 in *. change (NQ NANOS) with 1000000000 in *.
    assert (ED : NQ D * 2 ^ e == 1).
    { subst D. rewrite NQ_pow2Z by lia. rewrite <- p2_add. replace (- e + e)%Z with 0%Z by lia. reflexivity. }
    set (M := NQ m) in *. set (P := 2 ^ e) in *. set (R := NQ r) in *. set (Dq := NQ D) in *. clearbody M P R Dq.
    assert (H1' : (2 * (R * Dq)) * P <= (2 * (M * 1000000000) + Dq) * P) by (apply Qmult_le_r; assumption).
    assert (H2' : (2 * (M * 1000000000)) * P <= (2 * (R * Dq) + Dq) * P) by (apply Qmult_le_r; assumption).
    assert (X1 : 2 * (R * Dq) * P == 2 * R * (Dq * P)) by ring.
    assert (X2 : (2 * (M * 1000000000) + Dq) * P == 2 * M * P * 1000000000 + Dq * P) by ring.
    assert (X3 : (2 * (R * Dq) + Dq) * P == 2 * R * (Dq * P) + Dq * P) by ring.
    rewrite X1, X2, ED in H1'. rewrite X3, ED in H2'. split; lra. }
  destruct (Z.ltb_spec (e + 23) 0) as [C2|C2].
  { apply DIV; [lia| |]; unfold pow2; apply round_div_spec; apply pow2_pos. }
  destruct (Z.ltb_spec (e + 23) 23) as [C3|C3].
  { apply DIV; [lia| |]; unfold pow2; set (D := (2 ^ Z.to_N (- e))%N);
    pose proof (pow2_pos (Z.to_N (- e))) as PD; fold D in PD;
    pose proof (round_div_spec (m mod D * NANOS) D PD) as [H1 H2]; cbv zeta in H1, H2;
    pose proof (N.div_mod m D ltac:(lia)) as EM;
    set (rd := round_div (m mod D * NANOS) D) in *; clearbody rd;
    set (q := (m / D)%N) in *; set (f := (m mod D)%N) in *; clearbody q f; unfold NANOS in *; nia. }
  rewrite !NQ_mul. unfold pow2. rewrite NQ_pow2Z by lia. change (NQ NANOS) with 1000000000.
  set (X := NQ m * 2 ^ e * 1000000000). lra.
Qed.

Lemma nine_eq : of_nat_f32 NANOS = (15625000%N, 6%Z).
Proof. vm_compute. reflexivity. Qed.
Lemma val_nine : val (of_nat_f32 NANOS) == 1000000000.
Proof. rewrite nine_eq. vm_compute. reflexivity. Qed.

(* Duration::as_secs_f32: three roundings on every path *)
Lemma as_secs_near ns : near 3 (val (as_secs_f32 ns)) ((1 # 1000000000) * NQ ns).
Proof.
  unfold as_secs_f32. set (secs := (ns / NANOS)%N). set (nanos := (ns mod NANOS)%N).
  assert (ENS : NQ ns == NQ secs * 1000000000 + NQ nanos).
  { rewrite (N.div_mod ns NANOS) at 1 by (unfold NANOS; lia). fold secs nanos.
    rewrite NQ_add, NQ_mul. change (NQ NANOS) with 1000000000. ring. }
  destruct (of_nat_Q secs) as (r1 & R1 & E1). destruct (of_nat_Q nanos) as (r2 & R2 & E2).
  destruct (fdiv_Q (of_nat_f32 nanos) (of_nat_f32 NANOS)) as (r3 & R3 & E3). { rewrite nine_eq. reflexivity. }
  destruct (fadd_Q (of_nat_f32 secs) (fdiv (of_nat_f32 nanos) (of_nat_f32 NANOS))) as (r4 & R4 & E4).
  rewrite val_nine in E3.
  pose proof (NQ_nonneg secs) as P1. pose proof (NQ_nonneg nanos) as P2.
  assert (N1 : near 1 (val (of_nat_f32 secs)) (NQ secs)).
  { eapply near_step; [exact P1|exact R1|apply near_0|exact E1]. }
  assert (N2 : near 1 (val (of_nat_f32 nanos)) (NQ nanos)).
  { eapply near_step; [exact P2|exact R2|apply near_0|exact E2]. }
  assert (N3 : near 2 (val (fdiv (of_nat_f32 nanos) (of_nat_f32 NANOS))) ((1 # 1000000000) * NQ nanos)).
  { eapply near_step; [lra|exact R3| |exact E3].
    setoid_replace (val (of_nat_f32 nanos) / 1000000000) with ((1 # 1000000000) * val (of_nat_f32 nanos)) by (field).
    apply near_scale; [lra|exact N2]. }
  setoid_replace ((1 # 1000000000) * NQ ns) with (NQ secs + (1 # 1000000000) * NQ nanos) by (rewrite ENS; field).
  eapply near_step; [lra|exact R4| |exact E4].
  apply near_add; [apply near_weaken; assumption|exact N3].
Qed.

Lemma rnd_mant n d e : (0 < d)%N -> (fst (rnd n d e) < 2 ^ 24)%N.
Proof.
  intros Hd. destruct (N.eq_dec n 0) as [->|Hn]; [rewrite rnd_zero; reflexivity|].
  destruct (rnd n d e) as [m x] eqn:E. destruct (rnd_spec n d e m x ltac:(lia) Hd E) as ([_ H] & _). exact H.
Qed.

(* (1 + 2^-24)^4 - 1 <= 2^-22 + 2^-45 and 1 - (1 - 2^-24)^4 <= 2^-22 *)
Definition eps4 : Q := (1 # 4194304) + (1 # 35184372088832).
Lemma eps4_ok : qpow (1 + u24) 4 <= 1 + eps4 /\ 1 - eps4 <= qpow (1 - u24) 4.
Proof. split; vm_compute; discriminate. Qed.

(* Duration::mul_f32 by a positive constant c: four roundings and the rounding to a nanosecond *)
Lemma mul_f32_Q ns c : 0 <= val c ->
  let exact := val c * NQ ns in
  exact - (eps4 * exact + (1 # 2)) <= NQ (mul_f32 ns c) <= exact + (eps4 * exact + (1 # 2)).
Proof.
  intros Hc exact. unfold mul_f32.
  destruct (fmul_Q c (as_secs_f32 ns)) as (r5 & R5 & E5).
  pose proof (as_secs_near ns) as N3. pose proof (NQ_nonneg ns) as Pn.
  assert (N4 : near 4 (val (fmul c (as_secs_f32 ns))) (val c * ((1 # 1000000000) * NQ ns))).
  { eapply near_step; [|exact R5| |exact E5].
    - apply Qmult_le_0_compat; [exact Hc|lra].
    - apply near_scale; assumption. }
  destruct (fmul c (as_secs_f32 ns)) as [m e] eqn:EP.
  assert (Hm : (m < 2 ^ 24)%N).
  { change m with (fst (m, e)). rewrite <- EP. unfold fmul. apply rnd_mant. lia. }
  pose proof (from_secs_Q m e Hm) as [F1 F2]. change (NQ m * 2 ^ e) with (val (m, e)) in F1, F2.
  destruct N4 as [L U]. destruct eps4_ok as [K1 K2].
  assert (EX : val c * ((1 # 1000000000) * NQ ns) * 1000000000 == exact) by (subst exact; field).
  assert (PX : 0 <= exact) by (subst exact; apply Qmult_le_0_compat; assumption).
  set (X := val c * ((1 # 1000000000) * NQ ns)) in *. set (V := val (m, e)) in *. set (R := NQ (from_secs_f32 (m, e))) in *.
  set (A := qpow (1 - u24) 4) in *. set (B := qpow (1 + u24) 4) in *.
  assert (PX' : 0 <= X) by (subst X; apply Qmult_le_0_compat; [exact Hc|lra]).
  clearbody X V R A B exact. unfold eps4 in *.
  assert (U' : V <= (1 + ((1 # 4194304) + (1 # 35184372088832))) * X) by nra.
  assert (L' : (1 - ((1 # 4194304) + (1 # 35184372088832))) * X <= V) by nra.
  clear L U K1 K2 A B. split; lra.
Qed.

(* over N: c = p / q *)
Theorem mul_f32_bound_gen ns c p q : (0 < q)%N -> val c * NQ q == NQ p ->
  let M := mul_f32 ns c in
  (2 ^ 45 * (q * M) <= 2 ^ 45 * (p * ns) + ((2 ^ 23 + 1) * (p * ns) + 2 ^ 44 * q) /\
   2 ^ 45 * (p * ns) <= 2 ^ 45 * (q * M) + ((2 ^ 23 + 1) * (p * ns) + 2 ^ 44 * q))%N.
Proof.
  intros Hq Ec M. pose proof (NQ_pos q Hq) as Pq. pose proof (NQ_nonneg p) as Pp. pose proof (NQ_nonneg ns) as Pn.
  assert (Hc : 0 <= val c).
  { apply Qmult_le_r with (z := NQ q); [exact Pq|]. rewrite Ec. lra. }
  pose proof (mul_f32_Q ns c Hc) as [H1 H2]. cbv zeta in H1, H2. fold M in H1, H2.
  assert (EY : val c * NQ ns * NQ q == NQ p * NQ ns) by (rewrite <- Ec; ring).
  set (E := val c * NQ ns) in *. unfold eps4 in *.
  assert (G1 : (E - (((1 # 4194304) + (1 # 35184372088832)) * E + (1 # 2))) * NQ q <= NQ M * NQ q)
    by (apply Qmult_le_r; assumption).
  assert (G2 : NQ M * NQ q <= (E + (((1 # 4194304) + (1 # 35184372088832)) * E + (1 # 2))) * NQ q)
    by (apply Qmult_le_r; assumption).
  assert (X1 : (E - (((1 # 4194304) + (1 # 35184372088832)) * E + (1 # 2))) * NQ q ==
               E * NQ q - (((1 # 4194304) + (1 # 35184372088832)) * (E * NQ q) + (1 # 2) * NQ q)) by ring.
  assert (X2 : (E + (((1 # 4194304) + (1 # 35184372088832)) * E + (1 # 2))) * NQ q ==
               E * NQ q + (((1 # 4194304) + (1 # 35184372088832)) * (E * NQ q) + (1 # 2) * NQ q)) by ring.
  rewrite X1 in G1. rewrite X2 in G2. rewrite EY in G1, G2.
  split; apply NQ_le_inv; rewrite ?NQ_add, ?NQ_mul;
    change (NQ (2 ^ 45)) with 35184372088832; change (NQ (2 ^ 44)) with 17592186044416;
    change (NQ (2 ^ 23 + 1)) with 8388609;
    set (Y := NQ p * NQ ns) in *; set (Mq := NQ M) in *; set (Qq := NQ q) in *; clearbody Y Mq Qq; lra.
Qed.
Print Assumptions mul_f32_bound_gen.

Lemma val_c_0125 : val c_0125 * NQ 8 == NQ 1. Proof. vm_compute. reflexivity. Qed.
Lemma val_c_025 : val c_025 * NQ 4 == NQ 1. Proof. vm_compute. reflexivity. Qed.
Lemma val_c_075 : val c_075 * NQ 4 == NQ 3. Proof. vm_compute. reflexivity. Qed.
Lemma val_c_0875 : val c_0875 * NQ 8 == NQ 7. Proof. vm_compute. reflexivity. Qed.
Lemma val_c_4 : val c_4 * NQ 1 == NQ 4. Proof. vm_compute. reflexivity. Qed.
Close Scope Q_scope.

(* the constants of rtt.rs with their exact values p / q *)
Inductive cst : f32 -> N -> N -> Prop :=
| cst_0125 : cst c_0125 1 8 | cst_025 : cst c_025 1 4 | cst_075 : cst c_075 3 4
| cst_0875 : cst c_0875 7 8 | cst_4 : cst c_4 4 1.

(* |mul_f32 ns c - c * ns| <= c * ns * (2^-22 + 2^-45) + 1/2 ns, for EVERY ns (no range hypothesis) *)
Theorem mul_f32_bound ns c p q : cst c p q ->
  (2 ^ 45 * Z.abs (Z.of_N q * Z.of_N (mul_f32 ns c) - Z.of_N p * Z.of_N ns)
   <= (2 ^ 23 + 1) * (Z.of_N p * Z.of_N ns) + 2 ^ 44 * Z.of_N q)%Z.
Proof.
  intros C.
  assert (H : (0 < q)%N /\ (val c * NQ q == NQ p)%Q).
  { destruct C; (split; [lia|]); [apply val_c_0125|apply val_c_025|apply val_c_075|apply val_c_0875|apply val_c_4]. }
  destruct H as [Hq Ec]. pose proof (mul_f32_bound_gen ns c p q Hq Ec) as [H1 H2]. cbv zeta in H1, H2.
  set (M := mul_f32 ns c) in *. clearbody M.
  change (2 ^ 45)%N with 35184372088832%N in *. change (2 ^ 44)%N with 17592186044416%N in *.
  change (2 ^ 23 + 1)%N with 8388609%N in *.
  change (2 ^ 45)%Z with 35184372088832%Z. change (2 ^ 44)%Z with 17592186044416%Z. change (2 ^ 23 + 1)%Z with 8388609%Z.
  lia.
Qed.
Print Assumptions mul_f32_bound.

(* weaker, simpler: |mul_f32 ns c - c * ns| <= c * ns * 2^-21 + 1 *)
Corollary mul_f32_bound_simple ns c p q : cst c p q ->
  (2 ^ 21 * Z.abs (Z.of_N q * Z.of_N (mul_f32 ns c) - Z.of_N p * Z.of_N ns)
   <= Z.of_N p * Z.of_N ns + 2 ^ 21 * Z.of_N q)%Z.
Proof.
  intros C. pose proof (mul_f32_bound ns c p q C) as H.
  change (2 ^ 45)%Z with 35184372088832%Z in H. change (2 ^ 44)%Z with 17592186044416%Z in H.
  change (2 ^ 23 + 1)%Z with 8388609%Z in H. change (2 ^ 21)%Z with 2097152%Z.
  assert (0 <= Z.of_N p * Z.of_N ns)%Z by nia. lia.
Qed.
Print Assumptions mul_f32_bound_simple.

(* ---- Stage 3: one update step against the RFC 6298 fixed-point reference (Agent/Monitors.v).
   Units: the reference works in 2^-16 ns (fx x = 65536 x); es, ev are error bounds in those units. *)
From Rustun Require Import Agent.Rto Agent.Model Agent.Monitors.
Local Open Scope Z_scope.
Notation ZN := Z.of_N.

Lemma absdiffN_Z a b : ZN (absdiffN a b) = Z.abs (ZN a - ZN b).
Proof. unfold absdiffN. destruct (N.ltb_spec a b); lia. Qed.
Lemma absdiff_Z a b : ZN (absdiff a b) = Z.abs (ZN a - ZN b).
Proof. unfold absdiff. destruct (N.ltb_spec a b); lia. Qed.
Lemma fx_Z x : ZN (fx x) = 65536 * ZN x.
Proof. unfold fx. lia. Qed.

(* eps = (2^23 + 1) / 2^45 = 2^-22 + 2^-45 *)
Definition E1 : Z := 8388609.
Definition P45 : Z := 35184372088832.

Lemma mul_bound_Z ns c p q : cst c p q ->
  P45 * Z.abs (ZN q * ZN (mul_f32 ns c) - ZN p * ZN ns) <= E1 * (ZN p * ZN ns) + P45 / 2 * ZN q.
Proof. intros C. exact (mul_f32_bound ns c p q C). Qed.

Lemma update_later st r : rc_srtt st <> 0%N ->
  rtt_update st r =
  let rttvar := (mul_f32 (rc_rttvar st) c_075 + mul_f32 (absdiffN (rc_srtt st) r) c_025)%N in
  let srtt := (mul_f32 (rc_srtt st) c_0875 + mul_f32 r c_0125)%N in
  {| rc_rto := (srtt + N.max (rc_gran st) (mul_f32 rttvar c_4))%N; rc_srtt := srtt; rc_rttvar := rttvar;
     rc_gran := rc_gran st; rc_conf := rc_conf st |}.
Proof. intros H. unfold rtt_update. destruct (N.eqb_spec (rc_srtt st) 0); [contradiction|reflexivity]. Qed.

Definition ref_S' (S r:N) : N := ((7 * S + fx r) / 8)%N.
Definition ref_V' (S V r:N) : N := ((3 * V + absdiff S (fx r)) / 4)%N.
Lemma ref_step S V r : rfc6298_update (Some (S, V)) (fx r) = Some (ref_S' S r, ref_V' S V r).
Proof. reflexivity. Qed.

(* es' <= 7/8 (1+eps) es + eps (7 S + fx r)/8 + 1 ns + 1 unit *)
Theorem step_srtt st r S es : rc_srtt st <> 0%N ->
  Z.abs (65536 * ZN (rc_srtt st) - ZN S) <= es ->
  8 * P45 * Z.abs (65536 * ZN (rc_srtt (rtt_update st r)) - ZN (ref_S' S r))
  <= 7 * (P45 + E1) * es + E1 * (7 * ZN S + 65536 * ZN r) + 8 * P45 * (65536 + 1).
Proof.
  intros Hs0 Hes. rewrite (update_later st r Hs0). cbv zeta. cbn [rc_srtt].
  pose proof (mul_bound_Z (rc_srtt st) _ _ _ cst_0875) as B1.
  pose proof (mul_bound_Z r _ _ _ cst_0125) as B2.
  set (M1 := mul_f32 (rc_srtt st) c_0875) in *. set (M2 := mul_f32 r c_0125) in *.
  unfold ref_S'. pose proof (N.div_mod (7 * S + fx r) 8 ltac:(lia)) as D. pose proof (N.mod_lt (7 * S + fx r) 8 ltac:(lia)) as L.
  set (Q := ((7 * S + fx r) / 8)%N) in *. set (R := ((7 * S + fx r) mod 8)%N) in *. unfold fx in D.
  unfold E1, P45 in *. change (35184372088832 / 2) with 17592186044416 in *.
  rewrite N2Z.inj_add. lia.
Qed.

(* ev' <= 3/4 (1+eps) ev + 1/4 (1+eps) es + eps (3 V + |S - fx r|)/4 + 1 ns + 1 unit *)
Theorem step_rttvar st r S V es ev : rc_srtt st <> 0%N ->
  Z.abs (65536 * ZN (rc_srtt st) - ZN S) <= es -> Z.abs (65536 * ZN (rc_rttvar st) - ZN V) <= ev ->
  4 * P45 * Z.abs (65536 * ZN (rc_rttvar (rtt_update st r)) - ZN (ref_V' S V r))
  <= 3 * (P45 + E1) * ev + (P45 + E1) * es + E1 * (3 * ZN V + Z.abs (ZN S - 65536 * ZN r)) + 4 * P45 * (65536 + 1).
Proof.
  intros Hs0 Hes Hev. rewrite (update_later st r Hs0). cbv zeta. cbn [rc_rttvar].
  pose proof (mul_bound_Z (rc_rttvar st) _ _ _ cst_075) as B1.
  pose proof (mul_bound_Z (absdiffN (rc_srtt st) r) _ _ _ cst_025) as B2.
  set (M1 := mul_f32 (rc_rttvar st) c_075) in *. set (M2 := mul_f32 (absdiffN (rc_srtt st) r) c_025) in *.
  rewrite absdiffN_Z in B2.
  unfold ref_V'. pose proof (N.div_mod (3 * V + absdiff S (fx r)) 4 ltac:(lia)) as D.
  pose proof (N.mod_lt (3 * V + absdiff S (fx r)) 4 ltac:(lia)) as L.
  set (Q := ((3 * V + absdiff S (fx r)) / 4)%N) in *. set (R := ((3 * V + absdiff S (fx r)) mod 4)%N) in *.
  apply (f_equal ZN) in D. rewrite !N2Z.inj_add, !N2Z.inj_mul, absdiff_Z, fx_Z in D.
  unfold E1, P45 in *. change (35184372088832 / 2) with 17592186044416 in *.
  rewrite N2Z.inj_add. lia.
Qed.

(* the interval: |fx rto' - RTO'| <= es' + 4 (1+eps) ev' + 4 eps V' + 1/2 ns, for any bounds es', ev' of the new state
   against any reference state S', V' *)
Theorem step_rto st r c S' V' es' ev' : rc_srtt st <> 0%N -> cc_gran c = rc_gran st ->
  Z.abs (65536 * ZN (rc_srtt (rtt_update st r)) - ZN S') <= es' ->
  Z.abs (65536 * ZN (rc_rttvar (rtt_update st r)) - ZN V') <= ev' ->
  P45 * Z.abs (65536 * ZN (rc_rto (rtt_update st r)) - ZN (rfc6298_rto c (Some (S', V'))))
  <= P45 * es' + 4 * (P45 + E1) * ev' + 4 * E1 * ZN V' + P45 * 32768.
Proof.
  intros Hs0 HG. cbn [rfc6298_rto]. rewrite HG. rewrite (update_later st r Hs0). cbv zeta.
  cbn [rc_srtt rc_rttvar rc_rto].
  set (s' := (mul_f32 (rc_srtt st) c_0875 + mul_f32 r c_0125)%N).
  set (v' := (mul_f32 (rc_rttvar st) c_075 + mul_f32 (absdiffN (rc_srtt st) r) c_025)%N).
  intros H1 H2. pose proof (mul_bound_Z v' _ _ _ cst_4) as B.
  set (M := mul_f32 v' c_4) in *. clearbody M s' v'. unfold fx.
  unfold E1, P45 in *. change (35184372088832 / 2) with 17592186044416 in *. lia.
Qed.
Print Assumptions step_srtt. Print Assumptions step_rttvar. Print Assumptions step_rto.

(* ---- Stage 5: the smoothed RTT never becomes 0 again (so the first-sample branch is taken once per reset) *)
Theorem srtt_nonzero st r : (5 <= r)%N -> rc_srtt (rtt_update st r) <> 0%N.
Proof.
  intros Hr. unfold rtt_update. destruct (N.eqb_spec (rc_srtt st) 0) as [E|E]; cbn [rc_srtt]; [lia|].
  pose proof (mul_bound_Z r _ _ _ cst_0125) as B. set (M := mul_f32 r c_0125) in *. clearbody M.
  unfold E1, P45 in B. change (35184372088832 / 2) with 17592186044416 in B. lia.
Qed.
Print Assumptions srtt_nonzero.

(* ---- Stage 4: whole sample sequences.  Generic part: any invariant of the error recurrences of Stage 3 that
   implies the tolerance gives the global statement. *)
Definition run (st:rtt_calc) (rs:list N) : rtt_calc := fold_left rtt_update rs st.
Definition ref_run (est:option (N * N)) (rs:list N) : option (N * N) := fold_left rfc6298_update (map fx rs) est.

Section Global.
  Variables LO HI : N.
  Hypothesis LO5 : (5 <= LO)%N.
  (* Inv S V es ev : reference state (units 2^-16 ns) and bounds of the errors of srtt and rttvar *)
  Variable Inv : Z -> Z -> Z -> Z -> Prop.
  Hypothesis Inv_init : forall r, ZN LO <= r <= ZN HI -> Inv (65536 * r) (32768 * r) 0 32768.
  Hypothesis Inv_mono : forall S V es ev es' ev', Inv S V es ev -> 0 <= es' <= es -> 0 <= ev' <= ev -> Inv S V es' ev'.
  Hypothesis Inv_step : forall S V es ev r S' V' es' ev',
    Inv S V es ev -> ZN LO <= r <= ZN HI -> 0 <= es -> 0 <= ev ->
    8 * S' <= 7 * S + 65536 * r < 8 * S' + 8 ->
    4 * V' <= 3 * V + Z.abs (S - 65536 * r) < 4 * V' + 4 ->
    0 <= es' -> 8 * P45 * es' <= 7 * (P45 + E1) * es + E1 * (7 * S + 65536 * r) + 8 * P45 * (65536 + 1) ->
    0 <= ev' -> 4 * P45 * ev' <= 3 * (P45 + E1) * ev + (P45 + E1) * es + E1 * (3 * V + Z.abs (S - 65536 * r)) + 4 * P45 * (65536 + 1) ->
    Inv S' V' es' ev'.
  Hypothesis Inv_final : forall S V es ev T, Inv S V es ev -> 0 <= es -> 0 <= ev -> 0 <= S -> 0 <= V ->
    100000 * T <= S + 4 * V < 100000 * T + 100000 ->
    P45 * es + 4 * (P45 + E1) * ev + 4 * E1 * V + P45 * 32768 <= P45 * (T + 65536000).

  Variables (c : ccfg) (rto gran : N).
  Hypothesis Hgran : cc_gran c = gran.
  Hypothesis Hrto : cc_rto c = rto.

  (* the state after at least one sample *)
  Definition good (st:rtt_calc) (est:option (N * N)) : Prop :=
    exists S V, est = Some (S, V) /\ rc_srtt st <> 0%N /\ rc_gran st = gran /\
      Inv (ZN S) (ZN V) (Z.abs (65536 * ZN (rc_srtt st) - ZN S)) (Z.abs (65536 * ZN (rc_rttvar st) - ZN V)) /\
      within_tolerance (fx (rc_rto st)) (rfc6298_rto c est) = true.

  Lemma tol_Z obs ex : within_tolerance obs ex = true <->
    Z.abs (ZN obs - ZN ex) <= ZN ex / 100000 + 65536000.
  Proof.
    unfold within_tolerance. rewrite N.leb_le. unfold fx.
    pose proof (absdiff_Z obs ex) as AD.
    assert (X : ZN (ex / 100000 + 1000 * 65536) = ZN ex / 100000 + 65536000).
    { rewrite N2Z.inj_add, N2Z.inj_div. reflexivity. }
    split; intros H; lia.
  Qed.

  Lemma good_first r st : (LO <= r <= HI)%N -> rc_srtt st = 0%N -> rc_gran st = gran ->
    good (rtt_update st r) (rfc6298_update None (fx r)).
  Proof.
    intros Hr H0 HG. unfold rtt_update. rewrite H0, N.eqb_refl. cbn [rfc6298_update].
    exists (fx r), (fx r / 2)%N. split; [reflexivity|]. cbn [rc_srtt rc_rttvar rc_gran rc_rto].
    assert (EV : (fx r / 2 = 32768 * r)%N).
    { unfold fx. replace (r * 65536)%N with (32768 * r * 2)%N by lia. apply N.div_mul. lia. }
    pose proof (N.div_mod r 2 ltac:(lia)) as D. pose proof (N.mod_lt r 2 ltac:(lia)) as L.
    set (h := (r / 2)%N) in *. set (b := (r mod 2)%N) in *.
    split; [lia|]. split; [exact HG|]. split.
    - rewrite EV. unfold fx.
      replace (Z.abs (65536 * ZN r - ZN (r * 65536))) with 0 by lia.
      assert (X : Z.abs (65536 * ZN h - ZN (32768 * r)) <= 32768) by lia.
      pose proof (Inv_init (ZN r) ltac:(lia)) as I.
      replace (ZN (r * 65536)) with (65536 * ZN r) by lia. replace (ZN (32768 * r)) with (32768 * ZN r) by lia.
      eapply Inv_mono; [exact I|lia|lia].
    - apply tol_Z. cbn [rfc6298_rto]. rewrite Hgran, HG, EV. unfold fx. clearbody h b.
      assert (0 <= ZN (r * 65536 + N.max (gran * 65536) (4 * (32768 * r))) / 100000) by (apply Z.div_pos; lia). lia.
  Qed.

  Lemma good_step st est r : (LO <= r <= HI)%N -> good st est -> good (rtt_update st r) (rfc6298_update est (fx r)).
  Proof.
    intros Hr (S & V & -> & Hs0 & HG & I & _).
    pose proof (step_srtt st r S _ Hs0 (Z.le_refl _)) as B1.
    pose proof (step_rttvar st r S V _ _ Hs0 (Z.le_refl _) (Z.le_refl _)) as B2.
    pose proof (step_rto st r c (ref_S' S r) (ref_V' S V r) _ _ Hs0 ltac:(rewrite Hgran, HG; reflexivity) (Z.le_refl _) (Z.le_refl _)) as B3.
    rewrite ref_step. cbn [rfc6298_rto] in B3 |- *. unfold ref_S', ref_V' in *.
    set (S' := ((7 * S + fx r) / 8)%N) in *. set (V' := ((3 * V + absdiff S (fx r)) / 4)%N) in *.
    assert (DS : 8 * ZN S' <= 7 * ZN S + 65536 * ZN r < 8 * ZN S' + 8).
    { subst S'. pose proof (N.div_mod (7 * S + fx r) 8 ltac:(lia)) as D. pose proof (N.mod_lt (7 * S + fx r) 8 ltac:(lia)) as L.
      unfold fx in *. lia. }
    assert (DV : 4 * ZN V' <= 3 * ZN V + Z.abs (ZN S - 65536 * ZN r) < 4 * ZN V' + 4).
    { subst V'. pose proof (N.div_mod (3 * V + absdiff S (fx r)) 4 ltac:(lia)) as D.
      pose proof (N.mod_lt (3 * V + absdiff S (fx r)) 4 ltac:(lia)) as L.
      apply (f_equal ZN) in D. rewrite !N2Z.inj_add, !N2Z.inj_mul, absdiff_Z, fx_Z in D. lia. }
    clearbody S' V'.
    set (st' := rtt_update st r) in *.
    assert (HG' : rc_gran st' = gran).
    { subst st'. unfold rtt_update. destruct (rc_srtt st =? 0)%N; exact HG. }
    assert (Hs' : rc_srtt st' <> 0%N) by (apply srtt_nonzero; lia).
    set (es := Z.abs (65536 * ZN (rc_srtt st) - ZN S)) in *. set (ev := Z.abs (65536 * ZN (rc_rttvar st) - ZN V)) in *.
    set (es' := Z.abs (65536 * ZN (rc_srtt st') - ZN S')) in *. set (ev' := Z.abs (65536 * ZN (rc_rttvar st') - ZN V')) in *.
    assert (I' : Inv (ZN S') (ZN V') es' ev').
    { apply (Inv_step (ZN S) (ZN V) es ev (ZN r)); try assumption; try lia; subst es ev es' ev'; lia. }
    exists S', V'. repeat split; try assumption.
    apply tol_Z. cbn [rfc6298_rto]. rewrite fx_Z.
    set (RTO := (S' + N.max (fx (cc_gran c)) (4 * V'))%N) in *.
    pose proof (Z.div_mod (ZN S' + 4 * ZN V') 100000 ltac:(lia)) as D. pose proof (Z.mod_pos_bound (ZN S' + 4 * ZN V') 100000 ltac:(lia)) as L.
    pose proof (Inv_final (ZN S') (ZN V') es' ev' ((ZN S' + 4 * ZN V') / 100000) I' ltac:(subst es'; lia) ltac:(subst ev'; lia)
                  ltac:(lia) ltac:(lia) ltac:(lia)) as F.
    assert (MONO : (ZN S' + 4 * ZN V') / 100000 <= ZN RTO / 100000) by (apply Z.div_le_mono; subst RTO; lia).
    unfold P45, E1 in *. lia.
  Qed.

  Definition fresh (st:rtt_calc) : Prop := rc_srtt st = 0%N /\ rc_gran st = gran /\ rc_rto st = rto.

  Lemma run_good rs : forall st est, (forall r, In r rs -> (LO <= r <= HI)%N) -> good st est -> good (run st rs) (ref_run est rs).
  Proof.
    induction rs as [|r rs IH]; intros st est Hrs G; [exact G|].
    cbn [run ref_run fold_left map]. apply IH; [intros; apply Hrs; right; assumption|].
    apply good_step; [apply Hrs; left; reflexivity|exact G].
  Qed.

  Theorem global_generic rs : (forall r, In r rs -> (LO <= r <= HI)%N) ->
    within_tolerance (fx (rc_rto (run (rtt_new rto gran) rs))) (rfc6298_rto c (ref_run None rs)) = true.
  Proof.
    intros Hrs. destruct rs as [|r rs].
    - cbn. rewrite Hrto. apply tol_Z. assert (0 <= ZN (fx rto) / 100000) by (apply Z.div_pos; lia). lia.
    - cbn [run ref_run fold_left map].
      assert (G : good (rtt_update (rtt_new rto gran) r) (rfc6298_update None (fx r))).
      { apply good_first; [apply Hrs; left; reflexivity|reflexivity|reflexivity]. }
      destruct (run_good rs _ _ ltac:(intros; apply Hrs; right; assumption) G) as (S & V & E & _ & _ & _ & T).
      exact T.
  Qed.
End Global.


(* ---- Stage 4, first instance: constant error bounds.  For samples of 1 ms .. 70 ms the errors of srtt and rttvar stay
   below B0, C0 (about 142 ns and 213 ns) whatever the sequence. *)
Definition crude_B0 : Z := 9274313.
Definition crude_C0 : Z := 13911474.
Definition crude_Inv (S V es ev:Z) : Prop :=
  65536 * 1000000 <= S <= 65536 * 70000000 /\ 0 <= V <= 65536 * 70000000 /\ es <= crude_B0 /\ ev <= crude_C0.

Theorem global_1ms_70ms c rto gran rs : cc_gran c = gran -> cc_rto c = rto ->
  (forall r, In r rs -> (1000000 <= r <= 70000000)%N) ->
  within_tolerance (fx (rc_rto (run (rtt_new rto gran) rs))) (rfc6298_rto c (ref_run None rs)) = true.
Proof.
  intros HG HR. apply (global_generic 1000000 70000000 ltac:(lia) crude_Inv); try assumption.
  - intros r Hr. unfold crude_Inv, crude_B0, crude_C0. lia.
  - unfold crude_Inv. intros. lia.
  - unfold crude_Inv, crude_B0, crude_C0, P45, E1. intros S V es ev r S' V' es' ev' (HS & HV & He & Hv) Hr. intros. lia.
  - unfold crude_Inv, crude_B0, crude_C0, P45, E1. intros S V es ev T (HS & HV & He & Hv). intros. lia.
Qed.
Print Assumptions global_1ms_70ms.
