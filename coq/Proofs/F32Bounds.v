(* Error bounds for the exact f32 estimator model (Agent/F32.v) against the RFC 6298 fixed-point reference of
   Agent/Monitors.v (property C15).

   Stage 1  rnd_spec, rnd_spec_Z   rnd is a correct rounding to 24 bits (half an ulp, relative error <= 2^-24).
   Stage 2  mul_f32_bound          |mul_f32 ns c - c ns| <= c ns (2^-22 + 2^-45) + 1/2 ns for the five constants of rtt.rs
                                   and EVERY ns (no range hypothesis); mul_f32_bound_gen for any c = p/q.
   Stage 3  step_srtt, step_rttvar, step_rto   one update: es' <= 7/8 (1+eps) es + eps S' + 1 ns + 1 unit, etc.
   Stage 5  srtt_nonzero           samples >= 5 ns never bring SRTT back to 0.
   Stage 4  global_generic         any invariant of the Stage 3 recurrences that implies the tolerance gives the global
                                   statement for sample sequences of any length;
            global_1ms_70ms        constant error bounds;
            global_1ms_650ms       samples 1 ms .. 650 ms, tolerance of the property (1e-5 relative + 1 us);
            global_1ms_10s_x2      samples 1 ms .. 10 s, twice that tolerance;
            global_..._ops         the same with resets (staleness) anywhere between the samples.
   The worst-case recurrences do NOT fit the tolerance of the property on the whole range 1 ms .. 10 s (witness
   sequence for the bound: bound_witness); no violation by the exact model was found (greedy_witness: 35 % of the
   tolerance is the largest deviation an adversarial search reached). *)
From Coq Require Import List NArith ZArith Bool Lia.
Require Import ZifyNat ZifyN.
From Rustun Require Import Agent.F32.
Open Scope N_scope.
Arguments N.add : simpl never. Arguments N.sub : simpl never. Arguments N.mul : simpl never.
Arguments N.div : simpl never. Arguments N.modulo : simpl never. Arguments N.pow : simpl never.

Lemma nbits_spec n : 0 < n -> 2 ^ (nbits n - 1) <= n < 2 ^ nbits n.
Proof.
  intros H. unfold nbits. destruct n as [|p]; [lia|].
  replace (N.log2 (N.pos p) + 1 - 1) with (N.log2 (N.pos p)) by lia.
  rewrite N.add_1_r. apply N.log2_spec. lia.
Qed.
Lemma nbits_pos n : 0 < n -> 1 <= nbits n.
Proof. intros H. unfold nbits. destruct n; lia. Qed.

Lemma round_div_spec a b : 0 < b ->
  let m := round_div a b in 2 * (m * b) <= 2 * a + b /\ 2 * a <= 2 * (m * b) + b.
Proof.
  intros Hb. unfold round_div.
  pose proof (N.div_mod a b ltac:(lia)) as E. pose proof (N.mod_lt a b ltac:(lia)) as L.
  set (q := a / b) in *. set (r := a mod b) in *. clearbody q r.
  destruct (2 * r <? b) eqn:C1; [apply N.ltb_lt in C1; cbv zeta; nia|apply N.ltb_ge in C1].
  destruct (b <? 2 * r) eqn:C2; [apply N.ltb_lt in C2; cbv zeta; nia|apply N.ltb_ge in C2].
  destruct (N.even q); cbv zeta; nia.
Qed.
Lemma round_div_range a b : 0 < b -> a / b <= round_div a b <= a / b + 1.
Proof.
  intros Hb. unfold round_div. destruct (2 * (a mod b) <? b); [lia|].
  destruct (b <? 2 * (a mod b)); [lia|]. destruct (N.even (a / b)); lia.
Qed.
Definition snum (n:N) (s:Z) : N := n * 2 ^ Z.to_N (- s).
Definition sden (d:N) (s:Z) : N := d * 2 ^ Z.to_N s.

Lemma pow2_pos k : 0 < 2 ^ k.
Proof. apply N.neq_0_lt_0. apply N.pow_nonzero. lia. Qed.
Lemma den_pos d s : 0 < d -> 0 < sden d s.
Proof. intros. unfold sden. pose proof (pow2_pos (Z.to_N s)). nia. Qed.
Lemma num_pos n s : 0 < n -> 0 < snum n s.
Proof. intros. unfold snum. pose proof (pow2_pos (Z.to_N (- s))). nia. Qed.

(* one more binary place: snum/sden (s+1) = (snum/sden s) / 2 *)
Lemma shift1 n d s : 2 * (snum n (s + 1) * sden d s) = snum n s * sden d (s + 1).
Proof.
  unfold snum, sden. destruct (Z.ltb_spec s 0) as [L|G].
  - replace (Z.to_N (- s)) with (Z.to_N (- (s + 1)) + 1) by lia.
    replace (Z.to_N (s + 1)) with 0 by lia. replace (Z.to_N s) with 0 by lia.
    rewrite N.pow_add_r. change (2 ^ 1) with 2. change (2 ^ 0) with 1. lia.
  - replace (Z.to_N (- (s + 1))) with 0 by lia. replace (Z.to_N (- s)) with 0 by lia.
    replace (Z.to_N (s + 1)) with (Z.to_N s + 1) by lia.
    rewrite N.pow_add_r. change (2 ^ 1) with 2. change (2 ^ 0) with 1. lia.
Qed.

Lemma quot_eq n d s :
  (if (0 <=? s)%Z then n / (d * pow2 (Z.to_N s)) else (n * pow2 (Z.to_N (- s))) / d) = snum n s / sden d s.
Proof.
  unfold snum, sden, pow2. destruct (Z.leb_spec 0 s).
  - replace (Z.to_N (- s)) with 0 by lia. change (2 ^ 0) with 1. rewrite N.mul_1_r. reflexivity.
  - replace (Z.to_N s) with 0 by lia. change (2 ^ 0) with 1. rewrite N.mul_1_r. reflexivity.
Qed.
Lemma rdiv_eq n d s :
  (if (0 <=? s)%Z then round_div n (d * pow2 (Z.to_N s)) else round_div (n * pow2 (Z.to_N (- s))) d)
  = round_div (snum n s) (sden d s).
Proof.
  unfold snum, sden, pow2. destruct (Z.leb_spec 0 s).
  - replace (Z.to_N (- s)) with 0 by lia. change (2 ^ 0) with 1. rewrite N.mul_1_r. reflexivity.
  - replace (Z.to_N s) with 0 by lia. change (2 ^ 0) with 1. rewrite N.mul_1_r. reflexivity.
Qed.

(* comparing n * 2^a with d * 2^b through the bit lengths *)
Lemma pow_cmp_lt n d p q a b : n < 2 ^ p -> 2 ^ q <= d -> p + a <= q + b -> n * 2 ^ a < d * 2 ^ b.
Proof.
  intros Hn Hd Hl.
  apply N.lt_le_trans with (2 ^ p * 2 ^ a).
  - apply N.mul_lt_mono_pos_r; [apply pow2_pos|assumption].
  - apply N.le_trans with (2 ^ q * 2 ^ b); [|apply N.mul_le_mono_r; assumption].
    rewrite <- !N.pow_add_r. apply N.pow_le_mono_r; lia.
Qed.
Lemma pow_cmp_le n d p q a b : 2 ^ p <= n -> d < 2 ^ q -> q + b <= p + a -> d * 2 ^ b <= n * 2 ^ a.
Proof.
  intros Hn Hd Hl.
  apply N.le_trans with (2 ^ q * 2 ^ b).
  - apply N.mul_le_mono_r. lia.
  - apply N.le_trans with (2 ^ p * 2 ^ a); [|apply N.mul_le_mono_r; assumption].
    rewrite <- !N.pow_add_r. apply N.pow_le_mono_r; lia.
Qed.

(* the first guess of the shift *)
Lemma guess_range n d : 0 < n -> 0 < d ->
  let s := (Z.of_N (nbits n) - Z.of_N (nbits d) - 24)%Z in
  2 ^ 23 * sden d s <= snum n s /\ snum n s < 2 ^ 25 * sden d s.
Proof.
  intros Hn Hd s.
  pose proof (nbits_spec n Hn) as [Ln Un]. pose proof (nbits_spec d Hd) as [Ld Ud].
  pose proof (nbits_pos n Hn). pose proof (nbits_pos d Hd).
  unfold snum, sden. split.
  - rewrite N.mul_assoc, (N.mul_comm (2 ^ 23) d), <- N.mul_assoc, <- N.pow_add_r.
    eapply pow_cmp_le; eauto. subst s. lia.
  - rewrite N.mul_assoc, (N.mul_comm (2 ^ 25) d), <- N.mul_assoc, <- N.pow_add_r.
    eapply pow_cmp_lt; eauto. subst s. lia.
Qed.

Lemma div_ge_iff a b k : 0 < b -> (k <=? a / b) = (k * b <=? a).
Proof.
  intros Hb. destruct (N.leb_spec (k * b) a) as [L|L].
  - apply N.leb_le. apply N.div_le_lower_bound; lia.
  - apply N.leb_gt. apply N.div_lt_upper_bound; lia.
Qed.
Lemma div_lt_iff a b k : 0 < b -> (a / b <? k) = (a <? k * b).
Proof.
  intros Hb. rewrite !N.ltb_antisym. f_equal. apply div_ge_iff; assumption.
Qed.

(* the shape of every non-zero result: a shift s with 2^23 <= n/d/2^s < 2^24, the mantissa rounded to nearest even,
   renormalised when it rounds up to 2^24 *)
Lemma rnd_inv n d e : 0 < n -> 0 < d ->
  exists s, 2 ^ 23 * sden d s <= snum n s /\ snum n s < 2 ^ 24 * sden d s /\
    rnd n d e = let m := round_div (snum n s) (sden d s) in
                if m =? 2 ^ 24 then (2 ^ 23, (e + s + 1)%Z) else (m, (e + s)%Z).
Proof.
  intros Hn Hd. unfold rnd. destruct (N.eqb_spec n 0) as [->|_]; [lia|].
  set (s0 := (Z.of_N (nbits n) - Z.of_N (nbits d) - 24)%Z).
  pose proof (guess_range n d Hn Hd) as [G1 G2]. fold s0 in G1, G2.
  cbv beta zeta. rewrite (quot_eq n d s0). unfold pow2.
  rewrite (div_ge_iff _ _ _ (den_pos d s0 Hd)).
  destruct (N.leb_spec (2 ^ 24 * sden d s0) (snum n s0)) as [C|C]; cbv iota.
  - (* one more place *)
    pose proof (shift1 n d s0) as S1. pose proof (den_pos d s0 Hd) as P0. pose proof (den_pos d (s0 + 1) Hd) as P1.
    assert (R1 : 2 ^ 23 * sden d (s0 + 1) <= snum n (s0 + 1)) by nia.
    assert (R2 : snum n (s0 + 1) < 2 ^ 24 * sden d (s0 + 1)) by nia.
    fold (pow2 (Z.to_N (s0 + 1))). fold (pow2 (Z.to_N (- (s0 + 1)))).
    rewrite (quot_eq n d (s0 + 1)). rewrite (div_lt_iff _ _ _ P1).
    destruct (N.ltb_spec (snum n (s0 + 1)) (2 ^ 23 * sden d (s0 + 1))) as [X|_]; [lia|]; cbv iota.
    exists (s0 + 1)%Z. rewrite rdiv_eq. repeat split; assumption.
  - fold (pow2 (Z.to_N s0)). fold (pow2 (Z.to_N (- s0))).
    rewrite (quot_eq n d s0). rewrite (div_lt_iff _ _ _ (den_pos d s0 Hd)).
    destruct (N.ltb_spec (snum n s0) (2 ^ 23 * sden d s0)) as [X|_]; [lia|]; cbv iota.
    exists s0. rewrite rdiv_eq. repeat split; assumption.
Qed.

(* ---- Stage 1: rnd is a correct rounding.  With s = x - e the exact value n/d * 2^e is (snum n s / sden d s) * 2^x:
   the mantissa m is within 1/2 of snum/sden (half an ulp), and within snum/sden * 2^-24 (relative error 2^-24). *)
Definition half_ulp (A B m:N) : Prop := 2 * (m * B) <= 2 * A + B /\ 2 * A <= 2 * (m * B) + B.
Definition rel24 (A B m:N) : Prop := 2 ^ 24 * (m * B) <= (2 ^ 24 + 1) * A /\ (2 ^ 24 - 1) * A <= 2 ^ 24 * (m * B).

Theorem rnd_spec n d e m x : 0 < n -> 0 < d -> rnd n d e = (m, x) ->
  2 ^ 23 <= m < 2 ^ 24 /\
  half_ulp (snum n (x - e)) (sden d (x - e)) m /\ rel24 (snum n (x - e)) (sden d (x - e)) m.
Proof.
  intros Hn Hd E. destruct (rnd_inv n d e Hn Hd) as (s & R1 & R2 & E'). rewrite E in E'. cbv zeta in E'.
  pose proof (den_pos d s Hd) as PB.
  pose proof (round_div_spec (snum n s) (sden d s) PB) as [H1 H2]. cbv zeta in H1, H2.
  pose proof (round_div_range (snum n s) (sden d s) PB) as [Q1 Q2].
  assert (QL : 2 ^ 23 <= snum n s / sden d s) by (apply N.div_le_lower_bound; lia).
  assert (QU : snum n s / sden d s < 2 ^ 24) by (apply N.div_lt_upper_bound; lia).
  set (m0 := round_div (snum n s) (sden d s)) in *. clearbody m0.
  change (2 ^ 23) with 8388608 in *. change (2 ^ 24) with 16777216 in *.
  destruct (N.eqb_spec m0 16777216) as [M|M].
  - injection E' as -> ->. replace (e + s + 1 - e)%Z with (s + 1)%Z by lia.
    pose proof (shift1 n d s) as S1. pose proof (den_pos d (s + 1) Hd) as PB'.
    set (A := snum n s) in *. set (B := sden d s) in *. set (A' := snum n (s + 1)) in *. set (B' := sden d (s + 1)) in *.
    clearbody A B A' B'. subst m0. unfold half_ulp, rel24. change (2 ^ 24) with 16777216.
    split; [lia|]. repeat split; nia.
  - injection E' as -> ->. replace (e + s - e)%Z with s by lia.
    set (A := snum n s) in *. set (B := sden d s) in *. clearbody A B.
    unfold half_ulp, rel24. change (2 ^ 24) with 16777216.
    split; [lia|]. repeat split; nia.
Qed.
Print Assumptions rnd_spec.

(* the formulation of the task text (e = 0), over Z *)
Corollary rnd_spec_Z n d m x : 0 < n -> 0 < d -> rnd n d 0 = (m, x) ->
  2 ^ 23 <= m < 2 ^ 24 /\
  ((0 <= x)%Z -> (2 * Z.abs (Z.of_N n - Z.of_N m * 2 ^ x * Z.of_N d) <= 2 ^ x * Z.of_N d)%Z) /\
  ((x < 0)%Z -> (2 * Z.abs (Z.of_N n * 2 ^ (- x) - Z.of_N m * Z.of_N d) <= Z.of_N d)%Z).
Proof.
  intros Hn Hd E. destruct (rnd_spec n d 0 m x Hn Hd E) as (R & [H1 H2] & _).
  rewrite Z.sub_0_r in H1, H2. unfold snum, sden in H1, H2. split; [exact R|]. split; intros Hx.
  - replace (Z.to_N (- x)) with 0 in * by lia. change (2 ^ 0) with 1 in *.
    replace (2 ^ x)%Z with (Z.of_N (2 ^ Z.to_N x)) by (rewrite N2Z.inj_pow, Z2N.id by lia; reflexivity).
    set (P := 2 ^ Z.to_N x) in *. clearbody P. nia.
  - replace (Z.to_N x) with 0 in * by lia. change (2 ^ 0) with 1 in *.
    replace (2 ^ (- x))%Z with (Z.of_N (2 ^ Z.to_N (- x))) by (rewrite N2Z.inj_pow, Z2N.id by lia; reflexivity).
    set (P := 2 ^ Z.to_N (- x)) in *. clearbody P. nia.
Qed.
Print Assumptions rnd_spec_Z.
Lemma rnd_zero d e : rnd 0 d e = fzero.
Proof. reflexivity. Qed.

(* ---- Stage 2: Duration::mul_f32.  The error analysis is done over Q (QArith, constructive); the final statements are
   over N. *)
From Coq Require Import QArith Qabs Qpower Lqa.
Local Open Scope Q_scope.

Definition NQ (n:N) : Q := inject_Z (Z.of_N n).
Definition val (f:f32) : Q := NQ (fst f) * 2 ^ (snd f).
Definition u24 : Q := 1 # 16777216.

Lemma NQ_mul a b : NQ (a * b) == NQ a * NQ b.
Proof. unfold NQ. rewrite N2Z.inj_mul, inject_Z_mult. reflexivity. Qed.
Lemma NQ_add a b : NQ (a + b) == NQ a + NQ b.
Proof. unfold NQ. rewrite N2Z.inj_add, inject_Z_plus. reflexivity. Qed.
Lemma NQ_le a b : (a <= b)%N -> NQ a <= NQ b.
Proof. intros H. unfold NQ. rewrite <- Zle_Qle. lia. Qed.
Lemma NQ_lt a b : (a < b)%N -> NQ a < NQ b.
Proof. intros H. unfold NQ. rewrite <- Zlt_Qlt. lia. Qed.
Lemma NQ_le_inv a b : NQ a <= NQ b -> (a <= b)%N.
Proof. unfold NQ. rewrite <- Zle_Qle. lia. Qed.
Lemma NQ_nonneg a : 0 <= NQ a.
Proof. change 0 with (NQ 0). apply NQ_le. lia. Qed.
Lemma NQ_pos a : (0 < a)%N -> 0 < NQ a.
Proof. intros. change 0 with (NQ 0). apply NQ_lt. assumption. Qed.
Lemma p2_pos z : 0 < 2 ^ z.
Proof. apply Qpower_0_lt. reflexivity. Qed.
Lemma p2_add a b : 2 ^ (a + b) == 2 ^ a * 2 ^ b.
Proof. apply Qpower_plus. discriminate. Qed.
Lemma p2_opp a : 2 ^ (- a) == / 2 ^ a.
Proof. apply Qpower_opp. Qed.
Lemma NQ_pow2 k : NQ (2 ^ k)%N == 2 ^ (Z.of_N k).
Proof. unfold NQ. rewrite N2Z.inj_pow. change (Z.of_N 2) with 2%Z. rewrite Zpower_Qpower by lia. reflexivity. Qed.
Lemma NQ_pow2Z z : (0 <= z)%Z -> NQ (2 ^ Z.to_N z)%N == 2 ^ z.
Proof. intros. rewrite NQ_pow2, Z2N.id by assumption. reflexivity. Qed.

Lemma NQ_num n s : NQ (snum n s) == NQ n * 2 ^ (Z.of_N (Z.to_N (- s))).
Proof. unfold snum. rewrite NQ_mul, NQ_pow2. reflexivity. Qed.
Lemma NQ_den d s : NQ (sden d s) == NQ d * 2 ^ (Z.of_N (Z.to_N s)).
Proof. unfold sden. rewrite NQ_mul, NQ_pow2. reflexivity. Qed.
Lemma numden_pow s : 2 ^ (Z.of_N (Z.to_N s)) == 2 ^ (Z.of_N (Z.to_N (- s))) * 2 ^ s.
Proof. rewrite <- p2_add. replace (Z.of_N (Z.to_N (- s)) + s)%Z with (Z.of_N (Z.to_N s)) by lia. reflexivity. Qed.

(* every rounding multiplies the exact value by a factor in [1 - 2^-24, 1 + 2^-24] *)
Lemma rnd_Q n d e : (0 < d)%N ->
  exists rho, 1 - u24 <= rho <= 1 + u24 /\ val (rnd n d e) == NQ n / NQ d * 2 ^ e * rho.
Proof.
  intros Hd. destruct (N.eq_dec n 0) as [->|Hn].
  - exists 1. split; [unfold u24; lra|]. rewrite rnd_zero. unfold val, fzero. cbn [fst snd].
    change (NQ 0) with 0. unfold Qdiv. ring.
  - assert (Hn' : (0 < n)%N) by lia. destruct (rnd n d e) as [m x] eqn:E.
    destruct (rnd_spec n d e m x Hn' Hd E) as (_ & _ & R1 & R2).
    set (s := (x - e)%Z) in *.
    pose proof (NQ_pos _ (num_pos n s Hn')) as PA. pose proof (NQ_pos _ (den_pos d s Hd)) as PB.
    pose proof (NQ_pos n Hn') as Pn. pose proof (NQ_pos d Hd) as Pd.
    apply NQ_le in R1. apply NQ_le in R2. rewrite !NQ_mul in R1, R2.
    change (NQ (2 ^ 24 + 1)) with 16777217 in R1. change (NQ (2 ^ 24)) with 16777216 in R1, R2.
    change (NQ (2 ^ 24 - 1)) with 16777215 in R2.
    exists (NQ m * NQ (sden d s) / NQ (snum n s)). split.
    + assert (X : NQ m * NQ (sden d s) / NQ (snum n s) * NQ (snum n s) == NQ m * NQ (sden d s)) by (field; lra).
      set (rho := NQ m * NQ (sden d s) / NQ (snum n s)) in *. clearbody rho. unfold u24.
      split.
      * apply Qmult_le_r with (z := NQ (snum n s)); [exact PA|]. rewrite X. lra.
      * apply Qmult_le_r with (z := NQ (snum n s)); [exact PA|]. rewrite X. lra.
    + unfold val. cbn [fst snd]. rewrite NQ_num, NQ_den, (numden_pow s).
      replace x with (e + s)%Z by (subst s; lia). rewrite p2_add.
      pose proof (p2_pos (Z.of_N (Z.to_N (- s)))) as P1. pose proof (p2_pos s) as P2. pose proof (p2_pos e) as P3.
      field. repeat split; lra.
Qed.

Definition rho_ok (rho:Q) : Prop := 1 - u24 <= rho <= 1 + u24.

Lemma of_nat_Q n : exists rho, rho_ok rho /\ val (of_nat_f32 n) == NQ n * rho.
Proof.
  destruct (rnd_Q n 1 0%Z ltac:(lia)) as (rho & R & E). exists rho. split; [exact R|].
  unfold of_nat_f32. rewrite E. change (NQ 1) with 1. change (2 ^ 0) with 1. field.
Qed.
Lemma fmul_Q a b : exists rho, rho_ok rho /\ val (fmul a b) == val a * val b * rho.
Proof.
  destruct (rnd_Q (fst a * fst b) 1 (snd a + snd b)%Z ltac:(lia)) as (rho & R & E). exists rho. split; [exact R|].
  unfold fmul. rewrite E. unfold val. rewrite NQ_mul, p2_add. change (NQ 1) with 1. field.
Qed.
Lemma fdiv_Q a b : (0 < fst b)%N -> exists rho, rho_ok rho /\ val (fdiv a b) == val a / val b * rho.
Proof.
  intros Hb. destruct (rnd_Q (fst a) (fst b) (snd a - snd b)%Z Hb) as (rho & R & E). exists rho. split; [exact R|].
  unfold fdiv. rewrite E. unfold val. unfold Z.sub. rewrite p2_add, p2_opp.
  pose proof (NQ_pos _ Hb). pose proof (p2_pos (snd b)). field. split; lra.
Qed.
Lemma fadd_Q a b : exists rho, rho_ok rho /\ val (fadd a b) == (val a + val b) * rho.
Proof.
  unfold fadd. set (emin := Z.min (snd a) (snd b)).
  destruct (rnd_Q (fst a * pow2 (Z.to_N (snd a - emin)) + fst b * pow2 (Z.to_N (snd b - emin))) 1 emin ltac:(lia))
    as (rho & R & E). exists rho. split; [exact R|].
  rewrite E. unfold val, pow2. rewrite NQ_add, !NQ_mul, !NQ_pow2Z by (subst emin; lia).
  replace (snd a) with (snd a - emin + emin)%Z at 2 by lia. replace (snd b) with (snd b - emin + emin)%Z at 2 by lia.
  rewrite !p2_add. change (NQ 1) with 1. field.
Qed.

Fixpoint qpow (q:Q) (k:nat) : Q := match k with O => 1 | S k => q * qpow q k end.
Lemma qpow_nonneg q k : 0 <= q -> 0 <= qpow q k.
Proof. intros H. induction k; cbn [qpow]; [lra|]. apply Qmult_le_0_compat; assumption. Qed.

(* v is x up to k roundings *)
Definition near (k:nat) (v x:Q) : Prop := qpow (1 - u24) k * x <= v <= qpow (1 + u24) k * x.
Global Instance near_proper k : Proper (Qeq ==> Qeq ==> iff) (near k).
Proof. intros v v' Ev x x' Ex. unfold near. rewrite Ev, Ex. reflexivity. Qed.

Lemma near_0 x : near 0 x x.
Proof. unfold near. cbn [qpow]. lra. Qed.
Lemma near_nonneg k v x : 0 <= x -> near k v x -> 0 <= v.
Proof.
  intros Hx [L _]. eapply Qle_trans; [|exact L]. apply Qmult_le_0_compat; [|exact Hx].
  apply qpow_nonneg. unfold u24. lra.
Qed.
Lemma near_step k v w x rho : 0 <= x -> rho_ok rho -> near k w x -> v == w * rho -> near (S k) v x.
Proof.
  intros Hx [R1 R2] N E. pose proof (near_nonneg k w x Hx N) as Hw. destruct N as [L U].
  unfold near. cbn [qpow]. rewrite E.
  assert (P1 : 0 <= qpow (1 - u24) k * x) by (apply Qmult_le_0_compat; [apply qpow_nonneg; unfold u24; lra|exact Hx]).
  set (A := qpow (1 - u24) k * x) in *. set (B := qpow (1 + u24) k * x) in *.
  rewrite <- !Qmult_assoc. fold A. fold B. clearbody A B. unfold u24 in *. split; nra.
Qed.
Lemma near_add k v1 x1 v2 x2 : near k v1 x1 -> near k v2 x2 -> near k (v1 + v2) (x1 + x2).
Proof. unfold near. intros [L1 U1] [L2 U2]. rewrite !Qmult_plus_distr_r. split; lra. Qed.
Lemma near_weaken k v x : 0 <= x -> near k v x -> near (S k) v x.
Proof.
  intros Hx N. apply near_step with (w := v) (rho := 1); [exact Hx|unfold rho_ok, u24; lra|exact N|ring].
Qed.
Lemma near_scale k c v x : 0 <= c -> near k v x -> near k (c * v) (c * x).
Proof.
  unfold near. intros Hc [L U]. set (A := qpow (1 - u24) k) in *. set (B := qpow (1 + u24) k) in *. clearbody A B.
  split.
  - setoid_replace (A * (c * x)) with (c * (A * x)) by ring. set (y := A * x) in *. clearbody y. nra.
  - setoid_replace (B * (c * x)) with (c * (B * x)) by ring. set (y := B * x) in *. clearbody y. nra.
Qed.

(* Duration::from_secs_f32 rounds to the nearest nanosecond *)
Lemma from_secs_Q m e : (m < 2 ^ 24)%N ->
  NQ (from_secs_f32 (m, e)) - (1 # 2) <= NQ m * 2 ^ e * 1000000000 <= NQ (from_secs_f32 (m, e)) + (1 # 2).
Proof.
  intros Hm. unfold from_secs_f32. destruct (N.eqb_spec m 0) as [->|Hm0].
  { change (NQ 0) with 0. lra. }
  pose proof (NQ_lt _ _ Hm) as HM. change (NQ (2 ^ 24)) with 16777216 in HM. pose proof (NQ_nonneg m) as HM0.
  pose proof (p2_pos e) as PP.
  destruct (Z.ltb_spec (e + 23) (-31)) as [C1|C1].
  { assert (LE : 2 ^ e <= 2 ^ (-55)) by (apply Qpower_le_compat_l; [lia|lra]).
    change (2 ^ (-55)) with (1 # 36028797018963968) in LE. change (NQ 0) with 0.
    set (M := NQ m) in *. set (P := 2 ^ e) in *. clearbody M P. split; nra. }
  assert (DIV : forall r, let D := (2 ^ Z.to_N (- e))%N in (e < 0)%Z ->
            (2 * (r * D) <= 2 * (m * NANOS) + D)%N -> (2 * (m * NANOS) <= 2 * (r * D) + D)%N ->
            NQ r - (1 # 2) <= NQ m * 2 ^ e * 1000000000 <= NQ r + (1 # 2)).
  { intros r D He H1 H2. apply NQ_le in H1. apply NQ_le in H2.
    rewrite !NQ_add, !NQ_mul in H1, H2. change (NQ 2) with 2 in *. change (NQ NANOS) with 1000000000 in *.
    assert (ED : NQ D * 2 ^ e == 1).
    { subst D. rewrite NQ_pow2Z by lia. rewrite <- p2_add. replace (- e + e)%Z with 0%Z by lia. reflexivity. }
    set (M := NQ m) in *. set (P := 2 ^ e) in *. set (R := NQ r) in *. set (Dq := NQ D) in *. clearbody M P R Dq.
    assert (H1' : (2 * (R * Dq)) * P <= (2 * (M * 1000000000) + Dq) * P) by (apply Qmult_le_r; assumption).
    assert (H2' : (2 * (M * 1000000000)) * P <= (2 * (R * Dq) + Dq) * P) by (apply Qmult_le_r; assumption).
    assert (X1 : 2 * (R * Dq) * P == 2 * R * (Dq * P)) by ring.
    assert (X2 : (2 * (M * 1000000000) + Dq) * P == 2 * M * P * 1000000000 + Dq * P) by ring.
    assert (X3 : (2 * (R * Dq) + Dq) * P == 2 * R * (Dq * P) + Dq * P) by ring.
    rewrite X1, X2, ED in H1'. rewrite X3, ED in H2'. split; lra. }
  destruct (Z.ltb_spec (e + 23) 0) as [C2|C2].
  { apply DIV; [lia| |]; unfold pow2; apply round_div_spec; apply pow2_pos. }
  destruct (Z.ltb_spec (e + 23) 23) as [C3|C3].
  { apply DIV; [lia| |]; unfold pow2; set (D := (2 ^ Z.to_N (- e))%N);
    pose proof (pow2_pos (Z.to_N (- e))) as PD; fold D in PD;
    pose proof (round_div_spec (m mod D * NANOS) D PD) as [H1 H2]; cbv zeta in H1, H2;
    pose proof (N.div_mod m D ltac:(lia)) as EM;
    set (rd := round_div (m mod D * NANOS) D) in *; clearbody rd;
    set (q := (m / D)%N) in *; set (f := (m mod D)%N) in *; clearbody q f; unfold NANOS in *; nia. }
  rewrite !NQ_mul. unfold pow2. rewrite NQ_pow2Z by lia. change (NQ NANOS) with 1000000000.
  set (X := NQ m * 2 ^ e * 1000000000). lra.
Qed.

Lemma nine_eq : of_nat_f32 NANOS = (15625000%N, 6%Z).
Proof. vm_compute. reflexivity. Qed.
Lemma val_nine : val (of_nat_f32 NANOS) == 1000000000.
Proof. rewrite nine_eq. vm_compute. reflexivity. Qed.

(* Duration::as_secs_f32: three roundings on every path *)
Lemma as_secs_near ns : near 3 (val (as_secs_f32 ns)) ((1 # 1000000000) * NQ ns).
Proof.
  unfold as_secs_f32. set (secs := (ns / NANOS)%N). set (nanos := (ns mod NANOS)%N).
  assert (ENS : NQ ns == NQ secs * 1000000000 + NQ nanos).
  { rewrite (N.div_mod ns NANOS) at 1 by (unfold NANOS; lia). fold secs nanos.
    rewrite NQ_add, NQ_mul. change (NQ NANOS) with 1000000000. ring. }
  destruct (of_nat_Q secs) as (r1 & R1 & E1). destruct (of_nat_Q nanos) as (r2 & R2 & E2).
  destruct (fdiv_Q (of_nat_f32 nanos) (of_nat_f32 NANOS)) as (r3 & R3 & E3). { rewrite nine_eq. reflexivity. }
  destruct (fadd_Q (of_nat_f32 secs) (fdiv (of_nat_f32 nanos) (of_nat_f32 NANOS))) as (r4 & R4 & E4).
  rewrite val_nine in E3.
  pose proof (NQ_nonneg secs) as P1. pose proof (NQ_nonneg nanos) as P2.
  assert (N1 : near 1 (val (of_nat_f32 secs)) (NQ secs)).
  { eapply near_step; [exact P1|exact R1|apply near_0|exact E1]. }
  assert (N2 : near 1 (val (of_nat_f32 nanos)) (NQ nanos)).
  { eapply near_step; [exact P2|exact R2|apply near_0|exact E2]. }
  assert (N3 : near 2 (val (fdiv (of_nat_f32 nanos) (of_nat_f32 NANOS))) ((1 # 1000000000) * NQ nanos)).
  { eapply near_step; [lra|exact R3| |exact E3].
    setoid_replace (val (of_nat_f32 nanos) / 1000000000) with ((1 # 1000000000) * val (of_nat_f32 nanos)) by (field).
    apply near_scale; [lra|exact N2]. }
  setoid_replace ((1 # 1000000000) * NQ ns) with (NQ secs + (1 # 1000000000) * NQ nanos) by (rewrite ENS; field).
  eapply near_step; [lra|exact R4| |exact E4].
  apply near_add; [apply near_weaken; assumption|exact N3].
Qed.

Lemma rnd_mant n d e : (0 < d)%N -> (fst (rnd n d e) < 2 ^ 24)%N.
Proof.
  intros Hd. destruct (N.eq_dec n 0) as [->|Hn]; [rewrite rnd_zero; reflexivity|].
  destruct (rnd n d e) as [m x] eqn:E. destruct (rnd_spec n d e m x ltac:(lia) Hd E) as ([_ H] & _). exact H.
Qed.

(* (1 + 2^-24)^4 - 1 <= 2^-22 + 2^-45 and 1 - (1 - 2^-24)^4 <= 2^-22 *)
Definition eps4 : Q := (1 # 4194304) + (1 # 35184372088832).
Lemma eps4_ok : qpow (1 + u24) 4 <= 1 + eps4 /\ 1 - eps4 <= qpow (1 - u24) 4.
Proof. split; vm_compute; discriminate. Qed.

(* Duration::mul_f32 by a positive constant c: four roundings and the rounding to a nanosecond *)
Lemma mul_f32_Q ns c : 0 <= val c ->
  let exact := val c * NQ ns in
  exact - (eps4 * exact + (1 # 2)) <= NQ (mul_f32 ns c) <= exact + (eps4 * exact + (1 # 2)).
Proof.
  intros Hc exact. unfold mul_f32.
  destruct (fmul_Q c (as_secs_f32 ns)) as (r5 & R5 & E5).
  pose proof (as_secs_near ns) as N3. pose proof (NQ_nonneg ns) as Pn.
  assert (N4 : near 4 (val (fmul c (as_secs_f32 ns))) (val c * ((1 # 1000000000) * NQ ns))).
  { eapply near_step; [|exact R5| |exact E5].
    - apply Qmult_le_0_compat; [exact Hc|lra].
    - apply near_scale; assumption. }
  destruct (fmul c (as_secs_f32 ns)) as [m e] eqn:EP.
  assert (Hm : (m < 2 ^ 24)%N).
  { change m with (fst (m, e)). rewrite <- EP. unfold fmul. apply rnd_mant. lia. }
  pose proof (from_secs_Q m e Hm) as [F1 F2]. change (NQ m * 2 ^ e) with (val (m, e)) in F1, F2.
  destruct N4 as [L U]. destruct eps4_ok as [K1 K2].
  assert (EX : val c * ((1 # 1000000000) * NQ ns) * 1000000000 == exact) by (subst exact; field).
  assert (PX : 0 <= exact) by (subst exact; apply Qmult_le_0_compat; assumption).
  set (X := val c * ((1 # 1000000000) * NQ ns)) in *. set (V := val (m, e)) in *. set (R := NQ (from_secs_f32 (m, e))) in *.
  set (A := qpow (1 - u24) 4) in *. set (B := qpow (1 + u24) 4) in *.
  assert (PX' : 0 <= X) by (subst X; apply Qmult_le_0_compat; [exact Hc|lra]).
  clearbody X V R A B exact. unfold eps4 in *.
  assert (U' : V <= (1 + ((1 # 4194304) + (1 # 35184372088832))) * X) by nra.
  assert (L' : (1 - ((1 # 4194304) + (1 # 35184372088832))) * X <= V) by nra.
  clear L U K1 K2 A B. split; lra.
Qed.

(* over N: c = p / q *)
Theorem mul_f32_bound_gen ns c p q : (0 < q)%N -> val c * NQ q == NQ p ->
  let M := mul_f32 ns c in
  (2 ^ 45 * (q * M) <= 2 ^ 45 * (p * ns) + ((2 ^ 23 + 1) * (p * ns) + 2 ^ 44 * q) /\
   2 ^ 45 * (p * ns) <= 2 ^ 45 * (q * M) + ((2 ^ 23 + 1) * (p * ns) + 2 ^ 44 * q))%N.
Proof.
  intros Hq Ec M. pose proof (NQ_pos q Hq) as Pq. pose proof (NQ_nonneg p) as Pp. pose proof (NQ_nonneg ns) as Pn.
  assert (Hc : 0 <= val c).
  { apply Qmult_le_r with (z := NQ q); [exact Pq|]. rewrite Ec. lra. }
  pose proof (mul_f32_Q ns c Hc) as [H1 H2]. cbv zeta in H1, H2. fold M in H1, H2.
  assert (EY : val c * NQ ns * NQ q == NQ p * NQ ns) by (rewrite <- Ec; ring).
  set (E := val c * NQ ns) in *. unfold eps4 in *.
  assert (G1 : (E - (((1 # 4194304) + (1 # 35184372088832)) * E + (1 # 2))) * NQ q <= NQ M * NQ q)
    by (apply Qmult_le_r; assumption).
  assert (G2 : NQ M * NQ q <= (E + (((1 # 4194304) + (1 # 35184372088832)) * E + (1 # 2))) * NQ q)
    by (apply Qmult_le_r; assumption).
  assert (X1 : (E - (((1 # 4194304) + (1 # 35184372088832)) * E + (1 # 2))) * NQ q ==
               E * NQ q - (((1 # 4194304) + (1 # 35184372088832)) * (E * NQ q) + (1 # 2) * NQ q)) by ring.
  assert (X2 : (E + (((1 # 4194304) + (1 # 35184372088832)) * E + (1 # 2))) * NQ q ==
               E * NQ q + (((1 # 4194304) + (1 # 35184372088832)) * (E * NQ q) + (1 # 2) * NQ q)) by ring.
  rewrite X1 in G1. rewrite X2 in G2. rewrite EY in G1, G2.
  split; apply NQ_le_inv; rewrite ?NQ_add, ?NQ_mul;
    change (NQ (2 ^ 45)) with 35184372088832; change (NQ (2 ^ 44)) with 17592186044416;
    change (NQ (2 ^ 23 + 1)) with 8388609;
    set (Y := NQ p * NQ ns) in *; set (Mq := NQ M) in *; set (Qq := NQ q) in *; clearbody Y Mq Qq; lra.
Qed.
Print Assumptions mul_f32_bound_gen.

Lemma val_c_0125 : val c_0125 * NQ 8 == NQ 1. Proof. vm_compute. reflexivity. Qed.
Lemma val_c_025 : val c_025 * NQ 4 == NQ 1. Proof. vm_compute. reflexivity. Qed.
Lemma val_c_075 : val c_075 * NQ 4 == NQ 3. Proof. vm_compute. reflexivity. Qed.
Lemma val_c_0875 : val c_0875 * NQ 8 == NQ 7. Proof. vm_compute. reflexivity. Qed.
Lemma val_c_4 : val c_4 * NQ 1 == NQ 4. Proof. vm_compute. reflexivity. Qed.
Close Scope Q_scope.

(* the constants of rtt.rs with their exact values p / q *)
Inductive cst : f32 -> N -> N -> Prop :=
| cst_0125 : cst c_0125 1 8 | cst_025 : cst c_025 1 4 | cst_075 : cst c_075 3 4
| cst_0875 : cst c_0875 7 8 | cst_4 : cst c_4 4 1.

(* |mul_f32 ns c - c * ns| <= c * ns * (2^-22 + 2^-45) + 1/2 ns, for EVERY ns (no range hypothesis) *)
Theorem mul_f32_bound ns c p q : cst c p q ->
  (2 ^ 45 * Z.abs (Z.of_N q * Z.of_N (mul_f32 ns c) - Z.of_N p * Z.of_N ns)
   <= (2 ^ 23 + 1) * (Z.of_N p * Z.of_N ns) + 2 ^ 44 * Z.of_N q)%Z.
Proof.
  intros C.
  assert (H : (0 < q)%N /\ (val c * NQ q == NQ p)%Q).
  { destruct C; (split; [lia|]); [apply val_c_0125|apply val_c_025|apply val_c_075|apply val_c_0875|apply val_c_4]. }
  destruct H as [Hq Ec]. pose proof (mul_f32_bound_gen ns c p q Hq Ec) as [H1 H2]. cbv zeta in H1, H2.
  set (M := mul_f32 ns c) in *. clearbody M.
  change (2 ^ 45)%N with 35184372088832%N in *. change (2 ^ 44)%N with 17592186044416%N in *.
  change (2 ^ 23 + 1)%N with 8388609%N in *.
  change (2 ^ 45)%Z with 35184372088832%Z. change (2 ^ 44)%Z with 17592186044416%Z. change (2 ^ 23 + 1)%Z with 8388609%Z.
  lia.
Qed.
Print Assumptions mul_f32_bound.

(* weaker, simpler: |mul_f32 ns c - c * ns| <= c * ns * 2^-21 + 1 *)
Corollary mul_f32_bound_simple ns c p q : cst c p q ->
  (2 ^ 21 * Z.abs (Z.of_N q * Z.of_N (mul_f32 ns c) - Z.of_N p * Z.of_N ns)
   <= Z.of_N p * Z.of_N ns + 2 ^ 21 * Z.of_N q)%Z.
Proof.
  intros C. pose proof (mul_f32_bound ns c p q C) as H.
  change (2 ^ 45)%Z with 35184372088832%Z in H. change (2 ^ 44)%Z with 17592186044416%Z in H.
  change (2 ^ 23 + 1)%Z with 8388609%Z in H. change (2 ^ 21)%Z with 2097152%Z.
  assert (0 <= Z.of_N p * Z.of_N ns)%Z by nia. lia.
Qed.
Print Assumptions mul_f32_bound_simple.

(* ---- Stage 3: one update step against the RFC 6298 fixed-point reference (Agent/Monitors.v).
   Units: the reference works in 2^-16 ns (fx x = 65536 x); es, ev are error bounds in those units. *)
From Rustun Require Import Agent.Rto Agent.Model Agent.Monitors.
Local Open Scope Z_scope.
Notation ZN := Z.of_N.

Lemma absdiffN_Z a b : ZN (absdiffN a b) = Z.abs (ZN a - ZN b).
Proof. unfold absdiffN. destruct (N.ltb_spec a b); lia. Qed.
Lemma absdiff_Z a b : ZN (absdiff a b) = Z.abs (ZN a - ZN b).
Proof. unfold absdiff. destruct (N.ltb_spec a b); lia. Qed.
Lemma fx_Z x : ZN (fx x) = 65536 * ZN x.
Proof. unfold fx. lia. Qed.

(* eps = (2^23 + 1) / 2^45 = 2^-22 + 2^-45 *)
Definition E1 : Z := 8388609.
Definition P45 : Z := 35184372088832.

Lemma mul_bound_Z ns c p q : cst c p q ->
  P45 * Z.abs (ZN q * ZN (mul_f32 ns c) - ZN p * ZN ns) <= E1 * (ZN p * ZN ns) + P45 / 2 * ZN q.
Proof. intros C. exact (mul_f32_bound ns c p q C). Qed.

Lemma update_later st r : rc_srtt st <> 0%N ->
  rtt_update st r =
  let rttvar := (mul_f32 (rc_rttvar st) c_075 + mul_f32 (absdiffN (rc_srtt st) r) c_025)%N in
  let srtt := (mul_f32 (rc_srtt st) c_0875 + mul_f32 r c_0125)%N in
  {| rc_rto := (srtt + N.max (rc_gran st) (mul_f32 rttvar c_4))%N; rc_srtt := srtt; rc_rttvar := rttvar;
     rc_gran := rc_gran st; rc_conf := rc_conf st |}.
Proof. intros H. unfold rtt_update. destruct (N.eqb_spec (rc_srtt st) 0); [contradiction|reflexivity]. Qed.

Definition ref_S' (S r:N) : N := ((7 * S + fx r) / 8)%N.
Definition ref_V' (S V r:N) : N := ((3 * V + absdiff S (fx r)) / 4)%N.
Lemma ref_step S V r : rfc6298_update (Some (S, V)) (fx r) = Some (ref_S' S r, ref_V' S V r).
Proof. reflexivity. Qed.

(* es' <= 7/8 (1+eps) es + eps (7 S + fx r)/8 + 1 ns + 1 unit *)
Theorem step_srtt st r S es : rc_srtt st <> 0%N ->
  Z.abs (65536 * ZN (rc_srtt st) - ZN S) <= es ->
  8 * P45 * Z.abs (65536 * ZN (rc_srtt (rtt_update st r)) - ZN (ref_S' S r))
  <= 7 * (P45 + E1) * es + E1 * (7 * ZN S + 65536 * ZN r) + 8 * P45 * (65536 + 1).
Proof.
  intros Hs0 Hes. rewrite (update_later st r Hs0). cbv zeta. cbn [rc_srtt].
  pose proof (mul_bound_Z (rc_srtt st) _ _ _ cst_0875) as B1.
  pose proof (mul_bound_Z r _ _ _ cst_0125) as B2.
  set (M1 := mul_f32 (rc_srtt st) c_0875) in *. set (M2 := mul_f32 r c_0125) in *.
  unfold ref_S'. pose proof (N.div_mod (7 * S + fx r) 8 ltac:(lia)) as D. pose proof (N.mod_lt (7 * S + fx r) 8 ltac:(lia)) as L.
  set (Q := ((7 * S + fx r) / 8)%N) in *. set (R := ((7 * S + fx r) mod 8)%N) in *. unfold fx in D.
  unfold E1, P45 in *. change (35184372088832 / 2) with 17592186044416 in *.
  rewrite N2Z.inj_add. lia.
Qed.

(* ev' <= 3/4 (1+eps) ev + 1/4 (1+eps) es + eps (3 V + |S - fx r|)/4 + 1 ns + 1 unit *)
Theorem step_rttvar st r S V es ev : rc_srtt st <> 0%N ->
  Z.abs (65536 * ZN (rc_srtt st) - ZN S) <= es -> Z.abs (65536 * ZN (rc_rttvar st) - ZN V) <= ev ->
  4 * P45 * Z.abs (65536 * ZN (rc_rttvar (rtt_update st r)) - ZN (ref_V' S V r))
  <= 3 * (P45 + E1) * ev + (P45 + E1) * es + E1 * (3 * ZN V + Z.abs (ZN S - 65536 * ZN r)) + 4 * P45 * (65536 + 1).
Proof.
  intros Hs0 Hes Hev. rewrite (update_later st r Hs0). cbv zeta. cbn [rc_rttvar].
  pose proof (mul_bound_Z (rc_rttvar st) _ _ _ cst_075) as B1.
  pose proof (mul_bound_Z (absdiffN (rc_srtt st) r) _ _ _ cst_025) as B2.
  set (M1 := mul_f32 (rc_rttvar st) c_075) in *. set (M2 := mul_f32 (absdiffN (rc_srtt st) r) c_025) in *.
  rewrite absdiffN_Z in B2.
  unfold ref_V'. pose proof (N.div_mod (3 * V + absdiff S (fx r)) 4 ltac:(lia)) as D.
  pose proof (N.mod_lt (3 * V + absdiff S (fx r)) 4 ltac:(lia)) as L.
  set (Q := ((3 * V + absdiff S (fx r)) / 4)%N) in *. set (R := ((3 * V + absdiff S (fx r)) mod 4)%N) in *.
  apply (f_equal ZN) in D. rewrite !N2Z.inj_add, !N2Z.inj_mul, absdiff_Z, fx_Z in D.
  unfold E1, P45 in *. change (35184372088832 / 2) with 17592186044416 in *.
  rewrite N2Z.inj_add. lia.
Qed.

(* the interval: |fx rto' - RTO'| <= es' + 4 (1+eps) ev' + 4 eps V' + 1/2 ns, for any bounds es', ev' of the new state
   against any reference state S', V' *)
Theorem step_rto st r c S' V' es' ev' : rc_srtt st <> 0%N -> cc_gran c = rc_gran st ->
  Z.abs (65536 * ZN (rc_srtt (rtt_update st r)) - ZN S') <= es' ->
  Z.abs (65536 * ZN (rc_rttvar (rtt_update st r)) - ZN V') <= ev' ->
  P45 * Z.abs (65536 * ZN (rc_rto (rtt_update st r)) - ZN (rfc6298_rto c (Some (S', V'))))
  <= P45 * es' + 4 * (P45 + E1) * ev' + 4 * E1 * ZN V' + P45 * 32768.
Proof.
  intros Hs0 HG. cbn [rfc6298_rto]. rewrite HG. rewrite (update_later st r Hs0). cbv zeta.
  cbn [rc_srtt rc_rttvar rc_rto].
  set (s' := (mul_f32 (rc_srtt st) c_0875 + mul_f32 r c_0125)%N).
  set (v' := (mul_f32 (rc_rttvar st) c_075 + mul_f32 (absdiffN (rc_srtt st) r) c_025)%N).
  intros H1 H2. pose proof (mul_bound_Z v' _ _ _ cst_4) as B.
  set (M := mul_f32 v' c_4) in *. clearbody M s' v'. unfold fx.
  unfold E1, P45 in *. change (35184372088832 / 2) with 17592186044416 in *. lia.
Qed.
Print Assumptions step_srtt. Print Assumptions step_rttvar. Print Assumptions step_rto.

(* ---- Stage 5: the smoothed RTT never becomes 0 again (so the first-sample branch is taken once per reset) *)
Theorem srtt_nonzero st r : (5 <= r)%N -> rc_srtt (rtt_update st r) <> 0%N.
Proof.
  intros Hr. unfold rtt_update. destruct (N.eqb_spec (rc_srtt st) 0) as [E|E]; cbn [rc_srtt]; [lia|].
  pose proof (mul_bound_Z r _ _ _ cst_0125) as B. set (M := mul_f32 r c_0125) in *. clearbody M.
  unfold E1, P45 in B. change (35184372088832 / 2) with 17592186044416 in B. lia.
Qed.
Print Assumptions srtt_nonzero.

(* ---- Stage 4: whole sample sequences.  Generic part: any invariant of the error recurrences of Stage 3 that
   implies the tolerance gives the global statement. *)
Definition run (st:rtt_calc) (rs:list N) : rtt_calc := fold_left rtt_update rs st.
Definition ref_run (est:option (N * N)) (rs:list N) : option (N * N) := fold_left rfc6298_update (map fx rs) est.

(* with resets (client.rs: staleness after more than 600 s): an operation is a sample or a reset *)
Inductive eop : Set := ESample (r:N) | EReset.
Definition eop_model (st:rtt_calc) (o:eop) : rtt_calc := match o with ESample r => rtt_update st r | EReset => rtt_reset st end.
Definition eop_ref (est:option (N * N)) (o:eop) : option (N * N) :=
  match o with ESample r => rfc6298_update est (fx r) | EReset => None end.
Definition run_ops (st:rtt_calc) (os:list eop) : rtt_calc := fold_left eop_model os st.
Definition ref_ops (est:option (N * N)) (os:list eop) : option (N * N) := fold_left eop_ref os est.
Definition eop_ok (lo hi:N) (o:eop) : Prop := match o with ESample r => (lo <= r <= hi)%N | EReset => True end.

(* the tolerance of the property with its two constants as parameters: |observed - expected| <= expected / rd + ab ns *)
Definition within_tol (rd ab:N) (observed expected:N) : bool := (absdiff observed expected <=? expected / rd + fx ab)%N.
Lemma within_tolerance_std o e : within_tolerance o e = within_tol 100000 1000 o e.
Proof. reflexivity. Qed.

Section Global.
  Variables LO HI RD AB : N.
  Hypothesis LO5 : (5 <= LO)%N.
  Hypothesis RDpos : (0 < RD)%N.
  Hypothesis AB2 : (2 <= AB)%N.
  (* Inv S V es ev : reference state (units 2^-16 ns) and bounds of the errors of srtt and rttvar *)
  Variable Inv : Z -> Z -> Z -> Z -> Prop.
  Hypothesis Inv_init : forall r, ZN LO <= r <= ZN HI -> Inv (65536 * r) (32768 * r) 0 32768.
  Hypothesis Inv_mono : forall S V es ev es' ev', Inv S V es ev -> 0 <= es' <= es -> 0 <= ev' <= ev -> Inv S V es' ev'.
  Hypothesis Inv_step : forall S V es ev r S' V' es' ev',
    Inv S V es ev -> ZN LO <= r <= ZN HI -> 0 <= es -> 0 <= ev ->
    8 * S' <= 7 * S + 65536 * r < 8 * S' + 8 ->
    4 * V' <= 3 * V + Z.abs (S - 65536 * r) < 4 * V' + 4 ->
    0 <= es' -> 8 * P45 * es' <= 7 * (P45 + E1) * es + E1 * (7 * S + 65536 * r) + 8 * P45 * (65536 + 1) ->
    0 <= ev' -> 4 * P45 * ev' <= 3 * (P45 + E1) * ev + (P45 + E1) * es + E1 * (3 * V + Z.abs (S - 65536 * r)) + 4 * P45 * (65536 + 1) ->
    Inv S' V' es' ev'.
  Hypothesis Inv_final : forall S V es ev T, Inv S V es ev -> 0 <= es -> 0 <= ev -> 0 <= S -> 0 <= V ->
    ZN RD * T <= S + 4 * V < ZN RD * T + ZN RD ->
    P45 * es + 4 * (P45 + E1) * ev + 4 * E1 * V + P45 * 32768 <= P45 * (T + 65536 * ZN AB).

  Variables (c : ccfg) (rto gran : N).
  Hypothesis Hgran : cc_gran c = gran.
  Hypothesis Hrto : cc_rto c = rto.

  (* the state after at least one sample *)
  Definition good (st:rtt_calc) (est:option (N * N)) : Prop :=
    exists S V, est = Some (S, V) /\ rc_srtt st <> 0%N /\ rc_gran st = gran /\
      Inv (ZN S) (ZN V) (Z.abs (65536 * ZN (rc_srtt st) - ZN S)) (Z.abs (65536 * ZN (rc_rttvar st) - ZN V)) /\
      within_tol RD AB (fx (rc_rto st)) (rfc6298_rto c est) = true.

  Lemma tol_Z obs ex : within_tol RD AB obs ex = true <->
    Z.abs (ZN obs - ZN ex) <= ZN ex / ZN RD + 65536 * ZN AB.
  Proof.
    unfold within_tol. rewrite N.leb_le. unfold fx.
    pose proof (absdiff_Z obs ex) as AD.
    assert (X : ZN (ex / RD + AB * 65536) = ZN ex / ZN RD + 65536 * ZN AB).
    { rewrite N2Z.inj_add, N2Z.inj_div, N2Z.inj_mul. change (ZN 65536) with 65536. lia. }
    split; intros H; lia.
  Qed.

  Lemma good_first r st : (LO <= r <= HI)%N -> rc_srtt st = 0%N -> rc_gran st = gran ->
    good (rtt_update st r) (rfc6298_update None (fx r)).
  Proof.
    intros Hr H0 HG. unfold rtt_update. rewrite H0, N.eqb_refl. cbn [rfc6298_update].
    exists (fx r), (fx r / 2)%N. split; [reflexivity|]. cbn [rc_srtt rc_rttvar rc_gran rc_rto].
    assert (EV : (fx r / 2 = 32768 * r)%N).
    { unfold fx. replace (r * 65536)%N with (32768 * r * 2)%N by lia. apply N.div_mul. lia. }
    pose proof (N.div_mod r 2 ltac:(lia)) as D. pose proof (N.mod_lt r 2 ltac:(lia)) as L.
    set (h := (r / 2)%N) in *. set (b := (r mod 2)%N) in *.
    split; [lia|]. split; [exact HG|]. split.
    - rewrite EV. unfold fx.
      replace (Z.abs (65536 * ZN r - ZN (r * 65536))) with 0 by lia.
      assert (X : Z.abs (65536 * ZN h - ZN (32768 * r)) <= 32768) by lia.
      pose proof (Inv_init (ZN r) ltac:(lia)) as I.
      replace (ZN (r * 65536)) with (65536 * ZN r) by lia. replace (ZN (32768 * r)) with (32768 * ZN r) by lia.
      eapply Inv_mono; [exact I|lia|lia].
    - apply tol_Z. cbn [rfc6298_rto]. rewrite Hgran, HG, EV. unfold fx. clearbody h b.
      assert (0 <= ZN (r * 65536 + N.max (gran * 65536) (4 * (32768 * r))) / ZN RD) by (apply Z.div_pos; lia). lia.
  Qed.

  Lemma good_step st est r : (LO <= r <= HI)%N -> good st est -> good (rtt_update st r) (rfc6298_update est (fx r)).
  Proof.
    intros Hr (S & V & -> & Hs0 & HG & I & _).
    pose proof (step_srtt st r S _ Hs0 (Z.le_refl _)) as B1.
    pose proof (step_rttvar st r S V _ _ Hs0 (Z.le_refl _) (Z.le_refl _)) as B2.
    pose proof (step_rto st r c (ref_S' S r) (ref_V' S V r) _ _ Hs0 ltac:(rewrite Hgran, HG; reflexivity) (Z.le_refl _) (Z.le_refl _)) as B3.
    rewrite ref_step. cbn [rfc6298_rto] in B3 |- *. unfold ref_S', ref_V' in *.
    set (S' := ((7 * S + fx r) / 8)%N) in *. set (V' := ((3 * V + absdiff S (fx r)) / 4)%N) in *.
    assert (DS : 8 * ZN S' <= 7 * ZN S + 65536 * ZN r < 8 * ZN S' + 8).
    { subst S'. pose proof (N.div_mod (7 * S + fx r) 8 ltac:(lia)) as D. pose proof (N.mod_lt (7 * S + fx r) 8 ltac:(lia)) as L.
      unfold fx in *. lia. }
    assert (DV : 4 * ZN V' <= 3 * ZN V + Z.abs (ZN S - 65536 * ZN r) < 4 * ZN V' + 4).
    { subst V'. pose proof (N.div_mod (3 * V + absdiff S (fx r)) 4 ltac:(lia)) as D.
      pose proof (N.mod_lt (3 * V + absdiff S (fx r)) 4 ltac:(lia)) as L.
      apply (f_equal ZN) in D. rewrite !N2Z.inj_add, !N2Z.inj_mul, absdiff_Z, fx_Z in D. lia. }
    clearbody S' V'.
    set (st' := rtt_update st r) in *.
    assert (HG' : rc_gran st' = gran).
    { subst st'. unfold rtt_update. destruct (rc_srtt st =? 0)%N; exact HG. }
    assert (Hs' : rc_srtt st' <> 0%N) by (apply srtt_nonzero; lia).
    set (es := Z.abs (65536 * ZN (rc_srtt st) - ZN S)) in *. set (ev := Z.abs (65536 * ZN (rc_rttvar st) - ZN V)) in *.
    set (es' := Z.abs (65536 * ZN (rc_srtt st') - ZN S')) in *. set (ev' := Z.abs (65536 * ZN (rc_rttvar st') - ZN V')) in *.
    assert (I' : Inv (ZN S') (ZN V') es' ev').
    { apply (Inv_step (ZN S) (ZN V) es ev (ZN r)); try assumption; try lia; subst es ev es' ev'; lia. }
    exists S', V'. repeat split; try assumption.
    apply tol_Z. cbn [rfc6298_rto]. rewrite fx_Z.
    set (RTO := (S' + N.max (fx (cc_gran c)) (4 * V'))%N) in *.
    pose proof (Z.div_mod (ZN S' + 4 * ZN V') (ZN RD) ltac:(lia)) as D. pose proof (Z.mod_pos_bound (ZN S' + 4 * ZN V') (ZN RD) ltac:(lia)) as L.
    pose proof (Inv_final (ZN S') (ZN V') es' ev' ((ZN S' + 4 * ZN V') / ZN RD) I' ltac:(subst es'; lia) ltac:(subst ev'; lia)
                  ltac:(lia) ltac:(lia) ltac:(lia)) as F.
    assert (MONO : (ZN S' + 4 * ZN V') / ZN RD <= ZN RTO / ZN RD) by (apply Z.div_le_mono; subst RTO; lia).
    set (q1 := (ZN S' + 4 * ZN V') / ZN RD) in *. set (q2 := ZN RTO / ZN RD) in *. clearbody q1 q2. clear D L.
    unfold P45, E1 in *. lia.
  Qed.

  Definition fresh (st:rtt_calc) : Prop := rc_srtt st = 0%N /\ rc_gran st = gran /\ rc_rto st = rto.

  Lemma run_good rs : forall st est, (forall r, In r rs -> (LO <= r <= HI)%N) -> good st est -> good (run st rs) (ref_run est rs).
  Proof.
    induction rs as [|r rs IH]; intros st est Hrs G; [exact G|].
    cbn [run ref_run fold_left map]. apply IH; [intros; apply Hrs; right; assumption|].
    apply good_step; [apply Hrs; left; reflexivity|exact G].
  Qed.

  Theorem global_generic rs : (forall r, In r rs -> (LO <= r <= HI)%N) ->
    within_tol RD AB (fx (rc_rto (run (rtt_new rto gran) rs))) (rfc6298_rto c (ref_run None rs)) = true.
  Proof.
    intros Hrs. destruct rs as [|r rs].
    - cbn. rewrite Hrto. apply tol_Z. assert (0 <= ZN (fx rto) / ZN RD) by (apply Z.div_pos; lia). lia.
    - cbn [run ref_run fold_left map].
      assert (G : good (rtt_update (rtt_new rto gran) r) (rfc6298_update None (fx r))).
      { apply good_first; [apply Hrs; left; reflexivity|reflexivity|reflexivity]. }
      destruct (run_good rs _ _ ltac:(intros; apply Hrs; right; assumption) G) as (S & V & E & _ & _ & _ & T).
      exact T.
  Qed.

  Definition inv_ops (st:rtt_calc) (est:option (N * N)) : Prop :=
    rc_conf st = rto /\ rc_gran st = gran /\ ((rc_srtt st = 0%N /\ rc_rto st = rto /\ est = None) \/ good st est).
  Lemma inv_ops_step st est o : eop_ok LO HI o -> inv_ops st est -> inv_ops (eop_model st o) (eop_ref est o).
  Proof.
    intros Ho (HC & HG & D). destruct o as [r|]; cbn [eop_model eop_ref eop_ok] in *.
    - assert (HC' : rc_conf (rtt_update st r) = rto) by (unfold rtt_update; destruct (rc_srtt st =? 0)%N; exact HC).
      assert (HG' : rc_gran (rtt_update st r) = gran) by (unfold rtt_update; destruct (rc_srtt st =? 0)%N; exact HG).
      split; [exact HC'|]. split; [exact HG'|]. right. destruct D as [(H0 & _ & ->)|G].
      + apply good_first; assumption.
      + apply good_step; assumption.
    - split; [exact HC|]. split; [exact HG|]. left. cbn. repeat split. exact HC.
  Qed.
  Lemma inv_ops_tol st est : inv_ops st est -> within_tol RD AB (fx (rc_rto st)) (rfc6298_rto c est) = true.
  Proof.
    intros (_ & _ & [(_ & HR & ->)|(S & V & _ & _ & _ & _ & T)]); [|exact T].
    cbn [rfc6298_rto]. rewrite HR, Hrto. apply tol_Z. assert (0 <= ZN (fx rto) / ZN RD) by (apply Z.div_pos; lia). lia.
  Qed.
  Theorem global_generic_ops os : Forall (eop_ok LO HI) os ->
    within_tol RD AB (fx (rc_rto (run_ops (rtt_new rto gran) os))) (rfc6298_rto c (ref_ops None os)) = true.
  Proof.
    intros Hos. apply inv_ops_tol.
    assert (I0 : inv_ops (rtt_new rto gran) None) by (split; [reflexivity|]; split; [reflexivity|]; left; repeat split).
    unfold run_ops, ref_ops. generalize dependent (rtt_new rto gran). generalize (@None (N * N)).
    induction Hos as [|o os Ho Hos IH]; intros est st I; [exact I|].
    cbn [fold_left]. apply IH. apply inv_ops_step; assumption.
  Qed.
End Global.
Print Assumptions global_generic. Print Assumptions global_generic_ops.

(* ---- Stage 4, first instance: constant error bounds.  For samples of 1 ms .. 70 ms the errors of srtt and rttvar stay
   below B0, C0 (about 142 ns and 213 ns) whatever the sequence. *)
Definition crude_B0 : Z := 9274313.
Definition crude_C0 : Z := 13911474.
Definition crude_Inv (S V es ev:Z) : Prop :=
  65536 * 1000000 <= S <= 65536 * 70000000 /\ 0 <= V <= 65536 * 70000000 /\ es <= crude_B0 /\ ev <= crude_C0.

Theorem global_1ms_70ms c rto gran rs : cc_gran c = gran -> cc_rto c = rto ->
  (forall r, In r rs -> (1000000 <= r <= 70000000)%N) ->
  within_tolerance (fx (rc_rto (run (rtt_new rto gran) rs))) (rfc6298_rto c (ref_run None rs)) = true.
Proof.
  intros HG HR. rewrite within_tolerance_std. apply (global_generic 1000000 70000000 100000 1000 ltac:(lia) ltac:(lia) ltac:(lia) crude_Inv); try assumption.
  - intros r Hr. unfold crude_Inv, crude_B0, crude_C0. lia.
  - unfold crude_Inv. intros. lia.
  - unfold crude_Inv, crude_B0, crude_C0, P45, E1. intros S V es ev r S' V' es' ev' (HS & HV & He & Hv) Hr. intros. lia.
  - unfold crude_Inv, crude_B0, crude_C0, P45, E1. intros S V es ev T (HS & HV & He & Hv). change (ZN 100000) with 100000. change (ZN 1000) with 1000. intros. lia.
Qed.
Print Assumptions global_1ms_70ms.
(* ---- Stage 4, second instance: samples of 1 ms .. 650 ms, the tolerance of the property.
   The invariant is a polyhedron: the box of the reference state and about a hundred inequalities
     tmpl A B C D K S V es ev :  A es + B ev <= C S + D V + K        (units 2^-16 ns)
   between the error bounds es, ev and the reference state S (SRTT), V (RTTVAR).  The coefficients were found outside
   Coq (template polyhedra, descending Kleene iteration with a small LP solver, every iterate a post-fixpoint); nothing
   of that is trusted: each inequality is shown here to be preserved by the recurrences of Stage 3 (one lemma
   invXXX_step_i per inequality, the hypotheses are the few inequalities its LP certificate uses), to hold initially
   and, the last one, to imply the tolerance; all by lia. *)
Definition tmpl (A B C D K S V es ev : Z) : Prop := A * es + B * ev <= C * S + D * V + K.
Lemma tmpl_mono A B C D K S V es ev es' ev' : 0 <= A -> 0 <= B -> tmpl A B C D K S V es ev -> es' <= es -> ev' <= ev -> tmpl A B C D K S V es' ev'.
Proof. unfold tmpl. intros. nia. Qed.
Definition Inv1ms_650ms (S V es ev : Z) : Prop :=
  (((((((65536000000 <= S <= 42598400000000) /\ ((0 <= V <= 42598400000000) /\ (tmpl 0 0 8388609 (-16777218) 428274587473769332736 S V es ev))) /\ ((tmpl 0 0 8388609 (-8388609) 106665569490615615488 S V es ev) /\ ((tmpl 0 0 16777218 (-8388609) (-820022133117572608) S V es ev) /\ (tmpl 35184372088832 0 0 0 2877466508466800033792 S V es ev)))) /\ (((tmpl 35184372088832 0 16777218 0 2242070879954330976256 S V es ev) /\ ((tmpl 35184372088832 0 33554436 0 1747629895245335887872 S V es ev) /\ (tmpl 35184372088832 0 33554436 33554436 1448446765830788612096 S V es ev))) /\ (((tmpl 35184372088832 0 50331654 0 1362820312732891873280 S V es ev) /\ (tmpl 35184372088832 0 50331654 33554436 884316247817185263616 S V es ev)) /\ ((tmpl 35184372088832 0 50331654 67108872 784814967622404538368 S V es ev) /\ (tmpl 35184372088832 0 67108872 0 1063279915641196904448 S V es ev))))) /\ ((((tmpl 35184372088832 0 67108872 33554436 543327771809921695744 S V es ev) /\ ((tmpl 35184372088832 0 67108872 67108872 371471404283206434816 S V es ev) /\ (tmpl 35184372088832 0 67108872 134217744 259344637613773324288 S V es ev))) /\ (((tmpl 35184372088832 0 83886090 0 830061870981077401600 S V es ev) /\ (tmpl 35184372088832 0 83886090 33554436 377747762373070553088 S V es ev)) /\ ((tmpl 35184372088832 0 83886090 67108872 231317784994332377088 S V es ev) /\ (tmpl 35184372088832 0 100663308 0 648435995597280378880 S V es ev)))) /\ (((tmpl 35184372088832 0 100663308 33554436 282387936667814559744 S V es ev) /\ ((tmpl 35184372088832 0 117440526 0 506965019255741546496 S V es ev) /\ (tmpl 35184372088832 0 134217744 0 396801676538495565824 S V es ev))) /\ (((tmpl 35184372088832 0 150994962 0 311159808483668262912 S V es ev) /\ (tmpl 35184372088832 0 167772180 0 244907030504182710272 S V es ev)) /\ ((tmpl 35184372088832 0 184549398 0 194216237623767859200 S V es ev) /\ (tmpl 35184372088832 0 201326616 0 156220244632019927040 S V es ev)))))) /\ (((((tmpl 35184372088832 0 218103834 0 128656189891172794368 S V es ev) /\ ((tmpl 35184372088832 0 234881052 0 109549387852147228672 S V es ev) /\ (tmpl 35184372088832 0 251658270 0 97020472845708066816 S V es ev))) /\ (((tmpl 35184372088832 0 268435488 0 89264210019393830912 S V es ev) /\ (tmpl 35184372088832 0 285212706 0 84661829373195763712 S V es ev)) /\ ((tmpl 35184372088832 0 301989924 0 81921442140255387648 S V es ev) /\ (tmpl 35184372088832 0 318767142 0 80147688121855311872 S V es ev)))) /\ (((tmpl 35184372088832 0 335544360 0 78808924128540590080 S V es ev) /\ ((tmpl 35184372088832 0 352321578 0 77637392062984503296 S V es ev) /\ (tmpl 35184372088832 0 369098796 0 76519886598574407680 S V es ev))) /\ (((tmpl 35184372088832 0 385876014 0 75416749541786271744 S V es ev) /\ (tmpl 35184372088832 0 402653232 0 74316672446288396288 S V es ev)) /\ ((tmpl 35184372088832 0 419430450 0 73217096710393970688 S V es ev) /\ (tmpl 35184372088832 0 436207668 0 72117580279886151680 S V es ev))))) /\ ((((tmpl 35184372088832 0 452984886 0 71018068355903430656 S V es ev) /\ ((tmpl 0 35184372088832 0 0 4282236851683024437248 S V es ev) /\ (tmpl 0 35184372088832 33554436 67108872 1955129539045752307712 S V es ev))) /\ (((tmpl 0 35184372088832 67108872 0 2658854277084935618560 S V es ev) /\ (tmpl 0 35184372088832 67108872 33554436 1784664598824412512256 S V es ev)) /\ ((tmpl 0 35184372088832 67108872 67108872 1326611854677505474560 S V es ev) /\ (tmpl 0 35184372088832 67108872 134217744 906708345435608186880 S V es ev)))) /\ (((tmpl 0 35184372088832 100663308 0 2139639364575292293120 S V es ev) /\ ((tmpl 0 35184372088832 100663308 33554436 1426538923632010985472 S V es ev) /\ (tmpl 0 35184372088832 100663308 67108872 987585203811506847744 S V es ev))) /\ (((tmpl 0 35184372088832 100663308 134217744 607345837593670189056 S V es ev) /\ (tmpl 0 35184372088832 134217744 0 1737318176066754314240 S V es ev)) /\ ((tmpl 0 35184372088832 134217744 33554436 1139588593549370982400 S V es ev) /\ (tmpl 0 35184372088832 134217744 67108872 751017339520276234240 S V es ev))))))) /\ ((((((tmpl 0 35184372088832 167772180 0 1402604387814047744000 S V es ev) /\ ((tmpl 0 35184372088832 167772180 33554436 908406956580349804544 S V es ev) /\ (tmpl 0 35184372088832 201326616 0 1127104461815666180096 S V es ev))) /\ ((tmpl 0 35184372088832 201326616 33554436 722638423548835921920 S V es ev) /\ ((tmpl 0 35184372088832 234881052 0 901471410949965086720 S V es ev) /\ (tmpl 0 35184372088832 234881052 33554436 574028143779768369152 S V es ev)))) /\ (((tmpl 0 35184372088832 268435488 0 717737541419268571136 S V es ev) /\ ((tmpl 0 35184372088832 268435488 33554436 456299672223065178112 S V es ev) /\ (tmpl 0 35184372088832 301989924 0 569875734304903790592 S V es ev))) /\ (((tmpl 0 35184372088832 301989924 33554436 364552820924801351680 S V es ev) /\ (tmpl 0 35184372088832 335544360 0 452423358065647812608 S V es ev)) /\ ((tmpl 0 35184372088832 335544360 33554436 294874422449291460608 S V es ev) /\ (tmpl 0 35184372088832 369098796 0 360778367777643954176 S V es ev))))) /\ ((((tmpl 0 35184372088832 369098796 33554436 243907534057014951936 S V es ev) /\ ((tmpl 0 35184372088832 402653232 0 291137308515245064192 S V es ev) /\ (tmpl 0 35184372088832 402653232 33554436 208435982955420975104 S V es ev))) /\ (((tmpl 0 35184372088832 436207668 0 240183854349014925312 S V es ev) /\ (tmpl 0 35184372088832 436207668 33554436 185159205075422085120 S V es ev)) /\ ((tmpl 0 35184372088832 469762104 0 204716958348242845696 S V es ev) /\ (tmpl 0 35184372088832 469762104 33554436 170763984455168884736 S V es ev)))) /\ (((tmpl 0 35184372088832 503316540 0 181441695158893707264 S V es ev) /\ ((tmpl 0 35184372088832 503316540 33554436 162221201110067380224 S V es ev) /\ (tmpl 0 35184372088832 536870976 0 167046923660688719872 S V es ev))) /\ (((tmpl 0 35184372088832 536870976 33554436 157103048667699937280 S V es ev) /\ (tmpl 0 35184372088832 570425412 0 158504257619315851264 S V es ev)) /\ ((tmpl 0 35184372088832 570425412 33554436 153735604770786869248 S V es ev) /\ (tmpl 0 35184372088832 603979848 0 153386130954277552128 S V es ev)))))) /\ (((((tmpl 0 35184372088832 603979848 33554436 151137538017572749312 S V es ev) /\ ((tmpl 0 35184372088832 637534284 0 150018691316956856320 S V es ev) /\ (tmpl 0 35184372088832 637534284 33554436 148859164029440819200 S V es ev))) /\ (((tmpl 35184372088832 140737521909764 0 0 19961800606591941083136 S V es ev) /\ (tmpl 35184372088832 140737521909764 0 33554436 18577583936621525336064 S V es ev)) /\ ((tmpl 35184372088832 140737521909764 0 67108872 17539421426070543400960 S V es ev) /\ (tmpl 109951162777600000 439804755968012500 274877906944 0 53663721722736790732800000 S V es ev)))) /\ (((tmpl 109951162777600000 439804755968012500 274877906944 104857612500 49633710230215177011200000 S V es ev) /\ ((tmpl 109951162777600000 439804755968012500 274877906944 209715225000 45797896959514135756800000 S V es ev) /\ (tmpl 109951162777600000 439804755968012500 274877906944 419430450000 41013520526806443622400000 S V es ev))) /\ (((tmpl 109951162777600000 439804755968012500 549755813888 0 46668960995399617740800000 S V es ev) /\ (tmpl 109951162777600000 439804755968012500 549755813888 104857612500 43002903509903232204800000 S V es ev)) /\ ((tmpl 109951162777600000 439804755968012500 549755813888 209715225000 39510810225110614016000000 S V es ev) /\ (tmpl 109951162777600000 439804755968012500 549755813888 419430450000 33836225968747675648000000 S V es ev))))) /\ ((((tmpl 109951162777600000 439804755968012500 549755813888 838860900000 28834154544893611212800000 S V es ev) /\ ((tmpl 109951162777600000 439804755968012500 824633720832 0 40721307459685842944000000 S V es ev) /\ (tmpl 109951162777600000 439804755968012500 824633720832 104857612500 37420548261335747788800000 S V es ev))) /\ (((tmpl 109951162777600000 439804755968012500 824633720832 209715225000 34272912017916585574400000 S V es ev) /\ (tmpl 109951162777600000 439804755968012500 824633720832 419430450000 28816759000248129945600000 S V es ev)) /\ ((tmpl 109951162777600000 439804755968012500 824633720832 1677721800000 17441674136722066636800000 S V es ev) /\ (tmpl 109951162777600000 439804755968012500 1099511627776 0 35627314248538954137600000 S V es ev)))) /\ (((tmpl 109951162777600000 439804755968012500 1099511627776 104857612500 32667584955783308902400000 S V es ev) /\ ((tmpl 109951162777600000 439804755968012500 1099511627776 209715225000 29849675298388167884800000 S V es ev) /\ (tmpl 109951162777600000 439804755968012500 1099511627776 419430450000 24913354653544303820800000 S V es ev))) /\ (((tmpl 109951162777600000 439804755968012500 1099511627776 838860900000 18743529067647379046400000 S V es ev) /\ (tmpl 109951162777600000 439804755968012500 1099511627776 1677721800000 12725096578756435968000000 S V es ev)) /\ ((tmpl 109951162777600000 439804755968012500 1099511627776 3355443600000 8282118462508079513600000 S V es ev) /\ (tmpl 109951162777600000 439804755968012500 1099511627776 4293188898604 6884438688374521856000000 S V es ev)))))))).
Lemma inv1ms_650ms_step_4 S V es ev r S' V' es' ev' :
  65536000000 <= S <= 42598400000000 -> 0 <= V <= 42598400000000 ->

  tmpl 0 0 8388609 (-16777218) 428274587473769332736 S V es ev ->
  tmpl 0 0 8388609 (-8388609) 106665569490615615488 S V es ev ->
  1000000 <= r <= 650000000 -> 0 <= es -> 0 <= ev ->
  8 * S' <= 7 * S + 65536 * r < 8 * S' + 8 ->
  4 * V' <= 3 * V + Z.abs (S - 65536 * r) < 4 * V' + 4 ->
  0 <= es' -> 8 * P45 * es' <= 7 * (P45 + E1) * es + E1 * (7 * S + 65536 * r) + 8 * P45 * (65536 + 1) ->
  0 <= ev' -> 4 * P45 * ev' <= 3 * (P45 + E1) * ev + (P45 + E1) * es + E1 * (3 * V + Z.abs (S - 65536 * r)) + 4 * P45 * (65536 + 1) ->
  tmpl 0 0 8388609 (-16777218) 428274587473769332736 S' V' es' ev'.
Proof. unfold tmpl, P45, E1. intros. lia. Qed.
Lemma inv1ms_650ms_step_5 S V es ev r S' V' es' ev' :
  65536000000 <= S <= 42598400000000 -> 0 <= V <= 42598400000000 ->

  tmpl 0 0 8388609 (-16777218) 428274587473769332736 S V es ev ->
  tmpl 0 0 8388609 (-8388609) 106665569490615615488 S V es ev ->
  tmpl 0 0 16777218 (-8388609) (-820022133117572608) S V es ev ->
  1000000 <= r <= 650000000 -> 0 <= es -> 0 <= ev ->
  8 * S' <= 7 * S + 65536 * r < 8 * S' + 8 ->
  4 * V' <= 3 * V + Z.abs (S - 65536 * r) < 4 * V' + 4 ->
  0 <= es' -> 8 * P45 * es' <= 7 * (P45 + E1) * es + E1 * (7 * S + 65536 * r) + 8 * P45 * (65536 + 1) ->
  0 <= ev' -> 4 * P45 * ev' <= 3 * (P45 + E1) * ev + (P45 + E1) * es + E1 * (3 * V + Z.abs (S - 65536 * r)) + 4 * P45 * (65536 + 1) ->
  tmpl 0 0 8388609 (-8388609) 106665569490615615488 S' V' es' ev'.
Proof. unfold tmpl, P45, E1. intros. lia. Qed.
Lemma inv1ms_650ms_step_6 S V es ev r S' V' es' ev' :
  65536000000 <= S <= 42598400000000 -> 0 <= V <= 42598400000000 ->

  tmpl 0 0 16777218 (-8388609) (-820022133117572608) S V es ev ->
  1000000 <= r <= 650000000 -> 0 <= es -> 0 <= ev ->
  8 * S' <= 7 * S + 65536 * r < 8 * S' + 8 ->
  4 * V' <= 3 * V + Z.abs (S - 65536 * r) < 4 * V' + 4 ->
  0 <= es' -> 8 * P45 * es' <= 7 * (P45 + E1) * es + E1 * (7 * S + 65536 * r) + 8 * P45 * (65536 + 1) ->
  0 <= ev' -> 4 * P45 * ev' <= 3 * (P45 + E1) * ev + (P45 + E1) * es + E1 * (3 * V + Z.abs (S - 65536 * r)) + 4 * P45 * (65536 + 1) ->
  tmpl 0 0 16777218 (-8388609) (-820022133117572608) S' V' es' ev'.
Proof. unfold tmpl, P45, E1. intros. lia. Qed.
Lemma inv1ms_650ms_step_7 S V es ev r S' V' es' ev' :
  65536000000 <= S <= 42598400000000 -> 0 <= V <= 42598400000000 ->

  tmpl 35184372088832 0 0 0 2877466508466800033792 S V es ev ->
  1000000 <= r <= 650000000 -> 0 <= es -> 0 <= ev ->
  8 * S' <= 7 * S + 65536 * r < 8 * S' + 8 ->
  4 * V' <= 3 * V + Z.abs (S - 65536 * r) < 4 * V' + 4 ->
  0 <= es' -> 8 * P45 * es' <= 7 * (P45 + E1) * es + E1 * (7 * S + 65536 * r) + 8 * P45 * (65536 + 1) ->
  0 <= ev' -> 4 * P45 * ev' <= 3 * (P45 + E1) * ev + (P45 + E1) * es + E1 * (3 * V + Z.abs (S - 65536 * r)) + 4 * P45 * (65536 + 1) ->
  tmpl 35184372088832 0 0 0 2877466508466800033792 S' V' es' ev'.
Proof. unfold tmpl, P45, E1. intros. lia. Qed.
Lemma inv1ms_650ms_step_8 S V es ev r S' V' es' ev' :
  65536000000 <= S <= 42598400000000 -> 0 <= V <= 42598400000000 ->

  tmpl 35184372088832 0 0 0 2877466508466800033792 S V es ev ->
  tmpl 35184372088832 0 16777218 0 2242070879954330976256 S V es ev ->
  1000000 <= r <= 650000000 -> 0 <= es -> 0 <= ev ->
  8 * S' <= 7 * S + 65536 * r < 8 * S' + 8 ->
  4 * V' <= 3 * V + Z.abs (S - 65536 * r) < 4 * V' + 4 ->
  0 <= es' -> 8 * P45 * es' <= 7 * (P45 + E1) * es + E1 * (7 * S + 65536 * r) + 8 * P45 * (65536 + 1) ->
  0 <= ev' -> 4 * P45 * ev' <= 3 * (P45 + E1) * ev + (P45 + E1) * es + E1 * (3 * V + Z.abs (S - 65536 * r)) + 4 * P45 * (65536 + 1) ->
  tmpl 35184372088832 0 16777218 0 2242070879954330976256 S' V' es' ev'.
Proof. unfold tmpl, P45, E1. intros. lia. Qed.
Lemma inv1ms_650ms_step_9 S V es ev r S' V' es' ev' :
  65536000000 <= S <= 42598400000000 -> 0 <= V <= 42598400000000 ->

  tmpl 35184372088832 0 16777218 0 2242070879954330976256 S V es ev ->
  tmpl 35184372088832 0 33554436 0 1747629895245335887872 S V es ev ->
  1000000 <= r <= 650000000 -> 0 <= es -> 0 <= ev ->
  8 * S' <= 7 * S + 65536 * r < 8 * S' + 8 ->
  4 * V' <= 3 * V + Z.abs (S - 65536 * r) < 4 * V' + 4 ->
  0 <= es' -> 8 * P45 * es' <= 7 * (P45 + E1) * es + E1 * (7 * S + 65536 * r) + 8 * P45 * (65536 + 1) ->
  0 <= ev' -> 4 * P45 * ev' <= 3 * (P45 + E1) * ev + (P45 + E1) * es + E1 * (3 * V + Z.abs (S - 65536 * r)) + 4 * P45 * (65536 + 1) ->
  tmpl 35184372088832 0 33554436 0 1747629895245335887872 S' V' es' ev'.
Proof. unfold tmpl, P45, E1. intros. lia. Qed.
Lemma inv1ms_650ms_step_10 S V es ev r S' V' es' ev' :
  65536000000 <= S <= 42598400000000 -> 0 <= V <= 42598400000000 ->

  tmpl 35184372088832 0 0 0 2877466508466800033792 S V es ev ->
  tmpl 35184372088832 0 33554436 33554436 1448446765830788612096 S V es ev ->
  1000000 <= r <= 650000000 -> 0 <= es -> 0 <= ev ->
  8 * S' <= 7 * S + 65536 * r < 8 * S' + 8 ->
  4 * V' <= 3 * V + Z.abs (S - 65536 * r) < 4 * V' + 4 ->
  0 <= es' -> 8 * P45 * es' <= 7 * (P45 + E1) * es + E1 * (7 * S + 65536 * r) + 8 * P45 * (65536 + 1) ->
  0 <= ev' -> 4 * P45 * ev' <= 3 * (P45 + E1) * ev + (P45 + E1) * es + E1 * (3 * V + Z.abs (S - 65536 * r)) + 4 * P45 * (65536 + 1) ->
  tmpl 35184372088832 0 33554436 33554436 1448446765830788612096 S' V' es' ev'.
Proof. unfold tmpl, P45, E1. intros. lia. Qed.
Lemma inv1ms_650ms_step_11 S V es ev r S' V' es' ev' :
  65536000000 <= S <= 42598400000000 -> 0 <= V <= 42598400000000 ->

  tmpl 35184372088832 0 33554436 0 1747629895245335887872 S V es ev ->
  tmpl 35184372088832 0 50331654 0 1362820312732891873280 S V es ev ->
  1000000 <= r <= 650000000 -> 0 <= es -> 0 <= ev ->
  8 * S' <= 7 * S + 65536 * r < 8 * S' + 8 ->
  4 * V' <= 3 * V + Z.abs (S - 65536 * r) < 4 * V' + 4 ->
  0 <= es' -> 8 * P45 * es' <= 7 * (P45 + E1) * es + E1 * (7 * S + 65536 * r) + 8 * P45 * (65536 + 1) ->
  0 <= ev' -> 4 * P45 * ev' <= 3 * (P45 + E1) * ev + (P45 + E1) * es + E1 * (3 * V + Z.abs (S - 65536 * r)) + 4 * P45 * (65536 + 1) ->
  tmpl 35184372088832 0 50331654 0 1362820312732891873280 S' V' es' ev'.
Proof. unfold tmpl, P45, E1. intros. lia. Qed.
Lemma inv1ms_650ms_step_12 S V es ev r S' V' es' ev' :
  65536000000 <= S <= 42598400000000 -> 0 <= V <= 42598400000000 ->

  tmpl 35184372088832 0 16777218 0 2242070879954330976256 S V es ev ->
  tmpl 35184372088832 0 33554436 0 1747629895245335887872 S V es ev ->
  tmpl 35184372088832 0 50331654 33554436 884316247817185263616 S V es ev ->
  1000000 <= r <= 650000000 -> 0 <= es -> 0 <= ev ->
  8 * S' <= 7 * S + 65536 * r < 8 * S' + 8 ->
  4 * V' <= 3 * V + Z.abs (S - 65536 * r) < 4 * V' + 4 ->
  0 <= es' -> 8 * P45 * es' <= 7 * (P45 + E1) * es + E1 * (7 * S + 65536 * r) + 8 * P45 * (65536 + 1) ->
  0 <= ev' -> 4 * P45 * ev' <= 3 * (P45 + E1) * ev + (P45 + E1) * es + E1 * (3 * V + Z.abs (S - 65536 * r)) + 4 * P45 * (65536 + 1) ->
  tmpl 35184372088832 0 50331654 33554436 884316247817185263616 S' V' es' ev'.
Proof. unfold tmpl, P45, E1. intros. lia. Qed.
Lemma inv1ms_650ms_step_13 S V es ev r S' V' es' ev' :
  65536000000 <= S <= 42598400000000 -> 0 <= V <= 42598400000000 ->

  tmpl 35184372088832 0 33554436 33554436 1448446765830788612096 S V es ev ->
  tmpl 35184372088832 0 50331654 33554436 884316247817185263616 S V es ev ->
  tmpl 35184372088832 0 50331654 67108872 784814967622404538368 S V es ev ->
  1000000 <= r <= 650000000 -> 0 <= es -> 0 <= ev ->
  8 * S' <= 7 * S + 65536 * r < 8 * S' + 8 ->
  4 * V' <= 3 * V + Z.abs (S - 65536 * r) < 4 * V' + 4 ->
  0 <= es' -> 8 * P45 * es' <= 7 * (P45 + E1) * es + E1 * (7 * S + 65536 * r) + 8 * P45 * (65536 + 1) ->
  0 <= ev' -> 4 * P45 * ev' <= 3 * (P45 + E1) * ev + (P45 + E1) * es + E1 * (3 * V + Z.abs (S - 65536 * r)) + 4 * P45 * (65536 + 1) ->
  tmpl 35184372088832 0 50331654 67108872 784814967622404538368 S' V' es' ev'.
Proof. unfold tmpl, P45, E1. intros. lia. Qed.
Lemma inv1ms_650ms_step_14 S V es ev r S' V' es' ev' :
  65536000000 <= S <= 42598400000000 -> 0 <= V <= 42598400000000 ->

  tmpl 35184372088832 0 50331654 0 1362820312732891873280 S V es ev ->
  tmpl 35184372088832 0 67108872 0 1063279915641196904448 S V es ev ->
  1000000 <= r <= 650000000 -> 0 <= es -> 0 <= ev ->
  8 * S' <= 7 * S + 65536 * r < 8 * S' + 8 ->
  4 * V' <= 3 * V + Z.abs (S - 65536 * r) < 4 * V' + 4 ->
  0 <= es' -> 8 * P45 * es' <= 7 * (P45 + E1) * es + E1 * (7 * S + 65536 * r) + 8 * P45 * (65536 + 1) ->
  0 <= ev' -> 4 * P45 * ev' <= 3 * (P45 + E1) * ev + (P45 + E1) * es + E1 * (3 * V + Z.abs (S - 65536 * r)) + 4 * P45 * (65536 + 1) ->
  tmpl 35184372088832 0 67108872 0 1063279915641196904448 S' V' es' ev'.
Proof. unfold tmpl, P45, E1. intros. lia. Qed.
Lemma inv1ms_650ms_step_15 S V es ev r S' V' es' ev' :
  65536000000 <= S <= 42598400000000 -> 0 <= V <= 42598400000000 ->

  tmpl 35184372088832 0 50331654 0 1362820312732891873280 S V es ev ->
  tmpl 35184372088832 0 67108872 0 1063279915641196904448 S V es ev ->
  tmpl 35184372088832 0 67108872 33554436 543327771809921695744 S V es ev ->
  1000000 <= r <= 650000000 -> 0 <= es -> 0 <= ev ->
  8 * S' <= 7 * S + 65536 * r < 8 * S' + 8 ->
  4 * V' <= 3 * V + Z.abs (S - 65536 * r) < 4 * V' + 4 ->
  0 <= es' -> 8 * P45 * es' <= 7 * (P45 + E1) * es + E1 * (7 * S + 65536 * r) + 8 * P45 * (65536 + 1) ->
  0 <= ev' -> 4 * P45 * ev' <= 3 * (P45 + E1) * ev + (P45 + E1) * es + E1 * (3 * V + Z.abs (S - 65536 * r)) + 4 * P45 * (65536 + 1) ->
  tmpl 35184372088832 0 67108872 33554436 543327771809921695744 S' V' es' ev'.
Proof. unfold tmpl, P45, E1. intros. lia. Qed.
Lemma inv1ms_650ms_step_16 S V es ev r S' V' es' ev' :
  65536000000 <= S <= 42598400000000 -> 0 <= V <= 42598400000000 ->

  tmpl 35184372088832 0 50331654 33554436 884316247817185263616 S V es ev ->
  tmpl 35184372088832 0 67108872 33554436 543327771809921695744 S V es ev ->
  tmpl 35184372088832 0 67108872 67108872 371471404283206434816 S V es ev ->
  1000000 <= r <= 650000000 -> 0 <= es -> 0 <= ev ->
  8 * S' <= 7 * S + 65536 * r < 8 * S' + 8 ->
  4 * V' <= 3 * V + Z.abs (S - 65536 * r) < 4 * V' + 4 ->
  0 <= es' -> 8 * P45 * es' <= 7 * (P45 + E1) * es + E1 * (7 * S + 65536 * r) + 8 * P45 * (65536 + 1) ->
  0 <= ev' -> 4 * P45 * ev' <= 3 * (P45 + E1) * ev + (P45 + E1) * es + E1 * (3 * V + Z.abs (S - 65536 * r)) + 4 * P45 * (65536 + 1) ->
  tmpl 35184372088832 0 67108872 67108872 371471404283206434816 S' V' es' ev'.
Proof. unfold tmpl, P45, E1. intros. lia. Qed.
Lemma inv1ms_650ms_step_17 S V es ev r S' V' es' ev' :
  65536000000 <= S <= 42598400000000 -> 0 <= V <= 42598400000000 ->

  tmpl 35184372088832 0 50331654 67108872 784814967622404538368 S V es ev ->
  tmpl 35184372088832 0 67108872 67108872 371471404283206434816 S V es ev ->
  tmpl 35184372088832 0 67108872 134217744 259344637613773324288 S V es ev ->
  1000000 <= r <= 650000000 -> 0 <= es -> 0 <= ev ->
  8 * S' <= 7 * S + 65536 * r < 8 * S' + 8 ->
  4 * V' <= 3 * V + Z.abs (S - 65536 * r) < 4 * V' + 4 ->
  0 <= es' -> 8 * P45 * es' <= 7 * (P45 + E1) * es + E1 * (7 * S + 65536 * r) + 8 * P45 * (65536 + 1) ->
  0 <= ev' -> 4 * P45 * ev' <= 3 * (P45 + E1) * ev + (P45 + E1) * es + E1 * (3 * V + Z.abs (S - 65536 * r)) + 4 * P45 * (65536 + 1) ->
  tmpl 35184372088832 0 67108872 134217744 259344637613773324288 S' V' es' ev'.
Proof. unfold tmpl, P45, E1. intros. lia. Qed.
Lemma inv1ms_650ms_step_18 S V es ev r S' V' es' ev' :
  65536000000 <= S <= 42598400000000 -> 0 <= V <= 42598400000000 ->

  tmpl 35184372088832 0 67108872 0 1063279915641196904448 S V es ev ->
  tmpl 35184372088832 0 83886090 0 830061870981077401600 S V es ev ->
  tmpl 35184372088832 0 100663308 0 648435995597280378880 S V es ev ->
  1000000 <= r <= 650000000 -> 0 <= es -> 0 <= ev ->
  8 * S' <= 7 * S + 65536 * r < 8 * S' + 8 ->
  4 * V' <= 3 * V + Z.abs (S - 65536 * r) < 4 * V' + 4 ->
  0 <= es' -> 8 * P45 * es' <= 7 * (P45 + E1) * es + E1 * (7 * S + 65536 * r) + 8 * P45 * (65536 + 1) ->
  0 <= ev' -> 4 * P45 * ev' <= 3 * (P45 + E1) * ev + (P45 + E1) * es + E1 * (3 * V + Z.abs (S - 65536 * r)) + 4 * P45 * (65536 + 1) ->
  tmpl 35184372088832 0 83886090 0 830061870981077401600 S' V' es' ev'.
Proof. unfold tmpl, P45, E1. intros. lia. Qed.
Lemma inv1ms_650ms_step_19 S V es ev r S' V' es' ev' :
  65536000000 <= S <= 42598400000000 -> 0 <= V <= 42598400000000 ->

  tmpl 35184372088832 0 67108872 33554436 543327771809921695744 S V es ev ->
  tmpl 35184372088832 0 83886090 33554436 377747762373070553088 S V es ev ->
  tmpl 35184372088832 0 100663308 0 648435995597280378880 S V es ev ->
  1000000 <= r <= 650000000 -> 0 <= es -> 0 <= ev ->
  8 * S' <= 7 * S + 65536 * r < 8 * S' + 8 ->
  4 * V' <= 3 * V + Z.abs (S - 65536 * r) < 4 * V' + 4 ->
  0 <= es' -> 8 * P45 * es' <= 7 * (P45 + E1) * es + E1 * (7 * S + 65536 * r) + 8 * P45 * (65536 + 1) ->
  0 <= ev' -> 4 * P45 * ev' <= 3 * (P45 + E1) * ev + (P45 + E1) * es + E1 * (3 * V + Z.abs (S - 65536 * r)) + 4 * P45 * (65536 + 1) ->
  tmpl 35184372088832 0 83886090 33554436 377747762373070553088 S' V' es' ev'.
Proof. unfold tmpl, P45, E1. intros. lia. Qed.
Lemma inv1ms_650ms_step_20 S V es ev r S' V' es' ev' :
  65536000000 <= S <= 42598400000000 -> 0 <= V <= 42598400000000 ->

  tmpl 35184372088832 0 83886090 33554436 377747762373070553088 S V es ev ->
  tmpl 35184372088832 0 83886090 67108872 231317784994332377088 S V es ev ->
  tmpl 35184372088832 0 100663308 33554436 282387936667814559744 S V es ev ->
  1000000 <= r <= 650000000 -> 0 <= es -> 0 <= ev ->
  8 * S' <= 7 * S + 65536 * r < 8 * S' + 8 ->
  4 * V' <= 3 * V + Z.abs (S - 65536 * r) < 4 * V' + 4 ->
  0 <= es' -> 8 * P45 * es' <= 7 * (P45 + E1) * es + E1 * (7 * S + 65536 * r) + 8 * P45 * (65536 + 1) ->
  0 <= ev' -> 4 * P45 * ev' <= 3 * (P45 + E1) * ev + (P45 + E1) * es + E1 * (3 * V + Z.abs (S - 65536 * r)) + 4 * P45 * (65536 + 1) ->
  tmpl 35184372088832 0 83886090 67108872 231317784994332377088 S' V' es' ev'.
Proof. unfold tmpl, P45, E1. intros. lia. Qed.
Lemma inv1ms_650ms_step_21 S V es ev r S' V' es' ev' :
  65536000000 <= S <= 42598400000000 -> 0 <= V <= 42598400000000 ->

  tmpl 35184372088832 0 83886090 0 830061870981077401600 S V es ev ->
  tmpl 35184372088832 0 100663308 0 648435995597280378880 S V es ev ->
  tmpl 35184372088832 0 117440526 0 506965019255741546496 S V es ev ->
  1000000 <= r <= 650000000 -> 0 <= es -> 0 <= ev ->
  8 * S' <= 7 * S + 65536 * r < 8 * S' + 8 ->
  4 * V' <= 3 * V + Z.abs (S - 65536 * r) < 4 * V' + 4 ->
  0 <= es' -> 8 * P45 * es' <= 7 * (P45 + E1) * es + E1 * (7 * S + 65536 * r) + 8 * P45 * (65536 + 1) ->
  0 <= ev' -> 4 * P45 * ev' <= 3 * (P45 + E1) * ev + (P45 + E1) * es + E1 * (3 * V + Z.abs (S - 65536 * r)) + 4 * P45 * (65536 + 1) ->
  tmpl 35184372088832 0 100663308 0 648435995597280378880 S' V' es' ev'.
Proof. unfold tmpl, P45, E1. intros. lia. Qed.
Lemma inv1ms_650ms_step_22 S V es ev r S' V' es' ev' :
  65536000000 <= S <= 42598400000000 -> 0 <= V <= 42598400000000 ->

  tmpl 35184372088832 0 83886090 33554436 377747762373070553088 S V es ev ->
  tmpl 35184372088832 0 100663308 33554436 282387936667814559744 S V es ev ->
  tmpl 35184372088832 0 134217744 0 396801676538495565824 S V es ev ->
  1000000 <= r <= 650000000 -> 0 <= es -> 0 <= ev ->
  8 * S' <= 7 * S + 65536 * r < 8 * S' + 8 ->
  4 * V' <= 3 * V + Z.abs (S - 65536 * r) < 4 * V' + 4 ->
  0 <= es' -> 8 * P45 * es' <= 7 * (P45 + E1) * es + E1 * (7 * S + 65536 * r) + 8 * P45 * (65536 + 1) ->
  0 <= ev' -> 4 * P45 * ev' <= 3 * (P45 + E1) * ev + (P45 + E1) * es + E1 * (3 * V + Z.abs (S - 65536 * r)) + 4 * P45 * (65536 + 1) ->
  tmpl 35184372088832 0 100663308 33554436 282387936667814559744 S' V' es' ev'.
Proof. unfold tmpl, P45, E1. intros. lia. Qed.
Lemma inv1ms_650ms_step_23 S V es ev r S' V' es' ev' :
  65536000000 <= S <= 42598400000000 -> 0 <= V <= 42598400000000 ->

  tmpl 35184372088832 0 100663308 0 648435995597280378880 S V es ev ->
  tmpl 35184372088832 0 117440526 0 506965019255741546496 S V es ev ->
  tmpl 35184372088832 0 134217744 0 396801676538495565824 S V es ev ->
  1000000 <= r <= 650000000 -> 0 <= es -> 0 <= ev ->
  8 * S' <= 7 * S + 65536 * r < 8 * S' + 8 ->
  4 * V' <= 3 * V + Z.abs (S - 65536 * r) < 4 * V' + 4 ->
  0 <= es' -> 8 * P45 * es' <= 7 * (P45 + E1) * es + E1 * (7 * S + 65536 * r) + 8 * P45 * (65536 + 1) ->
  0 <= ev' -> 4 * P45 * ev' <= 3 * (P45 + E1) * ev + (P45 + E1) * es + E1 * (3 * V + Z.abs (S - 65536 * r)) + 4 * P45 * (65536 + 1) ->
  tmpl 35184372088832 0 117440526 0 506965019255741546496 S' V' es' ev'.
Proof. unfold tmpl, P45, E1. intros. lia. Qed.
Lemma inv1ms_650ms_step_24 S V es ev r S' V' es' ev' :
  65536000000 <= S <= 42598400000000 -> 0 <= V <= 42598400000000 ->

  tmpl 35184372088832 0 117440526 0 506965019255741546496 S V es ev ->
  tmpl 35184372088832 0 134217744 0 396801676538495565824 S V es ev ->
  tmpl 35184372088832 0 150994962 0 311159808483668262912 S V es ev ->
  1000000 <= r <= 650000000 -> 0 <= es -> 0 <= ev ->
  8 * S' <= 7 * S + 65536 * r < 8 * S' + 8 ->
  4 * V' <= 3 * V + Z.abs (S - 65536 * r) < 4 * V' + 4 ->
  0 <= es' -> 8 * P45 * es' <= 7 * (P45 + E1) * es + E1 * (7 * S + 65536 * r) + 8 * P45 * (65536 + 1) ->
  0 <= ev' -> 4 * P45 * ev' <= 3 * (P45 + E1) * ev + (P45 + E1) * es + E1 * (3 * V + Z.abs (S - 65536 * r)) + 4 * P45 * (65536 + 1) ->
  tmpl 35184372088832 0 134217744 0 396801676538495565824 S' V' es' ev'.
Proof. unfold tmpl, P45, E1. intros. lia. Qed.
Lemma inv1ms_650ms_step_25 S V es ev r S' V' es' ev' :
  65536000000 <= S <= 42598400000000 -> 0 <= V <= 42598400000000 ->

  tmpl 35184372088832 0 134217744 0 396801676538495565824 S V es ev ->
  tmpl 35184372088832 0 150994962 0 311159808483668262912 S V es ev ->
  tmpl 35184372088832 0 167772180 0 244907030504182710272 S V es ev ->
  1000000 <= r <= 650000000 -> 0 <= es -> 0 <= ev ->
  8 * S' <= 7 * S + 65536 * r < 8 * S' + 8 ->
  4 * V' <= 3 * V + Z.abs (S - 65536 * r) < 4 * V' + 4 ->
  0 <= es' -> 8 * P45 * es' <= 7 * (P45 + E1) * es + E1 * (7 * S + 65536 * r) + 8 * P45 * (65536 + 1) ->
  0 <= ev' -> 4 * P45 * ev' <= 3 * (P45 + E1) * ev + (P45 + E1) * es + E1 * (3 * V + Z.abs (S - 65536 * r)) + 4 * P45 * (65536 + 1) ->
  tmpl 35184372088832 0 150994962 0 311159808483668262912 S' V' es' ev'.
Proof. unfold tmpl, P45, E1. intros. lia. Qed.
Lemma inv1ms_650ms_step_26 S V es ev r S' V' es' ev' :
  65536000000 <= S <= 42598400000000 -> 0 <= V <= 42598400000000 ->

  tmpl 35184372088832 0 150994962 0 311159808483668262912 S V es ev ->
  tmpl 35184372088832 0 167772180 0 244907030504182710272 S V es ev ->
  tmpl 35184372088832 0 184549398 0 194216237623767859200 S V es ev ->
  1000000 <= r <= 650000000 -> 0 <= es -> 0 <= ev ->
  8 * S' <= 7 * S + 65536 * r < 8 * S' + 8 ->
  4 * V' <= 3 * V + Z.abs (S - 65536 * r) < 4 * V' + 4 ->
  0 <= es' -> 8 * P45 * es' <= 7 * (P45 + E1) * es + E1 * (7 * S + 65536 * r) + 8 * P45 * (65536 + 1) ->
  0 <= ev' -> 4 * P45 * ev' <= 3 * (P45 + E1) * ev + (P45 + E1) * es + E1 * (3 * V + Z.abs (S - 65536 * r)) + 4 * P45 * (65536 + 1) ->
  tmpl 35184372088832 0 167772180 0 244907030504182710272 S' V' es' ev'.
Proof. unfold tmpl, P45, E1. intros. lia. Qed.
Lemma inv1ms_650ms_step_27 S V es ev r S' V' es' ev' :
  65536000000 <= S <= 42598400000000 -> 0 <= V <= 42598400000000 ->

  tmpl 35184372088832 0 167772180 0 244907030504182710272 S V es ev ->
  tmpl 35184372088832 0 184549398 0 194216237623767859200 S V es ev ->
  tmpl 35184372088832 0 201326616 0 156220244632019927040 S V es ev ->
  1000000 <= r <= 650000000 -> 0 <= es -> 0 <= ev ->
  8 * S' <= 7 * S + 65536 * r < 8 * S' + 8 ->
  4 * V' <= 3 * V + Z.abs (S - 65536 * r) < 4 * V' + 4 ->
  0 <= es' -> 8 * P45 * es' <= 7 * (P45 + E1) * es + E1 * (7 * S + 65536 * r) + 8 * P45 * (65536 + 1) ->
  0 <= ev' -> 4 * P45 * ev' <= 3 * (P45 + E1) * ev + (P45 + E1) * es + E1 * (3 * V + Z.abs (S - 65536 * r)) + 4 * P45 * (65536 + 1) ->
  tmpl 35184372088832 0 184549398 0 194216237623767859200 S' V' es' ev'.
Proof. unfold tmpl, P45, E1. intros. lia. Qed.
Lemma inv1ms_650ms_step_28 S V es ev r S' V' es' ev' :
  65536000000 <= S <= 42598400000000 -> 0 <= V <= 42598400000000 ->

  tmpl 35184372088832 0 184549398 0 194216237623767859200 S V es ev ->
  tmpl 35184372088832 0 201326616 0 156220244632019927040 S V es ev ->
  tmpl 35184372088832 0 218103834 0 128656189891172794368 S V es ev ->
  tmpl 35184372088832 0 234881052 0 109549387852147228672 S V es ev ->
  1000000 <= r <= 650000000 -> 0 <= es -> 0 <= ev ->
  8 * S' <= 7 * S + 65536 * r < 8 * S' + 8 ->
  4 * V' <= 3 * V + Z.abs (S - 65536 * r) < 4 * V' + 4 ->
  0 <= es' -> 8 * P45 * es' <= 7 * (P45 + E1) * es + E1 * (7 * S + 65536 * r) + 8 * P45 * (65536 + 1) ->
  0 <= ev' -> 4 * P45 * ev' <= 3 * (P45 + E1) * ev + (P45 + E1) * es + E1 * (3 * V + Z.abs (S - 65536 * r)) + 4 * P45 * (65536 + 1) ->
  tmpl 35184372088832 0 201326616 0 156220244632019927040 S' V' es' ev'.
Proof. unfold tmpl, P45, E1. intros. lia. Qed.
Lemma inv1ms_650ms_step_29 S V es ev r S' V' es' ev' :
  65536000000 <= S <= 42598400000000 -> 0 <= V <= 42598400000000 ->

  tmpl 35184372088832 0 201326616 0 156220244632019927040 S V es ev ->
  tmpl 35184372088832 0 218103834 0 128656189891172794368 S V es ev ->
  tmpl 35184372088832 0 234881052 0 109549387852147228672 S V es ev ->
  tmpl 35184372088832 0 251658270 0 97020472845708066816 S V es ev ->
  1000000 <= r <= 650000000 -> 0 <= es -> 0 <= ev ->
  8 * S' <= 7 * S + 65536 * r < 8 * S' + 8 ->
  4 * V' <= 3 * V + Z.abs (S - 65536 * r) < 4 * V' + 4 ->
  0 <= es' -> 8 * P45 * es' <= 7 * (P45 + E1) * es + E1 * (7 * S + 65536 * r) + 8 * P45 * (65536 + 1) ->
  0 <= ev' -> 4 * P45 * ev' <= 3 * (P45 + E1) * ev + (P45 + E1) * es + E1 * (3 * V + Z.abs (S - 65536 * r)) + 4 * P45 * (65536 + 1) ->
  tmpl 35184372088832 0 218103834 0 128656189891172794368 S' V' es' ev'.
Proof. unfold tmpl, P45, E1. intros. lia. Qed.
Lemma inv1ms_650ms_step_30 S V es ev r S' V' es' ev' :
  65536000000 <= S <= 42598400000000 -> 0 <= V <= 42598400000000 ->

  tmpl 35184372088832 0 218103834 0 128656189891172794368 S V es ev ->
  tmpl 35184372088832 0 234881052 0 109549387852147228672 S V es ev ->
  tmpl 35184372088832 0 251658270 0 97020472845708066816 S V es ev ->
  tmpl 35184372088832 0 268435488 0 89264210019393830912 S V es ev ->
  1000000 <= r <= 650000000 -> 0 <= es -> 0 <= ev ->
  8 * S' <= 7 * S + 65536 * r < 8 * S' + 8 ->
  4 * V' <= 3 * V + Z.abs (S - 65536 * r) < 4 * V' + 4 ->
  0 <= es' -> 8 * P45 * es' <= 7 * (P45 + E1) * es + E1 * (7 * S + 65536 * r) + 8 * P45 * (65536 + 1) ->
  0 <= ev' -> 4 * P45 * ev' <= 3 * (P45 + E1) * ev + (P45 + E1) * es + E1 * (3 * V + Z.abs (S - 65536 * r)) + 4 * P45 * (65536 + 1) ->
  tmpl 35184372088832 0 234881052 0 109549387852147228672 S' V' es' ev'.
Proof. unfold tmpl, P45, E1. intros. lia. Qed.
Lemma inv1ms_650ms_step_31 S V es ev r S' V' es' ev' :
  65536000000 <= S <= 42598400000000 -> 0 <= V <= 42598400000000 ->

  tmpl 35184372088832 0 234881052 0 109549387852147228672 S V es ev ->
  tmpl 35184372088832 0 251658270 0 97020472845708066816 S V es ev ->
  tmpl 35184372088832 0 268435488 0 89264210019393830912 S V es ev ->
  tmpl 35184372088832 0 285212706 0 84661829373195763712 S V es ev ->
  1000000 <= r <= 650000000 -> 0 <= es -> 0 <= ev ->
  8 * S' <= 7 * S + 65536 * r < 8 * S' + 8 ->
  4 * V' <= 3 * V + Z.abs (S - 65536 * r) < 4 * V' + 4 ->
  0 <= es' -> 8 * P45 * es' <= 7 * (P45 + E1) * es + E1 * (7 * S + 65536 * r) + 8 * P45 * (65536 + 1) ->
  0 <= ev' -> 4 * P45 * ev' <= 3 * (P45 + E1) * ev + (P45 + E1) * es + E1 * (3 * V + Z.abs (S - 65536 * r)) + 4 * P45 * (65536 + 1) ->
  tmpl 35184372088832 0 251658270 0 97020472845708066816 S' V' es' ev'.
Proof. unfold tmpl, P45, E1. intros. lia. Qed.
Lemma inv1ms_650ms_step_32 S V es ev r S' V' es' ev' :
  65536000000 <= S <= 42598400000000 -> 0 <= V <= 42598400000000 ->

  tmpl 35184372088832 0 251658270 0 97020472845708066816 S V es ev ->
  tmpl 35184372088832 0 268435488 0 89264210019393830912 S V es ev ->
  tmpl 35184372088832 0 285212706 0 84661829373195763712 S V es ev ->
  tmpl 35184372088832 0 301989924 0 81921442140255387648 S V es ev ->
  1000000 <= r <= 650000000 -> 0 <= es -> 0 <= ev ->
  8 * S' <= 7 * S + 65536 * r < 8 * S' + 8 ->
  4 * V' <= 3 * V + Z.abs (S - 65536 * r) < 4 * V' + 4 ->
  0 <= es' -> 8 * P45 * es' <= 7 * (P45 + E1) * es + E1 * (7 * S + 65536 * r) + 8 * P45 * (65536 + 1) ->
  0 <= ev' -> 4 * P45 * ev' <= 3 * (P45 + E1) * ev + (P45 + E1) * es + E1 * (3 * V + Z.abs (S - 65536 * r)) + 4 * P45 * (65536 + 1) ->
  tmpl 35184372088832 0 268435488 0 89264210019393830912 S' V' es' ev'.
Proof. unfold tmpl, P45, E1. intros. lia. Qed.
Lemma inv1ms_650ms_step_33 S V es ev r S' V' es' ev' :
  65536000000 <= S <= 42598400000000 -> 0 <= V <= 42598400000000 ->

  tmpl 35184372088832 0 268435488 0 89264210019393830912 S V es ev ->
  tmpl 35184372088832 0 285212706 0 84661829373195763712 S V es ev ->
  tmpl 35184372088832 0 301989924 0 81921442140255387648 S V es ev ->
  tmpl 35184372088832 0 318767142 0 80147688121855311872 S V es ev ->
  1000000 <= r <= 650000000 -> 0 <= es -> 0 <= ev ->
  8 * S' <= 7 * S + 65536 * r < 8 * S' + 8 ->
  4 * V' <= 3 * V + Z.abs (S - 65536 * r) < 4 * V' + 4 ->
  0 <= es' -> 8 * P45 * es' <= 7 * (P45 + E1) * es + E1 * (7 * S + 65536 * r) + 8 * P45 * (65536 + 1) ->
  0 <= ev' -> 4 * P45 * ev' <= 3 * (P45 + E1) * ev + (P45 + E1) * es + E1 * (3 * V + Z.abs (S - 65536 * r)) + 4 * P45 * (65536 + 1) ->
  tmpl 35184372088832 0 285212706 0 84661829373195763712 S' V' es' ev'.
Proof. unfold tmpl, P45, E1. intros. lia. Qed.
Lemma inv1ms_650ms_step_34 S V es ev r S' V' es' ev' :
  65536000000 <= S <= 42598400000000 -> 0 <= V <= 42598400000000 ->

  tmpl 35184372088832 0 285212706 0 84661829373195763712 S V es ev ->
  tmpl 35184372088832 0 301989924 0 81921442140255387648 S V es ev ->
  tmpl 35184372088832 0 318767142 0 80147688121855311872 S V es ev ->
  tmpl 35184372088832 0 335544360 0 78808924128540590080 S V es ev ->
  1000000 <= r <= 650000000 -> 0 <= es -> 0 <= ev ->
  8 * S' <= 7 * S + 65536 * r < 8 * S' + 8 ->
  4 * V' <= 3 * V + Z.abs (S - 65536 * r) < 4 * V' + 4 ->
  0 <= es' -> 8 * P45 * es' <= 7 * (P45 + E1) * es + E1 * (7 * S + 65536 * r) + 8 * P45 * (65536 + 1) ->
  0 <= ev' -> 4 * P45 * ev' <= 3 * (P45 + E1) * ev + (P45 + E1) * es + E1 * (3 * V + Z.abs (S - 65536 * r)) + 4 * P45 * (65536 + 1) ->
  tmpl 35184372088832 0 301989924 0 81921442140255387648 S' V' es' ev'.
Proof. unfold tmpl, P45, E1. intros. lia. Qed.
Lemma inv1ms_650ms_step_35 S V es ev r S' V' es' ev' :
  65536000000 <= S <= 42598400000000 -> 0 <= V <= 42598400000000 ->

  tmpl 35184372088832 0 301989924 0 81921442140255387648 S V es ev ->
  tmpl 35184372088832 0 318767142 0 80147688121855311872 S V es ev ->
  tmpl 35184372088832 0 352321578 0 77637392062984503296 S V es ev ->
  tmpl 35184372088832 0 369098796 0 76519886598574407680 S V es ev ->
  1000000 <= r <= 650000000 -> 0 <= es -> 0 <= ev ->
  8 * S' <= 7 * S + 65536 * r < 8 * S' + 8 ->
  4 * V' <= 3 * V + Z.abs (S - 65536 * r) < 4 * V' + 4 ->
  0 <= es' -> 8 * P45 * es' <= 7 * (P45 + E1) * es + E1 * (7 * S + 65536 * r) + 8 * P45 * (65536 + 1) ->
  0 <= ev' -> 4 * P45 * ev' <= 3 * (P45 + E1) * ev + (P45 + E1) * es + E1 * (3 * V + Z.abs (S - 65536 * r)) + 4 * P45 * (65536 + 1) ->
  tmpl 35184372088832 0 318767142 0 80147688121855311872 S' V' es' ev'.
Proof. unfold tmpl, P45, E1. intros. lia. Qed.
Lemma inv1ms_650ms_step_36 S V es ev r S' V' es' ev' :
  65536000000 <= S <= 42598400000000 -> 0 <= V <= 42598400000000 ->

  tmpl 35184372088832 0 318767142 0 80147688121855311872 S V es ev ->
  tmpl 35184372088832 0 335544360 0 78808924128540590080 S V es ev ->
  tmpl 35184372088832 0 369098796 0 76519886598574407680 S V es ev ->
  tmpl 35184372088832 0 385876014 0 75416749541786271744 S V es ev ->
  1000000 <= r <= 650000000 -> 0 <= es -> 0 <= ev ->
  8 * S' <= 7 * S + 65536 * r < 8 * S' + 8 ->
  4 * V' <= 3 * V + Z.abs (S - 65536 * r) < 4 * V' + 4 ->
  0 <= es' -> 8 * P45 * es' <= 7 * (P45 + E1) * es + E1 * (7 * S + 65536 * r) + 8 * P45 * (65536 + 1) ->
  0 <= ev' -> 4 * P45 * ev' <= 3 * (P45 + E1) * ev + (P45 + E1) * es + E1 * (3 * V + Z.abs (S - 65536 * r)) + 4 * P45 * (65536 + 1) ->
  tmpl 35184372088832 0 335544360 0 78808924128540590080 S' V' es' ev'.
Proof. unfold tmpl, P45, E1. intros. lia. Qed.
Lemma inv1ms_650ms_step_37 S V es ev r S' V' es' ev' :
  65536000000 <= S <= 42598400000000 -> 0 <= V <= 42598400000000 ->

  tmpl 35184372088832 0 335544360 0 78808924128540590080 S V es ev ->
  tmpl 35184372088832 0 352321578 0 77637392062984503296 S V es ev ->
  tmpl 35184372088832 0 385876014 0 75416749541786271744 S V es ev ->
  tmpl 35184372088832 0 402653232 0 74316672446288396288 S V es ev ->
  1000000 <= r <= 650000000 -> 0 <= es -> 0 <= ev ->
  8 * S' <= 7 * S + 65536 * r < 8 * S' + 8 ->
  4 * V' <= 3 * V + Z.abs (S - 65536 * r) < 4 * V' + 4 ->
  0 <= es' -> 8 * P45 * es' <= 7 * (P45 + E1) * es + E1 * (7 * S + 65536 * r) + 8 * P45 * (65536 + 1) ->
  0 <= ev' -> 4 * P45 * ev' <= 3 * (P45 + E1) * ev + (P45 + E1) * es + E1 * (3 * V + Z.abs (S - 65536 * r)) + 4 * P45 * (65536 + 1) ->
  tmpl 35184372088832 0 352321578 0 77637392062984503296 S' V' es' ev'.
Proof. unfold tmpl, P45, E1. intros. lia. Qed.
Lemma inv1ms_650ms_step_38 S V es ev r S' V' es' ev' :
  65536000000 <= S <= 42598400000000 -> 0 <= V <= 42598400000000 ->

  tmpl 35184372088832 0 352321578 0 77637392062984503296 S V es ev ->
  tmpl 35184372088832 0 369098796 0 76519886598574407680 S V es ev ->
  tmpl 35184372088832 0 402653232 0 74316672446288396288 S V es ev ->
  tmpl 35184372088832 0 419430450 0 73217096710393970688 S V es ev ->
  1000000 <= r <= 650000000 -> 0 <= es -> 0 <= ev ->
  8 * S' <= 7 * S + 65536 * r < 8 * S' + 8 ->
  4 * V' <= 3 * V + Z.abs (S - 65536 * r) < 4 * V' + 4 ->
  0 <= es' -> 8 * P45 * es' <= 7 * (P45 + E1) * es + E1 * (7 * S + 65536 * r) + 8 * P45 * (65536 + 1) ->
  0 <= ev' -> 4 * P45 * ev' <= 3 * (P45 + E1) * ev + (P45 + E1) * es + E1 * (3 * V + Z.abs (S - 65536 * r)) + 4 * P45 * (65536 + 1) ->
  tmpl 35184372088832 0 369098796 0 76519886598574407680 S' V' es' ev'.
Proof. unfold tmpl, P45, E1. intros. lia. Qed.
Lemma inv1ms_650ms_step_39 S V es ev r S' V' es' ev' :
  65536000000 <= S <= 42598400000000 -> 0 <= V <= 42598400000000 ->

  tmpl 35184372088832 0 369098796 0 76519886598574407680 S V es ev ->
  tmpl 35184372088832 0 385876014 0 75416749541786271744 S V es ev ->
  tmpl 35184372088832 0 419430450 0 73217096710393970688 S V es ev ->
  tmpl 35184372088832 0 436207668 0 72117580279886151680 S V es ev ->
  1000000 <= r <= 650000000 -> 0 <= es -> 0 <= ev ->
  8 * S' <= 7 * S + 65536 * r < 8 * S' + 8 ->
  4 * V' <= 3 * V + Z.abs (S - 65536 * r) < 4 * V' + 4 ->
  0 <= es' -> 8 * P45 * es' <= 7 * (P45 + E1) * es + E1 * (7 * S + 65536 * r) + 8 * P45 * (65536 + 1) ->
  0 <= ev' -> 4 * P45 * ev' <= 3 * (P45 + E1) * ev + (P45 + E1) * es + E1 * (3 * V + Z.abs (S - 65536 * r)) + 4 * P45 * (65536 + 1) ->
  tmpl 35184372088832 0 385876014 0 75416749541786271744 S' V' es' ev'.
Proof. unfold tmpl, P45, E1. intros. lia. Qed.
Lemma inv1ms_650ms_step_40 S V es ev r S' V' es' ev' :
  65536000000 <= S <= 42598400000000 -> 0 <= V <= 42598400000000 ->

  tmpl 35184372088832 0 385876014 0 75416749541786271744 S V es ev ->
  tmpl 35184372088832 0 402653232 0 74316672446288396288 S V es ev ->
  tmpl 35184372088832 0 436207668 0 72117580279886151680 S V es ev ->
  tmpl 35184372088832 0 452984886 0 71018068355903430656 S V es ev ->
  1000000 <= r <= 650000000 -> 0 <= es -> 0 <= ev ->
  8 * S' <= 7 * S + 65536 * r < 8 * S' + 8 ->
  4 * V' <= 3 * V + Z.abs (S - 65536 * r) < 4 * V' + 4 ->
  0 <= es' -> 8 * P45 * es' <= 7 * (P45 + E1) * es + E1 * (7 * S + 65536 * r) + 8 * P45 * (65536 + 1) ->
  0 <= ev' -> 4 * P45 * ev' <= 3 * (P45 + E1) * ev + (P45 + E1) * es + E1 * (3 * V + Z.abs (S - 65536 * r)) + 4 * P45 * (65536 + 1) ->
  tmpl 35184372088832 0 402653232 0 74316672446288396288 S' V' es' ev'.
Proof. unfold tmpl, P45, E1. intros. lia. Qed.
Lemma inv1ms_650ms_step_41 S V es ev r S' V' es' ev' :
  65536000000 <= S <= 42598400000000 -> 0 <= V <= 42598400000000 ->

  tmpl 35184372088832 0 402653232 0 74316672446288396288 S V es ev ->
  tmpl 35184372088832 0 419430450 0 73217096710393970688 S V es ev ->
  tmpl 35184372088832 0 452984886 0 71018068355903430656 S V es ev ->
  1000000 <= r <= 650000000 -> 0 <= es -> 0 <= ev ->
  8 * S' <= 7 * S + 65536 * r < 8 * S' + 8 ->
  4 * V' <= 3 * V + Z.abs (S - 65536 * r) < 4 * V' + 4 ->
  0 <= es' -> 8 * P45 * es' <= 7 * (P45 + E1) * es + E1 * (7 * S + 65536 * r) + 8 * P45 * (65536 + 1) ->
  0 <= ev' -> 4 * P45 * ev' <= 3 * (P45 + E1) * ev + (P45 + E1) * es + E1 * (3 * V + Z.abs (S - 65536 * r)) + 4 * P45 * (65536 + 1) ->
  tmpl 35184372088832 0 419430450 0 73217096710393970688 S' V' es' ev'.
Proof. unfold tmpl, P45, E1. intros. lia. Qed.
Lemma inv1ms_650ms_step_42 S V es ev r S' V' es' ev' :
  65536000000 <= S <= 42598400000000 -> 0 <= V <= 42598400000000 ->

  tmpl 35184372088832 0 419430450 0 73217096710393970688 S V es ev ->
  tmpl 35184372088832 0 436207668 0 72117580279886151680 S V es ev ->
  tmpl 35184372088832 0 452984886 0 71018068355903430656 S V es ev ->
  1000000 <= r <= 650000000 -> 0 <= es -> 0 <= ev ->
  8 * S' <= 7 * S + 65536 * r < 8 * S' + 8 ->
  4 * V' <= 3 * V + Z.abs (S - 65536 * r) < 4 * V' + 4 ->
  0 <= es' -> 8 * P45 * es' <= 7 * (P45 + E1) * es + E1 * (7 * S + 65536 * r) + 8 * P45 * (65536 + 1) ->
  0 <= ev' -> 4 * P45 * ev' <= 3 * (P45 + E1) * ev + (P45 + E1) * es + E1 * (3 * V + Z.abs (S - 65536 * r)) + 4 * P45 * (65536 + 1) ->
  tmpl 35184372088832 0 436207668 0 72117580279886151680 S' V' es' ev'.
Proof. unfold tmpl, P45, E1. intros. lia. Qed.
Lemma inv1ms_650ms_step_43 S V es ev r S' V' es' ev' :
  65536000000 <= S <= 42598400000000 -> 0 <= V <= 42598400000000 ->

  tmpl 35184372088832 0 436207668 0 72117580279886151680 S V es ev ->
  tmpl 35184372088832 0 452984886 0 71018068355903430656 S V es ev ->
  1000000 <= r <= 650000000 -> 0 <= es -> 0 <= ev ->
  8 * S' <= 7 * S + 65536 * r < 8 * S' + 8 ->
  4 * V' <= 3 * V + Z.abs (S - 65536 * r) < 4 * V' + 4 ->
  0 <= es' -> 8 * P45 * es' <= 7 * (P45 + E1) * es + E1 * (7 * S + 65536 * r) + 8 * P45 * (65536 + 1) ->
  0 <= ev' -> 4 * P45 * ev' <= 3 * (P45 + E1) * ev + (P45 + E1) * es + E1 * (3 * V + Z.abs (S - 65536 * r)) + 4 * P45 * (65536 + 1) ->
  tmpl 35184372088832 0 452984886 0 71018068355903430656 S' V' es' ev'.
Proof. unfold tmpl, P45, E1. intros. lia. Qed.
Lemma inv1ms_650ms_step_44 S V es ev r S' V' es' ev' :
  65536000000 <= S <= 42598400000000 -> 0 <= V <= 42598400000000 ->

  tmpl 35184372088832 0 0 0 2877466508466800033792 S V es ev ->
  tmpl 35184372088832 0 16777218 0 2242070879954330976256 S V es ev ->
  tmpl 0 35184372088832 0 0 4282236851683024437248 S V es ev ->
  tmpl 35184372088832 140737521909764 0 0 19961800606591941083136 S V es ev ->
  1000000 <= r <= 650000000 -> 0 <= es -> 0 <= ev ->
  8 * S' <= 7 * S + 65536 * r < 8 * S' + 8 ->
  4 * V' <= 3 * V + Z.abs (S - 65536 * r) < 4 * V' + 4 ->
  0 <= es' -> 8 * P45 * es' <= 7 * (P45 + E1) * es + E1 * (7 * S + 65536 * r) + 8 * P45 * (65536 + 1) ->
  0 <= ev' -> 4 * P45 * ev' <= 3 * (P45 + E1) * ev + (P45 + E1) * es + E1 * (3 * V + Z.abs (S - 65536 * r)) + 4 * P45 * (65536 + 1) ->
  tmpl 0 35184372088832 0 0 4282236851683024437248 S' V' es' ev'.
Proof. unfold tmpl, P45, E1. intros. lia. Qed.
Lemma inv1ms_650ms_step_45 S V es ev r S' V' es' ev' :
  65536000000 <= S <= 42598400000000 -> 0 <= V <= 42598400000000 ->

  tmpl 35184372088832 0 50331654 33554436 884316247817185263616 S V es ev ->
  tmpl 109951162777600000 439804755968012500 274877906944 419430450000 41013520526806443622400000 S V es ev ->
  tmpl 109951162777600000 439804755968012500 549755813888 419430450000 33836225968747675648000000 S V es ev ->
  tmpl 109951162777600000 439804755968012500 549755813888 838860900000 28834154544893611212800000 S V es ev ->
  1000000 <= r <= 650000000 -> 0 <= es -> 0 <= ev ->
  8 * S' <= 7 * S + 65536 * r < 8 * S' + 8 ->
  4 * V' <= 3 * V + Z.abs (S - 65536 * r) < 4 * V' + 4 ->
  0 <= es' -> 8 * P45 * es' <= 7 * (P45 + E1) * es + E1 * (7 * S + 65536 * r) + 8 * P45 * (65536 + 1) ->
  0 <= ev' -> 4 * P45 * ev' <= 3 * (P45 + E1) * ev + (P45 + E1) * es + E1 * (3 * V + Z.abs (S - 65536 * r)) + 4 * P45 * (65536 + 1) ->
  tmpl 0 35184372088832 33554436 67108872 1955129539045752307712 S' V' es' ev'.
Proof. unfold tmpl, P45, E1. intros. lia. Qed.
Lemma inv1ms_650ms_step_46 S V es ev r S' V' es' ev' :
  65536000000 <= S <= 42598400000000 -> 0 <= V <= 42598400000000 ->

  tmpl 0 0 8388609 (-8388609) 106665569490615615488 S V es ev ->
  tmpl 35184372088832 0 50331654 0 1362820312732891873280 S V es ev ->
  tmpl 0 35184372088832 67108872 0 2658854277084935618560 S V es ev ->
  tmpl 109951162777600000 439804755968012500 549755813888 104857612500 43002903509903232204800000 S V es ev ->
  tmpl 109951162777600000 439804755968012500 824633720832 0 40721307459685842944000000 S V es ev ->
  1000000 <= r <= 650000000 -> 0 <= es -> 0 <= ev ->
  8 * S' <= 7 * S + 65536 * r < 8 * S' + 8 ->
  4 * V' <= 3 * V + Z.abs (S - 65536 * r) < 4 * V' + 4 ->
  0 <= es' -> 8 * P45 * es' <= 7 * (P45 + E1) * es + E1 * (7 * S + 65536 * r) + 8 * P45 * (65536 + 1) ->
  0 <= ev' -> 4 * P45 * ev' <= 3 * (P45 + E1) * ev + (P45 + E1) * es + E1 * (3 * V + Z.abs (S - 65536 * r)) + 4 * P45 * (65536 + 1) ->
  tmpl 0 35184372088832 67108872 0 2658854277084935618560 S' V' es' ev'.
Proof. unfold tmpl, P45, E1. intros. lia. Qed.
Lemma inv1ms_650ms_step_47 S V es ev r S' V' es' ev' :
  65536000000 <= S <= 42598400000000 -> 0 <= V <= 42598400000000 ->

  tmpl 35184372088832 0 67108872 0 1063279915641196904448 S V es ev ->
  tmpl 0 35184372088832 67108872 33554436 1784664598824412512256 S V es ev ->
  tmpl 109951162777600000 439804755968012500 824633720832 419430450000 28816759000248129945600000 S V es ev ->
  tmpl 109951162777600000 439804755968012500 1099511627776 209715225000 29849675298388167884800000 S V es ev ->
  1000000 <= r <= 650000000 -> 0 <= es -> 0 <= ev ->
  8 * S' <= 7 * S + 65536 * r < 8 * S' + 8 ->
  4 * V' <= 3 * V + Z.abs (S - 65536 * r) < 4 * V' + 4 ->
  0 <= es' -> 8 * P45 * es' <= 7 * (P45 + E1) * es + E1 * (7 * S + 65536 * r) + 8 * P45 * (65536 + 1) ->
  0 <= ev' -> 4 * P45 * ev' <= 3 * (P45 + E1) * ev + (P45 + E1) * es + E1 * (3 * V + Z.abs (S - 65536 * r)) + 4 * P45 * (65536 + 1) ->
  tmpl 0 35184372088832 67108872 33554436 1784664598824412512256 S' V' es' ev'.
Proof. unfold tmpl, P45, E1. intros. lia. Qed.
Lemma inv1ms_650ms_step_48 S V es ev r S' V' es' ev' :
  65536000000 <= S <= 42598400000000 -> 0 <= V <= 42598400000000 ->

  tmpl 35184372088832 0 67108872 33554436 543327771809921695744 S V es ev ->
  tmpl 0 35184372088832 67108872 33554436 1784664598824412512256 S V es ev ->
  tmpl 109951162777600000 439804755968012500 824633720832 419430450000 28816759000248129945600000 S V es ev ->
  tmpl 109951162777600000 439804755968012500 1099511627776 838860900000 18743529067647379046400000 S V es ev ->
  1000000 <= r <= 650000000 -> 0 <= es -> 0 <= ev ->
  8 * S' <= 7 * S + 65536 * r < 8 * S' + 8 ->
  4 * V' <= 3 * V + Z.abs (S - 65536 * r) < 4 * V' + 4 ->
  0 <= es' -> 8 * P45 * es' <= 7 * (P45 + E1) * es + E1 * (7 * S + 65536 * r) + 8 * P45 * (65536 + 1) ->
  0 <= ev' -> 4 * P45 * ev' <= 3 * (P45 + E1) * ev + (P45 + E1) * es + E1 * (3 * V + Z.abs (S - 65536 * r)) + 4 * P45 * (65536 + 1) ->
  tmpl 0 35184372088832 67108872 67108872 1326611854677505474560 S' V' es' ev'.
Proof. unfold tmpl, P45, E1. intros. lia. Qed.
Lemma inv1ms_650ms_step_49 S V es ev r S' V' es' ev' :
  65536000000 <= S <= 42598400000000 -> 0 <= V <= 42598400000000 ->

  tmpl 35184372088832 0 67108872 33554436 543327771809921695744 S V es ev ->
  tmpl 0 35184372088832 67108872 67108872 1326611854677505474560 S V es ev ->
  tmpl 109951162777600000 439804755968012500 824633720832 1677721800000 17441674136722066636800000 S V es ev ->
  tmpl 109951162777600000 439804755968012500 1099511627776 1677721800000 12725096578756435968000000 S V es ev ->
  1000000 <= r <= 650000000 -> 0 <= es -> 0 <= ev ->
  8 * S' <= 7 * S + 65536 * r < 8 * S' + 8 ->
  4 * V' <= 3 * V + Z.abs (S - 65536 * r) < 4 * V' + 4 ->
  0 <= es' -> 8 * P45 * es' <= 7 * (P45 + E1) * es + E1 * (7 * S + 65536 * r) + 8 * P45 * (65536 + 1) ->
  0 <= ev' -> 4 * P45 * ev' <= 3 * (P45 + E1) * ev + (P45 + E1) * es + E1 * (3 * V + Z.abs (S - 65536 * r)) + 4 * P45 * (65536 + 1) ->
  tmpl 0 35184372088832 67108872 134217744 906708345435608186880 S' V' es' ev'.
Proof. unfold tmpl, P45, E1. intros. lia. Qed.
Lemma inv1ms_650ms_step_50 S V es ev r S' V' es' ev' :
  65536000000 <= S <= 42598400000000 -> 0 <= V <= 42598400000000 ->

  tmpl 0 0 8388609 (-8388609) 106665569490615615488 S V es ev ->
  tmpl 35184372088832 0 67108872 0 1063279915641196904448 S V es ev ->
  tmpl 35184372088832 0 83886090 0 830061870981077401600 S V es ev ->
  tmpl 0 35184372088832 100663308 0 2139639364575292293120 S V es ev ->
  tmpl 109951162777600000 439804755968012500 1099511627776 104857612500 32667584955783308902400000 S V es ev ->
  1000000 <= r <= 650000000 -> 0 <= es -> 0 <= ev ->
  8 * S' <= 7 * S + 65536 * r < 8 * S' + 8 ->
  4 * V' <= 3 * V + Z.abs (S - 65536 * r) < 4 * V' + 4 ->
  0 <= es' -> 8 * P45 * es' <= 7 * (P45 + E1) * es + E1 * (7 * S + 65536 * r) + 8 * P45 * (65536 + 1) ->
  0 <= ev' -> 4 * P45 * ev' <= 3 * (P45 + E1) * ev + (P45 + E1) * es + E1 * (3 * V + Z.abs (S - 65536 * r)) + 4 * P45 * (65536 + 1) ->
  tmpl 0 35184372088832 100663308 0 2139639364575292293120 S' V' es' ev'.
Proof. unfold tmpl, P45, E1. intros. lia. Qed.
Lemma inv1ms_650ms_step_51 S V es ev r S' V' es' ev' :
  65536000000 <= S <= 42598400000000 -> 0 <= V <= 42598400000000 ->

  tmpl 35184372088832 0 100663308 0 648435995597280378880 S V es ev ->
  tmpl 0 35184372088832 67108872 33554436 1784664598824412512256 S V es ev ->
  tmpl 0 35184372088832 100663308 33554436 1426538923632010985472 S V es ev ->
  tmpl 0 35184372088832 134217744 0 1737318176066754314240 S V es ev ->
  1000000 <= r <= 650000000 -> 0 <= es -> 0 <= ev ->
  8 * S' <= 7 * S + 65536 * r < 8 * S' + 8 ->
  4 * V' <= 3 * V + Z.abs (S - 65536 * r) < 4 * V' + 4 ->
  0 <= es' -> 8 * P45 * es' <= 7 * (P45 + E1) * es + E1 * (7 * S + 65536 * r) + 8 * P45 * (65536 + 1) ->
  0 <= ev' -> 4 * P45 * ev' <= 3 * (P45 + E1) * ev + (P45 + E1) * es + E1 * (3 * V + Z.abs (S - 65536 * r)) + 4 * P45 * (65536 + 1) ->
  tmpl 0 35184372088832 100663308 33554436 1426538923632010985472 S' V' es' ev'.
Proof. unfold tmpl, P45, E1. intros. lia. Qed.
Lemma inv1ms_650ms_step_52 S V es ev r S' V' es' ev' :
  65536000000 <= S <= 42598400000000 -> 0 <= V <= 42598400000000 ->

  tmpl 35184372088832 0 100663308 0 648435995597280378880 S V es ev ->
  tmpl 0 35184372088832 100663308 33554436 1426538923632010985472 S V es ev ->
  tmpl 0 35184372088832 100663308 67108872 987585203811506847744 S V es ev ->
  tmpl 109951162777600000 439804755968012500 1099511627776 838860900000 18743529067647379046400000 S V es ev ->
  1000000 <= r <= 650000000 -> 0 <= es -> 0 <= ev ->
  8 * S' <= 7 * S + 65536 * r < 8 * S' + 8 ->
  4 * V' <= 3 * V + Z.abs (S - 65536 * r) < 4 * V' + 4 ->
  0 <= es' -> 8 * P45 * es' <= 7 * (P45 + E1) * es + E1 * (7 * S + 65536 * r) + 8 * P45 * (65536 + 1) ->
  0 <= ev' -> 4 * P45 * ev' <= 3 * (P45 + E1) * ev + (P45 + E1) * es + E1 * (3 * V + Z.abs (S - 65536 * r)) + 4 * P45 * (65536 + 1) ->
  tmpl 0 35184372088832 100663308 67108872 987585203811506847744 S' V' es' ev'.
Proof. unfold tmpl, P45, E1. intros. lia. Qed.
Lemma inv1ms_650ms_step_53 S V es ev r S' V' es' ev' :
  65536000000 <= S <= 42598400000000 -> 0 <= V <= 42598400000000 ->

  tmpl 35184372088832 0 83886090 33554436 377747762373070553088 S V es ev ->
  tmpl 0 35184372088832 100663308 67108872 987585203811506847744 S V es ev ->
  tmpl 0 35184372088832 100663308 134217744 607345837593670189056 S V es ev ->
  tmpl 0 35184372088832 134217744 67108872 751017339520276234240 S V es ev ->
  1000000 <= r <= 650000000 -> 0 <= es -> 0 <= ev ->
  8 * S' <= 7 * S + 65536 * r < 8 * S' + 8 ->
  4 * V' <= 3 * V + Z.abs (S - 65536 * r) < 4 * V' + 4 ->
  0 <= es' -> 8 * P45 * es' <= 7 * (P45 + E1) * es + E1 * (7 * S + 65536 * r) + 8 * P45 * (65536 + 1) ->
  0 <= ev' -> 4 * P45 * ev' <= 3 * (P45 + E1) * ev + (P45 + E1) * es + E1 * (3 * V + Z.abs (S - 65536 * r)) + 4 * P45 * (65536 + 1) ->
  tmpl 0 35184372088832 100663308 134217744 607345837593670189056 S' V' es' ev'.
Proof. unfold tmpl, P45, E1. intros. lia. Qed.
Lemma inv1ms_650ms_step_54 S V es ev r S' V' es' ev' :
  65536000000 <= S <= 42598400000000 -> 0 <= V <= 42598400000000 ->

  tmpl 0 0 16777218 (-8388609) (-820022133117572608) S V es ev ->
  tmpl 35184372088832 0 83886090 0 830061870981077401600 S V es ev ->
  tmpl 0 35184372088832 100663308 0 2139639364575292293120 S V es ev ->
  tmpl 0 35184372088832 134217744 0 1737318176066754314240 S V es ev ->
  1000000 <= r <= 650000000 -> 0 <= es -> 0 <= ev ->
  8 * S' <= 7 * S + 65536 * r < 8 * S' + 8 ->
  4 * V' <= 3 * V + Z.abs (S - 65536 * r) < 4 * V' + 4 ->
  0 <= es' -> 8 * P45 * es' <= 7 * (P45 + E1) * es + E1 * (7 * S + 65536 * r) + 8 * P45 * (65536 + 1) ->
  0 <= ev' -> 4 * P45 * ev' <= 3 * (P45 + E1) * ev + (P45 + E1) * es + E1 * (3 * V + Z.abs (S - 65536 * r)) + 4 * P45 * (65536 + 1) ->
  tmpl 0 35184372088832 134217744 0 1737318176066754314240 S' V' es' ev'.
Proof. unfold tmpl, P45, E1. intros. lia. Qed.
Lemma inv1ms_650ms_step_55 S V es ev r S' V' es' ev' :
  65536000000 <= S <= 42598400000000 -> 0 <= V <= 42598400000000 ->

  tmpl 35184372088832 0 100663308 0 648435995597280378880 S V es ev ->
  tmpl 35184372088832 0 117440526 0 506965019255741546496 S V es ev ->
  tmpl 0 35184372088832 100663308 33554436 1426538923632010985472 S V es ev ->
  tmpl 0 35184372088832 134217744 33554436 1139588593549370982400 S V es ev ->
  tmpl 0 35184372088832 167772180 0 1402604387814047744000 S V es ev ->
  1000000 <= r <= 650000000 -> 0 <= es -> 0 <= ev ->
  8 * S' <= 7 * S + 65536 * r < 8 * S' + 8 ->
  4 * V' <= 3 * V + Z.abs (S - 65536 * r) < 4 * V' + 4 ->
  0 <= es' -> 8 * P45 * es' <= 7 * (P45 + E1) * es + E1 * (7 * S + 65536 * r) + 8 * P45 * (65536 + 1) ->
  0 <= ev' -> 4 * P45 * ev' <= 3 * (P45 + E1) * ev + (P45 + E1) * es + E1 * (3 * V + Z.abs (S - 65536 * r)) + 4 * P45 * (65536 + 1) ->
  tmpl 0 35184372088832 134217744 33554436 1139588593549370982400 S' V' es' ev'.
Proof. unfold tmpl, P45, E1. intros. lia. Qed.
Lemma inv1ms_650ms_step_56 S V es ev r S' V' es' ev' :
  65536000000 <= S <= 42598400000000 -> 0 <= V <= 42598400000000 ->

  tmpl 35184372088832 0 117440526 0 506965019255741546496 S V es ev ->
  tmpl 0 35184372088832 134217744 33554436 1139588593549370982400 S V es ev ->
  tmpl 0 35184372088832 134217744 67108872 751017339520276234240 S V es ev ->
  tmpl 0 35184372088832 167772180 33554436 908406956580349804544 S V es ev ->
  1000000 <= r <= 650000000 -> 0 <= es -> 0 <= ev ->
  8 * S' <= 7 * S + 65536 * r < 8 * S' + 8 ->
  4 * V' <= 3 * V + Z.abs (S - 65536 * r) < 4 * V' + 4 ->
  0 <= es' -> 8 * P45 * es' <= 7 * (P45 + E1) * es + E1 * (7 * S + 65536 * r) + 8 * P45 * (65536 + 1) ->
  0 <= ev' -> 4 * P45 * ev' <= 3 * (P45 + E1) * ev + (P45 + E1) * es + E1 * (3 * V + Z.abs (S - 65536 * r)) + 4 * P45 * (65536 + 1) ->
  tmpl 0 35184372088832 134217744 67108872 751017339520276234240 S' V' es' ev'.
Proof. unfold tmpl, P45, E1. intros. lia. Qed.
Lemma inv1ms_650ms_step_57 S V es ev r S' V' es' ev' :
  65536000000 <= S <= 42598400000000 -> 0 <= V <= 42598400000000 ->

  tmpl 0 0 16777218 (-8388609) (-820022133117572608) S V es ev ->
  tmpl 35184372088832 0 100663308 0 648435995597280378880 S V es ev ->
  tmpl 35184372088832 0 117440526 0 506965019255741546496 S V es ev ->
  tmpl 0 35184372088832 134217744 0 1737318176066754314240 S V es ev ->
  tmpl 0 35184372088832 167772180 0 1402604387814047744000 S V es ev ->
  1000000 <= r <= 650000000 -> 0 <= es -> 0 <= ev ->
  8 * S' <= 7 * S + 65536 * r < 8 * S' + 8 ->
  4 * V' <= 3 * V + Z.abs (S - 65536 * r) < 4 * V' + 4 ->
  0 <= es' -> 8 * P45 * es' <= 7 * (P45 + E1) * es + E1 * (7 * S + 65536 * r) + 8 * P45 * (65536 + 1) ->
  0 <= ev' -> 4 * P45 * ev' <= 3 * (P45 + E1) * ev + (P45 + E1) * es + E1 * (3 * V + Z.abs (S - 65536 * r)) + 4 * P45 * (65536 + 1) ->
  tmpl 0 35184372088832 167772180 0 1402604387814047744000 S' V' es' ev'.
Proof. unfold tmpl, P45, E1. intros. lia. Qed.
Lemma inv1ms_650ms_step_58 S V es ev r S' V' es' ev' :
  65536000000 <= S <= 42598400000000 -> 0 <= V <= 42598400000000 ->

  tmpl 35184372088832 0 117440526 0 506965019255741546496 S V es ev ->
  tmpl 0 35184372088832 134217744 33554436 1139588593549370982400 S V es ev ->
  tmpl 0 35184372088832 167772180 33554436 908406956580349804544 S V es ev ->
  tmpl 0 35184372088832 201326616 0 1127104461815666180096 S V es ev ->
  tmpl 0 35184372088832 234881052 0 901471410949965086720 S V es ev ->
  1000000 <= r <= 650000000 -> 0 <= es -> 0 <= ev ->
  8 * S' <= 7 * S + 65536 * r < 8 * S' + 8 ->
  4 * V' <= 3 * V + Z.abs (S - 65536 * r) < 4 * V' + 4 ->
  0 <= es' -> 8 * P45 * es' <= 7 * (P45 + E1) * es + E1 * (7 * S + 65536 * r) + 8 * P45 * (65536 + 1) ->
  0 <= ev' -> 4 * P45 * ev' <= 3 * (P45 + E1) * ev + (P45 + E1) * es + E1 * (3 * V + Z.abs (S - 65536 * r)) + 4 * P45 * (65536 + 1) ->
  tmpl 0 35184372088832 167772180 33554436 908406956580349804544 S' V' es' ev'.
Proof. unfold tmpl, P45, E1. intros. lia. Qed.
Lemma inv1ms_650ms_step_59 S V es ev r S' V' es' ev' :
  65536000000 <= S <= 42598400000000 -> 0 <= V <= 42598400000000 ->

  tmpl 0 0 16777218 (-8388609) (-820022133117572608) S V es ev ->
  tmpl 35184372088832 0 117440526 0 506965019255741546496 S V es ev ->
  tmpl 0 35184372088832 167772180 0 1402604387814047744000 S V es ev ->
  tmpl 0 35184372088832 201326616 0 1127104461815666180096 S V es ev ->
  tmpl 0 35184372088832 234881052 0 901471410949965086720 S V es ev ->
  1000000 <= r <= 650000000 -> 0 <= es -> 0 <= ev ->
  8 * S' <= 7 * S + 65536 * r < 8 * S' + 8 ->
  4 * V' <= 3 * V + Z.abs (S - 65536 * r) < 4 * V' + 4 ->
  0 <= es' -> 8 * P45 * es' <= 7 * (P45 + E1) * es + E1 * (7 * S + 65536 * r) + 8 * P45 * (65536 + 1) ->
  0 <= ev' -> 4 * P45 * ev' <= 3 * (P45 + E1) * ev + (P45 + E1) * es + E1 * (3 * V + Z.abs (S - 65536 * r)) + 4 * P45 * (65536 + 1) ->
  tmpl 0 35184372088832 201326616 0 1127104461815666180096 S' V' es' ev'.
Proof. unfold tmpl, P45, E1. intros. lia. Qed.
Lemma inv1ms_650ms_step_60 S V es ev r S' V' es' ev' :
  65536000000 <= S <= 42598400000000 -> 0 <= V <= 42598400000000 ->

  tmpl 35184372088832 0 134217744 0 396801676538495565824 S V es ev ->
  tmpl 35184372088832 0 150994962 0 311159808483668262912 S V es ev ->
  tmpl 0 35184372088832 167772180 33554436 908406956580349804544 S V es ev ->
  tmpl 0 35184372088832 201326616 33554436 722638423548835921920 S V es ev ->
  tmpl 0 35184372088832 234881052 0 901471410949965086720 S V es ev ->
  tmpl 0 35184372088832 268435488 0 717737541419268571136 S V es ev ->
  1000000 <= r <= 650000000 -> 0 <= es -> 0 <= ev ->
  8 * S' <= 7 * S + 65536 * r < 8 * S' + 8 ->
  4 * V' <= 3 * V + Z.abs (S - 65536 * r) < 4 * V' + 4 ->
  0 <= es' -> 8 * P45 * es' <= 7 * (P45 + E1) * es + E1 * (7 * S + 65536 * r) + 8 * P45 * (65536 + 1) ->
  0 <= ev' -> 4 * P45 * ev' <= 3 * (P45 + E1) * ev + (P45 + E1) * es + E1 * (3 * V + Z.abs (S - 65536 * r)) + 4 * P45 * (65536 + 1) ->
  tmpl 0 35184372088832 201326616 33554436 722638423548835921920 S' V' es' ev'.
Proof. unfold tmpl, P45, E1. intros. lia. Qed.
Lemma inv1ms_650ms_step_61 S V es ev r S' V' es' ev' :
  65536000000 <= S <= 42598400000000 -> 0 <= V <= 42598400000000 ->

  tmpl 0 0 16777218 (-8388609) (-820022133117572608) S V es ev ->
  tmpl 35184372088832 0 117440526 0 506965019255741546496 S V es ev ->
  tmpl 35184372088832 0 134217744 0 396801676538495565824 S V es ev ->
  tmpl 0 35184372088832 201326616 0 1127104461815666180096 S V es ev ->
  tmpl 0 35184372088832 234881052 0 901471410949965086720 S V es ev ->
  tmpl 0 35184372088832 268435488 0 717737541419268571136 S V es ev ->
  1000000 <= r <= 650000000 -> 0 <= es -> 0 <= ev ->
  8 * S' <= 7 * S + 65536 * r < 8 * S' + 8 ->
  4 * V' <= 3 * V + Z.abs (S - 65536 * r) < 4 * V' + 4 ->
  0 <= es' -> 8 * P45 * es' <= 7 * (P45 + E1) * es + E1 * (7 * S + 65536 * r) + 8 * P45 * (65536 + 1) ->
  0 <= ev' -> 4 * P45 * ev' <= 3 * (P45 + E1) * ev + (P45 + E1) * es + E1 * (3 * V + Z.abs (S - 65536 * r)) + 4 * P45 * (65536 + 1) ->
  tmpl 0 35184372088832 234881052 0 901471410949965086720 S' V' es' ev'.
Proof. unfold tmpl, P45, E1. intros. lia. Qed.
Lemma inv1ms_650ms_step_62 S V es ev r S' V' es' ev' :
  65536000000 <= S <= 42598400000000 -> 0 <= V <= 42598400000000 ->

  tmpl 35184372088832 0 150994962 0 311159808483668262912 S V es ev ->
  tmpl 35184372088832 0 167772180 0 244907030504182710272 S V es ev ->
  tmpl 0 35184372088832 201326616 33554436 722638423548835921920 S V es ev ->
  tmpl 0 35184372088832 234881052 33554436 574028143779768369152 S V es ev ->
  tmpl 0 35184372088832 268435488 0 717737541419268571136 S V es ev ->
  tmpl 0 35184372088832 268435488 33554436 456299672223065178112 S V es ev ->
  tmpl 0 35184372088832 301989924 0 569875734304903790592 S V es ev ->
  1000000 <= r <= 650000000 -> 0 <= es -> 0 <= ev ->
  8 * S' <= 7 * S + 65536 * r < 8 * S' + 8 ->
  4 * V' <= 3 * V + Z.abs (S - 65536 * r) < 4 * V' + 4 ->
  0 <= es' -> 8 * P45 * es' <= 7 * (P45 + E1) * es + E1 * (7 * S + 65536 * r) + 8 * P45 * (65536 + 1) ->
  0 <= ev' -> 4 * P45 * ev' <= 3 * (P45 + E1) * ev + (P45 + E1) * es + E1 * (3 * V + Z.abs (S - 65536 * r)) + 4 * P45 * (65536 + 1) ->
  tmpl 0 35184372088832 234881052 33554436 574028143779768369152 S' V' es' ev'.
Proof. unfold tmpl, P45, E1. intros. lia. Qed.
Lemma inv1ms_650ms_step_63 S V es ev r S' V' es' ev' :
  65536000000 <= S <= 42598400000000 -> 0 <= V <= 42598400000000 ->

  tmpl 0 0 16777218 (-8388609) (-820022133117572608) S V es ev ->
  tmpl 35184372088832 0 134217744 0 396801676538495565824 S V es ev ->
  tmpl 35184372088832 0 150994962 0 311159808483668262912 S V es ev ->
  tmpl 0 35184372088832 234881052 0 901471410949965086720 S V es ev ->
  tmpl 0 35184372088832 268435488 0 717737541419268571136 S V es ev ->
  tmpl 0 35184372088832 301989924 0 569875734304903790592 S V es ev ->
  1000000 <= r <= 650000000 -> 0 <= es -> 0 <= ev ->
  8 * S' <= 7 * S + 65536 * r < 8 * S' + 8 ->
  4 * V' <= 3 * V + Z.abs (S - 65536 * r) < 4 * V' + 4 ->
  0 <= es' -> 8 * P45 * es' <= 7 * (P45 + E1) * es + E1 * (7 * S + 65536 * r) + 8 * P45 * (65536 + 1) ->
  0 <= ev' -> 4 * P45 * ev' <= 3 * (P45 + E1) * ev + (P45 + E1) * es + E1 * (3 * V + Z.abs (S - 65536 * r)) + 4 * P45 * (65536 + 1) ->
  tmpl 0 35184372088832 268435488 0 717737541419268571136 S' V' es' ev'.
Proof. unfold tmpl, P45, E1. intros. lia. Qed.
Lemma inv1ms_650ms_step_64 S V es ev r S' V' es' ev' :
  65536000000 <= S <= 42598400000000 -> 0 <= V <= 42598400000000 ->

  tmpl 35184372088832 0 167772180 0 244907030504182710272 S V es ev ->
  tmpl 35184372088832 0 184549398 0 194216237623767859200 S V es ev ->
  tmpl 0 35184372088832 234881052 33554436 574028143779768369152 S V es ev ->
  tmpl 0 35184372088832 268435488 33554436 456299672223065178112 S V es ev ->
  tmpl 0 35184372088832 301989924 0 569875734304903790592 S V es ev ->
  tmpl 0 35184372088832 301989924 33554436 364552820924801351680 S V es ev ->
  tmpl 0 35184372088832 335544360 0 452423358065647812608 S V es ev ->
  1000000 <= r <= 650000000 -> 0 <= es -> 0 <= ev ->
  8 * S' <= 7 * S + 65536 * r < 8 * S' + 8 ->
  4 * V' <= 3 * V + Z.abs (S - 65536 * r) < 4 * V' + 4 ->
  0 <= es' -> 8 * P45 * es' <= 7 * (P45 + E1) * es + E1 * (7 * S + 65536 * r) + 8 * P45 * (65536 + 1) ->
  0 <= ev' -> 4 * P45 * ev' <= 3 * (P45 + E1) * ev + (P45 + E1) * es + E1 * (3 * V + Z.abs (S - 65536 * r)) + 4 * P45 * (65536 + 1) ->
  tmpl 0 35184372088832 268435488 33554436 456299672223065178112 S' V' es' ev'.
Proof. unfold tmpl, P45, E1. intros. lia. Qed.
Lemma inv1ms_650ms_step_65 S V es ev r S' V' es' ev' :
  65536000000 <= S <= 42598400000000 -> 0 <= V <= 42598400000000 ->

  tmpl 0 0 16777218 (-8388609) (-820022133117572608) S V es ev ->
  tmpl 35184372088832 0 150994962 0 311159808483668262912 S V es ev ->
  tmpl 35184372088832 0 167772180 0 244907030504182710272 S V es ev ->
  tmpl 0 35184372088832 268435488 0 717737541419268571136 S V es ev ->
  tmpl 0 35184372088832 301989924 0 569875734304903790592 S V es ev ->
  tmpl 0 35184372088832 335544360 0 452423358065647812608 S V es ev ->
  1000000 <= r <= 650000000 -> 0 <= es -> 0 <= ev ->
  8 * S' <= 7 * S + 65536 * r < 8 * S' + 8 ->
  4 * V' <= 3 * V + Z.abs (S - 65536 * r) < 4 * V' + 4 ->
  0 <= es' -> 8 * P45 * es' <= 7 * (P45 + E1) * es + E1 * (7 * S + 65536 * r) + 8 * P45 * (65536 + 1) ->
  0 <= ev' -> 4 * P45 * ev' <= 3 * (P45 + E1) * ev + (P45 + E1) * es + E1 * (3 * V + Z.abs (S - 65536 * r)) + 4 * P45 * (65536 + 1) ->
  tmpl 0 35184372088832 301989924 0 569875734304903790592 S' V' es' ev'.
Proof. unfold tmpl, P45, E1. intros. lia. Qed.
Lemma inv1ms_650ms_step_66 S V es ev r S' V' es' ev' :
  65536000000 <= S <= 42598400000000 -> 0 <= V <= 42598400000000 ->

  tmpl 35184372088832 0 184549398 0 194216237623767859200 S V es ev ->
  tmpl 35184372088832 0 201326616 0 156220244632019927040 S V es ev ->
  tmpl 0 35184372088832 268435488 33554436 456299672223065178112 S V es ev ->
  tmpl 0 35184372088832 301989924 33554436 364552820924801351680 S V es ev ->
  tmpl 0 35184372088832 335544360 0 452423358065647812608 S V es ev ->
  tmpl 0 35184372088832 335544360 33554436 294874422449291460608 S V es ev ->
  tmpl 0 35184372088832 369098796 0 360778367777643954176 S V es ev ->
  1000000 <= r <= 650000000 -> 0 <= es -> 0 <= ev ->
  8 * S' <= 7 * S + 65536 * r < 8 * S' + 8 ->
  4 * V' <= 3 * V + Z.abs (S - 65536 * r) < 4 * V' + 4 ->
  0 <= es' -> 8 * P45 * es' <= 7 * (P45 + E1) * es + E1 * (7 * S + 65536 * r) + 8 * P45 * (65536 + 1) ->
  0 <= ev' -> 4 * P45 * ev' <= 3 * (P45 + E1) * ev + (P45 + E1) * es + E1 * (3 * V + Z.abs (S - 65536 * r)) + 4 * P45 * (65536 + 1) ->
  tmpl 0 35184372088832 301989924 33554436 364552820924801351680 S' V' es' ev'.
Proof. unfold tmpl, P45, E1. intros. lia. Qed.
Lemma inv1ms_650ms_step_67 S V es ev r S' V' es' ev' :
  65536000000 <= S <= 42598400000000 -> 0 <= V <= 42598400000000 ->

  tmpl 0 0 16777218 (-8388609) (-820022133117572608) S V es ev ->
  tmpl 35184372088832 0 167772180 0 244907030504182710272 S V es ev ->
  tmpl 35184372088832 0 184549398 0 194216237623767859200 S V es ev ->
  tmpl 0 35184372088832 301989924 0 569875734304903790592 S V es ev ->
  tmpl 0 35184372088832 335544360 0 452423358065647812608 S V es ev ->
  tmpl 0 35184372088832 369098796 0 360778367777643954176 S V es ev ->
  1000000 <= r <= 650000000 -> 0 <= es -> 0 <= ev ->
  8 * S' <= 7 * S + 65536 * r < 8 * S' + 8 ->
  4 * V' <= 3 * V + Z.abs (S - 65536 * r) < 4 * V' + 4 ->
  0 <= es' -> 8 * P45 * es' <= 7 * (P45 + E1) * es + E1 * (7 * S + 65536 * r) + 8 * P45 * (65536 + 1) ->
  0 <= ev' -> 4 * P45 * ev' <= 3 * (P45 + E1) * ev + (P45 + E1) * es + E1 * (3 * V + Z.abs (S - 65536 * r)) + 4 * P45 * (65536 + 1) ->
  tmpl 0 35184372088832 335544360 0 452423358065647812608 S' V' es' ev'.
Proof. unfold tmpl, P45, E1. intros. lia. Qed.
Lemma inv1ms_650ms_step_68 S V es ev r S' V' es' ev' :
  65536000000 <= S <= 42598400000000 -> 0 <= V <= 42598400000000 ->

  tmpl 35184372088832 0 201326616 0 156220244632019927040 S V es ev ->
  tmpl 35184372088832 0 218103834 0 128656189891172794368 S V es ev ->
  tmpl 0 35184372088832 301989924 33554436 364552820924801351680 S V es ev ->
  tmpl 0 35184372088832 335544360 33554436 294874422449291460608 S V es ev ->
  tmpl 0 35184372088832 369098796 0 360778367777643954176 S V es ev ->
  tmpl 0 35184372088832 369098796 33554436 243907534057014951936 S V es ev ->
  tmpl 0 35184372088832 402653232 0 291137308515245064192 S V es ev ->
  1000000 <= r <= 650000000 -> 0 <= es -> 0 <= ev ->
  8 * S' <= 7 * S + 65536 * r < 8 * S' + 8 ->
  4 * V' <= 3 * V + Z.abs (S - 65536 * r) < 4 * V' + 4 ->
  0 <= es' -> 8 * P45 * es' <= 7 * (P45 + E1) * es + E1 * (7 * S + 65536 * r) + 8 * P45 * (65536 + 1) ->
  0 <= ev' -> 4 * P45 * ev' <= 3 * (P45 + E1) * ev + (P45 + E1) * es + E1 * (3 * V + Z.abs (S - 65536 * r)) + 4 * P45 * (65536 + 1) ->
  tmpl 0 35184372088832 335544360 33554436 294874422449291460608 S' V' es' ev'.
Proof. unfold tmpl, P45, E1. intros. lia. Qed.
Lemma inv1ms_650ms_step_69 S V es ev r S' V' es' ev' :
  65536000000 <= S <= 42598400000000 -> 0 <= V <= 42598400000000 ->

  tmpl 0 0 16777218 (-8388609) (-820022133117572608) S V es ev ->
  tmpl 35184372088832 0 184549398 0 194216237623767859200 S V es ev ->
  tmpl 35184372088832 0 201326616 0 156220244632019927040 S V es ev ->
  tmpl 35184372088832 0 218103834 0 128656189891172794368 S V es ev ->
  tmpl 0 35184372088832 335544360 0 452423358065647812608 S V es ev ->
  tmpl 0 35184372088832 369098796 0 360778367777643954176 S V es ev ->
  tmpl 0 35184372088832 402653232 0 291137308515245064192 S V es ev ->
  1000000 <= r <= 650000000 -> 0 <= es -> 0 <= ev ->
  8 * S' <= 7 * S + 65536 * r < 8 * S' + 8 ->
  4 * V' <= 3 * V + Z.abs (S - 65536 * r) < 4 * V' + 4 ->
  0 <= es' -> 8 * P45 * es' <= 7 * (P45 + E1) * es + E1 * (7 * S + 65536 * r) + 8 * P45 * (65536 + 1) ->
  0 <= ev' -> 4 * P45 * ev' <= 3 * (P45 + E1) * ev + (P45 + E1) * es + E1 * (3 * V + Z.abs (S - 65536 * r)) + 4 * P45 * (65536 + 1) ->
  tmpl 0 35184372088832 369098796 0 360778367777643954176 S' V' es' ev'.
Proof. unfold tmpl, P45, E1. intros. lia. Qed.
Lemma inv1ms_650ms_step_70 S V es ev r S' V' es' ev' :
  65536000000 <= S <= 42598400000000 -> 0 <= V <= 42598400000000 ->

  tmpl 35184372088832 0 218103834 0 128656189891172794368 S V es ev ->
  tmpl 35184372088832 0 234881052 0 109549387852147228672 S V es ev ->
  tmpl 0 35184372088832 335544360 33554436 294874422449291460608 S V es ev ->
  tmpl 0 35184372088832 369098796 33554436 243907534057014951936 S V es ev ->
  tmpl 0 35184372088832 402653232 0 291137308515245064192 S V es ev ->
  tmpl 0 35184372088832 402653232 33554436 208435982955420975104 S V es ev ->
  tmpl 0 35184372088832 436207668 0 240183854349014925312 S V es ev ->
  tmpl 0 35184372088832 469762104 0 204716958348242845696 S V es ev ->
  1000000 <= r <= 650000000 -> 0 <= es -> 0 <= ev ->
  8 * S' <= 7 * S + 65536 * r < 8 * S' + 8 ->
  4 * V' <= 3 * V + Z.abs (S - 65536 * r) < 4 * V' + 4 ->
  0 <= es' -> 8 * P45 * es' <= 7 * (P45 + E1) * es + E1 * (7 * S + 65536 * r) + 8 * P45 * (65536 + 1) ->
  0 <= ev' -> 4 * P45 * ev' <= 3 * (P45 + E1) * ev + (P45 + E1) * es + E1 * (3 * V + Z.abs (S - 65536 * r)) + 4 * P45 * (65536 + 1) ->
  tmpl 0 35184372088832 369098796 33554436 243907534057014951936 S' V' es' ev'.
Proof. unfold tmpl, P45, E1. intros. lia. Qed.
Lemma inv1ms_650ms_step_71 S V es ev r S' V' es' ev' :
  65536000000 <= S <= 42598400000000 -> 0 <= V <= 42598400000000 ->

  tmpl 0 0 16777218 (-8388609) (-820022133117572608) S V es ev ->
  tmpl 35184372088832 0 201326616 0 156220244632019927040 S V es ev ->
  tmpl 35184372088832 0 234881052 0 109549387852147228672 S V es ev ->
  tmpl 0 35184372088832 369098796 0 360778367777643954176 S V es ev ->
  tmpl 0 35184372088832 402653232 0 291137308515245064192 S V es ev ->
  tmpl 0 35184372088832 436207668 0 240183854349014925312 S V es ev ->
  tmpl 0 35184372088832 469762104 0 204716958348242845696 S V es ev ->
  1000000 <= r <= 650000000 -> 0 <= es -> 0 <= ev ->
  8 * S' <= 7 * S + 65536 * r < 8 * S' + 8 ->
  4 * V' <= 3 * V + Z.abs (S - 65536 * r) < 4 * V' + 4 ->
  0 <= es' -> 8 * P45 * es' <= 7 * (P45 + E1) * es + E1 * (7 * S + 65536 * r) + 8 * P45 * (65536 + 1) ->
  0 <= ev' -> 4 * P45 * ev' <= 3 * (P45 + E1) * ev + (P45 + E1) * es + E1 * (3 * V + Z.abs (S - 65536 * r)) + 4 * P45 * (65536 + 1) ->
  tmpl 0 35184372088832 402653232 0 291137308515245064192 S' V' es' ev'.
Proof. unfold tmpl, P45, E1. intros. lia. Qed.
Lemma inv1ms_650ms_step_72 S V es ev r S' V' es' ev' :
  65536000000 <= S <= 42598400000000 -> 0 <= V <= 42598400000000 ->

  tmpl 35184372088832 0 234881052 0 109549387852147228672 S V es ev ->
  tmpl 35184372088832 0 251658270 0 97020472845708066816 S V es ev ->
  tmpl 0 35184372088832 369098796 33554436 243907534057014951936 S V es ev ->
  tmpl 0 35184372088832 402653232 33554436 208435982955420975104 S V es ev ->
  tmpl 0 35184372088832 436207668 0 240183854349014925312 S V es ev ->
  tmpl 0 35184372088832 436207668 33554436 185159205075422085120 S V es ev ->
  tmpl 0 35184372088832 469762104 0 204716958348242845696 S V es ev ->
  tmpl 0 35184372088832 503316540 0 181441695158893707264 S V es ev ->
  1000000 <= r <= 650000000 -> 0 <= es -> 0 <= ev ->
  8 * S' <= 7 * S + 65536 * r < 8 * S' + 8 ->
  4 * V' <= 3 * V + Z.abs (S - 65536 * r) < 4 * V' + 4 ->
  0 <= es' -> 8 * P45 * es' <= 7 * (P45 + E1) * es + E1 * (7 * S + 65536 * r) + 8 * P45 * (65536 + 1) ->
  0 <= ev' -> 4 * P45 * ev' <= 3 * (P45 + E1) * ev + (P45 + E1) * es + E1 * (3 * V + Z.abs (S - 65536 * r)) + 4 * P45 * (65536 + 1) ->
  tmpl 0 35184372088832 402653232 33554436 208435982955420975104 S' V' es' ev'.
Proof. unfold tmpl, P45, E1. intros. lia. Qed.
Lemma inv1ms_650ms_step_73 S V es ev r S' V' es' ev' :
  65536000000 <= S <= 42598400000000 -> 0 <= V <= 42598400000000 ->

  tmpl 0 0 16777218 (-8388609) (-820022133117572608) S V es ev ->
  tmpl 35184372088832 0 218103834 0 128656189891172794368 S V es ev ->
  tmpl 35184372088832 0 251658270 0 97020472845708066816 S V es ev ->
  tmpl 0 35184372088832 402653232 0 291137308515245064192 S V es ev ->
  tmpl 0 35184372088832 436207668 0 240183854349014925312 S V es ev ->
  tmpl 0 35184372088832 469762104 0 204716958348242845696 S V es ev ->
  tmpl 0 35184372088832 503316540 0 181441695158893707264 S V es ev ->
  1000000 <= r <= 650000000 -> 0 <= es -> 0 <= ev ->
  8 * S' <= 7 * S + 65536 * r < 8 * S' + 8 ->
  4 * V' <= 3 * V + Z.abs (S - 65536 * r) < 4 * V' + 4 ->
  0 <= es' -> 8 * P45 * es' <= 7 * (P45 + E1) * es + E1 * (7 * S + 65536 * r) + 8 * P45 * (65536 + 1) ->
  0 <= ev' -> 4 * P45 * ev' <= 3 * (P45 + E1) * ev + (P45 + E1) * es + E1 * (3 * V + Z.abs (S - 65536 * r)) + 4 * P45 * (65536 + 1) ->
  tmpl 0 35184372088832 436207668 0 240183854349014925312 S' V' es' ev'.
Proof. unfold tmpl, P45, E1. intros. lia. Qed.
Lemma inv1ms_650ms_step_74 S V es ev r S' V' es' ev' :
  65536000000 <= S <= 42598400000000 -> 0 <= V <= 42598400000000 ->

  tmpl 35184372088832 0 251658270 0 97020472845708066816 S V es ev ->
  tmpl 35184372088832 0 268435488 0 89264210019393830912 S V es ev ->
  tmpl 35184372088832 0 285212706 0 84661829373195763712 S V es ev ->
  tmpl 0 35184372088832 402653232 33554436 208435982955420975104 S V es ev ->
  tmpl 0 35184372088832 436207668 33554436 185159205075422085120 S V es ev ->
  tmpl 0 35184372088832 469762104 0 204716958348242845696 S V es ev ->
  tmpl 0 35184372088832 469762104 33554436 170763984455168884736 S V es ev ->
  tmpl 0 35184372088832 536870976 0 167046923660688719872 S V es ev ->
  1000000 <= r <= 650000000 -> 0 <= es -> 0 <= ev ->
  8 * S' <= 7 * S + 65536 * r < 8 * S' + 8 ->
  4 * V' <= 3 * V + Z.abs (S - 65536 * r) < 4 * V' + 4 ->
  0 <= es' -> 8 * P45 * es' <= 7 * (P45 + E1) * es + E1 * (7 * S + 65536 * r) + 8 * P45 * (65536 + 1) ->
  0 <= ev' -> 4 * P45 * ev' <= 3 * (P45 + E1) * ev + (P45 + E1) * es + E1 * (3 * V + Z.abs (S - 65536 * r)) + 4 * P45 * (65536 + 1) ->
  tmpl 0 35184372088832 436207668 33554436 185159205075422085120 S' V' es' ev'.
Proof. unfold tmpl, P45, E1. intros. lia. Qed.
Lemma inv1ms_650ms_step_75 S V es ev r S' V' es' ev' :
  65536000000 <= S <= 42598400000000 -> 0 <= V <= 42598400000000 ->

  tmpl 0 0 16777218 (-8388609) (-820022133117572608) S V es ev ->
  tmpl 35184372088832 0 234881052 0 109549387852147228672 S V es ev ->
  tmpl 35184372088832 0 268435488 0 89264210019393830912 S V es ev ->
  tmpl 0 35184372088832 436207668 0 240183854349014925312 S V es ev ->
  tmpl 0 35184372088832 469762104 0 204716958348242845696 S V es ev ->
  tmpl 0 35184372088832 503316540 0 181441695158893707264 S V es ev ->
  tmpl 0 35184372088832 536870976 0 167046923660688719872 S V es ev ->
  1000000 <= r <= 650000000 -> 0 <= es -> 0 <= ev ->
  8 * S' <= 7 * S + 65536 * r < 8 * S' + 8 ->
  4 * V' <= 3 * V + Z.abs (S - 65536 * r) < 4 * V' + 4 ->
  0 <= es' -> 8 * P45 * es' <= 7 * (P45 + E1) * es + E1 * (7 * S + 65536 * r) + 8 * P45 * (65536 + 1) ->
  0 <= ev' -> 4 * P45 * ev' <= 3 * (P45 + E1) * ev + (P45 + E1) * es + E1 * (3 * V + Z.abs (S - 65536 * r)) + 4 * P45 * (65536 + 1) ->
  tmpl 0 35184372088832 469762104 0 204716958348242845696 S' V' es' ev'.
Proof. unfold tmpl, P45, E1. intros. lia. Qed.
Lemma inv1ms_650ms_step_76 S V es ev r S' V' es' ev' :
  65536000000 <= S <= 42598400000000 -> 0 <= V <= 42598400000000 ->

  tmpl 35184372088832 0 268435488 0 89264210019393830912 S V es ev ->
  tmpl 35184372088832 0 301989924 0 81921442140255387648 S V es ev ->
  tmpl 0 35184372088832 436207668 33554436 185159205075422085120 S V es ev ->
  tmpl 0 35184372088832 469762104 33554436 170763984455168884736 S V es ev ->
  tmpl 0 35184372088832 503316540 0 181441695158893707264 S V es ev ->
  tmpl 0 35184372088832 503316540 33554436 162221201110067380224 S V es ev ->
  tmpl 0 35184372088832 536870976 33554436 157103048667699937280 S V es ev ->
  tmpl 0 35184372088832 570425412 0 158504257619315851264 S V es ev ->
  1000000 <= r <= 650000000 -> 0 <= es -> 0 <= ev ->
  8 * S' <= 7 * S + 65536 * r < 8 * S' + 8 ->
  4 * V' <= 3 * V + Z.abs (S - 65536 * r) < 4 * V' + 4 ->
  0 <= es' -> 8 * P45 * es' <= 7 * (P45 + E1) * es + E1 * (7 * S + 65536 * r) + 8 * P45 * (65536 + 1) ->
  0 <= ev' -> 4 * P45 * ev' <= 3 * (P45 + E1) * ev + (P45 + E1) * es + E1 * (3 * V + Z.abs (S - 65536 * r)) + 4 * P45 * (65536 + 1) ->
  tmpl 0 35184372088832 469762104 33554436 170763984455168884736 S' V' es' ev'.
Proof. unfold tmpl, P45, E1. intros. lia. Qed.
Lemma inv1ms_650ms_step_77 S V es ev r S' V' es' ev' :
  65536000000 <= S <= 42598400000000 -> 0 <= V <= 42598400000000 ->

  tmpl 0 0 16777218 (-8388609) (-820022133117572608) S V es ev ->
  tmpl 35184372088832 0 251658270 0 97020472845708066816 S V es ev ->
  tmpl 35184372088832 0 285212706 0 84661829373195763712 S V es ev ->
  tmpl 0 35184372088832 469762104 0 204716958348242845696 S V es ev ->
  tmpl 0 35184372088832 503316540 0 181441695158893707264 S V es ev ->
  tmpl 0 35184372088832 536870976 0 167046923660688719872 S V es ev ->
  tmpl 0 35184372088832 570425412 0 158504257619315851264 S V es ev ->
  1000000 <= r <= 650000000 -> 0 <= es -> 0 <= ev ->
  8 * S' <= 7 * S + 65536 * r < 8 * S' + 8 ->
  4 * V' <= 3 * V + Z.abs (S - 65536 * r) < 4 * V' + 4 ->
  0 <= es' -> 8 * P45 * es' <= 7 * (P45 + E1) * es + E1 * (7 * S + 65536 * r) + 8 * P45 * (65536 + 1) ->
  0 <= ev' -> 4 * P45 * ev' <= 3 * (P45 + E1) * ev + (P45 + E1) * es + E1 * (3 * V + Z.abs (S - 65536 * r)) + 4 * P45 * (65536 + 1) ->
  tmpl 0 35184372088832 503316540 0 181441695158893707264 S' V' es' ev'.
Proof. unfold tmpl, P45, E1. intros. lia. Qed.
Lemma inv1ms_650ms_step_78 S V es ev r S' V' es' ev' :
  65536000000 <= S <= 42598400000000 -> 0 <= V <= 42598400000000 ->

  tmpl 35184372088832 0 285212706 0 84661829373195763712 S V es ev ->
  tmpl 35184372088832 0 318767142 0 80147688121855311872 S V es ev ->
  tmpl 0 35184372088832 469762104 33554436 170763984455168884736 S V es ev ->
  tmpl 0 35184372088832 503316540 33554436 162221201110067380224 S V es ev ->
  tmpl 0 35184372088832 536870976 0 167046923660688719872 S V es ev ->
  tmpl 0 35184372088832 536870976 33554436 157103048667699937280 S V es ev ->
  tmpl 0 35184372088832 570425412 33554436 153735604770786869248 S V es ev ->
  tmpl 0 35184372088832 603979848 0 153386130954277552128 S V es ev ->
  1000000 <= r <= 650000000 -> 0 <= es -> 0 <= ev ->
  8 * S' <= 7 * S + 65536 * r < 8 * S' + 8 ->
  4 * V' <= 3 * V + Z.abs (S - 65536 * r) < 4 * V' + 4 ->
  0 <= es' -> 8 * P45 * es' <= 7 * (P45 + E1) * es + E1 * (7 * S + 65536 * r) + 8 * P45 * (65536 + 1) ->
  0 <= ev' -> 4 * P45 * ev' <= 3 * (P45 + E1) * ev + (P45 + E1) * es + E1 * (3 * V + Z.abs (S - 65536 * r)) + 4 * P45 * (65536 + 1) ->
  tmpl 0 35184372088832 503316540 33554436 162221201110067380224 S' V' es' ev'.
Proof. unfold tmpl, P45, E1. intros. lia. Qed.
Lemma inv1ms_650ms_step_79 S V es ev r S' V' es' ev' :
  65536000000 <= S <= 42598400000000 -> 0 <= V <= 42598400000000 ->

  tmpl 0 0 16777218 (-8388609) (-820022133117572608) S V es ev ->
  tmpl 35184372088832 0 268435488 0 89264210019393830912 S V es ev ->
  tmpl 35184372088832 0 301989924 0 81921442140255387648 S V es ev ->
  tmpl 0 35184372088832 503316540 0 181441695158893707264 S V es ev ->
  tmpl 0 35184372088832 536870976 0 167046923660688719872 S V es ev ->
  tmpl 0 35184372088832 570425412 0 158504257619315851264 S V es ev ->
  tmpl 0 35184372088832 603979848 0 153386130954277552128 S V es ev ->
  1000000 <= r <= 650000000 -> 0 <= es -> 0 <= ev ->
  8 * S' <= 7 * S + 65536 * r < 8 * S' + 8 ->
  4 * V' <= 3 * V + Z.abs (S - 65536 * r) < 4 * V' + 4 ->
  0 <= es' -> 8 * P45 * es' <= 7 * (P45 + E1) * es + E1 * (7 * S + 65536 * r) + 8 * P45 * (65536 + 1) ->
  0 <= ev' -> 4 * P45 * ev' <= 3 * (P45 + E1) * ev + (P45 + E1) * es + E1 * (3 * V + Z.abs (S - 65536 * r)) + 4 * P45 * (65536 + 1) ->
  tmpl 0 35184372088832 536870976 0 167046923660688719872 S' V' es' ev'.
Proof. unfold tmpl, P45, E1. intros. lia. Qed.
Lemma inv1ms_650ms_step_80 S V es ev r S' V' es' ev' :
  65536000000 <= S <= 42598400000000 -> 0 <= V <= 42598400000000 ->

  tmpl 35184372088832 0 301989924 0 81921442140255387648 S V es ev ->
  tmpl 35184372088832 0 335544360 0 78808924128540590080 S V es ev ->
  tmpl 0 35184372088832 503316540 33554436 162221201110067380224 S V es ev ->
  tmpl 0 35184372088832 536870976 33554436 157103048667699937280 S V es ev ->
  tmpl 0 35184372088832 570425412 0 158504257619315851264 S V es ev ->
  tmpl 0 35184372088832 570425412 33554436 153735604770786869248 S V es ev ->
  tmpl 0 35184372088832 603979848 33554436 151137538017572749312 S V es ev ->
  tmpl 0 35184372088832 637534284 0 150018691316956856320 S V es ev ->
  1000000 <= r <= 650000000 -> 0 <= es -> 0 <= ev ->
  8 * S' <= 7 * S + 65536 * r < 8 * S' + 8 ->
  4 * V' <= 3 * V + Z.abs (S - 65536 * r) < 4 * V' + 4 ->
  0 <= es' -> 8 * P45 * es' <= 7 * (P45 + E1) * es + E1 * (7 * S + 65536 * r) + 8 * P45 * (65536 + 1) ->
  0 <= ev' -> 4 * P45 * ev' <= 3 * (P45 + E1) * ev + (P45 + E1) * es + E1 * (3 * V + Z.abs (S - 65536 * r)) + 4 * P45 * (65536 + 1) ->
  tmpl 0 35184372088832 536870976 33554436 157103048667699937280 S' V' es' ev'.
Proof. unfold tmpl, P45, E1. intros. lia. Qed.
Lemma inv1ms_650ms_step_81 S V es ev r S' V' es' ev' :
  65536000000 <= S <= 42598400000000 -> 0 <= V <= 42598400000000 ->

  tmpl 0 0 16777218 (-8388609) (-820022133117572608) S V es ev ->
  tmpl 35184372088832 0 285212706 0 84661829373195763712 S V es ev ->
  tmpl 35184372088832 0 318767142 0 80147688121855311872 S V es ev ->
  tmpl 0 35184372088832 536870976 0 167046923660688719872 S V es ev ->
  tmpl 0 35184372088832 570425412 0 158504257619315851264 S V es ev ->
  tmpl 0 35184372088832 603979848 0 153386130954277552128 S V es ev ->
  tmpl 0 35184372088832 637534284 0 150018691316956856320 S V es ev ->
  1000000 <= r <= 650000000 -> 0 <= es -> 0 <= ev ->
  8 * S' <= 7 * S + 65536 * r < 8 * S' + 8 ->
  4 * V' <= 3 * V + Z.abs (S - 65536 * r) < 4 * V' + 4 ->
  0 <= es' -> 8 * P45 * es' <= 7 * (P45 + E1) * es + E1 * (7 * S + 65536 * r) + 8 * P45 * (65536 + 1) ->
  0 <= ev' -> 4 * P45 * ev' <= 3 * (P45 + E1) * ev + (P45 + E1) * es + E1 * (3 * V + Z.abs (S - 65536 * r)) + 4 * P45 * (65536 + 1) ->
  tmpl 0 35184372088832 570425412 0 158504257619315851264 S' V' es' ev'.
Proof. unfold tmpl, P45, E1. intros. lia. Qed.
Lemma inv1ms_650ms_step_82 S V es ev r S' V' es' ev' :
  65536000000 <= S <= 42598400000000 -> 0 <= V <= 42598400000000 ->

  tmpl 35184372088832 0 318767142 0 80147688121855311872 S V es ev ->
  tmpl 35184372088832 0 352321578 0 77637392062984503296 S V es ev ->
  tmpl 35184372088832 0 369098796 0 76519886598574407680 S V es ev ->
  tmpl 0 35184372088832 536870976 33554436 157103048667699937280 S V es ev ->
  tmpl 0 35184372088832 570425412 33554436 153735604770786869248 S V es ev ->
  tmpl 0 35184372088832 603979848 0 153386130954277552128 S V es ev ->
  tmpl 0 35184372088832 637534284 0 150018691316956856320 S V es ev ->
  tmpl 0 35184372088832 637534284 33554436 148859164029440819200 S V es ev ->
  1000000 <= r <= 650000000 -> 0 <= es -> 0 <= ev ->
  8 * S' <= 7 * S + 65536 * r < 8 * S' + 8 ->
  4 * V' <= 3 * V + Z.abs (S - 65536 * r) < 4 * V' + 4 ->
  0 <= es' -> 8 * P45 * es' <= 7 * (P45 + E1) * es + E1 * (7 * S + 65536 * r) + 8 * P45 * (65536 + 1) ->
  0 <= ev' -> 4 * P45 * ev' <= 3 * (P45 + E1) * ev + (P45 + E1) * es + E1 * (3 * V + Z.abs (S - 65536 * r)) + 4 * P45 * (65536 + 1) ->
  tmpl 0 35184372088832 570425412 33554436 153735604770786869248 S' V' es' ev'.
Proof. unfold tmpl, P45, E1. intros. lia. Qed.
Lemma inv1ms_650ms_step_83 S V es ev r S' V' es' ev' :
  65536000000 <= S <= 42598400000000 -> 0 <= V <= 42598400000000 ->

  tmpl 0 0 16777218 (-8388609) (-820022133117572608) S V es ev ->
  tmpl 35184372088832 0 301989924 0 81921442140255387648 S V es ev ->
  tmpl 35184372088832 0 369098796 0 76519886598574407680 S V es ev ->
  tmpl 0 35184372088832 570425412 0 158504257619315851264 S V es ev ->
  tmpl 0 35184372088832 603979848 0 153386130954277552128 S V es ev ->
  tmpl 0 35184372088832 637534284 0 150018691316956856320 S V es ev ->
  tmpl 0 35184372088832 637534284 33554436 148859164029440819200 S V es ev ->
  1000000 <= r <= 650000000 -> 0 <= es -> 0 <= ev ->
  8 * S' <= 7 * S + 65536 * r < 8 * S' + 8 ->
  4 * V' <= 3 * V + Z.abs (S - 65536 * r) < 4 * V' + 4 ->
  0 <= es' -> 8 * P45 * es' <= 7 * (P45 + E1) * es + E1 * (7 * S + 65536 * r) + 8 * P45 * (65536 + 1) ->
  0 <= ev' -> 4 * P45 * ev' <= 3 * (P45 + E1) * ev + (P45 + E1) * es + E1 * (3 * V + Z.abs (S - 65536 * r)) + 4 * P45 * (65536 + 1) ->
  tmpl 0 35184372088832 603979848 0 153386130954277552128 S' V' es' ev'.
Proof. unfold tmpl, P45, E1. intros. lia. Qed.
Lemma inv1ms_650ms_step_84 S V es ev r S' V' es' ev' :
  65536000000 <= S <= 42598400000000 -> 0 <= V <= 42598400000000 ->

  tmpl 0 0 16777218 (-8388609) (-820022133117572608) S V es ev ->
  tmpl 35184372088832 0 335544360 0 78808924128540590080 S V es ev ->
  tmpl 35184372088832 0 436207668 0 72117580279886151680 S V es ev ->
  tmpl 35184372088832 0 452984886 0 71018068355903430656 S V es ev ->
  tmpl 0 35184372088832 570425412 33554436 153735604770786869248 S V es ev ->
  tmpl 0 35184372088832 603979848 33554436 151137538017572749312 S V es ev ->
  tmpl 0 35184372088832 637534284 0 150018691316956856320 S V es ev ->
  tmpl 0 35184372088832 637534284 33554436 148859164029440819200 S V es ev ->
  1000000 <= r <= 650000000 -> 0 <= es -> 0 <= ev ->
  8 * S' <= 7 * S + 65536 * r < 8 * S' + 8 ->
  4 * V' <= 3 * V + Z.abs (S - 65536 * r) < 4 * V' + 4 ->
  0 <= es' -> 8 * P45 * es' <= 7 * (P45 + E1) * es + E1 * (7 * S + 65536 * r) + 8 * P45 * (65536 + 1) ->
  0 <= ev' -> 4 * P45 * ev' <= 3 * (P45 + E1) * ev + (P45 + E1) * es + E1 * (3 * V + Z.abs (S - 65536 * r)) + 4 * P45 * (65536 + 1) ->
  tmpl 0 35184372088832 603979848 33554436 151137538017572749312 S' V' es' ev'.
Proof. unfold tmpl, P45, E1. intros. lia. Qed.
Lemma inv1ms_650ms_step_85 S V es ev r S' V' es' ev' :
  65536000000 <= S <= 42598400000000 -> 0 <= V <= 42598400000000 ->

  tmpl 0 0 16777218 (-8388609) (-820022133117572608) S V es ev ->
  tmpl 35184372088832 0 318767142 0 80147688121855311872 S V es ev ->
  tmpl 35184372088832 0 369098796 0 76519886598574407680 S V es ev ->
  tmpl 35184372088832 0 385876014 0 75416749541786271744 S V es ev ->
  tmpl 0 35184372088832 603979848 0 153386130954277552128 S V es ev ->
  tmpl 0 35184372088832 637534284 0 150018691316956856320 S V es ev ->
  tmpl 0 35184372088832 637534284 33554436 148859164029440819200 S V es ev ->
  1000000 <= r <= 650000000 -> 0 <= es -> 0 <= ev ->
  8 * S' <= 7 * S + 65536 * r < 8 * S' + 8 ->
  4 * V' <= 3 * V + Z.abs (S - 65536 * r) < 4 * V' + 4 ->
  0 <= es' -> 8 * P45 * es' <= 7 * (P45 + E1) * es + E1 * (7 * S + 65536 * r) + 8 * P45 * (65536 + 1) ->
  0 <= ev' -> 4 * P45 * ev' <= 3 * (P45 + E1) * ev + (P45 + E1) * es + E1 * (3 * V + Z.abs (S - 65536 * r)) + 4 * P45 * (65536 + 1) ->
  tmpl 0 35184372088832 637534284 0 150018691316956856320 S' V' es' ev'.
Proof. unfold tmpl, P45, E1. intros. lia. Qed.
Lemma inv1ms_650ms_step_86 S V es ev r S' V' es' ev' :
  65536000000 <= S <= 42598400000000 -> 0 <= V <= 42598400000000 ->

  tmpl 0 0 16777218 (-8388609) (-820022133117572608) S V es ev ->
  tmpl 35184372088832 0 352321578 0 77637392062984503296 S V es ev ->
  tmpl 35184372088832 0 452984886 0 71018068355903430656 S V es ev ->
  tmpl 0 35184372088832 603979848 33554436 151137538017572749312 S V es ev ->
  tmpl 0 35184372088832 637534284 0 150018691316956856320 S V es ev ->
  tmpl 0 35184372088832 637534284 33554436 148859164029440819200 S V es ev ->
  1000000 <= r <= 650000000 -> 0 <= es -> 0 <= ev ->
  8 * S' <= 7 * S + 65536 * r < 8 * S' + 8 ->
  4 * V' <= 3 * V + Z.abs (S - 65536 * r) < 4 * V' + 4 ->
  0 <= es' -> 8 * P45 * es' <= 7 * (P45 + E1) * es + E1 * (7 * S + 65536 * r) + 8 * P45 * (65536 + 1) ->
  0 <= ev' -> 4 * P45 * ev' <= 3 * (P45 + E1) * ev + (P45 + E1) * es + E1 * (3 * V + Z.abs (S - 65536 * r)) + 4 * P45 * (65536 + 1) ->
  tmpl 0 35184372088832 637534284 33554436 148859164029440819200 S' V' es' ev'.
Proof. unfold tmpl, P45, E1. intros. lia. Qed.
Lemma inv1ms_650ms_step_87 S V es ev r S' V' es' ev' :
  65536000000 <= S <= 42598400000000 -> 0 <= V <= 42598400000000 ->

  tmpl 35184372088832 0 0 0 2877466508466800033792 S V es ev ->
  tmpl 35184372088832 0 16777218 0 2242070879954330976256 S V es ev ->
  tmpl 35184372088832 140737521909764 0 0 19961800606591941083136 S V es ev ->
  1000000 <= r <= 650000000 -> 0 <= es -> 0 <= ev ->
  8 * S' <= 7 * S + 65536 * r < 8 * S' + 8 ->
  4 * V' <= 3 * V + Z.abs (S - 65536 * r) < 4 * V' + 4 ->
  0 <= es' -> 8 * P45 * es' <= 7 * (P45 + E1) * es + E1 * (7 * S + 65536 * r) + 8 * P45 * (65536 + 1) ->
  0 <= ev' -> 4 * P45 * ev' <= 3 * (P45 + E1) * ev + (P45 + E1) * es + E1 * (3 * V + Z.abs (S - 65536 * r)) + 4 * P45 * (65536 + 1) ->
  tmpl 35184372088832 140737521909764 0 0 19961800606591941083136 S' V' es' ev'.
Proof. unfold tmpl, P45, E1. intros. lia. Qed.
Lemma inv1ms_650ms_step_88 S V es ev r S' V' es' ev' :
  65536000000 <= S <= 42598400000000 -> 0 <= V <= 42598400000000 ->

  tmpl 35184372088832 0 0 0 2877466508466800033792 S V es ev ->
  tmpl 35184372088832 140737521909764 0 0 19961800606591941083136 S V es ev ->
  1000000 <= r <= 650000000 -> 0 <= es -> 0 <= ev ->
  8 * S' <= 7 * S + 65536 * r < 8 * S' + 8 ->
  4 * V' <= 3 * V + Z.abs (S - 65536 * r) < 4 * V' + 4 ->
  0 <= es' -> 8 * P45 * es' <= 7 * (P45 + E1) * es + E1 * (7 * S + 65536 * r) + 8 * P45 * (65536 + 1) ->
  0 <= ev' -> 4 * P45 * ev' <= 3 * (P45 + E1) * ev + (P45 + E1) * es + E1 * (3 * V + Z.abs (S - 65536 * r)) + 4 * P45 * (65536 + 1) ->
  tmpl 35184372088832 140737521909764 0 33554436 18577583936621525336064 S' V' es' ev'.
Proof. unfold tmpl, P45, E1. intros. lia. Qed.
Lemma inv1ms_650ms_step_89 S V es ev r S' V' es' ev' :
  65536000000 <= S <= 42598400000000 -> 0 <= V <= 42598400000000 ->

  tmpl 35184372088832 0 0 0 2877466508466800033792 S V es ev ->
  tmpl 35184372088832 140737521909764 0 0 19961800606591941083136 S V es ev ->
  tmpl 35184372088832 140737521909764 0 33554436 18577583936621525336064 S V es ev ->
  1000000 <= r <= 650000000 -> 0 <= es -> 0 <= ev ->
  8 * S' <= 7 * S + 65536 * r < 8 * S' + 8 ->
  4 * V' <= 3 * V + Z.abs (S - 65536 * r) < 4 * V' + 4 ->
  0 <= es' -> 8 * P45 * es' <= 7 * (P45 + E1) * es + E1 * (7 * S + 65536 * r) + 8 * P45 * (65536 + 1) ->
  0 <= ev' -> 4 * P45 * ev' <= 3 * (P45 + E1) * ev + (P45 + E1) * es + E1 * (3 * V + Z.abs (S - 65536 * r)) + 4 * P45 * (65536 + 1) ->
  tmpl 35184372088832 140737521909764 0 67108872 17539421426070543400960 S' V' es' ev'.
Proof. unfold tmpl, P45, E1. intros. lia. Qed.
Lemma inv1ms_650ms_step_90 S V es ev r S' V' es' ev' :
  65536000000 <= S <= 42598400000000 -> 0 <= V <= 42598400000000 ->

  tmpl 0 0 8388609 (-16777218) 428274587473769332736 S V es ev ->
  tmpl 35184372088832 0 16777218 0 2242070879954330976256 S V es ev ->
  tmpl 0 35184372088832 0 0 4282236851683024437248 S V es ev ->
  tmpl 109951162777600000 439804755968012500 274877906944 0 53663721722736790732800000 S V es ev ->
  1000000 <= r <= 650000000 -> 0 <= es -> 0 <= ev ->
  8 * S' <= 7 * S + 65536 * r < 8 * S' + 8 ->
  4 * V' <= 3 * V + Z.abs (S - 65536 * r) < 4 * V' + 4 ->
  0 <= es' -> 8 * P45 * es' <= 7 * (P45 + E1) * es + E1 * (7 * S + 65536 * r) + 8 * P45 * (65536 + 1) ->
  0 <= ev' -> 4 * P45 * ev' <= 3 * (P45 + E1) * ev + (P45 + E1) * es + E1 * (3 * V + Z.abs (S - 65536 * r)) + 4 * P45 * (65536 + 1) ->
  tmpl 109951162777600000 439804755968012500 274877906944 0 53663721722736790732800000 S' V' es' ev'.
Proof. unfold tmpl, P45, E1. intros. lia. Qed.
Lemma inv1ms_650ms_step_91 S V es ev r S' V' es' ev' :
  65536000000 <= S <= 42598400000000 -> 0 <= V <= 42598400000000 ->

  tmpl 0 0 8388609 (-16777218) 428274587473769332736 S V es ev ->
  tmpl 35184372088832 0 16777218 0 2242070879954330976256 S V es ev ->
  tmpl 0 35184372088832 0 0 4282236851683024437248 S V es ev ->
  tmpl 109951162777600000 439804755968012500 274877906944 0 53663721722736790732800000 S V es ev ->
  1000000 <= r <= 650000000 -> 0 <= es -> 0 <= ev ->
  8 * S' <= 7 * S + 65536 * r < 8 * S' + 8 ->
  4 * V' <= 3 * V + Z.abs (S - 65536 * r) < 4 * V' + 4 ->
  0 <= es' -> 8 * P45 * es' <= 7 * (P45 + E1) * es + E1 * (7 * S + 65536 * r) + 8 * P45 * (65536 + 1) ->
  0 <= ev' -> 4 * P45 * ev' <= 3 * (P45 + E1) * ev + (P45 + E1) * es + E1 * (3 * V + Z.abs (S - 65536 * r)) + 4 * P45 * (65536 + 1) ->
  tmpl 109951162777600000 439804755968012500 274877906944 104857612500 49633710230215177011200000 S' V' es' ev'.
Proof. unfold tmpl, P45, E1. intros. lia. Qed.
Lemma inv1ms_650ms_step_92 S V es ev r S' V' es' ev' :
  65536000000 <= S <= 42598400000000 -> 0 <= V <= 42598400000000 ->

  tmpl 35184372088832 0 16777218 0 2242070879954330976256 S V es ev ->
  tmpl 35184372088832 140737521909764 0 33554436 18577583936621525336064 S V es ev ->
  tmpl 109951162777600000 439804755968012500 274877906944 0 53663721722736790732800000 S V es ev ->
  tmpl 109951162777600000 439804755968012500 274877906944 104857612500 49633710230215177011200000 S V es ev ->
  1000000 <= r <= 650000000 -> 0 <= es -> 0 <= ev ->
  8 * S' <= 7 * S + 65536 * r < 8 * S' + 8 ->
  4 * V' <= 3 * V + Z.abs (S - 65536 * r) < 4 * V' + 4 ->
  0 <= es' -> 8 * P45 * es' <= 7 * (P45 + E1) * es + E1 * (7 * S + 65536 * r) + 8 * P45 * (65536 + 1) ->
  0 <= ev' -> 4 * P45 * ev' <= 3 * (P45 + E1) * ev + (P45 + E1) * es + E1 * (3 * V + Z.abs (S - 65536 * r)) + 4 * P45 * (65536 + 1) ->
  tmpl 109951162777600000 439804755968012500 274877906944 209715225000 45797896959514135756800000 S' V' es' ev'.
Proof. unfold tmpl, P45, E1. intros. lia. Qed.
Lemma inv1ms_650ms_step_93 S V es ev r S' V' es' ev' :
  65536000000 <= S <= 42598400000000 -> 0 <= V <= 42598400000000 ->

  tmpl 35184372088832 0 16777218 0 2242070879954330976256 S V es ev ->
  tmpl 35184372088832 140737521909764 0 67108872 17539421426070543400960 S V es ev ->
  tmpl 109951162777600000 439804755968012500 274877906944 209715225000 45797896959514135756800000 S V es ev ->
  tmpl 109951162777600000 439804755968012500 274877906944 419430450000 41013520526806443622400000 S V es ev ->
  1000000 <= r <= 650000000 -> 0 <= es -> 0 <= ev ->
  8 * S' <= 7 * S + 65536 * r < 8 * S' + 8 ->
  4 * V' <= 3 * V + Z.abs (S - 65536 * r) < 4 * V' + 4 ->
  0 <= es' -> 8 * P45 * es' <= 7 * (P45 + E1) * es + E1 * (7 * S + 65536 * r) + 8 * P45 * (65536 + 1) ->
  0 <= ev' -> 4 * P45 * ev' <= 3 * (P45 + E1) * ev + (P45 + E1) * es + E1 * (3 * V + Z.abs (S - 65536 * r)) + 4 * P45 * (65536 + 1) ->
  tmpl 109951162777600000 439804755968012500 274877906944 419430450000 41013520526806443622400000 S' V' es' ev'.
Proof. unfold tmpl, P45, E1. intros. lia. Qed.
Lemma inv1ms_650ms_step_94 S V es ev r S' V' es' ev' :
  65536000000 <= S <= 42598400000000 -> 0 <= V <= 42598400000000 ->

  tmpl 0 0 8388609 (-16777218) 428274587473769332736 S V es ev ->
  tmpl 0 0 8388609 (-8388609) 106665569490615615488 S V es ev ->
  tmpl 35184372088832 0 33554436 0 1747629895245335887872 S V es ev ->
  tmpl 109951162777600000 439804755968012500 274877906944 104857612500 49633710230215177011200000 S V es ev ->
  tmpl 109951162777600000 439804755968012500 549755813888 0 46668960995399617740800000 S V es ev ->
  1000000 <= r <= 650000000 -> 0 <= es -> 0 <= ev ->
  8 * S' <= 7 * S + 65536 * r < 8 * S' + 8 ->
  4 * V' <= 3 * V + Z.abs (S - 65536 * r) < 4 * V' + 4 ->
  0 <= es' -> 8 * P45 * es' <= 7 * (P45 + E1) * es + E1 * (7 * S + 65536 * r) + 8 * P45 * (65536 + 1) ->
  0 <= ev' -> 4 * P45 * ev' <= 3 * (P45 + E1) * ev + (P45 + E1) * es + E1 * (3 * V + Z.abs (S - 65536 * r)) + 4 * P45 * (65536 + 1) ->
  tmpl 109951162777600000 439804755968012500 549755813888 0 46668960995399617740800000 S' V' es' ev'.
Proof. unfold tmpl, P45, E1. intros. lia. Qed.
Lemma inv1ms_650ms_step_95 S V es ev r S' V' es' ev' :
  65536000000 <= S <= 42598400000000 -> 0 <= V <= 42598400000000 ->

  tmpl 0 0 8388609 (-8388609) 106665569490615615488 S V es ev ->
  tmpl 35184372088832 0 33554436 0 1747629895245335887872 S V es ev ->
  tmpl 109951162777600000 439804755968012500 274877906944 104857612500 49633710230215177011200000 S V es ev ->
  tmpl 109951162777600000 439804755968012500 549755813888 0 46668960995399617740800000 S V es ev ->
  1000000 <= r <= 650000000 -> 0 <= es -> 0 <= ev ->
  8 * S' <= 7 * S + 65536 * r < 8 * S' + 8 ->
  4 * V' <= 3 * V + Z.abs (S - 65536 * r) < 4 * V' + 4 ->
  0 <= es' -> 8 * P45 * es' <= 7 * (P45 + E1) * es + E1 * (7 * S + 65536 * r) + 8 * P45 * (65536 + 1) ->
  0 <= ev' -> 4 * P45 * ev' <= 3 * (P45 + E1) * ev + (P45 + E1) * es + E1 * (3 * V + Z.abs (S - 65536 * r)) + 4 * P45 * (65536 + 1) ->
  tmpl 109951162777600000 439804755968012500 549755813888 104857612500 43002903509903232204800000 S' V' es' ev'.
Proof. unfold tmpl, P45, E1. intros. lia. Qed.
Lemma inv1ms_650ms_step_96 S V es ev r S' V' es' ev' :
  65536000000 <= S <= 42598400000000 -> 0 <= V <= 42598400000000 ->

  tmpl 35184372088832 0 33554436 0 1747629895245335887872 S V es ev ->
  tmpl 109951162777600000 439804755968012500 274877906944 209715225000 45797896959514135756800000 S V es ev ->
  tmpl 109951162777600000 439804755968012500 549755813888 0 46668960995399617740800000 S V es ev ->
  tmpl 109951162777600000 439804755968012500 549755813888 104857612500 43002903509903232204800000 S V es ev ->
  1000000 <= r <= 650000000 -> 0 <= es -> 0 <= ev ->
  8 * S' <= 7 * S + 65536 * r < 8 * S' + 8 ->
  4 * V' <= 3 * V + Z.abs (S - 65536 * r) < 4 * V' + 4 ->
  0 <= es' -> 8 * P45 * es' <= 7 * (P45 + E1) * es + E1 * (7 * S + 65536 * r) + 8 * P45 * (65536 + 1) ->
  0 <= ev' -> 4 * P45 * ev' <= 3 * (P45 + E1) * ev + (P45 + E1) * es + E1 * (3 * V + Z.abs (S - 65536 * r)) + 4 * P45 * (65536 + 1) ->
  tmpl 109951162777600000 439804755968012500 549755813888 209715225000 39510810225110614016000000 S' V' es' ev'.
Proof. unfold tmpl, P45, E1. intros. lia. Qed.
Lemma inv1ms_650ms_step_97 S V es ev r S' V' es' ev' :
  65536000000 <= S <= 42598400000000 -> 0 <= V <= 42598400000000 ->

  tmpl 35184372088832 0 50331654 0 1362820312732891873280 S V es ev ->
  tmpl 109951162777600000 439804755968012500 274877906944 209715225000 45797896959514135756800000 S V es ev ->
  tmpl 109951162777600000 439804755968012500 549755813888 209715225000 39510810225110614016000000 S V es ev ->
  tmpl 109951162777600000 439804755968012500 549755813888 419430450000 33836225968747675648000000 S V es ev ->
  1000000 <= r <= 650000000 -> 0 <= es -> 0 <= ev ->
  8 * S' <= 7 * S + 65536 * r < 8 * S' + 8 ->
  4 * V' <= 3 * V + Z.abs (S - 65536 * r) < 4 * V' + 4 ->
  0 <= es' -> 8 * P45 * es' <= 7 * (P45 + E1) * es + E1 * (7 * S + 65536 * r) + 8 * P45 * (65536 + 1) ->
  0 <= ev' -> 4 * P45 * ev' <= 3 * (P45 + E1) * ev + (P45 + E1) * es + E1 * (3 * V + Z.abs (S - 65536 * r)) + 4 * P45 * (65536 + 1) ->
  tmpl 109951162777600000 439804755968012500 549755813888 419430450000 33836225968747675648000000 S' V' es' ev'.
Proof. unfold tmpl, P45, E1. intros. lia. Qed.
Lemma inv1ms_650ms_step_98 S V es ev r S' V' es' ev' :
  65536000000 <= S <= 42598400000000 -> 0 <= V <= 42598400000000 ->

  tmpl 35184372088832 0 50331654 33554436 884316247817185263616 S V es ev ->
  tmpl 109951162777600000 439804755968012500 274877906944 419430450000 41013520526806443622400000 S V es ev ->
  tmpl 109951162777600000 439804755968012500 549755813888 419430450000 33836225968747675648000000 S V es ev ->
  tmpl 109951162777600000 439804755968012500 549755813888 838860900000 28834154544893611212800000 S V es ev ->
  1000000 <= r <= 650000000 -> 0 <= es -> 0 <= ev ->
  8 * S' <= 7 * S + 65536 * r < 8 * S' + 8 ->
  4 * V' <= 3 * V + Z.abs (S - 65536 * r) < 4 * V' + 4 ->
  0 <= es' -> 8 * P45 * es' <= 7 * (P45 + E1) * es + E1 * (7 * S + 65536 * r) + 8 * P45 * (65536 + 1) ->
  0 <= ev' -> 4 * P45 * ev' <= 3 * (P45 + E1) * ev + (P45 + E1) * es + E1 * (3 * V + Z.abs (S - 65536 * r)) + 4 * P45 * (65536 + 1) ->
  tmpl 109951162777600000 439804755968012500 549755813888 838860900000 28834154544893611212800000 S' V' es' ev'.
Proof. unfold tmpl, P45, E1. intros. lia. Qed.
Lemma inv1ms_650ms_step_99 S V es ev r S' V' es' ev' :
  65536000000 <= S <= 42598400000000 -> 0 <= V <= 42598400000000 ->

  tmpl 0 0 8388609 (-8388609) 106665569490615615488 S V es ev ->
  tmpl 35184372088832 0 50331654 0 1362820312732891873280 S V es ev ->
  tmpl 109951162777600000 439804755968012500 549755813888 0 46668960995399617740800000 S V es ev ->
  tmpl 109951162777600000 439804755968012500 549755813888 104857612500 43002903509903232204800000 S V es ev ->
  tmpl 109951162777600000 439804755968012500 824633720832 0 40721307459685842944000000 S V es ev ->
  1000000 <= r <= 650000000 -> 0 <= es -> 0 <= ev ->
  8 * S' <= 7 * S + 65536 * r < 8 * S' + 8 ->
  4 * V' <= 3 * V + Z.abs (S - 65536 * r) < 4 * V' + 4 ->
  0 <= es' -> 8 * P45 * es' <= 7 * (P45 + E1) * es + E1 * (7 * S + 65536 * r) + 8 * P45 * (65536 + 1) ->
  0 <= ev' -> 4 * P45 * ev' <= 3 * (P45 + E1) * ev + (P45 + E1) * es + E1 * (3 * V + Z.abs (S - 65536 * r)) + 4 * P45 * (65536 + 1) ->
  tmpl 109951162777600000 439804755968012500 824633720832 0 40721307459685842944000000 S' V' es' ev'.
Proof. unfold tmpl, P45, E1. intros. lia. Qed.
Lemma inv1ms_650ms_step_100 S V es ev r S' V' es' ev' :
  65536000000 <= S <= 42598400000000 -> 0 <= V <= 42598400000000 ->

  tmpl 0 0 8388609 (-8388609) 106665569490615615488 S V es ev ->
  tmpl 35184372088832 0 50331654 0 1362820312732891873280 S V es ev ->
  tmpl 0 35184372088832 67108872 0 2658854277084935618560 S V es ev ->
  tmpl 109951162777600000 439804755968012500 549755813888 104857612500 43002903509903232204800000 S V es ev ->
  tmpl 109951162777600000 439804755968012500 824633720832 0 40721307459685842944000000 S V es ev ->
  1000000 <= r <= 650000000 -> 0 <= es -> 0 <= ev ->
  8 * S' <= 7 * S + 65536 * r < 8 * S' + 8 ->
  4 * V' <= 3 * V + Z.abs (S - 65536 * r) < 4 * V' + 4 ->
  0 <= es' -> 8 * P45 * es' <= 7 * (P45 + E1) * es + E1 * (7 * S + 65536 * r) + 8 * P45 * (65536 + 1) ->
  0 <= ev' -> 4 * P45 * ev' <= 3 * (P45 + E1) * ev + (P45 + E1) * es + E1 * (3 * V + Z.abs (S - 65536 * r)) + 4 * P45 * (65536 + 1) ->
  tmpl 109951162777600000 439804755968012500 824633720832 104857612500 37420548261335747788800000 S' V' es' ev'.
Proof. unfold tmpl, P45, E1. intros. lia. Qed.
Lemma inv1ms_650ms_step_101 S V es ev r S' V' es' ev' :
  65536000000 <= S <= 42598400000000 -> 0 <= V <= 42598400000000 ->

  tmpl 35184372088832 0 50331654 0 1362820312732891873280 S V es ev ->
  tmpl 109951162777600000 439804755968012500 549755813888 209715225000 39510810225110614016000000 S V es ev ->
  tmpl 109951162777600000 439804755968012500 824633720832 0 40721307459685842944000000 S V es ev ->
  tmpl 109951162777600000 439804755968012500 824633720832 104857612500 37420548261335747788800000 S V es ev ->
  tmpl 109951162777600000 439804755968012500 824633720832 209715225000 34272912017916585574400000 S V es ev ->
  tmpl 109951162777600000 439804755968012500 1099511627776 0 35627314248538954137600000 S V es ev ->
  1000000 <= r <= 650000000 -> 0 <= es -> 0 <= ev ->
  8 * S' <= 7 * S + 65536 * r < 8 * S' + 8 ->
  4 * V' <= 3 * V + Z.abs (S - 65536 * r) < 4 * V' + 4 ->
  0 <= es' -> 8 * P45 * es' <= 7 * (P45 + E1) * es + E1 * (7 * S + 65536 * r) + 8 * P45 * (65536 + 1) ->
  0 <= ev' -> 4 * P45 * ev' <= 3 * (P45 + E1) * ev + (P45 + E1) * es + E1 * (3 * V + Z.abs (S - 65536 * r)) + 4 * P45 * (65536 + 1) ->
  tmpl 109951162777600000 439804755968012500 824633720832 209715225000 34272912017916585574400000 S' V' es' ev'.
Proof. unfold tmpl, P45, E1. intros. lia. Qed.
Lemma inv1ms_650ms_step_102 S V es ev r S' V' es' ev' :
  65536000000 <= S <= 42598400000000 -> 0 <= V <= 42598400000000 ->

  tmpl 35184372088832 0 50331654 0 1362820312732891873280 S V es ev ->
  tmpl 35184372088832 0 67108872 0 1063279915641196904448 S V es ev ->
  tmpl 109951162777600000 439804755968012500 549755813888 419430450000 33836225968747675648000000 S V es ev ->
  tmpl 109951162777600000 439804755968012500 824633720832 209715225000 34272912017916585574400000 S V es ev ->
  tmpl 109951162777600000 439804755968012500 824633720832 419430450000 28816759000248129945600000 S V es ev ->
  1000000 <= r <= 650000000 -> 0 <= es -> 0 <= ev ->
  8 * S' <= 7 * S + 65536 * r < 8 * S' + 8 ->
  4 * V' <= 3 * V + Z.abs (S - 65536 * r) < 4 * V' + 4 ->
  0 <= es' -> 8 * P45 * es' <= 7 * (P45 + E1) * es + E1 * (7 * S + 65536 * r) + 8 * P45 * (65536 + 1) ->
  0 <= ev' -> 4 * P45 * ev' <= 3 * (P45 + E1) * ev + (P45 + E1) * es + E1 * (3 * V + Z.abs (S - 65536 * r)) + 4 * P45 * (65536 + 1) ->
  tmpl 109951162777600000 439804755968012500 824633720832 419430450000 28816759000248129945600000 S' V' es' ev'.
Proof. unfold tmpl, P45, E1. intros. lia. Qed.
Lemma inv1ms_650ms_step_103 S V es ev r S' V' es' ev' :
  65536000000 <= S <= 42598400000000 -> 0 <= V <= 42598400000000 ->

  tmpl 35184372088832 0 50331654 33554436 884316247817185263616 S V es ev ->
  tmpl 35184372088832 0 67108872 33554436 543327771809921695744 S V es ev ->
  tmpl 0 35184372088832 33554436 67108872 1955129539045752307712 S V es ev ->
  tmpl 109951162777600000 439804755968012500 824633720832 1677721800000 17441674136722066636800000 S V es ev ->
  1000000 <= r <= 650000000 -> 0 <= es -> 0 <= ev ->
  8 * S' <= 7 * S + 65536 * r < 8 * S' + 8 ->
  4 * V' <= 3 * V + Z.abs (S - 65536 * r) < 4 * V' + 4 ->
  0 <= es' -> 8 * P45 * es' <= 7 * (P45 + E1) * es + E1 * (7 * S + 65536 * r) + 8 * P45 * (65536 + 1) ->
  0 <= ev' -> 4 * P45 * ev' <= 3 * (P45 + E1) * ev + (P45 + E1) * es + E1 * (3 * V + Z.abs (S - 65536 * r)) + 4 * P45 * (65536 + 1) ->
  tmpl 109951162777600000 439804755968012500 824633720832 1677721800000 17441674136722066636800000 S' V' es' ev'.
Proof. unfold tmpl, P45, E1. intros. lia. Qed.
Lemma inv1ms_650ms_step_104 S V es ev r S' V' es' ev' :
  65536000000 <= S <= 42598400000000 -> 0 <= V <= 42598400000000 ->

  tmpl 0 0 8388609 (-8388609) 106665569490615615488 S V es ev ->
  tmpl 35184372088832 0 50331654 0 1362820312732891873280 S V es ev ->
  tmpl 0 35184372088832 67108872 0 2658854277084935618560 S V es ev ->
  tmpl 109951162777600000 439804755968012500 824633720832 0 40721307459685842944000000 S V es ev ->
  tmpl 109951162777600000 439804755968012500 1099511627776 0 35627314248538954137600000 S V es ev ->
  1000000 <= r <= 650000000 -> 0 <= es -> 0 <= ev ->
  8 * S' <= 7 * S + 65536 * r < 8 * S' + 8 ->
  4 * V' <= 3 * V + Z.abs (S - 65536 * r) < 4 * V' + 4 ->
  0 <= es' -> 8 * P45 * es' <= 7 * (P45 + E1) * es + E1 * (7 * S + 65536 * r) + 8 * P45 * (65536 + 1) ->
  0 <= ev' -> 4 * P45 * ev' <= 3 * (P45 + E1) * ev + (P45 + E1) * es + E1 * (3 * V + Z.abs (S - 65536 * r)) + 4 * P45 * (65536 + 1) ->
  tmpl 109951162777600000 439804755968012500 1099511627776 0 35627314248538954137600000 S' V' es' ev'.
Proof. unfold tmpl, P45, E1. intros. lia. Qed.
Lemma inv1ms_650ms_step_105 S V es ev r S' V' es' ev' :
  65536000000 <= S <= 42598400000000 -> 0 <= V <= 42598400000000 ->

  tmpl 0 0 8388609 (-8388609) 106665569490615615488 S V es ev ->
  tmpl 35184372088832 0 50331654 0 1362820312732891873280 S V es ev ->
  tmpl 35184372088832 0 67108872 0 1063279915641196904448 S V es ev ->
  tmpl 0 35184372088832 67108872 0 2658854277084935618560 S V es ev ->
  tmpl 109951162777600000 439804755968012500 1099511627776 0 35627314248538954137600000 S V es ev ->
  tmpl 109951162777600000 439804755968012500 1099511627776 104857612500 32667584955783308902400000 S V es ev ->
  1000000 <= r <= 650000000 -> 0 <= es -> 0 <= ev ->
  8 * S' <= 7 * S + 65536 * r < 8 * S' + 8 ->
  4 * V' <= 3 * V + Z.abs (S - 65536 * r) < 4 * V' + 4 ->
  0 <= es' -> 8 * P45 * es' <= 7 * (P45 + E1) * es + E1 * (7 * S + 65536 * r) + 8 * P45 * (65536 + 1) ->
  0 <= ev' -> 4 * P45 * ev' <= 3 * (P45 + E1) * ev + (P45 + E1) * es + E1 * (3 * V + Z.abs (S - 65536 * r)) + 4 * P45 * (65536 + 1) ->
  tmpl 109951162777600000 439804755968012500 1099511627776 104857612500 32667584955783308902400000 S' V' es' ev'.
Proof. unfold tmpl, P45, E1. intros. lia. Qed.
Lemma inv1ms_650ms_step_106 S V es ev r S' V' es' ev' :
  65536000000 <= S <= 42598400000000 -> 0 <= V <= 42598400000000 ->

  tmpl 35184372088832 0 67108872 0 1063279915641196904448 S V es ev ->
  tmpl 0 35184372088832 100663308 0 2139639364575292293120 S V es ev ->
  tmpl 109951162777600000 439804755968012500 824633720832 209715225000 34272912017916585574400000 S V es ev ->
  tmpl 109951162777600000 439804755968012500 1099511627776 0 35627314248538954137600000 S V es ev ->
  tmpl 109951162777600000 439804755968012500 1099511627776 104857612500 32667584955783308902400000 S V es ev ->
  tmpl 109951162777600000 439804755968012500 1099511627776 209715225000 29849675298388167884800000 S V es ev ->
  1000000 <= r <= 650000000 -> 0 <= es -> 0 <= ev ->
  8 * S' <= 7 * S + 65536 * r < 8 * S' + 8 ->
  4 * V' <= 3 * V + Z.abs (S - 65536 * r) < 4 * V' + 4 ->
  0 <= es' -> 8 * P45 * es' <= 7 * (P45 + E1) * es + E1 * (7 * S + 65536 * r) + 8 * P45 * (65536 + 1) ->
  0 <= ev' -> 4 * P45 * ev' <= 3 * (P45 + E1) * ev + (P45 + E1) * es + E1 * (3 * V + Z.abs (S - 65536 * r)) + 4 * P45 * (65536 + 1) ->
  tmpl 109951162777600000 439804755968012500 1099511627776 209715225000 29849675298388167884800000 S' V' es' ev'.
Proof. unfold tmpl, P45, E1. intros. lia. Qed.
Lemma inv1ms_650ms_step_107 S V es ev r S' V' es' ev' :
  65536000000 <= S <= 42598400000000 -> 0 <= V <= 42598400000000 ->

  tmpl 35184372088832 0 67108872 0 1063279915641196904448 S V es ev ->
  tmpl 35184372088832 0 83886090 0 830061870981077401600 S V es ev ->
  tmpl 0 35184372088832 67108872 33554436 1784664598824412512256 S V es ev ->
  tmpl 109951162777600000 439804755968012500 824633720832 419430450000 28816759000248129945600000 S V es ev ->
  tmpl 109951162777600000 439804755968012500 1099511627776 209715225000 29849675298388167884800000 S V es ev ->
  tmpl 109951162777600000 439804755968012500 1099511627776 419430450000 24913354653544303820800000 S V es ev ->
  1000000 <= r <= 650000000 -> 0 <= es -> 0 <= ev ->
  8 * S' <= 7 * S + 65536 * r < 8 * S' + 8 ->
  4 * V' <= 3 * V + Z.abs (S - 65536 * r) < 4 * V' + 4 ->
  0 <= es' -> 8 * P45 * es' <= 7 * (P45 + E1) * es + E1 * (7 * S + 65536 * r) + 8 * P45 * (65536 + 1) ->
  0 <= ev' -> 4 * P45 * ev' <= 3 * (P45 + E1) * ev + (P45 + E1) * es + E1 * (3 * V + Z.abs (S - 65536 * r)) + 4 * P45 * (65536 + 1) ->
  tmpl 109951162777600000 439804755968012500 1099511627776 419430450000 24913354653544303820800000 S' V' es' ev'.
Proof. unfold tmpl, P45, E1. intros. lia. Qed.
Lemma inv1ms_650ms_step_108 S V es ev r S' V' es' ev' :
  65536000000 <= S <= 42598400000000 -> 0 <= V <= 42598400000000 ->

  tmpl 35184372088832 0 67108872 33554436 543327771809921695744 S V es ev ->
  tmpl 35184372088832 0 83886090 0 830061870981077401600 S V es ev ->
  tmpl 109951162777600000 439804755968012500 1099511627776 419430450000 24913354653544303820800000 S V es ev ->
  tmpl 109951162777600000 439804755968012500 1099511627776 838860900000 18743529067647379046400000 S V es ev ->
  1000000 <= r <= 650000000 -> 0 <= es -> 0 <= ev ->
  8 * S' <= 7 * S + 65536 * r < 8 * S' + 8 ->
  4 * V' <= 3 * V + Z.abs (S - 65536 * r) < 4 * V' + 4 ->
  0 <= es' -> 8 * P45 * es' <= 7 * (P45 + E1) * es + E1 * (7 * S + 65536 * r) + 8 * P45 * (65536 + 1) ->
  0 <= ev' -> 4 * P45 * ev' <= 3 * (P45 + E1) * ev + (P45 + E1) * es + E1 * (3 * V + Z.abs (S - 65536 * r)) + 4 * P45 * (65536 + 1) ->
  tmpl 109951162777600000 439804755968012500 1099511627776 838860900000 18743529067647379046400000 S' V' es' ev'.
Proof. unfold tmpl, P45, E1. intros. lia. Qed.
Lemma inv1ms_650ms_step_109 S V es ev r S' V' es' ev' :
  65536000000 <= S <= 42598400000000 -> 0 <= V <= 42598400000000 ->

  tmpl 35184372088832 0 67108872 33554436 543327771809921695744 S V es ev ->
  tmpl 0 35184372088832 67108872 67108872 1326611854677505474560 S V es ev ->
  tmpl 0 35184372088832 100663308 67108872 987585203811506847744 S V es ev ->
  tmpl 109951162777600000 439804755968012500 1099511627776 1677721800000 12725096578756435968000000 S V es ev ->
  1000000 <= r <= 650000000 -> 0 <= es -> 0 <= ev ->
  8 * S' <= 7 * S + 65536 * r < 8 * S' + 8 ->
  4 * V' <= 3 * V + Z.abs (S - 65536 * r) < 4 * V' + 4 ->
  0 <= es' -> 8 * P45 * es' <= 7 * (P45 + E1) * es + E1 * (7 * S + 65536 * r) + 8 * P45 * (65536 + 1) ->
  0 <= ev' -> 4 * P45 * ev' <= 3 * (P45 + E1) * ev + (P45 + E1) * es + E1 * (3 * V + Z.abs (S - 65536 * r)) + 4 * P45 * (65536 + 1) ->
  tmpl 109951162777600000 439804755968012500 1099511627776 1677721800000 12725096578756435968000000 S' V' es' ev'.
Proof. unfold tmpl, P45, E1. intros. lia. Qed.
Lemma inv1ms_650ms_step_110 S V es ev r S' V' es' ev' :
  65536000000 <= S <= 42598400000000 -> 0 <= V <= 42598400000000 ->

  tmpl 35184372088832 0 67108872 67108872 371471404283206434816 S V es ev ->
  tmpl 0 35184372088832 67108872 134217744 906708345435608186880 S V es ev ->
  tmpl 0 35184372088832 100663308 134217744 607345837593670189056 S V es ev ->
  tmpl 109951162777600000 439804755968012500 1099511627776 3355443600000 8282118462508079513600000 S V es ev ->
  1000000 <= r <= 650000000 -> 0 <= es -> 0 <= ev ->
  8 * S' <= 7 * S + 65536 * r < 8 * S' + 8 ->
  4 * V' <= 3 * V + Z.abs (S - 65536 * r) < 4 * V' + 4 ->
  0 <= es' -> 8 * P45 * es' <= 7 * (P45 + E1) * es + E1 * (7 * S + 65536 * r) + 8 * P45 * (65536 + 1) ->
  0 <= ev' -> 4 * P45 * ev' <= 3 * (P45 + E1) * ev + (P45 + E1) * es + E1 * (3 * V + Z.abs (S - 65536 * r)) + 4 * P45 * (65536 + 1) ->
  tmpl 109951162777600000 439804755968012500 1099511627776 3355443600000 8282118462508079513600000 S' V' es' ev'.
Proof. unfold tmpl, P45, E1. intros. lia. Qed.
Lemma inv1ms_650ms_step_111 S V es ev r S' V' es' ev' :
  65536000000 <= S <= 42598400000000 -> 0 <= V <= 42598400000000 ->

  tmpl 35184372088832 0 67108872 134217744 259344637613773324288 S V es ev ->
  tmpl 35184372088832 0 83886090 67108872 231317784994332377088 S V es ev ->
  tmpl 109951162777600000 439804755968012500 1099511627776 3355443600000 8282118462508079513600000 S V es ev ->
  tmpl 109951162777600000 439804755968012500 1099511627776 4293188898604 6884438688374521856000000 S V es ev ->
  1000000 <= r <= 650000000 -> 0 <= es -> 0 <= ev ->
  8 * S' <= 7 * S + 65536 * r < 8 * S' + 8 ->
  4 * V' <= 3 * V + Z.abs (S - 65536 * r) < 4 * V' + 4 ->
  0 <= es' -> 8 * P45 * es' <= 7 * (P45 + E1) * es + E1 * (7 * S + 65536 * r) + 8 * P45 * (65536 + 1) ->
  0 <= ev' -> 4 * P45 * ev' <= 3 * (P45 + E1) * ev + (P45 + E1) * es + E1 * (3 * V + Z.abs (S - 65536 * r)) + 4 * P45 * (65536 + 1) ->
  tmpl 109951162777600000 439804755968012500 1099511627776 4293188898604 6884438688374521856000000 S' V' es' ev'.
Proof. unfold tmpl, P45, E1. intros. lia. Qed.
Lemma Inv1ms_650ms_step S V es ev r S' V' es' ev' : Inv1ms_650ms S V es ev ->
  1000000 <= r <= 650000000 -> 0 <= es -> 0 <= ev ->
  8 * S' <= 7 * S + 65536 * r < 8 * S' + 8 ->
  4 * V' <= 3 * V + Z.abs (S - 65536 * r) < 4 * V' + 4 ->
  0 <= es' -> 8 * P45 * es' <= 7 * (P45 + E1) * es + E1 * (7 * S + 65536 * r) + 8 * P45 * (65536 + 1) ->
  0 <= ev' -> 4 * P45 * ev' <= 3 * (P45 + E1) * ev + (P45 + E1) * es + E1 * (3 * V + Z.abs (S - 65536 * r)) + 4 * P45 * (65536 + 1) ->
  Inv1ms_650ms S' V' es' ev'.
Proof.
  intros [[[[[[B1 [B2 H4]] [H5 [H6 H7]]] [[H8 [H9 H10]] [[H11 H12] [H13 H14]]]] [[[H15 [H16 H17]] [[H18 H19] [H20 H21]]] [[H22 [H23 H24]] [[H25 H26] [H27 H28]]]]] [[[[H29 [H30 H31]] [[H32 H33] [H34 H35]]] [[H36 [H37 H38]] [[H39 H40] [H41 H42]]]] [[[H43 [H44 H45]] [[H46 H47] [H48 H49]]] [[H50 [H51 H52]] [[H53 H54] [H55 H56]]]]]] [[[[[H57 [H58 H59]] [H60 [H61 H62]]] [[H63 [H64 H65]] [[H66 H67] [H68 H69]]]] [[[H70 [H71 H72]] [[H73 H74] [H75 H76]]] [[H77 [H78 H79]] [[H80 H81] [H82 H83]]]]] [[[[H84 [H85 H86]] [[H87 H88] [H89 H90]]] [[H91 [H92 H93]] [[H94 H95] [H96 H97]]]] [[[H98 [H99 H100]] [[H101 H102] [H103 H104]]] [[H105 [H106 H107]] [[H108 H109] [H110 H111]]]]]]] Hr He Hv HS HV He' Re Hv' Rv.
  unfold Inv1ms_650ms.
  split; [split; [split; [split; [split; [split; [lia|split; [lia|apply (inv1ms_650ms_step_4 S V es ev r S' V' es' ev'); assumption]]|split; [apply (inv1ms_650ms_step_5 S V es ev r S' V' es' ev'); assumption|split; [apply (inv1ms_650ms_step_6 S V es ev r S' V' es' ev'); assumption|apply (inv1ms_650ms_step_7 S V es ev r S' V' es' ev'); assumption]]]|split; [split; [apply (inv1ms_650ms_step_8 S V es ev r S' V' es' ev'); assumption|split; [apply (inv1ms_650ms_step_9 S V es ev r S' V' es' ev'); assumption|apply (inv1ms_650ms_step_10 S V es ev r S' V' es' ev'); assumption]]|split; [split; [apply (inv1ms_650ms_step_11 S V es ev r S' V' es' ev'); assumption|apply (inv1ms_650ms_step_12 S V es ev r S' V' es' ev'); assumption]|split; [apply (inv1ms_650ms_step_13 S V es ev r S' V' es' ev'); assumption|apply (inv1ms_650ms_step_14 S V es ev r S' V' es' ev'); assumption]]]]|split; [split; [split; [apply (inv1ms_650ms_step_15 S V es ev r S' V' es' ev'); assumption|split; [apply (inv1ms_650ms_step_16 S V es ev r S' V' es' ev'); assumption|apply (inv1ms_650ms_step_17 S V es ev r S' V' es' ev'); assumption]]|split; [split; [apply (inv1ms_650ms_step_18 S V es ev r S' V' es' ev'); assumption|apply (inv1ms_650ms_step_19 S V es ev r S' V' es' ev'); assumption]|split; [apply (inv1ms_650ms_step_20 S V es ev r S' V' es' ev'); assumption|apply (inv1ms_650ms_step_21 S V es ev r S' V' es' ev'); assumption]]]|split; [split; [apply (inv1ms_650ms_step_22 S V es ev r S' V' es' ev'); assumption|split; [apply (inv1ms_650ms_step_23 S V es ev r S' V' es' ev'); assumption|apply (inv1ms_650ms_step_24 S V es ev r S' V' es' ev'); assumption]]|split; [split; [apply (inv1ms_650ms_step_25 S V es ev r S' V' es' ev'); assumption|apply (inv1ms_650ms_step_26 S V es ev r S' V' es' ev'); assumption]|split; [apply (inv1ms_650ms_step_27 S V es ev r S' V' es' ev'); assumption|apply (inv1ms_650ms_step_28 S V es ev r S' V' es' ev'); assumption]]]]]|split; [split; [split; [split; [apply (inv1ms_650ms_step_29 S V es ev r S' V' es' ev'); assumption|split; [apply (inv1ms_650ms_step_30 S V es ev r S' V' es' ev'); assumption|apply (inv1ms_650ms_step_31 S V es ev r S' V' es' ev'); assumption]]|split; [split; [apply (inv1ms_650ms_step_32 S V es ev r S' V' es' ev'); assumption|apply (inv1ms_650ms_step_33 S V es ev r S' V' es' ev'); assumption]|split; [apply (inv1ms_650ms_step_34 S V es ev r S' V' es' ev'); assumption|apply (inv1ms_650ms_step_35 S V es ev r S' V' es' ev'); assumption]]]|split; [split; [apply (inv1ms_650ms_step_36 S V es ev r S' V' es' ev'); assumption|split; [apply (inv1ms_650ms_step_37 S V es ev r S' V' es' ev'); assumption|apply (inv1ms_650ms_step_38 S V es ev r S' V' es' ev'); assumption]]|split; [split; [apply (inv1ms_650ms_step_39 S V es ev r S' V' es' ev'); assumption|apply (inv1ms_650ms_step_40 S V es ev r S' V' es' ev'); assumption]|split; [apply (inv1ms_650ms_step_41 S V es ev r S' V' es' ev'); assumption|apply (inv1ms_650ms_step_42 S V es ev r S' V' es' ev'); assumption]]]]|split; [split; [split; [apply (inv1ms_650ms_step_43 S V es ev r S' V' es' ev'); assumption|split; [apply (inv1ms_650ms_step_44 S V es ev r S' V' es' ev'); assumption|apply (inv1ms_650ms_step_45 S V es ev r S' V' es' ev'); assumption]]|split; [split; [apply (inv1ms_650ms_step_46 S V es ev r S' V' es' ev'); assumption|apply (inv1ms_650ms_step_47 S V es ev r S' V' es' ev'); assumption]|split; [apply (inv1ms_650ms_step_48 S V es ev r S' V' es' ev'); assumption|apply (inv1ms_650ms_step_49 S V es ev r S' V' es' ev'); assumption]]]|split; [split; [apply (inv1ms_650ms_step_50 S V es ev r S' V' es' ev'); assumption|split; [apply (inv1ms_650ms_step_51 S V es ev r S' V' es' ev'); assumption|apply (inv1ms_650ms_step_52 S V es ev r S' V' es' ev'); assumption]]|split; [split; [apply (inv1ms_650ms_step_53 S V es ev r S' V' es' ev'); assumption|apply (inv1ms_650ms_step_54 S V es ev r S' V' es' ev'); assumption]|split; [apply (inv1ms_650ms_step_55 S V es ev r S' V' es' ev'); assumption|apply (inv1ms_650ms_step_56 S V es ev r S' V' es' ev'); assumption]]]]]]|split; [split; [split; [split; [split; [apply (inv1ms_650ms_step_57 S V es ev r S' V' es' ev'); assumption|split; [apply (inv1ms_650ms_step_58 S V es ev r S' V' es' ev'); assumption|apply (inv1ms_650ms_step_59 S V es ev r S' V' es' ev'); assumption]]|split; [apply (inv1ms_650ms_step_60 S V es ev r S' V' es' ev'); assumption|split; [apply (inv1ms_650ms_step_61 S V es ev r S' V' es' ev'); assumption|apply (inv1ms_650ms_step_62 S V es ev r S' V' es' ev'); assumption]]]|split; [split; [apply (inv1ms_650ms_step_63 S V es ev r S' V' es' ev'); assumption|split; [apply (inv1ms_650ms_step_64 S V es ev r S' V' es' ev'); assumption|apply (inv1ms_650ms_step_65 S V es ev r S' V' es' ev'); assumption]]|split; [split; [apply (inv1ms_650ms_step_66 S V es ev r S' V' es' ev'); assumption|apply (inv1ms_650ms_step_67 S V es ev r S' V' es' ev'); assumption]|split; [apply (inv1ms_650ms_step_68 S V es ev r S' V' es' ev'); assumption|apply (inv1ms_650ms_step_69 S V es ev r S' V' es' ev'); assumption]]]]|split; [split; [split; [apply (inv1ms_650ms_step_70 S V es ev r S' V' es' ev'); assumption|split; [apply (inv1ms_650ms_step_71 S V es ev r S' V' es' ev'); assumption|apply (inv1ms_650ms_step_72 S V es ev r S' V' es' ev'); assumption]]|split; [split; [apply (inv1ms_650ms_step_73 S V es ev r S' V' es' ev'); assumption|apply (inv1ms_650ms_step_74 S V es ev r S' V' es' ev'); assumption]|split; [apply (inv1ms_650ms_step_75 S V es ev r S' V' es' ev'); assumption|apply (inv1ms_650ms_step_76 S V es ev r S' V' es' ev'); assumption]]]|split; [split; [apply (inv1ms_650ms_step_77 S V es ev r S' V' es' ev'); assumption|split; [apply (inv1ms_650ms_step_78 S V es ev r S' V' es' ev'); assumption|apply (inv1ms_650ms_step_79 S V es ev r S' V' es' ev'); assumption]]|split; [split; [apply (inv1ms_650ms_step_80 S V es ev r S' V' es' ev'); assumption|apply (inv1ms_650ms_step_81 S V es ev r S' V' es' ev'); assumption]|split; [apply (inv1ms_650ms_step_82 S V es ev r S' V' es' ev'); assumption|apply (inv1ms_650ms_step_83 S V es ev r S' V' es' ev'); assumption]]]]]|split; [split; [split; [split; [apply (inv1ms_650ms_step_84 S V es ev r S' V' es' ev'); assumption|split; [apply (inv1ms_650ms_step_85 S V es ev r S' V' es' ev'); assumption|apply (inv1ms_650ms_step_86 S V es ev r S' V' es' ev'); assumption]]|split; [split; [apply (inv1ms_650ms_step_87 S V es ev r S' V' es' ev'); assumption|apply (inv1ms_650ms_step_88 S V es ev r S' V' es' ev'); assumption]|split; [apply (inv1ms_650ms_step_89 S V es ev r S' V' es' ev'); assumption|apply (inv1ms_650ms_step_90 S V es ev r S' V' es' ev'); assumption]]]|split; [split; [apply (inv1ms_650ms_step_91 S V es ev r S' V' es' ev'); assumption|split; [apply (inv1ms_650ms_step_92 S V es ev r S' V' es' ev'); assumption|apply (inv1ms_650ms_step_93 S V es ev r S' V' es' ev'); assumption]]|split; [split; [apply (inv1ms_650ms_step_94 S V es ev r S' V' es' ev'); assumption|apply (inv1ms_650ms_step_95 S V es ev r S' V' es' ev'); assumption]|split; [apply (inv1ms_650ms_step_96 S V es ev r S' V' es' ev'); assumption|apply (inv1ms_650ms_step_97 S V es ev r S' V' es' ev'); assumption]]]]|split; [split; [split; [apply (inv1ms_650ms_step_98 S V es ev r S' V' es' ev'); assumption|split; [apply (inv1ms_650ms_step_99 S V es ev r S' V' es' ev'); assumption|apply (inv1ms_650ms_step_100 S V es ev r S' V' es' ev'); assumption]]|split; [split; [apply (inv1ms_650ms_step_101 S V es ev r S' V' es' ev'); assumption|apply (inv1ms_650ms_step_102 S V es ev r S' V' es' ev'); assumption]|split; [apply (inv1ms_650ms_step_103 S V es ev r S' V' es' ev'); assumption|apply (inv1ms_650ms_step_104 S V es ev r S' V' es' ev'); assumption]]]|split; [split; [apply (inv1ms_650ms_step_105 S V es ev r S' V' es' ev'); assumption|split; [apply (inv1ms_650ms_step_106 S V es ev r S' V' es' ev'); assumption|apply (inv1ms_650ms_step_107 S V es ev r S' V' es' ev'); assumption]]|split; [split; [apply (inv1ms_650ms_step_108 S V es ev r S' V' es' ev'); assumption|apply (inv1ms_650ms_step_109 S V es ev r S' V' es' ev'); assumption]|split; [apply (inv1ms_650ms_step_110 S V es ev r S' V' es' ev'); assumption|apply (inv1ms_650ms_step_111 S V es ev r S' V' es' ev'); assumption]]]]]]].
Qed.
Lemma Inv1ms_650ms_mono S V es ev es' ev' : Inv1ms_650ms S V es ev -> 0 <= es' <= es -> 0 <= ev' <= ev -> Inv1ms_650ms S V es' ev'.
Proof.
  intros [[[[[[B1 [B2 H4]] [H5 [H6 H7]]] [[H8 [H9 H10]] [[H11 H12] [H13 H14]]]] [[[H15 [H16 H17]] [[H18 H19] [H20 H21]]] [[H22 [H23 H24]] [[H25 H26] [H27 H28]]]]] [[[[H29 [H30 H31]] [[H32 H33] [H34 H35]]] [[H36 [H37 H38]] [[H39 H40] [H41 H42]]]] [[[H43 [H44 H45]] [[H46 H47] [H48 H49]]] [[H50 [H51 H52]] [[H53 H54] [H55 H56]]]]]] [[[[[H57 [H58 H59]] [H60 [H61 H62]]] [[H63 [H64 H65]] [[H66 H67] [H68 H69]]]] [[[H70 [H71 H72]] [[H73 H74] [H75 H76]]] [[H77 [H78 H79]] [[H80 H81] [H82 H83]]]]] [[[[H84 [H85 H86]] [[H87 H88] [H89 H90]]] [[H91 [H92 H93]] [[H94 H95] [H96 H97]]]] [[[H98 [H99 H100]] [[H101 H102] [H103 H104]]] [[H105 [H106 H107]] [[H108 H109] [H110 H111]]]]]]] He Hv.
  unfold Inv1ms_650ms.
  split; [split; [split; [split; [split; [split; [exact B1|split; [exact B2|apply (tmpl_mono _ _ _ _ _ S V es ev es' ev'); [lia|lia|exact H4|lia|lia]]]|split; [apply (tmpl_mono _ _ _ _ _ S V es ev es' ev'); [lia|lia|exact H5|lia|lia]|split; [apply (tmpl_mono _ _ _ _ _ S V es ev es' ev'); [lia|lia|exact H6|lia|lia]|apply (tmpl_mono _ _ _ _ _ S V es ev es' ev'); [lia|lia|exact H7|lia|lia]]]]|split; [split; [apply (tmpl_mono _ _ _ _ _ S V es ev es' ev'); [lia|lia|exact H8|lia|lia]|split; [apply (tmpl_mono _ _ _ _ _ S V es ev es' ev'); [lia|lia|exact H9|lia|lia]|apply (tmpl_mono _ _ _ _ _ S V es ev es' ev'); [lia|lia|exact H10|lia|lia]]]|split; [split; [apply (tmpl_mono _ _ _ _ _ S V es ev es' ev'); [lia|lia|exact H11|lia|lia]|apply (tmpl_mono _ _ _ _ _ S V es ev es' ev'); [lia|lia|exact H12|lia|lia]]|split; [apply (tmpl_mono _ _ _ _ _ S V es ev es' ev'); [lia|lia|exact H13|lia|lia]|apply (tmpl_mono _ _ _ _ _ S V es ev es' ev'); [lia|lia|exact H14|lia|lia]]]]]|split; [split; [split; [apply (tmpl_mono _ _ _ _ _ S V es ev es' ev'); [lia|lia|exact H15|lia|lia]|split; [apply (tmpl_mono _ _ _ _ _ S V es ev es' ev'); [lia|lia|exact H16|lia|lia]|apply (tmpl_mono _ _ _ _ _ S V es ev es' ev'); [lia|lia|exact H17|lia|lia]]]|split; [split; [apply (tmpl_mono _ _ _ _ _ S V es ev es' ev'); [lia|lia|exact H18|lia|lia]|apply (tmpl_mono _ _ _ _ _ S V es ev es' ev'); [lia|lia|exact H19|lia|lia]]|split; [apply (tmpl_mono _ _ _ _ _ S V es ev es' ev'); [lia|lia|exact H20|lia|lia]|apply (tmpl_mono _ _ _ _ _ S V es ev es' ev'); [lia|lia|exact H21|lia|lia]]]]|split; [split; [apply (tmpl_mono _ _ _ _ _ S V es ev es' ev'); [lia|lia|exact H22|lia|lia]|split; [apply (tmpl_mono _ _ _ _ _ S V es ev es' ev'); [lia|lia|exact H23|lia|lia]|apply (tmpl_mono _ _ _ _ _ S V es ev es' ev'); [lia|lia|exact H24|lia|lia]]]|split; [split; [apply (tmpl_mono _ _ _ _ _ S V es ev es' ev'); [lia|lia|exact H25|lia|lia]|apply (tmpl_mono _ _ _ _ _ S V es ev es' ev'); [lia|lia|exact H26|lia|lia]]|split; [apply (tmpl_mono _ _ _ _ _ S V es ev es' ev'); [lia|lia|exact H27|lia|lia]|apply (tmpl_mono _ _ _ _ _ S V es ev es' ev'); [lia|lia|exact H28|lia|lia]]]]]]|split; [split; [split; [split; [apply (tmpl_mono _ _ _ _ _ S V es ev es' ev'); [lia|lia|exact H29|lia|lia]|split; [apply (tmpl_mono _ _ _ _ _ S V es ev es' ev'); [lia|lia|exact H30|lia|lia]|apply (tmpl_mono _ _ _ _ _ S V es ev es' ev'); [lia|lia|exact H31|lia|lia]]]|split; [split; [apply (tmpl_mono _ _ _ _ _ S V es ev es' ev'); [lia|lia|exact H32|lia|lia]|apply (tmpl_mono _ _ _ _ _ S V es ev es' ev'); [lia|lia|exact H33|lia|lia]]|split; [apply (tmpl_mono _ _ _ _ _ S V es ev es' ev'); [lia|lia|exact H34|lia|lia]|apply (tmpl_mono _ _ _ _ _ S V es ev es' ev'); [lia|lia|exact H35|lia|lia]]]]|split; [split; [apply (tmpl_mono _ _ _ _ _ S V es ev es' ev'); [lia|lia|exact H36|lia|lia]|split; [apply (tmpl_mono _ _ _ _ _ S V es ev es' ev'); [lia|lia|exact H37|lia|lia]|apply (tmpl_mono _ _ _ _ _ S V es ev es' ev'); [lia|lia|exact H38|lia|lia]]]|split; [split; [apply (tmpl_mono _ _ _ _ _ S V es ev es' ev'); [lia|lia|exact H39|lia|lia]|apply (tmpl_mono _ _ _ _ _ S V es ev es' ev'); [lia|lia|exact H40|lia|lia]]|split; [apply (tmpl_mono _ _ _ _ _ S V es ev es' ev'); [lia|lia|exact H41|lia|lia]|apply (tmpl_mono _ _ _ _ _ S V es ev es' ev'); [lia|lia|exact H42|lia|lia]]]]]|split; [split; [split; [apply (tmpl_mono _ _ _ _ _ S V es ev es' ev'); [lia|lia|exact H43|lia|lia]|split; [apply (tmpl_mono _ _ _ _ _ S V es ev es' ev'); [lia|lia|exact H44|lia|lia]|apply (tmpl_mono _ _ _ _ _ S V es ev es' ev'); [lia|lia|exact H45|lia|lia]]]|split; [split; [apply (tmpl_mono _ _ _ _ _ S V es ev es' ev'); [lia|lia|exact H46|lia|lia]|apply (tmpl_mono _ _ _ _ _ S V es ev es' ev'); [lia|lia|exact H47|lia|lia]]|split; [apply (tmpl_mono _ _ _ _ _ S V es ev es' ev'); [lia|lia|exact H48|lia|lia]|apply (tmpl_mono _ _ _ _ _ S V es ev es' ev'); [lia|lia|exact H49|lia|lia]]]]|split; [split; [apply (tmpl_mono _ _ _ _ _ S V es ev es' ev'); [lia|lia|exact H50|lia|lia]|split; [apply (tmpl_mono _ _ _ _ _ S V es ev es' ev'); [lia|lia|exact H51|lia|lia]|apply (tmpl_mono _ _ _ _ _ S V es ev es' ev'); [lia|lia|exact H52|lia|lia]]]|split; [split; [apply (tmpl_mono _ _ _ _ _ S V es ev es' ev'); [lia|lia|exact H53|lia|lia]|apply (tmpl_mono _ _ _ _ _ S V es ev es' ev'); [lia|lia|exact H54|lia|lia]]|split; [apply (tmpl_mono _ _ _ _ _ S V es ev es' ev'); [lia|lia|exact H55|lia|lia]|apply (tmpl_mono _ _ _ _ _ S V es ev es' ev'); [lia|lia|exact H56|lia|lia]]]]]]]|split; [split; [split; [split; [split; [apply (tmpl_mono _ _ _ _ _ S V es ev es' ev'); [lia|lia|exact H57|lia|lia]|split; [apply (tmpl_mono _ _ _ _ _ S V es ev es' ev'); [lia|lia|exact H58|lia|lia]|apply (tmpl_mono _ _ _ _ _ S V es ev es' ev'); [lia|lia|exact H59|lia|lia]]]|split; [apply (tmpl_mono _ _ _ _ _ S V es ev es' ev'); [lia|lia|exact H60|lia|lia]|split; [apply (tmpl_mono _ _ _ _ _ S V es ev es' ev'); [lia|lia|exact H61|lia|lia]|apply (tmpl_mono _ _ _ _ _ S V es ev es' ev'); [lia|lia|exact H62|lia|lia]]]]|split; [split; [apply (tmpl_mono _ _ _ _ _ S V es ev es' ev'); [lia|lia|exact H63|lia|lia]|split; [apply (tmpl_mono _ _ _ _ _ S V es ev es' ev'); [lia|lia|exact H64|lia|lia]|apply (tmpl_mono _ _ _ _ _ S V es ev es' ev'); [lia|lia|exact H65|lia|lia]]]|split; [split; [apply (tmpl_mono _ _ _ _ _ S V es ev es' ev'); [lia|lia|exact H66|lia|lia]|apply (tmpl_mono _ _ _ _ _ S V es ev es' ev'); [lia|lia|exact H67|lia|lia]]|split; [apply (tmpl_mono _ _ _ _ _ S V es ev es' ev'); [lia|lia|exact H68|lia|lia]|apply (tmpl_mono _ _ _ _ _ S V es ev es' ev'); [lia|lia|exact H69|lia|lia]]]]]|split; [split; [split; [apply (tmpl_mono _ _ _ _ _ S V es ev es' ev'); [lia|lia|exact H70|lia|lia]|split; [apply (tmpl_mono _ _ _ _ _ S V es ev es' ev'); [lia|lia|exact H71|lia|lia]|apply (tmpl_mono _ _ _ _ _ S V es ev es' ev'); [lia|lia|exact H72|lia|lia]]]|split; [split; [apply (tmpl_mono _ _ _ _ _ S V es ev es' ev'); [lia|lia|exact H73|lia|lia]|apply (tmpl_mono _ _ _ _ _ S V es ev es' ev'); [lia|lia|exact H74|lia|lia]]|split; [apply (tmpl_mono _ _ _ _ _ S V es ev es' ev'); [lia|lia|exact H75|lia|lia]|apply (tmpl_mono _ _ _ _ _ S V es ev es' ev'); [lia|lia|exact H76|lia|lia]]]]|split; [split; [apply (tmpl_mono _ _ _ _ _ S V es ev es' ev'); [lia|lia|exact H77|lia|lia]|split; [apply (tmpl_mono _ _ _ _ _ S V es ev es' ev'); [lia|lia|exact H78|lia|lia]|apply (tmpl_mono _ _ _ _ _ S V es ev es' ev'); [lia|lia|exact H79|lia|lia]]]|split; [split; [apply (tmpl_mono _ _ _ _ _ S V es ev es' ev'); [lia|lia|exact H80|lia|lia]|apply (tmpl_mono _ _ _ _ _ S V es ev es' ev'); [lia|lia|exact H81|lia|lia]]|split; [apply (tmpl_mono _ _ _ _ _ S V es ev es' ev'); [lia|lia|exact H82|lia|lia]|apply (tmpl_mono _ _ _ _ _ S V es ev es' ev'); [lia|lia|exact H83|lia|lia]]]]]]|split; [split; [split; [split; [apply (tmpl_mono _ _ _ _ _ S V es ev es' ev'); [lia|lia|exact H84|lia|lia]|split; [apply (tmpl_mono _ _ _ _ _ S V es ev es' ev'); [lia|lia|exact H85|lia|lia]|apply (tmpl_mono _ _ _ _ _ S V es ev es' ev'); [lia|lia|exact H86|lia|lia]]]|split; [split; [apply (tmpl_mono _ _ _ _ _ S V es ev es' ev'); [lia|lia|exact H87|lia|lia]|apply (tmpl_mono _ _ _ _ _ S V es ev es' ev'); [lia|lia|exact H88|lia|lia]]|split; [apply (tmpl_mono _ _ _ _ _ S V es ev es' ev'); [lia|lia|exact H89|lia|lia]|apply (tmpl_mono _ _ _ _ _ S V es ev es' ev'); [lia|lia|exact H90|lia|lia]]]]|split; [split; [apply (tmpl_mono _ _ _ _ _ S V es ev es' ev'); [lia|lia|exact H91|lia|lia]|split; [apply (tmpl_mono _ _ _ _ _ S V es ev es' ev'); [lia|lia|exact H92|lia|lia]|apply (tmpl_mono _ _ _ _ _ S V es ev es' ev'); [lia|lia|exact H93|lia|lia]]]|split; [split; [apply (tmpl_mono _ _ _ _ _ S V es ev es' ev'); [lia|lia|exact H94|lia|lia]|apply (tmpl_mono _ _ _ _ _ S V es ev es' ev'); [lia|lia|exact H95|lia|lia]]|split; [apply (tmpl_mono _ _ _ _ _ S V es ev es' ev'); [lia|lia|exact H96|lia|lia]|apply (tmpl_mono _ _ _ _ _ S V es ev es' ev'); [lia|lia|exact H97|lia|lia]]]]]|split; [split; [split; [apply (tmpl_mono _ _ _ _ _ S V es ev es' ev'); [lia|lia|exact H98|lia|lia]|split; [apply (tmpl_mono _ _ _ _ _ S V es ev es' ev'); [lia|lia|exact H99|lia|lia]|apply (tmpl_mono _ _ _ _ _ S V es ev es' ev'); [lia|lia|exact H100|lia|lia]]]|split; [split; [apply (tmpl_mono _ _ _ _ _ S V es ev es' ev'); [lia|lia|exact H101|lia|lia]|apply (tmpl_mono _ _ _ _ _ S V es ev es' ev'); [lia|lia|exact H102|lia|lia]]|split; [apply (tmpl_mono _ _ _ _ _ S V es ev es' ev'); [lia|lia|exact H103|lia|lia]|apply (tmpl_mono _ _ _ _ _ S V es ev es' ev'); [lia|lia|exact H104|lia|lia]]]]|split; [split; [apply (tmpl_mono _ _ _ _ _ S V es ev es' ev'); [lia|lia|exact H105|lia|lia]|split; [apply (tmpl_mono _ _ _ _ _ S V es ev es' ev'); [lia|lia|exact H106|lia|lia]|apply (tmpl_mono _ _ _ _ _ S V es ev es' ev'); [lia|lia|exact H107|lia|lia]]]|split; [split; [apply (tmpl_mono _ _ _ _ _ S V es ev es' ev'); [lia|lia|exact H108|lia|lia]|apply (tmpl_mono _ _ _ _ _ S V es ev es' ev'); [lia|lia|exact H109|lia|lia]]|split; [apply (tmpl_mono _ _ _ _ _ S V es ev es' ev'); [lia|lia|exact H110|lia|lia]|apply (tmpl_mono _ _ _ _ _ S V es ev es' ev'); [lia|lia|exact H111|lia|lia]]]]]]]].
Qed.
Lemma Inv1ms_650ms_init r : 1000000 <= r <= 650000000 -> Inv1ms_650ms (65536 * r) (32768 * r) 0 32768.
Proof. intros Hr. unfold Inv1ms_650ms, tmpl. repeat split; lia. Qed.
Lemma Inv1ms_650ms_final S V es ev T : Inv1ms_650ms S V es ev -> 0 <= es -> 0 <= ev -> 0 <= S -> 0 <= V ->
  ZN 100000 * T <= S + 4 * V < ZN 100000 * T + ZN 100000 ->
  P45 * es + 4 * (P45 + E1) * ev + 4 * E1 * V + P45 * 32768 <= P45 * (T + 65536 * ZN 1000).
Proof.
  change (ZN 100000) with 100000. change (ZN 1000) with 1000.
  intros [[[[[[B1 [B2 H4]] [H5 [H6 H7]]] [[H8 [H9 H10]] [[H11 H12] [H13 H14]]]] [[[H15 [H16 H17]] [[H18 H19] [H20 H21]]] [[H22 [H23 H24]] [[H25 H26] [H27 H28]]]]] [[[[H29 [H30 H31]] [[H32 H33] [H34 H35]]] [[H36 [H37 H38]] [[H39 H40] [H41 H42]]]] [[[H43 [H44 H45]] [[H46 H47] [H48 H49]]] [[H50 [H51 H52]] [[H53 H54] [H55 H56]]]]]] [[[[[H57 [H58 H59]] [H60 [H61 H62]]] [[H63 [H64 H65]] [[H66 H67] [H68 H69]]]] [[[H70 [H71 H72]] [[H73 H74] [H75 H76]]] [[H77 [H78 H79]] [[H80 H81] [H82 H83]]]]] [[[[H84 [H85 H86]] [[H87 H88] [H89 H90]]] [[H91 [H92 H93]] [[H94 H95] [H96 H97]]]] [[[H98 [H99 H100]] [[H101 H102] [H103 H104]]] [[H105 [H106 H107]] [[H108 H109] [H110 H111]]]]]]] He Hv HS HV HT.
  clear - B1 B2 H111 He Hv HS HV HT. unfold tmpl, P45, E1 in *. lia.
Qed.

Theorem global_1ms_650ms c rto gran rs : cc_gran c = gran -> cc_rto c = rto ->
  (forall r, In r rs -> (1000000 <= r <= 650000000)%N) ->
  within_tolerance (fx (rc_rto (run (rtt_new rto gran) rs))) (rfc6298_rto c (ref_run None rs)) = true.
Proof.
  intros HG HR. rewrite within_tolerance_std. apply (global_generic 1000000 650000000 100000 1000 ltac:(lia) ltac:(lia) ltac:(lia) Inv1ms_650ms); try assumption.
  - intros r Hr. apply Inv1ms_650ms_init. lia.
  - apply Inv1ms_650ms_mono.
  - intros. eapply Inv1ms_650ms_step; eauto; lia.
  - apply Inv1ms_650ms_final.
Qed.
Print Assumptions global_1ms_650ms.
(* the same with resets between the samples *)
Theorem global_1ms_650ms_ops c rto gran os : cc_gran c = gran -> cc_rto c = rto ->
  Forall (eop_ok 1000000 650000000) os ->
  within_tolerance (fx (rc_rto (run_ops (rtt_new rto gran) os))) (rfc6298_rto c (ref_ops None os)) = true.
Proof.
  intros HG HR. rewrite within_tolerance_std. apply (global_generic_ops 1000000 650000000 100000 1000 ltac:(lia) ltac:(lia) ltac:(lia) Inv1ms_650ms); try assumption.
  - intros r Hr. apply Inv1ms_650ms_init. lia.
  - apply Inv1ms_650ms_mono.
  - intros. eapply Inv1ms_650ms_step; eauto; lia.
  - apply Inv1ms_650ms_final.
Qed.
Print Assumptions global_1ms_650ms_ops.
(* ---- Stage 4, third instance: the whole range 1 ms .. 10 s with TWICE the tolerance (2e-5 relative + 2 us).
   With the tolerance of the property itself the worst-case recurrences do not close on this range (see the witness
   sequence at the end of the file); with 1.6 times the tolerance the template iteration converges above the bound. *)
Definition Inv1ms_10s_x2 (S V es ev : Z) : Prop :=
  ((((((((65536000000 <= S <= 655360000000000) /\ ((0 <= V <= 655360000000000) /\ (tmpl 0 0 8388609 (-16777218) 6596535554603892080640 S V es ev))) /\ ((tmpl 0 0 8388609 (-8388609) 1648730796089356582912 S V es ev) /\ ((tmpl 0 0 16777218 (-8388609) (-820022133117572608) S V es ev) /\ (tmpl 35184372088832 0 0 0 43999234116437669838848 S V es ev)))) /\ (((tmpl 35184372088832 0 16777218 0 34225674092040490582016 S V es ev) /\ ((tmpl 35184372088832 0 33554436 0 26623771154023886880768 S V es ev) /\ (tmpl 35184372088832 0 50331654 0 20710934392785520820224 S V es ev))) /\ (((tmpl 35184372088832 0 67108872 0 16111815576034815770624 S V es ev) /\ (tmpl 35184372088832 0 67108872 33554436 8068861388567014801408 S V es ev)) /\ ((tmpl 35184372088832 0 83886090 0 12534477450322265505792 S V es ev) /\ (tmpl 35184372088832 0 83886090 33554436 5525108433596286238720 S V es ev))))) /\ ((((tmpl 35184372088832 0 100663308 0 9751858405112184569856 S V es ev) /\ ((tmpl 35184372088832 0 100663308 33554436 4062165443242945937408 S V es ev) /\ (tmpl 35184372088832 0 100663308 67108872 2054198764160860553216 S V es ev))) /\ (((tmpl 35184372088832 0 100663308 134217744 971875858080610254848 S V es ev) /\ (tmpl 35184372088832 0 100663308 268435488 524880204234233085952 S V es ev)) /\ ((tmpl 35184372088832 0 117440526 0 7587357747373541425152 S V es ev) /\ (tmpl 35184372088832 0 117440526 33554436 3057196847105324875776 S V es ev)))) /\ (((tmpl 35184372088832 0 117440526 67108872 1392397500307826278400 S V es ev) /\ ((tmpl 35184372088832 0 117440526 134217744 638004304566461267968 S V es ev) /\ (tmpl 35184372088832 0 134217744 0 5903629511765034795008 S V es ev))) /\ (((tmpl 35184372088832 0 134217744 33554436 2323499913678736064512 S V es ev) /\ (tmpl 35184372088832 0 134217744 67108872 956553882589610246144 S V es ev)) /\ ((tmpl 35184372088832 0 134217744 134217744 503140616911589605376 S V es ev) /\ (tmpl 35184372088832 0 150994962 0 4593880170878093754368 S V es ev)))))) /\ (((((tmpl 35184372088832 0 150994962 33554436 1780830728266532519936 S V es ev) /\ ((tmpl 35184372088832 0 150994962 67108872 735349862692429103104 S V es ev) /\ (tmpl 35184372088832 0 150994962 134217744 452788200894424154112 S V es ev))) /\ ((tmpl 35184372088832 0 167772180 0 3575128462191098855424 S V es ev) /\ ((tmpl 35184372088832 0 167772180 33554436 1376752832968567291904 S V es ev) /\ (tmpl 35184372088832 0 167772180 67108872 603025293721173491712 S V es ev)))) /\ (((tmpl 35184372088832 0 167772180 134217744 430864850289764204544 S V es ev) /\ ((tmpl 35184372088832 0 184549398 0 2783008425064852881408 S V es ev) /\ (tmpl 35184372088832 0 184549398 33554436 1076261479053444775936 S V es ev))) /\ (((tmpl 35184372088832 0 184549398 67108872 521973376186056048640 S V es ev) /\ (tmpl 35184372088832 0 184549398 134217744 423707037134557872128 S V es ev)) /\ ((tmpl 35184372088832 0 201326616 0 2167778142442430398464 S V es ev) /\ (tmpl 35184372088832 0 201326616 33554436 855284050725237293056 S V es ev))))) /\ ((((tmpl 35184372088832 0 201326616 67108872 473208051071678021632 S V es ev) /\ ((tmpl 35184372088832 0 201326616 134217744 420943995444282654720 S V es ev) /\ (tmpl 35184372088832 0 218103834 0 1691237027911668858880 S V es ev))) /\ (((tmpl 35184372088832 0 218103834 33554436 696408726767139946496 S V es ev) /\ (tmpl 35184372088832 0 218103834 67108872 445095930282367057920 S V es ev)) /\ ((tmpl 35184372088832 0 218103834 134217744 419529804771080273920 S V es ev) /\ (tmpl 35184372088832 0 234881052 0 1324270201534905581568 S V es ev)))) /\ (((tmpl 35184372088832 0 234881052 33554436 586078435578727170048 S V es ev) /\ ((tmpl 35184372088832 0 234881052 67108872 429840386666673209344 S V es ev) /\ (tmpl 35184372088832 0 234881052 134217744 418379935959914643456 S V es ev))) /\ (((tmpl 35184372088832 0 251658270 0 1044768569007752609792 S V es ev) /\ (tmpl 35184372088832 0 251658270 33554436 512917489051729657856 S V es ev)) /\ ((tmpl 35184372088832 0 251658270 67108872 421949896361342402560 S V es ev) /\ (tmpl 35184372088832 0 251658270 134217744 417275306438022135808 S V es ev))))))) /\ ((((((tmpl 35184372088832 0 268435488 0 835760252043128864768 S V es ev) /\ ((tmpl 35184372088832 0 268435488 33554436 466908909921199849472 S V es ev) /\ (tmpl 35184372088832 0 268435488 67108872 417895734580347142144 S V es ev))) /\ ((tmpl 35184372088832 0 268435488 134217744 416175383427740925952 S V es ev) /\ ((tmpl 35184372088832 0 285212706 0 683736837848755732480 S V es ev) /\ (tmpl 35184372088832 0 285212706 33554436 439992468694080028672 S V es ev)))) /\ (((tmpl 35184372088832 0 285212706 67108872 415641293877169094656 S V es ev) /\ ((tmpl 35184372088832 0 285212706 134217744 415075856023292149760 S V es ev) /\ (tmpl 35184372088832 0 301989924 0 577303779024326361088 S V es ev))) /\ (((tmpl 35184372088832 0 301989924 33554436 425211489748926332928 S V es ev) /\ (tmpl 35184372088832 0 301989924 67108872 414140368914217566208 S V es ev)) /\ ((tmpl 35184372088832 0 301989924 134217744 413976343626229153792 S V es ev) /\ (tmpl 35184372088832 0 318767142 0 506330039654348357632 S V es ev))))) /\ ((((tmpl 35184372088832 0 318767142 33554436 417486294775779491840 S V es ev) /\ ((tmpl 35184372088832 0 318767142 67108872 412918247040003670016 S V es ev) /\ (tmpl 35184372088832 0 318767142 134217744 412876831851458330624 S V es ev))) /\ (((tmpl 35184372088832 0 335544360 0 461667282885208047616 S V es ev) /\ (tmpl 35184372088832 0 335544360 33554436 413481710993207328768 S V es ev)) /\ ((tmpl 35184372088832 0 335544360 67108872 411786269870280474624 S V es ev) /\ (tmpl 35184372088832 0 352321578 0 435312051427535486976 S V es ev)))) /\ (((tmpl 35184372088832 0 352321578 33554436 411239928976241721344 S V es ev) /\ ((tmpl 35184372088832 0 352321578 67108872 410679428585932193792 S V es ev) /\ (tmpl 35184372088832 0 369098796 0 420731280936727019520 S V es ev))) /\ (((tmpl 35184372088832 0 369098796 33554436 409741738396511764480 S V es ev) /\ (tmpl 35184372088832 0 369098796 67108872 409578535372004851712 S V es ev)) /\ ((tmpl 35184372088832 0 385876014 0 413067719134013358080 S V es ev) /\ (tmpl 35184372088832 0 385876014 33554436 408520113681586323456 S V es ev)))))) /\ (((((tmpl 35184372088832 0 385876014 67108872 408478812314553745408 S V es ev) /\ ((tmpl 35184372088832 0 402653232 0 409079293714468241408 S V es ev) /\ (tmpl 35184372088832 0 402653232 33554436 407388212170819764224 S V es ev))) /\ (((tmpl 35184372088832 0 402653232 67108872 407379275376215457792 S V es ev) /\ (tmpl 35184372088832 0 419430450 0 406841094355780763648 S V es ev)) /\ ((tmpl 35184372088832 0 419430450 33554436 406281380460686737408 S V es ev) /\ (tmpl 35184372088832 0 419430450 67108872 406279761425515282432 S V es ev)))) /\ (((tmpl 35184372088832 0 436207668 0 405343572022731079680 S V es ev) /\ ((tmpl 35184372088832 0 436207668 33554436 405180488245695741952 S V es ev) /\ (tmpl 35184372088832 0 436207668 67108872 405180249542652133376 S V es ev))) /\ (((tmpl 35184372088832 0 452984886 0 404122051557223038976 S V es ev) /\ (tmpl 35184372088832 0 452984886 33554436 404080765273416269824 S V es ev)) /\ ((tmpl 35184372088832 0 452984886 67108872 404080737780336558080 S V es ev) /\ (tmpl 35184372088832 0 469762104 0 402990163558223446016 S V es ev))))) /\ ((((tmpl 35184372088832 0 469762104 33554436 402981228340587069440 S V es ev) /\ ((tmpl 35184372088832 0 486539322 0 401883333290772660224 S V es ev) /\ (tmpl 35184372088832 0 486539322 33554436 401881714390011805696 S V es ev))) /\ (((tmpl 35184372088832 0 503316540 0 400782441201163960320 S V es ev) /\ (tmpl 35184372088832 0 503316540 33554436 400782202507264786432 S V es ev)) /\ ((tmpl 35184372088832 0 520093758 0 399682718237291184128 S V es ev) /\ (tmpl 35184372088832 0 520093758 33554436 399682690745030213632 S V es ev)))) /\ (((tmpl 35184372088832 0 536870976 0 398583181305200246784 S V es ev) /\ ((tmpl 35184372088832 0 553648194 0 397483667354709393408 S V es ev) /\ (tmpl 35184372088832 0 570425412 0 396384155471969583104 S V es ev))) /\ (((tmpl 35184372088832 0 587202630 0 395284643709735665664 S V es ev) /\ (tmpl 0 35184372088832 0 0 65483003519166450761728 S V es ev)) /\ ((tmpl 0 35184372088832 33554436 0 51856350919460565024768 S V es ev) /\ (tmpl 0 35184372088832 67108872 0 41117121641585139777536 S V es ev)))))))) /\ (((((((tmpl 0 35184372088832 67108872 33554436 27569976611144382545920 S V es ev) /\ ((tmpl 0 35184372088832 100663308 0 32880950580924523741184 S V es ev) /\ (tmpl 0 35184372088832 100663308 33554436 21626668937271157194752 S V es ev))) /\ ((tmpl 0 35184372088832 134217744 0 26459941626017174519808 S V es ev) /\ ((tmpl 0 35184372088832 134217744 33554436 17071037512916144226304 S V es ev) /\ (tmpl 0 35184372088832 134217744 67108872 10993953939810357870592 S V es ev)))) /\ (((tmpl 0 35184372088832 167772180 33554436 13515504633843921453056 S V es ev) /\ ((tmpl 0 35184372088832 167772180 67108872 8572064083350197895168 S V es ev) /\ (tmpl 0 35184372088832 167772180 134217744 4215169424604657090560 S V es ev))) /\ (((tmpl 0 35184372088832 167772180 268435488 1693521709208180883456 S V es ev) /\ (tmpl 0 35184372088832 167772180 536870976 923897766221642858496 S V es ev)) /\ ((tmpl 0 35184372088832 201326616 0 16968742878223288762368 S V es ev) /\ (tmpl 0 35184372088832 201326616 33554436 10748579327783280312320 S V es ev))))) /\ ((((tmpl 0 35184372088832 201326616 67108872 6741615387513599295488 S V es ev) /\ ((tmpl 0 35184372088832 201326616 134217744 3058891721611971919872 S V es ev) /\ (tmpl 0 35184372088832 201326616 268435488 1226431088791035052032 S V es ev))) /\ (((tmpl 0 35184372088832 234881052 0 13512093834172975546368 S V es ev) /\ (tmpl 0 35184372088832 234881052 33554436 8511381444373658992640 S V es ev)) /\ ((tmpl 0 35184372088832 234881052 67108872 5299191425168411983872 S V es ev) /\ (tmpl 0 35184372088832 234881052 134217744 2207448969058618703872 S V es ev)))) /\ (((tmpl 0 35184372088832 234881052 268435488 1006729719995359428608 S V es ev) /\ ((tmpl 0 35184372088832 268435488 0 10745156669513727475712 S V es ev) /\ (tmpl 0 35184372088832 268435488 33554436 6717307355331026747392 S V es ev))) /\ (((tmpl 0 35184372088832 268435488 67108872 4162739063649585856512 S V es ev) /\ (tmpl 0 35184372088832 268435488 134217744 1691416453083908538368 S V es ev)) /\ ((tmpl 0 35184372088832 301989924 0 8507952856795013185536 S V es ev) /\ (tmpl 0 35184372088832 301989924 33554436 5288128367431943979008 S V es ev)))))) /\ (((((tmpl 0 35184372088832 301989924 67108872 3270964748907857313792 S V es ev) /\ ((tmpl 0 35184372088832 301989924 134217744 1372503024337711792128 S V es ev) /\ (tmpl 0 35184372088832 335544360 0 6713875803092041072640 S V es ev))) /\ ((tmpl 0 35184372088832 335544360 33554436 4156503206407846756352 S V es ev) /\ ((tmpl 0 35184372088832 335544360 67108872 2576716378115269984256 S V es ev) /\ (tmpl 0 35184372088832 335544360 134217744 1157250093165089783808 S V es ev)))) /\ (((tmpl 0 35184372088832 369098796 0 5284695332859653652480 S V es ev) /\ ((tmpl 0 35184372088832 369098796 33554436 3266490901349830492160 S V es ev) /\ (tmpl 0 35184372088832 369098796 67108872 2043356610824652455936 S V es ev))) /\ (((tmpl 0 35184372088832 402653232 0 4153069430667144069120 S V es ev) /\ (tmpl 0 35184372088832 402653232 33554436 2572887351160434327552 S V es ev)) /\ ((tmpl 0 35184372088832 402653232 67108872 1641950594748472098816 S V es ev) /\ (tmpl 0 35184372088832 436207668 0 3263056755023946448896 S V es ev))))) /\ ((((tmpl 0 35184372088832 436207668 33554436 2039764515168200687616 S V es ev) /\ ((tmpl 0 35184372088832 436207668 67108872 1348719678551826628608 S V es ev) /\ (tmpl 0 35184372088832 469762104 0 2569453019541424046080 S V es ev))) /\ (((tmpl 0 35184372088832 469762104 33554436 1638446046081448935424 S V es ev) /\ (tmpl 0 35184372088832 469762104 67108872 1142934107786652024832 S V es ev)) /\ ((tmpl 0 35184372088832 503316540 0 2036330090902336569344 S V es ev) /\ (tmpl 0 35184372088832 503316540 33554436 1345247683212672237568 S V es ev)))) /\ (((tmpl 0 35184372088832 503316540 67108872 1005627011641852559360 S V es ev) /\ ((tmpl 0 35184372088832 536870976 0 1635011575492014505984 S V es ev) /\ (tmpl 0 35184372088832 536870976 33554436 1139474271035213611008 S V es ev))) /\ (((tmpl 0 35184372088832 536870976 67108872 919317398673313628160 S V es ev) /\ (tmpl 0 35184372088832 570425412 0 1341813189461365227520 S V es ev)) /\ ((tmpl 0 35184372088832 570425412 33554436 1002171708927130861568 S V es ev) /\ (tmpl 0 35184372088832 570425412 67108872 868524226007929978880 S V es ev))))))) /\ ((((((tmpl 0 35184372088832 603979848 0 1136039765702902677504 S V es ev) /\ ((tmpl 0 35184372088832 603979848 33554436 915863765843506888704 S V es ev) /\ (tmpl 0 35184372088832 603979848 67108872 840536072310487515136 S V es ev))) /\ ((tmpl 0 35184372088832 637534284 0 998737197804198297600 S V es ev) /\ ((tmpl 0 35184372088832 637534284 33554436 865071191426608267264 S V es ev) /\ (tmpl 0 35184372088832 637534284 67108872 825889073319237779456 S V es ev)))) /\ (((tmpl 0 35184372088832 671088720 0 912429251824725524480 S V es ev) /\ ((tmpl 0 35184372088832 671088720 33554436 837083242129642881024 S V es ev) /\ (tmpl 0 35184372088832 671088720 67108872 818279670959999025152 S V es ev))) /\ (((tmpl 0 35184372088832 704643156 0 861636675957596094464 S V es ev) /\ (tmpl 0 35184372088832 704643156 33554436 822436307799724916736 S V es ev)) /\ ((tmpl 0 35184372088832 704643156 67108872 813985414398976327680 S V es ev) /\ (tmpl 0 35184372088832 738197592 0 833648725927076429824 S V es ev))))) /\ ((((tmpl 0 35184372088832 738197592 33554436 814826923239641841664 S V es ev) /\ ((tmpl 0 35184372088832 738197592 67108872 811071882360405360640 S V es ev) /\ (tmpl 0 35184372088832 771752028 0 819001791204413800448 S V es ev))) /\ (((tmpl 0 35184372088832 771752028 33554436 810532670181204688896 S V es ev) /\ (tmpl 0 35184372088832 771752028 67108872 808661221188320100352 S V es ev)) /\ ((tmpl 0 35184372088832 805306464 0 811392406381010747392 S V es ev) /\ (tmpl 0 35184372088832 805306464 33554436 807619138085682806784 S V es ev)))) /\ (((tmpl 0 35184372088832 805306464 67108872 806408655863763042304 S V es ev) /\ ((tmpl 0 35184372088832 838860900 0 807098153047217537024 S V es ev) /\ (tmpl 0 35184372088832 838860900 33554436 805208475499687968768 S V es ev))) /\ (((tmpl 0 35184372088832 838860900 67108872 804198311164471934976 S V es ev) /\ (tmpl 0 35184372088832 872415336 0 804184620559863119872 S V es ev)) /\ ((tmpl 0 35184372088832 872415336 33554436 802955908075454332928 S V es ev) /\ (tmpl 0 35184372088832 872415336 67108872 801997633068815745024 S V es ev)))))) /\ (((((tmpl 0 35184372088832 905969772 0 801773957413605998592 S V es ev) /\ ((tmpl 0 35184372088832 905969772 33554436 800749595285052850176 S V es ev) /\ (tmpl 0 35184372088832 905969772 67108872 799798471680534642688 S V es ev))) /\ (((tmpl 35184372088832 140737521909764 0 0 305244166066025917317120 S V es ev) /\ (tmpl 35184372088832 140737521909764 0 33554436 283941605464151301292032 S V es ev)) /\ ((tmpl 35184372088832 140737521909764 0 67108872 267964684889779553173504 S V es ev) /\ (tmpl 109951162777600000 439804755968012500 549755813888 0 721275684630122463232000000 S V es ev)))) /\ (((tmpl 109951162777600000 439804755968012500 549755813888 104857612500 663741586352604341862400000 S V es ev) /\ ((tmpl 109951162777600000 439804755968012500 549755813888 209715225000 610134219416973449625600000 S V es ev) /\ (tmpl 109951162777600000 439804755968012500 549755813888 419430450000 520356152558334718771200000 S V es ev))) /\ (((tmpl 109951162777600000 439804755968012500 1099511627776 0 549874615207871800934400000 S V es ev) /\ (tmpl 109951162777600000 439804755968012500 1099511627776 104857612500 502651689723456126976000000 S V es ev)) /\ ((tmpl 109951162777600000 439804755968012500 1099511627776 209715225000 460010847367308456755200000 S V es ev) /\ (tmpl 109951162777600000 439804755968012500 1099511627776 419430450000 383248869666463888179200000 S V es ev))))) /\ ((((tmpl 109951162777600000 439804755968012500 1649267441664 0 423219155169629962240000000 S V es ev) /\ ((tmpl 109951162777600000 439804755968012500 1649267441664 104857612500 384939419637849102745600000 S V es ev) /\ (tmpl 109951162777600000 439804755968012500 1649267441664 209715225000 350388785952571575500800000 S V es ev))) /\ (((tmpl 109951162777600000 439804755968012500 1649267441664 419430450000 289023183573708963840000000 S V es ev) /\ (tmpl 109951162777600000 439804755968012500 1649267441664 838860900000 198452313444015354675200000 S V es ev)) /\ ((tmpl 109951162777600000 439804755968012500 2199023255552 0 327405141875354448691200000 S V es ev) /\ (tmpl 109951162777600000 439804755968012500 2199023255552 104857612500 296536192690772246528000000 S V es ev)))) /\ (((tmpl 109951162777600000 439804755968012500 2199023255552 209715225000 268379475142951829504000000 S V es ev) /\ ((tmpl 109951162777600000 439804755968012500 2199023255552 419430450000 219405188725302126182400000 S V es ev) /\ (tmpl 109951162777600000 439804755968012500 2199023255552 838860900000 147277324490028928204800000 S V es ev))) /\ (((tmpl 109951162777600000 439804755968012500 2199023255552 1677721800000 77077647401638572851200000 S V es ev) /\ (tmpl 109951162777600000 439804755968012500 2199023255552 3355443600000 33480816810973095526400000 S V es ev)) /\ ((tmpl 109951162777600000 439804755968012500 2199023255552 6710887200000 15280163592723192217600000 S V es ev) /\ (tmpl 109951162777600000 439804755968012500 2199023255552 8691235409708 13082718307439291596800000 S V es ev))))))))).
Lemma inv1ms_10s_x2_step_4 S V es ev r S' V' es' ev' :
  65536000000 <= S <= 655360000000000 -> 0 <= V <= 655360000000000 ->

  tmpl 0 0 8388609 (-16777218) 6596535554603892080640 S V es ev ->
  tmpl 0 0 8388609 (-8388609) 1648730796089356582912 S V es ev ->
  1000000 <= r <= 10000000000 -> 0 <= es -> 0 <= ev ->
  8 * S' <= 7 * S + 65536 * r < 8 * S' + 8 ->
  4 * V' <= 3 * V + Z.abs (S - 65536 * r) < 4 * V' + 4 ->
  0 <= es' -> 8 * P45 * es' <= 7 * (P45 + E1) * es + E1 * (7 * S + 65536 * r) + 8 * P45 * (65536 + 1) ->
  0 <= ev' -> 4 * P45 * ev' <= 3 * (P45 + E1) * ev + (P45 + E1) * es + E1 * (3 * V + Z.abs (S - 65536 * r)) + 4 * P45 * (65536 + 1) ->
  tmpl 0 0 8388609 (-16777218) 6596535554603892080640 S' V' es' ev'.
Proof. unfold tmpl, P45, E1. intros. lia. Qed.
Lemma inv1ms_10s_x2_step_5 S V es ev r S' V' es' ev' :
  65536000000 <= S <= 655360000000000 -> 0 <= V <= 655360000000000 ->

  tmpl 0 0 8388609 (-16777218) 6596535554603892080640 S V es ev ->
  tmpl 0 0 8388609 (-8388609) 1648730796089356582912 S V es ev ->
  tmpl 0 0 16777218 (-8388609) (-820022133117572608) S V es ev ->
  1000000 <= r <= 10000000000 -> 0 <= es -> 0 <= ev ->
  8 * S' <= 7 * S + 65536 * r < 8 * S' + 8 ->
  4 * V' <= 3 * V + Z.abs (S - 65536 * r) < 4 * V' + 4 ->
  0 <= es' -> 8 * P45 * es' <= 7 * (P45 + E1) * es + E1 * (7 * S + 65536 * r) + 8 * P45 * (65536 + 1) ->
  0 <= ev' -> 4 * P45 * ev' <= 3 * (P45 + E1) * ev + (P45 + E1) * es + E1 * (3 * V + Z.abs (S - 65536 * r)) + 4 * P45 * (65536 + 1) ->
  tmpl 0 0 8388609 (-8388609) 1648730796089356582912 S' V' es' ev'.
Proof. unfold tmpl, P45, E1. intros. lia. Qed.
Lemma inv1ms_10s_x2_step_6 S V es ev r S' V' es' ev' :
  65536000000 <= S <= 655360000000000 -> 0 <= V <= 655360000000000 ->

  tmpl 0 0 16777218 (-8388609) (-820022133117572608) S V es ev ->
  1000000 <= r <= 10000000000 -> 0 <= es -> 0 <= ev ->
  8 * S' <= 7 * S + 65536 * r < 8 * S' + 8 ->
  4 * V' <= 3 * V + Z.abs (S - 65536 * r) < 4 * V' + 4 ->
  0 <= es' -> 8 * P45 * es' <= 7 * (P45 + E1) * es + E1 * (7 * S + 65536 * r) + 8 * P45 * (65536 + 1) ->
  0 <= ev' -> 4 * P45 * ev' <= 3 * (P45 + E1) * ev + (P45 + E1) * es + E1 * (3 * V + Z.abs (S - 65536 * r)) + 4 * P45 * (65536 + 1) ->
  tmpl 0 0 16777218 (-8388609) (-820022133117572608) S' V' es' ev'.
Proof. unfold tmpl, P45, E1. intros. lia. Qed.
Lemma inv1ms_10s_x2_step_7 S V es ev r S' V' es' ev' :
  65536000000 <= S <= 655360000000000 -> 0 <= V <= 655360000000000 ->

  tmpl 35184372088832 0 0 0 43999234116437669838848 S V es ev ->
  1000000 <= r <= 10000000000 -> 0 <= es -> 0 <= ev ->
  8 * S' <= 7 * S + 65536 * r < 8 * S' + 8 ->
  4 * V' <= 3 * V + Z.abs (S - 65536 * r) < 4 * V' + 4 ->
  0 <= es' -> 8 * P45 * es' <= 7 * (P45 + E1) * es + E1 * (7 * S + 65536 * r) + 8 * P45 * (65536 + 1) ->
  0 <= ev' -> 4 * P45 * ev' <= 3 * (P45 + E1) * ev + (P45 + E1) * es + E1 * (3 * V + Z.abs (S - 65536 * r)) + 4 * P45 * (65536 + 1) ->
  tmpl 35184372088832 0 0 0 43999234116437669838848 S' V' es' ev'.
Proof. unfold tmpl, P45, E1. intros. lia. Qed.
Lemma inv1ms_10s_x2_step_8 S V es ev r S' V' es' ev' :
  65536000000 <= S <= 655360000000000 -> 0 <= V <= 655360000000000 ->

  tmpl 35184372088832 0 0 0 43999234116437669838848 S V es ev ->
  tmpl 35184372088832 0 16777218 0 34225674092040490582016 S V es ev ->
  1000000 <= r <= 10000000000 -> 0 <= es -> 0 <= ev ->
  8 * S' <= 7 * S + 65536 * r < 8 * S' + 8 ->
  4 * V' <= 3 * V + Z.abs (S - 65536 * r) < 4 * V' + 4 ->
  0 <= es' -> 8 * P45 * es' <= 7 * (P45 + E1) * es + E1 * (7 * S + 65536 * r) + 8 * P45 * (65536 + 1) ->
  0 <= ev' -> 4 * P45 * ev' <= 3 * (P45 + E1) * ev + (P45 + E1) * es + E1 * (3 * V + Z.abs (S - 65536 * r)) + 4 * P45 * (65536 + 1) ->
  tmpl 35184372088832 0 16777218 0 34225674092040490582016 S' V' es' ev'.
Proof. unfold tmpl, P45, E1. intros. lia. Qed.
Lemma inv1ms_10s_x2_step_9 S V es ev r S' V' es' ev' :
  65536000000 <= S <= 655360000000000 -> 0 <= V <= 655360000000000 ->

  tmpl 35184372088832 0 16777218 0 34225674092040490582016 S V es ev ->
  tmpl 35184372088832 0 33554436 0 26623771154023886880768 S V es ev ->
  1000000 <= r <= 10000000000 -> 0 <= es -> 0 <= ev ->
  8 * S' <= 7 * S + 65536 * r < 8 * S' + 8 ->
  4 * V' <= 3 * V + Z.abs (S - 65536 * r) < 4 * V' + 4 ->
  0 <= es' -> 8 * P45 * es' <= 7 * (P45 + E1) * es + E1 * (7 * S + 65536 * r) + 8 * P45 * (65536 + 1) ->
  0 <= ev' -> 4 * P45 * ev' <= 3 * (P45 + E1) * ev + (P45 + E1) * es + E1 * (3 * V + Z.abs (S - 65536 * r)) + 4 * P45 * (65536 + 1) ->
  tmpl 35184372088832 0 33554436 0 26623771154023886880768 S' V' es' ev'.
Proof. unfold tmpl, P45, E1. intros. lia. Qed.
Lemma inv1ms_10s_x2_step_10 S V es ev r S' V' es' ev' :
  65536000000 <= S <= 655360000000000 -> 0 <= V <= 655360000000000 ->

  tmpl 35184372088832 0 33554436 0 26623771154023886880768 S V es ev ->
  tmpl 35184372088832 0 50331654 0 20710934392785520820224 S V es ev ->
  1000000 <= r <= 10000000000 -> 0 <= es -> 0 <= ev ->
  8 * S' <= 7 * S + 65536 * r < 8 * S' + 8 ->
  4 * V' <= 3 * V + Z.abs (S - 65536 * r) < 4 * V' + 4 ->
  0 <= es' -> 8 * P45 * es' <= 7 * (P45 + E1) * es + E1 * (7 * S + 65536 * r) + 8 * P45 * (65536 + 1) ->
  0 <= ev' -> 4 * P45 * ev' <= 3 * (P45 + E1) * ev + (P45 + E1) * es + E1 * (3 * V + Z.abs (S - 65536 * r)) + 4 * P45 * (65536 + 1) ->
  tmpl 35184372088832 0 50331654 0 20710934392785520820224 S' V' es' ev'.
Proof. unfold tmpl, P45, E1. intros. lia. Qed.
Lemma inv1ms_10s_x2_step_11 S V es ev r S' V' es' ev' :
  65536000000 <= S <= 655360000000000 -> 0 <= V <= 655360000000000 ->

  tmpl 35184372088832 0 50331654 0 20710934392785520820224 S V es ev ->
  tmpl 35184372088832 0 67108872 0 16111815576034815770624 S V es ev ->
  1000000 <= r <= 10000000000 -> 0 <= es -> 0 <= ev ->
  8 * S' <= 7 * S + 65536 * r < 8 * S' + 8 ->
  4 * V' <= 3 * V + Z.abs (S - 65536 * r) < 4 * V' + 4 ->
  0 <= es' -> 8 * P45 * es' <= 7 * (P45 + E1) * es + E1 * (7 * S + 65536 * r) + 8 * P45 * (65536 + 1) ->
  0 <= ev' -> 4 * P45 * ev' <= 3 * (P45 + E1) * ev + (P45 + E1) * es + E1 * (3 * V + Z.abs (S - 65536 * r)) + 4 * P45 * (65536 + 1) ->
  tmpl 35184372088832 0 67108872 0 16111815576034815770624 S' V' es' ev'.
Proof. unfold tmpl, P45, E1. intros. lia. Qed.
Lemma inv1ms_10s_x2_step_12 S V es ev r S' V' es' ev' :
  65536000000 <= S <= 655360000000000 -> 0 <= V <= 655360000000000 ->

  tmpl 35184372088832 0 50331654 0 20710934392785520820224 S V es ev ->
  tmpl 35184372088832 0 67108872 0 16111815576034815770624 S V es ev ->
  tmpl 35184372088832 0 67108872 33554436 8068861388567014801408 S V es ev ->
  1000000 <= r <= 10000000000 -> 0 <= es -> 0 <= ev ->
  8 * S' <= 7 * S + 65536 * r < 8 * S' + 8 ->
  4 * V' <= 3 * V + Z.abs (S - 65536 * r) < 4 * V' + 4 ->
  0 <= es' -> 8 * P45 * es' <= 7 * (P45 + E1) * es + E1 * (7 * S + 65536 * r) + 8 * P45 * (65536 + 1) ->
  0 <= ev' -> 4 * P45 * ev' <= 3 * (P45 + E1) * ev + (P45 + E1) * es + E1 * (3 * V + Z.abs (S - 65536 * r)) + 4 * P45 * (65536 + 1) ->
  tmpl 35184372088832 0 67108872 33554436 8068861388567014801408 S' V' es' ev'.
Proof. unfold tmpl, P45, E1. intros. lia. Qed.
Lemma inv1ms_10s_x2_step_13 S V es ev r S' V' es' ev' :
  65536000000 <= S <= 655360000000000 -> 0 <= V <= 655360000000000 ->

  tmpl 35184372088832 0 67108872 0 16111815576034815770624 S V es ev ->
  tmpl 35184372088832 0 83886090 0 12534477450322265505792 S V es ev ->
  tmpl 35184372088832 0 100663308 0 9751858405112184569856 S V es ev ->
  1000000 <= r <= 10000000000 -> 0 <= es -> 0 <= ev ->
  8 * S' <= 7 * S + 65536 * r < 8 * S' + 8 ->
  4 * V' <= 3 * V + Z.abs (S - 65536 * r) < 4 * V' + 4 ->
  0 <= es' -> 8 * P45 * es' <= 7 * (P45 + E1) * es + E1 * (7 * S + 65536 * r) + 8 * P45 * (65536 + 1) ->
  0 <= ev' -> 4 * P45 * ev' <= 3 * (P45 + E1) * ev + (P45 + E1) * es + E1 * (3 * V + Z.abs (S - 65536 * r)) + 4 * P45 * (65536 + 1) ->
  tmpl 35184372088832 0 83886090 0 12534477450322265505792 S' V' es' ev'.
Proof. unfold tmpl, P45, E1. intros. lia. Qed.
Lemma inv1ms_10s_x2_step_14 S V es ev r S' V' es' ev' :
  65536000000 <= S <= 655360000000000 -> 0 <= V <= 655360000000000 ->

  tmpl 35184372088832 0 67108872 33554436 8068861388567014801408 S V es ev ->
  tmpl 35184372088832 0 83886090 33554436 5525108433596286238720 S V es ev ->
  tmpl 35184372088832 0 100663308 0 9751858405112184569856 S V es ev ->
  1000000 <= r <= 10000000000 -> 0 <= es -> 0 <= ev ->
  8 * S' <= 7 * S + 65536 * r < 8 * S' + 8 ->
  4 * V' <= 3 * V + Z.abs (S - 65536 * r) < 4 * V' + 4 ->
  0 <= es' -> 8 * P45 * es' <= 7 * (P45 + E1) * es + E1 * (7 * S + 65536 * r) + 8 * P45 * (65536 + 1) ->
  0 <= ev' -> 4 * P45 * ev' <= 3 * (P45 + E1) * ev + (P45 + E1) * es + E1 * (3 * V + Z.abs (S - 65536 * r)) + 4 * P45 * (65536 + 1) ->
  tmpl 35184372088832 0 83886090 33554436 5525108433596286238720 S' V' es' ev'.
Proof. unfold tmpl, P45, E1. intros. lia. Qed.
Lemma inv1ms_10s_x2_step_15 S V es ev r S' V' es' ev' :
  65536000000 <= S <= 655360000000000 -> 0 <= V <= 655360000000000 ->

  tmpl 35184372088832 0 83886090 0 12534477450322265505792 S V es ev ->
  tmpl 35184372088832 0 100663308 0 9751858405112184569856 S V es ev ->
  tmpl 35184372088832 0 117440526 0 7587357747373541425152 S V es ev ->
  1000000 <= r <= 10000000000 -> 0 <= es -> 0 <= ev ->
  8 * S' <= 7 * S + 65536 * r < 8 * S' + 8 ->
  4 * V' <= 3 * V + Z.abs (S - 65536 * r) < 4 * V' + 4 ->
  0 <= es' -> 8 * P45 * es' <= 7 * (P45 + E1) * es + E1 * (7 * S + 65536 * r) + 8 * P45 * (65536 + 1) ->
  0 <= ev' -> 4 * P45 * ev' <= 3 * (P45 + E1) * ev + (P45 + E1) * es + E1 * (3 * V + Z.abs (S - 65536 * r)) + 4 * P45 * (65536 + 1) ->
  tmpl 35184372088832 0 100663308 0 9751858405112184569856 S' V' es' ev'.
Proof. unfold tmpl, P45, E1. intros. lia. Qed.
Lemma inv1ms_10s_x2_step_16 S V es ev r S' V' es' ev' :
  65536000000 <= S <= 655360000000000 -> 0 <= V <= 655360000000000 ->

  tmpl 35184372088832 0 83886090 33554436 5525108433596286238720 S V es ev ->
  tmpl 35184372088832 0 100663308 33554436 4062165443242945937408 S V es ev ->
  tmpl 35184372088832 0 134217744 0 5903629511765034795008 S V es ev ->
  1000000 <= r <= 10000000000 -> 0 <= es -> 0 <= ev ->
  8 * S' <= 7 * S + 65536 * r < 8 * S' + 8 ->
  4 * V' <= 3 * V + Z.abs (S - 65536 * r) < 4 * V' + 4 ->
  0 <= es' -> 8 * P45 * es' <= 7 * (P45 + E1) * es + E1 * (7 * S + 65536 * r) + 8 * P45 * (65536 + 1) ->
  0 <= ev' -> 4 * P45 * ev' <= 3 * (P45 + E1) * ev + (P45 + E1) * es + E1 * (3 * V + Z.abs (S - 65536 * r)) + 4 * P45 * (65536 + 1) ->
  tmpl 35184372088832 0 100663308 33554436 4062165443242945937408 S' V' es' ev'.
Proof. unfold tmpl, P45, E1. intros. lia. Qed.
Lemma inv1ms_10s_x2_step_17 S V es ev r S' V' es' ev' :
  65536000000 <= S <= 655360000000000 -> 0 <= V <= 655360000000000 ->

  tmpl 35184372088832 0 100663308 33554436 4062165443242945937408 S V es ev ->
  tmpl 35184372088832 0 100663308 67108872 2054198764160860553216 S V es ev ->
  tmpl 35184372088832 0 117440526 33554436 3057196847105324875776 S V es ev ->
  1000000 <= r <= 10000000000 -> 0 <= es -> 0 <= ev ->
  8 * S' <= 7 * S + 65536 * r < 8 * S' + 8 ->
  4 * V' <= 3 * V + Z.abs (S - 65536 * r) < 4 * V' + 4 ->
  0 <= es' -> 8 * P45 * es' <= 7 * (P45 + E1) * es + E1 * (7 * S + 65536 * r) + 8 * P45 * (65536 + 1) ->
  0 <= ev' -> 4 * P45 * ev' <= 3 * (P45 + E1) * ev + (P45 + E1) * es + E1 * (3 * V + Z.abs (S - 65536 * r)) + 4 * P45 * (65536 + 1) ->
  tmpl 35184372088832 0 100663308 67108872 2054198764160860553216 S' V' es' ev'.
Proof. unfold tmpl, P45, E1. intros. lia. Qed.
Lemma inv1ms_10s_x2_step_18 S V es ev r S' V' es' ev' :
  65536000000 <= S <= 655360000000000 -> 0 <= V <= 655360000000000 ->

  tmpl 35184372088832 0 100663308 67108872 2054198764160860553216 S V es ev ->
  tmpl 35184372088832 0 100663308 134217744 971875858080610254848 S V es ev ->
  tmpl 35184372088832 0 117440526 67108872 1392397500307826278400 S V es ev ->
  1000000 <= r <= 10000000000 -> 0 <= es -> 0 <= ev ->
  8 * S' <= 7 * S + 65536 * r < 8 * S' + 8 ->
  4 * V' <= 3 * V + Z.abs (S - 65536 * r) < 4 * V' + 4 ->
  0 <= es' -> 8 * P45 * es' <= 7 * (P45 + E1) * es + E1 * (7 * S + 65536 * r) + 8 * P45 * (65536 + 1) ->
  0 <= ev' -> 4 * P45 * ev' <= 3 * (P45 + E1) * ev + (P45 + E1) * es + E1 * (3 * V + Z.abs (S - 65536 * r)) + 4 * P45 * (65536 + 1) ->
  tmpl 35184372088832 0 100663308 134217744 971875858080610254848 S' V' es' ev'.
Proof. unfold tmpl, P45, E1. intros. lia. Qed.
Lemma inv1ms_10s_x2_step_19 S V es ev r S' V' es' ev' :
  65536000000 <= S <= 655360000000000 -> 0 <= V <= 655360000000000 ->

  tmpl 35184372088832 0 100663308 134217744 971875858080610254848 S V es ev ->
  tmpl 35184372088832 0 100663308 268435488 524880204234233085952 S V es ev ->
  tmpl 35184372088832 0 117440526 134217744 638004304566461267968 S V es ev ->
  1000000 <= r <= 10000000000 -> 0 <= es -> 0 <= ev ->
  8 * S' <= 7 * S + 65536 * r < 8 * S' + 8 ->
  4 * V' <= 3 * V + Z.abs (S - 65536 * r) < 4 * V' + 4 ->
  0 <= es' -> 8 * P45 * es' <= 7 * (P45 + E1) * es + E1 * (7 * S + 65536 * r) + 8 * P45 * (65536 + 1) ->
  0 <= ev' -> 4 * P45 * ev' <= 3 * (P45 + E1) * ev + (P45 + E1) * es + E1 * (3 * V + Z.abs (S - 65536 * r)) + 4 * P45 * (65536 + 1) ->
  tmpl 35184372088832 0 100663308 268435488 524880204234233085952 S' V' es' ev'.
Proof. unfold tmpl, P45, E1. intros. lia. Qed.
Lemma inv1ms_10s_x2_step_20 S V es ev r S' V' es' ev' :
  65536000000 <= S <= 655360000000000 -> 0 <= V <= 655360000000000 ->

  tmpl 35184372088832 0 100663308 0 9751858405112184569856 S V es ev ->
  tmpl 35184372088832 0 117440526 0 7587357747373541425152 S V es ev ->
  tmpl 35184372088832 0 134217744 0 5903629511765034795008 S V es ev ->
  1000000 <= r <= 10000000000 -> 0 <= es -> 0 <= ev ->
  8 * S' <= 7 * S + 65536 * r < 8 * S' + 8 ->
  4 * V' <= 3 * V + Z.abs (S - 65536 * r) < 4 * V' + 4 ->
  0 <= es' -> 8 * P45 * es' <= 7 * (P45 + E1) * es + E1 * (7 * S + 65536 * r) + 8 * P45 * (65536 + 1) ->
  0 <= ev' -> 4 * P45 * ev' <= 3 * (P45 + E1) * ev + (P45 + E1) * es + E1 * (3 * V + Z.abs (S - 65536 * r)) + 4 * P45 * (65536 + 1) ->
  tmpl 35184372088832 0 117440526 0 7587357747373541425152 S' V' es' ev'.
Proof. unfold tmpl, P45, E1. intros. lia. Qed.
Lemma inv1ms_10s_x2_step_21 S V es ev r S' V' es' ev' :
  65536000000 <= S <= 655360000000000 -> 0 <= V <= 655360000000000 ->

  tmpl 35184372088832 0 100663308 33554436 4062165443242945937408 S V es ev ->
  tmpl 35184372088832 0 117440526 33554436 3057196847105324875776 S V es ev ->
  tmpl 35184372088832 0 167772180 0 3575128462191098855424 S V es ev ->
  1000000 <= r <= 10000000000 -> 0 <= es -> 0 <= ev ->
  8 * S' <= 7 * S + 65536 * r < 8 * S' + 8 ->
  4 * V' <= 3 * V + Z.abs (S - 65536 * r) < 4 * V' + 4 ->
  0 <= es' -> 8 * P45 * es' <= 7 * (P45 + E1) * es + E1 * (7 * S + 65536 * r) + 8 * P45 * (65536 + 1) ->
  0 <= ev' -> 4 * P45 * ev' <= 3 * (P45 + E1) * ev + (P45 + E1) * es + E1 * (3 * V + Z.abs (S - 65536 * r)) + 4 * P45 * (65536 + 1) ->
  tmpl 35184372088832 0 117440526 33554436 3057196847105324875776 S' V' es' ev'.
Proof. unfold tmpl, P45, E1. intros. lia. Qed.
Lemma inv1ms_10s_x2_step_22 S V es ev r S' V' es' ev' :
  65536000000 <= S <= 655360000000000 -> 0 <= V <= 655360000000000 ->

  tmpl 35184372088832 0 117440526 67108872 1392397500307826278400 S V es ev ->
  tmpl 35184372088832 0 134217744 33554436 2323499913678736064512 S V es ev ->
  tmpl 35184372088832 0 150994962 33554436 1780830728266532519936 S V es ev ->
  1000000 <= r <= 10000000000 -> 0 <= es -> 0 <= ev ->
  8 * S' <= 7 * S + 65536 * r < 8 * S' + 8 ->
  4 * V' <= 3 * V + Z.abs (S - 65536 * r) < 4 * V' + 4 ->
  0 <= es' -> 8 * P45 * es' <= 7 * (P45 + E1) * es + E1 * (7 * S + 65536 * r) + 8 * P45 * (65536 + 1) ->
  0 <= ev' -> 4 * P45 * ev' <= 3 * (P45 + E1) * ev + (P45 + E1) * es + E1 * (3 * V + Z.abs (S - 65536 * r)) + 4 * P45 * (65536 + 1) ->
  tmpl 35184372088832 0 117440526 67108872 1392397500307826278400 S' V' es' ev'.
Proof. unfold tmpl, P45, E1. intros. lia. Qed.
Lemma inv1ms_10s_x2_step_23 S V es ev r S' V' es' ev' :
  65536000000 <= S <= 655360000000000 -> 0 <= V <= 655360000000000 ->

  tmpl 35184372088832 0 117440526 134217744 638004304566461267968 S V es ev ->
  tmpl 35184372088832 0 134217744 67108872 956553882589610246144 S V es ev ->
  tmpl 35184372088832 0 150994962 67108872 735349862692429103104 S V es ev ->
  1000000 <= r <= 10000000000 -> 0 <= es -> 0 <= ev ->
  8 * S' <= 7 * S + 65536 * r < 8 * S' + 8 ->
  4 * V' <= 3 * V + Z.abs (S - 65536 * r) < 4 * V' + 4 ->
  0 <= es' -> 8 * P45 * es' <= 7 * (P45 + E1) * es + E1 * (7 * S + 65536 * r) + 8 * P45 * (65536 + 1) ->
  0 <= ev' -> 4 * P45 * ev' <= 3 * (P45 + E1) * ev + (P45 + E1) * es + E1 * (3 * V + Z.abs (S - 65536 * r)) + 4 * P45 * (65536 + 1) ->
  tmpl 35184372088832 0 117440526 134217744 638004304566461267968 S' V' es' ev'.
Proof. unfold tmpl, P45, E1. intros. lia. Qed.
Lemma inv1ms_10s_x2_step_24 S V es ev r S' V' es' ev' :
  65536000000 <= S <= 655360000000000 -> 0 <= V <= 655360000000000 ->

  tmpl 35184372088832 0 117440526 0 7587357747373541425152 S V es ev ->
  tmpl 35184372088832 0 134217744 0 5903629511765034795008 S V es ev ->
  tmpl 35184372088832 0 150994962 0 4593880170878093754368 S V es ev ->
  1000000 <= r <= 10000000000 -> 0 <= es -> 0 <= ev ->
  8 * S' <= 7 * S + 65536 * r < 8 * S' + 8 ->
  4 * V' <= 3 * V + Z.abs (S - 65536 * r) < 4 * V' + 4 ->
  0 <= es' -> 8 * P45 * es' <= 7 * (P45 + E1) * es + E1 * (7 * S + 65536 * r) + 8 * P45 * (65536 + 1) ->
  0 <= ev' -> 4 * P45 * ev' <= 3 * (P45 + E1) * ev + (P45 + E1) * es + E1 * (3 * V + Z.abs (S - 65536 * r)) + 4 * P45 * (65536 + 1) ->
  tmpl 35184372088832 0 134217744 0 5903629511765034795008 S' V' es' ev'.
Proof. unfold tmpl, P45, E1. intros. lia. Qed.
Lemma inv1ms_10s_x2_step_25 S V es ev r S' V' es' ev' :
  65536000000 <= S <= 655360000000000 -> 0 <= V <= 655360000000000 ->

  tmpl 35184372088832 0 117440526 33554436 3057196847105324875776 S V es ev ->
  tmpl 35184372088832 0 134217744 33554436 2323499913678736064512 S V es ev ->
  tmpl 35184372088832 0 184549398 0 2783008425064852881408 S V es ev ->
  tmpl 35184372088832 0 201326616 0 2167778142442430398464 S V es ev ->
  1000000 <= r <= 10000000000 -> 0 <= es -> 0 <= ev ->
  8 * S' <= 7 * S + 65536 * r < 8 * S' + 8 ->
  4 * V' <= 3 * V + Z.abs (S - 65536 * r) < 4 * V' + 4 ->
  0 <= es' -> 8 * P45 * es' <= 7 * (P45 + E1) * es + E1 * (7 * S + 65536 * r) + 8 * P45 * (65536 + 1) ->
  0 <= ev' -> 4 * P45 * ev' <= 3 * (P45 + E1) * ev + (P45 + E1) * es + E1 * (3 * V + Z.abs (S - 65536 * r)) + 4 * P45 * (65536 + 1) ->
  tmpl 35184372088832 0 134217744 33554436 2323499913678736064512 S' V' es' ev'.
Proof. unfold tmpl, P45, E1. intros. lia. Qed.
Lemma inv1ms_10s_x2_step_26 S V es ev r S' V' es' ev' :
  65536000000 <= S <= 655360000000000 -> 0 <= V <= 655360000000000 ->

  tmpl 35184372088832 0 134217744 67108872 956553882589610246144 S V es ev ->
  tmpl 35184372088832 0 150994962 33554436 1780830728266532519936 S V es ev ->
  tmpl 35184372088832 0 167772180 33554436 1376752832968567291904 S V es ev ->
  1000000 <= r <= 10000000000 -> 0 <= es -> 0 <= ev ->
  8 * S' <= 7 * S + 65536 * r < 8 * S' + 8 ->
  4 * V' <= 3 * V + Z.abs (S - 65536 * r) < 4 * V' + 4 ->
  0 <= es' -> 8 * P45 * es' <= 7 * (P45 + E1) * es + E1 * (7 * S + 65536 * r) + 8 * P45 * (65536 + 1) ->
  0 <= ev' -> 4 * P45 * ev' <= 3 * (P45 + E1) * ev + (P45 + E1) * es + E1 * (3 * V + Z.abs (S - 65536 * r)) + 4 * P45 * (65536 + 1) ->
  tmpl 35184372088832 0 134217744 67108872 956553882589610246144 S' V' es' ev'.
Proof. unfold tmpl, P45, E1. intros. lia. Qed.
Lemma inv1ms_10s_x2_step_27 S V es ev r S' V' es' ev' :
  65536000000 <= S <= 655360000000000 -> 0 <= V <= 655360000000000 ->

  tmpl 35184372088832 0 134217744 134217744 503140616911589605376 S V es ev ->
  tmpl 35184372088832 0 150994962 67108872 735349862692429103104 S V es ev ->
  tmpl 35184372088832 0 167772180 67108872 603025293721173491712 S V es ev ->
  1000000 <= r <= 10000000000 -> 0 <= es -> 0 <= ev ->
  8 * S' <= 7 * S + 65536 * r < 8 * S' + 8 ->
  4 * V' <= 3 * V + Z.abs (S - 65536 * r) < 4 * V' + 4 ->
  0 <= es' -> 8 * P45 * es' <= 7 * (P45 + E1) * es + E1 * (7 * S + 65536 * r) + 8 * P45 * (65536 + 1) ->
  0 <= ev' -> 4 * P45 * ev' <= 3 * (P45 + E1) * ev + (P45 + E1) * es + E1 * (3 * V + Z.abs (S - 65536 * r)) + 4 * P45 * (65536 + 1) ->
  tmpl 35184372088832 0 134217744 134217744 503140616911589605376 S' V' es' ev'.
Proof. unfold tmpl, P45, E1. intros. lia. Qed.
Lemma inv1ms_10s_x2_step_28 S V es ev r S' V' es' ev' :
  65536000000 <= S <= 655360000000000 -> 0 <= V <= 655360000000000 ->

  tmpl 35184372088832 0 134217744 0 5903629511765034795008 S V es ev ->
  tmpl 35184372088832 0 150994962 0 4593880170878093754368 S V es ev ->
  tmpl 35184372088832 0 167772180 0 3575128462191098855424 S V es ev ->
  1000000 <= r <= 10000000000 -> 0 <= es -> 0 <= ev ->
  8 * S' <= 7 * S + 65536 * r < 8 * S' + 8 ->
  4 * V' <= 3 * V + Z.abs (S - 65536 * r) < 4 * V' + 4 ->
  0 <= es' -> 8 * P45 * es' <= 7 * (P45 + E1) * es + E1 * (7 * S + 65536 * r) + 8 * P45 * (65536 + 1) ->
  0 <= ev' -> 4 * P45 * ev' <= 3 * (P45 + E1) * ev + (P45 + E1) * es + E1 * (3 * V + Z.abs (S - 65536 * r)) + 4 * P45 * (65536 + 1) ->
  tmpl 35184372088832 0 150994962 0 4593880170878093754368 S' V' es' ev'.
Proof. unfold tmpl, P45, E1. intros. lia. Qed.
Lemma inv1ms_10s_x2_step_29 S V es ev r S' V' es' ev' :
  65536000000 <= S <= 655360000000000 -> 0 <= V <= 655360000000000 ->

  tmpl 35184372088832 0 134217744 33554436 2323499913678736064512 S V es ev ->
  tmpl 35184372088832 0 150994962 33554436 1780830728266532519936 S V es ev ->
  tmpl 35184372088832 0 167772180 33554436 1376752832968567291904 S V es ev ->
  tmpl 35184372088832 0 201326616 0 2167778142442430398464 S V es ev ->
  tmpl 35184372088832 0 218103834 0 1691237027911668858880 S V es ev ->
  1000000 <= r <= 10000000000 -> 0 <= es -> 0 <= ev ->
  8 * S' <= 7 * S + 65536 * r < 8 * S' + 8 ->
  4 * V' <= 3 * V + Z.abs (S - 65536 * r) < 4 * V' + 4 ->
  0 <= es' -> 8 * P45 * es' <= 7 * (P45 + E1) * es + E1 * (7 * S + 65536 * r) + 8 * P45 * (65536 + 1) ->
  0 <= ev' -> 4 * P45 * ev' <= 3 * (P45 + E1) * ev + (P45 + E1) * es + E1 * (3 * V + Z.abs (S - 65536 * r)) + 4 * P45 * (65536 + 1) ->
  tmpl 35184372088832 0 150994962 33554436 1780830728266532519936 S' V' es' ev'.
Proof. unfold tmpl, P45, E1. intros. lia. Qed.
Lemma inv1ms_10s_x2_step_30 S V es ev r S' V' es' ev' :
  65536000000 <= S <= 655360000000000 -> 0 <= V <= 655360000000000 ->

  tmpl 35184372088832 0 150994962 67108872 735349862692429103104 S V es ev ->
  tmpl 35184372088832 0 184549398 33554436 1076261479053444775936 S V es ev ->
  tmpl 35184372088832 0 201326616 33554436 855284050725237293056 S V es ev ->
  1000000 <= r <= 10000000000 -> 0 <= es -> 0 <= ev ->
  8 * S' <= 7 * S + 65536 * r < 8 * S' + 8 ->
  4 * V' <= 3 * V + Z.abs (S - 65536 * r) < 4 * V' + 4 ->
  0 <= es' -> 8 * P45 * es' <= 7 * (P45 + E1) * es + E1 * (7 * S + 65536 * r) + 8 * P45 * (65536 + 1) ->
  0 <= ev' -> 4 * P45 * ev' <= 3 * (P45 + E1) * ev + (P45 + E1) * es + E1 * (3 * V + Z.abs (S - 65536 * r)) + 4 * P45 * (65536 + 1) ->
  tmpl 35184372088832 0 150994962 67108872 735349862692429103104 S' V' es' ev'.
Proof. unfold tmpl, P45, E1. intros. lia. Qed.
Lemma inv1ms_10s_x2_step_31 S V es ev r S' V' es' ev' :
  65536000000 <= S <= 655360000000000 -> 0 <= V <= 655360000000000 ->

  tmpl 35184372088832 0 150994962 134217744 452788200894424154112 S V es ev ->
  tmpl 35184372088832 0 184549398 67108872 521973376186056048640 S V es ev ->
  tmpl 35184372088832 0 201326616 67108872 473208051071678021632 S V es ev ->
  1000000 <= r <= 10000000000 -> 0 <= es -> 0 <= ev ->
  8 * S' <= 7 * S + 65536 * r < 8 * S' + 8 ->
  4 * V' <= 3 * V + Z.abs (S - 65536 * r) < 4 * V' + 4 ->
  0 <= es' -> 8 * P45 * es' <= 7 * (P45 + E1) * es + E1 * (7 * S + 65536 * r) + 8 * P45 * (65536 + 1) ->
  0 <= ev' -> 4 * P45 * ev' <= 3 * (P45 + E1) * ev + (P45 + E1) * es + E1 * (3 * V + Z.abs (S - 65536 * r)) + 4 * P45 * (65536 + 1) ->
  tmpl 35184372088832 0 150994962 134217744 452788200894424154112 S' V' es' ev'.
Proof. unfold tmpl, P45, E1. intros. lia. Qed.
Lemma inv1ms_10s_x2_step_32 S V es ev r S' V' es' ev' :
  65536000000 <= S <= 655360000000000 -> 0 <= V <= 655360000000000 ->

  tmpl 35184372088832 0 150994962 0 4593880170878093754368 S V es ev ->
  tmpl 35184372088832 0 167772180 0 3575128462191098855424 S V es ev ->
  tmpl 35184372088832 0 184549398 0 2783008425064852881408 S V es ev ->
  1000000 <= r <= 10000000000 -> 0 <= es -> 0 <= ev ->
  8 * S' <= 7 * S + 65536 * r < 8 * S' + 8 ->
  4 * V' <= 3 * V + Z.abs (S - 65536 * r) < 4 * V' + 4 ->
  0 <= es' -> 8 * P45 * es' <= 7 * (P45 + E1) * es + E1 * (7 * S + 65536 * r) + 8 * P45 * (65536 + 1) ->
  0 <= ev' -> 4 * P45 * ev' <= 3 * (P45 + E1) * ev + (P45 + E1) * es + E1 * (3 * V + Z.abs (S - 65536 * r)) + 4 * P45 * (65536 + 1) ->
  tmpl 35184372088832 0 167772180 0 3575128462191098855424 S' V' es' ev'.
Proof. unfold tmpl, P45, E1. intros. lia. Qed.
Lemma inv1ms_10s_x2_step_33 S V es ev r S' V' es' ev' :
  65536000000 <= S <= 655360000000000 -> 0 <= V <= 655360000000000 ->

  tmpl 35184372088832 0 150994962 33554436 1780830728266532519936 S V es ev ->
  tmpl 35184372088832 0 167772180 33554436 1376752832968567291904 S V es ev ->
  tmpl 35184372088832 0 184549398 33554436 1076261479053444775936 S V es ev ->
  tmpl 35184372088832 0 218103834 0 1691237027911668858880 S V es ev ->
  tmpl 35184372088832 0 234881052 0 1324270201534905581568 S V es ev ->
  1000000 <= r <= 10000000000 -> 0 <= es -> 0 <= ev ->
  8 * S' <= 7 * S + 65536 * r < 8 * S' + 8 ->
  4 * V' <= 3 * V + Z.abs (S - 65536 * r) < 4 * V' + 4 ->
  0 <= es' -> 8 * P45 * es' <= 7 * (P45 + E1) * es + E1 * (7 * S + 65536 * r) + 8 * P45 * (65536 + 1) ->
  0 <= ev' -> 4 * P45 * ev' <= 3 * (P45 + E1) * ev + (P45 + E1) * es + E1 * (3 * V + Z.abs (S - 65536 * r)) + 4 * P45 * (65536 + 1) ->
  tmpl 35184372088832 0 167772180 33554436 1376752832968567291904 S' V' es' ev'.
Proof. unfold tmpl, P45, E1. intros. lia. Qed.
Lemma inv1ms_10s_x2_step_34 S V es ev r S' V' es' ev' :
  65536000000 <= S <= 655360000000000 -> 0 <= V <= 655360000000000 ->

  tmpl 35184372088832 0 150994962 67108872 735349862692429103104 S V es ev ->
  tmpl 35184372088832 0 167772180 67108872 603025293721173491712 S V es ev ->
  tmpl 35184372088832 0 218103834 33554436 696408726767139946496 S V es ev ->
  1000000 <= r <= 10000000000 -> 0 <= es -> 0 <= ev ->
  8 * S' <= 7 * S + 65536 * r < 8 * S' + 8 ->
  4 * V' <= 3 * V + Z.abs (S - 65536 * r) < 4 * V' + 4 ->
  0 <= es' -> 8 * P45 * es' <= 7 * (P45 + E1) * es + E1 * (7 * S + 65536 * r) + 8 * P45 * (65536 + 1) ->
  0 <= ev' -> 4 * P45 * ev' <= 3 * (P45 + E1) * ev + (P45 + E1) * es + E1 * (3 * V + Z.abs (S - 65536 * r)) + 4 * P45 * (65536 + 1) ->
  tmpl 35184372088832 0 167772180 67108872 603025293721173491712 S' V' es' ev'.
Proof. unfold tmpl, P45, E1. intros. lia. Qed.
Lemma inv1ms_10s_x2_step_35 S V es ev r S' V' es' ev' :
  65536000000 <= S <= 655360000000000 -> 0 <= V <= 655360000000000 ->

  tmpl 35184372088832 0 150994962 134217744 452788200894424154112 S V es ev ->
  tmpl 35184372088832 0 167772180 134217744 430864850289764204544 S V es ev ->
  tmpl 35184372088832 0 218103834 67108872 445095930282367057920 S V es ev ->
  1000000 <= r <= 10000000000 -> 0 <= es -> 0 <= ev ->
  8 * S' <= 7 * S + 65536 * r < 8 * S' + 8 ->
  4 * V' <= 3 * V + Z.abs (S - 65536 * r) < 4 * V' + 4 ->
  0 <= es' -> 8 * P45 * es' <= 7 * (P45 + E1) * es + E1 * (7 * S + 65536 * r) + 8 * P45 * (65536 + 1) ->
  0 <= ev' -> 4 * P45 * ev' <= 3 * (P45 + E1) * ev + (P45 + E1) * es + E1 * (3 * V + Z.abs (S - 65536 * r)) + 4 * P45 * (65536 + 1) ->
  tmpl 35184372088832 0 167772180 134217744 430864850289764204544 S' V' es' ev'.
Proof. unfold tmpl, P45, E1. intros. lia. Qed.
Lemma inv1ms_10s_x2_step_36 S V es ev r S' V' es' ev' :
  65536000000 <= S <= 655360000000000 -> 0 <= V <= 655360000000000 ->

  tmpl 35184372088832 0 167772180 0 3575128462191098855424 S V es ev ->
  tmpl 35184372088832 0 184549398 0 2783008425064852881408 S V es ev ->
  tmpl 35184372088832 0 201326616 0 2167778142442430398464 S V es ev ->
  1000000 <= r <= 10000000000 -> 0 <= es -> 0 <= ev ->
  8 * S' <= 7 * S + 65536 * r < 8 * S' + 8 ->
  4 * V' <= 3 * V + Z.abs (S - 65536 * r) < 4 * V' + 4 ->
  0 <= es' -> 8 * P45 * es' <= 7 * (P45 + E1) * es + E1 * (7 * S + 65536 * r) + 8 * P45 * (65536 + 1) ->
  0 <= ev' -> 4 * P45 * ev' <= 3 * (P45 + E1) * ev + (P45 + E1) * es + E1 * (3 * V + Z.abs (S - 65536 * r)) + 4 * P45 * (65536 + 1) ->
  tmpl 35184372088832 0 184549398 0 2783008425064852881408 S' V' es' ev'.
Proof. unfold tmpl, P45, E1. intros. lia. Qed.
Lemma inv1ms_10s_x2_step_37 S V es ev r S' V' es' ev' :
  65536000000 <= S <= 655360000000000 -> 0 <= V <= 655360000000000 ->

  tmpl 35184372088832 0 167772180 33554436 1376752832968567291904 S V es ev ->
  tmpl 35184372088832 0 184549398 33554436 1076261479053444775936 S V es ev ->
  tmpl 35184372088832 0 201326616 33554436 855284050725237293056 S V es ev ->
  tmpl 35184372088832 0 234881052 0 1324270201534905581568 S V es ev ->
  tmpl 35184372088832 0 251658270 0 1044768569007752609792 S V es ev ->
  1000000 <= r <= 10000000000 -> 0 <= es -> 0 <= ev ->
  8 * S' <= 7 * S + 65536 * r < 8 * S' + 8 ->
  4 * V' <= 3 * V + Z.abs (S - 65536 * r) < 4 * V' + 4 ->
  0 <= es' -> 8 * P45 * es' <= 7 * (P45 + E1) * es + E1 * (7 * S + 65536 * r) + 8 * P45 * (65536 + 1) ->
  0 <= ev' -> 4 * P45 * ev' <= 3 * (P45 + E1) * ev + (P45 + E1) * es + E1 * (3 * V + Z.abs (S - 65536 * r)) + 4 * P45 * (65536 + 1) ->
  tmpl 35184372088832 0 184549398 33554436 1076261479053444775936 S' V' es' ev'.
Proof. unfold tmpl, P45, E1. intros. lia. Qed.
Lemma inv1ms_10s_x2_step_38 S V es ev r S' V' es' ev' :
  65536000000 <= S <= 655360000000000 -> 0 <= V <= 655360000000000 ->

  tmpl 35184372088832 0 167772180 67108872 603025293721173491712 S V es ev ->
  tmpl 35184372088832 0 184549398 67108872 521973376186056048640 S V es ev ->
  tmpl 35184372088832 0 234881052 33554436 586078435578727170048 S V es ev ->
  tmpl 35184372088832 0 251658270 33554436 512917489051729657856 S V es ev ->
  1000000 <= r <= 10000000000 -> 0 <= es -> 0 <= ev ->
  8 * S' <= 7 * S + 65536 * r < 8 * S' + 8 ->
  4 * V' <= 3 * V + Z.abs (S - 65536 * r) < 4 * V' + 4 ->
  0 <= es' -> 8 * P45 * es' <= 7 * (P45 + E1) * es + E1 * (7 * S + 65536 * r) + 8 * P45 * (65536 + 1) ->
  0 <= ev' -> 4 * P45 * ev' <= 3 * (P45 + E1) * ev + (P45 + E1) * es + E1 * (3 * V + Z.abs (S - 65536 * r)) + 4 * P45 * (65536 + 1) ->
  tmpl 35184372088832 0 184549398 67108872 521973376186056048640 S' V' es' ev'.
Proof. unfold tmpl, P45, E1. intros. lia. Qed.
Lemma inv1ms_10s_x2_step_39 S V es ev r S' V' es' ev' :
  65536000000 <= S <= 655360000000000 -> 0 <= V <= 655360000000000 ->

  tmpl 35184372088832 0 167772180 134217744 430864850289764204544 S V es ev ->
  tmpl 35184372088832 0 184549398 134217744 423707037134557872128 S V es ev ->
  tmpl 35184372088832 0 251658270 67108872 421949896361342402560 S V es ev ->
  1000000 <= r <= 10000000000 -> 0 <= es -> 0 <= ev ->
  8 * S' <= 7 * S + 65536 * r < 8 * S' + 8 ->
  4 * V' <= 3 * V + Z.abs (S - 65536 * r) < 4 * V' + 4 ->
  0 <= es' -> 8 * P45 * es' <= 7 * (P45 + E1) * es + E1 * (7 * S + 65536 * r) + 8 * P45 * (65536 + 1) ->
  0 <= ev' -> 4 * P45 * ev' <= 3 * (P45 + E1) * ev + (P45 + E1) * es + E1 * (3 * V + Z.abs (S - 65536 * r)) + 4 * P45 * (65536 + 1) ->
  tmpl 35184372088832 0 184549398 134217744 423707037134557872128 S' V' es' ev'.
Proof. unfold tmpl, P45, E1. intros. lia. Qed.
Lemma inv1ms_10s_x2_step_40 S V es ev r S' V' es' ev' :
  65536000000 <= S <= 655360000000000 -> 0 <= V <= 655360000000000 ->

  tmpl 35184372088832 0 184549398 0 2783008425064852881408 S V es ev ->
  tmpl 35184372088832 0 201326616 0 2167778142442430398464 S V es ev ->
  tmpl 35184372088832 0 218103834 0 1691237027911668858880 S V es ev ->
  tmpl 35184372088832 0 234881052 0 1324270201534905581568 S V es ev ->
  1000000 <= r <= 10000000000 -> 0 <= es -> 0 <= ev ->
  8 * S' <= 7 * S + 65536 * r < 8 * S' + 8 ->
  4 * V' <= 3 * V + Z.abs (S - 65536 * r) < 4 * V' + 4 ->
  0 <= es' -> 8 * P45 * es' <= 7 * (P45 + E1) * es + E1 * (7 * S + 65536 * r) + 8 * P45 * (65536 + 1) ->
  0 <= ev' -> 4 * P45 * ev' <= 3 * (P45 + E1) * ev + (P45 + E1) * es + E1 * (3 * V + Z.abs (S - 65536 * r)) + 4 * P45 * (65536 + 1) ->
  tmpl 35184372088832 0 201326616 0 2167778142442430398464 S' V' es' ev'.
Proof. unfold tmpl, P45, E1. intros. lia. Qed.
Lemma inv1ms_10s_x2_step_41 S V es ev r S' V' es' ev' :
  65536000000 <= S <= 655360000000000 -> 0 <= V <= 655360000000000 ->

  tmpl 35184372088832 0 184549398 33554436 1076261479053444775936 S V es ev ->
  tmpl 35184372088832 0 201326616 33554436 855284050725237293056 S V es ev ->
  tmpl 35184372088832 0 218103834 33554436 696408726767139946496 S V es ev ->
  tmpl 35184372088832 0 251658270 0 1044768569007752609792 S V es ev ->
  tmpl 35184372088832 0 268435488 0 835760252043128864768 S V es ev ->
  1000000 <= r <= 10000000000 -> 0 <= es -> 0 <= ev ->
  8 * S' <= 7 * S + 65536 * r < 8 * S' + 8 ->
  4 * V' <= 3 * V + Z.abs (S - 65536 * r) < 4 * V' + 4 ->
  0 <= es' -> 8 * P45 * es' <= 7 * (P45 + E1) * es + E1 * (7 * S + 65536 * r) + 8 * P45 * (65536 + 1) ->
  0 <= ev' -> 4 * P45 * ev' <= 3 * (P45 + E1) * ev + (P45 + E1) * es + E1 * (3 * V + Z.abs (S - 65536 * r)) + 4 * P45 * (65536 + 1) ->
  tmpl 35184372088832 0 201326616 33554436 855284050725237293056 S' V' es' ev'.
Proof. unfold tmpl, P45, E1. intros. lia. Qed.
Lemma inv1ms_10s_x2_step_42 S V es ev r S' V' es' ev' :
  65536000000 <= S <= 655360000000000 -> 0 <= V <= 655360000000000 ->

  tmpl 35184372088832 0 184549398 67108872 521973376186056048640 S V es ev ->
  tmpl 35184372088832 0 201326616 67108872 473208051071678021632 S V es ev ->
  tmpl 35184372088832 0 251658270 33554436 512917489051729657856 S V es ev ->
  tmpl 35184372088832 0 268435488 33554436 466908909921199849472 S V es ev ->
  tmpl 35184372088832 0 318767142 0 506330039654348357632 S V es ev ->
  1000000 <= r <= 10000000000 -> 0 <= es -> 0 <= ev ->
  8 * S' <= 7 * S + 65536 * r < 8 * S' + 8 ->
  4 * V' <= 3 * V + Z.abs (S - 65536 * r) < 4 * V' + 4 ->
  0 <= es' -> 8 * P45 * es' <= 7 * (P45 + E1) * es + E1 * (7 * S + 65536 * r) + 8 * P45 * (65536 + 1) ->
  0 <= ev' -> 4 * P45 * ev' <= 3 * (P45 + E1) * ev + (P45 + E1) * es + E1 * (3 * V + Z.abs (S - 65536 * r)) + 4 * P45 * (65536 + 1) ->
  tmpl 35184372088832 0 201326616 67108872 473208051071678021632 S' V' es' ev'.
Proof. unfold tmpl, P45, E1. intros. lia. Qed.
Lemma inv1ms_10s_x2_step_43 S V es ev r S' V' es' ev' :
  65536000000 <= S <= 655360000000000 -> 0 <= V <= 655360000000000 ->

  tmpl 35184372088832 0 184549398 134217744 423707037134557872128 S V es ev ->
  tmpl 35184372088832 0 201326616 134217744 420943995444282654720 S V es ev ->
  tmpl 35184372088832 0 268435488 67108872 417895734580347142144 S V es ev ->
  1000000 <= r <= 10000000000 -> 0 <= es -> 0 <= ev ->
  8 * S' <= 7 * S + 65536 * r < 8 * S' + 8 ->
  4 * V' <= 3 * V + Z.abs (S - 65536 * r) < 4 * V' + 4 ->
  0 <= es' -> 8 * P45 * es' <= 7 * (P45 + E1) * es + E1 * (7 * S + 65536 * r) + 8 * P45 * (65536 + 1) ->
  0 <= ev' -> 4 * P45 * ev' <= 3 * (P45 + E1) * ev + (P45 + E1) * es + E1 * (3 * V + Z.abs (S - 65536 * r)) + 4 * P45 * (65536 + 1) ->
  tmpl 35184372088832 0 201326616 134217744 420943995444282654720 S' V' es' ev'.
Proof. unfold tmpl, P45, E1. intros. lia. Qed.
Lemma inv1ms_10s_x2_step_44 S V es ev r S' V' es' ev' :
  65536000000 <= S <= 655360000000000 -> 0 <= V <= 655360000000000 ->

  tmpl 35184372088832 0 201326616 0 2167778142442430398464 S V es ev ->
  tmpl 35184372088832 0 218103834 0 1691237027911668858880 S V es ev ->
  tmpl 35184372088832 0 234881052 0 1324270201534905581568 S V es ev ->
  tmpl 35184372088832 0 251658270 0 1044768569007752609792 S V es ev ->
  1000000 <= r <= 10000000000 -> 0 <= es -> 0 <= ev ->
  8 * S' <= 7 * S + 65536 * r < 8 * S' + 8 ->
  4 * V' <= 3 * V + Z.abs (S - 65536 * r) < 4 * V' + 4 ->
  0 <= es' -> 8 * P45 * es' <= 7 * (P45 + E1) * es + E1 * (7 * S + 65536 * r) + 8 * P45 * (65536 + 1) ->
  0 <= ev' -> 4 * P45 * ev' <= 3 * (P45 + E1) * ev + (P45 + E1) * es + E1 * (3 * V + Z.abs (S - 65536 * r)) + 4 * P45 * (65536 + 1) ->
  tmpl 35184372088832 0 218103834 0 1691237027911668858880 S' V' es' ev'.
Proof. unfold tmpl, P45, E1. intros. lia. Qed.
Lemma inv1ms_10s_x2_step_45 S V es ev r S' V' es' ev' :
  65536000000 <= S <= 655360000000000 -> 0 <= V <= 655360000000000 ->

  tmpl 35184372088832 0 201326616 33554436 855284050725237293056 S V es ev ->
  tmpl 35184372088832 0 218103834 33554436 696408726767139946496 S V es ev ->
  tmpl 35184372088832 0 234881052 33554436 586078435578727170048 S V es ev ->
  tmpl 35184372088832 0 268435488 0 835760252043128864768 S V es ev ->
  tmpl 35184372088832 0 285212706 0 683736837848755732480 S V es ev ->
  1000000 <= r <= 10000000000 -> 0 <= es -> 0 <= ev ->
  8 * S' <= 7 * S + 65536 * r < 8 * S' + 8 ->
  4 * V' <= 3 * V + Z.abs (S - 65536 * r) < 4 * V' + 4 ->
  0 <= es' -> 8 * P45 * es' <= 7 * (P45 + E1) * es + E1 * (7 * S + 65536 * r) + 8 * P45 * (65536 + 1) ->
  0 <= ev' -> 4 * P45 * ev' <= 3 * (P45 + E1) * ev + (P45 + E1) * es + E1 * (3 * V + Z.abs (S - 65536 * r)) + 4 * P45 * (65536 + 1) ->
  tmpl 35184372088832 0 218103834 33554436 696408726767139946496 S' V' es' ev'.
Proof. unfold tmpl, P45, E1. intros. lia. Qed.
Lemma inv1ms_10s_x2_step_46 S V es ev r S' V' es' ev' :
  65536000000 <= S <= 655360000000000 -> 0 <= V <= 655360000000000 ->

  tmpl 35184372088832 0 201326616 67108872 473208051071678021632 S V es ev ->
  tmpl 35184372088832 0 218103834 67108872 445095930282367057920 S V es ev ->
  tmpl 35184372088832 0 234881052 67108872 429840386666673209344 S V es ev ->
  tmpl 35184372088832 0 268435488 33554436 466908909921199849472 S V es ev ->
  tmpl 35184372088832 0 285212706 33554436 439992468694080028672 S V es ev ->
  1000000 <= r <= 10000000000 -> 0 <= es -> 0 <= ev ->
  8 * S' <= 7 * S + 65536 * r < 8 * S' + 8 ->
  4 * V' <= 3 * V + Z.abs (S - 65536 * r) < 4 * V' + 4 ->
  0 <= es' -> 8 * P45 * es' <= 7 * (P45 + E1) * es + E1 * (7 * S + 65536 * r) + 8 * P45 * (65536 + 1) ->
  0 <= ev' -> 4 * P45 * ev' <= 3 * (P45 + E1) * ev + (P45 + E1) * es + E1 * (3 * V + Z.abs (S - 65536 * r)) + 4 * P45 * (65536 + 1) ->
  tmpl 35184372088832 0 218103834 67108872 445095930282367057920 S' V' es' ev'.
Proof. unfold tmpl, P45, E1. intros. lia. Qed.
Lemma inv1ms_10s_x2_step_47 S V es ev r S' V' es' ev' :
  65536000000 <= S <= 655360000000000 -> 0 <= V <= 655360000000000 ->

  tmpl 35184372088832 0 201326616 134217744 420943995444282654720 S V es ev ->
  tmpl 35184372088832 0 218103834 134217744 419529804771080273920 S V es ev ->
  tmpl 35184372088832 0 301989924 67108872 414140368914217566208 S V es ev ->
  1000000 <= r <= 10000000000 -> 0 <= es -> 0 <= ev ->
  8 * S' <= 7 * S + 65536 * r < 8 * S' + 8 ->
  4 * V' <= 3 * V + Z.abs (S - 65536 * r) < 4 * V' + 4 ->
  0 <= es' -> 8 * P45 * es' <= 7 * (P45 + E1) * es + E1 * (7 * S + 65536 * r) + 8 * P45 * (65536 + 1) ->
  0 <= ev' -> 4 * P45 * ev' <= 3 * (P45 + E1) * ev + (P45 + E1) * es + E1 * (3 * V + Z.abs (S - 65536 * r)) + 4 * P45 * (65536 + 1) ->
  tmpl 35184372088832 0 218103834 134217744 419529804771080273920 S' V' es' ev'.
Proof. unfold tmpl, P45, E1. intros. lia. Qed.
Lemma inv1ms_10s_x2_step_48 S V es ev r S' V' es' ev' :
  65536000000 <= S <= 655360000000000 -> 0 <= V <= 655360000000000 ->

  tmpl 35184372088832 0 218103834 0 1691237027911668858880 S V es ev ->
  tmpl 35184372088832 0 234881052 0 1324270201534905581568 S V es ev ->
  tmpl 35184372088832 0 251658270 0 1044768569007752609792 S V es ev ->
  tmpl 35184372088832 0 268435488 0 835760252043128864768 S V es ev ->
  1000000 <= r <= 10000000000 -> 0 <= es -> 0 <= ev ->
  8 * S' <= 7 * S + 65536 * r < 8 * S' + 8 ->
  4 * V' <= 3 * V + Z.abs (S - 65536 * r) < 4 * V' + 4 ->
  0 <= es' -> 8 * P45 * es' <= 7 * (P45 + E1) * es + E1 * (7 * S + 65536 * r) + 8 * P45 * (65536 + 1) ->
  0 <= ev' -> 4 * P45 * ev' <= 3 * (P45 + E1) * ev + (P45 + E1) * es + E1 * (3 * V + Z.abs (S - 65536 * r)) + 4 * P45 * (65536 + 1) ->
  tmpl 35184372088832 0 234881052 0 1324270201534905581568 S' V' es' ev'.
Proof. unfold tmpl, P45, E1. intros. lia. Qed.
Lemma inv1ms_10s_x2_step_49 S V es ev r S' V' es' ev' :
  65536000000 <= S <= 655360000000000 -> 0 <= V <= 655360000000000 ->

  tmpl 35184372088832 0 218103834 33554436 696408726767139946496 S V es ev ->
  tmpl 35184372088832 0 234881052 33554436 586078435578727170048 S V es ev ->
  tmpl 35184372088832 0 251658270 33554436 512917489051729657856 S V es ev ->
  tmpl 35184372088832 0 285212706 0 683736837848755732480 S V es ev ->
  tmpl 35184372088832 0 301989924 0 577303779024326361088 S V es ev ->
  1000000 <= r <= 10000000000 -> 0 <= es -> 0 <= ev ->
  8 * S' <= 7 * S + 65536 * r < 8 * S' + 8 ->
  4 * V' <= 3 * V + Z.abs (S - 65536 * r) < 4 * V' + 4 ->
  0 <= es' -> 8 * P45 * es' <= 7 * (P45 + E1) * es + E1 * (7 * S + 65536 * r) + 8 * P45 * (65536 + 1) ->
  0 <= ev' -> 4 * P45 * ev' <= 3 * (P45 + E1) * ev + (P45 + E1) * es + E1 * (3 * V + Z.abs (S - 65536 * r)) + 4 * P45 * (65536 + 1) ->
  tmpl 35184372088832 0 234881052 33554436 586078435578727170048 S' V' es' ev'.
Proof. unfold tmpl, P45, E1. intros. lia. Qed.
Lemma inv1ms_10s_x2_step_50 S V es ev r S' V' es' ev' :
  65536000000 <= S <= 655360000000000 -> 0 <= V <= 655360000000000 ->

  tmpl 35184372088832 0 218103834 67108872 445095930282367057920 S V es ev ->
  tmpl 35184372088832 0 234881052 67108872 429840386666673209344 S V es ev ->
  tmpl 35184372088832 0 251658270 67108872 421949896361342402560 S V es ev ->
  tmpl 35184372088832 0 285212706 33554436 439992468694080028672 S V es ev ->
  tmpl 35184372088832 0 301989924 33554436 425211489748926332928 S V es ev ->
  1000000 <= r <= 10000000000 -> 0 <= es -> 0 <= ev ->
  8 * S' <= 7 * S + 65536 * r < 8 * S' + 8 ->
  4 * V' <= 3 * V + Z.abs (S - 65536 * r) < 4 * V' + 4 ->
  0 <= es' -> 8 * P45 * es' <= 7 * (P45 + E1) * es + E1 * (7 * S + 65536 * r) + 8 * P45 * (65536 + 1) ->
  0 <= ev' -> 4 * P45 * ev' <= 3 * (P45 + E1) * ev + (P45 + E1) * es + E1 * (3 * V + Z.abs (S - 65536 * r)) + 4 * P45 * (65536 + 1) ->
  tmpl 35184372088832 0 234881052 67108872 429840386666673209344 S' V' es' ev'.
Proof. unfold tmpl, P45, E1. intros. lia. Qed.
Lemma inv1ms_10s_x2_step_51 S V es ev r S' V' es' ev' :
  65536000000 <= S <= 655360000000000 -> 0 <= V <= 655360000000000 ->

  tmpl 35184372088832 0 218103834 134217744 419529804771080273920 S V es ev ->
  tmpl 35184372088832 0 234881052 134217744 418379935959914643456 S V es ev ->
  tmpl 35184372088832 0 318767142 67108872 412918247040003670016 S V es ev ->
  1000000 <= r <= 10000000000 -> 0 <= es -> 0 <= ev ->
  8 * S' <= 7 * S + 65536 * r < 8 * S' + 8 ->
  4 * V' <= 3 * V + Z.abs (S - 65536 * r) < 4 * V' + 4 ->
  0 <= es' -> 8 * P45 * es' <= 7 * (P45 + E1) * es + E1 * (7 * S + 65536 * r) + 8 * P45 * (65536 + 1) ->
  0 <= ev' -> 4 * P45 * ev' <= 3 * (P45 + E1) * ev + (P45 + E1) * es + E1 * (3 * V + Z.abs (S - 65536 * r)) + 4 * P45 * (65536 + 1) ->
  tmpl 35184372088832 0 234881052 134217744 418379935959914643456 S' V' es' ev'.
Proof. unfold tmpl, P45, E1. intros. lia. Qed.
Lemma inv1ms_10s_x2_step_52 S V es ev r S' V' es' ev' :
  65536000000 <= S <= 655360000000000 -> 0 <= V <= 655360000000000 ->

  tmpl 35184372088832 0 234881052 0 1324270201534905581568 S V es ev ->
  tmpl 35184372088832 0 251658270 0 1044768569007752609792 S V es ev ->
  tmpl 35184372088832 0 268435488 0 835760252043128864768 S V es ev ->
  tmpl 35184372088832 0 285212706 0 683736837848755732480 S V es ev ->
  1000000 <= r <= 10000000000 -> 0 <= es -> 0 <= ev ->
  8 * S' <= 7 * S + 65536 * r < 8 * S' + 8 ->
  4 * V' <= 3 * V + Z.abs (S - 65536 * r) < 4 * V' + 4 ->
  0 <= es' -> 8 * P45 * es' <= 7 * (P45 + E1) * es + E1 * (7 * S + 65536 * r) + 8 * P45 * (65536 + 1) ->
  0 <= ev' -> 4 * P45 * ev' <= 3 * (P45 + E1) * ev + (P45 + E1) * es + E1 * (3 * V + Z.abs (S - 65536 * r)) + 4 * P45 * (65536 + 1) ->
  tmpl 35184372088832 0 251658270 0 1044768569007752609792 S' V' es' ev'.
Proof. unfold tmpl, P45, E1. intros. lia. Qed.
Lemma inv1ms_10s_x2_step_53 S V es ev r S' V' es' ev' :
  65536000000 <= S <= 655360000000000 -> 0 <= V <= 655360000000000 ->

  tmpl 35184372088832 0 234881052 33554436 586078435578727170048 S V es ev ->
  tmpl 35184372088832 0 251658270 33554436 512917489051729657856 S V es ev ->
  tmpl 35184372088832 0 268435488 33554436 466908909921199849472 S V es ev ->
  tmpl 35184372088832 0 301989924 0 577303779024326361088 S V es ev ->
  tmpl 35184372088832 0 318767142 0 506330039654348357632 S V es ev ->
  tmpl 35184372088832 0 335544360 0 461667282885208047616 S V es ev ->
  1000000 <= r <= 10000000000 -> 0 <= es -> 0 <= ev ->
  8 * S' <= 7 * S + 65536 * r < 8 * S' + 8 ->
  4 * V' <= 3 * V + Z.abs (S - 65536 * r) < 4 * V' + 4 ->
  0 <= es' -> 8 * P45 * es' <= 7 * (P45 + E1) * es + E1 * (7 * S + 65536 * r) + 8 * P45 * (65536 + 1) ->
  0 <= ev' -> 4 * P45 * ev' <= 3 * (P45 + E1) * ev + (P45 + E1) * es + E1 * (3 * V + Z.abs (S - 65536 * r)) + 4 * P45 * (65536 + 1) ->
  tmpl 35184372088832 0 251658270 33554436 512917489051729657856 S' V' es' ev'.
Proof. unfold tmpl, P45, E1. intros. lia. Qed.
Lemma inv1ms_10s_x2_step_54 S V es ev r S' V' es' ev' :
  65536000000 <= S <= 655360000000000 -> 0 <= V <= 655360000000000 ->

  tmpl 35184372088832 0 234881052 67108872 429840386666673209344 S V es ev ->
  tmpl 35184372088832 0 251658270 67108872 421949896361342402560 S V es ev ->
  tmpl 35184372088832 0 268435488 67108872 417895734580347142144 S V es ev ->
  tmpl 35184372088832 0 301989924 33554436 425211489748926332928 S V es ev ->
  tmpl 35184372088832 0 318767142 33554436 417486294775779491840 S V es ev ->
  1000000 <= r <= 10000000000 -> 0 <= es -> 0 <= ev ->
  8 * S' <= 7 * S + 65536 * r < 8 * S' + 8 ->
  4 * V' <= 3 * V + Z.abs (S - 65536 * r) < 4 * V' + 4 ->
  0 <= es' -> 8 * P45 * es' <= 7 * (P45 + E1) * es + E1 * (7 * S + 65536 * r) + 8 * P45 * (65536 + 1) ->
  0 <= ev' -> 4 * P45 * ev' <= 3 * (P45 + E1) * ev + (P45 + E1) * es + E1 * (3 * V + Z.abs (S - 65536 * r)) + 4 * P45 * (65536 + 1) ->
  tmpl 35184372088832 0 251658270 67108872 421949896361342402560 S' V' es' ev'.
Proof. unfold tmpl, P45, E1. intros. lia. Qed.
Lemma inv1ms_10s_x2_step_55 S V es ev r S' V' es' ev' :
  65536000000 <= S <= 655360000000000 -> 0 <= V <= 655360000000000 ->

  tmpl 35184372088832 0 234881052 134217744 418379935959914643456 S V es ev ->
  tmpl 35184372088832 0 251658270 134217744 417275306438022135808 S V es ev ->
  tmpl 35184372088832 0 352321578 67108872 410679428585932193792 S V es ev ->
  1000000 <= r <= 10000000000 -> 0 <= es -> 0 <= ev ->
  8 * S' <= 7 * S + 65536 * r < 8 * S' + 8 ->
  4 * V' <= 3 * V + Z.abs (S - 65536 * r) < 4 * V' + 4 ->
  0 <= es' -> 8 * P45 * es' <= 7 * (P45 + E1) * es + E1 * (7 * S + 65536 * r) + 8 * P45 * (65536 + 1) ->
  0 <= ev' -> 4 * P45 * ev' <= 3 * (P45 + E1) * ev + (P45 + E1) * es + E1 * (3 * V + Z.abs (S - 65536 * r)) + 4 * P45 * (65536 + 1) ->
  tmpl 35184372088832 0 251658270 134217744 417275306438022135808 S' V' es' ev'.
Proof. unfold tmpl, P45, E1. intros. lia. Qed.
Lemma inv1ms_10s_x2_step_56 S V es ev r S' V' es' ev' :
  65536000000 <= S <= 655360000000000 -> 0 <= V <= 655360000000000 ->

  tmpl 35184372088832 0 251658270 0 1044768569007752609792 S V es ev ->
  tmpl 35184372088832 0 268435488 0 835760252043128864768 S V es ev ->
  tmpl 35184372088832 0 285212706 0 683736837848755732480 S V es ev ->
  tmpl 35184372088832 0 301989924 0 577303779024326361088 S V es ev ->
  1000000 <= r <= 10000000000 -> 0 <= es -> 0 <= ev ->
  8 * S' <= 7 * S + 65536 * r < 8 * S' + 8 ->
  4 * V' <= 3 * V + Z.abs (S - 65536 * r) < 4 * V' + 4 ->
  0 <= es' -> 8 * P45 * es' <= 7 * (P45 + E1) * es + E1 * (7 * S + 65536 * r) + 8 * P45 * (65536 + 1) ->
  0 <= ev' -> 4 * P45 * ev' <= 3 * (P45 + E1) * ev + (P45 + E1) * es + E1 * (3 * V + Z.abs (S - 65536 * r)) + 4 * P45 * (65536 + 1) ->
  tmpl 35184372088832 0 268435488 0 835760252043128864768 S' V' es' ev'.
Proof. unfold tmpl, P45, E1. intros. lia. Qed.
Lemma inv1ms_10s_x2_step_57 S V es ev r S' V' es' ev' :
  65536000000 <= S <= 655360000000000 -> 0 <= V <= 655360000000000 ->

  tmpl 35184372088832 0 201326616 67108872 473208051071678021632 S V es ev ->
  tmpl 35184372088832 0 234881052 67108872 429840386666673209344 S V es ev ->
  tmpl 35184372088832 0 268435488 33554436 466908909921199849472 S V es ev ->
  tmpl 35184372088832 0 285212706 33554436 439992468694080028672 S V es ev ->
  tmpl 35184372088832 0 318767142 0 506330039654348357632 S V es ev ->
  tmpl 35184372088832 0 352321578 0 435312051427535486976 S V es ev ->
  1000000 <= r <= 10000000000 -> 0 <= es -> 0 <= ev ->
  8 * S' <= 7 * S + 65536 * r < 8 * S' + 8 ->
  4 * V' <= 3 * V + Z.abs (S - 65536 * r) < 4 * V' + 4 ->
  0 <= es' -> 8 * P45 * es' <= 7 * (P45 + E1) * es + E1 * (7 * S + 65536 * r) + 8 * P45 * (65536 + 1) ->
  0 <= ev' -> 4 * P45 * ev' <= 3 * (P45 + E1) * ev + (P45 + E1) * es + E1 * (3 * V + Z.abs (S - 65536 * r)) + 4 * P45 * (65536 + 1) ->
  tmpl 35184372088832 0 268435488 33554436 466908909921199849472 S' V' es' ev'.
Proof. unfold tmpl, P45, E1. intros. lia. Qed.
Lemma inv1ms_10s_x2_step_58 S V es ev r S' V' es' ev' :
  65536000000 <= S <= 655360000000000 -> 0 <= V <= 655360000000000 ->

  tmpl 35184372088832 0 251658270 67108872 421949896361342402560 S V es ev ->
  tmpl 35184372088832 0 268435488 67108872 417895734580347142144 S V es ev ->
  tmpl 35184372088832 0 285212706 67108872 415641293877169094656 S V es ev ->
  tmpl 35184372088832 0 318767142 33554436 417486294775779491840 S V es ev ->
  tmpl 35184372088832 0 335544360 33554436 413481710993207328768 S V es ev ->
  1000000 <= r <= 10000000000 -> 0 <= es -> 0 <= ev ->
  8 * S' <= 7 * S + 65536 * r < 8 * S' + 8 ->
  4 * V' <= 3 * V + Z.abs (S - 65536 * r) < 4 * V' + 4 ->
  0 <= es' -> 8 * P45 * es' <= 7 * (P45 + E1) * es + E1 * (7 * S + 65536 * r) + 8 * P45 * (65536 + 1) ->
  0 <= ev' -> 4 * P45 * ev' <= 3 * (P45 + E1) * ev + (P45 + E1) * es + E1 * (3 * V + Z.abs (S - 65536 * r)) + 4 * P45 * (65536 + 1) ->
  tmpl 35184372088832 0 268435488 67108872 417895734580347142144 S' V' es' ev'.
Proof. unfold tmpl, P45, E1. intros. lia. Qed.
Lemma inv1ms_10s_x2_step_59 S V es ev r S' V' es' ev' :
  65536000000 <= S <= 655360000000000 -> 0 <= V <= 655360000000000 ->

  tmpl 35184372088832 0 251658270 134217744 417275306438022135808 S V es ev ->
  tmpl 35184372088832 0 268435488 134217744 416175383427740925952 S V es ev ->
  tmpl 35184372088832 0 369098796 67108872 409578535372004851712 S V es ev ->
  1000000 <= r <= 10000000000 -> 0 <= es -> 0 <= ev ->
  8 * S' <= 7 * S + 65536 * r < 8 * S' + 8 ->
  4 * V' <= 3 * V + Z.abs (S - 65536 * r) < 4 * V' + 4 ->
  0 <= es' -> 8 * P45 * es' <= 7 * (P45 + E1) * es + E1 * (7 * S + 65536 * r) + 8 * P45 * (65536 + 1) ->
  0 <= ev' -> 4 * P45 * ev' <= 3 * (P45 + E1) * ev + (P45 + E1) * es + E1 * (3 * V + Z.abs (S - 65536 * r)) + 4 * P45 * (65536 + 1) ->
  tmpl 35184372088832 0 268435488 134217744 416175383427740925952 S' V' es' ev'.
Proof. unfold tmpl, P45, E1. intros. lia. Qed.
Lemma inv1ms_10s_x2_step_60 S V es ev r S' V' es' ev' :
  65536000000 <= S <= 655360000000000 -> 0 <= V <= 655360000000000 ->

  tmpl 35184372088832 0 268435488 0 835760252043128864768 S V es ev ->
  tmpl 35184372088832 0 285212706 0 683736837848755732480 S V es ev ->
  tmpl 35184372088832 0 301989924 0 577303779024326361088 S V es ev ->
  tmpl 35184372088832 0 318767142 0 506330039654348357632 S V es ev ->
  1000000 <= r <= 10000000000 -> 0 <= es -> 0 <= ev ->
  8 * S' <= 7 * S + 65536 * r < 8 * S' + 8 ->
  4 * V' <= 3 * V + Z.abs (S - 65536 * r) < 4 * V' + 4 ->
  0 <= es' -> 8 * P45 * es' <= 7 * (P45 + E1) * es + E1 * (7 * S + 65536 * r) + 8 * P45 * (65536 + 1) ->
  0 <= ev' -> 4 * P45 * ev' <= 3 * (P45 + E1) * ev + (P45 + E1) * es + E1 * (3 * V + Z.abs (S - 65536 * r)) + 4 * P45 * (65536 + 1) ->
  tmpl 35184372088832 0 285212706 0 683736837848755732480 S' V' es' ev'.
Proof. unfold tmpl, P45, E1. intros. lia. Qed.
Lemma inv1ms_10s_x2_step_61 S V es ev r S' V' es' ev' :
  65536000000 <= S <= 655360000000000 -> 0 <= V <= 655360000000000 ->

  tmpl 35184372088832 0 218103834 67108872 445095930282367057920 S V es ev ->
  tmpl 35184372088832 0 251658270 67108872 421949896361342402560 S V es ev ->
  tmpl 35184372088832 0 285212706 33554436 439992468694080028672 S V es ev ->
  tmpl 35184372088832 0 301989924 33554436 425211489748926332928 S V es ev ->
  tmpl 35184372088832 0 335544360 0 461667282885208047616 S V es ev ->
  tmpl 35184372088832 0 369098796 0 420731280936727019520 S V es ev ->
  1000000 <= r <= 10000000000 -> 0 <= es -> 0 <= ev ->
  8 * S' <= 7 * S + 65536 * r < 8 * S' + 8 ->
  4 * V' <= 3 * V + Z.abs (S - 65536 * r) < 4 * V' + 4 ->
  0 <= es' -> 8 * P45 * es' <= 7 * (P45 + E1) * es + E1 * (7 * S + 65536 * r) + 8 * P45 * (65536 + 1) ->
  0 <= ev' -> 4 * P45 * ev' <= 3 * (P45 + E1) * ev + (P45 + E1) * es + E1 * (3 * V + Z.abs (S - 65536 * r)) + 4 * P45 * (65536 + 1) ->
  tmpl 35184372088832 0 285212706 33554436 439992468694080028672 S' V' es' ev'.
Proof. unfold tmpl, P45, E1. intros. lia. Qed.
Lemma inv1ms_10s_x2_step_62 S V es ev r S' V' es' ev' :
  65536000000 <= S <= 655360000000000 -> 0 <= V <= 655360000000000 ->

  tmpl 35184372088832 0 268435488 67108872 417895734580347142144 S V es ev ->
  tmpl 35184372088832 0 285212706 67108872 415641293877169094656 S V es ev ->
  tmpl 35184372088832 0 301989924 67108872 414140368914217566208 S V es ev ->
  tmpl 35184372088832 0 335544360 33554436 413481710993207328768 S V es ev ->
  tmpl 35184372088832 0 352321578 33554436 411239928976241721344 S V es ev ->
  1000000 <= r <= 10000000000 -> 0 <= es -> 0 <= ev ->
  8 * S' <= 7 * S + 65536 * r < 8 * S' + 8 ->
  4 * V' <= 3 * V + Z.abs (S - 65536 * r) < 4 * V' + 4 ->
  0 <= es' -> 8 * P45 * es' <= 7 * (P45 + E1) * es + E1 * (7 * S + 65536 * r) + 8 * P45 * (65536 + 1) ->
  0 <= ev' -> 4 * P45 * ev' <= 3 * (P45 + E1) * ev + (P45 + E1) * es + E1 * (3 * V + Z.abs (S - 65536 * r)) + 4 * P45 * (65536 + 1) ->
  tmpl 35184372088832 0 285212706 67108872 415641293877169094656 S' V' es' ev'.
Proof. unfold tmpl, P45, E1. intros. lia. Qed.
Lemma inv1ms_10s_x2_step_63 S V es ev r S' V' es' ev' :
  65536000000 <= S <= 655360000000000 -> 0 <= V <= 655360000000000 ->

  tmpl 35184372088832 0 268435488 134217744 416175383427740925952 S V es ev ->
  tmpl 35184372088832 0 285212706 134217744 415075856023292149760 S V es ev ->
  tmpl 35184372088832 0 402653232 67108872 407379275376215457792 S V es ev ->
  1000000 <= r <= 10000000000 -> 0 <= es -> 0 <= ev ->
  8 * S' <= 7 * S + 65536 * r < 8 * S' + 8 ->
  4 * V' <= 3 * V + Z.abs (S - 65536 * r) < 4 * V' + 4 ->
  0 <= es' -> 8 * P45 * es' <= 7 * (P45 + E1) * es + E1 * (7 * S + 65536 * r) + 8 * P45 * (65536 + 1) ->
  0 <= ev' -> 4 * P45 * ev' <= 3 * (P45 + E1) * ev + (P45 + E1) * es + E1 * (3 * V + Z.abs (S - 65536 * r)) + 4 * P45 * (65536 + 1) ->
  tmpl 35184372088832 0 285212706 134217744 415075856023292149760 S' V' es' ev'.
Proof. unfold tmpl, P45, E1. intros. lia. Qed.
Lemma inv1ms_10s_x2_step_64 S V es ev r S' V' es' ev' :
  65536000000 <= S <= 655360000000000 -> 0 <= V <= 655360000000000 ->

  tmpl 35184372088832 0 285212706 0 683736837848755732480 S V es ev ->
  tmpl 35184372088832 0 301989924 0 577303779024326361088 S V es ev ->
  tmpl 35184372088832 0 318767142 0 506330039654348357632 S V es ev ->
  tmpl 35184372088832 0 335544360 0 461667282885208047616 S V es ev ->
  1000000 <= r <= 10000000000 -> 0 <= es -> 0 <= ev ->
  8 * S' <= 7 * S + 65536 * r < 8 * S' + 8 ->
  4 * V' <= 3 * V + Z.abs (S - 65536 * r) < 4 * V' + 4 ->
  0 <= es' -> 8 * P45 * es' <= 7 * (P45 + E1) * es + E1 * (7 * S + 65536 * r) + 8 * P45 * (65536 + 1) ->
  0 <= ev' -> 4 * P45 * ev' <= 3 * (P45 + E1) * ev + (P45 + E1) * es + E1 * (3 * V + Z.abs (S - 65536 * r)) + 4 * P45 * (65536 + 1) ->
  tmpl 35184372088832 0 301989924 0 577303779024326361088 S' V' es' ev'.
Proof. unfold tmpl, P45, E1. intros. lia. Qed.
Lemma inv1ms_10s_x2_step_65 S V es ev r S' V' es' ev' :
  65536000000 <= S <= 655360000000000 -> 0 <= V <= 655360000000000 ->

  tmpl 35184372088832 0 234881052 67108872 429840386666673209344 S V es ev ->
  tmpl 35184372088832 0 268435488 67108872 417895734580347142144 S V es ev ->
  tmpl 35184372088832 0 301989924 33554436 425211489748926332928 S V es ev ->
  tmpl 35184372088832 0 318767142 33554436 417486294775779491840 S V es ev ->
  tmpl 35184372088832 0 352321578 0 435312051427535486976 S V es ev ->
  tmpl 35184372088832 0 385876014 0 413067719134013358080 S V es ev ->
  1000000 <= r <= 10000000000 -> 0 <= es -> 0 <= ev ->
  8 * S' <= 7 * S + 65536 * r < 8 * S' + 8 ->
  4 * V' <= 3 * V + Z.abs (S - 65536 * r) < 4 * V' + 4 ->
  0 <= es' -> 8 * P45 * es' <= 7 * (P45 + E1) * es + E1 * (7 * S + 65536 * r) + 8 * P45 * (65536 + 1) ->
  0 <= ev' -> 4 * P45 * ev' <= 3 * (P45 + E1) * ev + (P45 + E1) * es + E1 * (3 * V + Z.abs (S - 65536 * r)) + 4 * P45 * (65536 + 1) ->
  tmpl 35184372088832 0 301989924 33554436 425211489748926332928 S' V' es' ev'.
Proof. unfold tmpl, P45, E1. intros. lia. Qed.
Lemma inv1ms_10s_x2_step_66 S V es ev r S' V' es' ev' :
  65536000000 <= S <= 655360000000000 -> 0 <= V <= 655360000000000 ->

  tmpl 35184372088832 0 285212706 67108872 415641293877169094656 S V es ev ->
  tmpl 35184372088832 0 301989924 67108872 414140368914217566208 S V es ev ->
  tmpl 35184372088832 0 318767142 67108872 412918247040003670016 S V es ev ->
  tmpl 35184372088832 0 352321578 33554436 411239928976241721344 S V es ev ->
  tmpl 35184372088832 0 369098796 33554436 409741738396511764480 S V es ev ->
  tmpl 35184372088832 0 436207668 0 405343572022731079680 S V es ev ->
  1000000 <= r <= 10000000000 -> 0 <= es -> 0 <= ev ->
  8 * S' <= 7 * S + 65536 * r < 8 * S' + 8 ->
  4 * V' <= 3 * V + Z.abs (S - 65536 * r) < 4 * V' + 4 ->
  0 <= es' -> 8 * P45 * es' <= 7 * (P45 + E1) * es + E1 * (7 * S + 65536 * r) + 8 * P45 * (65536 + 1) ->
  0 <= ev' -> 4 * P45 * ev' <= 3 * (P45 + E1) * ev + (P45 + E1) * es + E1 * (3 * V + Z.abs (S - 65536 * r)) + 4 * P45 * (65536 + 1) ->
  tmpl 35184372088832 0 301989924 67108872 414140368914217566208 S' V' es' ev'.
Proof. unfold tmpl, P45, E1. intros. lia. Qed.
Lemma inv1ms_10s_x2_step_67 S V es ev r S' V' es' ev' :
  65536000000 <= S <= 655360000000000 -> 0 <= V <= 655360000000000 ->

  tmpl 35184372088832 0 285212706 134217744 415075856023292149760 S V es ev ->
  tmpl 35184372088832 0 301989924 134217744 413976343626229153792 S V es ev ->
  tmpl 35184372088832 0 419430450 67108872 406279761425515282432 S V es ev ->
  1000000 <= r <= 10000000000 -> 0 <= es -> 0 <= ev ->
  8 * S' <= 7 * S + 65536 * r < 8 * S' + 8 ->
  4 * V' <= 3 * V + Z.abs (S - 65536 * r) < 4 * V' + 4 ->
  0 <= es' -> 8 * P45 * es' <= 7 * (P45 + E1) * es + E1 * (7 * S + 65536 * r) + 8 * P45 * (65536 + 1) ->
  0 <= ev' -> 4 * P45 * ev' <= 3 * (P45 + E1) * ev + (P45 + E1) * es + E1 * (3 * V + Z.abs (S - 65536 * r)) + 4 * P45 * (65536 + 1) ->
  tmpl 35184372088832 0 301989924 134217744 413976343626229153792 S' V' es' ev'.
Proof. unfold tmpl, P45, E1. intros. lia. Qed.
Lemma inv1ms_10s_x2_step_68 S V es ev r S' V' es' ev' :
  65536000000 <= S <= 655360000000000 -> 0 <= V <= 655360000000000 ->

  tmpl 35184372088832 0 301989924 0 577303779024326361088 S V es ev ->
  tmpl 35184372088832 0 318767142 0 506330039654348357632 S V es ev ->
  tmpl 35184372088832 0 352321578 0 435312051427535486976 S V es ev ->
  tmpl 35184372088832 0 369098796 0 420731280936727019520 S V es ev ->
  1000000 <= r <= 10000000000 -> 0 <= es -> 0 <= ev ->
  8 * S' <= 7 * S + 65536 * r < 8 * S' + 8 ->
  4 * V' <= 3 * V + Z.abs (S - 65536 * r) < 4 * V' + 4 ->
  0 <= es' -> 8 * P45 * es' <= 7 * (P45 + E1) * es + E1 * (7 * S + 65536 * r) + 8 * P45 * (65536 + 1) ->
  0 <= ev' -> 4 * P45 * ev' <= 3 * (P45 + E1) * ev + (P45 + E1) * es + E1 * (3 * V + Z.abs (S - 65536 * r)) + 4 * P45 * (65536 + 1) ->
  tmpl 35184372088832 0 318767142 0 506330039654348357632 S' V' es' ev'.
Proof. unfold tmpl, P45, E1. intros. lia. Qed.
Lemma inv1ms_10s_x2_step_69 S V es ev r S' V' es' ev' :
  65536000000 <= S <= 655360000000000 -> 0 <= V <= 655360000000000 ->

  tmpl 35184372088832 0 251658270 67108872 421949896361342402560 S V es ev ->
  tmpl 35184372088832 0 285212706 67108872 415641293877169094656 S V es ev ->
  tmpl 35184372088832 0 318767142 33554436 417486294775779491840 S V es ev ->
  tmpl 35184372088832 0 352321578 33554436 411239928976241721344 S V es ev ->
  tmpl 35184372088832 0 369098796 0 420731280936727019520 S V es ev ->
  tmpl 35184372088832 0 402653232 0 409079293714468241408 S V es ev ->
  1000000 <= r <= 10000000000 -> 0 <= es -> 0 <= ev ->
  8 * S' <= 7 * S + 65536 * r < 8 * S' + 8 ->
  4 * V' <= 3 * V + Z.abs (S - 65536 * r) < 4 * V' + 4 ->
  0 <= es' -> 8 * P45 * es' <= 7 * (P45 + E1) * es + E1 * (7 * S + 65536 * r) + 8 * P45 * (65536 + 1) ->
  0 <= ev' -> 4 * P45 * ev' <= 3 * (P45 + E1) * ev + (P45 + E1) * es + E1 * (3 * V + Z.abs (S - 65536 * r)) + 4 * P45 * (65536 + 1) ->
  tmpl 35184372088832 0 318767142 33554436 417486294775779491840 S' V' es' ev'.
Proof. unfold tmpl, P45, E1. intros. lia. Qed.
Lemma inv1ms_10s_x2_step_70 S V es ev r S' V' es' ev' :
  65536000000 <= S <= 655360000000000 -> 0 <= V <= 655360000000000 ->

  tmpl 35184372088832 0 301989924 67108872 414140368914217566208 S V es ev ->
  tmpl 35184372088832 0 318767142 67108872 412918247040003670016 S V es ev ->
  tmpl 35184372088832 0 335544360 67108872 411786269870280474624 S V es ev ->
  tmpl 35184372088832 0 369098796 33554436 409741738396511764480 S V es ev ->
  tmpl 35184372088832 0 402653232 33554436 407388212170819764224 S V es ev ->
  tmpl 35184372088832 0 452984886 0 404122051557223038976 S V es ev ->
  1000000 <= r <= 10000000000 -> 0 <= es -> 0 <= ev ->
  8 * S' <= 7 * S + 65536 * r < 8 * S' + 8 ->
  4 * V' <= 3 * V + Z.abs (S - 65536 * r) < 4 * V' + 4 ->
  0 <= es' -> 8 * P45 * es' <= 7 * (P45 + E1) * es + E1 * (7 * S + 65536 * r) + 8 * P45 * (65536 + 1) ->
  0 <= ev' -> 4 * P45 * ev' <= 3 * (P45 + E1) * ev + (P45 + E1) * es + E1 * (3 * V + Z.abs (S - 65536 * r)) + 4 * P45 * (65536 + 1) ->
  tmpl 35184372088832 0 318767142 67108872 412918247040003670016 S' V' es' ev'.
Proof. unfold tmpl, P45, E1. intros. lia. Qed.
Lemma inv1ms_10s_x2_step_71 S V es ev r S' V' es' ev' :
  65536000000 <= S <= 655360000000000 -> 0 <= V <= 655360000000000 ->

  tmpl 35184372088832 0 301989924 134217744 413976343626229153792 S V es ev ->
  tmpl 35184372088832 0 318767142 134217744 412876831851458330624 S V es ev ->
  tmpl 35184372088832 0 436207668 67108872 405180249542652133376 S V es ev ->
  tmpl 35184372088832 0 452984886 67108872 404080737780336558080 S V es ev ->
  1000000 <= r <= 10000000000 -> 0 <= es -> 0 <= ev ->
  8 * S' <= 7 * S + 65536 * r < 8 * S' + 8 ->
  4 * V' <= 3 * V + Z.abs (S - 65536 * r) < 4 * V' + 4 ->
  0 <= es' -> 8 * P45 * es' <= 7 * (P45 + E1) * es + E1 * (7 * S + 65536 * r) + 8 * P45 * (65536 + 1) ->
  0 <= ev' -> 4 * P45 * ev' <= 3 * (P45 + E1) * ev + (P45 + E1) * es + E1 * (3 * V + Z.abs (S - 65536 * r)) + 4 * P45 * (65536 + 1) ->
  tmpl 35184372088832 0 318767142 134217744 412876831851458330624 S' V' es' ev'.
Proof. unfold tmpl, P45, E1. intros. lia. Qed.
Lemma inv1ms_10s_x2_step_72 S V es ev r S' V' es' ev' :
  65536000000 <= S <= 655360000000000 -> 0 <= V <= 655360000000000 ->

  tmpl 35184372088832 0 318767142 0 506330039654348357632 S V es ev ->
  tmpl 35184372088832 0 335544360 0 461667282885208047616 S V es ev ->
  tmpl 35184372088832 0 369098796 0 420731280936727019520 S V es ev ->
  tmpl 35184372088832 0 385876014 0 413067719134013358080 S V es ev ->
  1000000 <= r <= 10000000000 -> 0 <= es -> 0 <= ev ->
  8 * S' <= 7 * S + 65536 * r < 8 * S' + 8 ->
  4 * V' <= 3 * V + Z.abs (S - 65536 * r) < 4 * V' + 4 ->
  0 <= es' -> 8 * P45 * es' <= 7 * (P45 + E1) * es + E1 * (7 * S + 65536 * r) + 8 * P45 * (65536 + 1) ->
  0 <= ev' -> 4 * P45 * ev' <= 3 * (P45 + E1) * ev + (P45 + E1) * es + E1 * (3 * V + Z.abs (S - 65536 * r)) + 4 * P45 * (65536 + 1) ->
  tmpl 35184372088832 0 335544360 0 461667282885208047616 S' V' es' ev'.
Proof. unfold tmpl, P45, E1. intros. lia. Qed.
Lemma inv1ms_10s_x2_step_73 S V es ev r S' V' es' ev' :
  65536000000 <= S <= 655360000000000 -> 0 <= V <= 655360000000000 ->

  tmpl 35184372088832 0 268435488 67108872 417895734580347142144 S V es ev ->
  tmpl 35184372088832 0 301989924 67108872 414140368914217566208 S V es ev ->
  tmpl 35184372088832 0 335544360 33554436 413481710993207328768 S V es ev ->
  tmpl 35184372088832 0 369098796 33554436 409741738396511764480 S V es ev ->
  tmpl 35184372088832 0 385876014 0 413067719134013358080 S V es ev ->
  tmpl 35184372088832 0 419430450 0 406841094355780763648 S V es ev ->
  1000000 <= r <= 10000000000 -> 0 <= es -> 0 <= ev ->
  8 * S' <= 7 * S + 65536 * r < 8 * S' + 8 ->
  4 * V' <= 3 * V + Z.abs (S - 65536 * r) < 4 * V' + 4 ->
  0 <= es' -> 8 * P45 * es' <= 7 * (P45 + E1) * es + E1 * (7 * S + 65536 * r) + 8 * P45 * (65536 + 1) ->
  0 <= ev' -> 4 * P45 * ev' <= 3 * (P45 + E1) * ev + (P45 + E1) * es + E1 * (3 * V + Z.abs (S - 65536 * r)) + 4 * P45 * (65536 + 1) ->
  tmpl 35184372088832 0 335544360 33554436 413481710993207328768 S' V' es' ev'.
Proof. unfold tmpl, P45, E1. intros. lia. Qed.
Lemma inv1ms_10s_x2_step_74 S V es ev r S' V' es' ev' :
  65536000000 <= S <= 655360000000000 -> 0 <= V <= 655360000000000 ->

  tmpl 35184372088832 0 318767142 67108872 412918247040003670016 S V es ev ->
  tmpl 35184372088832 0 335544360 67108872 411786269870280474624 S V es ev ->
  tmpl 35184372088832 0 352321578 67108872 410679428585932193792 S V es ev ->
  tmpl 35184372088832 0 369098796 67108872 409578535372004851712 S V es ev ->
  tmpl 35184372088832 0 385876014 33554436 408520113681586323456 S V es ev ->
  tmpl 35184372088832 0 419430450 33554436 406281380460686737408 S V es ev ->
  1000000 <= r <= 10000000000 -> 0 <= es -> 0 <= ev ->
  8 * S' <= 7 * S + 65536 * r < 8 * S' + 8 ->
  4 * V' <= 3 * V + Z.abs (S - 65536 * r) < 4 * V' + 4 ->
  0 <= es' -> 8 * P45 * es' <= 7 * (P45 + E1) * es + E1 * (7 * S + 65536 * r) + 8 * P45 * (65536 + 1) ->
  0 <= ev' -> 4 * P45 * ev' <= 3 * (P45 + E1) * ev + (P45 + E1) * es + E1 * (3 * V + Z.abs (S - 65536 * r)) + 4 * P45 * (65536 + 1) ->
  tmpl 35184372088832 0 335544360 67108872 411786269870280474624 S' V' es' ev'.
Proof. unfold tmpl, P45, E1. intros. lia. Qed.
Lemma inv1ms_10s_x2_step_75 S V es ev r S' V' es' ev' :
  65536000000 <= S <= 655360000000000 -> 0 <= V <= 655360000000000 ->

  tmpl 35184372088832 0 335544360 0 461667282885208047616 S V es ev ->
  tmpl 35184372088832 0 352321578 0 435312051427535486976 S V es ev ->
  tmpl 35184372088832 0 385876014 0 413067719134013358080 S V es ev ->
  tmpl 35184372088832 0 402653232 0 409079293714468241408 S V es ev ->
  1000000 <= r <= 10000000000 -> 0 <= es -> 0 <= ev ->
  8 * S' <= 7 * S + 65536 * r < 8 * S' + 8 ->
  4 * V' <= 3 * V + Z.abs (S - 65536 * r) < 4 * V' + 4 ->
  0 <= es' -> 8 * P45 * es' <= 7 * (P45 + E1) * es + E1 * (7 * S + 65536 * r) + 8 * P45 * (65536 + 1) ->
  0 <= ev' -> 4 * P45 * ev' <= 3 * (P45 + E1) * ev + (P45 + E1) * es + E1 * (3 * V + Z.abs (S - 65536 * r)) + 4 * P45 * (65536 + 1) ->
  tmpl 35184372088832 0 352321578 0 435312051427535486976 S' V' es' ev'.
Proof. unfold tmpl, P45, E1. intros. lia. Qed.
Lemma inv1ms_10s_x2_step_76 S V es ev r S' V' es' ev' :
  65536000000 <= S <= 655360000000000 -> 0 <= V <= 655360000000000 ->

  tmpl 35184372088832 0 285212706 67108872 415641293877169094656 S V es ev ->
  tmpl 35184372088832 0 318767142 67108872 412918247040003670016 S V es ev ->
  tmpl 35184372088832 0 352321578 33554436 411239928976241721344 S V es ev ->
  tmpl 35184372088832 0 385876014 33554436 408520113681586323456 S V es ev ->
  tmpl 35184372088832 0 402653232 0 409079293714468241408 S V es ev ->
  tmpl 35184372088832 0 436207668 0 405343572022731079680 S V es ev ->
  1000000 <= r <= 10000000000 -> 0 <= es -> 0 <= ev ->
  8 * S' <= 7 * S + 65536 * r < 8 * S' + 8 ->
  4 * V' <= 3 * V + Z.abs (S - 65536 * r) < 4 * V' + 4 ->
  0 <= es' -> 8 * P45 * es' <= 7 * (P45 + E1) * es + E1 * (7 * S + 65536 * r) + 8 * P45 * (65536 + 1) ->
  0 <= ev' -> 4 * P45 * ev' <= 3 * (P45 + E1) * ev + (P45 + E1) * es + E1 * (3 * V + Z.abs (S - 65536 * r)) + 4 * P45 * (65536 + 1) ->
  tmpl 35184372088832 0 352321578 33554436 411239928976241721344 S' V' es' ev'.
Proof. unfold tmpl, P45, E1. intros. lia. Qed.
Lemma inv1ms_10s_x2_step_77 S V es ev r S' V' es' ev' :
  65536000000 <= S <= 655360000000000 -> 0 <= V <= 655360000000000 ->

  tmpl 35184372088832 0 335544360 67108872 411786269870280474624 S V es ev ->
  tmpl 35184372088832 0 352321578 67108872 410679428585932193792 S V es ev ->
  tmpl 35184372088832 0 369098796 67108872 409578535372004851712 S V es ev ->
  tmpl 35184372088832 0 385876014 67108872 408478812314553745408 S V es ev ->
  tmpl 35184372088832 0 402653232 33554436 407388212170819764224 S V es ev ->
  tmpl 35184372088832 0 436207668 33554436 405180488245695741952 S V es ev ->
  1000000 <= r <= 10000000000 -> 0 <= es -> 0 <= ev ->
  8 * S' <= 7 * S + 65536 * r < 8 * S' + 8 ->
  4 * V' <= 3 * V + Z.abs (S - 65536 * r) < 4 * V' + 4 ->
  0 <= es' -> 8 * P45 * es' <= 7 * (P45 + E1) * es + E1 * (7 * S + 65536 * r) + 8 * P45 * (65536 + 1) ->
  0 <= ev' -> 4 * P45 * ev' <= 3 * (P45 + E1) * ev + (P45 + E1) * es + E1 * (3 * V + Z.abs (S - 65536 * r)) + 4 * P45 * (65536 + 1) ->
  tmpl 35184372088832 0 352321578 67108872 410679428585932193792 S' V' es' ev'.
Proof. unfold tmpl, P45, E1. intros. lia. Qed.
Lemma inv1ms_10s_x2_step_78 S V es ev r S' V' es' ev' :
  65536000000 <= S <= 655360000000000 -> 0 <= V <= 655360000000000 ->

  tmpl 35184372088832 0 352321578 0 435312051427535486976 S V es ev ->
  tmpl 35184372088832 0 369098796 0 420731280936727019520 S V es ev ->
  tmpl 35184372088832 0 402653232 0 409079293714468241408 S V es ev ->
  tmpl 35184372088832 0 419430450 0 406841094355780763648 S V es ev ->
  1000000 <= r <= 10000000000 -> 0 <= es -> 0 <= ev ->
  8 * S' <= 7 * S + 65536 * r < 8 * S' + 8 ->
  4 * V' <= 3 * V + Z.abs (S - 65536 * r) < 4 * V' + 4 ->
  0 <= es' -> 8 * P45 * es' <= 7 * (P45 + E1) * es + E1 * (7 * S + 65536 * r) + 8 * P45 * (65536 + 1) ->
  0 <= ev' -> 4 * P45 * ev' <= 3 * (P45 + E1) * ev + (P45 + E1) * es + E1 * (3 * V + Z.abs (S - 65536 * r)) + 4 * P45 * (65536 + 1) ->
  tmpl 35184372088832 0 369098796 0 420731280936727019520 S' V' es' ev'.
Proof. unfold tmpl, P45, E1. intros. lia. Qed.
Lemma inv1ms_10s_x2_step_79 S V es ev r S' V' es' ev' :
  65536000000 <= S <= 655360000000000 -> 0 <= V <= 655360000000000 ->

  tmpl 35184372088832 0 301989924 67108872 414140368914217566208 S V es ev ->
  tmpl 35184372088832 0 369098796 33554436 409741738396511764480 S V es ev ->
  tmpl 35184372088832 0 402653232 33554436 407388212170819764224 S V es ev ->
  tmpl 35184372088832 0 419430450 0 406841094355780763648 S V es ev ->
  tmpl 35184372088832 0 452984886 0 404122051557223038976 S V es ev ->
  tmpl 35184372088832 0 469762104 0 402990163558223446016 S V es ev ->
  1000000 <= r <= 10000000000 -> 0 <= es -> 0 <= ev ->
  8 * S' <= 7 * S + 65536 * r < 8 * S' + 8 ->
  4 * V' <= 3 * V + Z.abs (S - 65536 * r) < 4 * V' + 4 ->
  0 <= es' -> 8 * P45 * es' <= 7 * (P45 + E1) * es + E1 * (7 * S + 65536 * r) + 8 * P45 * (65536 + 1) ->
  0 <= ev' -> 4 * P45 * ev' <= 3 * (P45 + E1) * ev + (P45 + E1) * es + E1 * (3 * V + Z.abs (S - 65536 * r)) + 4 * P45 * (65536 + 1) ->
  tmpl 35184372088832 0 369098796 33554436 409741738396511764480 S' V' es' ev'.
Proof. unfold tmpl, P45, E1. intros. lia. Qed.
Lemma inv1ms_10s_x2_step_80 S V es ev r S' V' es' ev' :
  65536000000 <= S <= 655360000000000 -> 0 <= V <= 655360000000000 ->

  tmpl 35184372088832 0 352321578 67108872 410679428585932193792 S V es ev ->
  tmpl 35184372088832 0 369098796 67108872 409578535372004851712 S V es ev ->
  tmpl 35184372088832 0 385876014 67108872 408478812314553745408 S V es ev ->
  tmpl 35184372088832 0 402653232 67108872 407379275376215457792 S V es ev ->
  tmpl 35184372088832 0 419430450 33554436 406281380460686737408 S V es ev ->
  tmpl 35184372088832 0 452984886 33554436 404080765273416269824 S V es ev ->
  1000000 <= r <= 10000000000 -> 0 <= es -> 0 <= ev ->
  8 * S' <= 7 * S + 65536 * r < 8 * S' + 8 ->
  4 * V' <= 3 * V + Z.abs (S - 65536 * r) < 4 * V' + 4 ->
  0 <= es' -> 8 * P45 * es' <= 7 * (P45 + E1) * es + E1 * (7 * S + 65536 * r) + 8 * P45 * (65536 + 1) ->
  0 <= ev' -> 4 * P45 * ev' <= 3 * (P45 + E1) * ev + (P45 + E1) * es + E1 * (3 * V + Z.abs (S - 65536 * r)) + 4 * P45 * (65536 + 1) ->
  tmpl 35184372088832 0 369098796 67108872 409578535372004851712 S' V' es' ev'.
Proof. unfold tmpl, P45, E1. intros. lia. Qed.
Lemma inv1ms_10s_x2_step_81 S V es ev r S' V' es' ev' :
  65536000000 <= S <= 655360000000000 -> 0 <= V <= 655360000000000 ->

  tmpl 35184372088832 0 369098796 0 420731280936727019520 S V es ev ->
  tmpl 35184372088832 0 385876014 0 413067719134013358080 S V es ev ->
  tmpl 35184372088832 0 419430450 0 406841094355780763648 S V es ev ->
  tmpl 35184372088832 0 436207668 0 405343572022731079680 S V es ev ->
  1000000 <= r <= 10000000000 -> 0 <= es -> 0 <= ev ->
  8 * S' <= 7 * S + 65536 * r < 8 * S' + 8 ->
  4 * V' <= 3 * V + Z.abs (S - 65536 * r) < 4 * V' + 4 ->
  0 <= es' -> 8 * P45 * es' <= 7 * (P45 + E1) * es + E1 * (7 * S + 65536 * r) + 8 * P45 * (65536 + 1) ->
  0 <= ev' -> 4 * P45 * ev' <= 3 * (P45 + E1) * ev + (P45 + E1) * es + E1 * (3 * V + Z.abs (S - 65536 * r)) + 4 * P45 * (65536 + 1) ->
  tmpl 35184372088832 0 385876014 0 413067719134013358080 S' V' es' ev'.
Proof. unfold tmpl, P45, E1. intros. lia. Qed.
Lemma inv1ms_10s_x2_step_82 S V es ev r S' V' es' ev' :
  65536000000 <= S <= 655360000000000 -> 0 <= V <= 655360000000000 ->

  tmpl 35184372088832 0 318767142 67108872 412918247040003670016 S V es ev ->
  tmpl 35184372088832 0 369098796 67108872 409578535372004851712 S V es ev ->
  tmpl 35184372088832 0 385876014 33554436 408520113681586323456 S V es ev ->
  tmpl 35184372088832 0 419430450 33554436 406281380460686737408 S V es ev ->
  tmpl 35184372088832 0 436207668 0 405343572022731079680 S V es ev ->
  tmpl 35184372088832 0 486539322 0 401883333290772660224 S V es ev ->
  1000000 <= r <= 10000000000 -> 0 <= es -> 0 <= ev ->
  8 * S' <= 7 * S + 65536 * r < 8 * S' + 8 ->
  4 * V' <= 3 * V + Z.abs (S - 65536 * r) < 4 * V' + 4 ->
  0 <= es' -> 8 * P45 * es' <= 7 * (P45 + E1) * es + E1 * (7 * S + 65536 * r) + 8 * P45 * (65536 + 1) ->
  0 <= ev' -> 4 * P45 * ev' <= 3 * (P45 + E1) * ev + (P45 + E1) * es + E1 * (3 * V + Z.abs (S - 65536 * r)) + 4 * P45 * (65536 + 1) ->
  tmpl 35184372088832 0 385876014 33554436 408520113681586323456 S' V' es' ev'.
Proof. unfold tmpl, P45, E1. intros. lia. Qed.
Lemma inv1ms_10s_x2_step_83 S V es ev r S' V' es' ev' :
  65536000000 <= S <= 655360000000000 -> 0 <= V <= 655360000000000 ->

  tmpl 35184372088832 0 369098796 67108872 409578535372004851712 S V es ev ->
  tmpl 35184372088832 0 385876014 67108872 408478812314553745408 S V es ev ->
  tmpl 35184372088832 0 402653232 67108872 407379275376215457792 S V es ev ->
  tmpl 35184372088832 0 419430450 67108872 406279761425515282432 S V es ev ->
  tmpl 35184372088832 0 436207668 33554436 405180488245695741952 S V es ev ->
  tmpl 35184372088832 0 469762104 33554436 402981228340587069440 S V es ev ->
  1000000 <= r <= 10000000000 -> 0 <= es -> 0 <= ev ->
  8 * S' <= 7 * S + 65536 * r < 8 * S' + 8 ->
  4 * V' <= 3 * V + Z.abs (S - 65536 * r) < 4 * V' + 4 ->
  0 <= es' -> 8 * P45 * es' <= 7 * (P45 + E1) * es + E1 * (7 * S + 65536 * r) + 8 * P45 * (65536 + 1) ->
  0 <= ev' -> 4 * P45 * ev' <= 3 * (P45 + E1) * ev + (P45 + E1) * es + E1 * (3 * V + Z.abs (S - 65536 * r)) + 4 * P45 * (65536 + 1) ->
  tmpl 35184372088832 0 385876014 67108872 408478812314553745408 S' V' es' ev'.
Proof. unfold tmpl, P45, E1. intros. lia. Qed.
Lemma inv1ms_10s_x2_step_84 S V es ev r S' V' es' ev' :
  65536000000 <= S <= 655360000000000 -> 0 <= V <= 655360000000000 ->

  tmpl 35184372088832 0 385876014 0 413067719134013358080 S V es ev ->
  tmpl 35184372088832 0 402653232 0 409079293714468241408 S V es ev ->
  tmpl 35184372088832 0 436207668 0 405343572022731079680 S V es ev ->
  tmpl 35184372088832 0 452984886 0 404122051557223038976 S V es ev ->
  1000000 <= r <= 10000000000 -> 0 <= es -> 0 <= ev ->
  8 * S' <= 7 * S + 65536 * r < 8 * S' + 8 ->
  4 * V' <= 3 * V + Z.abs (S - 65536 * r) < 4 * V' + 4 ->
  0 <= es' -> 8 * P45 * es' <= 7 * (P45 + E1) * es + E1 * (7 * S + 65536 * r) + 8 * P45 * (65536 + 1) ->
  0 <= ev' -> 4 * P45 * ev' <= 3 * (P45 + E1) * ev + (P45 + E1) * es + E1 * (3 * V + Z.abs (S - 65536 * r)) + 4 * P45 * (65536 + 1) ->
  tmpl 35184372088832 0 402653232 0 409079293714468241408 S' V' es' ev'.
Proof. unfold tmpl, P45, E1. intros. lia. Qed.
Lemma inv1ms_10s_x2_step_85 S V es ev r S' V' es' ev' :
  65536000000 <= S <= 655360000000000 -> 0 <= V <= 655360000000000 ->

  tmpl 35184372088832 0 335544360 67108872 411786269870280474624 S V es ev ->
  tmpl 35184372088832 0 385876014 67108872 408478812314553745408 S V es ev ->
  tmpl 35184372088832 0 402653232 33554436 407388212170819764224 S V es ev ->
  tmpl 35184372088832 0 436207668 33554436 405180488245695741952 S V es ev ->
  tmpl 35184372088832 0 452984886 0 404122051557223038976 S V es ev ->
  tmpl 35184372088832 0 503316540 0 400782441201163960320 S V es ev ->
  1000000 <= r <= 10000000000 -> 0 <= es -> 0 <= ev ->
  8 * S' <= 7 * S + 65536 * r < 8 * S' + 8 ->
  4 * V' <= 3 * V + Z.abs (S - 65536 * r) < 4 * V' + 4 ->
  0 <= es' -> 8 * P45 * es' <= 7 * (P45 + E1) * es + E1 * (7 * S + 65536 * r) + 8 * P45 * (65536 + 1) ->
  0 <= ev' -> 4 * P45 * ev' <= 3 * (P45 + E1) * ev + (P45 + E1) * es + E1 * (3 * V + Z.abs (S - 65536 * r)) + 4 * P45 * (65536 + 1) ->
  tmpl 35184372088832 0 402653232 33554436 407388212170819764224 S' V' es' ev'.
Proof. unfold tmpl, P45, E1. intros. lia. Qed.
Lemma inv1ms_10s_x2_step_86 S V es ev r S' V' es' ev' :
  65536000000 <= S <= 655360000000000 -> 0 <= V <= 655360000000000 ->

  tmpl 35184372088832 0 385876014 67108872 408478812314553745408 S V es ev ->
  tmpl 35184372088832 0 402653232 67108872 407379275376215457792 S V es ev ->
  tmpl 35184372088832 0 419430450 67108872 406279761425515282432 S V es ev ->
  tmpl 35184372088832 0 436207668 67108872 405180249542652133376 S V es ev ->
  tmpl 35184372088832 0 452984886 33554436 404080765273416269824 S V es ev ->
  tmpl 35184372088832 0 486539322 33554436 401881714390011805696 S V es ev ->
  1000000 <= r <= 10000000000 -> 0 <= es -> 0 <= ev ->
  8 * S' <= 7 * S + 65536 * r < 8 * S' + 8 ->
  4 * V' <= 3 * V + Z.abs (S - 65536 * r) < 4 * V' + 4 ->
  0 <= es' -> 8 * P45 * es' <= 7 * (P45 + E1) * es + E1 * (7 * S + 65536 * r) + 8 * P45 * (65536 + 1) ->
  0 <= ev' -> 4 * P45 * ev' <= 3 * (P45 + E1) * ev + (P45 + E1) * es + E1 * (3 * V + Z.abs (S - 65536 * r)) + 4 * P45 * (65536 + 1) ->
  tmpl 35184372088832 0 402653232 67108872 407379275376215457792 S' V' es' ev'.
Proof. unfold tmpl, P45, E1. intros. lia. Qed.
Lemma inv1ms_10s_x2_step_87 S V es ev r S' V' es' ev' :
  65536000000 <= S <= 655360000000000 -> 0 <= V <= 655360000000000 ->

  tmpl 35184372088832 0 402653232 0 409079293714468241408 S V es ev ->
  tmpl 35184372088832 0 419430450 0 406841094355780763648 S V es ev ->
  tmpl 35184372088832 0 452984886 0 404122051557223038976 S V es ev ->
  tmpl 35184372088832 0 469762104 0 402990163558223446016 S V es ev ->
  1000000 <= r <= 10000000000 -> 0 <= es -> 0 <= ev ->
  8 * S' <= 7 * S + 65536 * r < 8 * S' + 8 ->
  4 * V' <= 3 * V + Z.abs (S - 65536 * r) < 4 * V' + 4 ->
  0 <= es' -> 8 * P45 * es' <= 7 * (P45 + E1) * es + E1 * (7 * S + 65536 * r) + 8 * P45 * (65536 + 1) ->
  0 <= ev' -> 4 * P45 * ev' <= 3 * (P45 + E1) * ev + (P45 + E1) * es + E1 * (3 * V + Z.abs (S - 65536 * r)) + 4 * P45 * (65536 + 1) ->
  tmpl 35184372088832 0 419430450 0 406841094355780763648 S' V' es' ev'.
Proof. unfold tmpl, P45, E1. intros. lia. Qed.
Lemma inv1ms_10s_x2_step_88 S V es ev r S' V' es' ev' :
  65536000000 <= S <= 655360000000000 -> 0 <= V <= 655360000000000 ->

  tmpl 35184372088832 0 352321578 67108872 410679428585932193792 S V es ev ->
  tmpl 35184372088832 0 419430450 33554436 406281380460686737408 S V es ev ->
  tmpl 35184372088832 0 452984886 33554436 404080765273416269824 S V es ev ->
  tmpl 35184372088832 0 469762104 0 402990163558223446016 S V es ev ->
  tmpl 35184372088832 0 469762104 33554436 402981228340587069440 S V es ev ->
  tmpl 35184372088832 0 520093758 0 399682718237291184128 S V es ev ->
  1000000 <= r <= 10000000000 -> 0 <= es -> 0 <= ev ->
  8 * S' <= 7 * S + 65536 * r < 8 * S' + 8 ->
  4 * V' <= 3 * V + Z.abs (S - 65536 * r) < 4 * V' + 4 ->
  0 <= es' -> 8 * P45 * es' <= 7 * (P45 + E1) * es + E1 * (7 * S + 65536 * r) + 8 * P45 * (65536 + 1) ->
  0 <= ev' -> 4 * P45 * ev' <= 3 * (P45 + E1) * ev + (P45 + E1) * es + E1 * (3 * V + Z.abs (S - 65536 * r)) + 4 * P45 * (65536 + 1) ->
  tmpl 35184372088832 0 419430450 33554436 406281380460686737408 S' V' es' ev'.
Proof. unfold tmpl, P45, E1. intros. lia. Qed.
Lemma inv1ms_10s_x2_step_89 S V es ev r S' V' es' ev' :
  65536000000 <= S <= 655360000000000 -> 0 <= V <= 655360000000000 ->

  tmpl 35184372088832 0 402653232 67108872 407379275376215457792 S V es ev ->
  tmpl 35184372088832 0 419430450 67108872 406279761425515282432 S V es ev ->
  tmpl 35184372088832 0 452984886 67108872 404080737780336558080 S V es ev ->
  tmpl 35184372088832 0 469762104 33554436 402981228340587069440 S V es ev ->
  tmpl 35184372088832 0 503316540 33554436 400782202507264786432 S V es ev ->
  tmpl 35184372088832 0 520093758 33554436 399682690745030213632 S V es ev ->
  1000000 <= r <= 10000000000 -> 0 <= es -> 0 <= ev ->
  8 * S' <= 7 * S + 65536 * r < 8 * S' + 8 ->
  4 * V' <= 3 * V + Z.abs (S - 65536 * r) < 4 * V' + 4 ->
  0 <= es' -> 8 * P45 * es' <= 7 * (P45 + E1) * es + E1 * (7 * S + 65536 * r) + 8 * P45 * (65536 + 1) ->
  0 <= ev' -> 4 * P45 * ev' <= 3 * (P45 + E1) * ev + (P45 + E1) * es + E1 * (3 * V + Z.abs (S - 65536 * r)) + 4 * P45 * (65536 + 1) ->
  tmpl 35184372088832 0 419430450 67108872 406279761425515282432 S' V' es' ev'.
Proof. unfold tmpl, P45, E1. intros. lia. Qed.
Lemma inv1ms_10s_x2_step_90 S V es ev r S' V' es' ev' :
  65536000000 <= S <= 655360000000000 -> 0 <= V <= 655360000000000 ->

  tmpl 35184372088832 0 419430450 0 406841094355780763648 S V es ev ->
  tmpl 35184372088832 0 436207668 0 405343572022731079680 S V es ev ->
  tmpl 35184372088832 0 486539322 0 401883333290772660224 S V es ev ->
  tmpl 35184372088832 0 503316540 0 400782441201163960320 S V es ev ->
  1000000 <= r <= 10000000000 -> 0 <= es -> 0 <= ev ->
  8 * S' <= 7 * S + 65536 * r < 8 * S' + 8 ->
  4 * V' <= 3 * V + Z.abs (S - 65536 * r) < 4 * V' + 4 ->
  0 <= es' -> 8 * P45 * es' <= 7 * (P45 + E1) * es + E1 * (7 * S + 65536 * r) + 8 * P45 * (65536 + 1) ->
  0 <= ev' -> 4 * P45 * ev' <= 3 * (P45 + E1) * ev + (P45 + E1) * es + E1 * (3 * V + Z.abs (S - 65536 * r)) + 4 * P45 * (65536 + 1) ->
  tmpl 35184372088832 0 436207668 0 405343572022731079680 S' V' es' ev'.
Proof. unfold tmpl, P45, E1. intros. lia. Qed.
Lemma inv1ms_10s_x2_step_91 S V es ev r S' V' es' ev' :
  65536000000 <= S <= 655360000000000 -> 0 <= V <= 655360000000000 ->

  tmpl 35184372088832 0 369098796 67108872 409578535372004851712 S V es ev ->
  tmpl 35184372088832 0 436207668 33554436 405180488245695741952 S V es ev ->
  tmpl 35184372088832 0 469762104 33554436 402981228340587069440 S V es ev ->
  tmpl 35184372088832 0 486539322 0 401883333290772660224 S V es ev ->
  tmpl 35184372088832 0 486539322 33554436 401881714390011805696 S V es ev ->
  tmpl 35184372088832 0 536870976 0 398583181305200246784 S V es ev ->
  1000000 <= r <= 10000000000 -> 0 <= es -> 0 <= ev ->
  8 * S' <= 7 * S + 65536 * r < 8 * S' + 8 ->
  4 * V' <= 3 * V + Z.abs (S - 65536 * r) < 4 * V' + 4 ->
  0 <= es' -> 8 * P45 * es' <= 7 * (P45 + E1) * es + E1 * (7 * S + 65536 * r) + 8 * P45 * (65536 + 1) ->
  0 <= ev' -> 4 * P45 * ev' <= 3 * (P45 + E1) * ev + (P45 + E1) * es + E1 * (3 * V + Z.abs (S - 65536 * r)) + 4 * P45 * (65536 + 1) ->
  tmpl 35184372088832 0 436207668 33554436 405180488245695741952 S' V' es' ev'.
Proof. unfold tmpl, P45, E1. intros. lia. Qed.
Lemma inv1ms_10s_x2_step_92 S V es ev r S' V' es' ev' :
  65536000000 <= S <= 655360000000000 -> 0 <= V <= 655360000000000 ->

  tmpl 35184372088832 0 419430450 67108872 406279761425515282432 S V es ev ->
  tmpl 35184372088832 0 436207668 67108872 405180249542652133376 S V es ev ->
  tmpl 35184372088832 0 452984886 67108872 404080737780336558080 S V es ev ->
  tmpl 35184372088832 0 486539322 33554436 401881714390011805696 S V es ev ->
  tmpl 35184372088832 0 520093758 33554436 399682690745030213632 S V es ev ->
  1000000 <= r <= 10000000000 -> 0 <= es -> 0 <= ev ->
  8 * S' <= 7 * S + 65536 * r < 8 * S' + 8 ->
  4 * V' <= 3 * V + Z.abs (S - 65536 * r) < 4 * V' + 4 ->
  0 <= es' -> 8 * P45 * es' <= 7 * (P45 + E1) * es + E1 * (7 * S + 65536 * r) + 8 * P45 * (65536 + 1) ->
  0 <= ev' -> 4 * P45 * ev' <= 3 * (P45 + E1) * ev + (P45 + E1) * es + E1 * (3 * V + Z.abs (S - 65536 * r)) + 4 * P45 * (65536 + 1) ->
  tmpl 35184372088832 0 436207668 67108872 405180249542652133376 S' V' es' ev'.
Proof. unfold tmpl, P45, E1. intros. lia. Qed.
Lemma inv1ms_10s_x2_step_93 S V es ev r S' V' es' ev' :
  65536000000 <= S <= 655360000000000 -> 0 <= V <= 655360000000000 ->

  tmpl 35184372088832 0 436207668 0 405343572022731079680 S V es ev ->
  tmpl 35184372088832 0 452984886 0 404122051557223038976 S V es ev ->
  tmpl 35184372088832 0 503316540 0 400782441201163960320 S V es ev ->
  tmpl 35184372088832 0 520093758 0 399682718237291184128 S V es ev ->
  1000000 <= r <= 10000000000 -> 0 <= es -> 0 <= ev ->
  8 * S' <= 7 * S + 65536 * r < 8 * S' + 8 ->
  4 * V' <= 3 * V + Z.abs (S - 65536 * r) < 4 * V' + 4 ->
  0 <= es' -> 8 * P45 * es' <= 7 * (P45 + E1) * es + E1 * (7 * S + 65536 * r) + 8 * P45 * (65536 + 1) ->
  0 <= ev' -> 4 * P45 * ev' <= 3 * (P45 + E1) * ev + (P45 + E1) * es + E1 * (3 * V + Z.abs (S - 65536 * r)) + 4 * P45 * (65536 + 1) ->
  tmpl 35184372088832 0 452984886 0 404122051557223038976 S' V' es' ev'.
Proof. unfold tmpl, P45, E1. intros. lia. Qed.
Lemma inv1ms_10s_x2_step_94 S V es ev r S' V' es' ev' :
  65536000000 <= S <= 655360000000000 -> 0 <= V <= 655360000000000 ->

  tmpl 35184372088832 0 385876014 67108872 408478812314553745408 S V es ev ->
  tmpl 35184372088832 0 452984886 33554436 404080765273416269824 S V es ev ->
  tmpl 35184372088832 0 486539322 33554436 401881714390011805696 S V es ev ->
  tmpl 35184372088832 0 503316540 0 400782441201163960320 S V es ev ->
  tmpl 35184372088832 0 503316540 33554436 400782202507264786432 S V es ev ->
  tmpl 35184372088832 0 553648194 0 397483667354709393408 S V es ev ->
  1000000 <= r <= 10000000000 -> 0 <= es -> 0 <= ev ->
  8 * S' <= 7 * S + 65536 * r < 8 * S' + 8 ->
  4 * V' <= 3 * V + Z.abs (S - 65536 * r) < 4 * V' + 4 ->
  0 <= es' -> 8 * P45 * es' <= 7 * (P45 + E1) * es + E1 * (7 * S + 65536 * r) + 8 * P45 * (65536 + 1) ->
  0 <= ev' -> 4 * P45 * ev' <= 3 * (P45 + E1) * ev + (P45 + E1) * es + E1 * (3 * V + Z.abs (S - 65536 * r)) + 4 * P45 * (65536 + 1) ->
  tmpl 35184372088832 0 452984886 33554436 404080765273416269824 S' V' es' ev'.
Proof. unfold tmpl, P45, E1. intros. lia. Qed.
Lemma inv1ms_10s_x2_step_95 S V es ev r S' V' es' ev' :
  65536000000 <= S <= 655360000000000 -> 0 <= V <= 655360000000000 ->

  tmpl 35184372088832 0 318767142 134217744 412876831851458330624 S V es ev ->
  tmpl 35184372088832 0 452984886 67108872 404080737780336558080 S V es ev ->
  tmpl 35184372088832 0 503316540 33554436 400782202507264786432 S V es ev ->
  tmpl 35184372088832 0 520093758 33554436 399682690745030213632 S V es ev ->
  1000000 <= r <= 10000000000 -> 0 <= es -> 0 <= ev ->
  8 * S' <= 7 * S + 65536 * r < 8 * S' + 8 ->
  4 * V' <= 3 * V + Z.abs (S - 65536 * r) < 4 * V' + 4 ->
  0 <= es' -> 8 * P45 * es' <= 7 * (P45 + E1) * es + E1 * (7 * S + 65536 * r) + 8 * P45 * (65536 + 1) ->
  0 <= ev' -> 4 * P45 * ev' <= 3 * (P45 + E1) * ev + (P45 + E1) * es + E1 * (3 * V + Z.abs (S - 65536 * r)) + 4 * P45 * (65536 + 1) ->
  tmpl 35184372088832 0 452984886 67108872 404080737780336558080 S' V' es' ev'.
Proof. unfold tmpl, P45, E1. intros. lia. Qed.
Lemma inv1ms_10s_x2_step_96 S V es ev r S' V' es' ev' :
  65536000000 <= S <= 655360000000000 -> 0 <= V <= 655360000000000 ->

  tmpl 35184372088832 0 452984886 0 404122051557223038976 S V es ev ->
  tmpl 35184372088832 0 469762104 0 402990163558223446016 S V es ev ->
  tmpl 35184372088832 0 520093758 0 399682718237291184128 S V es ev ->
  tmpl 35184372088832 0 536870976 0 398583181305200246784 S V es ev ->
  1000000 <= r <= 10000000000 -> 0 <= es -> 0 <= ev ->
  8 * S' <= 7 * S + 65536 * r < 8 * S' + 8 ->
  4 * V' <= 3 * V + Z.abs (S - 65536 * r) < 4 * V' + 4 ->
  0 <= es' -> 8 * P45 * es' <= 7 * (P45 + E1) * es + E1 * (7 * S + 65536 * r) + 8 * P45 * (65536 + 1) ->
  0 <= ev' -> 4 * P45 * ev' <= 3 * (P45 + E1) * ev + (P45 + E1) * es + E1 * (3 * V + Z.abs (S - 65536 * r)) + 4 * P45 * (65536 + 1) ->
  tmpl 35184372088832 0 469762104 0 402990163558223446016 S' V' es' ev'.
Proof. unfold tmpl, P45, E1. intros. lia. Qed.
Lemma inv1ms_10s_x2_step_97 S V es ev r S' V' es' ev' :
  65536000000 <= S <= 655360000000000 -> 0 <= V <= 655360000000000 ->

  tmpl 35184372088832 0 318767142 134217744 412876831851458330624 S V es ev ->
  tmpl 35184372088832 0 452984886 33554436 404080765273416269824 S V es ev ->
  tmpl 35184372088832 0 469762104 33554436 402981228340587069440 S V es ev ->
  tmpl 35184372088832 0 520093758 0 399682718237291184128 S V es ev ->
  tmpl 35184372088832 0 520093758 33554436 399682690745030213632 S V es ev ->
  tmpl 35184372088832 0 570425412 0 396384155471969583104 S V es ev ->
  1000000 <= r <= 10000000000 -> 0 <= es -> 0 <= ev ->
  8 * S' <= 7 * S + 65536 * r < 8 * S' + 8 ->
  4 * V' <= 3 * V + Z.abs (S - 65536 * r) < 4 * V' + 4 ->
  0 <= es' -> 8 * P45 * es' <= 7 * (P45 + E1) * es + E1 * (7 * S + 65536 * r) + 8 * P45 * (65536 + 1) ->
  0 <= ev' -> 4 * P45 * ev' <= 3 * (P45 + E1) * ev + (P45 + E1) * es + E1 * (3 * V + Z.abs (S - 65536 * r)) + 4 * P45 * (65536 + 1) ->
  tmpl 35184372088832 0 469762104 33554436 402981228340587069440 S' V' es' ev'.
Proof. unfold tmpl, P45, E1. intros. lia. Qed.
Lemma inv1ms_10s_x2_step_98 S V es ev r S' V' es' ev' :
  65536000000 <= S <= 655360000000000 -> 0 <= V <= 655360000000000 ->

  tmpl 35184372088832 0 469762104 0 402990163558223446016 S V es ev ->
  tmpl 35184372088832 0 486539322 0 401883333290772660224 S V es ev ->
  tmpl 35184372088832 0 536870976 0 398583181305200246784 S V es ev ->
  tmpl 35184372088832 0 553648194 0 397483667354709393408 S V es ev ->
  1000000 <= r <= 10000000000 -> 0 <= es -> 0 <= ev ->
  8 * S' <= 7 * S + 65536 * r < 8 * S' + 8 ->
  4 * V' <= 3 * V + Z.abs (S - 65536 * r) < 4 * V' + 4 ->
  0 <= es' -> 8 * P45 * es' <= 7 * (P45 + E1) * es + E1 * (7 * S + 65536 * r) + 8 * P45 * (65536 + 1) ->
  0 <= ev' -> 4 * P45 * ev' <= 3 * (P45 + E1) * ev + (P45 + E1) * es + E1 * (3 * V + Z.abs (S - 65536 * r)) + 4 * P45 * (65536 + 1) ->
  tmpl 35184372088832 0 486539322 0 401883333290772660224 S' V' es' ev'.
Proof. unfold tmpl, P45, E1. intros. lia. Qed.
Lemma inv1ms_10s_x2_step_99 S V es ev r S' V' es' ev' :
  65536000000 <= S <= 655360000000000 -> 0 <= V <= 655360000000000 ->

  tmpl 35184372088832 0 469762104 33554436 402981228340587069440 S V es ev ->
  tmpl 35184372088832 0 486539322 33554436 401881714390011805696 S V es ev ->
  tmpl 35184372088832 0 520093758 33554436 399682690745030213632 S V es ev ->
  tmpl 35184372088832 0 536870976 0 398583181305200246784 S V es ev ->
  tmpl 35184372088832 0 587202630 0 395284643709735665664 S V es ev ->
  1000000 <= r <= 10000000000 -> 0 <= es -> 0 <= ev ->
  8 * S' <= 7 * S + 65536 * r < 8 * S' + 8 ->
  4 * V' <= 3 * V + Z.abs (S - 65536 * r) < 4 * V' + 4 ->
  0 <= es' -> 8 * P45 * es' <= 7 * (P45 + E1) * es + E1 * (7 * S + 65536 * r) + 8 * P45 * (65536 + 1) ->
  0 <= ev' -> 4 * P45 * ev' <= 3 * (P45 + E1) * ev + (P45 + E1) * es + E1 * (3 * V + Z.abs (S - 65536 * r)) + 4 * P45 * (65536 + 1) ->
  tmpl 35184372088832 0 486539322 33554436 401881714390011805696 S' V' es' ev'.
Proof. unfold tmpl, P45, E1. intros. lia. Qed.
Lemma inv1ms_10s_x2_step_100 S V es ev r S' V' es' ev' :
  65536000000 <= S <= 655360000000000 -> 0 <= V <= 655360000000000 ->

  tmpl 35184372088832 0 486539322 0 401883333290772660224 S V es ev ->
  tmpl 35184372088832 0 503316540 0 400782441201163960320 S V es ev ->
  tmpl 35184372088832 0 553648194 0 397483667354709393408 S V es ev ->
  tmpl 35184372088832 0 570425412 0 396384155471969583104 S V es ev ->
  1000000 <= r <= 10000000000 -> 0 <= es -> 0 <= ev ->
  8 * S' <= 7 * S + 65536 * r < 8 * S' + 8 ->
  4 * V' <= 3 * V + Z.abs (S - 65536 * r) < 4 * V' + 4 ->
  0 <= es' -> 8 * P45 * es' <= 7 * (P45 + E1) * es + E1 * (7 * S + 65536 * r) + 8 * P45 * (65536 + 1) ->
  0 <= ev' -> 4 * P45 * ev' <= 3 * (P45 + E1) * ev + (P45 + E1) * es + E1 * (3 * V + Z.abs (S - 65536 * r)) + 4 * P45 * (65536 + 1) ->
  tmpl 35184372088832 0 503316540 0 400782441201163960320 S' V' es' ev'.
Proof. unfold tmpl, P45, E1. intros. lia. Qed.
Lemma inv1ms_10s_x2_step_101 S V es ev r S' V' es' ev' :
  65536000000 <= S <= 655360000000000 -> 0 <= V <= 655360000000000 ->

  tmpl 35184372088832 0 486539322 33554436 401881714390011805696 S V es ev ->
  tmpl 35184372088832 0 503316540 33554436 400782202507264786432 S V es ev ->
  tmpl 35184372088832 0 520093758 33554436 399682690745030213632 S V es ev ->
  tmpl 35184372088832 0 553648194 0 397483667354709393408 S V es ev ->
  tmpl 35184372088832 0 587202630 0 395284643709735665664 S V es ev ->
  1000000 <= r <= 10000000000 -> 0 <= es -> 0 <= ev ->
  8 * S' <= 7 * S + 65536 * r < 8 * S' + 8 ->
  4 * V' <= 3 * V + Z.abs (S - 65536 * r) < 4 * V' + 4 ->
  0 <= es' -> 8 * P45 * es' <= 7 * (P45 + E1) * es + E1 * (7 * S + 65536 * r) + 8 * P45 * (65536 + 1) ->
  0 <= ev' -> 4 * P45 * ev' <= 3 * (P45 + E1) * ev + (P45 + E1) * es + E1 * (3 * V + Z.abs (S - 65536 * r)) + 4 * P45 * (65536 + 1) ->
  tmpl 35184372088832 0 503316540 33554436 400782202507264786432 S' V' es' ev'.
Proof. unfold tmpl, P45, E1. intros. lia. Qed.
Lemma inv1ms_10s_x2_step_102 S V es ev r S' V' es' ev' :
  65536000000 <= S <= 655360000000000 -> 0 <= V <= 655360000000000 ->

  tmpl 35184372088832 0 503316540 0 400782441201163960320 S V es ev ->
  tmpl 35184372088832 0 520093758 0 399682718237291184128 S V es ev ->
  tmpl 35184372088832 0 570425412 0 396384155471969583104 S V es ev ->
  tmpl 35184372088832 0 587202630 0 395284643709735665664 S V es ev ->
  1000000 <= r <= 10000000000 -> 0 <= es -> 0 <= ev ->
  8 * S' <= 7 * S + 65536 * r < 8 * S' + 8 ->
  4 * V' <= 3 * V + Z.abs (S - 65536 * r) < 4 * V' + 4 ->
  0 <= es' -> 8 * P45 * es' <= 7 * (P45 + E1) * es + E1 * (7 * S + 65536 * r) + 8 * P45 * (65536 + 1) ->
  0 <= ev' -> 4 * P45 * ev' <= 3 * (P45 + E1) * ev + (P45 + E1) * es + E1 * (3 * V + Z.abs (S - 65536 * r)) + 4 * P45 * (65536 + 1) ->
  tmpl 35184372088832 0 520093758 0 399682718237291184128 S' V' es' ev'.
Proof. unfold tmpl, P45, E1. intros. lia. Qed.
Lemma inv1ms_10s_x2_step_103 S V es ev r S' V' es' ev' :
  65536000000 <= S <= 655360000000000 -> 0 <= V <= 655360000000000 ->

  tmpl 35184372088832 0 503316540 33554436 400782202507264786432 S V es ev ->
  tmpl 35184372088832 0 520093758 33554436 399682690745030213632 S V es ev ->
  tmpl 35184372088832 0 570425412 0 396384155471969583104 S V es ev ->
  tmpl 35184372088832 0 587202630 0 395284643709735665664 S V es ev ->
  1000000 <= r <= 10000000000 -> 0 <= es -> 0 <= ev ->
  8 * S' <= 7 * S + 65536 * r < 8 * S' + 8 ->
  4 * V' <= 3 * V + Z.abs (S - 65536 * r) < 4 * V' + 4 ->
  0 <= es' -> 8 * P45 * es' <= 7 * (P45 + E1) * es + E1 * (7 * S + 65536 * r) + 8 * P45 * (65536 + 1) ->
  0 <= ev' -> 4 * P45 * ev' <= 3 * (P45 + E1) * ev + (P45 + E1) * es + E1 * (3 * V + Z.abs (S - 65536 * r)) + 4 * P45 * (65536 + 1) ->
  tmpl 35184372088832 0 520093758 33554436 399682690745030213632 S' V' es' ev'.
Proof. unfold tmpl, P45, E1. intros. lia. Qed.
Lemma inv1ms_10s_x2_step_104 S V es ev r S' V' es' ev' :
  65536000000 <= S <= 655360000000000 -> 0 <= V <= 655360000000000 ->

  tmpl 35184372088832 0 520093758 0 399682718237291184128 S V es ev ->
  tmpl 35184372088832 0 536870976 0 398583181305200246784 S V es ev ->
  tmpl 35184372088832 0 587202630 0 395284643709735665664 S V es ev ->
  1000000 <= r <= 10000000000 -> 0 <= es -> 0 <= ev ->
  8 * S' <= 7 * S + 65536 * r < 8 * S' + 8 ->
  4 * V' <= 3 * V + Z.abs (S - 65536 * r) < 4 * V' + 4 ->
  0 <= es' -> 8 * P45 * es' <= 7 * (P45 + E1) * es + E1 * (7 * S + 65536 * r) + 8 * P45 * (65536 + 1) ->
  0 <= ev' -> 4 * P45 * ev' <= 3 * (P45 + E1) * ev + (P45 + E1) * es + E1 * (3 * V + Z.abs (S - 65536 * r)) + 4 * P45 * (65536 + 1) ->
  tmpl 35184372088832 0 536870976 0 398583181305200246784 S' V' es' ev'.
Proof. unfold tmpl, P45, E1. intros. lia. Qed.
Lemma inv1ms_10s_x2_step_105 S V es ev r S' V' es' ev' :
  65536000000 <= S <= 655360000000000 -> 0 <= V <= 655360000000000 ->

  tmpl 35184372088832 0 536870976 0 398583181305200246784 S V es ev ->
  tmpl 35184372088832 0 553648194 0 397483667354709393408 S V es ev ->
  tmpl 35184372088832 0 587202630 0 395284643709735665664 S V es ev ->
  1000000 <= r <= 10000000000 -> 0 <= es -> 0 <= ev ->
  8 * S' <= 7 * S + 65536 * r < 8 * S' + 8 ->
  4 * V' <= 3 * V + Z.abs (S - 65536 * r) < 4 * V' + 4 ->
  0 <= es' -> 8 * P45 * es' <= 7 * (P45 + E1) * es + E1 * (7 * S + 65536 * r) + 8 * P45 * (65536 + 1) ->
  0 <= ev' -> 4 * P45 * ev' <= 3 * (P45 + E1) * ev + (P45 + E1) * es + E1 * (3 * V + Z.abs (S - 65536 * r)) + 4 * P45 * (65536 + 1) ->
  tmpl 35184372088832 0 553648194 0 397483667354709393408 S' V' es' ev'.
Proof. unfold tmpl, P45, E1. intros. lia. Qed.
Lemma inv1ms_10s_x2_step_106 S V es ev r S' V' es' ev' :
  65536000000 <= S <= 655360000000000 -> 0 <= V <= 655360000000000 ->

  tmpl 35184372088832 0 553648194 0 397483667354709393408 S V es ev ->
  tmpl 35184372088832 0 570425412 0 396384155471969583104 S V es ev ->
  tmpl 35184372088832 0 587202630 0 395284643709735665664 S V es ev ->
  1000000 <= r <= 10000000000 -> 0 <= es -> 0 <= ev ->
  8 * S' <= 7 * S + 65536 * r < 8 * S' + 8 ->
  4 * V' <= 3 * V + Z.abs (S - 65536 * r) < 4 * V' + 4 ->
  0 <= es' -> 8 * P45 * es' <= 7 * (P45 + E1) * es + E1 * (7 * S + 65536 * r) + 8 * P45 * (65536 + 1) ->
  0 <= ev' -> 4 * P45 * ev' <= 3 * (P45 + E1) * ev + (P45 + E1) * es + E1 * (3 * V + Z.abs (S - 65536 * r)) + 4 * P45 * (65536 + 1) ->
  tmpl 35184372088832 0 570425412 0 396384155471969583104 S' V' es' ev'.
Proof. unfold tmpl, P45, E1. intros. lia. Qed.
Lemma inv1ms_10s_x2_step_107 S V es ev r S' V' es' ev' :
  65536000000 <= S <= 655360000000000 -> 0 <= V <= 655360000000000 ->

  tmpl 35184372088832 0 570425412 0 396384155471969583104 S V es ev ->
  tmpl 35184372088832 0 587202630 0 395284643709735665664 S V es ev ->
  1000000 <= r <= 10000000000 -> 0 <= es -> 0 <= ev ->
  8 * S' <= 7 * S + 65536 * r < 8 * S' + 8 ->
  4 * V' <= 3 * V + Z.abs (S - 65536 * r) < 4 * V' + 4 ->
  0 <= es' -> 8 * P45 * es' <= 7 * (P45 + E1) * es + E1 * (7 * S + 65536 * r) + 8 * P45 * (65536 + 1) ->
  0 <= ev' -> 4 * P45 * ev' <= 3 * (P45 + E1) * ev + (P45 + E1) * es + E1 * (3 * V + Z.abs (S - 65536 * r)) + 4 * P45 * (65536 + 1) ->
  tmpl 35184372088832 0 587202630 0 395284643709735665664 S' V' es' ev'.
Proof. unfold tmpl, P45, E1. intros. lia. Qed.
Lemma inv1ms_10s_x2_step_108 S V es ev r S' V' es' ev' :
  65536000000 <= S <= 655360000000000 -> 0 <= V <= 655360000000000 ->

  tmpl 35184372088832 0 0 0 43999234116437669838848 S V es ev ->
  tmpl 35184372088832 0 16777218 0 34225674092040490582016 S V es ev ->
  tmpl 0 35184372088832 0 0 65483003519166450761728 S V es ev ->
  tmpl 35184372088832 140737521909764 0 0 305244166066025917317120 S V es ev ->
  1000000 <= r <= 10000000000 -> 0 <= es -> 0 <= ev ->
  8 * S' <= 7 * S + 65536 * r < 8 * S' + 8 ->
  4 * V' <= 3 * V + Z.abs (S - 65536 * r) < 4 * V' + 4 ->
  0 <= es' -> 8 * P45 * es' <= 7 * (P45 + E1) * es + E1 * (7 * S + 65536 * r) + 8 * P45 * (65536 + 1) ->
  0 <= ev' -> 4 * P45 * ev' <= 3 * (P45 + E1) * ev + (P45 + E1) * es + E1 * (3 * V + Z.abs (S - 65536 * r)) + 4 * P45 * (65536 + 1) ->
  tmpl 0 35184372088832 0 0 65483003519166450761728 S' V' es' ev'.
Proof. unfold tmpl, P45, E1. intros. lia. Qed.
Lemma inv1ms_10s_x2_step_109 S V es ev r S' V' es' ev' :
  65536000000 <= S <= 655360000000000 -> 0 <= V <= 655360000000000 ->

  tmpl 0 0 8388609 (-16777218) 6596535554603892080640 S V es ev ->
  tmpl 35184372088832 0 33554436 0 26623771154023886880768 S V es ev ->
  tmpl 0 35184372088832 0 0 65483003519166450761728 S V es ev ->
  tmpl 0 35184372088832 33554436 0 51856350919460565024768 S V es ev ->
  1000000 <= r <= 10000000000 -> 0 <= es -> 0 <= ev ->
  8 * S' <= 7 * S + 65536 * r < 8 * S' + 8 ->
  4 * V' <= 3 * V + Z.abs (S - 65536 * r) < 4 * V' + 4 ->
  0 <= es' -> 8 * P45 * es' <= 7 * (P45 + E1) * es + E1 * (7 * S + 65536 * r) + 8 * P45 * (65536 + 1) ->
  0 <= ev' -> 4 * P45 * ev' <= 3 * (P45 + E1) * ev + (P45 + E1) * es + E1 * (3 * V + Z.abs (S - 65536 * r)) + 4 * P45 * (65536 + 1) ->
  tmpl 0 35184372088832 33554436 0 51856350919460565024768 S' V' es' ev'.
Proof. unfold tmpl, P45, E1. intros. lia. Qed.
Lemma inv1ms_10s_x2_step_110 S V es ev r S' V' es' ev' :
  65536000000 <= S <= 655360000000000 -> 0 <= V <= 655360000000000 ->

  tmpl 0 0 8388609 (-8388609) 1648730796089356582912 S V es ev ->
  tmpl 35184372088832 0 50331654 0 20710934392785520820224 S V es ev ->
  tmpl 0 35184372088832 67108872 0 41117121641585139777536 S V es ev ->
  tmpl 109951162777600000 439804755968012500 549755813888 209715225000 610134219416973449625600000 S V es ev ->
  1000000 <= r <= 10000000000 -> 0 <= es -> 0 <= ev ->
  8 * S' <= 7 * S + 65536 * r < 8 * S' + 8 ->
  4 * V' <= 3 * V + Z.abs (S - 65536 * r) < 4 * V' + 4 ->
  0 <= es' -> 8 * P45 * es' <= 7 * (P45 + E1) * es + E1 * (7 * S + 65536 * r) + 8 * P45 * (65536 + 1) ->
  0 <= ev' -> 4 * P45 * ev' <= 3 * (P45 + E1) * ev + (P45 + E1) * es + E1 * (3 * V + Z.abs (S - 65536 * r)) + 4 * P45 * (65536 + 1) ->
  tmpl 0 35184372088832 67108872 0 41117121641585139777536 S' V' es' ev'.
Proof. unfold tmpl, P45, E1. intros. lia. Qed.
Lemma inv1ms_10s_x2_step_111 S V es ev r S' V' es' ev' :
  65536000000 <= S <= 655360000000000 -> 0 <= V <= 655360000000000 ->

  tmpl 35184372088832 0 67108872 0 16111815576034815770624 S V es ev ->
  tmpl 0 35184372088832 67108872 33554436 27569976611144382545920 S V es ev ->
  tmpl 109951162777600000 439804755968012500 549755813888 419430450000 520356152558334718771200000 S V es ev ->
  tmpl 109951162777600000 439804755968012500 1099511627776 209715225000 460010847367308456755200000 S V es ev ->
  1000000 <= r <= 10000000000 -> 0 <= es -> 0 <= ev ->
  8 * S' <= 7 * S + 65536 * r < 8 * S' + 8 ->
  4 * V' <= 3 * V + Z.abs (S - 65536 * r) < 4 * V' + 4 ->
  0 <= es' -> 8 * P45 * es' <= 7 * (P45 + E1) * es + E1 * (7 * S + 65536 * r) + 8 * P45 * (65536 + 1) ->
  0 <= ev' -> 4 * P45 * ev' <= 3 * (P45 + E1) * ev + (P45 + E1) * es + E1 * (3 * V + Z.abs (S - 65536 * r)) + 4 * P45 * (65536 + 1) ->
  tmpl 0 35184372088832 67108872 33554436 27569976611144382545920 S' V' es' ev'.
Proof. unfold tmpl, P45, E1. intros. lia. Qed.
Lemma inv1ms_10s_x2_step_112 S V es ev r S' V' es' ev' :
  65536000000 <= S <= 655360000000000 -> 0 <= V <= 655360000000000 ->

  tmpl 0 0 8388609 (-8388609) 1648730796089356582912 S V es ev ->
  tmpl 35184372088832 0 67108872 0 16111815576034815770624 S V es ev ->
  tmpl 35184372088832 0 83886090 0 12534477450322265505792 S V es ev ->
  tmpl 0 35184372088832 100663308 0 32880950580924523741184 S V es ev ->
  tmpl 109951162777600000 439804755968012500 1099511627776 104857612500 502651689723456126976000000 S V es ev ->
  1000000 <= r <= 10000000000 -> 0 <= es -> 0 <= ev ->
  8 * S' <= 7 * S + 65536 * r < 8 * S' + 8 ->
  4 * V' <= 3 * V + Z.abs (S - 65536 * r) < 4 * V' + 4 ->
  0 <= es' -> 8 * P45 * es' <= 7 * (P45 + E1) * es + E1 * (7 * S + 65536 * r) + 8 * P45 * (65536 + 1) ->
  0 <= ev' -> 4 * P45 * ev' <= 3 * (P45 + E1) * ev + (P45 + E1) * es + E1 * (3 * V + Z.abs (S - 65536 * r)) + 4 * P45 * (65536 + 1) ->
  tmpl 0 35184372088832 100663308 0 32880950580924523741184 S' V' es' ev'.
Proof. unfold tmpl, P45, E1. intros. lia. Qed.
Lemma inv1ms_10s_x2_step_113 S V es ev r S' V' es' ev' :
  65536000000 <= S <= 655360000000000 -> 0 <= V <= 655360000000000 ->

  tmpl 35184372088832 0 83886090 0 12534477450322265505792 S V es ev ->
  tmpl 35184372088832 0 100663308 0 9751858405112184569856 S V es ev ->
  tmpl 0 35184372088832 100663308 33554436 21626668937271157194752 S V es ev ->
  tmpl 109951162777600000 439804755968012500 1099511627776 419430450000 383248869666463888179200000 S V es ev ->
  tmpl 109951162777600000 439804755968012500 1649267441664 209715225000 350388785952571575500800000 S V es ev ->
  1000000 <= r <= 10000000000 -> 0 <= es -> 0 <= ev ->
  8 * S' <= 7 * S + 65536 * r < 8 * S' + 8 ->
  4 * V' <= 3 * V + Z.abs (S - 65536 * r) < 4 * V' + 4 ->
  0 <= es' -> 8 * P45 * es' <= 7 * (P45 + E1) * es + E1 * (7 * S + 65536 * r) + 8 * P45 * (65536 + 1) ->
  0 <= ev' -> 4 * P45 * ev' <= 3 * (P45 + E1) * ev + (P45 + E1) * es + E1 * (3 * V + Z.abs (S - 65536 * r)) + 4 * P45 * (65536 + 1) ->
  tmpl 0 35184372088832 100663308 33554436 21626668937271157194752 S' V' es' ev'.
Proof. unfold tmpl, P45, E1. intros. lia. Qed.
Lemma inv1ms_10s_x2_step_114 S V es ev r S' V' es' ev' :
  65536000000 <= S <= 655360000000000 -> 0 <= V <= 655360000000000 ->

  tmpl 0 0 8388609 (-8388609) 1648730796089356582912 S V es ev ->
  tmpl 0 0 16777218 (-8388609) (-820022133117572608) S V es ev ->
  tmpl 35184372088832 0 83886090 0 12534477450322265505792 S V es ev ->
  tmpl 0 35184372088832 134217744 0 26459941626017174519808 S V es ev ->
  tmpl 109951162777600000 439804755968012500 1649267441664 0 423219155169629962240000000 S V es ev ->
  1000000 <= r <= 10000000000 -> 0 <= es -> 0 <= ev ->
  8 * S' <= 7 * S + 65536 * r < 8 * S' + 8 ->
  4 * V' <= 3 * V + Z.abs (S - 65536 * r) < 4 * V' + 4 ->
  0 <= es' -> 8 * P45 * es' <= 7 * (P45 + E1) * es + E1 * (7 * S + 65536 * r) + 8 * P45 * (65536 + 1) ->
  0 <= ev' -> 4 * P45 * ev' <= 3 * (P45 + E1) * ev + (P45 + E1) * es + E1 * (3 * V + Z.abs (S - 65536 * r)) + 4 * P45 * (65536 + 1) ->
  tmpl 0 35184372088832 134217744 0 26459941626017174519808 S' V' es' ev'.
Proof. unfold tmpl, P45, E1. intros. lia. Qed.
Lemma inv1ms_10s_x2_step_115 S V es ev r S' V' es' ev' :
  65536000000 <= S <= 655360000000000 -> 0 <= V <= 655360000000000 ->

  tmpl 35184372088832 0 100663308 0 9751858405112184569856 S V es ev ->
  tmpl 35184372088832 0 117440526 0 7587357747373541425152 S V es ev ->
  tmpl 0 35184372088832 134217744 33554436 17071037512916144226304 S V es ev ->
  tmpl 109951162777600000 439804755968012500 1649267441664 419430450000 289023183573708963840000000 S V es ev ->
  tmpl 109951162777600000 439804755968012500 2199023255552 209715225000 268379475142951829504000000 S V es ev ->
  1000000 <= r <= 10000000000 -> 0 <= es -> 0 <= ev ->
  8 * S' <= 7 * S + 65536 * r < 8 * S' + 8 ->
  4 * V' <= 3 * V + Z.abs (S - 65536 * r) < 4 * V' + 4 ->
  0 <= es' -> 8 * P45 * es' <= 7 * (P45 + E1) * es + E1 * (7 * S + 65536 * r) + 8 * P45 * (65536 + 1) ->
  0 <= ev' -> 4 * P45 * ev' <= 3 * (P45 + E1) * ev + (P45 + E1) * es + E1 * (3 * V + Z.abs (S - 65536 * r)) + 4 * P45 * (65536 + 1) ->
  tmpl 0 35184372088832 134217744 33554436 17071037512916144226304 S' V' es' ev'.
Proof. unfold tmpl, P45, E1. intros. lia. Qed.
Lemma inv1ms_10s_x2_step_116 S V es ev r S' V' es' ev' :
  65536000000 <= S <= 655360000000000 -> 0 <= V <= 655360000000000 ->

  tmpl 35184372088832 0 134217744 0 5903629511765034795008 S V es ev ->
  tmpl 0 35184372088832 134217744 67108872 10993953939810357870592 S V es ev ->
  tmpl 0 35184372088832 167772180 33554436 13515504633843921453056 S V es ev ->
  tmpl 109951162777600000 439804755968012500 1649267441664 838860900000 198452313444015354675200000 S V es ev ->
  1000000 <= r <= 10000000000 -> 0 <= es -> 0 <= ev ->
  8 * S' <= 7 * S + 65536 * r < 8 * S' + 8 ->
  4 * V' <= 3 * V + Z.abs (S - 65536 * r) < 4 * V' + 4 ->
  0 <= es' -> 8 * P45 * es' <= 7 * (P45 + E1) * es + E1 * (7 * S + 65536 * r) + 8 * P45 * (65536 + 1) ->
  0 <= ev' -> 4 * P45 * ev' <= 3 * (P45 + E1) * ev + (P45 + E1) * es + E1 * (3 * V + Z.abs (S - 65536 * r)) + 4 * P45 * (65536 + 1) ->
  tmpl 0 35184372088832 134217744 67108872 10993953939810357870592 S' V' es' ev'.
Proof. unfold tmpl, P45, E1. intros. lia. Qed.
Lemma inv1ms_10s_x2_step_117 S V es ev r S' V' es' ev' :
  65536000000 <= S <= 655360000000000 -> 0 <= V <= 655360000000000 ->

  tmpl 0 0 16777218 (-8388609) (-820022133117572608) S V es ev ->
  tmpl 35184372088832 0 117440526 0 7587357747373541425152 S V es ev ->
  tmpl 0 35184372088832 167772180 33554436 13515504633843921453056 S V es ev ->
  tmpl 0 35184372088832 234881052 0 13512093834172975546368 S V es ev ->
  tmpl 109951162777600000 439804755968012500 2199023255552 419430450000 219405188725302126182400000 S V es ev ->
  1000000 <= r <= 10000000000 -> 0 <= es -> 0 <= ev ->
  8 * S' <= 7 * S + 65536 * r < 8 * S' + 8 ->
  4 * V' <= 3 * V + Z.abs (S - 65536 * r) < 4 * V' + 4 ->
  0 <= es' -> 8 * P45 * es' <= 7 * (P45 + E1) * es + E1 * (7 * S + 65536 * r) + 8 * P45 * (65536 + 1) ->
  0 <= ev' -> 4 * P45 * ev' <= 3 * (P45 + E1) * ev + (P45 + E1) * es + E1 * (3 * V + Z.abs (S - 65536 * r)) + 4 * P45 * (65536 + 1) ->
  tmpl 0 35184372088832 167772180 33554436 13515504633843921453056 S' V' es' ev'.
Proof. unfold tmpl, P45, E1. intros. lia. Qed.
Lemma inv1ms_10s_x2_step_118 S V es ev r S' V' es' ev' :
  65536000000 <= S <= 655360000000000 -> 0 <= V <= 655360000000000 ->

  tmpl 35184372088832 0 150994962 0 4593880170878093754368 S V es ev ->
  tmpl 0 35184372088832 167772180 67108872 8572064083350197895168 S V es ev ->
  tmpl 0 35184372088832 201326616 33554436 10748579327783280312320 S V es ev ->
  tmpl 109951162777600000 439804755968012500 2199023255552 838860900000 147277324490028928204800000 S V es ev ->
  1000000 <= r <= 10000000000 -> 0 <= es -> 0 <= ev ->
  8 * S' <= 7 * S + 65536 * r < 8 * S' + 8 ->
  4 * V' <= 3 * V + Z.abs (S - 65536 * r) < 4 * V' + 4 ->
  0 <= es' -> 8 * P45 * es' <= 7 * (P45 + E1) * es + E1 * (7 * S + 65536 * r) + 8 * P45 * (65536 + 1) ->
  0 <= ev' -> 4 * P45 * ev' <= 3 * (P45 + E1) * ev + (P45 + E1) * es + E1 * (3 * V + Z.abs (S - 65536 * r)) + 4 * P45 * (65536 + 1) ->
  tmpl 0 35184372088832 167772180 67108872 8572064083350197895168 S' V' es' ev'.
Proof. unfold tmpl, P45, E1. intros. lia. Qed.
Lemma inv1ms_10s_x2_step_119 S V es ev r S' V' es' ev' :
  65536000000 <= S <= 655360000000000 -> 0 <= V <= 655360000000000 ->

  tmpl 35184372088832 0 134217744 33554436 2323499913678736064512 S V es ev ->
  tmpl 0 35184372088832 167772180 134217744 4215169424604657090560 S V es ev ->
  tmpl 0 35184372088832 234881052 67108872 5299191425168411983872 S V es ev ->
  tmpl 109951162777600000 439804755968012500 2199023255552 1677721800000 77077647401638572851200000 S V es ev ->
  1000000 <= r <= 10000000000 -> 0 <= es -> 0 <= ev ->
  8 * S' <= 7 * S + 65536 * r < 8 * S' + 8 ->
  4 * V' <= 3 * V + Z.abs (S - 65536 * r) < 4 * V' + 4 ->
  0 <= es' -> 8 * P45 * es' <= 7 * (P45 + E1) * es + E1 * (7 * S + 65536 * r) + 8 * P45 * (65536 + 1) ->
  0 <= ev' -> 4 * P45 * ev' <= 3 * (P45 + E1) * ev + (P45 + E1) * es + E1 * (3 * V + Z.abs (S - 65536 * r)) + 4 * P45 * (65536 + 1) ->
  tmpl 0 35184372088832 167772180 134217744 4215169424604657090560 S' V' es' ev'.
Proof. unfold tmpl, P45, E1. intros. lia. Qed.
Lemma inv1ms_10s_x2_step_120 S V es ev r S' V' es' ev' :
  65536000000 <= S <= 655360000000000 -> 0 <= V <= 655360000000000 ->

  tmpl 35184372088832 0 134217744 67108872 956553882589610246144 S V es ev ->
  tmpl 0 35184372088832 167772180 268435488 1693521709208180883456 S V es ev ->
  tmpl 0 35184372088832 234881052 134217744 2207448969058618703872 S V es ev ->
  tmpl 109951162777600000 439804755968012500 2199023255552 3355443600000 33480816810973095526400000 S V es ev ->
  1000000 <= r <= 10000000000 -> 0 <= es -> 0 <= ev ->
  8 * S' <= 7 * S + 65536 * r < 8 * S' + 8 ->
  4 * V' <= 3 * V + Z.abs (S - 65536 * r) < 4 * V' + 4 ->
  0 <= es' -> 8 * P45 * es' <= 7 * (P45 + E1) * es + E1 * (7 * S + 65536 * r) + 8 * P45 * (65536 + 1) ->
  0 <= ev' -> 4 * P45 * ev' <= 3 * (P45 + E1) * ev + (P45 + E1) * es + E1 * (3 * V + Z.abs (S - 65536 * r)) + 4 * P45 * (65536 + 1) ->
  tmpl 0 35184372088832 167772180 268435488 1693521709208180883456 S' V' es' ev'.
Proof. unfold tmpl, P45, E1. intros. lia. Qed.
Lemma inv1ms_10s_x2_step_121 S V es ev r S' V' es' ev' :
  65536000000 <= S <= 655360000000000 -> 0 <= V <= 655360000000000 ->

  tmpl 35184372088832 0 134217744 134217744 503140616911589605376 S V es ev ->
  tmpl 0 35184372088832 167772180 536870976 923897766221642858496 S V es ev ->
  tmpl 0 35184372088832 234881052 268435488 1006729719995359428608 S V es ev ->
  tmpl 109951162777600000 439804755968012500 2199023255552 6710887200000 15280163592723192217600000 S V es ev ->
  1000000 <= r <= 10000000000 -> 0 <= es -> 0 <= ev ->
  8 * S' <= 7 * S + 65536 * r < 8 * S' + 8 ->
  4 * V' <= 3 * V + Z.abs (S - 65536 * r) < 4 * V' + 4 ->
  0 <= es' -> 8 * P45 * es' <= 7 * (P45 + E1) * es + E1 * (7 * S + 65536 * r) + 8 * P45 * (65536 + 1) ->
  0 <= ev' -> 4 * P45 * ev' <= 3 * (P45 + E1) * ev + (P45 + E1) * es + E1 * (3 * V + Z.abs (S - 65536 * r)) + 4 * P45 * (65536 + 1) ->
  tmpl 0 35184372088832 167772180 536870976 923897766221642858496 S' V' es' ev'.
Proof. unfold tmpl, P45, E1. intros. lia. Qed.
Lemma inv1ms_10s_x2_step_122 S V es ev r S' V' es' ev' :
  65536000000 <= S <= 655360000000000 -> 0 <= V <= 655360000000000 ->

  tmpl 0 0 16777218 (-8388609) (-820022133117572608) S V es ev ->
  tmpl 35184372088832 0 100663308 0 9751858405112184569856 S V es ev ->
  tmpl 35184372088832 0 117440526 0 7587357747373541425152 S V es ev ->
  tmpl 0 35184372088832 201326616 0 16968742878223288762368 S V es ev ->
  tmpl 109951162777600000 439804755968012500 2199023255552 104857612500 296536192690772246528000000 S V es ev ->
  tmpl 109951162777600000 439804755968012500 2199023255552 209715225000 268379475142951829504000000 S V es ev ->
  tmpl 109951162777600000 439804755968012500 2199023255552 419430450000 219405188725302126182400000 S V es ev ->
  1000000 <= r <= 10000000000 -> 0 <= es -> 0 <= ev ->
  8 * S' <= 7 * S + 65536 * r < 8 * S' + 8 ->
  4 * V' <= 3 * V + Z.abs (S - 65536 * r) < 4 * V' + 4 ->
  0 <= es' -> 8 * P45 * es' <= 7 * (P45 + E1) * es + E1 * (7 * S + 65536 * r) + 8 * P45 * (65536 + 1) ->
  0 <= ev' -> 4 * P45 * ev' <= 3 * (P45 + E1) * ev + (P45 + E1) * es + E1 * (3 * V + Z.abs (S - 65536 * r)) + 4 * P45 * (65536 + 1) ->
  tmpl 0 35184372088832 201326616 0 16968742878223288762368 S' V' es' ev'.
Proof. unfold tmpl, P45, E1. intros. lia. Qed.
Lemma inv1ms_10s_x2_step_123 S V es ev r S' V' es' ev' :
  65536000000 <= S <= 655360000000000 -> 0 <= V <= 655360000000000 ->

  tmpl 35184372088832 0 134217744 0 5903629511765034795008 S V es ev ->
  tmpl 35184372088832 0 150994962 0 4593880170878093754368 S V es ev ->
  tmpl 0 35184372088832 167772180 33554436 13515504633843921453056 S V es ev ->
  tmpl 0 35184372088832 201326616 33554436 10748579327783280312320 S V es ev ->
  tmpl 0 35184372088832 268435488 0 10745156669513727475712 S V es ev ->
  1000000 <= r <= 10000000000 -> 0 <= es -> 0 <= ev ->
  8 * S' <= 7 * S + 65536 * r < 8 * S' + 8 ->
  4 * V' <= 3 * V + Z.abs (S - 65536 * r) < 4 * V' + 4 ->
  0 <= es' -> 8 * P45 * es' <= 7 * (P45 + E1) * es + E1 * (7 * S + 65536 * r) + 8 * P45 * (65536 + 1) ->
  0 <= ev' -> 4 * P45 * ev' <= 3 * (P45 + E1) * ev + (P45 + E1) * es + E1 * (3 * V + Z.abs (S - 65536 * r)) + 4 * P45 * (65536 + 1) ->
  tmpl 0 35184372088832 201326616 33554436 10748579327783280312320 S' V' es' ev'.
Proof. unfold tmpl, P45, E1. intros. lia. Qed.
Lemma inv1ms_10s_x2_step_124 S V es ev r S' V' es' ev' :
  65536000000 <= S <= 655360000000000 -> 0 <= V <= 655360000000000 ->

  tmpl 35184372088832 0 167772180 0 3575128462191098855424 S V es ev ->
  tmpl 0 35184372088832 167772180 67108872 8572064083350197895168 S V es ev ->
  tmpl 0 35184372088832 201326616 67108872 6741615387513599295488 S V es ev ->
  tmpl 0 35184372088832 234881052 33554436 8511381444373658992640 S V es ev ->
  tmpl 0 35184372088832 268435488 33554436 6717307355331026747392 S V es ev ->
  1000000 <= r <= 10000000000 -> 0 <= es -> 0 <= ev ->
  8 * S' <= 7 * S + 65536 * r < 8 * S' + 8 ->
  4 * V' <= 3 * V + Z.abs (S - 65536 * r) < 4 * V' + 4 ->
  0 <= es' -> 8 * P45 * es' <= 7 * (P45 + E1) * es + E1 * (7 * S + 65536 * r) + 8 * P45 * (65536 + 1) ->
  0 <= ev' -> 4 * P45 * ev' <= 3 * (P45 + E1) * ev + (P45 + E1) * es + E1 * (3 * V + Z.abs (S - 65536 * r)) + 4 * P45 * (65536 + 1) ->
  tmpl 0 35184372088832 201326616 67108872 6741615387513599295488 S' V' es' ev'.
Proof. unfold tmpl, P45, E1. intros. lia. Qed.
Lemma inv1ms_10s_x2_step_125 S V es ev r S' V' es' ev' :
  65536000000 <= S <= 655360000000000 -> 0 <= V <= 655360000000000 ->

  tmpl 35184372088832 0 134217744 33554436 2323499913678736064512 S V es ev ->
  tmpl 35184372088832 0 150994962 33554436 1780830728266532519936 S V es ev ->
  tmpl 0 35184372088832 201326616 134217744 3058891721611971919872 S V es ev ->
  tmpl 0 35184372088832 268435488 67108872 4162739063649585856512 S V es ev ->
  1000000 <= r <= 10000000000 -> 0 <= es -> 0 <= ev ->
  8 * S' <= 7 * S + 65536 * r < 8 * S' + 8 ->
  4 * V' <= 3 * V + Z.abs (S - 65536 * r) < 4 * V' + 4 ->
  0 <= es' -> 8 * P45 * es' <= 7 * (P45 + E1) * es + E1 * (7 * S + 65536 * r) + 8 * P45 * (65536 + 1) ->
  0 <= ev' -> 4 * P45 * ev' <= 3 * (P45 + E1) * ev + (P45 + E1) * es + E1 * (3 * V + Z.abs (S - 65536 * r)) + 4 * P45 * (65536 + 1) ->
  tmpl 0 35184372088832 201326616 134217744 3058891721611971919872 S' V' es' ev'.
Proof. unfold tmpl, P45, E1. intros. lia. Qed.
Lemma inv1ms_10s_x2_step_126 S V es ev r S' V' es' ev' :
  65536000000 <= S <= 655360000000000 -> 0 <= V <= 655360000000000 ->

  tmpl 35184372088832 0 150994962 67108872 735349862692429103104 S V es ev ->
  tmpl 0 35184372088832 201326616 268435488 1226431088791035052032 S V es ev ->
  tmpl 0 35184372088832 268435488 134217744 1691416453083908538368 S V es ev ->
  tmpl 0 35184372088832 301989924 134217744 1372503024337711792128 S V es ev ->
  1000000 <= r <= 10000000000 -> 0 <= es -> 0 <= ev ->
  8 * S' <= 7 * S + 65536 * r < 8 * S' + 8 ->
  4 * V' <= 3 * V + Z.abs (S - 65536 * r) < 4 * V' + 4 ->
  0 <= es' -> 8 * P45 * es' <= 7 * (P45 + E1) * es + E1 * (7 * S + 65536 * r) + 8 * P45 * (65536 + 1) ->
  0 <= ev' -> 4 * P45 * ev' <= 3 * (P45 + E1) * ev + (P45 + E1) * es + E1 * (3 * V + Z.abs (S - 65536 * r)) + 4 * P45 * (65536 + 1) ->
  tmpl 0 35184372088832 201326616 268435488 1226431088791035052032 S' V' es' ev'.
Proof. unfold tmpl, P45, E1. intros. lia. Qed.
Lemma inv1ms_10s_x2_step_127 S V es ev r S' V' es' ev' :
  65536000000 <= S <= 655360000000000 -> 0 <= V <= 655360000000000 ->

  tmpl 0 0 16777218 (-8388609) (-820022133117572608) S V es ev ->
  tmpl 35184372088832 0 117440526 0 7587357747373541425152 S V es ev ->
  tmpl 35184372088832 0 134217744 0 5903629511765034795008 S V es ev ->
  tmpl 0 35184372088832 234881052 0 13512093834172975546368 S V es ev ->
  tmpl 0 35184372088832 268435488 0 10745156669513727475712 S V es ev ->
  tmpl 109951162777600000 439804755968012500 2199023255552 419430450000 219405188725302126182400000 S V es ev ->
  1000000 <= r <= 10000000000 -> 0 <= es -> 0 <= ev ->
  8 * S' <= 7 * S + 65536 * r < 8 * S' + 8 ->
  4 * V' <= 3 * V + Z.abs (S - 65536 * r) < 4 * V' + 4 ->
  0 <= es' -> 8 * P45 * es' <= 7 * (P45 + E1) * es + E1 * (7 * S + 65536 * r) + 8 * P45 * (65536 + 1) ->
  0 <= ev' -> 4 * P45 * ev' <= 3 * (P45 + E1) * ev + (P45 + E1) * es + E1 * (3 * V + Z.abs (S - 65536 * r)) + 4 * P45 * (65536 + 1) ->
  tmpl 0 35184372088832 234881052 0 13512093834172975546368 S' V' es' ev'.
Proof. unfold tmpl, P45, E1. intros. lia. Qed.
Lemma inv1ms_10s_x2_step_128 S V es ev r S' V' es' ev' :
  65536000000 <= S <= 655360000000000 -> 0 <= V <= 655360000000000 ->

  tmpl 35184372088832 0 150994962 0 4593880170878093754368 S V es ev ->
  tmpl 35184372088832 0 167772180 0 3575128462191098855424 S V es ev ->
  tmpl 0 35184372088832 201326616 33554436 10748579327783280312320 S V es ev ->
  tmpl 0 35184372088832 234881052 33554436 8511381444373658992640 S V es ev ->
  tmpl 0 35184372088832 301989924 0 8507952856795013185536 S V es ev ->
  tmpl 0 35184372088832 335544360 0 6713875803092041072640 S V es ev ->
  1000000 <= r <= 10000000000 -> 0 <= es -> 0 <= ev ->
  8 * S' <= 7 * S + 65536 * r < 8 * S' + 8 ->
  4 * V' <= 3 * V + Z.abs (S - 65536 * r) < 4 * V' + 4 ->
  0 <= es' -> 8 * P45 * es' <= 7 * (P45 + E1) * es + E1 * (7 * S + 65536 * r) + 8 * P45 * (65536 + 1) ->
  0 <= ev' -> 4 * P45 * ev' <= 3 * (P45 + E1) * ev + (P45 + E1) * es + E1 * (3 * V + Z.abs (S - 65536 * r)) + 4 * P45 * (65536 + 1) ->
  tmpl 0 35184372088832 234881052 33554436 8511381444373658992640 S' V' es' ev'.
Proof. unfold tmpl, P45, E1. intros. lia. Qed.
Lemma inv1ms_10s_x2_step_129 S V es ev r S' V' es' ev' :
  65536000000 <= S <= 655360000000000 -> 0 <= V <= 655360000000000 ->

  tmpl 35184372088832 0 184549398 0 2783008425064852881408 S V es ev ->
  tmpl 0 35184372088832 201326616 67108872 6741615387513599295488 S V es ev ->
  tmpl 0 35184372088832 234881052 67108872 5299191425168411983872 S V es ev ->
  tmpl 0 35184372088832 268435488 33554436 6717307355331026747392 S V es ev ->
  tmpl 0 35184372088832 301989924 33554436 5288128367431943979008 S V es ev ->
  1000000 <= r <= 10000000000 -> 0 <= es -> 0 <= ev ->
  8 * S' <= 7 * S + 65536 * r < 8 * S' + 8 ->
  4 * V' <= 3 * V + Z.abs (S - 65536 * r) < 4 * V' + 4 ->
  0 <= es' -> 8 * P45 * es' <= 7 * (P45 + E1) * es + E1 * (7 * S + 65536 * r) + 8 * P45 * (65536 + 1) ->
  0 <= ev' -> 4 * P45 * ev' <= 3 * (P45 + E1) * ev + (P45 + E1) * es + E1 * (3 * V + Z.abs (S - 65536 * r)) + 4 * P45 * (65536 + 1) ->
  tmpl 0 35184372088832 234881052 67108872 5299191425168411983872 S' V' es' ev'.
Proof. unfold tmpl, P45, E1. intros. lia. Qed.
Lemma inv1ms_10s_x2_step_130 S V es ev r S' V' es' ev' :
  65536000000 <= S <= 655360000000000 -> 0 <= V <= 655360000000000 ->

  tmpl 35184372088832 0 167772180 33554436 1376752832968567291904 S V es ev ->
  tmpl 0 35184372088832 234881052 134217744 2207448969058618703872 S V es ev ->
  tmpl 0 35184372088832 301989924 67108872 3270964748907857313792 S V es ev ->
  tmpl 0 35184372088832 335544360 67108872 2576716378115269984256 S V es ev ->
  1000000 <= r <= 10000000000 -> 0 <= es -> 0 <= ev ->
  8 * S' <= 7 * S + 65536 * r < 8 * S' + 8 ->
  4 * V' <= 3 * V + Z.abs (S - 65536 * r) < 4 * V' + 4 ->
  0 <= es' -> 8 * P45 * es' <= 7 * (P45 + E1) * es + E1 * (7 * S + 65536 * r) + 8 * P45 * (65536 + 1) ->
  0 <= ev' -> 4 * P45 * ev' <= 3 * (P45 + E1) * ev + (P45 + E1) * es + E1 * (3 * V + Z.abs (S - 65536 * r)) + 4 * P45 * (65536 + 1) ->
  tmpl 0 35184372088832 234881052 134217744 2207448969058618703872 S' V' es' ev'.
Proof. unfold tmpl, P45, E1. intros. lia. Qed.
Lemma inv1ms_10s_x2_step_131 S V es ev r S' V' es' ev' :
  65536000000 <= S <= 655360000000000 -> 0 <= V <= 655360000000000 ->

  tmpl 35184372088832 0 167772180 67108872 603025293721173491712 S V es ev ->
  tmpl 0 35184372088832 234881052 268435488 1006729719995359428608 S V es ev ->
  tmpl 0 35184372088832 301989924 134217744 1372503024337711792128 S V es ev ->
  tmpl 0 35184372088832 335544360 134217744 1157250093165089783808 S V es ev ->
  1000000 <= r <= 10000000000 -> 0 <= es -> 0 <= ev ->
  8 * S' <= 7 * S + 65536 * r < 8 * S' + 8 ->
  4 * V' <= 3 * V + Z.abs (S - 65536 * r) < 4 * V' + 4 ->
  0 <= es' -> 8 * P45 * es' <= 7 * (P45 + E1) * es + E1 * (7 * S + 65536 * r) + 8 * P45 * (65536 + 1) ->
  0 <= ev' -> 4 * P45 * ev' <= 3 * (P45 + E1) * ev + (P45 + E1) * es + E1 * (3 * V + Z.abs (S - 65536 * r)) + 4 * P45 * (65536 + 1) ->
  tmpl 0 35184372088832 234881052 268435488 1006729719995359428608 S' V' es' ev'.
Proof. unfold tmpl, P45, E1. intros. lia. Qed.
Lemma inv1ms_10s_x2_step_132 S V es ev r S' V' es' ev' :
  65536000000 <= S <= 655360000000000 -> 0 <= V <= 655360000000000 ->

  tmpl 0 0 16777218 (-8388609) (-820022133117572608) S V es ev ->
  tmpl 35184372088832 0 134217744 0 5903629511765034795008 S V es ev ->
  tmpl 35184372088832 0 150994962 0 4593880170878093754368 S V es ev ->
  tmpl 0 35184372088832 234881052 0 13512093834172975546368 S V es ev ->
  tmpl 0 35184372088832 268435488 0 10745156669513727475712 S V es ev ->
  tmpl 0 35184372088832 301989924 0 8507952856795013185536 S V es ev ->
  1000000 <= r <= 10000000000 -> 0 <= es -> 0 <= ev ->
  8 * S' <= 7 * S + 65536 * r < 8 * S' + 8 ->
  4 * V' <= 3 * V + Z.abs (S - 65536 * r) < 4 * V' + 4 ->
  0 <= es' -> 8 * P45 * es' <= 7 * (P45 + E1) * es + E1 * (7 * S + 65536 * r) + 8 * P45 * (65536 + 1) ->
  0 <= ev' -> 4 * P45 * ev' <= 3 * (P45 + E1) * ev + (P45 + E1) * es + E1 * (3 * V + Z.abs (S - 65536 * r)) + 4 * P45 * (65536 + 1) ->
  tmpl 0 35184372088832 268435488 0 10745156669513727475712 S' V' es' ev'.
Proof. unfold tmpl, P45, E1. intros. lia. Qed.
Lemma inv1ms_10s_x2_step_133 S V es ev r S' V' es' ev' :
  65536000000 <= S <= 655360000000000 -> 0 <= V <= 655360000000000 ->

  tmpl 35184372088832 0 167772180 0 3575128462191098855424 S V es ev ->
  tmpl 35184372088832 0 184549398 0 2783008425064852881408 S V es ev ->
  tmpl 0 35184372088832 234881052 33554436 8511381444373658992640 S V es ev ->
  tmpl 0 35184372088832 268435488 33554436 6717307355331026747392 S V es ev ->
  tmpl 0 35184372088832 301989924 33554436 5288128367431943979008 S V es ev ->
  tmpl 0 35184372088832 335544360 0 6713875803092041072640 S V es ev ->
  tmpl 0 35184372088832 369098796 0 5284695332859653652480 S V es ev ->
  1000000 <= r <= 10000000000 -> 0 <= es -> 0 <= ev ->
  8 * S' <= 7 * S + 65536 * r < 8 * S' + 8 ->
  4 * V' <= 3 * V + Z.abs (S - 65536 * r) < 4 * V' + 4 ->
  0 <= es' -> 8 * P45 * es' <= 7 * (P45 + E1) * es + E1 * (7 * S + 65536 * r) + 8 * P45 * (65536 + 1) ->
  0 <= ev' -> 4 * P45 * ev' <= 3 * (P45 + E1) * ev + (P45 + E1) * es + E1 * (3 * V + Z.abs (S - 65536 * r)) + 4 * P45 * (65536 + 1) ->
  tmpl 0 35184372088832 268435488 33554436 6717307355331026747392 S' V' es' ev'.
Proof. unfold tmpl, P45, E1. intros. lia. Qed.
Lemma inv1ms_10s_x2_step_134 S V es ev r S' V' es' ev' :
  65536000000 <= S <= 655360000000000 -> 0 <= V <= 655360000000000 ->

  tmpl 35184372088832 0 201326616 0 2167778142442430398464 S V es ev ->
  tmpl 35184372088832 0 218103834 0 1691237027911668858880 S V es ev ->
  tmpl 0 35184372088832 234881052 67108872 5299191425168411983872 S V es ev ->
  tmpl 0 35184372088832 268435488 67108872 4162739063649585856512 S V es ev ->
  tmpl 0 35184372088832 301989924 33554436 5288128367431943979008 S V es ev ->
  tmpl 0 35184372088832 335544360 33554436 4156503206407846756352 S V es ev ->
  1000000 <= r <= 10000000000 -> 0 <= es -> 0 <= ev ->
  8 * S' <= 7 * S + 65536 * r < 8 * S' + 8 ->
  4 * V' <= 3 * V + Z.abs (S - 65536 * r) < 4 * V' + 4 ->
  0 <= es' -> 8 * P45 * es' <= 7 * (P45 + E1) * es + E1 * (7 * S + 65536 * r) + 8 * P45 * (65536 + 1) ->
  0 <= ev' -> 4 * P45 * ev' <= 3 * (P45 + E1) * ev + (P45 + E1) * es + E1 * (3 * V + Z.abs (S - 65536 * r)) + 4 * P45 * (65536 + 1) ->
  tmpl 0 35184372088832 268435488 67108872 4162739063649585856512 S' V' es' ev'.
Proof. unfold tmpl, P45, E1. intros. lia. Qed.
Lemma inv1ms_10s_x2_step_135 S V es ev r S' V' es' ev' :
  65536000000 <= S <= 655360000000000 -> 0 <= V <= 655360000000000 ->

  tmpl 35184372088832 0 184549398 33554436 1076261479053444775936 S V es ev ->
  tmpl 0 35184372088832 234881052 134217744 2207448969058618703872 S V es ev ->
  tmpl 0 35184372088832 268435488 134217744 1691416453083908538368 S V es ev ->
  tmpl 0 35184372088832 369098796 67108872 2043356610824652455936 S V es ev ->
  1000000 <= r <= 10000000000 -> 0 <= es -> 0 <= ev ->
  8 * S' <= 7 * S + 65536 * r < 8 * S' + 8 ->
  4 * V' <= 3 * V + Z.abs (S - 65536 * r) < 4 * V' + 4 ->
  0 <= es' -> 8 * P45 * es' <= 7 * (P45 + E1) * es + E1 * (7 * S + 65536 * r) + 8 * P45 * (65536 + 1) ->
  0 <= ev' -> 4 * P45 * ev' <= 3 * (P45 + E1) * ev + (P45 + E1) * es + E1 * (3 * V + Z.abs (S - 65536 * r)) + 4 * P45 * (65536 + 1) ->
  tmpl 0 35184372088832 268435488 134217744 1691416453083908538368 S' V' es' ev'.
Proof. unfold tmpl, P45, E1. intros. lia. Qed.
Lemma inv1ms_10s_x2_step_136 S V es ev r S' V' es' ev' :
  65536000000 <= S <= 655360000000000 -> 0 <= V <= 655360000000000 ->

  tmpl 0 0 16777218 (-8388609) (-820022133117572608) S V es ev ->
  tmpl 35184372088832 0 150994962 0 4593880170878093754368 S V es ev ->
  tmpl 35184372088832 0 167772180 0 3575128462191098855424 S V es ev ->
  tmpl 0 35184372088832 268435488 0 10745156669513727475712 S V es ev ->
  tmpl 0 35184372088832 301989924 0 8507952856795013185536 S V es ev ->
  tmpl 0 35184372088832 335544360 0 6713875803092041072640 S V es ev ->
  1000000 <= r <= 10000000000 -> 0 <= es -> 0 <= ev ->
  8 * S' <= 7 * S + 65536 * r < 8 * S' + 8 ->
  4 * V' <= 3 * V + Z.abs (S - 65536 * r) < 4 * V' + 4 ->
  0 <= es' -> 8 * P45 * es' <= 7 * (P45 + E1) * es + E1 * (7 * S + 65536 * r) + 8 * P45 * (65536 + 1) ->
  0 <= ev' -> 4 * P45 * ev' <= 3 * (P45 + E1) * ev + (P45 + E1) * es + E1 * (3 * V + Z.abs (S - 65536 * r)) + 4 * P45 * (65536 + 1) ->
  tmpl 0 35184372088832 301989924 0 8507952856795013185536 S' V' es' ev'.
Proof. unfold tmpl, P45, E1. intros. lia. Qed.
Lemma inv1ms_10s_x2_step_137 S V es ev r S' V' es' ev' :
  65536000000 <= S <= 655360000000000 -> 0 <= V <= 655360000000000 ->

  tmpl 35184372088832 0 184549398 0 2783008425064852881408 S V es ev ->
  tmpl 35184372088832 0 201326616 0 2167778142442430398464 S V es ev ->
  tmpl 0 35184372088832 268435488 33554436 6717307355331026747392 S V es ev ->
  tmpl 0 35184372088832 301989924 33554436 5288128367431943979008 S V es ev ->
  tmpl 0 35184372088832 335544360 33554436 4156503206407846756352 S V es ev ->
  tmpl 0 35184372088832 369098796 0 5284695332859653652480 S V es ev ->
  tmpl 0 35184372088832 402653232 0 4153069430667144069120 S V es ev ->
  1000000 <= r <= 10000000000 -> 0 <= es -> 0 <= ev ->
  8 * S' <= 7 * S + 65536 * r < 8 * S' + 8 ->
  4 * V' <= 3 * V + Z.abs (S - 65536 * r) < 4 * V' + 4 ->
  0 <= es' -> 8 * P45 * es' <= 7 * (P45 + E1) * es + E1 * (7 * S + 65536 * r) + 8 * P45 * (65536 + 1) ->
  0 <= ev' -> 4 * P45 * ev' <= 3 * (P45 + E1) * ev + (P45 + E1) * es + E1 * (3 * V + Z.abs (S - 65536 * r)) + 4 * P45 * (65536 + 1) ->
  tmpl 0 35184372088832 301989924 33554436 5288128367431943979008 S' V' es' ev'.
Proof. unfold tmpl, P45, E1. intros. lia. Qed.
Lemma inv1ms_10s_x2_step_138 S V es ev r S' V' es' ev' :
  65536000000 <= S <= 655360000000000 -> 0 <= V <= 655360000000000 ->

  tmpl 35184372088832 0 218103834 0 1691237027911668858880 S V es ev ->
  tmpl 35184372088832 0 234881052 0 1324270201534905581568 S V es ev ->
  tmpl 0 35184372088832 268435488 67108872 4162739063649585856512 S V es ev ->
  tmpl 0 35184372088832 301989924 67108872 3270964748907857313792 S V es ev ->
  tmpl 0 35184372088832 335544360 33554436 4156503206407846756352 S V es ev ->
  tmpl 0 35184372088832 335544360 67108872 2576716378115269984256 S V es ev ->
  tmpl 0 35184372088832 369098796 33554436 3266490901349830492160 S V es ev ->
  1000000 <= r <= 10000000000 -> 0 <= es -> 0 <= ev ->
  8 * S' <= 7 * S + 65536 * r < 8 * S' + 8 ->
  4 * V' <= 3 * V + Z.abs (S - 65536 * r) < 4 * V' + 4 ->
  0 <= es' -> 8 * P45 * es' <= 7 * (P45 + E1) * es + E1 * (7 * S + 65536 * r) + 8 * P45 * (65536 + 1) ->
  0 <= ev' -> 4 * P45 * ev' <= 3 * (P45 + E1) * ev + (P45 + E1) * es + E1 * (3 * V + Z.abs (S - 65536 * r)) + 4 * P45 * (65536 + 1) ->
  tmpl 0 35184372088832 301989924 67108872 3270964748907857313792 S' V' es' ev'.
Proof. unfold tmpl, P45, E1. intros. lia. Qed.
Lemma inv1ms_10s_x2_step_139 S V es ev r S' V' es' ev' :
  65536000000 <= S <= 655360000000000 -> 0 <= V <= 655360000000000 ->

  tmpl 35184372088832 0 201326616 33554436 855284050725237293056 S V es ev ->
  tmpl 35184372088832 0 218103834 33554436 696408726767139946496 S V es ev ->
  tmpl 0 35184372088832 268435488 134217744 1691416453083908538368 S V es ev ->
  tmpl 0 35184372088832 301989924 134217744 1372503024337711792128 S V es ev ->
  tmpl 0 35184372088832 402653232 67108872 1641950594748472098816 S V es ev ->
  1000000 <= r <= 10000000000 -> 0 <= es -> 0 <= ev ->
  8 * S' <= 7 * S + 65536 * r < 8 * S' + 8 ->
  4 * V' <= 3 * V + Z.abs (S - 65536 * r) < 4 * V' + 4 ->
  0 <= es' -> 8 * P45 * es' <= 7 * (P45 + E1) * es + E1 * (7 * S + 65536 * r) + 8 * P45 * (65536 + 1) ->
  0 <= ev' -> 4 * P45 * ev' <= 3 * (P45 + E1) * ev + (P45 + E1) * es + E1 * (3 * V + Z.abs (S - 65536 * r)) + 4 * P45 * (65536 + 1) ->
  tmpl 0 35184372088832 301989924 134217744 1372503024337711792128 S' V' es' ev'.
Proof. unfold tmpl, P45, E1. intros. lia. Qed.
Lemma inv1ms_10s_x2_step_140 S V es ev r S' V' es' ev' :
  65536000000 <= S <= 655360000000000 -> 0 <= V <= 655360000000000 ->

  tmpl 0 0 16777218 (-8388609) (-820022133117572608) S V es ev ->
  tmpl 35184372088832 0 167772180 0 3575128462191098855424 S V es ev ->
  tmpl 35184372088832 0 184549398 0 2783008425064852881408 S V es ev ->
  tmpl 0 35184372088832 301989924 0 8507952856795013185536 S V es ev ->
  tmpl 0 35184372088832 335544360 0 6713875803092041072640 S V es ev ->
  tmpl 0 35184372088832 369098796 0 5284695332859653652480 S V es ev ->
  1000000 <= r <= 10000000000 -> 0 <= es -> 0 <= ev ->
  8 * S' <= 7 * S + 65536 * r < 8 * S' + 8 ->
  4 * V' <= 3 * V + Z.abs (S - 65536 * r) < 4 * V' + 4 ->
  0 <= es' -> 8 * P45 * es' <= 7 * (P45 + E1) * es + E1 * (7 * S + 65536 * r) + 8 * P45 * (65536 + 1) ->
  0 <= ev' -> 4 * P45 * ev' <= 3 * (P45 + E1) * ev + (P45 + E1) * es + E1 * (3 * V + Z.abs (S - 65536 * r)) + 4 * P45 * (65536 + 1) ->
  tmpl 0 35184372088832 335544360 0 6713875803092041072640 S' V' es' ev'.
Proof. unfold tmpl, P45, E1. intros. lia. Qed.
Lemma inv1ms_10s_x2_step_141 S V es ev r S' V' es' ev' :
  65536000000 <= S <= 655360000000000 -> 0 <= V <= 655360000000000 ->

  tmpl 35184372088832 0 201326616 0 2167778142442430398464 S V es ev ->
  tmpl 35184372088832 0 218103834 0 1691237027911668858880 S V es ev ->
  tmpl 0 35184372088832 301989924 33554436 5288128367431943979008 S V es ev ->
  tmpl 0 35184372088832 335544360 33554436 4156503206407846756352 S V es ev ->
  tmpl 0 35184372088832 369098796 33554436 3266490901349830492160 S V es ev ->
  tmpl 0 35184372088832 402653232 0 4153069430667144069120 S V es ev ->
  tmpl 0 35184372088832 436207668 0 3263056755023946448896 S V es ev ->
  1000000 <= r <= 10000000000 -> 0 <= es -> 0 <= ev ->
  8 * S' <= 7 * S + 65536 * r < 8 * S' + 8 ->
  4 * V' <= 3 * V + Z.abs (S - 65536 * r) < 4 * V' + 4 ->
  0 <= es' -> 8 * P45 * es' <= 7 * (P45 + E1) * es + E1 * (7 * S + 65536 * r) + 8 * P45 * (65536 + 1) ->
  0 <= ev' -> 4 * P45 * ev' <= 3 * (P45 + E1) * ev + (P45 + E1) * es + E1 * (3 * V + Z.abs (S - 65536 * r)) + 4 * P45 * (65536 + 1) ->
  tmpl 0 35184372088832 335544360 33554436 4156503206407846756352 S' V' es' ev'.
Proof. unfold tmpl, P45, E1. intros. lia. Qed.
Lemma inv1ms_10s_x2_step_142 S V es ev r S' V' es' ev' :
  65536000000 <= S <= 655360000000000 -> 0 <= V <= 655360000000000 ->

  tmpl 35184372088832 0 234881052 0 1324270201534905581568 S V es ev ->
  tmpl 35184372088832 0 251658270 0 1044768569007752609792 S V es ev ->
  tmpl 0 35184372088832 301989924 67108872 3270964748907857313792 S V es ev ->
  tmpl 0 35184372088832 335544360 67108872 2576716378115269984256 S V es ev ->
  tmpl 0 35184372088832 369098796 33554436 3266490901349830492160 S V es ev ->
  tmpl 0 35184372088832 369098796 67108872 2043356610824652455936 S V es ev ->
  tmpl 0 35184372088832 402653232 33554436 2572887351160434327552 S V es ev ->
  1000000 <= r <= 10000000000 -> 0 <= es -> 0 <= ev ->
  8 * S' <= 7 * S + 65536 * r < 8 * S' + 8 ->
  4 * V' <= 3 * V + Z.abs (S - 65536 * r) < 4 * V' + 4 ->
  0 <= es' -> 8 * P45 * es' <= 7 * (P45 + E1) * es + E1 * (7 * S + 65536 * r) + 8 * P45 * (65536 + 1) ->
  0 <= ev' -> 4 * P45 * ev' <= 3 * (P45 + E1) * ev + (P45 + E1) * es + E1 * (3 * V + Z.abs (S - 65536 * r)) + 4 * P45 * (65536 + 1) ->
  tmpl 0 35184372088832 335544360 67108872 2576716378115269984256 S' V' es' ev'.
Proof. unfold tmpl, P45, E1. intros. lia. Qed.
Lemma inv1ms_10s_x2_step_143 S V es ev r S' V' es' ev' :
  65536000000 <= S <= 655360000000000 -> 0 <= V <= 655360000000000 ->

  tmpl 35184372088832 0 234881052 33554436 586078435578727170048 S V es ev ->
  tmpl 35184372088832 0 301989924 0 577303779024326361088 S V es ev ->
  tmpl 0 35184372088832 301989924 134217744 1372503024337711792128 S V es ev ->
  tmpl 0 35184372088832 335544360 134217744 1157250093165089783808 S V es ev ->
  tmpl 0 35184372088832 436207668 67108872 1348719678551826628608 S V es ev ->
  1000000 <= r <= 10000000000 -> 0 <= es -> 0 <= ev ->
  8 * S' <= 7 * S + 65536 * r < 8 * S' + 8 ->
  4 * V' <= 3 * V + Z.abs (S - 65536 * r) < 4 * V' + 4 ->
  0 <= es' -> 8 * P45 * es' <= 7 * (P45 + E1) * es + E1 * (7 * S + 65536 * r) + 8 * P45 * (65536 + 1) ->
  0 <= ev' -> 4 * P45 * ev' <= 3 * (P45 + E1) * ev + (P45 + E1) * es + E1 * (3 * V + Z.abs (S - 65536 * r)) + 4 * P45 * (65536 + 1) ->
  tmpl 0 35184372088832 335544360 134217744 1157250093165089783808 S' V' es' ev'.
Proof. unfold tmpl, P45, E1. intros. lia. Qed.
Lemma inv1ms_10s_x2_step_144 S V es ev r S' V' es' ev' :
  65536000000 <= S <= 655360000000000 -> 0 <= V <= 655360000000000 ->

  tmpl 0 0 16777218 (-8388609) (-820022133117572608) S V es ev ->
  tmpl 35184372088832 0 184549398 0 2783008425064852881408 S V es ev ->
  tmpl 35184372088832 0 201326616 0 2167778142442430398464 S V es ev ->
  tmpl 35184372088832 0 218103834 0 1691237027911668858880 S V es ev ->
  tmpl 0 35184372088832 335544360 0 6713875803092041072640 S V es ev ->
  tmpl 0 35184372088832 369098796 0 5284695332859653652480 S V es ev ->
  tmpl 0 35184372088832 402653232 0 4153069430667144069120 S V es ev ->
  1000000 <= r <= 10000000000 -> 0 <= es -> 0 <= ev ->
  8 * S' <= 7 * S + 65536 * r < 8 * S' + 8 ->
  4 * V' <= 3 * V + Z.abs (S - 65536 * r) < 4 * V' + 4 ->
  0 <= es' -> 8 * P45 * es' <= 7 * (P45 + E1) * es + E1 * (7 * S + 65536 * r) + 8 * P45 * (65536 + 1) ->
  0 <= ev' -> 4 * P45 * ev' <= 3 * (P45 + E1) * ev + (P45 + E1) * es + E1 * (3 * V + Z.abs (S - 65536 * r)) + 4 * P45 * (65536 + 1) ->
  tmpl 0 35184372088832 369098796 0 5284695332859653652480 S' V' es' ev'.
Proof. unfold tmpl, P45, E1. intros. lia. Qed.
Lemma inv1ms_10s_x2_step_145 S V es ev r S' V' es' ev' :
  65536000000 <= S <= 655360000000000 -> 0 <= V <= 655360000000000 ->

  tmpl 35184372088832 0 218103834 0 1691237027911668858880 S V es ev ->
  tmpl 35184372088832 0 234881052 0 1324270201534905581568 S V es ev ->
  tmpl 0 35184372088832 335544360 33554436 4156503206407846756352 S V es ev ->
  tmpl 0 35184372088832 369098796 33554436 3266490901349830492160 S V es ev ->
  tmpl 0 35184372088832 402653232 33554436 2572887351160434327552 S V es ev ->
  tmpl 0 35184372088832 436207668 0 3263056755023946448896 S V es ev ->
  tmpl 0 35184372088832 469762104 0 2569453019541424046080 S V es ev ->
  1000000 <= r <= 10000000000 -> 0 <= es -> 0 <= ev ->
  8 * S' <= 7 * S + 65536 * r < 8 * S' + 8 ->
  4 * V' <= 3 * V + Z.abs (S - 65536 * r) < 4 * V' + 4 ->
  0 <= es' -> 8 * P45 * es' <= 7 * (P45 + E1) * es + E1 * (7 * S + 65536 * r) + 8 * P45 * (65536 + 1) ->
  0 <= ev' -> 4 * P45 * ev' <= 3 * (P45 + E1) * ev + (P45 + E1) * es + E1 * (3 * V + Z.abs (S - 65536 * r)) + 4 * P45 * (65536 + 1) ->
  tmpl 0 35184372088832 369098796 33554436 3266490901349830492160 S' V' es' ev'.
Proof. unfold tmpl, P45, E1. intros. lia. Qed.
Lemma inv1ms_10s_x2_step_146 S V es ev r S' V' es' ev' :
  65536000000 <= S <= 655360000000000 -> 0 <= V <= 655360000000000 ->

  tmpl 35184372088832 0 251658270 0 1044768569007752609792 S V es ev ->
  tmpl 35184372088832 0 268435488 0 835760252043128864768 S V es ev ->
  tmpl 0 35184372088832 335544360 67108872 2576716378115269984256 S V es ev ->
  tmpl 0 35184372088832 369098796 67108872 2043356610824652455936 S V es ev ->
  tmpl 0 35184372088832 402653232 33554436 2572887351160434327552 S V es ev ->
  tmpl 0 35184372088832 402653232 67108872 1641950594748472098816 S V es ev ->
  tmpl 0 35184372088832 436207668 33554436 2039764515168200687616 S V es ev ->
  1000000 <= r <= 10000000000 -> 0 <= es -> 0 <= ev ->
  8 * S' <= 7 * S + 65536 * r < 8 * S' + 8 ->
  4 * V' <= 3 * V + Z.abs (S - 65536 * r) < 4 * V' + 4 ->
  0 <= es' -> 8 * P45 * es' <= 7 * (P45 + E1) * es + E1 * (7 * S + 65536 * r) + 8 * P45 * (65536 + 1) ->
  0 <= ev' -> 4 * P45 * ev' <= 3 * (P45 + E1) * ev + (P45 + E1) * es + E1 * (3 * V + Z.abs (S - 65536 * r)) + 4 * P45 * (65536 + 1) ->
  tmpl 0 35184372088832 369098796 67108872 2043356610824652455936 S' V' es' ev'.
Proof. unfold tmpl, P45, E1. intros. lia. Qed.
Lemma inv1ms_10s_x2_step_147 S V es ev r S' V' es' ev' :
  65536000000 <= S <= 655360000000000 -> 0 <= V <= 655360000000000 ->

  tmpl 0 0 16777218 (-8388609) (-820022133117572608) S V es ev ->
  tmpl 35184372088832 0 201326616 0 2167778142442430398464 S V es ev ->
  tmpl 35184372088832 0 234881052 0 1324270201534905581568 S V es ev ->
  tmpl 0 35184372088832 369098796 0 5284695332859653652480 S V es ev ->
  tmpl 0 35184372088832 402653232 0 4153069430667144069120 S V es ev ->
  tmpl 0 35184372088832 436207668 0 3263056755023946448896 S V es ev ->
  tmpl 0 35184372088832 469762104 0 2569453019541424046080 S V es ev ->
  1000000 <= r <= 10000000000 -> 0 <= es -> 0 <= ev ->
  8 * S' <= 7 * S + 65536 * r < 8 * S' + 8 ->
  4 * V' <= 3 * V + Z.abs (S - 65536 * r) < 4 * V' + 4 ->
  0 <= es' -> 8 * P45 * es' <= 7 * (P45 + E1) * es + E1 * (7 * S + 65536 * r) + 8 * P45 * (65536 + 1) ->
  0 <= ev' -> 4 * P45 * ev' <= 3 * (P45 + E1) * ev + (P45 + E1) * es + E1 * (3 * V + Z.abs (S - 65536 * r)) + 4 * P45 * (65536 + 1) ->
  tmpl 0 35184372088832 402653232 0 4153069430667144069120 S' V' es' ev'.
Proof. unfold tmpl, P45, E1. intros. lia. Qed.
Lemma inv1ms_10s_x2_step_148 S V es ev r S' V' es' ev' :
  65536000000 <= S <= 655360000000000 -> 0 <= V <= 655360000000000 ->

  tmpl 35184372088832 0 234881052 0 1324270201534905581568 S V es ev ->
  tmpl 35184372088832 0 251658270 0 1044768569007752609792 S V es ev ->
  tmpl 0 35184372088832 369098796 33554436 3266490901349830492160 S V es ev ->
  tmpl 0 35184372088832 402653232 33554436 2572887351160434327552 S V es ev ->
  tmpl 0 35184372088832 436207668 33554436 2039764515168200687616 S V es ev ->
  tmpl 0 35184372088832 469762104 0 2569453019541424046080 S V es ev ->
  tmpl 0 35184372088832 503316540 0 2036330090902336569344 S V es ev ->
  1000000 <= r <= 10000000000 -> 0 <= es -> 0 <= ev ->
  8 * S' <= 7 * S + 65536 * r < 8 * S' + 8 ->
  4 * V' <= 3 * V + Z.abs (S - 65536 * r) < 4 * V' + 4 ->
  0 <= es' -> 8 * P45 * es' <= 7 * (P45 + E1) * es + E1 * (7 * S + 65536 * r) + 8 * P45 * (65536 + 1) ->
  0 <= ev' -> 4 * P45 * ev' <= 3 * (P45 + E1) * ev + (P45 + E1) * es + E1 * (3 * V + Z.abs (S - 65536 * r)) + 4 * P45 * (65536 + 1) ->
  tmpl 0 35184372088832 402653232 33554436 2572887351160434327552 S' V' es' ev'.
Proof. unfold tmpl, P45, E1. intros. lia. Qed.
Lemma inv1ms_10s_x2_step_149 S V es ev r S' V' es' ev' :
  65536000000 <= S <= 655360000000000 -> 0 <= V <= 655360000000000 ->

  tmpl 35184372088832 0 268435488 0 835760252043128864768 S V es ev ->
  tmpl 35184372088832 0 285212706 0 683736837848755732480 S V es ev ->
  tmpl 0 35184372088832 369098796 67108872 2043356610824652455936 S V es ev ->
  tmpl 0 35184372088832 402653232 67108872 1641950594748472098816 S V es ev ->
  tmpl 0 35184372088832 436207668 33554436 2039764515168200687616 S V es ev ->
  tmpl 0 35184372088832 436207668 67108872 1348719678551826628608 S V es ev ->
  tmpl 0 35184372088832 469762104 33554436 1638446046081448935424 S V es ev ->
  1000000 <= r <= 10000000000 -> 0 <= es -> 0 <= ev ->
  8 * S' <= 7 * S + 65536 * r < 8 * S' + 8 ->
  4 * V' <= 3 * V + Z.abs (S - 65536 * r) < 4 * V' + 4 ->
  0 <= es' -> 8 * P45 * es' <= 7 * (P45 + E1) * es + E1 * (7 * S + 65536 * r) + 8 * P45 * (65536 + 1) ->
  0 <= ev' -> 4 * P45 * ev' <= 3 * (P45 + E1) * ev + (P45 + E1) * es + E1 * (3 * V + Z.abs (S - 65536 * r)) + 4 * P45 * (65536 + 1) ->
  tmpl 0 35184372088832 402653232 67108872 1641950594748472098816 S' V' es' ev'.
Proof. unfold tmpl, P45, E1. intros. lia. Qed.
Lemma inv1ms_10s_x2_step_150 S V es ev r S' V' es' ev' :
  65536000000 <= S <= 655360000000000 -> 0 <= V <= 655360000000000 ->

  tmpl 0 0 16777218 (-8388609) (-820022133117572608) S V es ev ->
  tmpl 35184372088832 0 218103834 0 1691237027911668858880 S V es ev ->
  tmpl 35184372088832 0 251658270 0 1044768569007752609792 S V es ev ->
  tmpl 0 35184372088832 402653232 0 4153069430667144069120 S V es ev ->
  tmpl 0 35184372088832 436207668 0 3263056755023946448896 S V es ev ->
  tmpl 0 35184372088832 469762104 0 2569453019541424046080 S V es ev ->
  tmpl 0 35184372088832 503316540 0 2036330090902336569344 S V es ev ->
  1000000 <= r <= 10000000000 -> 0 <= es -> 0 <= ev ->
  8 * S' <= 7 * S + 65536 * r < 8 * S' + 8 ->
  4 * V' <= 3 * V + Z.abs (S - 65536 * r) < 4 * V' + 4 ->
  0 <= es' -> 8 * P45 * es' <= 7 * (P45 + E1) * es + E1 * (7 * S + 65536 * r) + 8 * P45 * (65536 + 1) ->
  0 <= ev' -> 4 * P45 * ev' <= 3 * (P45 + E1) * ev + (P45 + E1) * es + E1 * (3 * V + Z.abs (S - 65536 * r)) + 4 * P45 * (65536 + 1) ->
  tmpl 0 35184372088832 436207668 0 3263056755023946448896 S' V' es' ev'.
Proof. unfold tmpl, P45, E1. intros. lia. Qed.
Lemma inv1ms_10s_x2_step_151 S V es ev r S' V' es' ev' :
  65536000000 <= S <= 655360000000000 -> 0 <= V <= 655360000000000 ->

  tmpl 35184372088832 0 251658270 0 1044768569007752609792 S V es ev ->
  tmpl 35184372088832 0 268435488 0 835760252043128864768 S V es ev ->
  tmpl 35184372088832 0 285212706 0 683736837848755732480 S V es ev ->
  tmpl 0 35184372088832 402653232 33554436 2572887351160434327552 S V es ev ->
  tmpl 0 35184372088832 436207668 33554436 2039764515168200687616 S V es ev ->
  tmpl 0 35184372088832 469762104 33554436 1638446046081448935424 S V es ev ->
  tmpl 0 35184372088832 503316540 0 2036330090902336569344 S V es ev ->
  tmpl 0 35184372088832 536870976 0 1635011575492014505984 S V es ev ->
  1000000 <= r <= 10000000000 -> 0 <= es -> 0 <= ev ->
  8 * S' <= 7 * S + 65536 * r < 8 * S' + 8 ->
  4 * V' <= 3 * V + Z.abs (S - 65536 * r) < 4 * V' + 4 ->
  0 <= es' -> 8 * P45 * es' <= 7 * (P45 + E1) * es + E1 * (7 * S + 65536 * r) + 8 * P45 * (65536 + 1) ->
  0 <= ev' -> 4 * P45 * ev' <= 3 * (P45 + E1) * ev + (P45 + E1) * es + E1 * (3 * V + Z.abs (S - 65536 * r)) + 4 * P45 * (65536 + 1) ->
  tmpl 0 35184372088832 436207668 33554436 2039764515168200687616 S' V' es' ev'.
Proof. unfold tmpl, P45, E1. intros. lia. Qed.
Lemma inv1ms_10s_x2_step_152 S V es ev r S' V' es' ev' :
  65536000000 <= S <= 655360000000000 -> 0 <= V <= 655360000000000 ->

  tmpl 35184372088832 0 285212706 0 683736837848755732480 S V es ev ->
  tmpl 35184372088832 0 301989924 0 577303779024326361088 S V es ev ->
  tmpl 0 35184372088832 402653232 67108872 1641950594748472098816 S V es ev ->
  tmpl 0 35184372088832 436207668 67108872 1348719678551826628608 S V es ev ->
  tmpl 0 35184372088832 469762104 33554436 1638446046081448935424 S V es ev ->
  tmpl 0 35184372088832 469762104 67108872 1142934107786652024832 S V es ev ->
  tmpl 0 35184372088832 503316540 33554436 1345247683212672237568 S V es ev ->
  tmpl 0 35184372088832 536870976 33554436 1139474271035213611008 S V es ev ->
  1000000 <= r <= 10000000000 -> 0 <= es -> 0 <= ev ->
  8 * S' <= 7 * S + 65536 * r < 8 * S' + 8 ->
  4 * V' <= 3 * V + Z.abs (S - 65536 * r) < 4 * V' + 4 ->
  0 <= es' -> 8 * P45 * es' <= 7 * (P45 + E1) * es + E1 * (7 * S + 65536 * r) + 8 * P45 * (65536 + 1) ->
  0 <= ev' -> 4 * P45 * ev' <= 3 * (P45 + E1) * ev + (P45 + E1) * es + E1 * (3 * V + Z.abs (S - 65536 * r)) + 4 * P45 * (65536 + 1) ->
  tmpl 0 35184372088832 436207668 67108872 1348719678551826628608 S' V' es' ev'.
Proof. unfold tmpl, P45, E1. intros. lia. Qed.
Lemma inv1ms_10s_x2_step_153 S V es ev r S' V' es' ev' :
  65536000000 <= S <= 655360000000000 -> 0 <= V <= 655360000000000 ->

  tmpl 0 0 16777218 (-8388609) (-820022133117572608) S V es ev ->
  tmpl 35184372088832 0 234881052 0 1324270201534905581568 S V es ev ->
  tmpl 35184372088832 0 268435488 0 835760252043128864768 S V es ev ->
  tmpl 0 35184372088832 436207668 0 3263056755023946448896 S V es ev ->
  tmpl 0 35184372088832 469762104 0 2569453019541424046080 S V es ev ->
  tmpl 0 35184372088832 503316540 0 2036330090902336569344 S V es ev ->
  tmpl 0 35184372088832 536870976 0 1635011575492014505984 S V es ev ->
  1000000 <= r <= 10000000000 -> 0 <= es -> 0 <= ev ->
  8 * S' <= 7 * S + 65536 * r < 8 * S' + 8 ->
  4 * V' <= 3 * V + Z.abs (S - 65536 * r) < 4 * V' + 4 ->
  0 <= es' -> 8 * P45 * es' <= 7 * (P45 + E1) * es + E1 * (7 * S + 65536 * r) + 8 * P45 * (65536 + 1) ->
  0 <= ev' -> 4 * P45 * ev' <= 3 * (P45 + E1) * ev + (P45 + E1) * es + E1 * (3 * V + Z.abs (S - 65536 * r)) + 4 * P45 * (65536 + 1) ->
  tmpl 0 35184372088832 469762104 0 2569453019541424046080 S' V' es' ev'.
Proof. unfold tmpl, P45, E1. intros. lia. Qed.
Lemma inv1ms_10s_x2_step_154 S V es ev r S' V' es' ev' :
  65536000000 <= S <= 655360000000000 -> 0 <= V <= 655360000000000 ->

  tmpl 35184372088832 0 268435488 0 835760252043128864768 S V es ev ->
  tmpl 35184372088832 0 301989924 0 577303779024326361088 S V es ev ->
  tmpl 0 35184372088832 436207668 33554436 2039764515168200687616 S V es ev ->
  tmpl 0 35184372088832 469762104 33554436 1638446046081448935424 S V es ev ->
  tmpl 0 35184372088832 503316540 33554436 1345247683212672237568 S V es ev ->
  tmpl 0 35184372088832 536870976 0 1635011575492014505984 S V es ev ->
  tmpl 0 35184372088832 570425412 0 1341813189461365227520 S V es ev ->
  tmpl 0 35184372088832 603979848 0 1136039765702902677504 S V es ev ->
  1000000 <= r <= 10000000000 -> 0 <= es -> 0 <= ev ->
  8 * S' <= 7 * S + 65536 * r < 8 * S' + 8 ->
  4 * V' <= 3 * V + Z.abs (S - 65536 * r) < 4 * V' + 4 ->
  0 <= es' -> 8 * P45 * es' <= 7 * (P45 + E1) * es + E1 * (7 * S + 65536 * r) + 8 * P45 * (65536 + 1) ->
  0 <= ev' -> 4 * P45 * ev' <= 3 * (P45 + E1) * ev + (P45 + E1) * es + E1 * (3 * V + Z.abs (S - 65536 * r)) + 4 * P45 * (65536 + 1) ->
  tmpl 0 35184372088832 469762104 33554436 1638446046081448935424 S' V' es' ev'.
Proof. unfold tmpl, P45, E1. intros. lia. Qed.
Lemma inv1ms_10s_x2_step_155 S V es ev r S' V' es' ev' :
  65536000000 <= S <= 655360000000000 -> 0 <= V <= 655360000000000 ->

  tmpl 35184372088832 0 301989924 0 577303779024326361088 S V es ev ->
  tmpl 35184372088832 0 318767142 0 506330039654348357632 S V es ev ->
  tmpl 0 35184372088832 436207668 67108872 1348719678551826628608 S V es ev ->
  tmpl 0 35184372088832 469762104 67108872 1142934107786652024832 S V es ev ->
  tmpl 0 35184372088832 503316540 33554436 1345247683212672237568 S V es ev ->
  tmpl 0 35184372088832 503316540 67108872 1005627011641852559360 S V es ev ->
  tmpl 0 35184372088832 536870976 33554436 1139474271035213611008 S V es ev ->
  tmpl 0 35184372088832 570425412 33554436 1002171708927130861568 S V es ev ->
  1000000 <= r <= 10000000000 -> 0 <= es -> 0 <= ev ->
  8 * S' <= 7 * S + 65536 * r < 8 * S' + 8 ->
  4 * V' <= 3 * V + Z.abs (S - 65536 * r) < 4 * V' + 4 ->
  0 <= es' -> 8 * P45 * es' <= 7 * (P45 + E1) * es + E1 * (7 * S + 65536 * r) + 8 * P45 * (65536 + 1) ->
  0 <= ev' -> 4 * P45 * ev' <= 3 * (P45 + E1) * ev + (P45 + E1) * es + E1 * (3 * V + Z.abs (S - 65536 * r)) + 4 * P45 * (65536 + 1) ->
  tmpl 0 35184372088832 469762104 67108872 1142934107786652024832 S' V' es' ev'.
Proof. unfold tmpl, P45, E1. intros. lia. Qed.
Lemma inv1ms_10s_x2_step_156 S V es ev r S' V' es' ev' :
  65536000000 <= S <= 655360000000000 -> 0 <= V <= 655360000000000 ->

  tmpl 0 0 16777218 (-8388609) (-820022133117572608) S V es ev ->
  tmpl 35184372088832 0 251658270 0 1044768569007752609792 S V es ev ->
  tmpl 35184372088832 0 285212706 0 683736837848755732480 S V es ev ->
  tmpl 0 35184372088832 469762104 0 2569453019541424046080 S V es ev ->
  tmpl 0 35184372088832 503316540 0 2036330090902336569344 S V es ev ->
  tmpl 0 35184372088832 536870976 0 1635011575492014505984 S V es ev ->
  tmpl 0 35184372088832 570425412 0 1341813189461365227520 S V es ev ->
  1000000 <= r <= 10000000000 -> 0 <= es -> 0 <= ev ->
  8 * S' <= 7 * S + 65536 * r < 8 * S' + 8 ->
  4 * V' <= 3 * V + Z.abs (S - 65536 * r) < 4 * V' + 4 ->
  0 <= es' -> 8 * P45 * es' <= 7 * (P45 + E1) * es + E1 * (7 * S + 65536 * r) + 8 * P45 * (65536 + 1) ->
  0 <= ev' -> 4 * P45 * ev' <= 3 * (P45 + E1) * ev + (P45 + E1) * es + E1 * (3 * V + Z.abs (S - 65536 * r)) + 4 * P45 * (65536 + 1) ->
  tmpl 0 35184372088832 503316540 0 2036330090902336569344 S' V' es' ev'.
Proof. unfold tmpl, P45, E1. intros. lia. Qed.
Lemma inv1ms_10s_x2_step_157 S V es ev r S' V' es' ev' :
  65536000000 <= S <= 655360000000000 -> 0 <= V <= 655360000000000 ->

  tmpl 35184372088832 0 285212706 0 683736837848755732480 S V es ev ->
  tmpl 35184372088832 0 318767142 0 506330039654348357632 S V es ev ->
  tmpl 0 35184372088832 469762104 33554436 1638446046081448935424 S V es ev ->
  tmpl 0 35184372088832 503316540 33554436 1345247683212672237568 S V es ev ->
  tmpl 0 35184372088832 536870976 33554436 1139474271035213611008 S V es ev ->
  tmpl 0 35184372088832 570425412 0 1341813189461365227520 S V es ev ->
  tmpl 0 35184372088832 570425412 33554436 1002171708927130861568 S V es ev ->
  tmpl 0 35184372088832 637534284 0 998737197804198297600 S V es ev ->
  1000000 <= r <= 10000000000 -> 0 <= es -> 0 <= ev ->
  8 * S' <= 7 * S + 65536 * r < 8 * S' + 8 ->
  4 * V' <= 3 * V + Z.abs (S - 65536 * r) < 4 * V' + 4 ->
  0 <= es' -> 8 * P45 * es' <= 7 * (P45 + E1) * es + E1 * (7 * S + 65536 * r) + 8 * P45 * (65536 + 1) ->
  0 <= ev' -> 4 * P45 * ev' <= 3 * (P45 + E1) * ev + (P45 + E1) * es + E1 * (3 * V + Z.abs (S - 65536 * r)) + 4 * P45 * (65536 + 1) ->
  tmpl 0 35184372088832 503316540 33554436 1345247683212672237568 S' V' es' ev'.
Proof. unfold tmpl, P45, E1. intros. lia. Qed.
Lemma inv1ms_10s_x2_step_158 S V es ev r S' V' es' ev' :
  65536000000 <= S <= 655360000000000 -> 0 <= V <= 655360000000000 ->

  tmpl 35184372088832 0 318767142 0 506330039654348357632 S V es ev ->
  tmpl 35184372088832 0 335544360 0 461667282885208047616 S V es ev ->
  tmpl 35184372088832 0 352321578 0 435312051427535486976 S V es ev ->
  tmpl 0 35184372088832 469762104 67108872 1142934107786652024832 S V es ev ->
  tmpl 0 35184372088832 503316540 67108872 1005627011641852559360 S V es ev ->
  tmpl 0 35184372088832 536870976 33554436 1139474271035213611008 S V es ev ->
  tmpl 0 35184372088832 536870976 67108872 919317398673313628160 S V es ev ->
  tmpl 0 35184372088832 603979848 33554436 915863765843506888704 S V es ev ->
  1000000 <= r <= 10000000000 -> 0 <= es -> 0 <= ev ->
  8 * S' <= 7 * S + 65536 * r < 8 * S' + 8 ->
  4 * V' <= 3 * V + Z.abs (S - 65536 * r) < 4 * V' + 4 ->
  0 <= es' -> 8 * P45 * es' <= 7 * (P45 + E1) * es + E1 * (7 * S + 65536 * r) + 8 * P45 * (65536 + 1) ->
  0 <= ev' -> 4 * P45 * ev' <= 3 * (P45 + E1) * ev + (P45 + E1) * es + E1 * (3 * V + Z.abs (S - 65536 * r)) + 4 * P45 * (65536 + 1) ->
  tmpl 0 35184372088832 503316540 67108872 1005627011641852559360 S' V' es' ev'.
Proof. unfold tmpl, P45, E1. intros. lia. Qed.
Lemma inv1ms_10s_x2_step_159 S V es ev r S' V' es' ev' :
  65536000000 <= S <= 655360000000000 -> 0 <= V <= 655360000000000 ->

  tmpl 0 0 16777218 (-8388609) (-820022133117572608) S V es ev ->
  tmpl 35184372088832 0 268435488 0 835760252043128864768 S V es ev ->
  tmpl 35184372088832 0 301989924 0 577303779024326361088 S V es ev ->
  tmpl 0 35184372088832 503316540 0 2036330090902336569344 S V es ev ->
  tmpl 0 35184372088832 536870976 0 1635011575492014505984 S V es ev ->
  tmpl 0 35184372088832 570425412 0 1341813189461365227520 S V es ev ->
  tmpl 0 35184372088832 603979848 0 1136039765702902677504 S V es ev ->
  1000000 <= r <= 10000000000 -> 0 <= es -> 0 <= ev ->
  8 * S' <= 7 * S + 65536 * r < 8 * S' + 8 ->
  4 * V' <= 3 * V + Z.abs (S - 65536 * r) < 4 * V' + 4 ->
  0 <= es' -> 8 * P45 * es' <= 7 * (P45 + E1) * es + E1 * (7 * S + 65536 * r) + 8 * P45 * (65536 + 1) ->
  0 <= ev' -> 4 * P45 * ev' <= 3 * (P45 + E1) * ev + (P45 + E1) * es + E1 * (3 * V + Z.abs (S - 65536 * r)) + 4 * P45 * (65536 + 1) ->
  tmpl 0 35184372088832 536870976 0 1635011575492014505984 S' V' es' ev'.
Proof. unfold tmpl, P45, E1. intros. lia. Qed.
Lemma inv1ms_10s_x2_step_160 S V es ev r S' V' es' ev' :
  65536000000 <= S <= 655360000000000 -> 0 <= V <= 655360000000000 ->

  tmpl 35184372088832 0 301989924 0 577303779024326361088 S V es ev ->
  tmpl 35184372088832 0 335544360 0 461667282885208047616 S V es ev ->
  tmpl 0 35184372088832 503316540 33554436 1345247683212672237568 S V es ev ->
  tmpl 0 35184372088832 536870976 33554436 1139474271035213611008 S V es ev ->
  tmpl 0 35184372088832 570425412 33554436 1002171708927130861568 S V es ev ->
  tmpl 0 35184372088832 603979848 0 1136039765702902677504 S V es ev ->
  tmpl 0 35184372088832 603979848 33554436 915863765843506888704 S V es ev ->
  tmpl 0 35184372088832 671088720 0 912429251824725524480 S V es ev ->
  1000000 <= r <= 10000000000 -> 0 <= es -> 0 <= ev ->
  8 * S' <= 7 * S + 65536 * r < 8 * S' + 8 ->
  4 * V' <= 3 * V + Z.abs (S - 65536 * r) < 4 * V' + 4 ->
  0 <= es' -> 8 * P45 * es' <= 7 * (P45 + E1) * es + E1 * (7 * S + 65536 * r) + 8 * P45 * (65536 + 1) ->
  0 <= ev' -> 4 * P45 * ev' <= 3 * (P45 + E1) * ev + (P45 + E1) * es + E1 * (3 * V + Z.abs (S - 65536 * r)) + 4 * P45 * (65536 + 1) ->
  tmpl 0 35184372088832 536870976 33554436 1139474271035213611008 S' V' es' ev'.
Proof. unfold tmpl, P45, E1. intros. lia. Qed.
Lemma inv1ms_10s_x2_step_161 S V es ev r S' V' es' ev' :
  65536000000 <= S <= 655360000000000 -> 0 <= V <= 655360000000000 ->

  tmpl 35184372088832 0 335544360 0 461667282885208047616 S V es ev ->
  tmpl 35184372088832 0 369098796 0 420731280936727019520 S V es ev ->
  tmpl 0 35184372088832 503316540 67108872 1005627011641852559360 S V es ev ->
  tmpl 0 35184372088832 536870976 67108872 919317398673313628160 S V es ev ->
  tmpl 0 35184372088832 570425412 33554436 1002171708927130861568 S V es ev ->
  tmpl 0 35184372088832 570425412 67108872 868524226007929978880 S V es ev ->
  tmpl 0 35184372088832 603979848 67108872 840536072310487515136 S V es ev ->
  tmpl 0 35184372088832 637534284 33554436 865071191426608267264 S V es ev ->
  1000000 <= r <= 10000000000 -> 0 <= es -> 0 <= ev ->
  8 * S' <= 7 * S + 65536 * r < 8 * S' + 8 ->
  4 * V' <= 3 * V + Z.abs (S - 65536 * r) < 4 * V' + 4 ->
  0 <= es' -> 8 * P45 * es' <= 7 * (P45 + E1) * es + E1 * (7 * S + 65536 * r) + 8 * P45 * (65536 + 1) ->
  0 <= ev' -> 4 * P45 * ev' <= 3 * (P45 + E1) * ev + (P45 + E1) * es + E1 * (3 * V + Z.abs (S - 65536 * r)) + 4 * P45 * (65536 + 1) ->
  tmpl 0 35184372088832 536870976 67108872 919317398673313628160 S' V' es' ev'.
Proof. unfold tmpl, P45, E1. intros. lia. Qed.
Lemma inv1ms_10s_x2_step_162 S V es ev r S' V' es' ev' :
  65536000000 <= S <= 655360000000000 -> 0 <= V <= 655360000000000 ->

  tmpl 0 0 16777218 (-8388609) (-820022133117572608) S V es ev ->
  tmpl 35184372088832 0 285212706 0 683736837848755732480 S V es ev ->
  tmpl 35184372088832 0 318767142 0 506330039654348357632 S V es ev ->
  tmpl 0 35184372088832 536870976 0 1635011575492014505984 S V es ev ->
  tmpl 0 35184372088832 570425412 0 1341813189461365227520 S V es ev ->
  tmpl 0 35184372088832 603979848 0 1136039765702902677504 S V es ev ->
  tmpl 0 35184372088832 637534284 0 998737197804198297600 S V es ev ->
  1000000 <= r <= 10000000000 -> 0 <= es -> 0 <= ev ->
  8 * S' <= 7 * S + 65536 * r < 8 * S' + 8 ->
  4 * V' <= 3 * V + Z.abs (S - 65536 * r) < 4 * V' + 4 ->
  0 <= es' -> 8 * P45 * es' <= 7 * (P45 + E1) * es + E1 * (7 * S + 65536 * r) + 8 * P45 * (65536 + 1) ->
  0 <= ev' -> 4 * P45 * ev' <= 3 * (P45 + E1) * ev + (P45 + E1) * es + E1 * (3 * V + Z.abs (S - 65536 * r)) + 4 * P45 * (65536 + 1) ->
  tmpl 0 35184372088832 570425412 0 1341813189461365227520 S' V' es' ev'.
Proof. unfold tmpl, P45, E1. intros. lia. Qed.
Lemma inv1ms_10s_x2_step_163 S V es ev r S' V' es' ev' :
  65536000000 <= S <= 655360000000000 -> 0 <= V <= 655360000000000 ->

  tmpl 35184372088832 0 318767142 0 506330039654348357632 S V es ev ->
  tmpl 35184372088832 0 352321578 0 435312051427535486976 S V es ev ->
  tmpl 0 35184372088832 536870976 33554436 1139474271035213611008 S V es ev ->
  tmpl 0 35184372088832 570425412 33554436 1002171708927130861568 S V es ev ->
  tmpl 0 35184372088832 603979848 33554436 915863765843506888704 S V es ev ->
  tmpl 0 35184372088832 637534284 0 998737197804198297600 S V es ev ->
  tmpl 0 35184372088832 637534284 33554436 865071191426608267264 S V es ev ->
  tmpl 0 35184372088832 704643156 0 861636675957596094464 S V es ev ->
  1000000 <= r <= 10000000000 -> 0 <= es -> 0 <= ev ->
  8 * S' <= 7 * S + 65536 * r < 8 * S' + 8 ->
  4 * V' <= 3 * V + Z.abs (S - 65536 * r) < 4 * V' + 4 ->
  0 <= es' -> 8 * P45 * es' <= 7 * (P45 + E1) * es + E1 * (7 * S + 65536 * r) + 8 * P45 * (65536 + 1) ->
  0 <= ev' -> 4 * P45 * ev' <= 3 * (P45 + E1) * ev + (P45 + E1) * es + E1 * (3 * V + Z.abs (S - 65536 * r)) + 4 * P45 * (65536 + 1) ->
  tmpl 0 35184372088832 570425412 33554436 1002171708927130861568 S' V' es' ev'.
Proof. unfold tmpl, P45, E1. intros. lia. Qed.
Lemma inv1ms_10s_x2_step_164 S V es ev r S' V' es' ev' :
  65536000000 <= S <= 655360000000000 -> 0 <= V <= 655360000000000 ->

  tmpl 35184372088832 0 352321578 0 435312051427535486976 S V es ev ->
  tmpl 35184372088832 0 385876014 0 413067719134013358080 S V es ev ->
  tmpl 0 35184372088832 536870976 67108872 919317398673313628160 S V es ev ->
  tmpl 0 35184372088832 570425412 67108872 868524226007929978880 S V es ev ->
  tmpl 0 35184372088832 603979848 33554436 915863765843506888704 S V es ev ->
  tmpl 0 35184372088832 603979848 67108872 840536072310487515136 S V es ev ->
  tmpl 0 35184372088832 637534284 67108872 825889073319237779456 S V es ev ->
  tmpl 0 35184372088832 671088720 33554436 837083242129642881024 S V es ev ->
  1000000 <= r <= 10000000000 -> 0 <= es -> 0 <= ev ->
  8 * S' <= 7 * S + 65536 * r < 8 * S' + 8 ->
  4 * V' <= 3 * V + Z.abs (S - 65536 * r) < 4 * V' + 4 ->
  0 <= es' -> 8 * P45 * es' <= 7 * (P45 + E1) * es + E1 * (7 * S + 65536 * r) + 8 * P45 * (65536 + 1) ->
  0 <= ev' -> 4 * P45 * ev' <= 3 * (P45 + E1) * ev + (P45 + E1) * es + E1 * (3 * V + Z.abs (S - 65536 * r)) + 4 * P45 * (65536 + 1) ->
  tmpl 0 35184372088832 570425412 67108872 868524226007929978880 S' V' es' ev'.
Proof. unfold tmpl, P45, E1. intros. lia. Qed.
Lemma inv1ms_10s_x2_step_165 S V es ev r S' V' es' ev' :
  65536000000 <= S <= 655360000000000 -> 0 <= V <= 655360000000000 ->

  tmpl 0 0 16777218 (-8388609) (-820022133117572608) S V es ev ->
  tmpl 35184372088832 0 301989924 0 577303779024326361088 S V es ev ->
  tmpl 35184372088832 0 335544360 0 461667282885208047616 S V es ev ->
  tmpl 35184372088832 0 352321578 0 435312051427535486976 S V es ev ->
  tmpl 0 35184372088832 570425412 0 1341813189461365227520 S V es ev ->
  tmpl 0 35184372088832 603979848 0 1136039765702902677504 S V es ev ->
  tmpl 0 35184372088832 671088720 0 912429251824725524480 S V es ev ->
  1000000 <= r <= 10000000000 -> 0 <= es -> 0 <= ev ->
  8 * S' <= 7 * S + 65536 * r < 8 * S' + 8 ->
  4 * V' <= 3 * V + Z.abs (S - 65536 * r) < 4 * V' + 4 ->
  0 <= es' -> 8 * P45 * es' <= 7 * (P45 + E1) * es + E1 * (7 * S + 65536 * r) + 8 * P45 * (65536 + 1) ->
  0 <= ev' -> 4 * P45 * ev' <= 3 * (P45 + E1) * ev + (P45 + E1) * es + E1 * (3 * V + Z.abs (S - 65536 * r)) + 4 * P45 * (65536 + 1) ->
  tmpl 0 35184372088832 603979848 0 1136039765702902677504 S' V' es' ev'.
Proof. unfold tmpl, P45, E1. intros. lia. Qed.
Lemma inv1ms_10s_x2_step_166 S V es ev r S' V' es' ev' :
  65536000000 <= S <= 655360000000000 -> 0 <= V <= 655360000000000 ->

  tmpl 35184372088832 0 335544360 0 461667282885208047616 S V es ev ->
  tmpl 35184372088832 0 369098796 0 420731280936727019520 S V es ev ->
  tmpl 0 35184372088832 570425412 33554436 1002171708927130861568 S V es ev ->
  tmpl 0 35184372088832 603979848 33554436 915863765843506888704 S V es ev ->
  tmpl 0 35184372088832 637534284 33554436 865071191426608267264 S V es ev ->
  tmpl 0 35184372088832 671088720 0 912429251824725524480 S V es ev ->
  tmpl 0 35184372088832 671088720 33554436 837083242129642881024 S V es ev ->
  tmpl 0 35184372088832 738197592 0 833648725927076429824 S V es ev ->
  1000000 <= r <= 10000000000 -> 0 <= es -> 0 <= ev ->
  8 * S' <= 7 * S + 65536 * r < 8 * S' + 8 ->
  4 * V' <= 3 * V + Z.abs (S - 65536 * r) < 4 * V' + 4 ->
  0 <= es' -> 8 * P45 * es' <= 7 * (P45 + E1) * es + E1 * (7 * S + 65536 * r) + 8 * P45 * (65536 + 1) ->
  0 <= ev' -> 4 * P45 * ev' <= 3 * (P45 + E1) * ev + (P45 + E1) * es + E1 * (3 * V + Z.abs (S - 65536 * r)) + 4 * P45 * (65536 + 1) ->
  tmpl 0 35184372088832 603979848 33554436 915863765843506888704 S' V' es' ev'.
Proof. unfold tmpl, P45, E1. intros. lia. Qed.
Lemma inv1ms_10s_x2_step_167 S V es ev r S' V' es' ev' :
  65536000000 <= S <= 655360000000000 -> 0 <= V <= 655360000000000 ->

  tmpl 35184372088832 0 369098796 0 420731280936727019520 S V es ev ->
  tmpl 35184372088832 0 402653232 0 409079293714468241408 S V es ev ->
  tmpl 0 35184372088832 570425412 67108872 868524226007929978880 S V es ev ->
  tmpl 0 35184372088832 603979848 67108872 840536072310487515136 S V es ev ->
  tmpl 0 35184372088832 637534284 33554436 865071191426608267264 S V es ev ->
  tmpl 0 35184372088832 637534284 67108872 825889073319237779456 S V es ev ->
  tmpl 0 35184372088832 671088720 67108872 818279670959999025152 S V es ev ->
  tmpl 0 35184372088832 704643156 33554436 822436307799724916736 S V es ev ->
  1000000 <= r <= 10000000000 -> 0 <= es -> 0 <= ev ->
  8 * S' <= 7 * S + 65536 * r < 8 * S' + 8 ->
  4 * V' <= 3 * V + Z.abs (S - 65536 * r) < 4 * V' + 4 ->
  0 <= es' -> 8 * P45 * es' <= 7 * (P45 + E1) * es + E1 * (7 * S + 65536 * r) + 8 * P45 * (65536 + 1) ->
  0 <= ev' -> 4 * P45 * ev' <= 3 * (P45 + E1) * ev + (P45 + E1) * es + E1 * (3 * V + Z.abs (S - 65536 * r)) + 4 * P45 * (65536 + 1) ->
  tmpl 0 35184372088832 603979848 67108872 840536072310487515136 S' V' es' ev'.
Proof. unfold tmpl, P45, E1. intros. lia. Qed.
Lemma inv1ms_10s_x2_step_168 S V es ev r S' V' es' ev' :
  65536000000 <= S <= 655360000000000 -> 0 <= V <= 655360000000000 ->

  tmpl 0 0 16777218 (-8388609) (-820022133117572608) S V es ev ->
  tmpl 35184372088832 0 318767142 0 506330039654348357632 S V es ev ->
  tmpl 35184372088832 0 369098796 0 420731280936727019520 S V es ev ->
  tmpl 0 35184372088832 603979848 0 1136039765702902677504 S V es ev ->
  tmpl 0 35184372088832 637534284 0 998737197804198297600 S V es ev ->
  tmpl 0 35184372088832 704643156 0 861636675957596094464 S V es ev ->
  tmpl 0 35184372088832 738197592 0 833648725927076429824 S V es ev ->
  1000000 <= r <= 10000000000 -> 0 <= es -> 0 <= ev ->
  8 * S' <= 7 * S + 65536 * r < 8 * S' + 8 ->
  4 * V' <= 3 * V + Z.abs (S - 65536 * r) < 4 * V' + 4 ->
  0 <= es' -> 8 * P45 * es' <= 7 * (P45 + E1) * es + E1 * (7 * S + 65536 * r) + 8 * P45 * (65536 + 1) ->
  0 <= ev' -> 4 * P45 * ev' <= 3 * (P45 + E1) * ev + (P45 + E1) * es + E1 * (3 * V + Z.abs (S - 65536 * r)) + 4 * P45 * (65536 + 1) ->
  tmpl 0 35184372088832 637534284 0 998737197804198297600 S' V' es' ev'.
Proof. unfold tmpl, P45, E1. intros. lia. Qed.
Lemma inv1ms_10s_x2_step_169 S V es ev r S' V' es' ev' :
  65536000000 <= S <= 655360000000000 -> 0 <= V <= 655360000000000 ->

  tmpl 35184372088832 0 352321578 0 435312051427535486976 S V es ev ->
  tmpl 35184372088832 0 385876014 0 413067719134013358080 S V es ev ->
  tmpl 0 35184372088832 603979848 33554436 915863765843506888704 S V es ev ->
  tmpl 0 35184372088832 637534284 33554436 865071191426608267264 S V es ev ->
  tmpl 0 35184372088832 671088720 33554436 837083242129642881024 S V es ev ->
  tmpl 0 35184372088832 704643156 0 861636675957596094464 S V es ev ->
  tmpl 0 35184372088832 704643156 33554436 822436307799724916736 S V es ev ->
  tmpl 0 35184372088832 771752028 0 819001791204413800448 S V es ev ->
  1000000 <= r <= 10000000000 -> 0 <= es -> 0 <= ev ->
  8 * S' <= 7 * S + 65536 * r < 8 * S' + 8 ->
  4 * V' <= 3 * V + Z.abs (S - 65536 * r) < 4 * V' + 4 ->
  0 <= es' -> 8 * P45 * es' <= 7 * (P45 + E1) * es + E1 * (7 * S + 65536 * r) + 8 * P45 * (65536 + 1) ->
  0 <= ev' -> 4 * P45 * ev' <= 3 * (P45 + E1) * ev + (P45 + E1) * es + E1 * (3 * V + Z.abs (S - 65536 * r)) + 4 * P45 * (65536 + 1) ->
  tmpl 0 35184372088832 637534284 33554436 865071191426608267264 S' V' es' ev'.
Proof. unfold tmpl, P45, E1. intros. lia. Qed.
Lemma inv1ms_10s_x2_step_170 S V es ev r S' V' es' ev' :
  65536000000 <= S <= 655360000000000 -> 0 <= V <= 655360000000000 ->

  tmpl 35184372088832 0 385876014 0 413067719134013358080 S V es ev ->
  tmpl 35184372088832 0 419430450 0 406841094355780763648 S V es ev ->
  tmpl 0 35184372088832 603979848 67108872 840536072310487515136 S V es ev ->
  tmpl 0 35184372088832 637534284 67108872 825889073319237779456 S V es ev ->
  tmpl 0 35184372088832 671088720 33554436 837083242129642881024 S V es ev ->
  tmpl 0 35184372088832 671088720 67108872 818279670959999025152 S V es ev ->
  tmpl 0 35184372088832 704643156 67108872 813985414398976327680 S V es ev ->
  tmpl 0 35184372088832 738197592 33554436 814826923239641841664 S V es ev ->
  1000000 <= r <= 10000000000 -> 0 <= es -> 0 <= ev ->
  8 * S' <= 7 * S + 65536 * r < 8 * S' + 8 ->
  4 * V' <= 3 * V + Z.abs (S - 65536 * r) < 4 * V' + 4 ->
  0 <= es' -> 8 * P45 * es' <= 7 * (P45 + E1) * es + E1 * (7 * S + 65536 * r) + 8 * P45 * (65536 + 1) ->
  0 <= ev' -> 4 * P45 * ev' <= 3 * (P45 + E1) * ev + (P45 + E1) * es + E1 * (3 * V + Z.abs (S - 65536 * r)) + 4 * P45 * (65536 + 1) ->
  tmpl 0 35184372088832 637534284 67108872 825889073319237779456 S' V' es' ev'.
Proof. unfold tmpl, P45, E1. intros. lia. Qed.
Lemma inv1ms_10s_x2_step_171 S V es ev r S' V' es' ev' :
  65536000000 <= S <= 655360000000000 -> 0 <= V <= 655360000000000 ->

  tmpl 0 0 16777218 (-8388609) (-820022133117572608) S V es ev ->
  tmpl 35184372088832 0 335544360 0 461667282885208047616 S V es ev ->
  tmpl 35184372088832 0 385876014 0 413067719134013358080 S V es ev ->
  tmpl 0 35184372088832 637534284 0 998737197804198297600 S V es ev ->
  tmpl 0 35184372088832 671088720 0 912429251824725524480 S V es ev ->
  tmpl 0 35184372088832 738197592 0 833648725927076429824 S V es ev ->
  tmpl 0 35184372088832 771752028 0 819001791204413800448 S V es ev ->
  1000000 <= r <= 10000000000 -> 0 <= es -> 0 <= ev ->
  8 * S' <= 7 * S + 65536 * r < 8 * S' + 8 ->
  4 * V' <= 3 * V + Z.abs (S - 65536 * r) < 4 * V' + 4 ->
  0 <= es' -> 8 * P45 * es' <= 7 * (P45 + E1) * es + E1 * (7 * S + 65536 * r) + 8 * P45 * (65536 + 1) ->
  0 <= ev' -> 4 * P45 * ev' <= 3 * (P45 + E1) * ev + (P45 + E1) * es + E1 * (3 * V + Z.abs (S - 65536 * r)) + 4 * P45 * (65536 + 1) ->
  tmpl 0 35184372088832 671088720 0 912429251824725524480 S' V' es' ev'.
Proof. unfold tmpl, P45, E1. intros. lia. Qed.
Lemma inv1ms_10s_x2_step_172 S V es ev r S' V' es' ev' :
  65536000000 <= S <= 655360000000000 -> 0 <= V <= 655360000000000 ->

  tmpl 35184372088832 0 369098796 0 420731280936727019520 S V es ev ->
  tmpl 35184372088832 0 402653232 0 409079293714468241408 S V es ev ->
  tmpl 35184372088832 0 419430450 0 406841094355780763648 S V es ev ->
  tmpl 0 35184372088832 637534284 33554436 865071191426608267264 S V es ev ->
  tmpl 0 35184372088832 671088720 33554436 837083242129642881024 S V es ev ->
  tmpl 0 35184372088832 738197592 0 833648725927076429824 S V es ev ->
  tmpl 0 35184372088832 738197592 33554436 814826923239641841664 S V es ev ->
  tmpl 0 35184372088832 805306464 0 811392406381010747392 S V es ev ->
  1000000 <= r <= 10000000000 -> 0 <= es -> 0 <= ev ->
  8 * S' <= 7 * S + 65536 * r < 8 * S' + 8 ->
  4 * V' <= 3 * V + Z.abs (S - 65536 * r) < 4 * V' + 4 ->
  0 <= es' -> 8 * P45 * es' <= 7 * (P45 + E1) * es + E1 * (7 * S + 65536 * r) + 8 * P45 * (65536 + 1) ->
  0 <= ev' -> 4 * P45 * ev' <= 3 * (P45 + E1) * ev + (P45 + E1) * es + E1 * (3 * V + Z.abs (S - 65536 * r)) + 4 * P45 * (65536 + 1) ->
  tmpl 0 35184372088832 671088720 33554436 837083242129642881024 S' V' es' ev'.
Proof. unfold tmpl, P45, E1. intros. lia. Qed.
Lemma inv1ms_10s_x2_step_173 S V es ev r S' V' es' ev' :
  65536000000 <= S <= 655360000000000 -> 0 <= V <= 655360000000000 ->

  tmpl 35184372088832 0 402653232 0 409079293714468241408 S V es ev ->
  tmpl 35184372088832 0 436207668 0 405343572022731079680 S V es ev ->
  tmpl 0 35184372088832 637534284 67108872 825889073319237779456 S V es ev ->
  tmpl 0 35184372088832 671088720 67108872 818279670959999025152 S V es ev ->
  tmpl 0 35184372088832 704643156 33554436 822436307799724916736 S V es ev ->
  tmpl 0 35184372088832 704643156 67108872 813985414398976327680 S V es ev ->
  tmpl 0 35184372088832 738197592 67108872 811071882360405360640 S V es ev ->
  tmpl 0 35184372088832 805306464 33554436 807619138085682806784 S V es ev ->
  1000000 <= r <= 10000000000 -> 0 <= es -> 0 <= ev ->
  8 * S' <= 7 * S + 65536 * r < 8 * S' + 8 ->
  4 * V' <= 3 * V + Z.abs (S - 65536 * r) < 4 * V' + 4 ->
  0 <= es' -> 8 * P45 * es' <= 7 * (P45 + E1) * es + E1 * (7 * S + 65536 * r) + 8 * P45 * (65536 + 1) ->
  0 <= ev' -> 4 * P45 * ev' <= 3 * (P45 + E1) * ev + (P45 + E1) * es + E1 * (3 * V + Z.abs (S - 65536 * r)) + 4 * P45 * (65536 + 1) ->
  tmpl 0 35184372088832 671088720 67108872 818279670959999025152 S' V' es' ev'.
Proof. unfold tmpl, P45, E1. intros. lia. Qed.
Lemma inv1ms_10s_x2_step_174 S V es ev r S' V' es' ev' :
  65536000000 <= S <= 655360000000000 -> 0 <= V <= 655360000000000 ->

  tmpl 0 0 16777218 (-8388609) (-820022133117572608) S V es ev ->
  tmpl 35184372088832 0 352321578 0 435312051427535486976 S V es ev ->
  tmpl 35184372088832 0 402653232 0 409079293714468241408 S V es ev ->
  tmpl 0 35184372088832 671088720 0 912429251824725524480 S V es ev ->
  tmpl 0 35184372088832 704643156 0 861636675957596094464 S V es ev ->
  tmpl 0 35184372088832 771752028 0 819001791204413800448 S V es ev ->
  tmpl 0 35184372088832 805306464 0 811392406381010747392 S V es ev ->
  1000000 <= r <= 10000000000 -> 0 <= es -> 0 <= ev ->
  8 * S' <= 7 * S + 65536 * r < 8 * S' + 8 ->
  4 * V' <= 3 * V + Z.abs (S - 65536 * r) < 4 * V' + 4 ->
  0 <= es' -> 8 * P45 * es' <= 7 * (P45 + E1) * es + E1 * (7 * S + 65536 * r) + 8 * P45 * (65536 + 1) ->
  0 <= ev' -> 4 * P45 * ev' <= 3 * (P45 + E1) * ev + (P45 + E1) * es + E1 * (3 * V + Z.abs (S - 65536 * r)) + 4 * P45 * (65536 + 1) ->
  tmpl 0 35184372088832 704643156 0 861636675957596094464 S' V' es' ev'.
Proof. unfold tmpl, P45, E1. intros. lia. Qed.
Lemma inv1ms_10s_x2_step_175 S V es ev r S' V' es' ev' :
  65536000000 <= S <= 655360000000000 -> 0 <= V <= 655360000000000 ->

  tmpl 35184372088832 0 385876014 0 413067719134013358080 S V es ev ->
  tmpl 35184372088832 0 436207668 0 405343572022731079680 S V es ev ->
  tmpl 0 35184372088832 671088720 33554436 837083242129642881024 S V es ev ->
  tmpl 0 35184372088832 704643156 33554436 822436307799724916736 S V es ev ->
  tmpl 0 35184372088832 771752028 0 819001791204413800448 S V es ev ->
  tmpl 0 35184372088832 771752028 33554436 810532670181204688896 S V es ev ->
  tmpl 0 35184372088832 838860900 0 807098153047217537024 S V es ev ->
  tmpl 0 35184372088832 872415336 0 804184620559863119872 S V es ev ->
  1000000 <= r <= 10000000000 -> 0 <= es -> 0 <= ev ->
  8 * S' <= 7 * S + 65536 * r < 8 * S' + 8 ->
  4 * V' <= 3 * V + Z.abs (S - 65536 * r) < 4 * V' + 4 ->
  0 <= es' -> 8 * P45 * es' <= 7 * (P45 + E1) * es + E1 * (7 * S + 65536 * r) + 8 * P45 * (65536 + 1) ->
  0 <= ev' -> 4 * P45 * ev' <= 3 * (P45 + E1) * ev + (P45 + E1) * es + E1 * (3 * V + Z.abs (S - 65536 * r)) + 4 * P45 * (65536 + 1) ->
  tmpl 0 35184372088832 704643156 33554436 822436307799724916736 S' V' es' ev'.
Proof. unfold tmpl, P45, E1. intros. lia. Qed.
Lemma inv1ms_10s_x2_step_176 S V es ev r S' V' es' ev' :
  65536000000 <= S <= 655360000000000 -> 0 <= V <= 655360000000000 ->

  tmpl 35184372088832 0 419430450 0 406841094355780763648 S V es ev ->
  tmpl 35184372088832 0 452984886 0 404122051557223038976 S V es ev ->
  tmpl 0 35184372088832 671088720 67108872 818279670959999025152 S V es ev ->
  tmpl 0 35184372088832 704643156 67108872 813985414398976327680 S V es ev ->
  tmpl 0 35184372088832 738197592 33554436 814826923239641841664 S V es ev ->
  tmpl 0 35184372088832 738197592 67108872 811071882360405360640 S V es ev ->
  tmpl 0 35184372088832 771752028 67108872 808661221188320100352 S V es ev ->
  tmpl 0 35184372088832 838860900 33554436 805208475499687968768 S V es ev ->
  1000000 <= r <= 10000000000 -> 0 <= es -> 0 <= ev ->
  8 * S' <= 7 * S + 65536 * r < 8 * S' + 8 ->
  4 * V' <= 3 * V + Z.abs (S - 65536 * r) < 4 * V' + 4 ->
  0 <= es' -> 8 * P45 * es' <= 7 * (P45 + E1) * es + E1 * (7 * S + 65536 * r) + 8 * P45 * (65536 + 1) ->
  0 <= ev' -> 4 * P45 * ev' <= 3 * (P45 + E1) * ev + (P45 + E1) * es + E1 * (3 * V + Z.abs (S - 65536 * r)) + 4 * P45 * (65536 + 1) ->
  tmpl 0 35184372088832 704643156 67108872 813985414398976327680 S' V' es' ev'.
Proof. unfold tmpl, P45, E1. intros. lia. Qed.
Lemma inv1ms_10s_x2_step_177 S V es ev r S' V' es' ev' :
  65536000000 <= S <= 655360000000000 -> 0 <= V <= 655360000000000 ->

  tmpl 0 0 16777218 (-8388609) (-820022133117572608) S V es ev ->
  tmpl 35184372088832 0 369098796 0 420731280936727019520 S V es ev ->
  tmpl 35184372088832 0 419430450 0 406841094355780763648 S V es ev ->
  tmpl 0 35184372088832 704643156 0 861636675957596094464 S V es ev ->
  tmpl 0 35184372088832 738197592 0 833648725927076429824 S V es ev ->
  tmpl 0 35184372088832 805306464 0 811392406381010747392 S V es ev ->
  tmpl 0 35184372088832 838860900 0 807098153047217537024 S V es ev ->
  1000000 <= r <= 10000000000 -> 0 <= es -> 0 <= ev ->
  8 * S' <= 7 * S + 65536 * r < 8 * S' + 8 ->
  4 * V' <= 3 * V + Z.abs (S - 65536 * r) < 4 * V' + 4 ->
  0 <= es' -> 8 * P45 * es' <= 7 * (P45 + E1) * es + E1 * (7 * S + 65536 * r) + 8 * P45 * (65536 + 1) ->
  0 <= ev' -> 4 * P45 * ev' <= 3 * (P45 + E1) * ev + (P45 + E1) * es + E1 * (3 * V + Z.abs (S - 65536 * r)) + 4 * P45 * (65536 + 1) ->
  tmpl 0 35184372088832 738197592 0 833648725927076429824 S' V' es' ev'.
Proof. unfold tmpl, P45, E1. intros. lia. Qed.
Lemma inv1ms_10s_x2_step_178 S V es ev r S' V' es' ev' :
  65536000000 <= S <= 655360000000000 -> 0 <= V <= 655360000000000 ->

  tmpl 35184372088832 0 402653232 0 409079293714468241408 S V es ev ->
  tmpl 35184372088832 0 452984886 0 404122051557223038976 S V es ev ->
  tmpl 0 35184372088832 704643156 33554436 822436307799724916736 S V es ev ->
  tmpl 0 35184372088832 738197592 33554436 814826923239641841664 S V es ev ->
  tmpl 0 35184372088832 805306464 0 811392406381010747392 S V es ev ->
  tmpl 0 35184372088832 805306464 33554436 807619138085682806784 S V es ev ->
  tmpl 0 35184372088832 838860900 33554436 805208475499687968768 S V es ev ->
  tmpl 0 35184372088832 905969772 0 801773957413605998592 S V es ev ->
  1000000 <= r <= 10000000000 -> 0 <= es -> 0 <= ev ->
  8 * S' <= 7 * S + 65536 * r < 8 * S' + 8 ->
  4 * V' <= 3 * V + Z.abs (S - 65536 * r) < 4 * V' + 4 ->
  0 <= es' -> 8 * P45 * es' <= 7 * (P45 + E1) * es + E1 * (7 * S + 65536 * r) + 8 * P45 * (65536 + 1) ->
  0 <= ev' -> 4 * P45 * ev' <= 3 * (P45 + E1) * ev + (P45 + E1) * es + E1 * (3 * V + Z.abs (S - 65536 * r)) + 4 * P45 * (65536 + 1) ->
  tmpl 0 35184372088832 738197592 33554436 814826923239641841664 S' V' es' ev'.
Proof. unfold tmpl, P45, E1. intros. lia. Qed.
Lemma inv1ms_10s_x2_step_179 S V es ev r S' V' es' ev' :
  65536000000 <= S <= 655360000000000 -> 0 <= V <= 655360000000000 ->

  tmpl 35184372088832 0 436207668 0 405343572022731079680 S V es ev ->
  tmpl 35184372088832 0 469762104 0 402990163558223446016 S V es ev ->
  tmpl 35184372088832 0 486539322 0 401883333290772660224 S V es ev ->
  tmpl 0 35184372088832 704643156 67108872 813985414398976327680 S V es ev ->
  tmpl 0 35184372088832 738197592 67108872 811071882360405360640 S V es ev ->
  tmpl 0 35184372088832 805306464 33554436 807619138085682806784 S V es ev ->
  tmpl 0 35184372088832 805306464 67108872 806408655863763042304 S V es ev ->
  tmpl 0 35184372088832 872415336 33554436 802955908075454332928 S V es ev ->
  1000000 <= r <= 10000000000 -> 0 <= es -> 0 <= ev ->
  8 * S' <= 7 * S + 65536 * r < 8 * S' + 8 ->
  4 * V' <= 3 * V + Z.abs (S - 65536 * r) < 4 * V' + 4 ->
  0 <= es' -> 8 * P45 * es' <= 7 * (P45 + E1) * es + E1 * (7 * S + 65536 * r) + 8 * P45 * (65536 + 1) ->
  0 <= ev' -> 4 * P45 * ev' <= 3 * (P45 + E1) * ev + (P45 + E1) * es + E1 * (3 * V + Z.abs (S - 65536 * r)) + 4 * P45 * (65536 + 1) ->
  tmpl 0 35184372088832 738197592 67108872 811071882360405360640 S' V' es' ev'.
Proof. unfold tmpl, P45, E1. intros. lia. Qed.
Lemma inv1ms_10s_x2_step_180 S V es ev r S' V' es' ev' :
  65536000000 <= S <= 655360000000000 -> 0 <= V <= 655360000000000 ->

  tmpl 0 0 16777218 (-8388609) (-820022133117572608) S V es ev ->
  tmpl 35184372088832 0 385876014 0 413067719134013358080 S V es ev ->
  tmpl 35184372088832 0 436207668 0 405343572022731079680 S V es ev ->
  tmpl 0 35184372088832 738197592 0 833648725927076429824 S V es ev ->
  tmpl 0 35184372088832 771752028 0 819001791204413800448 S V es ev ->
  tmpl 0 35184372088832 838860900 0 807098153047217537024 S V es ev ->
  tmpl 0 35184372088832 872415336 0 804184620559863119872 S V es ev ->
  1000000 <= r <= 10000000000 -> 0 <= es -> 0 <= ev ->
  8 * S' <= 7 * S + 65536 * r < 8 * S' + 8 ->
  4 * V' <= 3 * V + Z.abs (S - 65536 * r) < 4 * V' + 4 ->
  0 <= es' -> 8 * P45 * es' <= 7 * (P45 + E1) * es + E1 * (7 * S + 65536 * r) + 8 * P45 * (65536 + 1) ->
  0 <= ev' -> 4 * P45 * ev' <= 3 * (P45 + E1) * ev + (P45 + E1) * es + E1 * (3 * V + Z.abs (S - 65536 * r)) + 4 * P45 * (65536 + 1) ->
  tmpl 0 35184372088832 771752028 0 819001791204413800448 S' V' es' ev'.
Proof. unfold tmpl, P45, E1. intros. lia. Qed.
Lemma inv1ms_10s_x2_step_181 S V es ev r S' V' es' ev' :
  65536000000 <= S <= 655360000000000 -> 0 <= V <= 655360000000000 ->

  tmpl 35184372088832 0 419430450 0 406841094355780763648 S V es ev ->
  tmpl 35184372088832 0 469762104 0 402990163558223446016 S V es ev ->
  tmpl 0 35184372088832 738197592 33554436 814826923239641841664 S V es ev ->
  tmpl 0 35184372088832 771752028 33554436 810532670181204688896 S V es ev ->
  tmpl 0 35184372088832 838860900 0 807098153047217537024 S V es ev ->
  tmpl 0 35184372088832 838860900 33554436 805208475499687968768 S V es ev ->
  tmpl 0 35184372088832 872415336 33554436 802955908075454332928 S V es ev ->
  tmpl 0 35184372088832 905969772 0 801773957413605998592 S V es ev ->
  1000000 <= r <= 10000000000 -> 0 <= es -> 0 <= ev ->
  8 * S' <= 7 * S + 65536 * r < 8 * S' + 8 ->
  4 * V' <= 3 * V + Z.abs (S - 65536 * r) < 4 * V' + 4 ->
  0 <= es' -> 8 * P45 * es' <= 7 * (P45 + E1) * es + E1 * (7 * S + 65536 * r) + 8 * P45 * (65536 + 1) ->
  0 <= ev' -> 4 * P45 * ev' <= 3 * (P45 + E1) * ev + (P45 + E1) * es + E1 * (3 * V + Z.abs (S - 65536 * r)) + 4 * P45 * (65536 + 1) ->
  tmpl 0 35184372088832 771752028 33554436 810532670181204688896 S' V' es' ev'.
Proof. unfold tmpl, P45, E1. intros. lia. Qed.
Lemma inv1ms_10s_x2_step_182 S V es ev r S' V' es' ev' :
  65536000000 <= S <= 655360000000000 -> 0 <= V <= 655360000000000 ->

  tmpl 35184372088832 0 452984886 0 404122051557223038976 S V es ev ->
  tmpl 35184372088832 0 503316540 0 400782441201163960320 S V es ev ->
  tmpl 0 35184372088832 738197592 67108872 811071882360405360640 S V es ev ->
  tmpl 0 35184372088832 771752028 67108872 808661221188320100352 S V es ev ->
  tmpl 0 35184372088832 838860900 33554436 805208475499687968768 S V es ev ->
  tmpl 0 35184372088832 838860900 67108872 804198311164471934976 S V es ev ->
  tmpl 0 35184372088832 872415336 67108872 801997633068815745024 S V es ev ->
  tmpl 0 35184372088832 905969772 33554436 800749595285052850176 S V es ev ->
  1000000 <= r <= 10000000000 -> 0 <= es -> 0 <= ev ->
  8 * S' <= 7 * S + 65536 * r < 8 * S' + 8 ->
  4 * V' <= 3 * V + Z.abs (S - 65536 * r) < 4 * V' + 4 ->
  0 <= es' -> 8 * P45 * es' <= 7 * (P45 + E1) * es + E1 * (7 * S + 65536 * r) + 8 * P45 * (65536 + 1) ->
  0 <= ev' -> 4 * P45 * ev' <= 3 * (P45 + E1) * ev + (P45 + E1) * es + E1 * (3 * V + Z.abs (S - 65536 * r)) + 4 * P45 * (65536 + 1) ->
  tmpl 0 35184372088832 771752028 67108872 808661221188320100352 S' V' es' ev'.
Proof. unfold tmpl, P45, E1. intros. lia. Qed.
Lemma inv1ms_10s_x2_step_183 S V es ev r S' V' es' ev' :
  65536000000 <= S <= 655360000000000 -> 0 <= V <= 655360000000000 ->

  tmpl 0 0 16777218 (-8388609) (-820022133117572608) S V es ev ->
  tmpl 35184372088832 0 402653232 0 409079293714468241408 S V es ev ->
  tmpl 35184372088832 0 452984886 0 404122051557223038976 S V es ev ->
  tmpl 0 35184372088832 771752028 0 819001791204413800448 S V es ev ->
  tmpl 0 35184372088832 805306464 0 811392406381010747392 S V es ev ->
  tmpl 0 35184372088832 872415336 0 804184620559863119872 S V es ev ->
  tmpl 0 35184372088832 905969772 0 801773957413605998592 S V es ev ->
  1000000 <= r <= 10000000000 -> 0 <= es -> 0 <= ev ->
  8 * S' <= 7 * S + 65536 * r < 8 * S' + 8 ->
  4 * V' <= 3 * V + Z.abs (S - 65536 * r) < 4 * V' + 4 ->
  0 <= es' -> 8 * P45 * es' <= 7 * (P45 + E1) * es + E1 * (7 * S + 65536 * r) + 8 * P45 * (65536 + 1) ->
  0 <= ev' -> 4 * P45 * ev' <= 3 * (P45 + E1) * ev + (P45 + E1) * es + E1 * (3 * V + Z.abs (S - 65536 * r)) + 4 * P45 * (65536 + 1) ->
  tmpl 0 35184372088832 805306464 0 811392406381010747392 S' V' es' ev'.
Proof. unfold tmpl, P45, E1. intros. lia. Qed.
Lemma inv1ms_10s_x2_step_184 S V es ev r S' V' es' ev' :
  65536000000 <= S <= 655360000000000 -> 0 <= V <= 655360000000000 ->

  tmpl 35184372088832 0 436207668 0 405343572022731079680 S V es ev ->
  tmpl 35184372088832 0 486539322 0 401883333290772660224 S V es ev ->
  tmpl 35184372088832 0 503316540 0 400782441201163960320 S V es ev ->
  tmpl 0 35184372088832 771752028 33554436 810532670181204688896 S V es ev ->
  tmpl 0 35184372088832 805306464 33554436 807619138085682806784 S V es ev ->
  tmpl 0 35184372088832 872415336 0 804184620559863119872 S V es ev ->
  tmpl 0 35184372088832 905969772 0 801773957413605998592 S V es ev ->
  tmpl 0 35184372088832 905969772 33554436 800749595285052850176 S V es ev ->
  1000000 <= r <= 10000000000 -> 0 <= es -> 0 <= ev ->
  8 * S' <= 7 * S + 65536 * r < 8 * S' + 8 ->
  4 * V' <= 3 * V + Z.abs (S - 65536 * r) < 4 * V' + 4 ->
  0 <= es' -> 8 * P45 * es' <= 7 * (P45 + E1) * es + E1 * (7 * S + 65536 * r) + 8 * P45 * (65536 + 1) ->
  0 <= ev' -> 4 * P45 * ev' <= 3 * (P45 + E1) * ev + (P45 + E1) * es + E1 * (3 * V + Z.abs (S - 65536 * r)) + 4 * P45 * (65536 + 1) ->
  tmpl 0 35184372088832 805306464 33554436 807619138085682806784 S' V' es' ev'.
Proof. unfold tmpl, P45, E1. intros. lia. Qed.
Lemma inv1ms_10s_x2_step_185 S V es ev r S' V' es' ev' :
  65536000000 <= S <= 655360000000000 -> 0 <= V <= 655360000000000 ->

  tmpl 35184372088832 0 469762104 0 402990163558223446016 S V es ev ->
  tmpl 35184372088832 0 520093758 0 399682718237291184128 S V es ev ->
  tmpl 0 35184372088832 771752028 67108872 808661221188320100352 S V es ev ->
  tmpl 0 35184372088832 805306464 67108872 806408655863763042304 S V es ev ->
  tmpl 0 35184372088832 872415336 33554436 802955908075454332928 S V es ev ->
  tmpl 0 35184372088832 872415336 67108872 801997633068815745024 S V es ev ->
  tmpl 0 35184372088832 905969772 33554436 800749595285052850176 S V es ev ->
  tmpl 0 35184372088832 905969772 67108872 799798471680534642688 S V es ev ->
  1000000 <= r <= 10000000000 -> 0 <= es -> 0 <= ev ->
  8 * S' <= 7 * S + 65536 * r < 8 * S' + 8 ->
  4 * V' <= 3 * V + Z.abs (S - 65536 * r) < 4 * V' + 4 ->
  0 <= es' -> 8 * P45 * es' <= 7 * (P45 + E1) * es + E1 * (7 * S + 65536 * r) + 8 * P45 * (65536 + 1) ->
  0 <= ev' -> 4 * P45 * ev' <= 3 * (P45 + E1) * ev + (P45 + E1) * es + E1 * (3 * V + Z.abs (S - 65536 * r)) + 4 * P45 * (65536 + 1) ->
  tmpl 0 35184372088832 805306464 67108872 806408655863763042304 S' V' es' ev'.
Proof. unfold tmpl, P45, E1. intros. lia. Qed.
Lemma inv1ms_10s_x2_step_186 S V es ev r S' V' es' ev' :
  65536000000 <= S <= 655360000000000 -> 0 <= V <= 655360000000000 ->

  tmpl 0 0 16777218 (-8388609) (-820022133117572608) S V es ev ->
  tmpl 35184372088832 0 419430450 0 406841094355780763648 S V es ev ->
  tmpl 35184372088832 0 570425412 0 396384155471969583104 S V es ev ->
  tmpl 35184372088832 0 587202630 0 395284643709735665664 S V es ev ->
  tmpl 0 35184372088832 805306464 0 811392406381010747392 S V es ev ->
  tmpl 0 35184372088832 838860900 0 807098153047217537024 S V es ev ->
  tmpl 0 35184372088832 905969772 0 801773957413605998592 S V es ev ->
  1000000 <= r <= 10000000000 -> 0 <= es -> 0 <= ev ->
  8 * S' <= 7 * S + 65536 * r < 8 * S' + 8 ->
  4 * V' <= 3 * V + Z.abs (S - 65536 * r) < 4 * V' + 4 ->
  0 <= es' -> 8 * P45 * es' <= 7 * (P45 + E1) * es + E1 * (7 * S + 65536 * r) + 8 * P45 * (65536 + 1) ->
  0 <= ev' -> 4 * P45 * ev' <= 3 * (P45 + E1) * ev + (P45 + E1) * es + E1 * (3 * V + Z.abs (S - 65536 * r)) + 4 * P45 * (65536 + 1) ->
  tmpl 0 35184372088832 838860900 0 807098153047217537024 S' V' es' ev'.
Proof. unfold tmpl, P45, E1. intros. lia. Qed.
Lemma inv1ms_10s_x2_step_187 S V es ev r S' V' es' ev' :
  65536000000 <= S <= 655360000000000 -> 0 <= V <= 655360000000000 ->

  tmpl 35184372088832 0 452984886 0 404122051557223038976 S V es ev ->
  tmpl 35184372088832 0 587202630 0 395284643709735665664 S V es ev ->
  tmpl 0 35184372088832 805306464 33554436 807619138085682806784 S V es ev ->
  tmpl 0 35184372088832 838860900 33554436 805208475499687968768 S V es ev ->
  tmpl 0 35184372088832 905969772 0 801773957413605998592 S V es ev ->
  tmpl 0 35184372088832 905969772 33554436 800749595285052850176 S V es ev ->
  1000000 <= r <= 10000000000 -> 0 <= es -> 0 <= ev ->
  8 * S' <= 7 * S + 65536 * r < 8 * S' + 8 ->
  4 * V' <= 3 * V + Z.abs (S - 65536 * r) < 4 * V' + 4 ->
  0 <= es' -> 8 * P45 * es' <= 7 * (P45 + E1) * es + E1 * (7 * S + 65536 * r) + 8 * P45 * (65536 + 1) ->
  0 <= ev' -> 4 * P45 * ev' <= 3 * (P45 + E1) * ev + (P45 + E1) * es + E1 * (3 * V + Z.abs (S - 65536 * r)) + 4 * P45 * (65536 + 1) ->
  tmpl 0 35184372088832 838860900 33554436 805208475499687968768 S' V' es' ev'.
Proof. unfold tmpl, P45, E1. intros. lia. Qed.
Lemma inv1ms_10s_x2_step_188 S V es ev r S' V' es' ev' :
  65536000000 <= S <= 655360000000000 -> 0 <= V <= 655360000000000 ->

  tmpl 35184372088832 0 486539322 0 401883333290772660224 S V es ev ->
  tmpl 35184372088832 0 587202630 0 395284643709735665664 S V es ev ->
  tmpl 0 35184372088832 805306464 67108872 806408655863763042304 S V es ev ->
  tmpl 0 35184372088832 838860900 67108872 804198311164471934976 S V es ev ->
  tmpl 0 35184372088832 872415336 33554436 802955908075454332928 S V es ev ->
  tmpl 0 35184372088832 905969772 33554436 800749595285052850176 S V es ev ->
  tmpl 0 35184372088832 905969772 67108872 799798471680534642688 S V es ev ->
  1000000 <= r <= 10000000000 -> 0 <= es -> 0 <= ev ->
  8 * S' <= 7 * S + 65536 * r < 8 * S' + 8 ->
  4 * V' <= 3 * V + Z.abs (S - 65536 * r) < 4 * V' + 4 ->
  0 <= es' -> 8 * P45 * es' <= 7 * (P45 + E1) * es + E1 * (7 * S + 65536 * r) + 8 * P45 * (65536 + 1) ->
  0 <= ev' -> 4 * P45 * ev' <= 3 * (P45 + E1) * ev + (P45 + E1) * es + E1 * (3 * V + Z.abs (S - 65536 * r)) + 4 * P45 * (65536 + 1) ->
  tmpl 0 35184372088832 838860900 67108872 804198311164471934976 S' V' es' ev'.
Proof. unfold tmpl, P45, E1. intros. lia. Qed.
Lemma inv1ms_10s_x2_step_189 S V es ev r S' V' es' ev' :
  65536000000 <= S <= 655360000000000 -> 0 <= V <= 655360000000000 ->

  tmpl 0 0 16777218 (-8388609) (-820022133117572608) S V es ev ->
  tmpl 35184372088832 0 436207668 0 405343572022731079680 S V es ev ->
  tmpl 35184372088832 0 587202630 0 395284643709735665664 S V es ev ->
  tmpl 0 35184372088832 838860900 0 807098153047217537024 S V es ev ->
  tmpl 0 35184372088832 872415336 0 804184620559863119872 S V es ev ->
  tmpl 0 35184372088832 905969772 0 801773957413605998592 S V es ev ->
  1000000 <= r <= 10000000000 -> 0 <= es -> 0 <= ev ->
  8 * S' <= 7 * S + 65536 * r < 8 * S' + 8 ->
  4 * V' <= 3 * V + Z.abs (S - 65536 * r) < 4 * V' + 4 ->
  0 <= es' -> 8 * P45 * es' <= 7 * (P45 + E1) * es + E1 * (7 * S + 65536 * r) + 8 * P45 * (65536 + 1) ->
  0 <= ev' -> 4 * P45 * ev' <= 3 * (P45 + E1) * ev + (P45 + E1) * es + E1 * (3 * V + Z.abs (S - 65536 * r)) + 4 * P45 * (65536 + 1) ->
  tmpl 0 35184372088832 872415336 0 804184620559863119872 S' V' es' ev'.
Proof. unfold tmpl, P45, E1. intros. lia. Qed.
Lemma inv1ms_10s_x2_step_190 S V es ev r S' V' es' ev' :
  65536000000 <= S <= 655360000000000 -> 0 <= V <= 655360000000000 ->

  tmpl 35184372088832 0 469762104 0 402990163558223446016 S V es ev ->
  tmpl 35184372088832 0 587202630 0 395284643709735665664 S V es ev ->
  tmpl 0 35184372088832 838860900 33554436 805208475499687968768 S V es ev ->
  tmpl 0 35184372088832 872415336 33554436 802955908075454332928 S V es ev ->
  tmpl 0 35184372088832 905969772 0 801773957413605998592 S V es ev ->
  tmpl 0 35184372088832 905969772 33554436 800749595285052850176 S V es ev ->
  1000000 <= r <= 10000000000 -> 0 <= es -> 0 <= ev ->
  8 * S' <= 7 * S + 65536 * r < 8 * S' + 8 ->
  4 * V' <= 3 * V + Z.abs (S - 65536 * r) < 4 * V' + 4 ->
  0 <= es' -> 8 * P45 * es' <= 7 * (P45 + E1) * es + E1 * (7 * S + 65536 * r) + 8 * P45 * (65536 + 1) ->
  0 <= ev' -> 4 * P45 * ev' <= 3 * (P45 + E1) * ev + (P45 + E1) * es + E1 * (3 * V + Z.abs (S - 65536 * r)) + 4 * P45 * (65536 + 1) ->
  tmpl 0 35184372088832 872415336 33554436 802955908075454332928 S' V' es' ev'.
Proof. unfold tmpl, P45, E1. intros. lia. Qed.
Lemma inv1ms_10s_x2_step_191 S V es ev r S' V' es' ev' :
  65536000000 <= S <= 655360000000000 -> 0 <= V <= 655360000000000 ->

  tmpl 35184372088832 0 503316540 0 400782441201163960320 S V es ev ->
  tmpl 35184372088832 0 587202630 0 395284643709735665664 S V es ev ->
  tmpl 0 35184372088832 838860900 67108872 804198311164471934976 S V es ev ->
  tmpl 0 35184372088832 872415336 67108872 801997633068815745024 S V es ev ->
  tmpl 0 35184372088832 905969772 33554436 800749595285052850176 S V es ev ->
  tmpl 0 35184372088832 905969772 67108872 799798471680534642688 S V es ev ->
  1000000 <= r <= 10000000000 -> 0 <= es -> 0 <= ev ->
  8 * S' <= 7 * S + 65536 * r < 8 * S' + 8 ->
  4 * V' <= 3 * V + Z.abs (S - 65536 * r) < 4 * V' + 4 ->
  0 <= es' -> 8 * P45 * es' <= 7 * (P45 + E1) * es + E1 * (7 * S + 65536 * r) + 8 * P45 * (65536 + 1) ->
  0 <= ev' -> 4 * P45 * ev' <= 3 * (P45 + E1) * ev + (P45 + E1) * es + E1 * (3 * V + Z.abs (S - 65536 * r)) + 4 * P45 * (65536 + 1) ->
  tmpl 0 35184372088832 872415336 67108872 801997633068815745024 S' V' es' ev'.
Proof. unfold tmpl, P45, E1. intros. lia. Qed.
Lemma inv1ms_10s_x2_step_192 S V es ev r S' V' es' ev' :
  65536000000 <= S <= 655360000000000 -> 0 <= V <= 655360000000000 ->

  tmpl 0 0 16777218 (-8388609) (-820022133117572608) S V es ev ->
  tmpl 35184372088832 0 452984886 0 404122051557223038976 S V es ev ->
  tmpl 35184372088832 0 587202630 0 395284643709735665664 S V es ev ->
  tmpl 0 35184372088832 872415336 0 804184620559863119872 S V es ev ->
  tmpl 0 35184372088832 905969772 0 801773957413605998592 S V es ev ->
  1000000 <= r <= 10000000000 -> 0 <= es -> 0 <= ev ->
  8 * S' <= 7 * S + 65536 * r < 8 * S' + 8 ->
  4 * V' <= 3 * V + Z.abs (S - 65536 * r) < 4 * V' + 4 ->
  0 <= es' -> 8 * P45 * es' <= 7 * (P45 + E1) * es + E1 * (7 * S + 65536 * r) + 8 * P45 * (65536 + 1) ->
  0 <= ev' -> 4 * P45 * ev' <= 3 * (P45 + E1) * ev + (P45 + E1) * es + E1 * (3 * V + Z.abs (S - 65536 * r)) + 4 * P45 * (65536 + 1) ->
  tmpl 0 35184372088832 905969772 0 801773957413605998592 S' V' es' ev'.
Proof. unfold tmpl, P45, E1. intros. lia. Qed.
Lemma inv1ms_10s_x2_step_193 S V es ev r S' V' es' ev' :
  65536000000 <= S <= 655360000000000 -> 0 <= V <= 655360000000000 ->

  tmpl 35184372088832 0 486539322 0 401883333290772660224 S V es ev ->
  tmpl 35184372088832 0 587202630 0 395284643709735665664 S V es ev ->
  tmpl 0 35184372088832 872415336 33554436 802955908075454332928 S V es ev ->
  tmpl 0 35184372088832 905969772 0 801773957413605998592 S V es ev ->
  tmpl 0 35184372088832 905969772 33554436 800749595285052850176 S V es ev ->
  1000000 <= r <= 10000000000 -> 0 <= es -> 0 <= ev ->
  8 * S' <= 7 * S + 65536 * r < 8 * S' + 8 ->
  4 * V' <= 3 * V + Z.abs (S - 65536 * r) < 4 * V' + 4 ->
  0 <= es' -> 8 * P45 * es' <= 7 * (P45 + E1) * es + E1 * (7 * S + 65536 * r) + 8 * P45 * (65536 + 1) ->
  0 <= ev' -> 4 * P45 * ev' <= 3 * (P45 + E1) * ev + (P45 + E1) * es + E1 * (3 * V + Z.abs (S - 65536 * r)) + 4 * P45 * (65536 + 1) ->
  tmpl 0 35184372088832 905969772 33554436 800749595285052850176 S' V' es' ev'.
Proof. unfold tmpl, P45, E1. intros. lia. Qed.
Lemma inv1ms_10s_x2_step_194 S V es ev r S' V' es' ev' :
  65536000000 <= S <= 655360000000000 -> 0 <= V <= 655360000000000 ->

  tmpl 35184372088832 0 520093758 0 399682718237291184128 S V es ev ->
  tmpl 35184372088832 0 587202630 0 395284643709735665664 S V es ev ->
  tmpl 0 35184372088832 872415336 67108872 801997633068815745024 S V es ev ->
  tmpl 0 35184372088832 905969772 33554436 800749595285052850176 S V es ev ->
  tmpl 0 35184372088832 905969772 67108872 799798471680534642688 S V es ev ->
  1000000 <= r <= 10000000000 -> 0 <= es -> 0 <= ev ->
  8 * S' <= 7 * S + 65536 * r < 8 * S' + 8 ->
  4 * V' <= 3 * V + Z.abs (S - 65536 * r) < 4 * V' + 4 ->
  0 <= es' -> 8 * P45 * es' <= 7 * (P45 + E1) * es + E1 * (7 * S + 65536 * r) + 8 * P45 * (65536 + 1) ->
  0 <= ev' -> 4 * P45 * ev' <= 3 * (P45 + E1) * ev + (P45 + E1) * es + E1 * (3 * V + Z.abs (S - 65536 * r)) + 4 * P45 * (65536 + 1) ->
  tmpl 0 35184372088832 905969772 67108872 799798471680534642688 S' V' es' ev'.
Proof. unfold tmpl, P45, E1. intros. lia. Qed.
Lemma inv1ms_10s_x2_step_195 S V es ev r S' V' es' ev' :
  65536000000 <= S <= 655360000000000 -> 0 <= V <= 655360000000000 ->

  tmpl 35184372088832 0 0 0 43999234116437669838848 S V es ev ->
  tmpl 35184372088832 0 16777218 0 34225674092040490582016 S V es ev ->
  tmpl 35184372088832 140737521909764 0 0 305244166066025917317120 S V es ev ->
  1000000 <= r <= 10000000000 -> 0 <= es -> 0 <= ev ->
  8 * S' <= 7 * S + 65536 * r < 8 * S' + 8 ->
  4 * V' <= 3 * V + Z.abs (S - 65536 * r) < 4 * V' + 4 ->
  0 <= es' -> 8 * P45 * es' <= 7 * (P45 + E1) * es + E1 * (7 * S + 65536 * r) + 8 * P45 * (65536 + 1) ->
  0 <= ev' -> 4 * P45 * ev' <= 3 * (P45 + E1) * ev + (P45 + E1) * es + E1 * (3 * V + Z.abs (S - 65536 * r)) + 4 * P45 * (65536 + 1) ->
  tmpl 35184372088832 140737521909764 0 0 305244166066025917317120 S' V' es' ev'.
Proof. unfold tmpl, P45, E1. intros. lia. Qed.
Lemma inv1ms_10s_x2_step_196 S V es ev r S' V' es' ev' :
  65536000000 <= S <= 655360000000000 -> 0 <= V <= 655360000000000 ->

  tmpl 35184372088832 0 0 0 43999234116437669838848 S V es ev ->
  tmpl 35184372088832 140737521909764 0 0 305244166066025917317120 S V es ev ->
  1000000 <= r <= 10000000000 -> 0 <= es -> 0 <= ev ->
  8 * S' <= 7 * S + 65536 * r < 8 * S' + 8 ->
  4 * V' <= 3 * V + Z.abs (S - 65536 * r) < 4 * V' + 4 ->
  0 <= es' -> 8 * P45 * es' <= 7 * (P45 + E1) * es + E1 * (7 * S + 65536 * r) + 8 * P45 * (65536 + 1) ->
  0 <= ev' -> 4 * P45 * ev' <= 3 * (P45 + E1) * ev + (P45 + E1) * es + E1 * (3 * V + Z.abs (S - 65536 * r)) + 4 * P45 * (65536 + 1) ->
  tmpl 35184372088832 140737521909764 0 33554436 283941605464151301292032 S' V' es' ev'.
Proof. unfold tmpl, P45, E1. intros. lia. Qed.
Lemma inv1ms_10s_x2_step_197 S V es ev r S' V' es' ev' :
  65536000000 <= S <= 655360000000000 -> 0 <= V <= 655360000000000 ->

  tmpl 35184372088832 0 0 0 43999234116437669838848 S V es ev ->
  tmpl 35184372088832 140737521909764 0 0 305244166066025917317120 S V es ev ->
  tmpl 35184372088832 140737521909764 0 33554436 283941605464151301292032 S V es ev ->
  1000000 <= r <= 10000000000 -> 0 <= es -> 0 <= ev ->
  8 * S' <= 7 * S + 65536 * r < 8 * S' + 8 ->
  4 * V' <= 3 * V + Z.abs (S - 65536 * r) < 4 * V' + 4 ->
  0 <= es' -> 8 * P45 * es' <= 7 * (P45 + E1) * es + E1 * (7 * S + 65536 * r) + 8 * P45 * (65536 + 1) ->
  0 <= ev' -> 4 * P45 * ev' <= 3 * (P45 + E1) * ev + (P45 + E1) * es + E1 * (3 * V + Z.abs (S - 65536 * r)) + 4 * P45 * (65536 + 1) ->
  tmpl 35184372088832 140737521909764 0 67108872 267964684889779553173504 S' V' es' ev'.
Proof. unfold tmpl, P45, E1. intros. lia. Qed.
Lemma inv1ms_10s_x2_step_198 S V es ev r S' V' es' ev' :
  65536000000 <= S <= 655360000000000 -> 0 <= V <= 655360000000000 ->

  tmpl 0 0 8388609 (-16777218) 6596535554603892080640 S V es ev ->
  tmpl 35184372088832 0 33554436 0 26623771154023886880768 S V es ev ->
  tmpl 0 35184372088832 0 0 65483003519166450761728 S V es ev ->
  tmpl 0 35184372088832 33554436 0 51856350919460565024768 S V es ev ->
  1000000 <= r <= 10000000000 -> 0 <= es -> 0 <= ev ->
  8 * S' <= 7 * S + 65536 * r < 8 * S' + 8 ->
  4 * V' <= 3 * V + Z.abs (S - 65536 * r) < 4 * V' + 4 ->
  0 <= es' -> 8 * P45 * es' <= 7 * (P45 + E1) * es + E1 * (7 * S + 65536 * r) + 8 * P45 * (65536 + 1) ->
  0 <= ev' -> 4 * P45 * ev' <= 3 * (P45 + E1) * ev + (P45 + E1) * es + E1 * (3 * V + Z.abs (S - 65536 * r)) + 4 * P45 * (65536 + 1) ->
  tmpl 109951162777600000 439804755968012500 549755813888 0 721275684630122463232000000 S' V' es' ev'.
Proof. unfold tmpl, P45, E1. intros. lia. Qed.
Lemma inv1ms_10s_x2_step_199 S V es ev r S' V' es' ev' :
  65536000000 <= S <= 655360000000000 -> 0 <= V <= 655360000000000 ->

  tmpl 0 0 8388609 (-16777218) 6596535554603892080640 S V es ev ->
  tmpl 35184372088832 0 33554436 0 26623771154023886880768 S V es ev ->
  tmpl 0 35184372088832 0 0 65483003519166450761728 S V es ev ->
  tmpl 0 35184372088832 33554436 0 51856350919460565024768 S V es ev ->
  tmpl 109951162777600000 439804755968012500 549755813888 0 721275684630122463232000000 S V es ev ->
  1000000 <= r <= 10000000000 -> 0 <= es -> 0 <= ev ->
  8 * S' <= 7 * S + 65536 * r < 8 * S' + 8 ->
  4 * V' <= 3 * V + Z.abs (S - 65536 * r) < 4 * V' + 4 ->
  0 <= es' -> 8 * P45 * es' <= 7 * (P45 + E1) * es + E1 * (7 * S + 65536 * r) + 8 * P45 * (65536 + 1) ->
  0 <= ev' -> 4 * P45 * ev' <= 3 * (P45 + E1) * ev + (P45 + E1) * es + E1 * (3 * V + Z.abs (S - 65536 * r)) + 4 * P45 * (65536 + 1) ->
  tmpl 109951162777600000 439804755968012500 549755813888 104857612500 663741586352604341862400000 S' V' es' ev'.
Proof. unfold tmpl, P45, E1. intros. lia. Qed.
Lemma inv1ms_10s_x2_step_200 S V es ev r S' V' es' ev' :
  65536000000 <= S <= 655360000000000 -> 0 <= V <= 655360000000000 ->

  tmpl 35184372088832 0 33554436 0 26623771154023886880768 S V es ev ->
  tmpl 0 35184372088832 0 0 65483003519166450761728 S V es ev ->
  tmpl 35184372088832 140737521909764 0 33554436 283941605464151301292032 S V es ev ->
  tmpl 109951162777600000 439804755968012500 549755813888 104857612500 663741586352604341862400000 S V es ev ->
  1000000 <= r <= 10000000000 -> 0 <= es -> 0 <= ev ->
  8 * S' <= 7 * S + 65536 * r < 8 * S' + 8 ->
  4 * V' <= 3 * V + Z.abs (S - 65536 * r) < 4 * V' + 4 ->
  0 <= es' -> 8 * P45 * es' <= 7 * (P45 + E1) * es + E1 * (7 * S + 65536 * r) + 8 * P45 * (65536 + 1) ->
  0 <= ev' -> 4 * P45 * ev' <= 3 * (P45 + E1) * ev + (P45 + E1) * es + E1 * (3 * V + Z.abs (S - 65536 * r)) + 4 * P45 * (65536 + 1) ->
  tmpl 109951162777600000 439804755968012500 549755813888 209715225000 610134219416973449625600000 S' V' es' ev'.
Proof. unfold tmpl, P45, E1. intros. lia. Qed.
Lemma inv1ms_10s_x2_step_201 S V es ev r S' V' es' ev' :
  65536000000 <= S <= 655360000000000 -> 0 <= V <= 655360000000000 ->

  tmpl 35184372088832 0 33554436 0 26623771154023886880768 S V es ev ->
  tmpl 35184372088832 140737521909764 0 67108872 267964684889779553173504 S V es ev ->
  tmpl 109951162777600000 439804755968012500 549755813888 209715225000 610134219416973449625600000 S V es ev ->
  tmpl 109951162777600000 439804755968012500 549755813888 419430450000 520356152558334718771200000 S V es ev ->
  1000000 <= r <= 10000000000 -> 0 <= es -> 0 <= ev ->
  8 * S' <= 7 * S + 65536 * r < 8 * S' + 8 ->
  4 * V' <= 3 * V + Z.abs (S - 65536 * r) < 4 * V' + 4 ->
  0 <= es' -> 8 * P45 * es' <= 7 * (P45 + E1) * es + E1 * (7 * S + 65536 * r) + 8 * P45 * (65536 + 1) ->
  0 <= ev' -> 4 * P45 * ev' <= 3 * (P45 + E1) * ev + (P45 + E1) * es + E1 * (3 * V + Z.abs (S - 65536 * r)) + 4 * P45 * (65536 + 1) ->
  tmpl 109951162777600000 439804755968012500 549755813888 419430450000 520356152558334718771200000 S' V' es' ev'.
Proof. unfold tmpl, P45, E1. intros. lia. Qed.
Lemma inv1ms_10s_x2_step_202 S V es ev r S' V' es' ev' :
  65536000000 <= S <= 655360000000000 -> 0 <= V <= 655360000000000 ->

  tmpl 0 0 8388609 (-8388609) 1648730796089356582912 S V es ev ->
  tmpl 35184372088832 0 50331654 0 20710934392785520820224 S V es ev ->
  tmpl 0 35184372088832 67108872 0 41117121641585139777536 S V es ev ->
  tmpl 109951162777600000 439804755968012500 549755813888 209715225000 610134219416973449625600000 S V es ev ->
  tmpl 109951162777600000 439804755968012500 1099511627776 0 549874615207871800934400000 S V es ev ->
  1000000 <= r <= 10000000000 -> 0 <= es -> 0 <= ev ->
  8 * S' <= 7 * S + 65536 * r < 8 * S' + 8 ->
  4 * V' <= 3 * V + Z.abs (S - 65536 * r) < 4 * V' + 4 ->
  0 <= es' -> 8 * P45 * es' <= 7 * (P45 + E1) * es + E1 * (7 * S + 65536 * r) + 8 * P45 * (65536 + 1) ->
  0 <= ev' -> 4 * P45 * ev' <= 3 * (P45 + E1) * ev + (P45 + E1) * es + E1 * (3 * V + Z.abs (S - 65536 * r)) + 4 * P45 * (65536 + 1) ->
  tmpl 109951162777600000 439804755968012500 1099511627776 0 549874615207871800934400000 S' V' es' ev'.
Proof. unfold tmpl, P45, E1. intros. lia. Qed.
Lemma inv1ms_10s_x2_step_203 S V es ev r S' V' es' ev' :
  65536000000 <= S <= 655360000000000 -> 0 <= V <= 655360000000000 ->

  tmpl 0 0 8388609 (-8388609) 1648730796089356582912 S V es ev ->
  tmpl 35184372088832 0 50331654 0 20710934392785520820224 S V es ev ->
  tmpl 35184372088832 0 67108872 0 16111815576034815770624 S V es ev ->
  tmpl 0 35184372088832 67108872 0 41117121641585139777536 S V es ev ->
  tmpl 109951162777600000 439804755968012500 1099511627776 0 549874615207871800934400000 S V es ev ->
  tmpl 109951162777600000 439804755968012500 1099511627776 104857612500 502651689723456126976000000 S V es ev ->
  1000000 <= r <= 10000000000 -> 0 <= es -> 0 <= ev ->
  8 * S' <= 7 * S + 65536 * r < 8 * S' + 8 ->
  4 * V' <= 3 * V + Z.abs (S - 65536 * r) < 4 * V' + 4 ->
  0 <= es' -> 8 * P45 * es' <= 7 * (P45 + E1) * es + E1 * (7 * S + 65536 * r) + 8 * P45 * (65536 + 1) ->
  0 <= ev' -> 4 * P45 * ev' <= 3 * (P45 + E1) * ev + (P45 + E1) * es + E1 * (3 * V + Z.abs (S - 65536 * r)) + 4 * P45 * (65536 + 1) ->
  tmpl 109951162777600000 439804755968012500 1099511627776 104857612500 502651689723456126976000000 S' V' es' ev'.
Proof. unfold tmpl, P45, E1. intros. lia. Qed.
Lemma inv1ms_10s_x2_step_204 S V es ev r S' V' es' ev' :
  65536000000 <= S <= 655360000000000 -> 0 <= V <= 655360000000000 ->

  tmpl 35184372088832 0 50331654 0 20710934392785520820224 S V es ev ->
  tmpl 35184372088832 0 67108872 0 16111815576034815770624 S V es ev ->
  tmpl 0 35184372088832 67108872 0 41117121641585139777536 S V es ev ->
  tmpl 0 35184372088832 100663308 0 32880950580924523741184 S V es ev ->
  tmpl 109951162777600000 439804755968012500 549755813888 209715225000 610134219416973449625600000 S V es ev ->
  tmpl 109951162777600000 439804755968012500 1099511627776 104857612500 502651689723456126976000000 S V es ev ->
  tmpl 109951162777600000 439804755968012500 1099511627776 209715225000 460010847367308456755200000 S V es ev ->
  1000000 <= r <= 10000000000 -> 0 <= es -> 0 <= ev ->
  8 * S' <= 7 * S + 65536 * r < 8 * S' + 8 ->
  4 * V' <= 3 * V + Z.abs (S - 65536 * r) < 4 * V' + 4 ->
  0 <= es' -> 8 * P45 * es' <= 7 * (P45 + E1) * es + E1 * (7 * S + 65536 * r) + 8 * P45 * (65536 + 1) ->
  0 <= ev' -> 4 * P45 * ev' <= 3 * (P45 + E1) * ev + (P45 + E1) * es + E1 * (3 * V + Z.abs (S - 65536 * r)) + 4 * P45 * (65536 + 1) ->
  tmpl 109951162777600000 439804755968012500 1099511627776 209715225000 460010847367308456755200000 S' V' es' ev'.
Proof. unfold tmpl, P45, E1. intros. lia. Qed.
Lemma inv1ms_10s_x2_step_205 S V es ev r S' V' es' ev' :
  65536000000 <= S <= 655360000000000 -> 0 <= V <= 655360000000000 ->

  tmpl 35184372088832 0 67108872 0 16111815576034815770624 S V es ev ->
  tmpl 35184372088832 0 83886090 0 12534477450322265505792 S V es ev ->
  tmpl 0 35184372088832 67108872 33554436 27569976611144382545920 S V es ev ->
  tmpl 109951162777600000 439804755968012500 549755813888 419430450000 520356152558334718771200000 S V es ev ->
  tmpl 109951162777600000 439804755968012500 1099511627776 209715225000 460010847367308456755200000 S V es ev ->
  tmpl 109951162777600000 439804755968012500 1099511627776 419430450000 383248869666463888179200000 S V es ev ->
  1000000 <= r <= 10000000000 -> 0 <= es -> 0 <= ev ->
  8 * S' <= 7 * S + 65536 * r < 8 * S' + 8 ->
  4 * V' <= 3 * V + Z.abs (S - 65536 * r) < 4 * V' + 4 ->
  0 <= es' -> 8 * P45 * es' <= 7 * (P45 + E1) * es + E1 * (7 * S + 65536 * r) + 8 * P45 * (65536 + 1) ->
  0 <= ev' -> 4 * P45 * ev' <= 3 * (P45 + E1) * ev + (P45 + E1) * es + E1 * (3 * V + Z.abs (S - 65536 * r)) + 4 * P45 * (65536 + 1) ->
  tmpl 109951162777600000 439804755968012500 1099511627776 419430450000 383248869666463888179200000 S' V' es' ev'.
Proof. unfold tmpl, P45, E1. intros. lia. Qed.
Lemma inv1ms_10s_x2_step_206 S V es ev r S' V' es' ev' :
  65536000000 <= S <= 655360000000000 -> 0 <= V <= 655360000000000 ->

  tmpl 0 0 8388609 (-8388609) 1648730796089356582912 S V es ev ->
  tmpl 0 0 16777218 (-8388609) (-820022133117572608) S V es ev ->
  tmpl 35184372088832 0 67108872 0 16111815576034815770624 S V es ev ->
  tmpl 35184372088832 0 83886090 0 12534477450322265505792 S V es ev ->
  tmpl 0 35184372088832 100663308 0 32880950580924523741184 S V es ev ->
  tmpl 109951162777600000 439804755968012500 1099511627776 104857612500 502651689723456126976000000 S V es ev ->
  tmpl 109951162777600000 439804755968012500 1649267441664 0 423219155169629962240000000 S V es ev ->
  1000000 <= r <= 10000000000 -> 0 <= es -> 0 <= ev ->
  8 * S' <= 7 * S + 65536 * r < 8 * S' + 8 ->
  4 * V' <= 3 * V + Z.abs (S - 65536 * r) < 4 * V' + 4 ->
  0 <= es' -> 8 * P45 * es' <= 7 * (P45 + E1) * es + E1 * (7 * S + 65536 * r) + 8 * P45 * (65536 + 1) ->
  0 <= ev' -> 4 * P45 * ev' <= 3 * (P45 + E1) * ev + (P45 + E1) * es + E1 * (3 * V + Z.abs (S - 65536 * r)) + 4 * P45 * (65536 + 1) ->
  tmpl 109951162777600000 439804755968012500 1649267441664 0 423219155169629962240000000 S' V' es' ev'.
Proof. unfold tmpl, P45, E1. intros. lia. Qed.
Lemma inv1ms_10s_x2_step_207 S V es ev r S' V' es' ev' :
  65536000000 <= S <= 655360000000000 -> 0 <= V <= 655360000000000 ->

  tmpl 0 0 8388609 (-8388609) 1648730796089356582912 S V es ev ->
  tmpl 0 0 16777218 (-8388609) (-820022133117572608) S V es ev ->
  tmpl 35184372088832 0 67108872 0 16111815576034815770624 S V es ev ->
  tmpl 35184372088832 0 83886090 0 12534477450322265505792 S V es ev ->
  tmpl 0 35184372088832 100663308 0 32880950580924523741184 S V es ev ->
  tmpl 0 35184372088832 134217744 0 26459941626017174519808 S V es ev ->
  tmpl 109951162777600000 439804755968012500 1649267441664 0 423219155169629962240000000 S V es ev ->
  1000000 <= r <= 10000000000 -> 0 <= es -> 0 <= ev ->
  8 * S' <= 7 * S + 65536 * r < 8 * S' + 8 ->
  4 * V' <= 3 * V + Z.abs (S - 65536 * r) < 4 * V' + 4 ->
  0 <= es' -> 8 * P45 * es' <= 7 * (P45 + E1) * es + E1 * (7 * S + 65536 * r) + 8 * P45 * (65536 + 1) ->
  0 <= ev' -> 4 * P45 * ev' <= 3 * (P45 + E1) * ev + (P45 + E1) * es + E1 * (3 * V + Z.abs (S - 65536 * r)) + 4 * P45 * (65536 + 1) ->
  tmpl 109951162777600000 439804755968012500 1649267441664 104857612500 384939419637849102745600000 S' V' es' ev'.
Proof. unfold tmpl, P45, E1. intros. lia. Qed.
Lemma inv1ms_10s_x2_step_208 S V es ev r S' V' es' ev' :
  65536000000 <= S <= 655360000000000 -> 0 <= V <= 655360000000000 ->

  tmpl 35184372088832 0 83886090 0 12534477450322265505792 S V es ev ->
  tmpl 0 35184372088832 134217744 0 26459941626017174519808 S V es ev ->
  tmpl 109951162777600000 439804755968012500 1099511627776 419430450000 383248869666463888179200000 S V es ev ->
  tmpl 109951162777600000 439804755968012500 1649267441664 0 423219155169629962240000000 S V es ev ->
  tmpl 109951162777600000 439804755968012500 1649267441664 104857612500 384939419637849102745600000 S V es ev ->
  tmpl 109951162777600000 439804755968012500 1649267441664 209715225000 350388785952571575500800000 S V es ev ->
  1000000 <= r <= 10000000000 -> 0 <= es -> 0 <= ev ->
  8 * S' <= 7 * S + 65536 * r < 8 * S' + 8 ->
  4 * V' <= 3 * V + Z.abs (S - 65536 * r) < 4 * V' + 4 ->
  0 <= es' -> 8 * P45 * es' <= 7 * (P45 + E1) * es + E1 * (7 * S + 65536 * r) + 8 * P45 * (65536 + 1) ->
  0 <= ev' -> 4 * P45 * ev' <= 3 * (P45 + E1) * ev + (P45 + E1) * es + E1 * (3 * V + Z.abs (S - 65536 * r)) + 4 * P45 * (65536 + 1) ->
  tmpl 109951162777600000 439804755968012500 1649267441664 209715225000 350388785952571575500800000 S' V' es' ev'.
Proof. unfold tmpl, P45, E1. intros. lia. Qed.
Lemma inv1ms_10s_x2_step_209 S V es ev r S' V' es' ev' :
  65536000000 <= S <= 655360000000000 -> 0 <= V <= 655360000000000 ->

  tmpl 35184372088832 0 83886090 0 12534477450322265505792 S V es ev ->
  tmpl 35184372088832 0 100663308 0 9751858405112184569856 S V es ev ->
  tmpl 0 35184372088832 100663308 33554436 21626668937271157194752 S V es ev ->
  tmpl 109951162777600000 439804755968012500 1649267441664 209715225000 350388785952571575500800000 S V es ev ->
  tmpl 109951162777600000 439804755968012500 1649267441664 419430450000 289023183573708963840000000 S V es ev ->
  tmpl 109951162777600000 439804755968012500 2199023255552 104857612500 296536192690772246528000000 S V es ev ->
  1000000 <= r <= 10000000000 -> 0 <= es -> 0 <= ev ->
  8 * S' <= 7 * S + 65536 * r < 8 * S' + 8 ->
  4 * V' <= 3 * V + Z.abs (S - 65536 * r) < 4 * V' + 4 ->
  0 <= es' -> 8 * P45 * es' <= 7 * (P45 + E1) * es + E1 * (7 * S + 65536 * r) + 8 * P45 * (65536 + 1) ->
  0 <= ev' -> 4 * P45 * ev' <= 3 * (P45 + E1) * ev + (P45 + E1) * es + E1 * (3 * V + Z.abs (S - 65536 * r)) + 4 * P45 * (65536 + 1) ->
  tmpl 109951162777600000 439804755968012500 1649267441664 419430450000 289023183573708963840000000 S' V' es' ev'.
Proof. unfold tmpl, P45, E1. intros. lia. Qed.
Lemma inv1ms_10s_x2_step_210 S V es ev r S' V' es' ev' :
  65536000000 <= S <= 655360000000000 -> 0 <= V <= 655360000000000 ->

  tmpl 35184372088832 0 100663308 0 9751858405112184569856 S V es ev ->
  tmpl 0 35184372088832 134217744 33554436 17071037512916144226304 S V es ev ->
  tmpl 109951162777600000 439804755968012500 1649267441664 419430450000 289023183573708963840000000 S V es ev ->
  tmpl 109951162777600000 439804755968012500 1649267441664 838860900000 198452313444015354675200000 S V es ev ->
  1000000 <= r <= 10000000000 -> 0 <= es -> 0 <= ev ->
  8 * S' <= 7 * S + 65536 * r < 8 * S' + 8 ->
  4 * V' <= 3 * V + Z.abs (S - 65536 * r) < 4 * V' + 4 ->
  0 <= es' -> 8 * P45 * es' <= 7 * (P45 + E1) * es + E1 * (7 * S + 65536 * r) + 8 * P45 * (65536 + 1) ->
  0 <= ev' -> 4 * P45 * ev' <= 3 * (P45 + E1) * ev + (P45 + E1) * es + E1 * (3 * V + Z.abs (S - 65536 * r)) + 4 * P45 * (65536 + 1) ->
  tmpl 109951162777600000 439804755968012500 1649267441664 838860900000 198452313444015354675200000 S' V' es' ev'.
Proof. unfold tmpl, P45, E1. intros. lia. Qed.
Lemma inv1ms_10s_x2_step_211 S V es ev r S' V' es' ev' :
  65536000000 <= S <= 655360000000000 -> 0 <= V <= 655360000000000 ->

  tmpl 0 0 16777218 (-8388609) (-820022133117572608) S V es ev ->
  tmpl 35184372088832 0 83886090 0 12534477450322265505792 S V es ev ->
  tmpl 35184372088832 0 100663308 0 9751858405112184569856 S V es ev ->
  tmpl 0 35184372088832 134217744 0 26459941626017174519808 S V es ev ->
  tmpl 109951162777600000 439804755968012500 1649267441664 0 423219155169629962240000000 S V es ev ->
  tmpl 109951162777600000 439804755968012500 2199023255552 0 327405141875354448691200000 S V es ev ->
  tmpl 109951162777600000 439804755968012500 2199023255552 104857612500 296536192690772246528000000 S V es ev ->
  1000000 <= r <= 10000000000 -> 0 <= es -> 0 <= ev ->
  8 * S' <= 7 * S + 65536 * r < 8 * S' + 8 ->
  4 * V' <= 3 * V + Z.abs (S - 65536 * r) < 4 * V' + 4 ->
  0 <= es' -> 8 * P45 * es' <= 7 * (P45 + E1) * es + E1 * (7 * S + 65536 * r) + 8 * P45 * (65536 + 1) ->
  0 <= ev' -> 4 * P45 * ev' <= 3 * (P45 + E1) * ev + (P45 + E1) * es + E1 * (3 * V + Z.abs (S - 65536 * r)) + 4 * P45 * (65536 + 1) ->
  tmpl 109951162777600000 439804755968012500 2199023255552 0 327405141875354448691200000 S' V' es' ev'.
Proof. unfold tmpl, P45, E1. intros. lia. Qed.
Lemma inv1ms_10s_x2_step_212 S V es ev r S' V' es' ev' :
  65536000000 <= S <= 655360000000000 -> 0 <= V <= 655360000000000 ->

  tmpl 0 0 16777218 (-8388609) (-820022133117572608) S V es ev ->
  tmpl 35184372088832 0 100663308 0 9751858405112184569856 S V es ev ->
  tmpl 0 35184372088832 134217744 0 26459941626017174519808 S V es ev ->
  tmpl 109951162777600000 439804755968012500 2199023255552 0 327405141875354448691200000 S V es ev ->
  tmpl 109951162777600000 439804755968012500 2199023255552 104857612500 296536192690772246528000000 S V es ev ->
  tmpl 109951162777600000 439804755968012500 2199023255552 209715225000 268379475142951829504000000 S V es ev ->
  1000000 <= r <= 10000000000 -> 0 <= es -> 0 <= ev ->
  8 * S' <= 7 * S + 65536 * r < 8 * S' + 8 ->
  4 * V' <= 3 * V + Z.abs (S - 65536 * r) < 4 * V' + 4 ->
  0 <= es' -> 8 * P45 * es' <= 7 * (P45 + E1) * es + E1 * (7 * S + 65536 * r) + 8 * P45 * (65536 + 1) ->
  0 <= ev' -> 4 * P45 * ev' <= 3 * (P45 + E1) * ev + (P45 + E1) * es + E1 * (3 * V + Z.abs (S - 65536 * r)) + 4 * P45 * (65536 + 1) ->
  tmpl 109951162777600000 439804755968012500 2199023255552 104857612500 296536192690772246528000000 S' V' es' ev'.
Proof. unfold tmpl, P45, E1. intros. lia. Qed.
Lemma inv1ms_10s_x2_step_213 S V es ev r S' V' es' ev' :
  65536000000 <= S <= 655360000000000 -> 0 <= V <= 655360000000000 ->

  tmpl 0 0 16777218 (-8388609) (-820022133117572608) S V es ev ->
  tmpl 35184372088832 0 100663308 0 9751858405112184569856 S V es ev ->
  tmpl 35184372088832 0 117440526 0 7587357747373541425152 S V es ev ->
  tmpl 109951162777600000 439804755968012500 1649267441664 209715225000 350388785952571575500800000 S V es ev ->
  tmpl 109951162777600000 439804755968012500 2199023255552 0 327405141875354448691200000 S V es ev ->
  tmpl 109951162777600000 439804755968012500 2199023255552 104857612500 296536192690772246528000000 S V es ev ->
  tmpl 109951162777600000 439804755968012500 2199023255552 209715225000 268379475142951829504000000 S V es ev ->
  1000000 <= r <= 10000000000 -> 0 <= es -> 0 <= ev ->
  8 * S' <= 7 * S + 65536 * r < 8 * S' + 8 ->
  4 * V' <= 3 * V + Z.abs (S - 65536 * r) < 4 * V' + 4 ->
  0 <= es' -> 8 * P45 * es' <= 7 * (P45 + E1) * es + E1 * (7 * S + 65536 * r) + 8 * P45 * (65536 + 1) ->
  0 <= ev' -> 4 * P45 * ev' <= 3 * (P45 + E1) * ev + (P45 + E1) * es + E1 * (3 * V + Z.abs (S - 65536 * r)) + 4 * P45 * (65536 + 1) ->
  tmpl 109951162777600000 439804755968012500 2199023255552 209715225000 268379475142951829504000000 S' V' es' ev'.
Proof. unfold tmpl, P45, E1. intros. lia. Qed.
Lemma inv1ms_10s_x2_step_214 S V es ev r S' V' es' ev' :
  65536000000 <= S <= 655360000000000 -> 0 <= V <= 655360000000000 ->

  tmpl 35184372088832 0 100663308 0 9751858405112184569856 S V es ev ->
  tmpl 35184372088832 0 117440526 0 7587357747373541425152 S V es ev ->
  tmpl 0 35184372088832 134217744 33554436 17071037512916144226304 S V es ev ->
  tmpl 0 35184372088832 201326616 0 16968742878223288762368 S V es ev ->
  tmpl 109951162777600000 439804755968012500 2199023255552 209715225000 268379475142951829504000000 S V es ev ->
  tmpl 109951162777600000 439804755968012500 2199023255552 419430450000 219405188725302126182400000 S V es ev ->
  1000000 <= r <= 10000000000 -> 0 <= es -> 0 <= ev ->
  8 * S' <= 7 * S + 65536 * r < 8 * S' + 8 ->
  4 * V' <= 3 * V + Z.abs (S - 65536 * r) < 4 * V' + 4 ->
  0 <= es' -> 8 * P45 * es' <= 7 * (P45 + E1) * es + E1 * (7 * S + 65536 * r) + 8 * P45 * (65536 + 1) ->
  0 <= ev' -> 4 * P45 * ev' <= 3 * (P45 + E1) * ev + (P45 + E1) * es + E1 * (3 * V + Z.abs (S - 65536 * r)) + 4 * P45 * (65536 + 1) ->
  tmpl 109951162777600000 439804755968012500 2199023255552 419430450000 219405188725302126182400000 S' V' es' ev'.
Proof. unfold tmpl, P45, E1. intros. lia. Qed.
Lemma inv1ms_10s_x2_step_215 S V es ev r S' V' es' ev' :
  65536000000 <= S <= 655360000000000 -> 0 <= V <= 655360000000000 ->

  tmpl 35184372088832 0 134217744 0 5903629511765034795008 S V es ev ->
  tmpl 0 35184372088832 134217744 67108872 10993953939810357870592 S V es ev ->
  tmpl 0 35184372088832 167772180 33554436 13515504633843921453056 S V es ev ->
  tmpl 109951162777600000 439804755968012500 1649267441664 838860900000 198452313444015354675200000 S V es ev ->
  tmpl 109951162777600000 439804755968012500 2199023255552 838860900000 147277324490028928204800000 S V es ev ->
  1000000 <= r <= 10000000000 -> 0 <= es -> 0 <= ev ->
  8 * S' <= 7 * S + 65536 * r < 8 * S' + 8 ->
  4 * V' <= 3 * V + Z.abs (S - 65536 * r) < 4 * V' + 4 ->
  0 <= es' -> 8 * P45 * es' <= 7 * (P45 + E1) * es + E1 * (7 * S + 65536 * r) + 8 * P45 * (65536 + 1) ->
  0 <= ev' -> 4 * P45 * ev' <= 3 * (P45 + E1) * ev + (P45 + E1) * es + E1 * (3 * V + Z.abs (S - 65536 * r)) + 4 * P45 * (65536 + 1) ->
  tmpl 109951162777600000 439804755968012500 2199023255552 838860900000 147277324490028928204800000 S' V' es' ev'.
Proof. unfold tmpl, P45, E1. intros. lia. Qed.
Lemma inv1ms_10s_x2_step_216 S V es ev r S' V' es' ev' :
  65536000000 <= S <= 655360000000000 -> 0 <= V <= 655360000000000 ->

  tmpl 35184372088832 0 117440526 33554436 3057196847105324875776 S V es ev ->
  tmpl 0 35184372088832 167772180 67108872 8572064083350197895168 S V es ev ->
  tmpl 0 35184372088832 201326616 67108872 6741615387513599295488 S V es ev ->
  tmpl 109951162777600000 439804755968012500 2199023255552 1677721800000 77077647401638572851200000 S V es ev ->
  1000000 <= r <= 10000000000 -> 0 <= es -> 0 <= ev ->
  8 * S' <= 7 * S + 65536 * r < 8 * S' + 8 ->
  4 * V' <= 3 * V + Z.abs (S - 65536 * r) < 4 * V' + 4 ->
  0 <= es' -> 8 * P45 * es' <= 7 * (P45 + E1) * es + E1 * (7 * S + 65536 * r) + 8 * P45 * (65536 + 1) ->
  0 <= ev' -> 4 * P45 * ev' <= 3 * (P45 + E1) * ev + (P45 + E1) * es + E1 * (3 * V + Z.abs (S - 65536 * r)) + 4 * P45 * (65536 + 1) ->
  tmpl 109951162777600000 439804755968012500 2199023255552 1677721800000 77077647401638572851200000 S' V' es' ev'.
Proof. unfold tmpl, P45, E1. intros. lia. Qed.
Lemma inv1ms_10s_x2_step_217 S V es ev r S' V' es' ev' :
  65536000000 <= S <= 655360000000000 -> 0 <= V <= 655360000000000 ->

  tmpl 35184372088832 0 117440526 67108872 1392397500307826278400 S V es ev ->
  tmpl 0 35184372088832 167772180 134217744 4215169424604657090560 S V es ev ->
  tmpl 0 35184372088832 201326616 134217744 3058891721611971919872 S V es ev ->
  tmpl 109951162777600000 439804755968012500 2199023255552 3355443600000 33480816810973095526400000 S V es ev ->
  1000000 <= r <= 10000000000 -> 0 <= es -> 0 <= ev ->
  8 * S' <= 7 * S + 65536 * r < 8 * S' + 8 ->
  4 * V' <= 3 * V + Z.abs (S - 65536 * r) < 4 * V' + 4 ->
  0 <= es' -> 8 * P45 * es' <= 7 * (P45 + E1) * es + E1 * (7 * S + 65536 * r) + 8 * P45 * (65536 + 1) ->
  0 <= ev' -> 4 * P45 * ev' <= 3 * (P45 + E1) * ev + (P45 + E1) * es + E1 * (3 * V + Z.abs (S - 65536 * r)) + 4 * P45 * (65536 + 1) ->
  tmpl 109951162777600000 439804755968012500 2199023255552 3355443600000 33480816810973095526400000 S' V' es' ev'.
Proof. unfold tmpl, P45, E1. intros. lia. Qed.
Lemma inv1ms_10s_x2_step_218 S V es ev r S' V' es' ev' :
  65536000000 <= S <= 655360000000000 -> 0 <= V <= 655360000000000 ->

  tmpl 35184372088832 0 117440526 134217744 638004304566461267968 S V es ev ->
  tmpl 0 35184372088832 167772180 268435488 1693521709208180883456 S V es ev ->
  tmpl 0 35184372088832 201326616 268435488 1226431088791035052032 S V es ev ->
  tmpl 109951162777600000 439804755968012500 2199023255552 6710887200000 15280163592723192217600000 S V es ev ->
  1000000 <= r <= 10000000000 -> 0 <= es -> 0 <= ev ->
  8 * S' <= 7 * S + 65536 * r < 8 * S' + 8 ->
  4 * V' <= 3 * V + Z.abs (S - 65536 * r) < 4 * V' + 4 ->
  0 <= es' -> 8 * P45 * es' <= 7 * (P45 + E1) * es + E1 * (7 * S + 65536 * r) + 8 * P45 * (65536 + 1) ->
  0 <= ev' -> 4 * P45 * ev' <= 3 * (P45 + E1) * ev + (P45 + E1) * es + E1 * (3 * V + Z.abs (S - 65536 * r)) + 4 * P45 * (65536 + 1) ->
  tmpl 109951162777600000 439804755968012500 2199023255552 6710887200000 15280163592723192217600000 S' V' es' ev'.
Proof. unfold tmpl, P45, E1. intros. lia. Qed.
Lemma inv1ms_10s_x2_step_219 S V es ev r S' V' es' ev' :
  65536000000 <= S <= 655360000000000 -> 0 <= V <= 655360000000000 ->

  tmpl 35184372088832 0 100663308 268435488 524880204234233085952 S V es ev ->
  tmpl 35184372088832 0 134217744 134217744 503140616911589605376 S V es ev ->
  tmpl 0 35184372088832 167772180 536870976 923897766221642858496 S V es ev ->
  tmpl 109951162777600000 439804755968012500 2199023255552 6710887200000 15280163592723192217600000 S V es ev ->
  1000000 <= r <= 10000000000 -> 0 <= es -> 0 <= ev ->
  8 * S' <= 7 * S + 65536 * r < 8 * S' + 8 ->
  4 * V' <= 3 * V + Z.abs (S - 65536 * r) < 4 * V' + 4 ->
  0 <= es' -> 8 * P45 * es' <= 7 * (P45 + E1) * es + E1 * (7 * S + 65536 * r) + 8 * P45 * (65536 + 1) ->
  0 <= ev' -> 4 * P45 * ev' <= 3 * (P45 + E1) * ev + (P45 + E1) * es + E1 * (3 * V + Z.abs (S - 65536 * r)) + 4 * P45 * (65536 + 1) ->
  tmpl 109951162777600000 439804755968012500 2199023255552 8691235409708 13082718307439291596800000 S' V' es' ev'.
Proof. unfold tmpl, P45, E1. intros. lia. Qed.
Lemma Inv1ms_10s_x2_step S V es ev r S' V' es' ev' : Inv1ms_10s_x2 S V es ev ->
  1000000 <= r <= 10000000000 -> 0 <= es -> 0 <= ev ->
  8 * S' <= 7 * S + 65536 * r < 8 * S' + 8 ->
  4 * V' <= 3 * V + Z.abs (S - 65536 * r) < 4 * V' + 4 ->
  0 <= es' -> 8 * P45 * es' <= 7 * (P45 + E1) * es + E1 * (7 * S + 65536 * r) + 8 * P45 * (65536 + 1) ->
  0 <= ev' -> 4 * P45 * ev' <= 3 * (P45 + E1) * ev + (P45 + E1) * es + E1 * (3 * V + Z.abs (S - 65536 * r)) + 4 * P45 * (65536 + 1) ->
  Inv1ms_10s_x2 S' V' es' ev'.
Proof.
  intros [[[[[[[B1 [B2 H4]] [H5 [H6 H7]]] [[H8 [H9 H10]] [[H11 H12] [H13 H14]]]] [[[H15 [H16 H17]] [[H18 H19] [H20 H21]]] [[H22 [H23 H24]] [[H25 H26] [H27 H28]]]]] [[[[H29 [H30 H31]] [H32 [H33 H34]]] [[H35 [H36 H37]] [[H38 H39] [H40 H41]]]] [[[H42 [H43 H44]] [[H45 H46] [H47 H48]]] [[H49 [H50 H51]] [[H52 H53] [H54 H55]]]]]] [[[[[H56 [H57 H58]] [H59 [H60 H61]]] [[H62 [H63 H64]] [[H65 H66] [H67 H68]]]] [[[H69 [H70 H71]] [[H72 H73] [H74 H75]]] [[H76 [H77 H78]] [[H79 H80] [H81 H82]]]]] [[[[H83 [H84 H85]] [[H86 H87] [H88 H89]]] [[H90 [H91 H92]] [[H93 H94] [H95 H96]]]] [[[H97 [H98 H99]] [[H100 H101] [H102 H103]]] [[H104 [H105 H106]] [[H107 H108] [H109 H110]]]]]]] [[[[[[H111 [H112 H113]] [H114 [H115 H116]]] [[H117 [H118 H119]] [[H120 H121] [H122 H123]]]] [[[H124 [H125 H126]] [[H127 H128] [H129 H130]]] [[H131 [H132 H133]] [[H134 H135] [H136 H137]]]]] [[[[H138 [H139 H140]] [H141 [H142 H143]]] [[H144 [H145 H146]] [[H147 H148] [H149 H150]]]] [[[H151 [H152 H153]] [[H154 H155] [H156 H157]]] [[H158 [H159 H160]] [[H161 H162] [H163 H164]]]]]] [[[[[H165 [H166 H167]] [H168 [H169 H170]]] [[H171 [H172 H173]] [[H174 H175] [H176 H177]]]] [[[H178 [H179 H180]] [[H181 H182] [H183 H184]]] [[H185 [H186 H187]] [[H188 H189] [H190 H191]]]]] [[[[H192 [H193 H194]] [[H195 H196] [H197 H198]]] [[H199 [H200 H201]] [[H202 H203] [H204 H205]]]] [[[H206 [H207 H208]] [[H209 H210] [H211 H212]]] [[H213 [H214 H215]] [[H216 H217] [H218 H219]]]]]]]] Hr He Hv HS HV He' Re Hv' Rv.
  unfold Inv1ms_10s_x2.
  split; [split; [split; [split; [split; [split; [split; [lia|split; [lia|apply (inv1ms_10s_x2_step_4 S V es ev r S' V' es' ev'); assumption]]|split; [apply (inv1ms_10s_x2_step_5 S V es ev r S' V' es' ev'); assumption|split; [apply (inv1ms_10s_x2_step_6 S V es ev r S' V' es' ev'); assumption|apply (inv1ms_10s_x2_step_7 S V es ev r S' V' es' ev'); assumption]]]|split; [split; [apply (inv1ms_10s_x2_step_8 S V es ev r S' V' es' ev'); assumption|split; [apply (inv1ms_10s_x2_step_9 S V es ev r S' V' es' ev'); assumption|apply (inv1ms_10s_x2_step_10 S V es ev r S' V' es' ev'); assumption]]|split; [split; [apply (inv1ms_10s_x2_step_11 S V es ev r S' V' es' ev'); assumption|apply (inv1ms_10s_x2_step_12 S V es ev r S' V' es' ev'); assumption]|split; [apply (inv1ms_10s_x2_step_13 S V es ev r S' V' es' ev'); assumption|apply (inv1ms_10s_x2_step_14 S V es ev r S' V' es' ev'); assumption]]]]|split; [split; [split; [apply (inv1ms_10s_x2_step_15 S V es ev r S' V' es' ev'); assumption|split; [apply (inv1ms_10s_x2_step_16 S V es ev r S' V' es' ev'); assumption|apply (inv1ms_10s_x2_step_17 S V es ev r S' V' es' ev'); assumption]]|split; [split; [apply (inv1ms_10s_x2_step_18 S V es ev r S' V' es' ev'); assumption|apply (inv1ms_10s_x2_step_19 S V es ev r S' V' es' ev'); assumption]|split; [apply (inv1ms_10s_x2_step_20 S V es ev r S' V' es' ev'); assumption|apply (inv1ms_10s_x2_step_21 S V es ev r S' V' es' ev'); assumption]]]|split; [split; [apply (inv1ms_10s_x2_step_22 S V es ev r S' V' es' ev'); assumption|split; [apply (inv1ms_10s_x2_step_23 S V es ev r S' V' es' ev'); assumption|apply (inv1ms_10s_x2_step_24 S V es ev r S' V' es' ev'); assumption]]|split; [split; [apply (inv1ms_10s_x2_step_25 S V es ev r S' V' es' ev'); assumption|apply (inv1ms_10s_x2_step_26 S V es ev r S' V' es' ev'); assumption]|split; [apply (inv1ms_10s_x2_step_27 S V es ev r S' V' es' ev'); assumption|apply (inv1ms_10s_x2_step_28 S V es ev r S' V' es' ev'); assumption]]]]]|split; [split; [split; [split; [apply (inv1ms_10s_x2_step_29 S V es ev r S' V' es' ev'); assumption|split; [apply (inv1ms_10s_x2_step_30 S V es ev r S' V' es' ev'); assumption|apply (inv1ms_10s_x2_step_31 S V es ev r S' V' es' ev'); assumption]]|split; [apply (inv1ms_10s_x2_step_32 S V es ev r S' V' es' ev'); assumption|split; [apply (inv1ms_10s_x2_step_33 S V es ev r S' V' es' ev'); assumption|apply (inv1ms_10s_x2_step_34 S V es ev r S' V' es' ev'); assumption]]]|split; [split; [apply (inv1ms_10s_x2_step_35 S V es ev r S' V' es' ev'); assumption|split; [apply (inv1ms_10s_x2_step_36 S V es ev r S' V' es' ev'); assumption|apply (inv1ms_10s_x2_step_37 S V es ev r S' V' es' ev'); assumption]]|split; [split; [apply (inv1ms_10s_x2_step_38 S V es ev r S' V' es' ev'); assumption|apply (inv1ms_10s_x2_step_39 S V es ev r S' V' es' ev'); assumption]|split; [apply (inv1ms_10s_x2_step_40 S V es ev r S' V' es' ev'); assumption|apply (inv1ms_10s_x2_step_41 S V es ev r S' V' es' ev'); assumption]]]]|split; [split; [split; [apply (inv1ms_10s_x2_step_42 S V es ev r S' V' es' ev'); assumption|split; [apply (inv1ms_10s_x2_step_43 S V es ev r S' V' es' ev'); assumption|apply (inv1ms_10s_x2_step_44 S V es ev r S' V' es' ev'); assumption]]|split; [split; [apply (inv1ms_10s_x2_step_45 S V es ev r S' V' es' ev'); assumption|apply (inv1ms_10s_x2_step_46 S V es ev r S' V' es' ev'); assumption]|split; [apply (inv1ms_10s_x2_step_47 S V es ev r S' V' es' ev'); assumption|apply (inv1ms_10s_x2_step_48 S V es ev r S' V' es' ev'); assumption]]]|split; [split; [apply (inv1ms_10s_x2_step_49 S V es ev r S' V' es' ev'); assumption|split; [apply (inv1ms_10s_x2_step_50 S V es ev r S' V' es' ev'); assumption|apply (inv1ms_10s_x2_step_51 S V es ev r S' V' es' ev'); assumption]]|split; [split; [apply (inv1ms_10s_x2_step_52 S V es ev r S' V' es' ev'); assumption|apply (inv1ms_10s_x2_step_53 S V es ev r S' V' es' ev'); assumption]|split; [apply (inv1ms_10s_x2_step_54 S V es ev r S' V' es' ev'); assumption|apply (inv1ms_10s_x2_step_55 S V es ev r S' V' es' ev'); assumption]]]]]]|split; [split; [split; [split; [split; [apply (inv1ms_10s_x2_step_56 S V es ev r S' V' es' ev'); assumption|split; [apply (inv1ms_10s_x2_step_57 S V es ev r S' V' es' ev'); assumption|apply (inv1ms_10s_x2_step_58 S V es ev r S' V' es' ev'); assumption]]|split; [apply (inv1ms_10s_x2_step_59 S V es ev r S' V' es' ev'); assumption|split; [apply (inv1ms_10s_x2_step_60 S V es ev r S' V' es' ev'); assumption|apply (inv1ms_10s_x2_step_61 S V es ev r S' V' es' ev'); assumption]]]|split; [split; [apply (inv1ms_10s_x2_step_62 S V es ev r S' V' es' ev'); assumption|split; [apply (inv1ms_10s_x2_step_63 S V es ev r S' V' es' ev'); assumption|apply (inv1ms_10s_x2_step_64 S V es ev r S' V' es' ev'); assumption]]|split; [split; [apply (inv1ms_10s_x2_step_65 S V es ev r S' V' es' ev'); assumption|apply (inv1ms_10s_x2_step_66 S V es ev r S' V' es' ev'); assumption]|split; [apply (inv1ms_10s_x2_step_67 S V es ev r S' V' es' ev'); assumption|apply (inv1ms_10s_x2_step_68 S V es ev r S' V' es' ev'); assumption]]]]|split; [split; [split; [apply (inv1ms_10s_x2_step_69 S V es ev r S' V' es' ev'); assumption|split; [apply (inv1ms_10s_x2_step_70 S V es ev r S' V' es' ev'); assumption|apply (inv1ms_10s_x2_step_71 S V es ev r S' V' es' ev'); assumption]]|split; [split; [apply (inv1ms_10s_x2_step_72 S V es ev r S' V' es' ev'); assumption|apply (inv1ms_10s_x2_step_73 S V es ev r S' V' es' ev'); assumption]|split; [apply (inv1ms_10s_x2_step_74 S V es ev r S' V' es' ev'); assumption|apply (inv1ms_10s_x2_step_75 S V es ev r S' V' es' ev'); assumption]]]|split; [split; [apply (inv1ms_10s_x2_step_76 S V es ev r S' V' es' ev'); assumption|split; [apply (inv1ms_10s_x2_step_77 S V es ev r S' V' es' ev'); assumption|apply (inv1ms_10s_x2_step_78 S V es ev r S' V' es' ev'); assumption]]|split; [split; [apply (inv1ms_10s_x2_step_79 S V es ev r S' V' es' ev'); assumption|apply (inv1ms_10s_x2_step_80 S V es ev r S' V' es' ev'); assumption]|split; [apply (inv1ms_10s_x2_step_81 S V es ev r S' V' es' ev'); assumption|apply (inv1ms_10s_x2_step_82 S V es ev r S' V' es' ev'); assumption]]]]]|split; [split; [split; [split; [apply (inv1ms_10s_x2_step_83 S V es ev r S' V' es' ev'); assumption|split; [apply (inv1ms_10s_x2_step_84 S V es ev r S' V' es' ev'); assumption|apply (inv1ms_10s_x2_step_85 S V es ev r S' V' es' ev'); assumption]]|split; [split; [apply (inv1ms_10s_x2_step_86 S V es ev r S' V' es' ev'); assumption|apply (inv1ms_10s_x2_step_87 S V es ev r S' V' es' ev'); assumption]|split; [apply (inv1ms_10s_x2_step_88 S V es ev r S' V' es' ev'); assumption|apply (inv1ms_10s_x2_step_89 S V es ev r S' V' es' ev'); assumption]]]|split; [split; [apply (inv1ms_10s_x2_step_90 S V es ev r S' V' es' ev'); assumption|split; [apply (inv1ms_10s_x2_step_91 S V es ev r S' V' es' ev'); assumption|apply (inv1ms_10s_x2_step_92 S V es ev r S' V' es' ev'); assumption]]|split; [split; [apply (inv1ms_10s_x2_step_93 S V es ev r S' V' es' ev'); assumption|apply (inv1ms_10s_x2_step_94 S V es ev r S' V' es' ev'); assumption]|split; [apply (inv1ms_10s_x2_step_95 S V es ev r S' V' es' ev'); assumption|apply (inv1ms_10s_x2_step_96 S V es ev r S' V' es' ev'); assumption]]]]|split; [split; [split; [apply (inv1ms_10s_x2_step_97 S V es ev r S' V' es' ev'); assumption|split; [apply (inv1ms_10s_x2_step_98 S V es ev r S' V' es' ev'); assumption|apply (inv1ms_10s_x2_step_99 S V es ev r S' V' es' ev'); assumption]]|split; [split; [apply (inv1ms_10s_x2_step_100 S V es ev r S' V' es' ev'); assumption|apply (inv1ms_10s_x2_step_101 S V es ev r S' V' es' ev'); assumption]|split; [apply (inv1ms_10s_x2_step_102 S V es ev r S' V' es' ev'); assumption|apply (inv1ms_10s_x2_step_103 S V es ev r S' V' es' ev'); assumption]]]|split; [split; [apply (inv1ms_10s_x2_step_104 S V es ev r S' V' es' ev'); assumption|split; [apply (inv1ms_10s_x2_step_105 S V es ev r S' V' es' ev'); assumption|apply (inv1ms_10s_x2_step_106 S V es ev r S' V' es' ev'); assumption]]|split; [split; [apply (inv1ms_10s_x2_step_107 S V es ev r S' V' es' ev'); assumption|apply (inv1ms_10s_x2_step_108 S V es ev r S' V' es' ev'); assumption]|split; [apply (inv1ms_10s_x2_step_109 S V es ev r S' V' es' ev'); assumption|apply (inv1ms_10s_x2_step_110 S V es ev r S' V' es' ev'); assumption]]]]]]]|split; [split; [split; [split; [split; [split; [apply (inv1ms_10s_x2_step_111 S V es ev r S' V' es' ev'); assumption|split; [apply (inv1ms_10s_x2_step_112 S V es ev r S' V' es' ev'); assumption|apply (inv1ms_10s_x2_step_113 S V es ev r S' V' es' ev'); assumption]]|split; [apply (inv1ms_10s_x2_step_114 S V es ev r S' V' es' ev'); assumption|split; [apply (inv1ms_10s_x2_step_115 S V es ev r S' V' es' ev'); assumption|apply (inv1ms_10s_x2_step_116 S V es ev r S' V' es' ev'); assumption]]]|split; [split; [apply (inv1ms_10s_x2_step_117 S V es ev r S' V' es' ev'); assumption|split; [apply (inv1ms_10s_x2_step_118 S V es ev r S' V' es' ev'); assumption|apply (inv1ms_10s_x2_step_119 S V es ev r S' V' es' ev'); assumption]]|split; [split; [apply (inv1ms_10s_x2_step_120 S V es ev r S' V' es' ev'); assumption|apply (inv1ms_10s_x2_step_121 S V es ev r S' V' es' ev'); assumption]|split; [apply (inv1ms_10s_x2_step_122 S V es ev r S' V' es' ev'); assumption|apply (inv1ms_10s_x2_step_123 S V es ev r S' V' es' ev'); assumption]]]]|split; [split; [split; [apply (inv1ms_10s_x2_step_124 S V es ev r S' V' es' ev'); assumption|split; [apply (inv1ms_10s_x2_step_125 S V es ev r S' V' es' ev'); assumption|apply (inv1ms_10s_x2_step_126 S V es ev r S' V' es' ev'); assumption]]|split; [split; [apply (inv1ms_10s_x2_step_127 S V es ev r S' V' es' ev'); assumption|apply (inv1ms_10s_x2_step_128 S V es ev r S' V' es' ev'); assumption]|split; [apply (inv1ms_10s_x2_step_129 S V es ev r S' V' es' ev'); assumption|apply (inv1ms_10s_x2_step_130 S V es ev r S' V' es' ev'); assumption]]]|split; [split; [apply (inv1ms_10s_x2_step_131 S V es ev r S' V' es' ev'); assumption|split; [apply (inv1ms_10s_x2_step_132 S V es ev r S' V' es' ev'); assumption|apply (inv1ms_10s_x2_step_133 S V es ev r S' V' es' ev'); assumption]]|split; [split; [apply (inv1ms_10s_x2_step_134 S V es ev r S' V' es' ev'); assumption|apply (inv1ms_10s_x2_step_135 S V es ev r S' V' es' ev'); assumption]|split; [apply (inv1ms_10s_x2_step_136 S V es ev r S' V' es' ev'); assumption|apply (inv1ms_10s_x2_step_137 S V es ev r S' V' es' ev'); assumption]]]]]|split; [split; [split; [split; [apply (inv1ms_10s_x2_step_138 S V es ev r S' V' es' ev'); assumption|split; [apply (inv1ms_10s_x2_step_139 S V es ev r S' V' es' ev'); assumption|apply (inv1ms_10s_x2_step_140 S V es ev r S' V' es' ev'); assumption]]|split; [apply (inv1ms_10s_x2_step_141 S V es ev r S' V' es' ev'); assumption|split; [apply (inv1ms_10s_x2_step_142 S V es ev r S' V' es' ev'); assumption|apply (inv1ms_10s_x2_step_143 S V es ev r S' V' es' ev'); assumption]]]|split; [split; [apply (inv1ms_10s_x2_step_144 S V es ev r S' V' es' ev'); assumption|split; [apply (inv1ms_10s_x2_step_145 S V es ev r S' V' es' ev'); assumption|apply (inv1ms_10s_x2_step_146 S V es ev r S' V' es' ev'); assumption]]|split; [split; [apply (inv1ms_10s_x2_step_147 S V es ev r S' V' es' ev'); assumption|apply (inv1ms_10s_x2_step_148 S V es ev r S' V' es' ev'); assumption]|split; [apply (inv1ms_10s_x2_step_149 S V es ev r S' V' es' ev'); assumption|apply (inv1ms_10s_x2_step_150 S V es ev r S' V' es' ev'); assumption]]]]|split; [split; [split; [apply (inv1ms_10s_x2_step_151 S V es ev r S' V' es' ev'); assumption|split; [apply (inv1ms_10s_x2_step_152 S V es ev r S' V' es' ev'); assumption|apply (inv1ms_10s_x2_step_153 S V es ev r S' V' es' ev'); assumption]]|split; [split; [apply (inv1ms_10s_x2_step_154 S V es ev r S' V' es' ev'); assumption|apply (inv1ms_10s_x2_step_155 S V es ev r S' V' es' ev'); assumption]|split; [apply (inv1ms_10s_x2_step_156 S V es ev r S' V' es' ev'); assumption|apply (inv1ms_10s_x2_step_157 S V es ev r S' V' es' ev'); assumption]]]|split; [split; [apply (inv1ms_10s_x2_step_158 S V es ev r S' V' es' ev'); assumption|split; [apply (inv1ms_10s_x2_step_159 S V es ev r S' V' es' ev'); assumption|apply (inv1ms_10s_x2_step_160 S V es ev r S' V' es' ev'); assumption]]|split; [split; [apply (inv1ms_10s_x2_step_161 S V es ev r S' V' es' ev'); assumption|apply (inv1ms_10s_x2_step_162 S V es ev r S' V' es' ev'); assumption]|split; [apply (inv1ms_10s_x2_step_163 S V es ev r S' V' es' ev'); assumption|apply (inv1ms_10s_x2_step_164 S V es ev r S' V' es' ev'); assumption]]]]]]|split; [split; [split; [split; [split; [apply (inv1ms_10s_x2_step_165 S V es ev r S' V' es' ev'); assumption|split; [apply (inv1ms_10s_x2_step_166 S V es ev r S' V' es' ev'); assumption|apply (inv1ms_10s_x2_step_167 S V es ev r S' V' es' ev'); assumption]]|split; [apply (inv1ms_10s_x2_step_168 S V es ev r S' V' es' ev'); assumption|split; [apply (inv1ms_10s_x2_step_169 S V es ev r S' V' es' ev'); assumption|apply (inv1ms_10s_x2_step_170 S V es ev r S' V' es' ev'); assumption]]]|split; [split; [apply (inv1ms_10s_x2_step_171 S V es ev r S' V' es' ev'); assumption|split; [apply (inv1ms_10s_x2_step_172 S V es ev r S' V' es' ev'); assumption|apply (inv1ms_10s_x2_step_173 S V es ev r S' V' es' ev'); assumption]]|split; [split; [apply (inv1ms_10s_x2_step_174 S V es ev r S' V' es' ev'); assumption|apply (inv1ms_10s_x2_step_175 S V es ev r S' V' es' ev'); assumption]|split; [apply (inv1ms_10s_x2_step_176 S V es ev r S' V' es' ev'); assumption|apply (inv1ms_10s_x2_step_177 S V es ev r S' V' es' ev'); assumption]]]]|split; [split; [split; [apply (inv1ms_10s_x2_step_178 S V es ev r S' V' es' ev'); assumption|split; [apply (inv1ms_10s_x2_step_179 S V es ev r S' V' es' ev'); assumption|apply (inv1ms_10s_x2_step_180 S V es ev r S' V' es' ev'); assumption]]|split; [split; [apply (inv1ms_10s_x2_step_181 S V es ev r S' V' es' ev'); assumption|apply (inv1ms_10s_x2_step_182 S V es ev r S' V' es' ev'); assumption]|split; [apply (inv1ms_10s_x2_step_183 S V es ev r S' V' es' ev'); assumption|apply (inv1ms_10s_x2_step_184 S V es ev r S' V' es' ev'); assumption]]]|split; [split; [apply (inv1ms_10s_x2_step_185 S V es ev r S' V' es' ev'); assumption|split; [apply (inv1ms_10s_x2_step_186 S V es ev r S' V' es' ev'); assumption|apply (inv1ms_10s_x2_step_187 S V es ev r S' V' es' ev'); assumption]]|split; [split; [apply (inv1ms_10s_x2_step_188 S V es ev r S' V' es' ev'); assumption|apply (inv1ms_10s_x2_step_189 S V es ev r S' V' es' ev'); assumption]|split; [apply (inv1ms_10s_x2_step_190 S V es ev r S' V' es' ev'); assumption|apply (inv1ms_10s_x2_step_191 S V es ev r S' V' es' ev'); assumption]]]]]|split; [split; [split; [split; [apply (inv1ms_10s_x2_step_192 S V es ev r S' V' es' ev'); assumption|split; [apply (inv1ms_10s_x2_step_193 S V es ev r S' V' es' ev'); assumption|apply (inv1ms_10s_x2_step_194 S V es ev r S' V' es' ev'); assumption]]|split; [split; [apply (inv1ms_10s_x2_step_195 S V es ev r S' V' es' ev'); assumption|apply (inv1ms_10s_x2_step_196 S V es ev r S' V' es' ev'); assumption]|split; [apply (inv1ms_10s_x2_step_197 S V es ev r S' V' es' ev'); assumption|apply (inv1ms_10s_x2_step_198 S V es ev r S' V' es' ev'); assumption]]]|split; [split; [apply (inv1ms_10s_x2_step_199 S V es ev r S' V' es' ev'); assumption|split; [apply (inv1ms_10s_x2_step_200 S V es ev r S' V' es' ev'); assumption|apply (inv1ms_10s_x2_step_201 S V es ev r S' V' es' ev'); assumption]]|split; [split; [apply (inv1ms_10s_x2_step_202 S V es ev r S' V' es' ev'); assumption|apply (inv1ms_10s_x2_step_203 S V es ev r S' V' es' ev'); assumption]|split; [apply (inv1ms_10s_x2_step_204 S V es ev r S' V' es' ev'); assumption|apply (inv1ms_10s_x2_step_205 S V es ev r S' V' es' ev'); assumption]]]]|split; [split; [split; [apply (inv1ms_10s_x2_step_206 S V es ev r S' V' es' ev'); assumption|split; [apply (inv1ms_10s_x2_step_207 S V es ev r S' V' es' ev'); assumption|apply (inv1ms_10s_x2_step_208 S V es ev r S' V' es' ev'); assumption]]|split; [split; [apply (inv1ms_10s_x2_step_209 S V es ev r S' V' es' ev'); assumption|apply (inv1ms_10s_x2_step_210 S V es ev r S' V' es' ev'); assumption]|split; [apply (inv1ms_10s_x2_step_211 S V es ev r S' V' es' ev'); assumption|apply (inv1ms_10s_x2_step_212 S V es ev r S' V' es' ev'); assumption]]]|split; [split; [apply (inv1ms_10s_x2_step_213 S V es ev r S' V' es' ev'); assumption|split; [apply (inv1ms_10s_x2_step_214 S V es ev r S' V' es' ev'); assumption|apply (inv1ms_10s_x2_step_215 S V es ev r S' V' es' ev'); assumption]]|split; [split; [apply (inv1ms_10s_x2_step_216 S V es ev r S' V' es' ev'); assumption|apply (inv1ms_10s_x2_step_217 S V es ev r S' V' es' ev'); assumption]|split; [apply (inv1ms_10s_x2_step_218 S V es ev r S' V' es' ev'); assumption|apply (inv1ms_10s_x2_step_219 S V es ev r S' V' es' ev'); assumption]]]]]]]].
Qed.
Lemma Inv1ms_10s_x2_mono S V es ev es' ev' : Inv1ms_10s_x2 S V es ev -> 0 <= es' <= es -> 0 <= ev' <= ev -> Inv1ms_10s_x2 S V es' ev'.
Proof.
  intros [[[[[[[B1 [B2 H4]] [H5 [H6 H7]]] [[H8 [H9 H10]] [[H11 H12] [H13 H14]]]] [[[H15 [H16 H17]] [[H18 H19] [H20 H21]]] [[H22 [H23 H24]] [[H25 H26] [H27 H28]]]]] [[[[H29 [H30 H31]] [H32 [H33 H34]]] [[H35 [H36 H37]] [[H38 H39] [H40 H41]]]] [[[H42 [H43 H44]] [[H45 H46] [H47 H48]]] [[H49 [H50 H51]] [[H52 H53] [H54 H55]]]]]] [[[[[H56 [H57 H58]] [H59 [H60 H61]]] [[H62 [H63 H64]] [[H65 H66] [H67 H68]]]] [[[H69 [H70 H71]] [[H72 H73] [H74 H75]]] [[H76 [H77 H78]] [[H79 H80] [H81 H82]]]]] [[[[H83 [H84 H85]] [[H86 H87] [H88 H89]]] [[H90 [H91 H92]] [[H93 H94] [H95 H96]]]] [[[H97 [H98 H99]] [[H100 H101] [H102 H103]]] [[H104 [H105 H106]] [[H107 H108] [H109 H110]]]]]]] [[[[[[H111 [H112 H113]] [H114 [H115 H116]]] [[H117 [H118 H119]] [[H120 H121] [H122 H123]]]] [[[H124 [H125 H126]] [[H127 H128] [H129 H130]]] [[H131 [H132 H133]] [[H134 H135] [H136 H137]]]]] [[[[H138 [H139 H140]] [H141 [H142 H143]]] [[H144 [H145 H146]] [[H147 H148] [H149 H150]]]] [[[H151 [H152 H153]] [[H154 H155] [H156 H157]]] [[H158 [H159 H160]] [[H161 H162] [H163 H164]]]]]] [[[[[H165 [H166 H167]] [H168 [H169 H170]]] [[H171 [H172 H173]] [[H174 H175] [H176 H177]]]] [[[H178 [H179 H180]] [[H181 H182] [H183 H184]]] [[H185 [H186 H187]] [[H188 H189] [H190 H191]]]]] [[[[H192 [H193 H194]] [[H195 H196] [H197 H198]]] [[H199 [H200 H201]] [[H202 H203] [H204 H205]]]] [[[H206 [H207 H208]] [[H209 H210] [H211 H212]]] [[H213 [H214 H215]] [[H216 H217] [H218 H219]]]]]]]] He Hv.
  unfold Inv1ms_10s_x2.
  split; [split; [split; [split; [split; [split; [split; [exact B1|split; [exact B2|apply (tmpl_mono _ _ _ _ _ S V es ev es' ev'); [lia|lia|exact H4|lia|lia]]]|split; [apply (tmpl_mono _ _ _ _ _ S V es ev es' ev'); [lia|lia|exact H5|lia|lia]|split; [apply (tmpl_mono _ _ _ _ _ S V es ev es' ev'); [lia|lia|exact H6|lia|lia]|apply (tmpl_mono _ _ _ _ _ S V es ev es' ev'); [lia|lia|exact H7|lia|lia]]]]|split; [split; [apply (tmpl_mono _ _ _ _ _ S V es ev es' ev'); [lia|lia|exact H8|lia|lia]|split; [apply (tmpl_mono _ _ _ _ _ S V es ev es' ev'); [lia|lia|exact H9|lia|lia]|apply (tmpl_mono _ _ _ _ _ S V es ev es' ev'); [lia|lia|exact H10|lia|lia]]]|split; [split; [apply (tmpl_mono _ _ _ _ _ S V es ev es' ev'); [lia|lia|exact H11|lia|lia]|apply (tmpl_mono _ _ _ _ _ S V es ev es' ev'); [lia|lia|exact H12|lia|lia]]|split; [apply (tmpl_mono _ _ _ _ _ S V es ev es' ev'); [lia|lia|exact H13|lia|lia]|apply (tmpl_mono _ _ _ _ _ S V es ev es' ev'); [lia|lia|exact H14|lia|lia]]]]]|split; [split; [split; [apply (tmpl_mono _ _ _ _ _ S V es ev es' ev'); [lia|lia|exact H15|lia|lia]|split; [apply (tmpl_mono _ _ _ _ _ S V es ev es' ev'); [lia|lia|exact H16|lia|lia]|apply (tmpl_mono _ _ _ _ _ S V es ev es' ev'); [lia|lia|exact H17|lia|lia]]]|split; [split; [apply (tmpl_mono _ _ _ _ _ S V es ev es' ev'); [lia|lia|exact H18|lia|lia]|apply (tmpl_mono _ _ _ _ _ S V es ev es' ev'); [lia|lia|exact H19|lia|lia]]|split; [apply (tmpl_mono _ _ _ _ _ S V es ev es' ev'); [lia|lia|exact H20|lia|lia]|apply (tmpl_mono _ _ _ _ _ S V es ev es' ev'); [lia|lia|exact H21|lia|lia]]]]|split; [split; [apply (tmpl_mono _ _ _ _ _ S V es ev es' ev'); [lia|lia|exact H22|lia|lia]|split; [apply (tmpl_mono _ _ _ _ _ S V es ev es' ev'); [lia|lia|exact H23|lia|lia]|apply (tmpl_mono _ _ _ _ _ S V es ev es' ev'); [lia|lia|exact H24|lia|lia]]]|split; [split; [apply (tmpl_mono _ _ _ _ _ S V es ev es' ev'); [lia|lia|exact H25|lia|lia]|apply (tmpl_mono _ _ _ _ _ S V es ev es' ev'); [lia|lia|exact H26|lia|lia]]|split; [apply (tmpl_mono _ _ _ _ _ S V es ev es' ev'); [lia|lia|exact H27|lia|lia]|apply (tmpl_mono _ _ _ _ _ S V es ev es' ev'); [lia|lia|exact H28|lia|lia]]]]]]|split; [split; [split; [split; [apply (tmpl_mono _ _ _ _ _ S V es ev es' ev'); [lia|lia|exact H29|lia|lia]|split; [apply (tmpl_mono _ _ _ _ _ S V es ev es' ev'); [lia|lia|exact H30|lia|lia]|apply (tmpl_mono _ _ _ _ _ S V es ev es' ev'); [lia|lia|exact H31|lia|lia]]]|split; [apply (tmpl_mono _ _ _ _ _ S V es ev es' ev'); [lia|lia|exact H32|lia|lia]|split; [apply (tmpl_mono _ _ _ _ _ S V es ev es' ev'); [lia|lia|exact H33|lia|lia]|apply (tmpl_mono _ _ _ _ _ S V es ev es' ev'); [lia|lia|exact H34|lia|lia]]]]|split; [split; [apply (tmpl_mono _ _ _ _ _ S V es ev es' ev'); [lia|lia|exact H35|lia|lia]|split; [apply (tmpl_mono _ _ _ _ _ S V es ev es' ev'); [lia|lia|exact H36|lia|lia]|apply (tmpl_mono _ _ _ _ _ S V es ev es' ev'); [lia|lia|exact H37|lia|lia]]]|split; [split; [apply (tmpl_mono _ _ _ _ _ S V es ev es' ev'); [lia|lia|exact H38|lia|lia]|apply (tmpl_mono _ _ _ _ _ S V es ev es' ev'); [lia|lia|exact H39|lia|lia]]|split; [apply (tmpl_mono _ _ _ _ _ S V es ev es' ev'); [lia|lia|exact H40|lia|lia]|apply (tmpl_mono _ _ _ _ _ S V es ev es' ev'); [lia|lia|exact H41|lia|lia]]]]]|split; [split; [split; [apply (tmpl_mono _ _ _ _ _ S V es ev es' ev'); [lia|lia|exact H42|lia|lia]|split; [apply (tmpl_mono _ _ _ _ _ S V es ev es' ev'); [lia|lia|exact H43|lia|lia]|apply (tmpl_mono _ _ _ _ _ S V es ev es' ev'); [lia|lia|exact H44|lia|lia]]]|split; [split; [apply (tmpl_mono _ _ _ _ _ S V es ev es' ev'); [lia|lia|exact H45|lia|lia]|apply (tmpl_mono _ _ _ _ _ S V es ev es' ev'); [lia|lia|exact H46|lia|lia]]|split; [apply (tmpl_mono _ _ _ _ _ S V es ev es' ev'); [lia|lia|exact H47|lia|lia]|apply (tmpl_mono _ _ _ _ _ S V es ev es' ev'); [lia|lia|exact H48|lia|lia]]]]|split; [split; [apply (tmpl_mono _ _ _ _ _ S V es ev es' ev'); [lia|lia|exact H49|lia|lia]|split; [apply (tmpl_mono _ _ _ _ _ S V es ev es' ev'); [lia|lia|exact H50|lia|lia]|apply (tmpl_mono _ _ _ _ _ S V es ev es' ev'); [lia|lia|exact H51|lia|lia]]]|split; [split; [apply (tmpl_mono _ _ _ _ _ S V es ev es' ev'); [lia|lia|exact H52|lia|lia]|apply (tmpl_mono _ _ _ _ _ S V es ev es' ev'); [lia|lia|exact H53|lia|lia]]|split; [apply (tmpl_mono _ _ _ _ _ S V es ev es' ev'); [lia|lia|exact H54|lia|lia]|apply (tmpl_mono _ _ _ _ _ S V es ev es' ev'); [lia|lia|exact H55|lia|lia]]]]]]]|split; [split; [split; [split; [split; [apply (tmpl_mono _ _ _ _ _ S V es ev es' ev'); [lia|lia|exact H56|lia|lia]|split; [apply (tmpl_mono _ _ _ _ _ S V es ev es' ev'); [lia|lia|exact H57|lia|lia]|apply (tmpl_mono _ _ _ _ _ S V es ev es' ev'); [lia|lia|exact H58|lia|lia]]]|split; [apply (tmpl_mono _ _ _ _ _ S V es ev es' ev'); [lia|lia|exact H59|lia|lia]|split; [apply (tmpl_mono _ _ _ _ _ S V es ev es' ev'); [lia|lia|exact H60|lia|lia]|apply (tmpl_mono _ _ _ _ _ S V es ev es' ev'); [lia|lia|exact H61|lia|lia]]]]|split; [split; [apply (tmpl_mono _ _ _ _ _ S V es ev es' ev'); [lia|lia|exact H62|lia|lia]|split; [apply (tmpl_mono _ _ _ _ _ S V es ev es' ev'); [lia|lia|exact H63|lia|lia]|apply (tmpl_mono _ _ _ _ _ S V es ev es' ev'); [lia|lia|exact H64|lia|lia]]]|split; [split; [apply (tmpl_mono _ _ _ _ _ S V es ev es' ev'); [lia|lia|exact H65|lia|lia]|apply (tmpl_mono _ _ _ _ _ S V es ev es' ev'); [lia|lia|exact H66|lia|lia]]|split; [apply (tmpl_mono _ _ _ _ _ S V es ev es' ev'); [lia|lia|exact H67|lia|lia]|apply (tmpl_mono _ _ _ _ _ S V es ev es' ev'); [lia|lia|exact H68|lia|lia]]]]]|split; [split; [split; [apply (tmpl_mono _ _ _ _ _ S V es ev es' ev'); [lia|lia|exact H69|lia|lia]|split; [apply (tmpl_mono _ _ _ _ _ S V es ev es' ev'); [lia|lia|exact H70|lia|lia]|apply (tmpl_mono _ _ _ _ _ S V es ev es' ev'); [lia|lia|exact H71|lia|lia]]]|split; [split; [apply (tmpl_mono _ _ _ _ _ S V es ev es' ev'); [lia|lia|exact H72|lia|lia]|apply (tmpl_mono _ _ _ _ _ S V es ev es' ev'); [lia|lia|exact H73|lia|lia]]|split; [apply (tmpl_mono _ _ _ _ _ S V es ev es' ev'); [lia|lia|exact H74|lia|lia]|apply (tmpl_mono _ _ _ _ _ S V es ev es' ev'); [lia|lia|exact H75|lia|lia]]]]|split; [split; [apply (tmpl_mono _ _ _ _ _ S V es ev es' ev'); [lia|lia|exact H76|lia|lia]|split; [apply (tmpl_mono _ _ _ _ _ S V es ev es' ev'); [lia|lia|exact H77|lia|lia]|apply (tmpl_mono _ _ _ _ _ S V es ev es' ev'); [lia|lia|exact H78|lia|lia]]]|split; [split; [apply (tmpl_mono _ _ _ _ _ S V es ev es' ev'); [lia|lia|exact H79|lia|lia]|apply (tmpl_mono _ _ _ _ _ S V es ev es' ev'); [lia|lia|exact H80|lia|lia]]|split; [apply (tmpl_mono _ _ _ _ _ S V es ev es' ev'); [lia|lia|exact H81|lia|lia]|apply (tmpl_mono _ _ _ _ _ S V es ev es' ev'); [lia|lia|exact H82|lia|lia]]]]]]|split; [split; [split; [split; [apply (tmpl_mono _ _ _ _ _ S V es ev es' ev'); [lia|lia|exact H83|lia|lia]|split; [apply (tmpl_mono _ _ _ _ _ S V es ev es' ev'); [lia|lia|exact H84|lia|lia]|apply (tmpl_mono _ _ _ _ _ S V es ev es' ev'); [lia|lia|exact H85|lia|lia]]]|split; [split; [apply (tmpl_mono _ _ _ _ _ S V es ev es' ev'); [lia|lia|exact H86|lia|lia]|apply (tmpl_mono _ _ _ _ _ S V es ev es' ev'); [lia|lia|exact H87|lia|lia]]|split; [apply (tmpl_mono _ _ _ _ _ S V es ev es' ev'); [lia|lia|exact H88|lia|lia]|apply (tmpl_mono _ _ _ _ _ S V es ev es' ev'); [lia|lia|exact H89|lia|lia]]]]|split; [split; [apply (tmpl_mono _ _ _ _ _ S V es ev es' ev'); [lia|lia|exact H90|lia|lia]|split; [apply (tmpl_mono _ _ _ _ _ S V es ev es' ev'); [lia|lia|exact H91|lia|lia]|apply (tmpl_mono _ _ _ _ _ S V es ev es' ev'); [lia|lia|exact H92|lia|lia]]]|split; [split; [apply (tmpl_mono _ _ _ _ _ S V es ev es' ev'); [lia|lia|exact H93|lia|lia]|apply (tmpl_mono _ _ _ _ _ S V es ev es' ev'); [lia|lia|exact H94|lia|lia]]|split; [apply (tmpl_mono _ _ _ _ _ S V es ev es' ev'); [lia|lia|exact H95|lia|lia]|apply (tmpl_mono _ _ _ _ _ S V es ev es' ev'); [lia|lia|exact H96|lia|lia]]]]]|split; [split; [split; [apply (tmpl_mono _ _ _ _ _ S V es ev es' ev'); [lia|lia|exact H97|lia|lia]|split; [apply (tmpl_mono _ _ _ _ _ S V es ev es' ev'); [lia|lia|exact H98|lia|lia]|apply (tmpl_mono _ _ _ _ _ S V es ev es' ev'); [lia|lia|exact H99|lia|lia]]]|split; [split; [apply (tmpl_mono _ _ _ _ _ S V es ev es' ev'); [lia|lia|exact H100|lia|lia]|apply (tmpl_mono _ _ _ _ _ S V es ev es' ev'); [lia|lia|exact H101|lia|lia]]|split; [apply (tmpl_mono _ _ _ _ _ S V es ev es' ev'); [lia|lia|exact H102|lia|lia]|apply (tmpl_mono _ _ _ _ _ S V es ev es' ev'); [lia|lia|exact H103|lia|lia]]]]|split; [split; [apply (tmpl_mono _ _ _ _ _ S V es ev es' ev'); [lia|lia|exact H104|lia|lia]|split; [apply (tmpl_mono _ _ _ _ _ S V es ev es' ev'); [lia|lia|exact H105|lia|lia]|apply (tmpl_mono _ _ _ _ _ S V es ev es' ev'); [lia|lia|exact H106|lia|lia]]]|split; [split; [apply (tmpl_mono _ _ _ _ _ S V es ev es' ev'); [lia|lia|exact H107|lia|lia]|apply (tmpl_mono _ _ _ _ _ S V es ev es' ev'); [lia|lia|exact H108|lia|lia]]|split; [apply (tmpl_mono _ _ _ _ _ S V es ev es' ev'); [lia|lia|exact H109|lia|lia]|apply (tmpl_mono _ _ _ _ _ S V es ev es' ev'); [lia|lia|exact H110|lia|lia]]]]]]]]|split; [split; [split; [split; [split; [split; [apply (tmpl_mono _ _ _ _ _ S V es ev es' ev'); [lia|lia|exact H111|lia|lia]|split; [apply (tmpl_mono _ _ _ _ _ S V es ev es' ev'); [lia|lia|exact H112|lia|lia]|apply (tmpl_mono _ _ _ _ _ S V es ev es' ev'); [lia|lia|exact H113|lia|lia]]]|split; [apply (tmpl_mono _ _ _ _ _ S V es ev es' ev'); [lia|lia|exact H114|lia|lia]|split; [apply (tmpl_mono _ _ _ _ _ S V es ev es' ev'); [lia|lia|exact H115|lia|lia]|apply (tmpl_mono _ _ _ _ _ S V es ev es' ev'); [lia|lia|exact H116|lia|lia]]]]|split; [split; [apply (tmpl_mono _ _ _ _ _ S V es ev es' ev'); [lia|lia|exact H117|lia|lia]|split; [apply (tmpl_mono _ _ _ _ _ S V es ev es' ev'); [lia|lia|exact H118|lia|lia]|apply (tmpl_mono _ _ _ _ _ S V es ev es' ev'); [lia|lia|exact H119|lia|lia]]]|split; [split; [apply (tmpl_mono _ _ _ _ _ S V es ev es' ev'); [lia|lia|exact H120|lia|lia]|apply (tmpl_mono _ _ _ _ _ S V es ev es' ev'); [lia|lia|exact H121|lia|lia]]|split; [apply (tmpl_mono _ _ _ _ _ S V es ev es' ev'); [lia|lia|exact H122|lia|lia]|apply (tmpl_mono _ _ _ _ _ S V es ev es' ev'); [lia|lia|exact H123|lia|lia]]]]]|split; [split; [split; [apply (tmpl_mono _ _ _ _ _ S V es ev es' ev'); [lia|lia|exact H124|lia|lia]|split; [apply (tmpl_mono _ _ _ _ _ S V es ev es' ev'); [lia|lia|exact H125|lia|lia]|apply (tmpl_mono _ _ _ _ _ S V es ev es' ev'); [lia|lia|exact H126|lia|lia]]]|split; [split; [apply (tmpl_mono _ _ _ _ _ S V es ev es' ev'); [lia|lia|exact H127|lia|lia]|apply (tmpl_mono _ _ _ _ _ S V es ev es' ev'); [lia|lia|exact H128|lia|lia]]|split; [apply (tmpl_mono _ _ _ _ _ S V es ev es' ev'); [lia|lia|exact H129|lia|lia]|apply (tmpl_mono _ _ _ _ _ S V es ev es' ev'); [lia|lia|exact H130|lia|lia]]]]|split; [split; [apply (tmpl_mono _ _ _ _ _ S V es ev es' ev'); [lia|lia|exact H131|lia|lia]|split; [apply (tmpl_mono _ _ _ _ _ S V es ev es' ev'); [lia|lia|exact H132|lia|lia]|apply (tmpl_mono _ _ _ _ _ S V es ev es' ev'); [lia|lia|exact H133|lia|lia]]]|split; [split; [apply (tmpl_mono _ _ _ _ _ S V es ev es' ev'); [lia|lia|exact H134|lia|lia]|apply (tmpl_mono _ _ _ _ _ S V es ev es' ev'); [lia|lia|exact H135|lia|lia]]|split; [apply (tmpl_mono _ _ _ _ _ S V es ev es' ev'); [lia|lia|exact H136|lia|lia]|apply (tmpl_mono _ _ _ _ _ S V es ev es' ev'); [lia|lia|exact H137|lia|lia]]]]]]|split; [split; [split; [split; [apply (tmpl_mono _ _ _ _ _ S V es ev es' ev'); [lia|lia|exact H138|lia|lia]|split; [apply (tmpl_mono _ _ _ _ _ S V es ev es' ev'); [lia|lia|exact H139|lia|lia]|apply (tmpl_mono _ _ _ _ _ S V es ev es' ev'); [lia|lia|exact H140|lia|lia]]]|split; [apply (tmpl_mono _ _ _ _ _ S V es ev es' ev'); [lia|lia|exact H141|lia|lia]|split; [apply (tmpl_mono _ _ _ _ _ S V es ev es' ev'); [lia|lia|exact H142|lia|lia]|apply (tmpl_mono _ _ _ _ _ S V es ev es' ev'); [lia|lia|exact H143|lia|lia]]]]|split; [split; [apply (tmpl_mono _ _ _ _ _ S V es ev es' ev'); [lia|lia|exact H144|lia|lia]|split; [apply (tmpl_mono _ _ _ _ _ S V es ev es' ev'); [lia|lia|exact H145|lia|lia]|apply (tmpl_mono _ _ _ _ _ S V es ev es' ev'); [lia|lia|exact H146|lia|lia]]]|split; [split; [apply (tmpl_mono _ _ _ _ _ S V es ev es' ev'); [lia|lia|exact H147|lia|lia]|apply (tmpl_mono _ _ _ _ _ S V es ev es' ev'); [lia|lia|exact H148|lia|lia]]|split; [apply (tmpl_mono _ _ _ _ _ S V es ev es' ev'); [lia|lia|exact H149|lia|lia]|apply (tmpl_mono _ _ _ _ _ S V es ev es' ev'); [lia|lia|exact H150|lia|lia]]]]]|split; [split; [split; [apply (tmpl_mono _ _ _ _ _ S V es ev es' ev'); [lia|lia|exact H151|lia|lia]|split; [apply (tmpl_mono _ _ _ _ _ S V es ev es' ev'); [lia|lia|exact H152|lia|lia]|apply (tmpl_mono _ _ _ _ _ S V es ev es' ev'); [lia|lia|exact H153|lia|lia]]]|split; [split; [apply (tmpl_mono _ _ _ _ _ S V es ev es' ev'); [lia|lia|exact H154|lia|lia]|apply (tmpl_mono _ _ _ _ _ S V es ev es' ev'); [lia|lia|exact H155|lia|lia]]|split; [apply (tmpl_mono _ _ _ _ _ S V es ev es' ev'); [lia|lia|exact H156|lia|lia]|apply (tmpl_mono _ _ _ _ _ S V es ev es' ev'); [lia|lia|exact H157|lia|lia]]]]|split; [split; [apply (tmpl_mono _ _ _ _ _ S V es ev es' ev'); [lia|lia|exact H158|lia|lia]|split; [apply (tmpl_mono _ _ _ _ _ S V es ev es' ev'); [lia|lia|exact H159|lia|lia]|apply (tmpl_mono _ _ _ _ _ S V es ev es' ev'); [lia|lia|exact H160|lia|lia]]]|split; [split; [apply (tmpl_mono _ _ _ _ _ S V es ev es' ev'); [lia|lia|exact H161|lia|lia]|apply (tmpl_mono _ _ _ _ _ S V es ev es' ev'); [lia|lia|exact H162|lia|lia]]|split; [apply (tmpl_mono _ _ _ _ _ S V es ev es' ev'); [lia|lia|exact H163|lia|lia]|apply (tmpl_mono _ _ _ _ _ S V es ev es' ev'); [lia|lia|exact H164|lia|lia]]]]]]]|split; [split; [split; [split; [split; [apply (tmpl_mono _ _ _ _ _ S V es ev es' ev'); [lia|lia|exact H165|lia|lia]|split; [apply (tmpl_mono _ _ _ _ _ S V es ev es' ev'); [lia|lia|exact H166|lia|lia]|apply (tmpl_mono _ _ _ _ _ S V es ev es' ev'); [lia|lia|exact H167|lia|lia]]]|split; [apply (tmpl_mono _ _ _ _ _ S V es ev es' ev'); [lia|lia|exact H168|lia|lia]|split; [apply (tmpl_mono _ _ _ _ _ S V es ev es' ev'); [lia|lia|exact H169|lia|lia]|apply (tmpl_mono _ _ _ _ _ S V es ev es' ev'); [lia|lia|exact H170|lia|lia]]]]|split; [split; [apply (tmpl_mono _ _ _ _ _ S V es ev es' ev'); [lia|lia|exact H171|lia|lia]|split; [apply (tmpl_mono _ _ _ _ _ S V es ev es' ev'); [lia|lia|exact H172|lia|lia]|apply (tmpl_mono _ _ _ _ _ S V es ev es' ev'); [lia|lia|exact H173|lia|lia]]]|split; [split; [apply (tmpl_mono _ _ _ _ _ S V es ev es' ev'); [lia|lia|exact H174|lia|lia]|apply (tmpl_mono _ _ _ _ _ S V es ev es' ev'); [lia|lia|exact H175|lia|lia]]|split; [apply (tmpl_mono _ _ _ _ _ S V es ev es' ev'); [lia|lia|exact H176|lia|lia]|apply (tmpl_mono _ _ _ _ _ S V es ev es' ev'); [lia|lia|exact H177|lia|lia]]]]]|split; [split; [split; [apply (tmpl_mono _ _ _ _ _ S V es ev es' ev'); [lia|lia|exact H178|lia|lia]|split; [apply (tmpl_mono _ _ _ _ _ S V es ev es' ev'); [lia|lia|exact H179|lia|lia]|apply (tmpl_mono _ _ _ _ _ S V es ev es' ev'); [lia|lia|exact H180|lia|lia]]]|split; [split; [apply (tmpl_mono _ _ _ _ _ S V es ev es' ev'); [lia|lia|exact H181|lia|lia]|apply (tmpl_mono _ _ _ _ _ S V es ev es' ev'); [lia|lia|exact H182|lia|lia]]|split; [apply (tmpl_mono _ _ _ _ _ S V es ev es' ev'); [lia|lia|exact H183|lia|lia]|apply (tmpl_mono _ _ _ _ _ S V es ev es' ev'); [lia|lia|exact H184|lia|lia]]]]|split; [split; [apply (tmpl_mono _ _ _ _ _ S V es ev es' ev'); [lia|lia|exact H185|lia|lia]|split; [apply (tmpl_mono _ _ _ _ _ S V es ev es' ev'); [lia|lia|exact H186|lia|lia]|apply (tmpl_mono _ _ _ _ _ S V es ev es' ev'); [lia|lia|exact H187|lia|lia]]]|split; [split; [apply (tmpl_mono _ _ _ _ _ S V es ev es' ev'); [lia|lia|exact H188|lia|lia]|apply (tmpl_mono _ _ _ _ _ S V es ev es' ev'); [lia|lia|exact H189|lia|lia]]|split; [apply (tmpl_mono _ _ _ _ _ S V es ev es' ev'); [lia|lia|exact H190|lia|lia]|apply (tmpl_mono _ _ _ _ _ S V es ev es' ev'); [lia|lia|exact H191|lia|lia]]]]]]|split; [split; [split; [split; [apply (tmpl_mono _ _ _ _ _ S V es ev es' ev'); [lia|lia|exact H192|lia|lia]|split; [apply (tmpl_mono _ _ _ _ _ S V es ev es' ev'); [lia|lia|exact H193|lia|lia]|apply (tmpl_mono _ _ _ _ _ S V es ev es' ev'); [lia|lia|exact H194|lia|lia]]]|split; [split; [apply (tmpl_mono _ _ _ _ _ S V es ev es' ev'); [lia|lia|exact H195|lia|lia]|apply (tmpl_mono _ _ _ _ _ S V es ev es' ev'); [lia|lia|exact H196|lia|lia]]|split; [apply (tmpl_mono _ _ _ _ _ S V es ev es' ev'); [lia|lia|exact H197|lia|lia]|apply (tmpl_mono _ _ _ _ _ S V es ev es' ev'); [lia|lia|exact H198|lia|lia]]]]|split; [split; [apply (tmpl_mono _ _ _ _ _ S V es ev es' ev'); [lia|lia|exact H199|lia|lia]|split; [apply (tmpl_mono _ _ _ _ _ S V es ev es' ev'); [lia|lia|exact H200|lia|lia]|apply (tmpl_mono _ _ _ _ _ S V es ev es' ev'); [lia|lia|exact H201|lia|lia]]]|split; [split; [apply (tmpl_mono _ _ _ _ _ S V es ev es' ev'); [lia|lia|exact H202|lia|lia]|apply (tmpl_mono _ _ _ _ _ S V es ev es' ev'); [lia|lia|exact H203|lia|lia]]|split; [apply (tmpl_mono _ _ _ _ _ S V es ev es' ev'); [lia|lia|exact H204|lia|lia]|apply (tmpl_mono _ _ _ _ _ S V es ev es' ev'); [lia|lia|exact H205|lia|lia]]]]]|split; [split; [split; [apply (tmpl_mono _ _ _ _ _ S V es ev es' ev'); [lia|lia|exact H206|lia|lia]|split; [apply (tmpl_mono _ _ _ _ _ S V es ev es' ev'); [lia|lia|exact H207|lia|lia]|apply (tmpl_mono _ _ _ _ _ S V es ev es' ev'); [lia|lia|exact H208|lia|lia]]]|split; [split; [apply (tmpl_mono _ _ _ _ _ S V es ev es' ev'); [lia|lia|exact H209|lia|lia]|apply (tmpl_mono _ _ _ _ _ S V es ev es' ev'); [lia|lia|exact H210|lia|lia]]|split; [apply (tmpl_mono _ _ _ _ _ S V es ev es' ev'); [lia|lia|exact H211|lia|lia]|apply (tmpl_mono _ _ _ _ _ S V es ev es' ev'); [lia|lia|exact H212|lia|lia]]]]|split; [split; [apply (tmpl_mono _ _ _ _ _ S V es ev es' ev'); [lia|lia|exact H213|lia|lia]|split; [apply (tmpl_mono _ _ _ _ _ S V es ev es' ev'); [lia|lia|exact H214|lia|lia]|apply (tmpl_mono _ _ _ _ _ S V es ev es' ev'); [lia|lia|exact H215|lia|lia]]]|split; [split; [apply (tmpl_mono _ _ _ _ _ S V es ev es' ev'); [lia|lia|exact H216|lia|lia]|apply (tmpl_mono _ _ _ _ _ S V es ev es' ev'); [lia|lia|exact H217|lia|lia]]|split; [apply (tmpl_mono _ _ _ _ _ S V es ev es' ev'); [lia|lia|exact H218|lia|lia]|apply (tmpl_mono _ _ _ _ _ S V es ev es' ev'); [lia|lia|exact H219|lia|lia]]]]]]]]].
Qed.
Lemma Inv1ms_10s_x2_init r : 1000000 <= r <= 10000000000 -> Inv1ms_10s_x2 (65536 * r) (32768 * r) 0 32768.
Proof. intros Hr. unfold Inv1ms_10s_x2, tmpl. repeat split; lia. Qed.
Lemma Inv1ms_10s_x2_final S V es ev T : Inv1ms_10s_x2 S V es ev -> 0 <= es -> 0 <= ev -> 0 <= S -> 0 <= V ->
  ZN 50000 * T <= S + 4 * V < ZN 50000 * T + ZN 50000 ->
  P45 * es + 4 * (P45 + E1) * ev + 4 * E1 * V + P45 * 32768 <= P45 * (T + 65536 * ZN 2000).
Proof.
  change (ZN 50000) with 50000. change (ZN 2000) with 2000.
  intros [[[[[[[B1 [B2 H4]] [H5 [H6 H7]]] [[H8 [H9 H10]] [[H11 H12] [H13 H14]]]] [[[H15 [H16 H17]] [[H18 H19] [H20 H21]]] [[H22 [H23 H24]] [[H25 H26] [H27 H28]]]]] [[[[H29 [H30 H31]] [H32 [H33 H34]]] [[H35 [H36 H37]] [[H38 H39] [H40 H41]]]] [[[H42 [H43 H44]] [[H45 H46] [H47 H48]]] [[H49 [H50 H51]] [[H52 H53] [H54 H55]]]]]] [[[[[H56 [H57 H58]] [H59 [H60 H61]]] [[H62 [H63 H64]] [[H65 H66] [H67 H68]]]] [[[H69 [H70 H71]] [[H72 H73] [H74 H75]]] [[H76 [H77 H78]] [[H79 H80] [H81 H82]]]]] [[[[H83 [H84 H85]] [[H86 H87] [H88 H89]]] [[H90 [H91 H92]] [[H93 H94] [H95 H96]]]] [[[H97 [H98 H99]] [[H100 H101] [H102 H103]]] [[H104 [H105 H106]] [[H107 H108] [H109 H110]]]]]]] [[[[[[H111 [H112 H113]] [H114 [H115 H116]]] [[H117 [H118 H119]] [[H120 H121] [H122 H123]]]] [[[H124 [H125 H126]] [[H127 H128] [H129 H130]]] [[H131 [H132 H133]] [[H134 H135] [H136 H137]]]]] [[[[H138 [H139 H140]] [H141 [H142 H143]]] [[H144 [H145 H146]] [[H147 H148] [H149 H150]]]] [[[H151 [H152 H153]] [[H154 H155] [H156 H157]]] [[H158 [H159 H160]] [[H161 H162] [H163 H164]]]]]] [[[[[H165 [H166 H167]] [H168 [H169 H170]]] [[H171 [H172 H173]] [[H174 H175] [H176 H177]]]] [[[H178 [H179 H180]] [[H181 H182] [H183 H184]]] [[H185 [H186 H187]] [[H188 H189] [H190 H191]]]]] [[[[H192 [H193 H194]] [[H195 H196] [H197 H198]]] [[H199 [H200 H201]] [[H202 H203] [H204 H205]]]] [[[H206 [H207 H208]] [[H209 H210] [H211 H212]]] [[H213 [H214 H215]] [[H216 H217] [H218 H219]]]]]]]] He Hv HS HV HT.
  clear - B1 B2 H219 He Hv HS HV HT. unfold tmpl, P45, E1 in *. lia.
Qed.

Theorem global_1ms_10s_x2 c rto gran rs : cc_gran c = gran -> cc_rto c = rto ->
  (forall r, In r rs -> (1000000 <= r <= 10000000000)%N) ->
  within_tol 50000 2000 (fx (rc_rto (run (rtt_new rto gran) rs))) (rfc6298_rto c (ref_run None rs)) = true.
Proof.
  intros HG HR. apply (global_generic 1000000 10000000000 50000 2000 ltac:(lia) ltac:(lia) ltac:(lia) Inv1ms_10s_x2); try assumption.
  - intros r Hr. apply Inv1ms_10s_x2_init. lia.
  - apply Inv1ms_10s_x2_mono.
  - intros. eapply Inv1ms_10s_x2_step; eauto; lia.
  - apply Inv1ms_10s_x2_final.
Qed.
Print Assumptions global_1ms_10s_x2.
(* the same with resets between the samples *)
Theorem global_1ms_10s_x2_ops c rto gran os : cc_gran c = gran -> cc_rto c = rto ->
  Forall (eop_ok 1000000 10000000000) os ->
  within_tol 50000 2000 (fx (rc_rto (run_ops (rtt_new rto gran) os))) (rfc6298_rto c (ref_ops None os)) = true.
Proof.
  intros HG HR. apply (global_generic_ops 1000000 10000000000 50000 2000 ltac:(lia) ltac:(lia) ltac:(lia) Inv1ms_10s_x2); try assumption.
  - intros r Hr. apply Inv1ms_10s_x2_init. lia.
  - apply Inv1ms_10s_x2_mono.
  - intros. eapply Inv1ms_10s_x2_step; eauto; lia.
  - apply Inv1ms_10s_x2_final.
Qed.
Print Assumptions global_1ms_10s_x2_ops.

(* ---- Sanity runs of the exact model (vm_compute).
   The worst-case recurrences of Stage 3 do NOT fit the tolerance on the whole range 1 ms .. 10 s: on the sequence
   60 x 10 s, 25 x 1 ms, 9 x 355.94241 ms (SRTT decays while its error bound decays more slowly, then RTTVAR collapses)
   the bound reaches 1.48 times the tolerance.  The exact model is nowhere near that: every interval of that run is
   inside the tolerance, the last one deviates by 437357 units (6.7 ns) where 435570880 (6.6 us) are allowed. *)
Import ListNotations.
Fixpoint track (rd ab:N) (c:ccfg) (st:rtt_calc) (est:option (N * N)) (rs:list N) : bool :=
  match rs with
  | [] => true
  | r :: rs' =>
      let st' := rtt_update st r in let est' := rfc6298_update est (fx r) in
      within_tol rd ab (fx (rc_rto st')) (rfc6298_rto c est') && track rd ab c st' est' rs'
  end.
Definition cfg0 : ccfg := {| cc_mech := 0; cc_fp := false; cc_reliable := false; cc_rto := 500000000; cc_gran := 0 |}.
Definition bound_witness : list N := repeat 10000000000%N 60%nat ++ repeat 1000000%N 25%nat ++ repeat 355942410%N 9%nat.
Example bound_witness_run :
  track 100000 1000 cfg0 (rtt_new 500000000 0) None bound_witness = true /\
  (let st := run (rtt_new 500000000 0) bound_witness in
   let e := rfc6298_rto cfg0 (ref_run None bound_witness) in
   (absdiff (fx (rc_rto st)) e, (e / 100000 + fx 1000)%N)) = (437357%N, 435570880%N).
Proof. vm_compute. split; reflexivity. Qed.
(* the largest deviation a greedy adversarial search on the model found (samples steered around 10 s so that the
   roundings add up): 35 % of the tolerance *)
Definition greedy_witness : list N :=
  [10000000000; 9942045583; 9837108924; 9738911548; 9850131961; 9716687422; 9863323063; 9838664614; 9840877149;
   9873622611; 9824596379; 9800518289; 9832592171; 9783198994; 9730739666; 9805904767; 9813762903; 9776104399;
   9705486537; 9730663329; 9739361243; 9727428452; 9781597460; 9781292327; 9761944326; 9748271903; 9715404328;
   9717754405; 9739300197; 9732112727; 9712795628; 9706508151; 9731120899; 9731060048; 9709728731; 9718395684;
   9717785224; 9702144440; 9722667606; 9725246354; 9725200557]%N.
Example greedy_witness_run :
  track 100000 1000 cfg0 (rtt_new 500000000 0) None greedy_witness = true /\
  (let st := run (rtt_new 500000000 0) greedy_witness in
   let e := rfc6298_rto cfg0 (ref_run None greedy_witness) in
   (absdiff (fx (rc_rto st)) e, (e / 100000 + fx 1000)%N)) = (2287848802%N, 6475714687%N).
Proof. vm_compute. split; reflexivity. Qed.
