From Coq Require Import List NArith Bool Lia.
Import ListNotations.
From Rustun Require Import Codec.Filter Codec.DecodeLoop Codec.FilterCase.
Open Scope N_scope.

Notation floop := (loop fattr fattr fa_kind (fun _ x => Some x) fverify).

Definition Seen (s : seen) (sl : list kind) : Prop :=
  s_mi s = existsb (kind_eqb MI) sl /\ s_sha s = existsb (kind_eqb SHA) sl /\ s_fp s = existsb (kind_eqb FP) sl.

Lemma Seen_see s sl k : Seen s sl -> Seen (see s k) (k :: sl).
Proof.
  unfold Seen. intros (A & B & C). destruct k; cbn [see s_mi s_sha s_fp existsb kind_eqb orb]; auto.
Qed.

Fixpoint keepf (bs : list bool) (l : list fattr) : list fattr :=
  match bs, l with b :: bs', a :: l' => if b then a :: keepf bs' l' else keepf bs' l' | _, _ => [] end.

Lemma keepf_pos : forall l bs pos sl, length bs = length l ->
  map fa_pos (keepf bs (annotate pos sl l)) = positions pos bs.
Proof.
  induction l as [|[k g] r IH]; intros bs pos sl Hl; destruct bs as [|b bs]; cbn in Hl; try discriminate; [reflexivity|].
  cbn [annotate keepf positions]. destruct b; cbn [map fa_pos]; rewrite IH by lia; reflexivity.
Qed.

Lemma allow_length : forall ks s, length (allow s ks) = length ks.
Proof. induction ks as [|k r IH]; intros s; cbn [allow length]; [reflexivity|]. rewrite IH. reflexivity. Qed.

(* an allowed integrity / fingerprint attribute is the first of its type on the wire *)
Lemma allowed_first s sl k : Seen s sl -> allow1 s k = true -> k <> Ord -> negb (existsb (kind_eqb k) sl) = true.
Proof.
  unfold Seen. intros (A & B & C) Ha Hk. rewrite <- ?A, <- ?B, <- ?C.
  destruct k; [congruence| | |]; cbn [allow1] in Ha; [rewrite <- A|rewrite <- B|rewrite <- C];
  destruct (s_mi s), (s_sha s), (s_fp s); cbn in *; congruence.
Qed.

Lemma loop_spec o : o_not_ignore o = false -> forall l f s pos sl, R f s -> Seen s sl ->
  floop o f (annotate pos sl l) =
    if o_validate o && negb (all_allowed_good (allow s (map fst l)) l) then None
    else Some (keepf (allow s (map fst l)) (annotate pos sl l)).
Proof.
  intros Hni. induction l as [|[k g] r IH]; intros f s pos sl HR HS.
  - cbn. rewrite andb_false_r. reflexivity.
  - cbn [annotate loop map fst allow all_allowed_good keepf]. change (fa_kind {| fa_kind := k; fa_good := g; fa_pos := pos; fa_first := negb (existsb (kind_eqb k) sl) |}) with k.
    destruct (step_sim f s k HR) as [Ha HR'].
    destruct (ignore_attribute f k) as [ign f'] eqn:E. cbn [fst snd] in Ha, HR'.
    rewrite Hni, orb_false_r, Ha.
    specialize (IH f' (see s k) (pos + 1) (k :: sl) HR' (Seen_see s sl k HS)).
    destruct (allow1 s k) eqn:Hadm.
    + (* allowed: validated when validation is on *)
      assert (Hv : fverify {| fa_kind := k; fa_good := g; fa_pos := pos; fa_first := negb (existsb (kind_eqb k) sl) |}
                   = match k with Ord => true | _ => g end).
      { unfold fverify. cbn [fa_kind fa_good fa_first]. destruct k; [reflexivity| | |];
        rewrite (allowed_first s sl _ HS Hadm) by discriminate; apply andb_true_r. }
      rewrite Hv, IH. clear IH Hv.
      destruct (o_validate o); cbn [andb]; [|reflexivity].
      destruct (match k with Ord => true | _ => g end); cbn [negb andb]; [|reflexivity].
      destruct (negb (all_allowed_good (allow (see s k) (map fst r)) r)); reflexivity.
    + (* not allowed: neither returned nor validated *)
      rewrite IH. cbn [andb]. reflexivity.
Qed.

Lemma Seen0 : Seen s0 [].
Proof. unfold Seen; cbn; auto. Qed.
Lemma R0 : R f0 s0.
Proof. unfold R; cbn; intuition discriminate. Qed.

Lemma list_N_eqb_refl : forall l, list_N_eqb l l = true.
Proof. induction l as [|x l IH]; cbn [list_N_eqb]; [reflexivity|]. rewrite N.eqb_refl, IH. reflexivity. Qed.

Theorem model_meets_C09 : forall ctx l, monitor_C09 ctx l (filter_case ctx l) = true.
Proof.
  intros ctx l. unfold monitor_C09, filter_case.
  set (o := match ctx with Some o => o | None => default_opts end).
  destruct (o_not_ignore o) eqn:Hni; [reflexivity|].
  rewrite (loop_spec o Hni l f0 s0 0 [] R0 Seen0).
  destruct (o_validate o && negb (all_allowed_good (allow s0 (map fst l)) l)); [reflexivity|].
  rewrite keepf_pos by (rewrite allow_length, map_length; reflexivity).
  apply list_N_eqb_refl.
Qed.

(* once the FINGERPRINT flag is set everything else is ignored *)
Lemma ignore_after_fp f k : f_fp f = true -> ignore_attribute f k = (true, f).
Proof.
  intros H. destruct f as [a b c]; cbn in H; subst c. unfold ignore_attribute. cbn [f_mi f_sha f_fp].
  destruct a, b, k; reflexivity.
Qed.

Lemma loop_all_ignored o : o_not_ignore o = false -> forall l f, f_fp f = true -> floop o f l = Some [].
Proof.
  intros Hni. induction l as [|x l IH]; intros f Hf; cbn [loop]; [reflexivity|].
  rewrite (ignore_after_fp f _ Hf), Hni. cbn [negb orb]. apply IH. exact Hf.
Qed.

Lemma fp_sets_flag f : f_fp f = false -> f_fp (snd (ignore_attribute f FP)) = true.
Proof. destruct f as [a b c]; cbn; intros ->. destruct a, b; reflexivity. Qed.

Lemma flag_monotone f k : f_fp f = true -> f_fp (snd (ignore_attribute f k)) = true.
Proof. intros H. rewrite (ignore_after_fp f k H). exact H. Qed.

Lemma annotate_app : forall l ext pos sl,
  annotate pos sl (l ++ ext) = annotate pos sl l ++ annotate (pos + N.of_nat (length l)) (rev (map fst l) ++ sl) ext.
Proof.
  induction l as [|[k g] r IH]; intros ext pos sl.
  - cbn. rewrite N.add_0_r. reflexivity.
  - cbn [app annotate map fst rev length]. rewrite IH. f_equal. rewrite <- app_assoc. cbn [app].
    replace (pos + 1 + N.of_nat (length r)) with (pos + N.of_nat (S (length r))) by lia. reflexivity.
Qed.

Lemma loop_app_ignored o : o_not_ignore o = false -> forall l ext f,
  (f_fp f = true \/ existsb is_fp (map fa_kind l) = true) ->
  floop o f (l ++ ext) = floop o f l.
Proof.
  intros Hni. induction l as [|x l IH]; intros ext f H.
  - cbn [app]. destruct H as [H|H]; [|discriminate]. rewrite (loop_all_ignored o Hni ext f H). reflexivity.
  - cbn [app loop].
    assert (H' : f_fp (snd (ignore_attribute f (fa_kind x))) = true \/ existsb is_fp (map fa_kind l) = true).
    { destruct H as [H|H]; [left; apply flag_monotone; exact H|].
      cbn [map existsb] in H. apply orb_true_iff in H as [H|H]; [|right; exact H].
      destruct (f_fp f) eqn:Hf; [left; apply flag_monotone; exact Hf|].
      left. destruct (fa_kind x); try discriminate. apply fp_sets_flag. exact Hf. }
    destruct (ignore_attribute f (fa_kind x)) as [ign f']. cbn [snd] in H'.
    rewrite (IH ext f' H'). reflexivity.
Qed.

Lemma annotate_kinds : forall l pos sl, map fa_kind (annotate pos sl l) = map fst l.
Proof. induction l as [|[k g] r IH]; intros pos sl; cbn [annotate map fa_kind fst]; [reflexivity|]. rewrite IH. reflexivity. Qed.

Theorem append_after_fp : forall ctx l ext,
  (match ctx with Some o => o_not_ignore o | None => false end) = false ->
  existsb is_fp (map fst l) = true ->
  filter_case ctx (l ++ ext) = filter_case ctx l.
Proof.
  intros ctx l ext Hni Hfp. unfold filter_case.
  set (o := match ctx with Some o => o | None => default_opts end).
  assert (Hni' : o_not_ignore o = false) by (subst o; destruct ctx; [exact Hni|reflexivity]).
  rewrite annotate_app. rewrite (loop_app_ignored o Hni'); [reflexivity|].
  right. rewrite annotate_kinds. exact Hfp.
Qed.
