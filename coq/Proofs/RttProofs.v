(* The RFC 6298 reference used by the C15 monitor (Agent/Monitors.v): characterising lemmas *)
From Coq Require Import List NArith Lia Bool.
Import ListNotations.
From Rustun Require Import Agent.Rto Agent.Model Agent.Monitors.
Open Scope N_scope.

(* first measurement R: SRTT = R, RTTVAR = R/2 *)
Lemma first_sample r : rfc6298_update None r = Some (r, r / 2).
Proof. reflexivity. Qed.
(* later measurement R': RTTVAR = 3/4 RTTVAR + 1/4 |SRTT - R'| (with the OLD SRTT), then SRTT = 7/8 SRTT + 1/8 R' *)
Lemma later_sample srtt rttvar r :
  rfc6298_update (Some (srtt, rttvar)) r = Some ((7 * srtt + r) / 8, (3 * rttvar + absdiff srtt r) / 4).
Proof. reflexivity. Qed.
(* RTO = SRTT + max(G, 4 RTTVAR), not rounded up to a second; the configured value while there is no sample *)
Lemma rto_formula c srtt rttvar : rfc6298_rto c (Some (srtt, rttvar)) = srtt + N.max (fx (cc_gran c)) (4 * rttvar).
Proof. reflexivity. Qed.
Lemma rto_initial c : rfc6298_rto c None = fx (cc_rto c).
Proof. reflexivity. Qed.
(* fixed point: 1 unit = 2^-16 ns; the division error of one update is below one unit *)
Lemma update_error srtt rttvar r : let '(s', v') := match rfc6298_update (Some (srtt, rttvar)) r with Some x => x | None => (0, 0) end in
  8 * s' <= 7 * srtt + r < 8 * s' + 8 /\ 4 * v' <= 3 * rttvar + absdiff srtt r < 4 * v' + 4.
Proof.
  cbn [rfc6298_update]. split.
  - set (a := 7 * srtt + r). pose proof (N.div_mod a 8 ltac:(lia)) as E. pose proof (N.mod_lt a 8 ltac:(lia)) as L.
    clearbody a. generalize dependent (a / 8). generalize dependent (a mod 8). intros. lia.
  - set (a := 3 * rttvar + absdiff srtt r). pose proof (N.div_mod a 4 ltac:(lia)) as E. pose proof (N.mod_lt a 4 ltac:(lia)) as L.
    clearbody a. generalize dependent (a / 4). generalize dependent (a mod 4). intros. lia.
Qed.

(* Karn's rule on the client model: a retransmission clears the recorded send instant of the transaction (so that its
   response time is never fed to the estimator): every entry re-armed by tmo_one has inst = None *)
Lemma tmo_one_clears_instant now t h mk ev id x d m' :
  lookup id t = Some x -> next_rto (tm x) now = (Some d, m') ->
  tmo_one now (t, h, mk, ev) id = (update_t id {| inst := None; pkt := pkt x; tm := m' |} t, (now, d, id) :: h, mk, ev ++ [Out id false (pkt x)]).
Proof. intros Hl Hn. unfold tmo_one. rewrite Hl, Hn. reflexivity. Qed.
(* staleness: the monitor resets exactly when more than 600 s lie between consecutive requests *)
Example stale_boundary :
  (600000000000 <? 600000000001 - 0) = true /\ (600000000000 <? 600000000000 - 0) = false.
Proof. split; reflexivity. Qed.

(* C06 / C15, "starts at the configured value": the exact estimator of the client model (Agent/RttExact.v) hands a request the
   CONFIGURED interval while it has no sample: for a fresh client, and whenever more than 600 s have passed since the previous
   request (whatever was learned before) *)
From Rustun Require Import Agent.F32 Agent.RttExact.
Lemma fresh_interval_is_configured rto gran now : est_rto_for_send (est0 rto gran) now = rto.
Proof. reflexivity. Qed.
Lemma stale_interval_is_configured s now l :
  e_last s = Some l -> (600000000000 <? now - l) = true -> est_rto_for_send s now = rc_conf (e_calc s).
Proof. intros Hl Hs. unfold est_rto_for_send, est_send. rewrite Hl, Hs. reflexivity. Qed.
Lemma configured_is_kept_send s now : rc_conf (e_calc (est_send s now)) = rc_conf (e_calc s).
Proof. unfold est_send. destruct (e_last s) as [l|]; [destruct (600000000000 <? now - l)|]; reflexivity. Qed.
Lemma configured_is_kept_update c r : rc_conf (rtt_update c r) = rc_conf c.
Proof. unfold rtt_update. destruct (rc_srtt c =? 0); reflexivity. Qed.
