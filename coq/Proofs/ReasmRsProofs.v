From Coq Require Import List NArith Lia Bool Arith.
Import ListNotations.
From Rustun Require Import Base.Tlv Agent.Reasm Agent.ReasmDrive Agent.ReasmRs.
Open Scope N_scope.

(* the decoders the caller can hold never trip a slice or subtraction panic *)
Lemma slices_ok_inv d : DInv d -> 20 <= bufsz d -> slices_ok d = true.
Proof.
  unfold DInv, slices_ok. intros H HB. destruct (expd d) as [size|].
  - destruct H as ([H1 H2] & H3 & _). apply andb_true_iff. split; apply N.leb_le; lia.
  - apply andb_true_iff. split; apply N.leb_le; lia.
Qed.

Lemma feed_rs_fine d data : DInv d -> 20 <= bufsz d -> feed_rs d data = Fine (feed d data).
Proof. intros H HB. unfold feed_rs. rewrite (slices_ok_inv d H HB). reflexivity. Qed.

Lemma new_rs_some B : 20 <= B -> new_rs B = Some (fresh B).
Proof. intros H. unfold new_rs. assert ((B <? 20) = false) as -> by (apply N.ltb_ge; lia). reflexivity. Qed.

Lemma chunk_log_spec : forall fuel B d chunk, 20 <= B -> DInv d -> bufsz d = B -> (length chunk < fuel)%nat ->
  fst (chunk_log fuel B d chunk) = fst (spec_chunk fuel B (acc d) chunk)
  /\ option_map acc (snd (chunk_log fuel B d chunk)) = snd (spec_chunk fuel B (acc d) chunk)
  /\ (forall d', snd (chunk_log fuel B d chunk) = Some d' -> DInv d' /\ bufsz d' = B).
Proof.
  induction fuel as [|fuel IH]; intros B d chunk H20 Hinv HB Hf; [lia|].
  cbn [chunk_log spec_chunk]. rewrite (feed_rs_fine d chunk Hinv) by lia.
  pose proof (feed_spec d chunk Hinv) as Hfs. rewrite HB in Hfs.
  destruct (parse B (acc d ++ chunk)) as [p rest|m| |] eqn:Hp.
  - destruct Hfs as (Hfeed & Hlt & Hrest). rewrite Hfeed, (new_rs_some B H20), Hrest.
    destruct rest as [|b rest'] eqn:Er.
    + cbn [fst snd option_map fresh acc]. refine (conj eq_refl (conj eq_refl _)).
      intros d' E. inversion E; subst d'. split; [apply DInv_fresh|reflexivity].
    + rewrite <- Er in *. 
      pose proof (parse_packet_len _ _ _ _ Hp) as (Hp1 & Hp2 & Hp3 & _). rewrite len_app in Hp2.
      assert (Hlen : (length rest < fuel)%nat).
      { rewrite <- Hrest. unfold drop. rewrite skipn_length. unfold len in *. lia. }
      specialize (IH B (fresh B) rest H20 (DInv_fresh B) eq_refl Hlen). cbn [fresh acc] in IH.
      destruct (chunk_log fuel B (fresh B) rest) as [cs od].
      destruct (spec_chunk fuel B [] rest) as [cs' ob]. cbn [fst snd] in *.
      destruct IH as (I1 & I2 & I3). subst cs'. refine (conj eq_refl (conj I2 I3)).
  - destruct Hfs as (d' & Hfeed & Hacc & Hb & Hinv'). rewrite Hfeed. cbn [fst snd option_map].
    rewrite Hacc. refine (conj eq_refl (conj eq_refl _)). intros d'' E. inversion E; subst d''. split; [exact Hinv'|congruence].
  - rewrite Hfs. cbn [fst snd option_map]. refine (conj eq_refl (conj eq_refl _)). discriminate.
  - rewrite Hfs. cbn [fst snd option_map]. refine (conj eq_refl (conj eq_refl _)). discriminate.
Qed.

Theorem drive_log_spec : forall chunks B od, 20 <= B ->
  (forall d, od = Some d -> DInv d /\ bufsz d = B) ->
  drive_log B od chunks = spec_log B (option_map acc od) chunks.
Proof.
  induction chunks as [|c r IH]; intros B od H20 Hd; [reflexivity|].
  cbn [drive_log spec_log]. destruct od as [d|]; [|reflexivity]. cbn [option_map].
  destruct (Hd d eq_refl) as [Hinv HB].
  pose proof (chunk_log_spec (S (length c)) B d c H20 Hinv HB ltac:(lia)) as (S1 & S2 & S3).
  destruct (chunk_log (S (length c)) B d c) as [cs od'].
  destruct (spec_chunk (S (length c)) B (acc d) c) as [cs' ob']. cbn [fst snd] in *. subst cs' ob'.
  f_equal. apply IH; [exact H20|exact S3].
Qed.

Theorem run_log_spec B chunks : 20 <= B -> run_log B chunks = spec_log B (Some []) chunks.
Proof.
  intros H20. unfold run_log. rewrite (new_rs_some B H20).
  rewrite (drive_log_spec chunks B (Some (fresh B)) H20); [reflexivity|].
  intros d E. inversion E; subst d. split; [apply DInv_fresh|reflexivity].
Qed.

(* no decode() call of any run panics *)
Lemma spec_chunk_no_panic : forall fuel B b c, ~ In CPanic (fst (spec_chunk fuel B b c)).
Proof.
  induction fuel as [|fuel IH]; intros B b c; cbn [spec_chunk]; [cbn; tauto|].
  destruct (parse B (b ++ c)) as [p rest|m| |]; try (cbn; intros [H|[]]; discriminate).
  destruct rest as [|x rest']; [cbn; intros [H|[]]; discriminate|].
  specialize (IH B [] (x :: rest')). destruct (spec_chunk fuel B [] (x :: rest')) as [cs ob]. cbn [fst] in *.
  intros [H|H]; [discriminate|exact (IH H)].
Qed.

Lemma spec_log_no_panic : forall chunks B ob cs, In cs (spec_log B ob chunks) -> ~ In CPanic cs.
Proof.
  induction chunks as [|c r IH]; intros B ob cs H; cbn [spec_log] in H; [destruct H|].
  destruct ob as [b|]; [|destruct H].
  pose proof (spec_chunk_no_panic (S (length c)) B b c) as NP.
  destruct (spec_chunk (S (length c)) B b c) as [cs0 ob']. cbn [fst] in NP.
  destruct H as [<-|H]; [exact NP|exact (IH B ob' cs H)].
Qed.

Theorem run_log_no_panic B chunks cs : 20 <= B -> In cs (run_log B chunks) -> ~ In CPanic cs.
Proof. intros H20 H. rewrite (run_log_spec B chunks H20) in H. exact (spec_log_no_panic chunks B _ cs H). Qed.

Lemma call_eqb_refl c : call_eqb c c = true.
Proof.
  assert (Hb : forall x:bytes, (fix beq (x y:bytes) := match x, y with [] , [] => true | p::x', q::y' => (p =? q) && beq x' y' | _, _ => false end) x x = true).
  { induction x as [|a x IH]; [reflexivity|]. rewrite N.eqb_refl, IH. reflexivity. }
  destruct c as [p c|[m|]|c|c| |]; cbn [call_eqb]; rewrite ?Hb, ?N.eqb_refl; reflexivity.
Qed.
Lemma calls_eqb_refl l : calls_eqb l l = true.
Proof. induction l as [|c l IH]; cbn [calls_eqb]; [reflexivity|]. rewrite call_eqb_refl, IH. reflexivity. Qed.
Lemma log_eqb_refl l : log_eqb l l = true.
Proof. induction l as [|c l IH]; cbn [log_eqb]; [reflexivity|]. rewrite calls_eqb_refl, IH. reflexivity. Qed.

Theorem model_meets_C16 B chunks : monitor_C16 B chunks (run_log B chunks) = true.
Proof.
  unfold monitor_C16. destruct (N.ltb_spec B 20) as [H|H]; [reflexivity|].
  rewrite (run_log_spec B chunks H). apply log_eqb_refl.
Qed.

(* ---- "exactly those packets": a stream that is a concatenation of well-formed packets ---- *)
Definition wf_packet (B:N) (p:bytes) : Prop :=
  hdr_ok (take 20 p) = true /\ 20 <= len p /\ len p = msg_len (take 20 p) + 20 /\ len p <= B.

Lemma parse_wf B p t : wf_packet B p -> parse B (p ++ t) = Packet p t.
Proof.
  intros (Hh & H20 & Hl & HB). unfold parse. rewrite len_app.
  assert ((len p + len t <? 20) = false) as -> by (apply N.ltb_ge; lia).
  rewrite (take_app_le 20 p t) by lia. rewrite Hh. cbn [negb]. rewrite <- Hl.
  assert ((B <? len p) = false) as -> by (apply N.ltb_ge; lia).
  assert ((len p + len t <? len p) = false) as -> by (apply N.ltb_ge; lia).
  f_equal; [apply take_app_exact|apply drop_app_exact].
Qed.

Lemma split_packets : forall pkts fuel B, Forall (wf_packet B) pkts -> (length (concat pkts) < fuel)%nat ->
  split fuel B (concat pkts) = (map EPacket pkts, Some []).
Proof.
  induction pkts as [|p r IH]; intros fuel B Hwf Hf.
  - destruct fuel; [cbn in Hf; lia|]. cbn [concat split map]. unfold parse. cbn. reflexivity.
  - destruct fuel as [|fuel]; [lia|]. inversion Hwf as [|? ? Hp Hr]; subst. cbn [concat split map].
    rewrite (parse_wf B p (concat r) Hp).
    destruct Hp as (_ & H20 & _). cbn [concat] in Hf. rewrite app_length in Hf. unfold len in H20.
    rewrite (IH fuel B Hr) by lia. reflexivity.
Qed.

Theorem packets_exact B pkts chunks : 20 <= B -> Forall (wf_packet B) pkts -> concat chunks = concat pkts ->
  drive B (fresh B) chunks = map EPacket pkts.
Proof.
  intros H20 Hwf Hc. rewrite drive_spec by (try apply DInv_fresh; reflexivity). cbn [fresh acc app].
  rewrite Hc. rewrite (split_packets pkts _ B Hwf) by lia. reflexivity.
Qed.

(* ---- every supplied byte is either part of a delivered packet or still buffered ---- *)
Fixpoint delivered (cs:list call) : bytes :=
  match cs with [] => [] | CDecoded p _ :: r => p ++ delivered r | _ :: r => delivered r end.

Lemma incomplete_lt B b c m p rest : parse B b = Incomplete m -> parse B (b ++ c) = Packet p rest -> len b < len p.
Proof.
  intros Hb Hp. pose proof (parse_packet_len _ _ _ _ Hp) as (Hp1 & _).
  unfold parse in Hb, Hp. rewrite len_app in Hp.
  destruct (len b <? 20) eqn:E1; [apply N.ltb_lt in E1; lia|]. apply N.ltb_ge in E1.
  assert ((len b + len c <? 20) = false) as E0 by (apply N.ltb_ge; lia). rewrite E0 in Hp.
  rewrite (take_app_le 20 b c) in Hp by lia.
  destruct (negb (hdr_ok (take 20 b))); [discriminate|].
  destruct (B <? msg_len (take 20 b) + 20); [discriminate|].
  destruct (len b <? msg_len (take 20 b) + 20) eqn:E2; [|discriminate]. apply N.ltb_lt in E2.
  destruct (len b + len c <? msg_len (take 20 b) + 20) eqn:E3; [discriminate|]. apply N.ltb_ge in E3.
  inversion Hp; subst. rewrite len_take by (rewrite len_app; lia). exact E2.
Qed.

Lemma spec_chunk_conserves : forall fuel B b c cs b' m, (length c < fuel)%nat -> parse B b = Incomplete m ->
  spec_chunk fuel B b c = (cs, Some b') -> b ++ c = delivered cs ++ b'.
Proof.
  induction fuel as [|fuel IH]; intros B b c cs b' m Hf Hb H; [lia|]. cbn [spec_chunk] in H.
  destruct (parse B (b ++ c)) as [p rest|m'| |] eqn:Hp; try discriminate.
  - pose proof (parse_packet_len _ _ _ _ Hp) as (Hp1 & Hp2 & Hp3 & Hsp).
    pose proof (incomplete_lt B b c m p rest Hb Hp) as Hlt.
    destruct rest as [|x rest'] eqn:Er.
    + inversion H; subst. cbn [delivered]. rewrite !app_nil_r in *. exact Hsp.
    + rewrite <- Er in *.
      destruct (spec_chunk fuel B [] rest) as [cs0 ob] eqn:Hs. inversion H; subst cs ob. cbn [delivered].
      rewrite <- app_assoc. rewrite <- (IH B [] rest cs0 b' None); [exact Hsp| |reflexivity|exact Hs].
      apply (f_equal len) in Hsp. rewrite !len_app in Hsp. unfold len in *. lia.
  - inversion H; subst. reflexivity.
Qed.

(* the number of bytes each decode() call reports as consumed is the part of ITS input that went into the packet *)
Lemma parse_missing B s k : parse B s = Incomplete (Some k) ->
  20 <= len s /\ 0 < k /\ len s + k = msg_len (take 20 s) + 20.
Proof.
  unfold parse. destruct (len s <? 20) eqn:E1; [discriminate|]. apply N.ltb_ge in E1.
  destruct (negb (hdr_ok (take 20 s))); [discriminate|].
  destruct (B <? msg_len (take 20 s) + 20); [discriminate|].
  destruct (len s <? msg_len (take 20 s) + 20) eqn:E2; [|discriminate]. apply N.ltb_lt in E2.
  intros H. inversion H; subst. lia.
Qed.

Lemma parse_missing_none B s : parse B s = Incomplete None -> len s < 20.
Proof.
  unfold parse. destruct (len s <? 20) eqn:E1; [intros _; apply N.ltb_lt; exact E1|].
  destruct (negb (hdr_ok (take 20 s))); [discriminate|].
  destruct (B <? msg_len (take 20 s) + 20); [discriminate|].
  destruct (len s <? msg_len (take 20 s) + 20); discriminate.
Qed.
