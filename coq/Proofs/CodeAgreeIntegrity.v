(* Agreement of TransportIntegrity (stun-agent/src/integrity.rs: new, discard_message, compute_message_integrity,
   signal_protection_violated_on_timeout), GENERATED from /repo's current Rust text (Generated/Code.v, tools/rs2v.py), with
   the hand-written model the C07 / C08 / C17 theorems are about: Model.discard_message, Model.compute_mi, Model.mem / del.

   Modelling decisions (visible in the generated text and in tools/rs2v.py, section "integrity.rs"):
   - HashSet<TransactionId> is a `list N` under SET semantics: insert x = set_insert (= Model.ins: x is consed only when it is
     absent), remove x = set_remove (= Model.del: every occurrence goes) and returns set_mem (= Model.mem). That a list read
     this way behaves as a set is shown below (lemmas set_semantics_..): membership after insert / remove is the set's, and no
     duplicates arise from the empty set. `is_reliable` stays a field of the record.
   - a StunMessage is opaque: the pair (class, transaction id); class() is the first component, a MessageClass by declaration
     index (Request 0, Indication 1, SuccessResponse 2, ErrorResponse 3: the enum line of Generated/Code.v), class_code below.
   - validate_message_integrity(integrity, key, raw_buffer) is cryptography outside the translated subset: it is an ORACLE,
     an explicit function argument of the generated compute_message_integrity, applied to the three translated arguments of
     the call. The agreement holds for EVERY oracle that answers, on the arguments of this call, what the abstract model
     takes for validity: keyd_eqb (mac_key a) key (byte level: C04). HMACKey and StunAttribute are opaque values: ANY
     encodings kenc / enc.
   - IntegrityError is local to integrity.rs: a C-like enum, N by declaration index; the codes are used BY NAME
     (gen_IntegrityError_Discarded ...), so a reordering of the variants changes nothing here (ierr_code).
   - debug!(..) statements are dropped.
   What a changed Rust text does: the generated definitions change and the lemmas below no longer check. *)
From Coq Require Import List NArith Bool Lia.
Import ListNotations.
From Rustun Require Import Base.GRes Generated.Code Agent.Model.
Open Scope N_scope.

(* ------------------------------------------------------------------ the abstraction *)
Definition ierr_code (e:ierr) : N :=
  match e with
  | EDiscarded => gen_IntegrityError_Discarded | ENotRetryable => gen_IntegrityError_NotRetryable
  | EViolated => gen_IntegrityError_ProtectionViolated | ERetry => gen_IntegrityError_Retry
  end.
Definition class_code (c:mclass) : N := match c with CRequest => 0 | CIndication => 1 | CSuccess => 2 | CError => 3 end.
Definition msg_abs (m:msg) : N * N := (class_code (m_class m), m_id m).
(* the Rust struct for a model state (transport kind, marked transactions) *)
Definition ti (reliable:bool) (markers:list txid) : TransportIntegrity :=
  Build_TransportIntegrity markers reliable.
(* Result<(), IntegrityError> for the model's option ierr (Ok = None) *)
Definition res_code (r:option ierr) : gresult unit N :=
  match r with None => GRes.ROk tt | Some e => GRes.RErr (ierr_code e) end.

Lemma ierr_code_inj : forall a b, ierr_code a = ierr_code b -> a = b.
Proof. intros a b; destruct a, b; cbn; intros H; try reflexivity; discriminate H. Qed.
Lemma class_code_inj : forall a b, class_code a = class_code b -> a = b.
Proof. intros a b; destruct a, b; cbn; intros H; try reflexivity; discriminate H. Qed.
Lemma res_code_inj : forall a b, res_code a = res_code b -> a = b.
Proof.
  intros [a|] [b|] H; cbn in H; try reflexivity; try discriminate H.
  injection H as H. f_equal. exact (ierr_code_inj a b H).
Qed.

(* ------------------------------------------------------------------ the set helpers of Base/GRes.v are the model's *)
Lemma set_mem_is_mem : forall x l, set_mem x l = Model.mem x l.
Proof. reflexivity. Qed.
Lemma set_remove_is_del : forall x l, set_remove x l = Model.del x l.
Proof. reflexivity. Qed.
Lemma set_insert_is_ins : forall x l, set_insert x l = Model.ins x l.
Proof. reflexivity. Qed.

(* ... and a list read through them behaves as the HashSet does *)
Lemma set_semantics_mem_insert : forall x y l, Model.mem x (Model.ins y l) = (x =? y) || Model.mem x l.
Proof.
  intros x y l. unfold Model.ins. destruct (Model.mem y l) eqn:Hy.
  - destruct (N.eqb_spec x y) as [->|Hne]; [rewrite Hy; reflexivity|reflexivity].
  - reflexivity.
Qed.
Lemma set_semantics_mem_remove : forall x y l, Model.mem x (Model.del y l) = negb (x =? y) && Model.mem x l.
Proof.
  intros x y l. unfold Model.mem, Model.del. induction l as [|z r IH]; cbn [filter existsb].
  - rewrite andb_false_r. reflexivity.
  - destruct (N.eqb_spec z y) as [->|Hzy]; cbn [negb existsb].
    + rewrite IH. destruct (x =? y); reflexivity.
    + rewrite IH. destruct (N.eqb_spec x z) as [->|Hxz]; [|reflexivity].
      destruct (N.eqb_spec z y) as [Heq|_]; [contradiction|reflexivity].
Qed.
Lemma mem_In : forall x l, Model.mem x l = true <-> In x l.
Proof.
  intros x l. unfold Model.mem. rewrite existsb_exists. split.
  - intros [y [Hin Heq]]. apply N.eqb_eq in Heq. subst y. exact Hin.
  - intros Hin. exists x. split; [exact Hin|apply N.eqb_refl].
Qed.
Lemma set_semantics_nodup_insert : forall y l, NoDup l -> NoDup (Model.ins y l).
Proof.
  intros y l Hnd. unfold Model.ins. destruct (Model.mem y l) eqn:Hy; [exact Hnd|].
  constructor; [|exact Hnd]. intros Hin. apply mem_In in Hin. rewrite Hin in Hy. discriminate Hy.
Qed.
Lemma set_semantics_nodup_remove : forall y l, NoDup l -> NoDup (Model.del y l).
Proof. intros y l Hnd. unfold Model.del. apply NoDup_filter. exact Hnd. Qed.

(* ------------------------------------------------------------------ the four functions *)
Lemma class_code_indication : forall c, (class_code c =? 1) = class_eqb c CIndication.
Proof. intros c; destruct c; reflexivity. Qed.

(* TransportIntegrity::new *)
Theorem gen_new_agrees : forall rel, gen_TransportIntegrity_new rel = ti rel [].
Proof. reflexivity. Qed.

(* TransportIntegrity::discard_message: the returned error and the next set are the model's; the transport kind is kept;
   never a panic *)
Theorem gen_discard_agrees : forall rel mk m,
  gen_TransportIntegrity_discard_message (ti rel mk) (msg_abs m)
  = GOk (ierr_code (fst (Model.discard_message rel mk m)), ti rel (snd (Model.discard_message rel mk m))).
Proof.
  intros rel mk m. unfold gen_TransportIntegrity_discard_message, Model.discard_message, msg_abs, ti.
  cbn.
  rewrite class_code_indication.
  destruct (class_eqb (m_class m) CIndication); [reflexivity|].
  destruct rel; reflexivity.
Qed.

(* TransportIntegrity::compute_message_integrity, for every oracle that decides this call as the abstract model does *)
Theorem gen_compute_mi_agrees : forall (enc : attr -> N) (kenc : keyd -> N) (oracle : N -> N -> list N -> bool)
    rel mk key integrity raw m,
  (forall a, integrity = Some a -> oracle (enc a) (kenc key) raw = keyd_eqb (mac_key a) key) ->
  gen_TransportIntegrity_compute_message_integrity (ti rel mk) (kenc key) (option_map enc integrity) raw (msg_abs m) oracle
  = GOk (res_code (fst (Model.compute_mi rel mk key integrity m)), ti rel (snd (Model.compute_mi rel mk key integrity m))).
Proof.
  intros enc kenc oracle rel mk key integrity raw m Horacle.
  unfold gen_TransportIntegrity_compute_message_integrity, Model.compute_mi.
  unfold ti; cbn.
  fold (ti rel mk).
  destruct integrity as [a|]; cbn [option_map].
  - rewrite (Horacle a eq_refl).
    destruct (keyd_eqb (mac_key a) key).
    + unfold msg_abs. cbn [fst snd]. rewrite ?class_code_indication.
      destruct (class_eqb (m_class m) CIndication); reflexivity.
    + rewrite gen_discard_agrees.
      destruct (Model.discard_message rel mk m) as [e mk']. reflexivity.
  - rewrite gen_discard_agrees.
    destruct (Model.discard_message rel mk m) as [e mk']. reflexivity.
Qed.

(* TransportIntegrity::signal_protection_violated_on_timeout: was the transaction marked, and the mark goes *)
Theorem gen_signal_agrees : forall rel mk id,
  gen_TransportIntegrity_signal_protection_violated_on_timeout (ti rel mk) id = GOk (Model.mem id mk, ti rel (Model.del id mk)).
Proof. reflexivity. Qed.

(* all four together (the statement of Props/C07.v, C17.v) *)
Theorem code_integrity_is_model :
  (forall rel, gen_TransportIntegrity_new rel = ti rel [])
  /\ (forall rel mk m,
        gen_TransportIntegrity_discard_message (ti rel mk) (msg_abs m)
        = GOk (ierr_code (fst (Model.discard_message rel mk m)), ti rel (snd (Model.discard_message rel mk m))))
  /\ (forall (enc : attr -> N) (kenc : keyd -> N) (oracle : N -> N -> list N -> bool) rel mk key integrity raw m,
        (forall a, integrity = Some a -> oracle (enc a) (kenc key) raw = keyd_eqb (mac_key a) key) ->
        gen_TransportIntegrity_compute_message_integrity (ti rel mk) (kenc key) (option_map enc integrity) raw (msg_abs m) oracle
        = GOk (res_code (fst (Model.compute_mi rel mk key integrity m)), ti rel (snd (Model.compute_mi rel mk key integrity m))))
  /\ (forall rel mk id,
        gen_TransportIntegrity_signal_protection_violated_on_timeout (ti rel mk) id
        = GOk (Model.mem id mk, ti rel (Model.del id mk))).
Proof.
  split; [exact gen_new_agrees|]. split; [exact gen_discard_agrees|]. split; [exact gen_compute_mi_agrees|exact gen_signal_agrees].
Qed.

(* every state of the Rust struct is the image of a model state, so the agreements cover every receiver *)
Lemma ti_surjective : forall s : TransportIntegrity, exists rel mk, s = ti rel mk.
Proof. intros [t r]. exists r, t. reflexivity. Qed.

(* a rejected message changes nothing but the mark (C17): on reliable transport and for indications the set is untouched *)
Lemma gen_discard_keeps_set_unless_unreliable_response : forall rel mk m,
  rel = true \/ m_class m = CIndication ->
  exists e, gen_TransportIntegrity_discard_message (ti rel mk) (msg_abs m) = GOk (e, ti rel mk).
Proof.
  intros rel mk m H. rewrite gen_discard_agrees. unfold Model.discard_message.
  destruct H as [-> | Hc].
  - destruct (class_eqb (m_class m) CIndication); eexists; reflexivity.
  - rewrite Hc. eexists; reflexivity.
Qed.
