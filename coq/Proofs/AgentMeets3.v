(* The client model satisfies the two extra C13 monitors of the long-term mechanism, for every history.

   Agent/Monitors.v has two monitors that ocaml/driver.ml runs next to mon_C13 on every observed call of the IMPLEMENTATION,
   both on the long-term monitor state BEFORE the call (`st.ma_lt`, threaded by mon_C08 inside monitor_step):
     mon_C13_ltkey   the integrity attribute of a long-term request is keyed for the realm / algorithm of the latest
                     accepted challenge and is of the kind that challenge calls for (class `lt-integrity-key`);
     mon_C13_ltcred  identity, REALM and NONCE of every long-term request are those of the latest ACCEPTED challenge /
                     stale-nonce reply (class `lt-credential-attributes`).
   Here the same two monitors, in exactly that form, run in lockstep with the MODEL (Agent/Model.v) through the observation
   `obs_of` of Proofs/AgentMeets.v, and both are proved to answer `true` on every step of every well-formed history, for every
   configuration and credential mechanism.

   `run_mon` (AgentMeets) returns the verdict lists only, not the monitor state before each step, so the run is restated as
   `run_mon_lt`, which records for every step the state before it, the verdicts of monitor_step and the two extra answers;
   `run_mon_lt_verdicts` shows that its verdict lists ARE those of run_mon, and `run_mon_lt_app` / `run_mon_app` /
   `run_mon_lt_before` that the state recorded before step i is the state monitor_step has threaded through the first i steps
   (`run_state`), for both runs.

   Route. mon_C13_ltcred is the identity / realm / nonce part of Monitors.server_verdict (verdict 3 = "other" is returned
   whenever that part fails: `verdict_cred`), and AgentMech.lt_client_verdicts computes the verdict of every long-term
   request of the model as 1, 0 / 2 or 0 by state under the coupling LInv of AgentMeets2 — never 3. mon_C13_ltkey follows
   from the layout theorem AgentMech.lt_client_layout (application part, then lt_creds, then FINGERPRINT): the application
   part holds no integrity attribute, and the one the mechanism adds is `integ_attr p`, whose kind and key are fixed by
   POk p and sv_agrees (`integ_key_ok`). The invariants R / CInv are carried along the run exactly as in run_mon_content.

   Neither theorem needs `wf_apps` (the long-term mechanism strips or never inspects whatever the application supplies);
   the two headline theorems carry it only to have the hypotheses of model_meets_C08_known_only, the `_any_apps` forms
   are the statements without it. *)
From Coq Require Import List NArith Lia Bool.
Import ListNotations.
From Rustun Require Import Agent.Rto Agent.Model Agent.Monitors Proofs.AgentInv Proofs.AgentTrace Proofs.AgentSched
  Proofs.AgentMech Proofs.AgentMeets Proofs.AgentMeets2.
Open Scope N_scope.

(* ------------------------------------------------------------------ the lockstep run with the two extra monitors *)
Record ltv := { lv_before : mall;                      (* the monitor state before the step (the driver's `st`) *)
                lv_verdicts : list (N * bool * N);     (* what monitor_step says about the step *)
                lv_key : bool;                         (* mon_C13_ltkey  on (ma_lt lv_before) *)
                lv_cred : bool }.                      (* mon_C13_ltcred on (ma_lt lv_before) *)

Fixpoint run_mon_lt (cf:mcfg) (cc:ccfg) (c:client) (s:mall) (ops:list op) : list ltv :=
  match ops with
  | [] => []
  | o :: rest =>
      let '(c', rep, evs) := step c o in
      let '(s', vs) := monitor_step cf cc s (mop_of o rep) (obs_of c c' o rep evs) in
      {| lv_before := s; lv_verdicts := vs;
         lv_key := mon_C13_ltkey cc (ma_lt s) (mop_of o rep) (obs_of c c' o rep evs);
         lv_cred := mon_C13_ltcred cc (ma_lt s) (mop_of o rep) (obs_of c c' o rep evs) |}
      :: run_mon_lt cf cc c' s' rest
  end.

(* the model state and the monitor state after a history *)
Fixpoint run_state (cf:mcfg) (cc:ccfg) (c:client) (s:mall) (ops:list op) : client * mall :=
  match ops with
  | [] => (c, s)
  | o :: rest =>
      let '(c', rep, evs) := step c o in
      run_state cf cc c' (fst (monitor_step cf cc s (mop_of o rep) (obs_of c c' o rep evs))) rest
  end.

(* agreement with run_mon: the same verdicts ... *)
Lemma run_mon_lt_verdicts cf cc : forall ops c s, map lv_verdicts (run_mon_lt cf cc c s ops) = run_mon cf cc c s ops.
Proof.
  induction ops as [|o ops IH]; intros c s; cbn [run_mon_lt run_mon map]; [reflexivity|].
  destruct (step c o) as [[c' rep] evs].
  destruct (monitor_step cf cc s (mop_of o rep) (obs_of c c' o rep evs)) as [s' vs].
  cbn [map lv_verdicts]. rewrite IH. reflexivity.
Qed.
Lemma run_mon_lt_length cf cc ops c s : length (run_mon_lt cf cc c s ops) = length ops.
Proof. rewrite <- (run_mon_length cf cc ops c s), <- run_mon_lt_verdicts. apply eq_sym, map_length. Qed.

(* ... and the same states: both runs continue, after any prefix, from run_state of that prefix *)
Lemma run_mon_lt_app cf cc : forall a b c s,
  run_mon_lt cf cc c s (a ++ b)
  = run_mon_lt cf cc c s a ++ run_mon_lt cf cc (fst (run_state cf cc c s a)) (snd (run_state cf cc c s a)) b.
Proof.
  induction a as [|o a IH]; intros b c s; cbn [app run_mon_lt run_state fst snd]; [reflexivity|].
  destruct (step c o) as [[c' rep] evs].
  destruct (monitor_step cf cc s (mop_of o rep) (obs_of c c' o rep evs)) as [s' vs]. cbn [fst].
  rewrite IH. reflexivity.
Qed.
Lemma run_mon_app cf cc : forall a b c s,
  run_mon cf cc c s (a ++ b)
  = run_mon cf cc c s a ++ run_mon cf cc (fst (run_state cf cc c s a)) (snd (run_state cf cc c s a)) b.
Proof.
  induction a as [|o a IH]; intros b c s; cbn [app run_mon run_state fst snd]; [reflexivity|].
  destruct (step c o) as [[c' rep] evs].
  destruct (monitor_step cf cc s (mop_of o rep) (obs_of c c' o rep evs)) as [s' vs]. cbn [fst].
  rewrite IH. reflexivity.
Qed.
(* the state recorded before the step that follows the prefix `a` is the monitor state after `a` *)
Lemma run_mon_lt_before cf cc a o b c s d :
  lv_before (nth (length a) (run_mon_lt cf cc c s (a ++ o :: b)) d) = snd (run_state cf cc c s a).
Proof.
  rewrite run_mon_lt_app. rewrite app_nth2 by (rewrite run_mon_lt_length; apply le_n).
  rewrite run_mon_lt_length, PeanoNat.Nat.sub_diag. cbn [run_mon_lt].
  destruct (step (fst (run_state cf cc c s a)) o) as [[c' rep] evs].
  destruct (monitor_step cf cc (snd (run_state cf cc c s a)) (mop_of o rep) _) as [s' vs]. reflexivity.
Qed.
(* and every recorded step is monitor_step / the two monitors applied to a step of the model from run_state of a prefix *)
Lemma run_mon_lt_in cf cc : forall ops c s x, In x (run_mon_lt cf cc c s ops) ->
  exists a o b, ops = a ++ o :: b /\
    let c1 := fst (run_state cf cc c s a) in
    let s1 := snd (run_state cf cc c s a) in
    let c' := fst (fst (step c1 o)) in let rep := snd (fst (step c1 o)) in let evs := snd (step c1 o) in
    lv_before x = s1
    /\ lv_verdicts x = snd (monitor_step cf cc s1 (mop_of o rep) (obs_of c1 c' o rep evs))
    /\ lv_key x = mon_C13_ltkey cc (ma_lt s1) (mop_of o rep) (obs_of c1 c' o rep evs)
    /\ lv_cred x = mon_C13_ltcred cc (ma_lt s1) (mop_of o rep) (obs_of c1 c' o rep evs).
Proof.
  induction ops as [|o ops IH]; intros c s x Hin; cbn [run_mon_lt] in Hin; [destruct Hin|].
  destruct (step c o) as [[c' rep] evs] eqn:Hs.
  destruct (monitor_step cf cc s (mop_of o rep) (obs_of c c' o rep evs)) as [s' vs] eqn:Hm.
  destruct Hin as [<-|Hin].
  - exists [], o, ops. split; [reflexivity|]. cbn [run_state fst snd lv_before lv_verdicts lv_key lv_cred]. rewrite Hs. cbn [fst snd].
    rewrite Hm. cbn [snd]. repeat split.
  - destruct (IH c' s' x Hin) as (a & o1 & b & -> & H). exists (o :: a), o1, b. split; [reflexivity|].
    cbn [run_state]. rewrite Hs, Hm. cbn [fst]. exact H.
Qed.

(* ------------------------------------------------------------------ mon_C13_ltcred: the credential part of the 9.2.4 verdict *)
Definition cred_ok (s:lt_mon) (req:list attr) : bool :=
  (if lm_anon s
   then existsb (fun a => attr_eqb a (UserHash 0 (lm_realm s))) req && negb (existsb (fun a => wire_type a =? 6) req)
   else existsb (fun a => attr_eqb a (UserName 0)) req && negb (existsb (fun a => wire_type a =? 30) req))
  && (match get_realm req with Some r => r =? lm_realm s | None => false end)
  && (match get_nonce req with Some n => (fst n =? fst (lm_nonce s)) && (snd n =? snd (lm_nonce s)) | None => false end).

Lemma mon_C13_ltcred_send cc s now id r method app o :
  cc_mech cc = 4 -> lm_challenged s = true ->
  mon_C13_ltcred cc s (MSend now id r method app) o
  = match first_out o with Some (Some p) => cred_ok s (m_attrs p) | _ => true end.
Proof. intros Hk Hch. unfold mon_C13_ltcred. rewrite Hk, Hch. reflexivity. Qed.

(* whatever fails the identity / realm / nonce test gets verdict 3; so a verdict other than 3 passes mon_C13_ltcred *)
Lemma verdict_cred s req : server_verdict s req <> 3 -> cred_ok s req = true.
Proof.
  unfold server_verdict, cred_ok. rewrite <- andb_assoc.
  match goal with |- context [negb ?b] => destruct b end; [reflexivity|].
  cbn [negb]. intros HF. exfalso. apply HF. reflexivity.
Qed.
(* conversely mon_C13_ltcred is no weaker than that part: failing it means verdict 3 *)
Lemma cred_verdict s req : cred_ok s req = false -> server_verdict s req = 3.
Proof.
  unfold server_verdict, cred_ok. rewrite <- andb_assoc. intros ->. reflexivity.
Qed.

Lemma linv_challenged lt sv : LInv lt sv -> lm_challenged sv = true ->
  exists p, lt_pr lt = Some p /\ POk p /\ sv_agrees sv p /\ lt_st lt <> First.
Proof.
  unfold LInv. destruct (lt_pr lt) as [p|].
  - intros (_ & HP & Hsv & Hnf & _) _. exists p. auto.
  - intros (_ & Hch) Hc. rewrite Hch in Hc. discriminate.
Qed.

Lemma ltcred_prepare c lt sv p app x :
  mech_ c = MLT lt -> lt_pr lt = Some p -> POk p -> sv_agrees sv p -> lt_st lt <> First ->
  prepare c true app = inl (Some x) -> cred_ok sv (flatten x) = true.
Proof.
  intros Hm Hpr HP Hsv Hnf Hp.
  destruct (lt_client_verdicts c lt p sv app Hm Hpr HP Hsv) as (x' & Hx' & Hv). rewrite Hp in Hx'. injection Hx' as <-.
  apply verdict_cred. destruct (lt_st lt).
  - contradiction.
  - rewrite Hv. discriminate.
  - rewrite Hv. destruct (p_algs p); discriminate.
  - rewrite Hv. discriminate.
Qed.

Theorem step_C13_ltcred cc c sv o c' rep evs lt :
  mech_ c = MLT lt -> cc_mech cc = 4 -> LInv lt sv -> step c o = (c', rep, evs) ->
  mon_C13_ltcred cc sv (mop_of o rep) (obs_of c c' o rep evs) = true.
Proof.
  intros Hm Hk HL Hs.
  destruct o as [now id r method app room|id method app room|now d w|now]; cbn [mop_of];
    try (unfold mon_C13_ltcred; destruct (negb (cc_mech cc =? 4) || negb (lm_challenged sv)); reflexivity).
  destruct (lm_challenged sv) eqn:Hch.
  - rewrite (mon_C13_ltcred_send _ _ _ _ _ _ _ _ Hk Hch).
    destruct (linv_challenged lt sv HL Hch) as (p & Hpr & HP & Hsv & Hnf).
    destruct (step_send_cases c now id r method app room) as [(rep0 & He & _)|(a & d & m1 & _ & Hp & _ & He)];
      rewrite He in Hs; inversion Hs; subst; clear Hs.
    + rewrite first_out_nil. reflexivity.
    + rewrite first_out_head. cbn [m_attrs]. exact (ltcred_prepare c lt sv p app a Hm Hpr HP Hsv Hnf Hp).
  - unfold mon_C13_ltcred. rewrite Hch. rewrite orb_true_r. reflexivity.
Qed.

(* ------------------------------------------------------------------ mon_C13_ltkey: kind and key of the integrity attribute *)
Definition ltkey_attr (s:lt_mon) (a:attr) : bool :=
  match a with
  | AMI k => (match lm_algs s with None => true | Some _ => false end) && keyd_eqb k (KLT (lm_realm s) 0 (lt_expected_alg s))
  | ASHA k => (match lm_algs s with None => false | Some _ => true end) && keyd_eqb k (KLT (lm_realm s) 0 (lt_expected_alg s))
  | _ => true
  end.

Lemma mon_C13_ltkey_send cc s now id r method app o :
  cc_mech cc = 4 -> lm_challenged s = true ->
  mon_C13_ltkey cc s (MSend now id r method app) o
  = match first_out o with Some (Some p) => forallb (ltkey_attr s) (m_attrs p) | _ => true end.
Proof. intros Hk Hch. unfold mon_C13_ltkey. rewrite Hk, Hch. reflexivity. Qed.

Lemma ltkey_plain s a : is_integ a = false -> ltkey_attr s a = true.
Proof. destruct a; cbn [is_integ a_is_mi a_is_sha orb ltkey_attr]; intros H; try reflexivity; discriminate H. Qed.

(* the attribute the mechanism adds: its kind is the one the challenge calls for, its key the one the server derives *)
Lemma integ_key_ok sv p : POk p -> sv_agrees sv p -> ltkey_attr sv (integ_attr p) = true.
Proof.
  intros (Hkey & Hint & Halg & Hnn) (Hr & _ & Ha & _).
  unfold integ_attr, ltkey_attr, lt_expected_alg. rewrite Ha, Hr, Hkey.
  destruct (p_algs p) as [l|] eqn:El.
  - assert (Hisha : p_integ p = ISHA) by (apply Hint; discriminate). rewrite Hisha.
    destruct (p_alg p) as [al|] eqn:Eal; [|exfalso; apply Hnn; [discriminate|reflexivity]].
    destruct (Halg al eq_refl) as (l' & Hl' & Hc). inversion Hl'; subst l'. rewrite Hc. cbn [andb]. apply keyd_eqb_klt.
  - assert (Eal : p_alg p = None).
    { destruct (p_alg p) as [al|] eqn:Eal; [|reflexivity]. destruct (Halg al eq_refl) as (l' & Hl' & _). discriminate. }
    assert (Himi : p_integ p = IMI).
    { destruct (p_integ p) eqn:Ei; [reflexivity|]. exfalso. apply (proj1 Hint); reflexivity. }
    rewrite Himi, Eal. cbn [andb]. apply keyd_eqb_klt.
Qed.

Lemma rn_list_key sv p : forallb (ltkey_attr sv) (rn_list p) = true.
Proof. unfold rn_list, user_attr. destruct (p_anon p); reflexivity. Qed.
Lemma algs_list_key sv p : forallb (ltkey_attr sv) (algs_list p) = true.
Proof. unfold algs_list. destruct (p_algs p), (p_alg p); reflexivity. Qed.

Lemma lt_creds_key sv st p : POk p -> sv_agrees sv p -> forallb (ltkey_attr sv) (lt_creds st p) = true.
Proof.
  intros HP Hsv. pose proof (integ_key_ok sv p HP Hsv) as Hi.
  destruct st; cbn [lt_creds]; rewrite ?forallb_app, ?rn_list_key, ?algs_list_key; cbn [forallb andb]; rewrite ?Hi; reflexivity.
Qed.

Lemma ltkey_prepare c lt sv p app x :
  mech_ c = MLT lt -> lt_pr lt = Some p -> POk p -> sv_agrees sv p ->
  prepare c true app = inl (Some x) -> forallb (ltkey_attr sv) (flatten x) = true.
Proof.
  intros Hm Hpr HP Hsv Hp.
  destruct (lt_client_layout c lt p app Hm Hpr) as (x' & Hx' & Hfl & Hfp). rewrite Hp in Hx'. injection Hx' as <-.
  rewrite Hfl, !forallb_app. destruct (strip_of_list_skip app) as [_ HI].
  apply andb_true_iff. split; [|apply andb_true_iff; split].
  - apply forallb_forall. intros a Ha. apply ltkey_plain. exact (HI a Ha).
  - exact (lt_creds_key sv (lt_st lt) p HP Hsv).
  - destruct (client_fp c app) as [[g| | | | | | | | | |]|]; cbn [slot_ok a_is_fp] in Hfp; try discriminate Hfp; reflexivity.
Qed.

Theorem step_C13_ltkey cc c sv o c' rep evs lt :
  mech_ c = MLT lt -> cc_mech cc = 4 -> LInv lt sv -> step c o = (c', rep, evs) ->
  mon_C13_ltkey cc sv (mop_of o rep) (obs_of c c' o rep evs) = true.
Proof.
  intros Hm Hk HL Hs.
  destruct o as [now id r method app room|id method app room|now d w|now]; cbn [mop_of];
    try (unfold mon_C13_ltkey; destruct (negb (cc_mech cc =? 4) || negb (lm_challenged sv)); reflexivity).
  destruct (lm_challenged sv) eqn:Hch.
  - rewrite (mon_C13_ltkey_send _ _ _ _ _ _ _ _ Hk Hch).
    destruct (linv_challenged lt sv HL Hch) as (p & Hpr & HP & Hsv & _).
    destruct (step_send_cases c now id r method app room) as [(rep0 & He & _)|(a & d & m1 & _ & Hp & _ & He)];
      rewrite He in Hs; inversion Hs; subst; clear Hs.
    + rewrite first_out_nil. reflexivity.
    + rewrite first_out_head. cbn [m_attrs]. exact (ltkey_prepare c lt sv p app a Hm Hpr HP Hsv Hp).
  - unfold mon_C13_ltkey. rewrite Hch. rewrite orb_true_r. reflexivity.
Qed.

(* ------------------------------------------------------------------ under the invariant of the content monitors, any mechanism *)
Lemma not_lt_ltcred cc sv op ob : cc_mech cc <> 4 -> mon_C13_ltcred cc sv op ob = true.
Proof. intros Hk. unfold mon_C13_ltcred. apply N.eqb_neq in Hk. rewrite Hk. reflexivity. Qed.
Lemma not_lt_ltkey cc sv op ob : cc_mech cc <> 4 -> mon_C13_ltkey cc sv op ob = true.
Proof. intros Hk. unfold mon_C13_ltkey. apply N.eqb_neq in Hk. rewrite Hk. reflexivity. Qed.

Theorem step_C13_lt cc c s o c' rep evs :
  CInv cc c s -> step c o = (c', rep, evs) ->
  mon_C13_ltcred cc (ma_lt s) (mop_of o rep) (obs_of c c' o rep evs) = true
  /\ mon_C13_ltkey cc (ma_lt s) (mop_of o rep) (obs_of c c' o rep evs) = true.
Proof.
  intros HC Hs. pose proof (CI_mech _ _ _ HC) as Hm. destruct (mech_ c) as [|st|lt] eqn:Hmc.
  - split; [apply not_lt_ltcred|apply not_lt_ltkey]; rewrite Hm; discriminate.
  - destruct Hm as (Hk & _). split; [apply not_lt_ltcred|apply not_lt_ltkey]; destruct Hk as [->|[->| ->]]; discriminate.
  - destruct Hm as (Hk & HL). split.
    + exact (step_C13_ltcred cc c (ma_lt s) o c' rep evs lt Hmc Hk HL Hs).
    + exact (step_C13_ltkey cc c (ma_lt s) o c' rep evs lt Hmc Hk HL Hs).
Qed.

(* ------------------------------------------------------------------ the lockstep run *)
Lemma run_mon_lt_ok mc cc : forall ops c s used,
  R mc c (ma_core s) used -> CInv cc c s -> fresh_trace used ops ->
  forall x, In x (run_mon_lt mc cc c s ops) -> lv_cred x = true /\ lv_key x = true.
Proof.
  induction ops as [|o ops IH]; intros c s used HR HC Hfr x Hin; cbn [run_mon_lt] in Hin; [destruct Hin|].
  destruct Hfr as [Hfo Hfr].
  destruct (step c o) as [[c' rep] evs] eqn:Hs.
  pose proof (monitor_step_core mc cc s (mop_of o rep) (obs_of c c' o rep evs)) as Hcore.
  pose proof (step_CInv mc cc c s used o c' rep evs HR HC Hs) as HC'.
  destruct (monitor_step mc cc s (mop_of o rep) (obs_of c c' o rep evs)) as [s' vs0]. cbn [fst snd] in *.
  destruct Hin as [<-|Hin].
  - cbn [lv_cred lv_key]. exact (step_C13_lt cc c s o c' rep evs HC Hs).
  - assert (HR' : R mc c' (ma_core s') (used_step used o)) by (rewrite Hcore; apply (step_R mc c (ma_core s) used o c' rep evs HR Hfo Hs)).
    exact (IH c' s' (used_step used o) HR' HC' Hfr x Hin).
Qed.

(* ------------------------------------------------------------------ the theorems *)
Definition ltcred_true (l:list ltv) : Prop := forall x, In x l -> lv_cred x = true.
Definition ltkey_true (l:list ltv) : Prop := forall x, In x l -> lv_key x = true.

Theorem model_meets_C13_lt_any_apps cf m mc cc ops :
  consistent mc cf -> consistent_cc cc cf m -> well_formed_history ops ->
  ltcred_true (run_mon_lt mc cc (init cf m) (mall0 cc) ops) /\ ltkey_true (run_mon_lt mc cc (init cf m) (mall0 cc) ops).
Proof.
  intros Hc Hcc Hwf.
  split; intros x Hin;
    apply (run_mon_lt_ok mc cc ops (init cf m) (mall0 cc) [] (R_init mc cf m Hc) (CInv_init cc cf m Hcc) (wf_fresh _ _ _ Hwf) x Hin).
Qed.

Theorem model_meets_C13_ltcred cf m mc cc ops :
  consistent mc cf -> consistent_cc cc cf m -> well_formed_history ops -> wf_apps ops ->
  ltcred_true (run_mon_lt mc cc (init cf m) (mall0 cc) ops).
Proof. intros Hc Hcc Hwf _. exact (proj1 (model_meets_C13_lt_any_apps cf m mc cc ops Hc Hcc Hwf)). Qed.

Theorem model_meets_C13_ltkey cf m mc cc ops :
  consistent mc cf -> consistent_cc cc cf m -> well_formed_history ops -> wf_apps ops ->
  ltkey_true (run_mon_lt mc cc (init cf m) (mall0 cc) ops).
Proof. intros Hc Hcc Hwf _. exact (proj2 (model_meets_C13_lt_any_apps cf m mc cc ops Hc Hcc Hwf)). Qed.

(* the same two facts stated on run_mon's own steps: for every decomposition of the history, the two monitors, applied to
   the monitor state monitor_step has threaded through the prefix, accept the next step of the model *)
Corollary model_meets_C13_lt_pointwise cf m mc cc a o b :
  consistent mc cf -> consistent_cc cc cf m -> well_formed_history (a ++ o :: b) ->
  let c1 := fst (run_state mc cc (init cf m) (mall0 cc) a) in
  let s1 := snd (run_state mc cc (init cf m) (mall0 cc) a) in
  let c' := fst (fst (step c1 o)) in let rep := snd (fst (step c1 o)) in let evs := snd (step c1 o) in
  mon_C13_ltcred cc (ma_lt s1) (mop_of o rep) (obs_of c1 c' o rep evs) = true
  /\ mon_C13_ltkey cc (ma_lt s1) (mop_of o rep) (obs_of c1 c' o rep evs) = true.
Proof.
  intros Hc Hcc Hwf. cbv zeta.
  destruct (model_meets_C13_lt_any_apps cf m mc cc (a ++ o :: b) Hc Hcc Hwf) as [Hcr Hky].
  set (l := run_mon_lt mc cc (init cf m) (mall0 cc) (a ++ o :: b)) in *.
  assert (Hin : In (nth (length a) l {| lv_before := mall0 cc; lv_verdicts := []; lv_key := false; lv_cred := false |}) l).
  { apply nth_In. unfold l. rewrite run_mon_lt_length, app_length. cbn [length]. lia. }
  pose proof (Hcr _ Hin) as H1. pose proof (Hky _ Hin) as H2. clear Hin Hcr Hky.
  unfold l in H1, H2. rewrite run_mon_lt_app in H1, H2.
  rewrite app_nth2 in H1, H2 by (rewrite run_mon_lt_length; apply le_n).
  rewrite run_mon_lt_length, PeanoNat.Nat.sub_diag in H1, H2. cbn [run_mon_lt] in H1, H2.
  destruct (step (fst (run_state mc cc (init cf m) (mall0 cc) a)) o) as [[c' rep] evs].
  destruct (monitor_step mc cc (snd (run_state mc cc (init cf m) (mall0 cc) a)) (mop_of o rep) _) as [s' vs].
  cbn [nth lv_cred lv_key] in H1, H2. cbn [fst snd]. split; assumption.
Qed.

(* ------------------------------------------------------------------ examples: the two monitors are in force and can fail *)
(* along AgentMeets2.lt_history the monitors are in force (challenged, a request actually sent) on the requests of steps
   2, 4, 7 (indices from 0); those of steps 4 and 7 carry an integrity attribute *)
Definition in_force (x:ltv) : bool := lm_challenged (ma_lt (lv_before x)).
Example lt_history_lt_monitors :
  map (fun x => (in_force x, lv_cred x, lv_key x)) (run_mon_lt lt_mc lt_cc (init lt_cf lt_m0) (mall0 lt_cc) lt_history)
  = [(false, true, true); (false, true, true); (true, true, true); (true, true, true); (true, true, true);
     (true, true, true); (true, true, true); (true, true, true); (true, true, true); (true, true, true)].
Proof. vm_compute. reflexivity. Qed.

(* the long-term monitor state before the request of step 7 (after the 401 with realm 7, algorithms [MD5; SHA256], the 438 with
   nonce (9, 1) and the authenticated success) and the request the model sends then *)
Definition sv7 : lt_mon :=
  {| lm_challenged := true; lm_realm := 7; lm_nonce := (9, 1); lm_algs := Some [MD5; SHA256]; lm_anon := false; lm_last := 3 |}.
Example lt_history_state7 :
  ma_lt (lv_before (nth 7 (run_mon_lt lt_mc lt_cc (init lt_cf lt_m0) (mall0 lt_cc) lt_history)
                          {| lv_before := mall0 lt_cc; lv_verdicts := []; lv_key := false; lv_cred := false |})) = sv7.
Proof. vm_compute. reflexivity. Qed.
Definition req7 (l:list attr) : obs :=
  {| ob_ret := OOk; ob_events := [EOut 4 true true (Some {| m_class := CRequest; m_method := 1; m_id := 4; m_attrs := l |})];
     ob_T := [4]; ob_H := []; ob_K := []; ob_same := false |}.
Definition good7 : list attr :=
  [UserName 0; Realm 7; Nonce 9 1; PwdAlgs [MD5; SHA256]; PwdAlg SHA256; ASHA (KLT 7 0 SHA256); AFP true].
Example ltmon_accepts_good7 :
  mon_C13_ltcred lt_cc sv7 (MSend 60 4 500 1 []) (req7 good7) = true
  /\ mon_C13_ltkey lt_cc sv7 (MSend 60 4 500 1 []) (req7 good7) = true.
Proof. split; vm_compute; reflexivity. Qed.
(* sensitivity of mon_C13_ltkey: the MD5 key where SHA-256 was negotiated, another realm's key, another password, the
   wrong kind of attribute, a corrupted value *)
Example ltkey_rejects :
  map (fun ia => mon_C13_ltkey lt_cc sv7 (MSend 60 4 500 1 [])
                   (req7 [UserName 0; Realm 7; Nonce 9 1; PwdAlgs [MD5; SHA256]; PwdAlg SHA256; ia; AFP true]))
      [ASHA (KLT 7 0 MD5); ASHA (KLT 8 0 SHA256); ASHA (KLT 7 1 SHA256); AMI (KLT 7 0 SHA256); ASHA (KST 0); ASHA KCorrupt]
  = [false; false; false; false; false; false].
Proof. vm_compute. reflexivity. Qed.
(* sensitivity of mon_C13_ltcred: the nonce of the superseded 401 (8, 2), another realm, a USERHASH where the challenge did
   not announce anonymity, both identities, no identity *)
Example ltcred_rejects :
  map (fun l => mon_C13_ltcred lt_cc sv7 (MSend 60 4 500 1 []) (req7 (l ++ [ASHA (KLT 7 0 SHA256); AFP true])))
      [ [UserName 0; Realm 7; Nonce 8 2]; [UserName 0; Realm 77; Nonce 9 1]; [UserHash 0 7; Realm 7; Nonce 9 1];
        [UserName 0; UserHash 0 7; Realm 7; Nonce 9 1]; [Realm 7; Nonce 9 1]; [UserName 0; Nonce 9 1]; [UserName 0; Realm 7] ]
  = [false; false; false; false; false; false; false].
Proof. vm_compute. reflexivity. Qed.

(* a history in which replies the client DISCARDS carry other values: a 438 and a 401 whose integrity attribute does not
   verify (other realm / nonce / algorithms inside), an unauthenticated success. The requests that follow still carry the
   values of the accepted challenge, and both monitors (whose state did not move either) accept them *)
Definition lt_history_discards : list op :=
  [ Send 0 1 500 1 [] true;
    Recv 10 true (ex_resp CError 1 [ErrorCode 401; Realm 7; Nonce 8 1; AFP true]);
    Send 20 2 500 1 [] true;
    Recv 30 true (ex_resp CError 2 [ErrorCode 438; Nonce 99 1; AMI (KLT 7 1 MD5); AFP true]);
    Recv 31 true (ex_resp CError 2 [ErrorCode 401; Realm 66; Nonce 98 2; PwdAlgs [SHA256]; ASHA KCorrupt; AFP true]);
    Recv 32 true (ex_resp CSuccess 2 [AFP true]);
    Send 40 3 500 1 [Realm 66; Nonce 98 2; UserHash 0 66] true;
    Recv 50 true (ex_resp CSuccess 2 [AMI (KLT 7 0 MD5); AFP true]);
    Send 60 4 500 1 [] true ].
Example lt_history_discards_wf : well_formed_history lt_history_discards.
Proof.
  unfold well_formed_history, lt_history_discards.
  repeat (first [ apply wf_nil
                | apply wf_send; [cbn [In]; intros Hin; repeat (destruct Hin as [Hin|Hin]; [discriminate Hin|]); exact Hin | lia | lia | ]
                | apply wf_ind
                | apply wf_recv; [lia|]
                | apply wf_tmo; [lia|] ]).
Qed.
Example lt_history_discards_run :
  let run := run_mon_lt lt_mc lt_cc (init lt_cf lt_m0) (mall0 lt_cc) lt_history_discards in
  map (fun x => (lm_realm (ma_lt (lv_before x)), lm_nonce (ma_lt (lv_before x)), lv_cred x, lv_key x)) run
  = [(0, (0, 0), true, true); (0, (0, 0), true, true); (7, (8, 1), true, true); (7, (8, 1), true, true);
     (7, (8, 1), true, true); (7, (8, 1), true, true); (7, (8, 1), true, true); (7, (8, 1), true, true); (7, (8, 1), true, true)].
Proof. vm_compute. reflexivity. Qed.
(* what the model sends in the last two requests of that history *)
Example lt_history_discards_packets :
  map (fun o => match snd o with Out _ true p :: _ => m_attrs p | _ => [] end)
      ((fix go (c:client) (ops:list op) := match ops with [] => [] | o :: r => let x := step c o in x :: go (fst (fst x)) r end)
         (init lt_cf lt_m0) lt_history_discards)
  = [ [AFP true]; []; [UserName 0; Realm 7; Nonce 8 1; AFP true]; []; []; [];
      [UserName 0; Realm 7; Nonce 8 1; AFP true]; []; [UserName 0; Realm 7; Nonce 8 1; AMI (KLT 7 0 MD5); AFP true] ].
Proof. vm_compute. reflexivity. Qed.

Print Assumptions model_meets_C13_ltcred.
Print Assumptions model_meets_C13_ltkey.
Print Assumptions model_meets_C13_lt_any_apps.
Print Assumptions model_meets_C13_lt_pointwise.
Print Assumptions run_mon_lt_verdicts.
Print Assumptions run_mon_lt_in.
