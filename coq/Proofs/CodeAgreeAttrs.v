(* Agreement of the agent's attribute collection — StunAttributes::add and StunAttributes::remove::<T>
   (stun-agent/src/message.rs), GENERATED from /repo's current Rust text (Generated/Code.v, tools/rs2v.py: a StunAttribute is
   abstracted to (wire type, payload); `self.attributes[index] = attr` and `Vec::remove(index)` carry their index checks as
   explicit GPanic branches) — with the hand-written model the C13 / C07 / C08 theorems are about: Model.add_attr /
   replace_or_push / remove / remove_first / of_list / flatten.

   The abstraction: ANY encoding enc : attr -> N * N whose first component is the wire type of the attribute; conv maps it
   over the four components of a model state. Everything is proved inside a Section for an arbitrary such enc and the
   section is closed, so the lemmas are quantified over enc.

   Well-formedness (the hypotheses are NECESSARY: see add_needs_attr_wf / remove_needs_attrs_wf at the end):
     AgentMech.attr_wf a   an `App ty _` (attribute the library does not treat specially) has a type outside {8, 28, 32808};
                           the Rust attribute enum has one variant per wire type, so `App 8 tag` cannot be built
     attrs_wf s            the ordinary list holds none of the three types; the three slots hold attributes of wire type
                           8 / 28 / 32808 respectively (in particular when they hold attributes "of their own kind":
                           attrs_wf_of_kinds)
   add agrees for EVERY state (only the attribute has to be well formed); remove needs a well-formed state; both preserve
   attrs_wf, and every state built from the empty collection by add / remove of well-formed attributes is well formed. *)
From Coq Require Import List NArith Bool Lia.
Import ListNotations.
From Rustun Require Import Base.GRes Generated.Code Agent.Model Proofs.AgentMech.
Open Scope N_scope.

(* ------------------------------------------------------------------ hand-written companions of the generated code *)
(* #[derive(Default)] *)
Definition gen_StunAttributes_default : StunAttributes :=
  {| StunAttributes_attributes := []; StunAttributes_integrity := None; StunAttributes_integrity_sha256 := None;
     StunAttributes_fingerprint := None |}.
(* impl From<StunAttributes> for Vec<StunAttribute>: the vector, then three conditional pushes (not translated: written by
   hand after the Rust text) *)
Definition push_opt (l:list (N * N)) (o:option (N * N)) : list (N * N) := match o with Some a => l ++ [a] | None => l end.
Definition gen_StunAttributes_into_vec (v:StunAttributes) : list (N * N) :=
  let attributes := StunAttributes_attributes v in
  let attributes := push_opt attributes (StunAttributes_integrity v) in
  let attributes := push_opt attributes (StunAttributes_integrity_sha256 v) in
  let attributes := push_opt attributes (StunAttributes_fingerprint v) in
  attributes.
(* `for a in l { attrs.add(a) }` *)
Fixpoint gen_add_all (l:list (N * N)) (v:StunAttributes) : gres StunAttributes :=
  match l with
  | [] => GOk v
  | a :: r => match gen_StunAttributes_add v a with GOk v' => gen_add_all r v' | GPanic => GPanic | GFuel => GFuel end
  end.

(* ------------------------------------------------------------------ well-formedness, the removed element *)
Definition slot_ty (ty:N) (o:option attr) : Prop := forall x, o = Some x -> wire_type x = ty.
Definition attrs_wf (s:attrs) : Prop :=
  ord_plain (ord s) /\ slot_ty 8 (sl_mi s) /\ slot_ty 28 (sl_sha s) /\ slot_ty 32808 (sl_fp s).
(* the suggested, stronger form: slots hold attributes of their own kind *)
Definition slot_kind (p:attr -> bool) (o:option attr) : Prop := forall x, o = Some x -> p x = true.
Definition attrs_wf_kinds (s:attrs) : Prop :=
  ord_plain (ord s) /\ slot_kind a_is_mi (sl_mi s) /\ slot_kind a_is_sha (sl_sha s) /\ slot_kind a_is_fp (sl_fp s).

(* what remove::<T>() returns: the model's `remove` only gives the new state *)
Definition first_of_type (ty:N) (l:list attr) : option attr := find (fun x => wire_type x =? ty) l.
Definition removed (ty:N) (s:attrs) : option attr :=
  if ty =? 8 then sl_mi s else if ty =? 28 then sl_sha s else if ty =? 32808 then sl_fp s else first_of_type ty (ord s).

Lemma attrs_wf_of_kinds s : attrs_wf_kinds s -> attrs_wf s.
Proof.
  intros (Hp & Hm & Hs & Hf). split; [exact Hp|]. repeat split; intros x Hx.
  - apply Hm in Hx. destruct x; try discriminate. reflexivity.
  - apply Hs in Hx. destruct x; try discriminate. reflexivity.
  - apply Hf in Hx. destruct x; try discriminate. reflexivity.
Qed.

Lemma attrs_wf_empty : attrs_wf empty_attrs.
Proof. repeat split; intros x Hx; discriminate. Qed.

Lemma slot_ty_some ty x : wire_type x = ty -> slot_ty ty (Some x).
Proof. intros Hx y Hy. injection Hy as <-. exact Hx. Qed.
Lemma slot_ty_none ty : slot_ty ty None.
Proof. intros y Hy. discriminate. Qed.

Lemma attrs_wf_add a s : attr_wf a -> attrs_wf s -> attrs_wf (add_attr a s).
Proof.
  intros Ha (Hp & Hm & Hs & Hf).
  assert (Hp' : ord_plain (ord (add_attr a s))) by (apply plain_add; assumption).
  split; [exact Hp'|]. clear Hp'.
  destruct a; cbn [add_attr sl_mi sl_sha sl_fp]; repeat split; try assumption; apply slot_ty_some; reflexivity.
Qed.

Lemma attrs_wf_remove ty s : attrs_wf s -> attrs_wf (remove ty s).
Proof.
  intros (Hp & Hm & Hs & Hf).
  assert (Hp' : ord_plain (ord (remove ty s))) by (apply plain_remove; assumption).
  split; [exact Hp'|]. clear Hp'. unfold remove.
  destruct (ty =? 8); [|destruct (ty =? 28); [|destruct (ty =? 32808)]]; cbn [sl_mi sl_sha sl_fp];
    repeat split; try assumption; apply slot_ty_none.
Qed.

Lemma attrs_wf_fold : forall l s, app_wf l -> attrs_wf s -> attrs_wf (fold_left (fun s a => add_attr a s) l s).
Proof.
  induction l as [|a l IH]; intros s Hw Hs; cbn [fold_left]; [exact Hs|]. apply IH.
  - intros x Hx. apply Hw. right. exact Hx.
  - apply attrs_wf_add; [apply Hw; left; reflexivity|exact Hs].
Qed.
Lemma attrs_wf_of_list l : app_wf l -> attrs_wf (of_list l).
Proof. intros Hw. unfold of_list. apply attrs_wf_fold; [exact Hw|apply attrs_wf_empty]. Qed.

(* `removed` is the element the model's `remove` takes out: it has the requested type, it was in the collection, exactly
   one element goes, and when there is none the collection is unchanged *)
Lemma first_of_type_spec ty : forall l x, first_of_type ty l = Some x ->
  wire_type x = ty /\ In x l /\ S (length (remove_first ty l)) = length l.
Proof.
  unfold first_of_type. induction l as [|y r IH]; intros x H; cbn [find remove_first] in *; [discriminate|].
  destruct (wire_type y =? ty) eqn:E.
  - injection H as <-. apply N.eqb_eq in E. repeat split; [exact E|left; reflexivity].
  - destruct (IH x H) as (H1 & H2 & H3). repeat split; [exact H1|right; exact H2|cbn [length]; rewrite H3; reflexivity].
Qed.
Lemma first_of_type_none_keeps ty : forall l, first_of_type ty l = None -> remove_first ty l = l.
Proof.
  unfold first_of_type. induction l as [|y r IH]; intros H; cbn [find remove_first] in *; [reflexivity|].
  destruct (wire_type y =? ty); [discriminate|]. rewrite (IH H). reflexivity.
Qed.
Lemma removed_some ty s x : attrs_wf s -> removed ty s = Some x ->
  wire_type x = ty /\ In x (flatten s) /\ S (length (flatten (remove ty s))) = length (flatten s).
Proof.
  destruct s as [l mi sha fp]. intros (_ & Hm & Hs & Hf). cbn [sl_mi sl_sha sl_fp] in *. unfold removed, remove, flatten.
  cbn [ord sl_mi sl_sha sl_fp].
  destruct (ty =? 8) eqn:E8; [|destruct (ty =? 28) eqn:E28; [|destruct (ty =? 32808) eqn:E3]];
    cbn [ord sl_mi sl_sha sl_fp]; intros H.
  - subst mi. apply N.eqb_eq in E8. subst ty. repeat split; [apply Hm; reflexivity| |].
    + apply in_or_app. right. left. reflexivity.
    + cbn [opt_list]. rewrite !app_length. cbn [length]. lia.
  - subst sha. apply N.eqb_eq in E28. subst ty. repeat split; [apply Hs; reflexivity| |].
    + apply in_or_app. right. apply in_or_app. right. left. reflexivity.
    + cbn [opt_list]. rewrite !app_length. cbn [length]. lia.
  - subst fp. apply N.eqb_eq in E3. subst ty. repeat split; [apply Hf; reflexivity| |].
    + apply in_or_app. right. apply in_or_app. right. apply in_or_app. right. left. reflexivity.
    + cbn [opt_list]. rewrite !app_length. cbn [length]. lia.
  - destruct (first_of_type_spec ty l x H) as (H1 & H2 & H3). repeat split; [exact H1|apply in_or_app; left; exact H2|].
    rewrite !app_length. rewrite <- H3. lia.
Qed.
Lemma removed_none ty s : removed ty s = None -> remove ty s = s.
Proof.
  destruct s as [l mi sha fp]. unfold removed, remove. cbn [ord sl_mi sl_sha sl_fp].
  destruct (ty =? 8); [|destruct (ty =? 28); [|destruct (ty =? 32808)]]; intros H; try (subst; reflexivity).
  rewrite (first_of_type_none_keeps ty l H). reflexivity.
Qed.

(* ------------------------------------------------------------------ list helpers of Base/GRes.v *)
Lemma list_position_lt {A} (p:A -> bool) : forall l i, list_position p l = Some i -> i < N.of_nat (length l).
Proof.
  induction l as [|x r IH]; intros i H; cbn [list_position] in H; [discriminate|].
  destruct (p x).
  - injection H as <-. cbn [length]. lia.
  - destruct (list_position p r) as [j|]; [|discriminate]. injection H as <-.
    specialize (IH j eq_refl). cbn [length]. lia.
Qed.
Lemma list_set_succ {A} (x:A) r i v : list_set (x :: r) (i + 1) v = x :: list_set r i v.
Proof. unfold list_set. rewrite N.add_1_r, N2Nat.inj_succ. reflexivity. Qed.
Lemma list_remove_succ {A} (x:A) r i : list_remove (x :: r) (i + 1) = x :: list_remove r i.
Proof. unfold list_remove. rewrite N.add_1_r, N2Nat.inj_succ. reflexivity. Qed.
Lemma list_get_succ x r i : list_get (x :: r) (i + 1) = list_get r i.
Proof. unfold list_get. rewrite N.add_1_r, N2Nat.inj_succ. reflexivity. Qed.

(* the model's recursive functions, said with position / set / remove as the Rust does *)
Lemma replace_or_push_position a : forall l,
  replace_or_push a l
  = match list_position (fun x => wire_type x =? wire_type a) l with Some i => list_set l i a | None => l ++ [a] end.
Proof.
  induction l as [|x r IH]; cbn [replace_or_push list_position]; [reflexivity|].
  destruct (wire_type x =? wire_type a); [reflexivity|]. rewrite IH.
  destruct (list_position (fun x0 => wire_type x0 =? wire_type a) r) as [i|]; [rewrite list_set_succ|]; reflexivity.
Qed.
Lemma remove_first_position ty : forall l,
  remove_first ty l = match list_position (fun x => wire_type x =? ty) l with Some i => list_remove l i | None => l end.
Proof.
  induction l as [|x r IH]; cbn [remove_first list_position]; [reflexivity|].
  destruct (wire_type x =? ty); [reflexivity|]. rewrite IH.
  destruct (list_position (fun x0 => wire_type x0 =? ty) r) as [i|]; [rewrite list_remove_succ|]; reflexivity.
Qed.
Lemma absent_position ty : forall l, has_ty ty l = false -> list_position (fun x => wire_type x =? ty) l = None.
Proof.
  induction l as [|x r IH]; cbn [list_position]; [reflexivity|]. unfold has_ty. cbn [existsb]. intros H.
  apply orb_false_iff in H as [Hx Hr]. rewrite Hx. rewrite (IH Hr). reflexivity.
Qed.

(* ================================================================== the agreement, for any encoding *)
Section Enc.
Variable enc : attr -> N * N.
Hypothesis enc_ty : forall a, fst (enc a) = wire_type a.

Definition conv (s:attrs) : StunAttributes :=
  {| StunAttributes_attributes := map enc (ord s); StunAttributes_integrity := option_map enc (sl_mi s);
     StunAttributes_integrity_sha256 := option_map enc (sl_sha s); StunAttributes_fingerprint := option_map enc (sl_fp s) |}.

Lemma position_map ty : forall l,
  list_position (fun a => fst a =? ty) (map enc l) = list_position (fun x => wire_type x =? ty) l.
Proof.
  induction l as [|x r IH]; cbn [map list_position]; [reflexivity|]. rewrite enc_ty, IH. reflexivity.
Qed.
Lemma list_set_map : forall l i a, list_set (map enc l) i (enc a) = map enc (list_set l i a).
Proof.
  intros l i a. unfold list_set. generalize (N.to_nat i) as n. clear i.
  induction l as [|x r IH]; intros n; cbn [map list_set_nat]; [reflexivity|]. destruct n; cbn [map]; [reflexivity|].
  rewrite IH. reflexivity.
Qed.
Lemma list_remove_map : forall l i, list_remove (map enc l) i = map enc (list_remove l i).
Proof.
  intros l i. unfold list_remove. generalize (N.to_nat i) as n. clear i.
  induction l as [|x r IH]; intros n; cbn [map list_remove_nat]; [reflexivity|]. destruct n; cbn [map]; [reflexivity|].
  rewrite IH. reflexivity.
Qed.
Lemma list_get_position ty : forall l i, list_position (fun x => wire_type x =? ty) l = Some i ->
  Some (list_get (map enc l) i) = option_map enc (first_of_type ty l).
Proof.
  unfold first_of_type.
  induction l as [|x r IH]; intros i H; cbn [list_position find map] in *; [discriminate|].
  destruct (wire_type x =? ty).
  - injection H as <-. reflexivity.
  - destruct (list_position (fun x0 => wire_type x0 =? ty) r) as [j|]; [|discriminate]. injection H as <-.
    rewrite list_get_succ. apply IH. reflexivity.
Qed.
Lemma first_of_type_none ty : forall l, list_position (fun x => wire_type x =? ty) l = None -> first_of_type ty l = None.
Proof.
  unfold first_of_type.
  induction l as [|x r IH]; intros H; cbn [list_position find] in *; [reflexivity|].
  destruct (wire_type x =? ty); [discriminate|].
  destruct (list_position (fun x0 => wire_type x0 =? ty) r) as [j|]; [discriminate|]. apply IH. reflexivity.
Qed.

(* the ordinary-attribute part of remove: the block the generated code repeats in every branch *)
Lemma remove_ord_part ty l (mi sha fp:option (N * N)) :
  match list_position (fun a => fst a =? ty) (map enc l) with
  | Some index =>
      if negb (index <? N.of_nat (length (map enc l))) then GPanic
      else GOk (Some (list_get (map enc l) index),
                {| StunAttributes_attributes := list_remove (map enc l) index; StunAttributes_integrity := mi;
                   StunAttributes_integrity_sha256 := sha; StunAttributes_fingerprint := fp |})
  | None => GOk (None, {| StunAttributes_attributes := map enc l; StunAttributes_integrity := mi;
                          StunAttributes_integrity_sha256 := sha; StunAttributes_fingerprint := fp |})
  end
  = GOk (option_map enc (first_of_type ty l),
         {| StunAttributes_attributes := map enc (remove_first ty l); StunAttributes_integrity := mi;
            StunAttributes_integrity_sha256 := sha; StunAttributes_fingerprint := fp |}).
Proof.
  rewrite position_map, remove_first_position.
  destruct (list_position (fun x => wire_type x =? ty) l) as [i|] eqn:E.
  - pose proof (list_position_lt _ _ _ E) as Hlt. rewrite map_length.
    apply N.ltb_lt in Hlt. rewrite Hlt. cbn [negb].
    rewrite (list_get_position ty l i E), list_remove_map. reflexivity.
  - rewrite (first_of_type_none ty l E). reflexivity.
Qed.
Lemma remove_ord_absent ty l (mi sha fp:option (N * N)) : has_ty ty l = false ->
  match list_position (fun a => fst a =? ty) (map enc l) with
  | Some index =>
      if negb (index <? N.of_nat (length (map enc l))) then GPanic
      else GOk (Some (list_get (map enc l) index),
                {| StunAttributes_attributes := list_remove (map enc l) index; StunAttributes_integrity := mi;
                   StunAttributes_integrity_sha256 := sha; StunAttributes_fingerprint := fp |})
  | None => GOk (None, {| StunAttributes_attributes := map enc l; StunAttributes_integrity := mi;
                          StunAttributes_integrity_sha256 := sha; StunAttributes_fingerprint := fp |})
  end
  = GOk (None, {| StunAttributes_attributes := map enc l; StunAttributes_integrity := mi;
                  StunAttributes_integrity_sha256 := sha; StunAttributes_fingerprint := fp |}).
Proof. intros H. rewrite position_map, (absent_position ty l H). reflexivity. Qed.

(* ---------------------------------------------------------------- 1. add *)
Theorem gen_add_agrees : forall s a, attr_wf a ->
  gen_StunAttributes_add (conv s) (enc a) = GOk (conv (add_attr a s)).
Proof.
  intros [l mi sha fp] a Hw. unfold gen_StunAttributes_add, conv, sattr_is_mi, sattr_is_sha, sattr_is_fp.
  cbn [StunAttributes_attributes StunAttributes_integrity StunAttributes_integrity_sha256 StunAttributes_fingerprint
       ord sl_mi sl_sha sl_fp].
  rewrite !enc_ty.
  assert (Hord : wire_type a <> 8 /\ wire_type a <> 28 /\ wire_type a <> 32808 ->
    (if wire_type a =? 8 then GOk {| StunAttributes_attributes := map enc l; StunAttributes_integrity := Some (enc a);
                                      StunAttributes_integrity_sha256 := option_map enc sha; StunAttributes_fingerprint := option_map enc fp |}
     else if wire_type a =? 28 then GOk {| StunAttributes_attributes := map enc l; StunAttributes_integrity := option_map enc mi;
                                      StunAttributes_integrity_sha256 := Some (enc a); StunAttributes_fingerprint := option_map enc fp |}
     else if wire_type a =? 32808 then GOk {| StunAttributes_attributes := map enc l; StunAttributes_integrity := option_map enc mi;
                                      StunAttributes_integrity_sha256 := option_map enc sha; StunAttributes_fingerprint := Some (enc a) |}
     else match list_position (fun a0 : N * N => fst a0 =? wire_type a) (map enc l) with
          | Some index => if negb (index <? N.of_nat (length (map enc l))) then GPanic
                          else GOk {| StunAttributes_attributes := list_set (map enc l) index (enc a); StunAttributes_integrity := option_map enc mi;
                                      StunAttributes_integrity_sha256 := option_map enc sha; StunAttributes_fingerprint := option_map enc fp |}
          | None => GOk {| StunAttributes_attributes := map enc l ++ [enc a]; StunAttributes_integrity := option_map enc mi;
                           StunAttributes_integrity_sha256 := option_map enc sha; StunAttributes_fingerprint := option_map enc fp |}
          end)
    = GOk {| StunAttributes_attributes := map enc (replace_or_push a l); StunAttributes_integrity := option_map enc mi;
             StunAttributes_integrity_sha256 := option_map enc sha; StunAttributes_fingerprint := option_map enc fp |}).
  { intros (H8 & H28 & H3). apply N.eqb_neq in H8, H28, H3. rewrite H8, H28, H3.
    rewrite position_map, replace_or_push_position.
    destruct (list_position (fun x => wire_type x =? wire_type a) l) as [i|] eqn:E.
    - pose proof (list_position_lt _ _ _ E) as Hlt. rewrite map_length. apply N.ltb_lt in Hlt. rewrite Hlt. cbn [negb].
      rewrite list_set_map. reflexivity.
    - rewrite map_app. reflexivity. }
  destruct a; cbn [add_attr ord sl_mi sl_sha sl_fp option_map]; cbn [wire_type attr_wf] in *;
    try (apply Hord; repeat split; discriminate); try reflexivity.
  apply Hord. exact Hw.
Qed.

(* ---------------------------------------------------------------- 2. remove *)
Theorem gen_remove_agrees : forall s ty, attrs_wf s ->
  gen_StunAttributes_remove (conv s) ty = GOk (option_map enc (removed ty s), conv (remove ty s)).
Proof.
  intros [l mi sha fp] ty (Hp & Hm & Hs & Hf). cbn [ord sl_mi sl_sha sl_fp] in *. destruct Hp as (P8 & P28 & P3).
  unfold gen_StunAttributes_remove, conv, remove, removed.
  cbn [StunAttributes_attributes StunAttributes_integrity StunAttributes_integrity_sha256 StunAttributes_fingerprint
       ord sl_mi sl_sha sl_fp].
  destruct mi as [xm|]; [pose proof (Hm xm eq_refl) as Em|]; (destruct sha as [xs|]; [pose proof (Hs xs eq_refl) as Es|]);
    (destruct fp as [xf|]; [pose proof (Hf xf eq_refl) as Ef|]);
    cbn [option_map]; rewrite ?enc_ty, ?Em, ?Es, ?Ef;
    rewrite ?(N.eqb_sym 8 ty), ?(N.eqb_sym 28 ty), ?(N.eqb_sym 32808 ty);
    (destruct (ty =? 8) eqn:E8;
     [apply N.eqb_eq in E8; subst ty; cbn [N.eqb Pos.eqb]; cbn [ord sl_mi sl_sha sl_fp option_map];
      try reflexivity; apply remove_ord_absent; exact P8|]);
    (destruct (ty =? 28) eqn:E28;
     [apply N.eqb_eq in E28; subst ty; cbn [N.eqb Pos.eqb]; cbn [ord sl_mi sl_sha sl_fp option_map];
      try reflexivity; apply remove_ord_absent; exact P28|]);
    (destruct (ty =? 32808) eqn:E3;
     [apply N.eqb_eq in E3; subst ty; cbn [ord sl_mi sl_sha sl_fp option_map];
      try reflexivity; apply remove_ord_absent; exact P3|]);
    cbn [ord sl_mi sl_sha sl_fp option_map]; apply remove_ord_part.
Qed.

Corollary gen_remove_never_panics s ty : attrs_wf s -> gen_StunAttributes_remove (conv s) ty <> GPanic.
Proof. intros Hw. rewrite gen_remove_agrees by exact Hw. discriminate. Qed.
Corollary gen_add_never_panics s a : attr_wf a -> gen_StunAttributes_add (conv s) (enc a) <> GPanic.
Proof. intros Hw. rewrite gen_add_agrees by exact Hw. discriminate. Qed.

(* ---------------------------------------------------------------- 3. a whole list, flattening *)
Lemma conv_empty : conv empty_attrs = gen_StunAttributes_default.
Proof. reflexivity. Qed.

Lemma gen_add_all_agrees : forall l s, app_wf l ->
  gen_add_all (map enc l) (conv s) = GOk (conv (fold_left (fun s a => add_attr a s) l s)).
Proof.
  induction l as [|a l IH]; intros s Hw; cbn [map gen_add_all fold_left]; [reflexivity|].
  rewrite gen_add_agrees by (apply Hw; left; reflexivity). apply IH. intros x Hx. apply Hw. right. exact Hx.
Qed.

Lemma gen_into_vec_agrees s : gen_StunAttributes_into_vec (conv s) = map enc (flatten s).
Proof.
  destruct s as [l mi sha fp]. unfold gen_StunAttributes_into_vec, conv, flatten, push_opt.
  cbn [StunAttributes_attributes StunAttributes_integrity StunAttributes_integrity_sha256 StunAttributes_fingerprint
       ord sl_mi sl_sha sl_fp].
  destruct mi, sha, fp; cbn [option_map opt_list]; rewrite ?map_app, <- ?app_assoc; cbn [map app]; rewrite ?app_nil_r; reflexivity.
Qed.

Theorem gen_of_list_agrees l : app_wf l ->
  gen_add_all (map enc l) gen_StunAttributes_default = GOk (conv (of_list l))
  /\ (forall v, gen_add_all (map enc l) gen_StunAttributes_default = GOk v ->
                gen_StunAttributes_into_vec v = map enc (flatten (of_list l))).
Proof.
  intros Hw. rewrite <- conv_empty. unfold of_list. rewrite gen_add_all_agrees by exact Hw. split; [reflexivity|].
  intros v Hv. injection Hv as <-. apply gen_into_vec_agrees.
Qed.

(* ---------------------------------------------------------------- the hypotheses are necessary *)
(* `App 8 tag` (a junk value of the model) goes to the ordinary list in the model, to the integrity slot in the code *)
Lemma add_needs_attr_wf tag : gen_StunAttributes_add (conv empty_attrs) (enc (App 8 tag)) <> GOk (conv (add_attr (App 8 tag) empty_attrs)).
Proof.
  unfold gen_StunAttributes_add, conv, sattr_is_mi.
  cbn [StunAttributes_attributes StunAttributes_integrity StunAttributes_integrity_sha256 StunAttributes_fingerprint
       ord sl_mi sl_sha sl_fp empty_attrs add_attr replace_or_push map option_map].
  rewrite enc_ty. cbn [wire_type N.eqb Pos.eqb]. intros H. discriminate H.
Qed.
(* on the ill-formed state whose ordinary list holds a type-8 attribute the code removes it, the model does not *)
Lemma remove_needs_attrs_wf tag :
  let s := {| ord := [App 8 tag]; sl_mi := None; sl_sha := None; sl_fp := None |} in
  gen_StunAttributes_remove (conv s) 8 <> GOk (option_map enc (removed 8 s), conv (remove 8 s)).
Proof.
  cbn zeta. unfold gen_StunAttributes_remove, conv, remove, removed.
  cbn [StunAttributes_attributes StunAttributes_integrity StunAttributes_integrity_sha256 StunAttributes_fingerprint
       ord sl_mi sl_sha sl_fp map option_map list_position N.eqb Pos.eqb].
  rewrite enc_ty. cbn [wire_type N.eqb Pos.eqb length N.of_nat N.ltb N.compare negb]. intros H. discriminate H.
Qed.
End Enc.

(* the section hypothesis is satisfiable: e.g. the encoding with an empty payload *)
Lemma enc_exists : exists enc : attr -> N * N, forall a, fst (enc a) = wire_type a.
Proof. exists (fun a => (wire_type a, 0)). intros a. reflexivity. Qed.
