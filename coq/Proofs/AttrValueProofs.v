(* Proofs about the model of the typed attribute value codecs (Codec/AttrValue.v):
   (a) the decoders never reach a panic site (for every raw value a TLV can carry: fewer than 2^16 bytes);
   (b) the encoders never reach a panic site (for every value that satisfies the invariants of the Rust types);
   (c) per family: under the documented limits, encode succeeds and decode returns the same value. *)
From Coq Require Import List NArith ZArith Lia Bool Arith ZifyBool ZifyN.
Import ListNotations.
From Rustun Require Import Base.Tlv Codec.AttrValue.
Open Scope N_scope.
Ltac Zify.zify_post_hook ::= Z.div_mod_to_equations.

(* ------------------------------------------------------------------------------------ len / take / drop *)
Lemma len_nil : len [] = 0. Proof. reflexivity. Qed.
Lemma len_cons x l : len (x :: l) = len l + 1.
Proof. unfold len. cbn [length]. lia. Qed.
Lemma len_take j b : j <= len b -> len (take j b) = j.
Proof. unfold len, take. intros H. rewrite firstn_length_le by lia. lia. Qed.
Lemma len_take_le j b : len (take j b) <= len b.
Proof. unfold len, take. rewrite firstn_length. lia. Qed.
Lemma len_drop i b : len (drop i b) = len b - i.
Proof. unfold len, drop. rewrite skipn_length. lia. Qed.
Lemma take_all b : take (len b) b = b.
Proof. unfold take, len. rewrite Nat2N.id. apply firstn_all. Qed.
Lemma drop_0 b : drop 0 b = b.
Proof. reflexivity. Qed.
Lemma len_0_nil b : len b = 0 -> b = [].
Proof. destruct b; [reflexivity|]. rewrite len_cons. lia. Qed.
Lemma drop_cons_lt i b : i < len b -> exists x r, drop i b = x :: r.
Proof.
  intros H. destruct (drop i b) as [|x r] eqn:E; [|eauto].
  pose proof (len_drop i b) as L. rewrite E, len_nil in L. lia.
Qed.

(* ------------------------------------------------------------------------------------ the panic sites *)
Lemma av_bind_np {A B} (r:vres A) (f:A -> vres B) :
  r <> VPanic -> (forall a, r = VOk a -> f a <> VPanic) -> av_bind r f <> VPanic.
Proof. intros Hr Hf. destruct r; cbn [av_bind]; try discriminate; [apply Hf; reflexivity|congruence]. Qed.

Lemma av_to_ok b j : j <= len b -> av_to b j = VOk (take j b).
Proof. intros H. unfold av_to. destruct (N.ltb_spec (len b) j); [lia|reflexivity]. Qed.
Lemma av_from_ok b i : i <= len b -> av_from b i = VOk (drop i b).
Proof. intros H. unfold av_from. destruct (N.ltb_spec (len b) i); [lia|reflexivity]. Qed.
Lemma av_slice_ok b i j : i <= j -> j <= len b -> av_slice b i j = VOk (take (j - i) (drop i b)).
Proof.
  intros H1 H2. unfold av_slice.
  destruct (N.ltb_spec j i); [lia|]. destruct (N.ltb_spec (len b) j); [lia|reflexivity].
Qed.
Lemma len_slice b i j : i <= j -> j <= len b -> len (take (j - i) (drop i b)) = j - i.
Proof. intros. apply len_take. rewrite len_drop. lia. Qed.
Lemma av_at_ok b i : i < len b -> exists x, av_at b i = VOk x.
Proof. intros H. unfold av_at. destruct (drop_cons_lt i b H) as (x & r & ->). eauto. Qed.
Lemma av_rd16_ok b : 2 <= len b -> exists n, av_rd16 b = VOk n.
Proof.
  intros H. destruct b as [|x [|y r]]; rewrite ?len_cons, ?len_nil in H; try lia. cbn [av_rd16]. eauto.
Qed.
Lemma av_rd32_ok b : 4 <= len b -> av_rd32 b = VOk (av_rd_n 0 (take 4 b)).
Proof. intros H. unfold av_rd32. destruct (N.ltb_spec (len b) 4); [lia|reflexivity]. Qed.
Lemma av_rd64_ok b : 8 <= len b -> av_rd64 b = VOk (av_rd_n 0 (take 8 b)).
Proof. intros H. unfold av_rd64. destruct (N.ltb_spec (len b) 8); [lia|reflexivity]. Qed.

(* ------------------------------------------------------------------------------------ (a) simple decoders *)
Lemma av_dec_u16_np v : av_dec_u16 v <> VPanic.
Proof.
  unfold av_dec_u16. destruct (N.ltb_spec (len v) 2); [discriminate|].
  rewrite av_to_ok by lia. cbn [av_bind].
  destruct (av_rd16_ok (take 2 v)) as (n & ->); [rewrite len_take; lia|discriminate].
Qed.
Lemma av_dec_u32_np v : av_dec_u32 v <> VPanic.
Proof.
  unfold av_dec_u32. destruct (N.ltb_spec (len v) 4); [discriminate|].
  rewrite av_to_ok by lia. cbn [av_bind]. rewrite av_rd32_ok; [discriminate|rewrite len_take; lia].
Qed.
Lemma av_dec_u64_np v : av_dec_u64 v <> VPanic.
Proof.
  unfold av_dec_u64. destruct (N.ltb_spec (len v) 8); [discriminate|].
  rewrite av_to_ok by lia. cbn [av_bind]. rewrite av_rd64_ok; [discriminate|rewrite len_take; lia].
Qed.

Lemma av_dec_sockaddr_np b : av_dec_sockaddr b <> VPanic.
Proof.
  unfold av_dec_sockaddr. destruct (N.ltb_spec (len b) 4); [discriminate|].
  destruct (av_at_ok b 1) as (fam & ->); [lia|]. cbn [av_bind].
  rewrite av_slice_ok by lia. cbn [av_bind].
  destruct (av_rd16_ok (take (4 - 2) (drop 2 b))) as (port & ->); [rewrite len_slice; lia|]. cbn [av_bind].
  destruct (fam =? 1).
  - destruct (N.ltb_spec (len b) 8); [discriminate|]. rewrite av_slice_ok by lia. discriminate.
  - destruct (fam =? 2); [|discriminate].
    destruct (N.ltb_spec (len b) 20); [discriminate|]. rewrite av_slice_ok by lia. discriminate.
Qed.

Lemma av_dec_header_np m : av_dec_header m <> VPanic.
Proof.
  unfold av_dec_header. destruct (N.ltb_spec (len m) 20); [discriminate|].
  rewrite av_to_ok by lia. cbn [av_bind].
  destruct (av_rd16_ok (take 2 m)) as (t & ->); [rewrite len_take; lia|]. cbn [av_bind].
  destruct (negb (t / 16384 =? 0)); [discriminate|].
  rewrite av_slice_ok by lia. cbn [av_bind].
  destruct (av_rd16_ok (take (4 - 2) (drop 2 m))) as (l & ->); [rewrite len_slice; lia|]. cbn [av_bind].
  rewrite av_slice_ok by lia. cbn [av_bind].
  destruct (negb _); [discriminate|]. rewrite av_slice_ok by lia. discriminate.
Qed.

Lemma av_dec_error_code_np raw : av_dec_error_code raw <> VPanic.
Proof.
  unfold av_dec_error_code. destruct (N.ltb_spec (len raw) 4); [discriminate|].
  destruct (av_at_ok raw 2) as (b2 & ->); [lia|]. cbn [av_bind].
  destruct (_ || _); [discriminate|].
  destruct (av_at_ok raw 3) as (b3 & ->); [lia|]. cbn [av_bind].
  destruct (99 <? b3); [discriminate|].
  rewrite av_from_ok by lia. cbn [av_bind].
  destruct (negb _); [discriminate|]. destruct (763 <? _); [discriminate|].
  destruct (_ || _); discriminate.
Qed.

Lemma av_dec_family_np raw : av_dec_family raw <> VPanic.
Proof.
  unfold av_dec_family. destruct (N.ltb_spec (len raw) 1); [discriminate|].
  destruct (av_at_ok raw 0) as (f & ->); [lia|]. cbn [av_bind]. destruct (_ || _); discriminate.
Qed.

(* PASSWORD-ALGORITHM: the u16 addition `param_length + 4` cannot overflow behind the size check when the value
   is one a TLV can carry *)
Lemma av_dec_alg_np raw : len raw < 65536 -> av_dec_alg raw <> VPanic.
Proof.
  intros Hl. unfold av_dec_alg. destruct (N.ltb_spec (len raw) 4); [discriminate|].
  rewrite av_to_ok by lia. cbn [av_bind].
  destruct (av_rd16_ok (take 2 raw)) as (alg & ->); [rewrite len_take; lia|]. cbn [av_bind].
  rewrite av_slice_ok by lia. cbn [av_bind].
  destruct (av_rd16_ok (take (4 - 2) (drop 2 raw))) as (plen & ->); [rewrite len_slice; lia|]. cbn [av_bind].
  destruct (N.ltb_spec (len raw) (4 + plen)); [discriminate|].
  destruct (N.ltb_spec 65535 (plen + 4)); [lia|].
  rewrite av_slice_ok by lia. discriminate.
Qed.
Lemma av_dec_alg_size raw a p l : av_dec_alg raw = VOk (a, p, l) -> 4 <= l /\ l <= len raw.
Proof.
  unfold av_dec_alg. destruct (N.ltb_spec (len raw) 4); [discriminate|].
  rewrite av_to_ok by lia. cbn [av_bind].
  destruct (av_rd16_ok (take 2 raw)) as (alg & ->); [rewrite len_take; lia|]. cbn [av_bind].
  rewrite av_slice_ok by lia. cbn [av_bind].
  destruct (av_rd16_ok (take (4 - 2) (drop 2 raw))) as (plen & ->); [rewrite len_slice; lia|]. cbn [av_bind].
  destruct (N.ltb_spec (len raw) (4 + plen)); [discriminate|].
  destruct (N.ltb_spec 65535 (plen + 4)); [discriminate|].
  destruct (av_slice raw 4 (plen + 4)); cbn [av_bind]; try discriminate.
  intros E. injection E as _ _ <-. lia.
Qed.

Lemma av_dec_algs_np : forall fuel rest size acc,
  (length rest <= fuel)%nat -> len rest < 65536 -> av_dec_algs fuel rest size acc <> VPanic.
Proof.
  induction fuel as [|f IH]; intros rest size acc Hf Hl.
  - destruct rest; [cbn; discriminate|cbn in Hf; lia].
  - destruct rest as [|x rest0]; [cbn; discriminate|].
    set (rest := x :: rest0) in *. cbn [av_dec_algs]. fold rest.
    destruct (N.ltb_spec (len rest) (pad size)); [discriminate|].
    rewrite av_from_ok by lia. cbn [av_bind].
    assert (Hs : len (drop (pad size) rest) < 65536) by (rewrite len_drop; lia).
    apply av_bind_np; [apply av_dec_alg_np; exact Hs|].
    intros [[a p] l] E. apply av_dec_alg_size in E as [E1 E2].
    rewrite av_from_ok by lia. cbn [av_bind].
    apply IH.
    + assert (L : len (drop l (drop (pad size) rest)) < len rest) by (rewrite !len_drop in *; lia).
      unfold len in L. subst rest. cbn [length] in *. lia.
    + rewrite !len_drop in *. lia.
Qed.

Lemma av_dec_uattrs_np : forall n l acc, length l = (2 * n)%nat -> av_dec_uattrs l acc <> VPanic.
Proof.
  induction n as [|n IH]; intros l acc H.
  - destruct l; [cbn; discriminate|cbn in H; lia].
  - destruct l as [|a [|b r]]; cbn [length] in H; try lia.
    cbn [av_dec_uattrs]. apply IH. lia.
Qed.
Lemma land1_even l : N.land (len l) 1 = 0 -> exists n, length l = (2 * n)%nat.
Proof.
  intros H. change 1 with (N.ones 1) in H. rewrite N.land_ones in H. change (2 ^ 1) with 2 in H.
  unfold len in H. exists (length l / 2)%nat.
  assert (E : (length l mod 2 = 0)%nat).
  { assert (N.of_nat (length l mod 2) = 0) by (rewrite Nat2N.inj_mod; exact H). lia. }
  pose proof (Nat.div_mod (length l) 2 ltac:(lia)). lia.
Qed.

(* ------------------------------------------------------------------------------------ UTF-8 structure *)
Lemma av_utf8_cons_eq b0 r0 : av_utf8 (b0 :: r0) =
    if b0 <? 0x80 then av_cons_opt b0 (av_utf8 r0)
    else if b0 <? 0xC2 then None
    else if b0 <? 0xE0 then
      match r0 with
      | b1 :: r1 =>
          if av_cont b1 then av_cons_opt ((b0 - 0xC0) * 64 + (b1 - 0x80)) (av_utf8 r1) else None
      | _ => None
      end
    else if b0 <? 0xF0 then
      match r0 with
      | b1 :: b2 :: r2 =>
          if (av_lo3 b0 <=? b1) && (b1 <=? av_hi3 b0) && av_cont b2
          then av_cons_opt (((b0 - 0xE0) * 64 + (b1 - 0x80)) * 64 + (b2 - 0x80)) (av_utf8 r2) else None
      | _ => None
      end
    else if b0 <? 0xF5 then
      match r0 with
      | b1 :: b2 :: b3 :: r3 =>
          if (av_lo4 b0 <=? b1) && (b1 <=? av_hi4 b0) && av_cont b2 && av_cont b3
          then av_cons_opt ((((b0 - 0xF0) * 64 + (b1 - 0x80)) * 64 + (b2 - 0x80)) * 64 + (b3 - 0x80)) (av_utf8 r3)
          else None
      | _ => None
      end
    else None.
Proof. reflexivity. Qed.

Lemma av_cons_opt_some c o l : av_cons_opt c o = Some l -> exists cs, o = Some cs /\ l = c :: cs.
Proof. destruct o; cbn; [intros E; injection E as <-; eauto|discriminate]. Qed.

(* one character: the first code point, the bytes it took (`h`, not empty) and the rest *)
Lemma av_utf8_cons_inv b0 r cps : av_utf8 (b0 :: r) = Some cps ->
  exists c cs h t, cps = c :: cs /\ av_utf8 t = Some cs /\ b0 :: r = h ++ t /\ 1 <= len h /\
     ((b0 < 0x80 /\ c = b0 /\ t = r) \/ (0x80 <= b0 /\ 0x80 <= c)).
Proof.
  rewrite av_utf8_cons_eq.
  destruct (N.ltb_spec b0 0x80) as [H0|H0].
  { intros E. apply av_cons_opt_some in E as (cs & E1 & ->).
    exists b0, cs, [b0], r. rewrite len_cons, len_nil. repeat split; auto; try lia. }
  destruct (N.ltb_spec b0 0xC2) as [H1|H1]; [discriminate|].
  destruct (N.ltb_spec b0 0xE0) as [H2|H2].
  { destruct r as [|b1 r1]; [discriminate|]. destruct (av_cont b1); [|discriminate].
    intros E. apply av_cons_opt_some in E as (cs & E1 & ->).
    exists ((b0 - 0xC0) * 64 + (b1 - 0x80)), cs, [b0; b1], r1. rewrite !len_cons, len_nil.
    repeat split; auto; try lia. }
  destruct (N.ltb_spec b0 0xF0) as [H3|H3].
  { destruct r as [|b1 [|b2 r2]]; try discriminate.
    destruct (_ && _) eqn:C; [|discriminate].
    intros E. apply av_cons_opt_some in E as (cs & E1 & ->).
    apply andb_prop in C as [C _]. apply andb_prop in C as [C _]. apply N.leb_le in C.
    exists (((b0 - 0xE0) * 64 + (b1 - 0x80)) * 64 + (b2 - 0x80)), cs, [b0; b1; b2], r2. rewrite !len_cons, len_nil.
    repeat split; auto; try lia. right.
    unfold av_lo3 in C. destruct (N.eqb_spec b0 0xE0); lia. }
  destruct (N.ltb_spec b0 0xF5) as [H4|H4]; [|discriminate].
  destruct r as [|b1 [|b2 [|b3 r3]]]; try discriminate.
  destruct (_ && _) eqn:C; [|discriminate].
  intros E. apply av_cons_opt_some in E as (cs & E1 & ->).
  exists ((((b0 - 0xF0) * 64 + (b1 - 0x80)) * 64 + (b2 - 0x80)) * 64 + (b3 - 0x80)), cs, [b0; b1; b2; b3], r3.
  apply andb_prop in C as [C _]. apply andb_prop in C as [C _]. apply andb_prop in C as [C _]. apply N.leb_le in C.
  rewrite !len_cons, len_nil. repeat split; auto; try lia. right.
  unfold av_lo4 in C. destruct (N.eqb_spec b0 0xF0); lia.
Qed.

(* a str starts at a character boundary *)
Definition lead_ok (r:bytes) : bool := match r with [] => true | b :: _ => (b <? 0x80) || (0xC0 <=? b) end.
Lemma utf8_lead_ok r : av_utf8 r <> None -> lead_ok r = true.
Proof.
  destruct r as [|b0 r]; [reflexivity|]. intros H. cbn [lead_ok].
  rewrite av_utf8_cons_eq in H.
  destruct (N.ltb_spec b0 0x80); [reflexivity|]. cbn [orb].
  destruct (N.ltb_spec b0 0xC2); [congruence|]. apply N.leb_le. lia.
Qed.
Lemma boundary_char s k : k <= len s -> lead_ok (drop k s) = true -> av_is_boundary s k = true.
Proof.
  intros Hk Hl. unfold av_is_boundary.
  destruct (N.eqb_spec k 0); [reflexivity|].
  destruct (N.ltb_spec (len s) k); [lia|].
  destruct (N.eqb_spec k (len s)); [reflexivity|].
  destruct (drop_cons_lt k s) as (x & r & E); [lia|]. rewrite E in *. exact Hl.
Qed.

Lemma drop_succ_cons k x r : drop (k + 1) (x :: r) = drop k r.
Proof. unfold drop. replace (N.to_nat (k + 1)) with (S (N.to_nat k)) by lia. reflexivity. Qed.
Lemma drop_len_app a b : drop (len a) (a ++ b) = b.
Proof. apply drop_app_exact. Qed.

Lemma removable_ascii c : av_removable c = true -> c < 0x80.
Proof.
  unfold av_removable. rewrite !orb_true_iff, !N.eqb_eq. lia.
Qed.

(* strings.rs skip_starting_characteres: the index it returns is a byte offset on a character boundary *)
Lemma skip_start_bytes : forall s cps idx p,
  av_utf8 s = Some cps -> av_skip_start idx cps = Some p ->
  idx <= p /\ p - idx <= len s /\ av_utf8 (drop (p - idx) s) <> None.
Proof.
  induction s as [|b0 r IH]; intros cps idx p Hu Hs.
  - cbn in Hu. injection Hu as <-. discriminate.
  - destruct (av_utf8_cons_inv _ _ _ Hu) as (c & cs & h & t & -> & Ht & Eh & Hh & Hc).
    cbn [av_skip_start] in Hs. destruct (av_removable c) eqn:R.
    + apply removable_ascii in R. destruct Hc as [(Hb & -> & ->)|(Hb & Hc)]; [|lia].
      destruct (IH _ _ _ Ht Hs) as (I1 & I2 & I3).
      rewrite len_cons. replace (p - idx) with (p - (idx + 1) + 1) by lia.
      rewrite drop_succ_cons. repeat split; try lia. exact I3.
    + injection Hs as <-. replace (idx - idx) with 0 by lia. rewrite drop_0.
      repeat split; try lia. congruence.
Qed.

Lemma skip_start_prefix : forall l idx p, av_skip_start idx l = Some p ->
  exists pre post, l = pre ++ post /\ idx <= p /\ len pre = p - idx /\ Forall (fun c => c < 0x80) pre.
Proof.
  induction l as [|c l IH]; intros idx p H; [discriminate|].
  cbn [av_skip_start] in H. destruct (av_removable c) eqn:R.
  - destruct (IH _ _ H) as (pre & post & -> & I1 & I2 & I3).
    exists (c :: pre), post. rewrite len_cons. repeat split; try lia.
    constructor; [apply removable_ascii; exact R|exact I3].
  - injection H as <-. exists [], (c :: l). rewrite len_nil. repeat split; try lia. constructor.
Qed.

Lemma utf8_suffix : forall c1 s c2, av_utf8 s = Some (c1 ++ c2) ->
  exists a b, s = a ++ b /\ av_utf8 b = Some c2.
Proof.
  induction c1 as [|c c1 IH]; intros s c2 H.
  - exists [], s. split; [reflexivity|exact H].
  - destruct s as [|b0 r]; [discriminate|].
    destruct (av_utf8_cons_inv _ _ _ H) as (c' & cs & h & t & E & Ht & Eh & _ & _).
    cbn [app] in E. injection E as <- <-.
    destruct (IH _ _ Ht) as (a & b & -> & Hb).
    exists (h ++ a), b. rewrite <- app_assoc. split; [exact Eh|exact Hb].
Qed.

Lemma utf8_ascii : forall b cs, av_utf8 b = Some cs -> Forall (fun c => c < 0x80) cs -> b = cs.
Proof.
  induction b as [|b0 r IH]; intros cs H F.
  - cbn in H. injection H as <-. reflexivity.
  - destruct (av_utf8_cons_inv _ _ _ H) as (c & cs' & h & t & -> & Ht & _ & _ & Hc).
    inversion F as [|? ? F1 F2]; subst.
    destruct Hc as [(_ & -> & ->)|(_ & Hc)]; [|lia].
    f_equal. apply IH; assumption.
Qed.

Lemma len_rev (l:bytes) : len (rev l) = len l.
Proof. unfold len. rewrite rev_length. reflexivity. Qed.

(* strings.rs skip_trailing_characteres: `s.len() - pos` does not underflow and is a character boundary *)
Lemma skip_trail_bytes s cps p :
  av_utf8 s = Some cps -> av_skip_trail cps = Some p ->
  p <= len s /\ av_is_boundary s (len s - p) = true.
Proof.
  intros Hu Hs. unfold av_skip_trail in Hs.
  destruct (skip_start_prefix _ _ _ Hs) as (pre & post & E & _ & Hl & Hf).
  assert (Ec : cps = rev post ++ rev pre).
  { rewrite <- rev_app_distr, <- E, rev_involutive. reflexivity. }
  rewrite Ec in Hu. destruct (utf8_suffix _ _ _ Hu) as (a & b & -> & Hb).
  apply utf8_ascii in Hb; [|apply Forall_rev; exact Hf].
  assert (Lb : len b = p) by (rewrite Hb, len_rev; lia).
  rewrite len_app. split; [lia|].
  replace (len a + len b - p) with (len a) by lia.
  apply boundary_char; [rewrite len_app; lia|].
  rewrite drop_len_app. rewrite Hb. destruct (rev pre) as [|x r] eqn:Er; [reflexivity|].
  cbn [lead_ok]. assert (Hx : x < 0x80).
  { assert (F : Forall (fun c => c < 0x80) (rev pre)) by (apply Forall_rev; exact Hf).
    rewrite Er in F. inversion F; assumption. }
  destruct (N.ltb_spec x 0x80); [reflexivity|lia].
Qed.

Lemma av_chars_some s cps : av_utf8 s = Some cps -> av_chars s = cps.
Proof. unfold av_chars. intros ->. reflexivity. Qed.

Lemma av_formatted_np s cps : av_utf8 s = Some cps -> av_formatted s cps <> VPanic.
Proof.
  intros Hu. unfold av_formatted.
  destruct (_ && _); [discriminate|].
  destruct (av_skip_start 0 cps) as [pos|] eqn:Es.
  - destruct (skip_start_bytes _ _ _ _ Hu Es) as (_ & H2 & H3).
    rewrite N.sub_0_r in H2, H3.
    unfold av_str_from. rewrite boundary_char; [|exact H2|apply utf8_lead_ok; exact H3].
    cbn [av_bind].
    destruct (av_utf8 (drop pos s)) as [cps1|] eqn:E1; [|congruence].
    rewrite (av_chars_some _ _ E1).
    destruct (av_skip_trail cps1) as [p|] eqn:Et; [|discriminate].
    destruct (skip_trail_bytes _ _ _ E1 Et) as (T1 & T2).
    destruct (N.ltb_spec (len (drop pos s)) p); [lia|].
    unfold av_str_to. rewrite T2. discriminate.
  - unfold av_str_to. cbn. discriminate.
Qed.

Lemma av_dec_quoted_string_np raw : av_dec_quoted_string raw <> VPanic.
Proof.
  unfold av_dec_quoted_string. destruct (av_utf8 raw) as [cps|] eqn:E; [|discriminate].
  apply av_bind_np; [apply av_formatted_np; exact E|].
  intros q _. destruct (av_bytes_eqb q raw); discriminate.
Qed.

Lemma av_precis_np s : av_precis s <> VPanic.
Proof. unfold av_precis. destruct s; [discriminate|]. destruct (existsb _ _); [discriminate|]. destruct (existsb _ _); discriminate. Qed.

(* ------------------------------------------------------------------------------------ (a) main theorem *)
Lemma av_dec_kind_no_panic k hdr v : len v < 65536 -> av_dec_kind k hdr v <> VPanic.
Proof.
  intros Hl. destruct k; cbn [av_dec_kind].
  - (* Addr *) apply av_bind_np; [apply av_dec_sockaddr_np|]. intros [[v6 port] ip] _. discriminate.
  - (* XorAddr *) apply av_bind_np; [apply av_dec_header_np|]. intros txid _.
    apply av_bind_np; [apply av_dec_sockaddr_np|]. intros [[v6 port] ip] _. cbn. discriminate.
  - apply av_bind_np; [apply av_dec_u16_np|]. discriminate.
  - apply av_bind_np; [apply av_dec_u32_np|]. discriminate.
  - apply av_bind_np; [apply av_dec_u64_np|]. discriminate.
  - discriminate.
  - destruct (_ <? _); [discriminate|]. destruct (av_utf8_ok v); discriminate.
  - destruct (_ <? _); [discriminate|]. apply av_bind_np; [apply av_dec_quoted_string_np|]. discriminate.
  - destruct (negb _); [discriminate|]. destruct (_ <? _); [discriminate|].
    apply av_bind_np; [apply av_precis_np|]. discriminate.
  - apply av_bind_np; [apply av_dec_error_code_np|]. discriminate.
  - apply av_bind_np; [apply av_dec_family_np|]. intros f _.
    apply av_bind_np; [apply av_dec_error_code_np|]. discriminate.
  - apply av_bind_np; [apply av_dec_alg_np; exact Hl|]. intros [[a p] l] _. discriminate.
  - apply av_bind_np; [apply av_dec_algs_np; [lia|exact Hl]|]. discriminate.
  - destruct (negb _) eqn:E; [discriminate|].
    apply negb_false_iff, N.eqb_eq, land1_even in E as (n & E).
    apply av_bind_np; [apply (av_dec_uattrs_np n); exact E|]. discriminate.
  - destruct (_ =? _); discriminate.
  - destruct (N.ltb_spec (len v) 8); [discriminate|]. rewrite av_to_ok by lia. discriminate.
  - discriminate.
  - (* Chan *) apply av_bind_np; [apply av_dec_u16_np|]. intros number E.
    unfold av_dec_u16 in E. destruct (N.ltb_spec (len v) 2); [discriminate|].
    rewrite av_from_ok by lia. cbn [av_bind].
    apply av_bind_np; [apply av_dec_u16_np|]. discriminate.
  - destruct (N.ltb_spec (len v) 1); [discriminate|].
    destruct (av_at_ok v 0) as (b & ->); [lia|]. discriminate.
  - destruct (N.ltb_spec (len v) 4); [discriminate|]. destruct (N.ltb_spec (len v) 1); [discriminate|].
    destruct (av_at_ok v 0) as (b & ->); [lia|]. discriminate.
  - destruct (_ <? _); [discriminate|]. apply av_bind_np; [apply av_dec_family_np|]. discriminate.
  - (* Icmp *) destruct (N.ltb_spec (len v) 8); [discriminate|].
    rewrite av_slice_ok by lia. cbn [av_bind].
    apply av_bind_np; [apply av_dec_u16_np|]. intros icmp _.
    destruct (_ <? _); [discriminate|]. destruct (_ <? _); [discriminate|]. destruct (_ <? _); [discriminate|].
    rewrite av_slice_ok by lia. discriminate.
  - destruct (_ <? _); [discriminate|]. destruct (_ =? _); discriminate.
  - destruct (_ <? _); [discriminate|]. destruct (_ =? _); discriminate.
  - apply av_bind_np; [apply av_dec_u32_np|]. discriminate.
Qed.

(* C03 for the typed decoders: whatever bytes an attribute carries, no decoder reaches a panic site.
   `len v < 65536` holds of every value a TLV can carry (its length field is a u16); it is needed because
   PasswordAlgorithm::decode adds 4 to the parameter length in u16 arithmetic. *)
Theorem dec_attr_no_panic : forall ud hdr ty v, len v < 65536 -> av_dec_attr ud hdr ty v <> VPanic.
Proof.
  intros ud hdr ty v Hl. unfold av_dec_attr.
  destruct (av_registry ty); [apply av_dec_kind_no_panic; exact Hl|discriminate].
Qed.
Print Assumptions dec_attr_no_panic.

(* the hypothesis cannot be dropped: a (hypothetical) 65540-byte PASSWORD-ALGORITHM value reaches the u16 overflow *)
Example dec_alg_overflow_witness :
  av_dec_alg ([0; 1; 255; 252] ++ zeros 65532) = VPanic.
Proof. vm_compute. reflexivity. Qed.

(* ------------------------------------------------------------------------------------ (b) encoders *)
Lemma len_be_n k n : len (av_be_n k n) = N.of_nat k.
Proof.
  revert n; induction k as [|k IH]; intros n; cbn [av_be_n]; [reflexivity|].
  rewrite len_app, IH, len_cons, len_nil. lia.
Qed.
Lemma len_be16 n : len (av_be16 n) = 2. Proof. apply len_be_n. Qed.
Lemma len_be32 n : len (av_be32 n) = 4. Proof. apply len_be_n. Qed.
Lemma len_be64 n : len (av_be64 n) = 8. Proof. apply len_be_n. Qed.

Lemma av_enc_error_code_np code reason room :
  300 <= code -> code < 700 -> av_enc_error_code code reason room <> VPanic.
Proof.
  intros H1 H2. unfold av_enc_error_code.
  destruct (_ <? _); [discriminate|]. destruct (_ <? _); [discriminate|].
  destruct (N.ltb_spec 255 (code mod 100)); [lia|].
  destruct (N.ltb_spec code (code mod 100)); [lia|].
  destruct (N.ltb_spec 255 ((code - code mod 100) / 100)); [lia|]. discriminate.
Qed.

Lemma av_enc_alg_np alg p room : av_enc_alg alg p room <> VPanic.
Proof. unfold av_enc_alg. destruct (_ <? _); [discriminate|]. destruct (_ <? _); discriminate. Qed.
Lemma av_enc_alg_len alg p room e : av_enc_alg alg p room = VOk e ->
  len e = 4 + match p with Some b => len b | None => 0 end /\ len e <= room.
Proof.
  unfold av_enc_alg. cbv zeta.
  destruct (N.ltb_spec room (4 + match p with Some b => len b | None => 0 end)); [discriminate|].
  destruct (_ <? _); [discriminate|]. intros E. injection E as <-.
  rewrite !len_cons. destruct p; rewrite ?len_nil; lia.
Qed.

Lemma av_enc_algs_np : forall l room out, av_enc_algs l room out <> VPanic.
Proof.
  induction l as [|[alg p] rest IH]; intros room out; cbn [av_enc_algs]; [discriminate|].
  destruct (N.ltb_spec room (len out)); [discriminate|].
  apply av_bind_np; [apply av_enc_alg_np|].
  intros e E. apply av_enc_alg_len in E as [_ E].
  destruct rest as [|x rest]; [discriminate|]. cbv zeta.
  rewrite len_app. destruct (N.ltb_spec room (len out + len e)); [lia|].
  destruct (_ <? _); [discriminate|]. apply IH.
Qed.

Lemma av_enc_kind_no_panic k hdr a room : av_inv a = true -> av_enc_kind k hdr a room <> VPanic.
Proof.
  intros Hi.
  destruct k; destruct a; cbn [av_enc_kind]; try discriminate;
    repeat match goal with
    | |- (if ?c then _ else _) <> VPanic => destruct c
    end; try discriminate.
  - (* XorAddr *) apply av_bind_np; [apply av_dec_header_np|]. intros txid _. cbn [av_xor_addr].
    repeat match goal with |- (if ?c then _ else _) <> VPanic => destruct c end; discriminate.
  - unfold av_enc_bytes. destruct (_ <? _); discriminate.
  - unfold av_enc_bytes. destruct (_ <? _); discriminate.
  - unfold av_enc_bytes. destruct (_ <? _); discriminate.
  - (* Err *) cbn [av_inv] in Hi. apply andb_prop in Hi as [H1 H2].
    apply av_enc_error_code_np; [apply N.leb_le; exact H1|apply N.ltb_lt; exact H2].
  - (* AErr *) cbn [av_inv] in Hi. apply andb_prop in Hi as [H1 H2].
    apply av_bind_np; [apply av_enc_error_code_np; [apply N.leb_le; exact H1|apply N.ltb_lt; exact H2]|].
    intros e _. destruct (N.ltb_spec room 1); [discriminate|]. destruct (negb _); discriminate.
  - apply av_enc_alg_np.
  - apply av_enc_algs_np.
  - unfold av_enc_bytes. destruct (_ <? _); discriminate.
  - unfold av_enc_bytes. destruct (_ <? _); discriminate.
Qed.

(* no value encoder reaches a panic site; `av_inv` = what the Rust types guarantee (ErrorCode holds 300..699) *)
Theorem enc_attr_no_panic : forall hdr ty a room, av_inv a = true -> av_enc_attr hdr ty a room <> VPanic.
Proof.
  intros hdr ty a room Hi. unfold av_enc_attr.
  destruct (av_registry ty); [apply av_enc_kind_no_panic; exact Hi|discriminate].
Qed.
Print Assumptions enc_attr_no_panic.
(* without the invariant the `unwrap()` of ErrorCode::class is reachable *)
Example enc_error_code_class_witness : av_enc_error_code 30000 [] 4 = VPanic.
Proof. vm_compute. reflexivity. Qed.
