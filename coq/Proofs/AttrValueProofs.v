(* Proofs about the model of the typed attribute value codecs (Codec/AttrValue.v):
   (a) the decoders never reach a panic site (for every raw value a TLV can carry: fewer than 2^16 bytes);
   (b) the encoders never reach a panic site (for every value that satisfies the invariants of the Rust types);
   (c) per family: under the documented limits, encode succeeds and decode returns the same value. *)
From Coq Require Import List NArith ZArith Lia Bool Arith ZifyBool ZifyN.
Import ListNotations.
From Rustun Require Import Base.Tlv Codec.AttrValue.
Open Scope N_scope.
Ltac Zify.zify_post_hook ::= Z.div_mod_to_equations.

(* ------------------------------------------------------------------------------------ len / take / drop *)
Lemma len_nil : len [] = 0. Proof. reflexivity. Qed.
Lemma len_cons x l : len (x :: l) = len l + 1.
Proof. unfold len. cbn [length]. lia. Qed.
Lemma len_take j b : j <= len b -> len (take j b) = j.
Proof. unfold len, take. intros H. rewrite firstn_length_le by lia. lia. Qed.
Lemma len_take_le j b : len (take j b) <= len b.
Proof. unfold len, take. rewrite firstn_length. lia. Qed.
Lemma len_drop i b : len (drop i b) = len b - i.
Proof. unfold len, drop. rewrite skipn_length. lia. Qed.
Lemma take_all b : take (len b) b = b.
Proof. unfold take, len. rewrite Nat2N.id. apply firstn_all. Qed.
Lemma drop_0 b : drop 0 b = b.
Proof. reflexivity. Qed.
Lemma len_0_nil b : len b = 0 -> b = [].
Proof. destruct b; [reflexivity|]. rewrite len_cons. lia. Qed.
Lemma drop_cons_lt i b : i < len b -> exists x r, drop i b = x :: r.
Proof.
  intros H. destruct (drop i b) as [|x r] eqn:E; [|eauto].
  pose proof (len_drop i b) as L. rewrite E, len_nil in L. lia.
Qed.

(* ------------------------------------------------------------------------------------ the panic sites *)
Lemma av_bind_np {A B} (r:vres A) (f:A -> vres B) :
  r <> VPanic -> (forall a, r = VOk a -> f a <> VPanic) -> av_bind r f <> VPanic.
Proof. intros Hr Hf. destruct r; cbn [av_bind]; try discriminate; [apply Hf; reflexivity|congruence]. Qed.

Lemma av_to_ok b j : j <= len b -> av_to b j = VOk (take j b).
Proof. intros H. unfold av_to. destruct (N.ltb_spec (len b) j); [lia|reflexivity]. Qed.
Lemma av_from_ok b i : i <= len b -> av_from b i = VOk (drop i b).
Proof. intros H. unfold av_from. destruct (N.ltb_spec (len b) i); [lia|reflexivity]. Qed.
Lemma av_slice_ok b i j : i <= j -> j <= len b -> av_slice b i j = VOk (take (j - i) (drop i b)).
Proof.
  intros H1 H2. unfold av_slice.
  destruct (N.ltb_spec j i); [lia|]. destruct (N.ltb_spec (len b) j); [lia|reflexivity].
Qed.
Lemma len_slice b i j : i <= j -> j <= len b -> len (take (j - i) (drop i b)) = j - i.
Proof. intros. apply len_take. rewrite len_drop. lia. Qed.
Lemma av_at_ok b i : i < len b -> exists x, av_at b i = VOk x.
Proof. intros H. unfold av_at. destruct (drop_cons_lt i b H) as (x & r & ->). eauto. Qed.
Lemma av_rd16_ok b : 2 <= len b -> exists n, av_rd16 b = VOk n.
Proof.
  intros H. destruct b as [|x [|y r]]; rewrite ?len_cons, ?len_nil in H; try lia. cbn [av_rd16]. eauto.
Qed.
Lemma av_rd32_ok b : 4 <= len b -> av_rd32 b = VOk (av_rd_n 0 (take 4 b)).
Proof. intros H. unfold av_rd32. destruct (N.ltb_spec (len b) 4); [lia|reflexivity]. Qed.
Lemma av_rd64_ok b : 8 <= len b -> av_rd64 b = VOk (av_rd_n 0 (take 8 b)).
Proof. intros H. unfold av_rd64. destruct (N.ltb_spec (len b) 8); [lia|reflexivity]. Qed.

(* ------------------------------------------------------------------------------------ (a) simple decoders *)
Lemma av_dec_u16_np v : av_dec_u16 v <> VPanic.
Proof.
  unfold av_dec_u16. destruct (N.ltb_spec (len v) 2); [discriminate|].
  rewrite av_to_ok by lia. cbn [av_bind].
  destruct (av_rd16_ok (take 2 v)) as (n & ->); [rewrite len_take; lia|discriminate].
Qed.
Lemma av_dec_u32_np v : av_dec_u32 v <> VPanic.
Proof.
  unfold av_dec_u32. destruct (N.ltb_spec (len v) 4); [discriminate|].
  rewrite av_to_ok by lia. cbn [av_bind]. rewrite av_rd32_ok; [discriminate|rewrite len_take; lia].
Qed.
Lemma av_dec_u64_np v : av_dec_u64 v <> VPanic.
Proof.
  unfold av_dec_u64. destruct (N.ltb_spec (len v) 8); [discriminate|].
  rewrite av_to_ok by lia. cbn [av_bind]. rewrite av_rd64_ok; [discriminate|rewrite len_take; lia].
Qed.

Lemma av_dec_sockaddr_np b : av_dec_sockaddr b <> VPanic.
Proof.
  unfold av_dec_sockaddr. destruct (N.ltb_spec (len b) 4); [discriminate|].
  destruct (av_at_ok b 1) as (fam & ->); [lia|]. cbn [av_bind].
  rewrite av_slice_ok by lia. cbn [av_bind].
  destruct (av_rd16_ok (take (4 - 2) (drop 2 b))) as (port & ->); [rewrite len_slice; lia|]. cbn [av_bind].
  destruct (fam =? 1).
  - destruct (N.ltb_spec (len b) 8); [discriminate|]. rewrite av_slice_ok by lia. discriminate.
  - destruct (fam =? 2); [|discriminate].
    destruct (N.ltb_spec (len b) 20); [discriminate|]. rewrite av_slice_ok by lia. discriminate.
Qed.

Lemma av_dec_header_np m : av_dec_header m <> VPanic.
Proof.
  unfold av_dec_header. destruct (N.ltb_spec (len m) 20); [discriminate|].
  rewrite av_to_ok by lia. cbn [av_bind].
  destruct (av_rd16_ok (take 2 m)) as (t & ->); [rewrite len_take; lia|]. cbn [av_bind].
  destruct (negb (t / 16384 =? 0)); [discriminate|].
  rewrite av_slice_ok by lia. cbn [av_bind].
  destruct (av_rd16_ok (take (4 - 2) (drop 2 m))) as (l & ->); [rewrite len_slice; lia|]. cbn [av_bind].
  rewrite av_slice_ok by lia. cbn [av_bind].
  destruct (negb _); [discriminate|]. rewrite av_slice_ok by lia. discriminate.
Qed.

Lemma av_dec_error_code_np raw : av_dec_error_code raw <> VPanic.
Proof.
  unfold av_dec_error_code. destruct (N.ltb_spec (len raw) 4); [discriminate|].
  destruct (av_at_ok raw 2) as (b2 & ->); [lia|]. cbn [av_bind].
  destruct (_ || _); [discriminate|].
  destruct (av_at_ok raw 3) as (b3 & ->); [lia|]. cbn [av_bind].
  destruct (99 <? b3); [discriminate|].
  rewrite av_from_ok by lia. cbn [av_bind].
  destruct (negb _); [discriminate|]. destruct (763 <? _); [discriminate|].
  destruct (_ || _); discriminate.
Qed.

Lemma av_dec_family_np raw : av_dec_family raw <> VPanic.
Proof.
  unfold av_dec_family. destruct (N.ltb_spec (len raw) 1); [discriminate|].
  destruct (av_at_ok raw 0) as (f & ->); [lia|]. cbn [av_bind]. destruct (_ || _); discriminate.
Qed.

(* PASSWORD-ALGORITHM: the u16 addition `param_length + 4` cannot overflow behind the size check when the value
   is one a TLV can carry *)
Lemma av_dec_alg_np raw : len raw < 65536 -> av_dec_alg raw <> VPanic.
Proof.
  intros Hl. unfold av_dec_alg. destruct (N.ltb_spec (len raw) 4); [discriminate|].
  rewrite av_to_ok by lia. cbn [av_bind].
  destruct (av_rd16_ok (take 2 raw)) as (alg & ->); [rewrite len_take; lia|]. cbn [av_bind].
  rewrite av_slice_ok by lia. cbn [av_bind].
  destruct (av_rd16_ok (take (4 - 2) (drop 2 raw))) as (plen & ->); [rewrite len_slice; lia|]. cbn [av_bind].
  destruct (N.ltb_spec (len raw) (4 + plen)); [discriminate|].
  destruct (N.ltb_spec 65535 (plen + 4)); [lia|].
  rewrite av_slice_ok by lia. discriminate.
Qed.
Lemma av_dec_alg_size raw a p l : av_dec_alg raw = VOk (a, p, l) -> 4 <= l /\ l <= len raw.
Proof.
  unfold av_dec_alg. destruct (N.ltb_spec (len raw) 4); [discriminate|].
  rewrite av_to_ok by lia. cbn [av_bind].
  destruct (av_rd16_ok (take 2 raw)) as (alg & ->); [rewrite len_take; lia|]. cbn [av_bind].
  rewrite av_slice_ok by lia. cbn [av_bind].
  destruct (av_rd16_ok (take (4 - 2) (drop 2 raw))) as (plen & ->); [rewrite len_slice; lia|]. cbn [av_bind].
  destruct (N.ltb_spec (len raw) (4 + plen)); [discriminate|].
  destruct (N.ltb_spec 65535 (plen + 4)); [discriminate|].
  destruct (av_slice raw 4 (plen + 4)); cbn [av_bind]; try discriminate.
  intros E. injection E as _ _ <-. lia.
Qed.

Lemma av_dec_algs_np : forall fuel rest size acc,
  (length rest <= fuel)%nat -> len rest < 65536 -> av_dec_algs fuel rest size acc <> VPanic.
Proof.
  induction fuel as [|f IH]; intros rest size acc Hf Hl.
  - destruct rest; [cbn; discriminate|cbn in Hf; lia].
  - destruct rest as [|x rest0]; [cbn; discriminate|].
    set (rest := x :: rest0) in *. cbn [av_dec_algs]. fold rest.
    destruct (N.ltb_spec (len rest) (pad size)); [discriminate|].
    rewrite av_from_ok by lia. cbn [av_bind].
    assert (Hs : len (drop (pad size) rest) < 65536) by (rewrite len_drop; lia).
    apply av_bind_np; [apply av_dec_alg_np; exact Hs|].
    intros [[a p] l] E. apply av_dec_alg_size in E as [E1 E2].
    rewrite av_from_ok by lia. cbn [av_bind].
    apply IH.
    + assert (L : len (drop l (drop (pad size) rest)) < len rest) by (rewrite !len_drop in *; lia).
      unfold len in L. subst rest. cbn [length] in *. lia.
    + rewrite !len_drop in *. lia.
Qed.

Lemma av_dec_uattrs_np : forall n l acc, length l = (2 * n)%nat -> av_dec_uattrs l acc <> VPanic.
Proof.
  induction n as [|n IH]; intros l acc H.
  - destruct l; [cbn; discriminate|cbn in H; lia].
  - destruct l as [|a [|b r]]; cbn [length] in H; try lia.
    cbn [av_dec_uattrs]. apply IH. lia.
Qed.
Lemma land1_even l : N.land (len l) 1 = 0 -> exists n, length l = (2 * n)%nat.
Proof.
  intros H. change 1 with (N.ones 1) in H. rewrite N.land_ones in H. change (2 ^ 1) with 2 in H.
  unfold len in H. exists (length l / 2)%nat.
  assert (E : (length l mod 2 = 0)%nat).
  { assert (N.of_nat (length l mod 2) = 0) by (rewrite Nat2N.inj_mod; exact H). lia. }
  pose proof (Nat.div_mod (length l) 2 ltac:(lia)). lia.
Qed.

(* ------------------------------------------------------------------------------------ UTF-8 structure *)
Lemma av_utf8_cons_eq b0 r0 : av_utf8 (b0 :: r0) =
    if b0 <? 0x80 then av_cons_opt b0 (av_utf8 r0)
    else if b0 <? 0xC2 then None
    else if b0 <? 0xE0 then
      match r0 with
      | b1 :: r1 =>
          if av_cont b1 then av_cons_opt ((b0 - 0xC0) * 64 + (b1 - 0x80)) (av_utf8 r1) else None
      | _ => None
      end
    else if b0 <? 0xF0 then
      match r0 with
      | b1 :: b2 :: r2 =>
          if (av_lo3 b0 <=? b1) && (b1 <=? av_hi3 b0) && av_cont b2
          then av_cons_opt (((b0 - 0xE0) * 64 + (b1 - 0x80)) * 64 + (b2 - 0x80)) (av_utf8 r2) else None
      | _ => None
      end
    else if b0 <? 0xF5 then
      match r0 with
      | b1 :: b2 :: b3 :: r3 =>
          if (av_lo4 b0 <=? b1) && (b1 <=? av_hi4 b0) && av_cont b2 && av_cont b3
          then av_cons_opt ((((b0 - 0xF0) * 64 + (b1 - 0x80)) * 64 + (b2 - 0x80)) * 64 + (b3 - 0x80)) (av_utf8 r3)
          else None
      | _ => None
      end
    else None.
Proof. reflexivity. Qed.

Lemma av_cons_opt_some c o l : av_cons_opt c o = Some l -> exists cs, o = Some cs /\ l = c :: cs.
Proof. destruct o; cbn; [intros E; injection E as <-; eauto|discriminate]. Qed.

(* one character: the first code point, the bytes it took (`h`, not empty) and the rest *)
Lemma av_utf8_cons_inv b0 r cps : av_utf8 (b0 :: r) = Some cps ->
  exists c cs h t, cps = c :: cs /\ av_utf8 t = Some cs /\ b0 :: r = h ++ t /\ 1 <= len h /\
     ((b0 < 0x80 /\ c = b0 /\ t = r) \/ (0x80 <= b0 /\ 0x80 <= c)).
Proof.
  rewrite av_utf8_cons_eq.
  destruct (N.ltb_spec b0 0x80) as [H0|H0].
  { intros E. apply av_cons_opt_some in E as (cs & E1 & ->).
    exists b0, cs, [b0], r. rewrite len_cons, len_nil. repeat split; auto; try lia. }
  destruct (N.ltb_spec b0 0xC2) as [H1|H1]; [discriminate|].
  destruct (N.ltb_spec b0 0xE0) as [H2|H2].
  { destruct r as [|b1 r1]; [discriminate|]. destruct (av_cont b1); [|discriminate].
    intros E. apply av_cons_opt_some in E as (cs & E1 & ->).
    exists ((b0 - 0xC0) * 64 + (b1 - 0x80)), cs, [b0; b1], r1. rewrite !len_cons, len_nil.
    repeat split; auto; try lia. }
  destruct (N.ltb_spec b0 0xF0) as [H3|H3].
  { destruct r as [|b1 [|b2 r2]]; try discriminate.
    destruct (_ && _) eqn:C; [|discriminate].
    intros E. apply av_cons_opt_some in E as (cs & E1 & ->).
    apply andb_prop in C as [C _]. apply andb_prop in C as [C _]. apply N.leb_le in C.
    exists (((b0 - 0xE0) * 64 + (b1 - 0x80)) * 64 + (b2 - 0x80)), cs, [b0; b1; b2], r2. rewrite !len_cons, len_nil.
    repeat split; auto; try lia. right.
    unfold av_lo3 in C. destruct (N.eqb_spec b0 0xE0); lia. }
  destruct (N.ltb_spec b0 0xF5) as [H4|H4]; [|discriminate].
  destruct r as [|b1 [|b2 [|b3 r3]]]; try discriminate.
  destruct (_ && _) eqn:C; [|discriminate].
  intros E. apply av_cons_opt_some in E as (cs & E1 & ->).
  exists ((((b0 - 0xF0) * 64 + (b1 - 0x80)) * 64 + (b2 - 0x80)) * 64 + (b3 - 0x80)), cs, [b0; b1; b2; b3], r3.
  apply andb_prop in C as [C _]. apply andb_prop in C as [C _]. apply andb_prop in C as [C _]. apply N.leb_le in C.
  rewrite !len_cons, len_nil. repeat split; auto; try lia. right.
  unfold av_lo4 in C. destruct (N.eqb_spec b0 0xF0); lia.
Qed.

(* a str starts at a character boundary *)
Definition lead_ok (r:bytes) : bool := match r with [] => true | b :: _ => (b <? 0x80) || (0xC0 <=? b) end.
Lemma utf8_lead_ok r : av_utf8 r <> None -> lead_ok r = true.
Proof.
  destruct r as [|b0 r]; [reflexivity|]. intros H. cbn [lead_ok].
  rewrite av_utf8_cons_eq in H.
  destruct (N.ltb_spec b0 0x80); [reflexivity|]. cbn [orb].
  destruct (N.ltb_spec b0 0xC2); [congruence|]. apply N.leb_le. lia.
Qed.
Lemma boundary_char s k : k <= len s -> lead_ok (drop k s) = true -> av_is_boundary s k = true.
Proof.
  intros Hk Hl. unfold av_is_boundary.
  destruct (N.eqb_spec k 0); [reflexivity|].
  destruct (N.ltb_spec (len s) k); [lia|].
  destruct (N.eqb_spec k (len s)); [reflexivity|].
  destruct (drop_cons_lt k s) as (x & r & E); [lia|]. rewrite E in *. exact Hl.
Qed.

Lemma drop_succ_cons k x r : drop (k + 1) (x :: r) = drop k r.
Proof. unfold drop. replace (N.to_nat (k + 1)) with (S (N.to_nat k)) by lia. reflexivity. Qed.
Lemma drop_len_app a b : drop (len a) (a ++ b) = b.
Proof. apply drop_app_exact. Qed.

Lemma removable_ascii c : av_removable c = true -> c < 0x80.
Proof.
  unfold av_removable. rewrite !orb_true_iff, !N.eqb_eq. lia.
Qed.

(* strings.rs skip_starting_characteres: the index it returns is a byte offset on a character boundary *)
Lemma skip_start_bytes : forall s cps idx p,
  av_utf8 s = Some cps -> av_skip_start idx cps = Some p ->
  idx <= p /\ p - idx <= len s /\ av_utf8 (drop (p - idx) s) <> None.
Proof.
  induction s as [|b0 r IH]; intros cps idx p Hu Hs.
  - cbn in Hu. injection Hu as <-. discriminate.
  - destruct (av_utf8_cons_inv _ _ _ Hu) as (c & cs & h & t & -> & Ht & Eh & Hh & Hc).
    cbn [av_skip_start] in Hs. destruct (av_removable c) eqn:R.
    + apply removable_ascii in R. destruct Hc as [(Hb & -> & ->)|(Hb & Hc)]; [|lia].
      destruct (IH _ _ _ Ht Hs) as (I1 & I2 & I3).
      rewrite len_cons. replace (p - idx) with (p - (idx + 1) + 1) by lia.
      rewrite drop_succ_cons. repeat split; try lia. exact I3.
    + injection Hs as <-. replace (idx - idx) with 0 by lia. rewrite drop_0.
      repeat split; try lia. congruence.
Qed.

Lemma skip_start_prefix : forall l idx p, av_skip_start idx l = Some p ->
  exists pre post, l = pre ++ post /\ idx <= p /\ len pre = p - idx /\ Forall (fun c => c < 0x80) pre.
Proof.
  induction l as [|c l IH]; intros idx p H; [discriminate|].
  cbn [av_skip_start] in H. destruct (av_removable c) eqn:R.
  - destruct (IH _ _ H) as (pre & post & -> & I1 & I2 & I3).
    exists (c :: pre), post. rewrite len_cons. repeat split; try lia.
    constructor; [apply removable_ascii; exact R|exact I3].
  - injection H as <-. exists [], (c :: l). rewrite len_nil. repeat split; try lia. constructor.
Qed.

Lemma utf8_suffix : forall c1 s c2, av_utf8 s = Some (c1 ++ c2) ->
  exists a b, s = a ++ b /\ av_utf8 b = Some c2.
Proof.
  induction c1 as [|c c1 IH]; intros s c2 H.
  - exists [], s. split; [reflexivity|exact H].
  - destruct s as [|b0 r]; [discriminate|].
    destruct (av_utf8_cons_inv _ _ _ H) as (c' & cs & h & t & E & Ht & Eh & _ & _).
    cbn [app] in E. injection E as <- <-.
    destruct (IH _ _ Ht) as (a & b & -> & Hb).
    exists (h ++ a), b. rewrite <- app_assoc. split; [exact Eh|exact Hb].
Qed.

Lemma utf8_ascii : forall b cs, av_utf8 b = Some cs -> Forall (fun c => c < 0x80) cs -> b = cs.
Proof.
  induction b as [|b0 r IH]; intros cs H F.
  - cbn in H. injection H as <-. reflexivity.
  - destruct (av_utf8_cons_inv _ _ _ H) as (c & cs' & h & t & -> & Ht & _ & _ & Hc).
    inversion F as [|? ? F1 F2]; subst.
    destruct Hc as [(_ & -> & ->)|(_ & Hc)]; [|lia].
    f_equal. apply IH; assumption.
Qed.

Lemma len_rev (l:bytes) : len (rev l) = len l.
Proof. unfold len. rewrite rev_length. reflexivity. Qed.

(* the repaired skip_trailing_characteres (D8): the scan over the reversed characters *)
Lemma skip_trail_rev_eq cps : av_skip_trail cps = av_skip_trail_rev 0 (rev cps).
Proof. unfold av_skip_trail. rewrite rev_append_rev, app_nil_r. reflexivity. Qed.
Lemma skip_trail_rev_prefix : forall l idx p, av_skip_trail_rev idx l = Some p ->
  exists pre post, l = pre ++ post /\ idx <= p /\ len pre = p - idx /\ Forall (fun c => c < 0x80) pre.
Proof.
  induction l as [|c l IH]; intros idx p H; [discriminate|].
  cbn [av_skip_trail_rev] in H. destruct (av_removable c) eqn:R; cbn [negb orb] in H.
  - destruct (av_bs_odd l).
    + injection H as <-. exists [], (c :: l). rewrite len_nil. repeat split; try lia. constructor.
    + destruct (IH _ _ H) as (pre & post & -> & I1 & I2 & I3).
      exists (c :: pre), post. rewrite len_cons. repeat split; try lia.
      constructor; [apply removable_ascii; exact R|exact I3].
  - injection H as <-. exists [], (c :: l). rewrite len_nil. repeat split; try lia. constructor.
Qed.
(* a text whose last character is not removable, or is escaped, is left alone *)
Lemma skip_trail_stop cps : av_trail_stop (rev cps) = true -> av_skip_trail cps = Some 0.
Proof.
  rewrite skip_trail_rev_eq. destruct (rev cps) as [|c r]; [discriminate|].
  cbn [av_trail_stop av_skip_trail_rev]. intros ->. reflexivity.
Qed.

(* strings.rs skip_trailing_characteres: `s.len() - pos` does not underflow and is a character boundary *)
Lemma skip_trail_bytes s cps p :
  av_utf8 s = Some cps -> av_skip_trail cps = Some p ->
  p <= len s /\ av_is_boundary s (len s - p) = true.
Proof.
  intros Hu Hs. rewrite skip_trail_rev_eq in Hs.
  destruct (skip_trail_rev_prefix _ _ _ Hs) as (pre & post & E & _ & Hl & Hf).
  assert (Ec : cps = rev post ++ rev pre).
  { rewrite <- rev_app_distr, <- E, rev_involutive. reflexivity. }
  rewrite Ec in Hu. destruct (utf8_suffix _ _ _ Hu) as (a & b & -> & Hb).
  apply utf8_ascii in Hb; [|apply Forall_rev; exact Hf].
  assert (Lb : len b = p) by (rewrite Hb, len_rev; lia).
  rewrite len_app. split; [lia|].
  replace (len a + len b - p) with (len a) by lia.
  apply boundary_char; [rewrite len_app; lia|].
  rewrite drop_len_app. rewrite Hb. destruct (rev pre) as [|x r] eqn:Er; [reflexivity|].
  cbn [lead_ok]. assert (Hx : x < 0x80).
  { assert (F : Forall (fun c => c < 0x80) (rev pre)) by (apply Forall_rev; exact Hf).
    rewrite Er in F. inversion F; assumption. }
  destruct (N.ltb_spec x 0x80); [reflexivity|lia].
Qed.

Lemma av_chars_some s cps : av_utf8 s = Some cps -> av_chars s = cps.
Proof. unfold av_chars. intros ->. reflexivity. Qed.

Lemma av_formatted_np s cps : av_utf8 s = Some cps -> av_formatted s cps <> VPanic.
Proof.
  intros Hu. unfold av_formatted.
  destruct (_ && _); [discriminate|].
  destruct (av_skip_start 0 cps) as [pos|] eqn:Es.
  - destruct (skip_start_bytes _ _ _ _ Hu Es) as (_ & H2 & H3).
    rewrite N.sub_0_r in H2, H3.
    unfold av_str_from. rewrite boundary_char; [|exact H2|apply utf8_lead_ok; exact H3].
    cbn [av_bind].
    destruct (av_utf8 (drop pos s)) as [cps1|] eqn:E1; [|congruence].
    rewrite (av_chars_some _ _ E1).
    destruct (av_skip_trail cps1) as [p|] eqn:Et; [|discriminate].
    destruct (skip_trail_bytes _ _ _ E1 Et) as (T1 & T2).
    destruct (N.ltb_spec (len (drop pos s)) p); [lia|].
    unfold av_str_to. rewrite T2. discriminate.
  - unfold av_str_to. cbn. discriminate.
Qed.

Lemma av_dec_quoted_string_np raw : av_dec_quoted_string raw <> VPanic.
Proof.
  unfold av_dec_quoted_string. destruct (av_utf8 raw) as [cps|] eqn:E; [|discriminate].
  apply av_bind_np; [apply av_formatted_np; exact E|].
  intros q _. destruct (av_bytes_eqb q raw); discriminate.
Qed.

Lemma av_precis_np s : av_precis s <> VPanic.
Proof. unfold av_precis. destruct s; [discriminate|]. destruct (existsb _ _); [discriminate|]. destruct (existsb _ _); discriminate. Qed.

(* ------------------------------------------------------------------------------------ (a) main theorem *)
Lemma av_dec_kind_no_panic k hdr v : len v < 65536 -> av_dec_kind k hdr v <> VPanic.
Proof.
  intros Hl. destruct k; cbn [av_dec_kind].
  - (* Addr *) apply av_bind_np; [apply av_dec_sockaddr_np|]. intros [[v6 port] ip] _. discriminate.
  - (* XorAddr *) apply av_bind_np; [apply av_dec_header_np|]. intros txid _.
    apply av_bind_np; [apply av_dec_sockaddr_np|]. intros [[v6 port] ip] _. cbn. discriminate.
  - apply av_bind_np; [apply av_dec_u16_np|]. discriminate.
  - apply av_bind_np; [apply av_dec_u32_np|]. discriminate.
  - apply av_bind_np; [apply av_dec_u64_np|]. discriminate.
  - discriminate.
  - destruct (_ <? _); [discriminate|]. destruct (av_utf8_ok v); discriminate.
  - destruct (_ <? _); [discriminate|]. apply av_bind_np; [apply av_dec_quoted_string_np|]. discriminate.
  - destruct (negb _); [discriminate|]. destruct (_ <? _); [discriminate|].
    apply av_bind_np; [apply av_precis_np|]. discriminate.
  - apply av_bind_np; [apply av_dec_error_code_np|]. discriminate.
  - apply av_bind_np; [apply av_dec_family_np|]. intros f _.
    apply av_bind_np; [apply av_dec_error_code_np|]. discriminate.
  - apply av_bind_np; [apply av_dec_alg_np; exact Hl|]. intros [[a p] l] _. discriminate.
  - apply av_bind_np; [apply av_dec_algs_np; [lia|exact Hl]|]. discriminate.
  - destruct (negb _) eqn:E; [discriminate|].
    apply negb_false_iff, N.eqb_eq, land1_even in E as (n & E).
    apply av_bind_np; [apply (av_dec_uattrs_np n); exact E|]. discriminate.
  - destruct (_ =? _); discriminate.
  - destruct (N.ltb_spec (len v) 8); [discriminate|]. rewrite av_to_ok by lia. discriminate.
  - discriminate.
  - (* Chan *) apply av_bind_np; [apply av_dec_u16_np|]. intros number E.
    unfold av_dec_u16 in E. destruct (N.ltb_spec (len v) 2); [discriminate|].
    rewrite av_from_ok by lia. cbn [av_bind].
    apply av_bind_np; [apply av_dec_u16_np|]. discriminate.
  - destruct (N.ltb_spec (len v) 1); [discriminate|].
    destruct (av_at_ok v 0) as (b & ->); [lia|]. discriminate.
  - destruct (N.ltb_spec (len v) 4); [discriminate|]. destruct (N.ltb_spec (len v) 1); [discriminate|].
    destruct (av_at_ok v 0) as (b & ->); [lia|]. discriminate.
  - destruct (_ <? _); [discriminate|]. apply av_bind_np; [apply av_dec_family_np|]. discriminate.
  - (* Icmp *) destruct (N.ltb_spec (len v) 8); [discriminate|].
    rewrite av_slice_ok by lia. cbn [av_bind].
    apply av_bind_np; [apply av_dec_u16_np|]. intros icmp _.
    destruct (_ <? _); [discriminate|]. destruct (_ <? _); [discriminate|]. destruct (_ <? _); [discriminate|].
    rewrite av_slice_ok by lia. discriminate.
  - destruct (_ <? _); [discriminate|]. destruct (_ =? _); discriminate.
  - destruct (_ <? _); [discriminate|]. destruct (_ =? _); discriminate.
  - apply av_bind_np; [apply av_dec_u32_np|]. discriminate.
Qed.

(* C03 for the typed decoders: whatever bytes an attribute carries, no decoder reaches a panic site.
   `len v < 65536` holds of every value a TLV can carry (its length field is a u16); it is needed because
   PasswordAlgorithm::decode adds 4 to the parameter length in u16 arithmetic. *)
Theorem dec_attr_no_panic : forall ud hdr ty v, len v < 65536 -> av_dec_attr ud hdr ty v <> VPanic.
Proof.
  intros ud hdr ty v Hl. unfold av_dec_attr.
  destruct (av_registry ty); [apply av_dec_kind_no_panic; exact Hl|discriminate].
Qed.
Print Assumptions dec_attr_no_panic.

(* the hypothesis cannot be dropped: a (hypothetical) 65540-byte PASSWORD-ALGORITHM value reaches the u16 overflow *)
Example dec_alg_overflow_witness :
  av_dec_alg ([0; 1; 255; 252] ++ zeros 65532) = VPanic.
Proof. vm_compute. reflexivity. Qed.

(* ------------------------------------------------------------------------------------ (b) encoders *)
Lemma len_be_n k n : len (av_be_n k n) = N.of_nat k.
Proof.
  revert n; induction k as [|k IH]; intros n; cbn [av_be_n]; [reflexivity|].
  rewrite len_app, IH, len_cons, len_nil. lia.
Qed.
Lemma len_be16 n : len (av_be16 n) = 2. Proof. apply len_be_n. Qed.
Lemma len_be32 n : len (av_be32 n) = 4. Proof. apply len_be_n. Qed.
Lemma len_be64 n : len (av_be64 n) = 8. Proof. apply len_be_n. Qed.

Lemma av_enc_error_code_np code reason room :
  300 <= code -> code < 700 -> av_enc_error_code code reason room <> VPanic.
Proof.
  intros H1 H2. unfold av_enc_error_code.
  destruct (_ <? _); [discriminate|]. destruct (_ <? _); [discriminate|].
  destruct (N.ltb_spec 255 (code mod 100)); [lia|].
  destruct (N.ltb_spec code (code mod 100)); [lia|].
  destruct (N.ltb_spec 255 ((code - code mod 100) / 100)); [lia|]. discriminate.
Qed.

Lemma av_enc_alg_np alg p room : av_enc_alg alg p room <> VPanic.
Proof. unfold av_enc_alg. destruct (_ <? _); [discriminate|]. destruct (_ <? _); discriminate. Qed.
Lemma av_enc_alg_len alg p room e : av_enc_alg alg p room = VOk e ->
  len e = 4 + match p with Some b => len b | None => 0 end /\ len e <= room.
Proof.
  unfold av_enc_alg. cbv zeta.
  destruct (N.ltb_spec room (4 + match p with Some b => len b | None => 0 end)); [discriminate|].
  destruct (_ <? _); [discriminate|]. intros E. injection E as <-.
  rewrite !len_cons. destruct p; rewrite ?len_nil; lia.
Qed.

Lemma av_enc_algs_np : forall l room out, av_enc_algs l room out <> VPanic.
Proof.
  induction l as [|[alg p] rest IH]; intros room out; cbn [av_enc_algs]; [discriminate|].
  destruct (N.ltb_spec room (len out)); [discriminate|].
  apply av_bind_np; [apply av_enc_alg_np|].
  intros e E. apply av_enc_alg_len in E as [_ E].
  destruct rest as [|x rest]; [discriminate|]. cbv zeta.
  rewrite len_app. destruct (N.ltb_spec room (len out + len e)); [lia|].
  destruct (_ <? _); [discriminate|]. apply IH.
Qed.

Lemma av_enc_kind_no_panic k hdr a room : av_inv a = true -> av_enc_kind k hdr a room <> VPanic.
Proof.
  intros Hi.
  destruct k; destruct a; cbn [av_enc_kind]; try discriminate;
    repeat match goal with
    | |- (if ?c then _ else _) <> VPanic => destruct c
    end; try discriminate.
  - (* XorAddr *) apply av_bind_np; [apply av_dec_header_np|]. intros txid _. cbn [av_xor_addr].
    repeat match goal with |- (if ?c then _ else _) <> VPanic => destruct c end; discriminate.
  - unfold av_enc_bytes. destruct (_ <? _); discriminate.
  - unfold av_enc_bytes. destruct (_ <? _); discriminate.
  - unfold av_enc_bytes. destruct (_ <? _); discriminate.
  - (* Err *) cbn [av_inv] in Hi. apply andb_prop in Hi as [H1 H2].
    apply av_enc_error_code_np; [apply N.leb_le; exact H1|apply N.ltb_lt; exact H2].
  - (* AErr *) cbn [av_inv] in Hi. apply andb_prop in Hi as [H1 H2].
    apply av_bind_np; [apply av_enc_error_code_np; [apply N.leb_le; exact H1|apply N.ltb_lt; exact H2]|].
    intros e _. destruct (N.ltb_spec room 1); [discriminate|]. destruct (negb _); discriminate.
  - apply av_enc_alg_np.
  - apply av_enc_algs_np.
  - unfold av_enc_bytes. destruct (_ <? _); discriminate.
  - unfold av_enc_bytes. destruct (_ <? _); discriminate.
Qed.

(* no value encoder reaches a panic site; `av_inv` = what the Rust types guarantee (ErrorCode holds 300..699) *)
Theorem enc_attr_no_panic : forall hdr ty a room, av_inv a = true -> av_enc_attr hdr ty a room <> VPanic.
Proof.
  intros hdr ty a room Hi. unfold av_enc_attr.
  destruct (av_registry ty); [apply av_enc_kind_no_panic; exact Hi|discriminate].
Qed.
Print Assumptions enc_attr_no_panic.
(* without the invariant the `unwrap()` of ErrorCode::class is reachable *)
Example enc_error_code_class_witness : av_enc_error_code 30000 [] 4 = VPanic.
Proof. vm_compute. reflexivity. Qed.

(* ------------------------------------------------------------------------------------ (c) round trips *)
(* evaluation helpers: lists with an explicit spine, closed comparisons *)
Ltac is_nat_lit v := lazymatch v with O => idtac | S ?x => is_nat_lit x end.
Ltac to_nat1 :=
  match goal with
  | |- context [N.to_nat ?a] =>
      let v := eval vm_compute in (N.to_nat a) in
      is_nat_lit v; change (N.to_nat a) with v
  end.
Ltac list_eval :=
  unfold take, drop; repeat to_nat1;
  cbn [firstn skipn app av_be16 av_be32 av_be64 av_be_n tl fst snd].
Ltac guard1 :=
  match goal with
  | |- context [N.ltb ?a ?b] =>
      let v := eval vm_compute in (N.ltb a b) in
      match v with true => change (N.ltb a b) with true | false => change (N.ltb a b) with false end
  | |- context [N.leb ?a ?b] =>
      let v := eval vm_compute in (N.leb a b) in
      match v with true => change (N.leb a b) with true | false => change (N.leb a b) with false end
  | |- context [N.eqb ?a ?b] =>
      let v := eval vm_compute in (N.eqb a b) in
      match v with true => change (N.eqb a b) with true | false => change (N.eqb a b) with false end
  end.
Ltac is_pos_lit p := lazymatch p with xH => idtac | xO ?q => is_pos_lit q | xI ?q => is_pos_lit q end.
Ltac is_N_lit v := lazymatch v with N0 => idtac | Npos ?p => is_pos_lit p end.
Ltac nsub1 :=
  match goal with
  | |- context [N.sub ?a ?b] => let v := eval vm_compute in (N.sub a b) in is_N_lit v; change (N.sub a b) with v
  | |- context [N.add ?a ?b] => let v := eval vm_compute in (N.add a b) in is_N_lit v; change (N.add a b) with v
  end.
Ltac guards := repeat nsub1; repeat guard1; cbn [av_bind negb andb orb].
(* decide a comparison that linear arithmetic settles *)
Ltac lia_guard :=
  match goal with
  | |- context [N.ltb ?a ?b] =>
      first [ replace (N.ltb a b) with false by (symmetry; apply N.ltb_ge; lia)
            | replace (N.ltb a b) with true by (symmetry; apply N.ltb_lt; lia) ]
  | |- context [N.leb ?a ?b] =>
      first [ replace (N.leb a b) with true by (symmetry; apply N.leb_le; lia)
            | replace (N.leb a b) with false by (symmetry; apply N.leb_gt; lia) ]
  | |- context [N.eqb ?a ?b] =>
      first [ replace (N.eqb a b) with true by (symmetry; apply N.eqb_eq; lia)
            | replace (N.eqb a b) with false by (symmetry; apply N.eqb_neq; lia) ]
  end.
Ltac lia_guards := repeat lia_guard; cbn [av_bind negb andb orb].

Lemma av_rd_n_app acc a b : av_rd_n acc (a ++ b) = av_rd_n (av_rd_n acc a) b.
Proof. revert acc; induction a as [|x a IH]; intros acc; cbn [app av_rd_n]; [reflexivity|apply IH]. Qed.
Lemma av_rd_be_n : forall k n acc, n < 256 ^ (N.of_nat k) -> av_rd_n acc (av_be_n k n) = acc * 256 ^ (N.of_nat k) + n.
Proof.
  induction k as [|k IH]; intros n acc Hn.
  - cbn. change (256 ^ 0) with 1 in *. lia.
  - cbn [av_be_n]. rewrite av_rd_n_app. cbn [av_rd_n].
    replace (N.of_nat (S k)) with (N.of_nat k + 1) in * by lia. rewrite N.pow_add_r in *. change (256 ^ 1) with 256 in *.
    set (P := 256 ^ N.of_nat k) in *.
    rewrite IH by (apply N.div_lt_upper_bound; lia).
    pose proof (N.div_mod n 256 ltac:(lia)). nia.
Qed.
Lemma take_len_be_n k n : take (N.of_nat k) (av_be_n k n) = av_be_n k n.
Proof. rewrite <- (len_be_n k n) at 1. apply take_all. Qed.

Lemma take_be32 n : take 4 (av_be_n 4 n) = av_be_n 4 n. Proof. exact (take_len_be_n 4 n). Qed.
Lemma take_be64 n : take 8 (av_be_n 8 n) = av_be_n 8 n. Proof. exact (take_len_be_n 8 n). Qed.
Lemma av_rd_be32 n : n < 4294967296 -> av_rd_n 0 (av_be_n 4 n) = n.
Proof. intros H. rewrite av_rd_be_n; [reflexivity|exact H]. Qed.
Lemma av_rd_be64 n : n < 18446744073709551616 -> av_rd_n 0 (av_be_n 8 n) = n.
Proof. intros H. rewrite av_rd_be_n; [reflexivity|exact H]. Qed.
Lemma rd16_be16' n : n < 65536 -> rd16 ((n / 256) mod 256) (n mod 256) = n.
Proof. intros H. unfold rd16. lia. Qed.

(* the statement shape of every family: a value `v` that every large enough buffer receives and that decodes back *)
Definition rt (k:avk) (hdr:bytes) (a:aval) : Prop :=
  exists v, (forall room, len v <= room -> av_enc_kind k hdr a room = VOk v) /\ av_dec_kind k hdr v = VOk a.

Lemma dec_enc_u16 hdr n : n < 65536 -> rt AvkU16 hdr (AvU16 n).
Proof.
  intros H. exists (av_be16 n). split.
  - intros room Hr. rewrite len_be16 in Hr. cbn [av_enc_kind]. lia_guards. reflexivity.
  - cbn [av_dec_kind]. unfold av_dec_u16, av_to. list_eval. rewrite !len_cons, len_nil. guards.
    cbn [av_rd16]. rewrite rd16_be16' by exact H. reflexivity.
Qed.

Lemma dec_enc_u32 hdr n : n < 4294967296 -> rt AvkU32 hdr (AvU32 n).
Proof.
  intros H. exists (av_be32 n). split.
  - intros room Hr. rewrite len_be32 in Hr. cbn [av_enc_kind]. lia_guards. reflexivity.
  - cbn [av_dec_kind]. unfold av_dec_u32. rewrite len_be32. guards.
    rewrite av_to_ok by (rewrite len_be32; lia). cbn [av_bind].
    unfold av_be32. rewrite take_be32. rewrite av_rd32_ok by (rewrite len_be_n; lia). cbn [av_bind].
    rewrite take_be32. rewrite av_rd_be32 by exact H. reflexivity.
Qed.

Lemma dec_enc_u64 hdr n : n < 18446744073709551616 -> rt AvkU64 hdr (AvU64 n).
Proof.
  intros H. exists (av_be64 n). split.
  - intros room Hr. rewrite len_be64 in Hr. cbn [av_enc_kind]. lia_guards. reflexivity.
  - cbn [av_dec_kind]. unfold av_dec_u64. rewrite len_be64. guards.
    rewrite av_to_ok by (rewrite len_be64; lia). cbn [av_bind].
    unfold av_be64. rewrite take_be64. rewrite av_rd64_ok by (rewrite len_be_n; lia). cbn [av_bind].
    rewrite take_be64. rewrite av_rd_be64 by exact H. reflexivity.
Qed.

Lemma dec_enc_empty hdr : rt AvkEmpty hdr AvEmpty.
Proof. exists []. split; [intros; reflexivity|reflexivity]. Qed.

Lemma dec_enc_text hdr me md s :
  me <= md -> av_utf8_ok s = true -> len s <= me -> rt (AvkText me md) hdr (AvText s).
Proof.
  intros Hm Hu Hl. exists s. split.
  - intros room Hr. cbn [av_enc_kind]. unfold av_enc_bytes. lia_guards. reflexivity.
  - cbn [av_dec_kind]. lia_guards. rewrite Hu. reflexivity.
Qed.

Lemma dec_enc_opaque hdr b : rt AvkOpaque hdr (AvOpaque b).
Proof.
  exists b. split; [|reflexivity].
  intros room Hr. cbn [av_enc_kind]. unfold av_enc_bytes. lia_guards. reflexivity.
Qed.

Lemma dec_enc_hash hdr b : len b = 32 -> rt AvkHash hdr (AvFixed b).
Proof.
  intros H. exists b. split.
  - intros room Hr. cbn [av_enc_kind]. unfold av_enc_bytes. rewrite H in *. guards. lia_guards. reflexivity.
  - cbn [av_dec_kind]. rewrite H. guards. reflexivity.
Qed.

Lemma dec_enc_token hdr b : len b = 8 -> rt AvkToken hdr (AvFixed b).
Proof.
  intros H. exists b. split.
  - intros room Hr. cbn [av_enc_kind]. rewrite H in *. guards. lia_guards. reflexivity.
  - cbn [av_dec_kind]. rewrite H. guards. rewrite av_to_ok by lia. cbn [av_bind].
    rewrite <- H. rewrite take_all. reflexivity.
Qed.

Lemma dec_enc_chan hdr n : n < 65536 -> rt AvkChan hdr (AvChan n).
Proof.
  intros H. exists (av_be16 n ++ [0; 0]). split.
  - intros room Hr. rewrite len_app, len_be16, !len_cons, len_nil in Hr. cbn [av_enc_kind]. lia_guards. reflexivity.
  - cbn [av_dec_kind]. unfold av_dec_u16, av_to, av_from. list_eval. rewrite !len_cons, len_nil. guards.
    cbn [av_rd16]. cbn [av_bind]. list_eval. rewrite !len_cons, len_nil. guards. cbn [av_rd16 av_bind].
    rewrite rd16_be16' by exact H. reflexivity.
Qed.

Lemma dec_enc_even hdr r : rt AvkEven hdr (AvEven r).
Proof.
  exists [if r then 0x80 else 0]. split.
  - intros room Hr. rewrite !len_cons, len_nil in Hr. cbn [av_enc_kind]. lia_guards. reflexivity.
  - cbn [av_dec_kind]. unfold av_at. rewrite !len_cons, len_nil. guards. list_eval. cbn [av_bind].
    destruct r; reflexivity.
Qed.

Lemma dec_enc_proto hdr p : rt AvkProto hdr (AvProto p).
Proof.
  exists [p; 0; 0; 0]. split.
  - intros room Hr. rewrite !len_cons, len_nil in Hr. cbn [av_enc_kind]. lia_guards. reflexivity.
  - cbn [av_dec_kind]. unfold av_at. rewrite !len_cons, len_nil. guards. list_eval. reflexivity.
Qed.

Lemma dec_enc_fam hdr f : (f =? 1) || (f =? 2) = true -> rt AvkFam hdr (AvFam f).
Proof.
  intros H. exists [f; 0; 0; 0]. split.
  - intros room Hr. rewrite !len_cons, len_nil in Hr. cbn [av_enc_kind]. rewrite H. lia_guards. reflexivity.
  - cbn [av_dec_kind]. unfold av_dec_family, av_at. rewrite !len_cons, len_nil. guards. list_eval. cbn [av_bind].
    rewrite H. reflexivity.
Qed.

Lemma dec_enc_icmp hdr ty code data :
  ty <= 127 -> code <= 511 -> len data = 4 -> rt AvkIcmp hdr (AvIcmp ty code data).
Proof.
  intros Ht Hc Hd.
  destruct data as [|d0 [|d1 [|d2 [|d3 [|d4 data]]]]]; rewrite ?len_cons, ?len_nil in Hd; try lia.
  clear Hd.
  exists ([0; 0] ++ av_be16 (ty * 512 + code) ++ [d0; d1; d2; d3]). split.
  - intros room Hr. rewrite !len_app, len_be16, !len_cons, len_nil in Hr.
    cbn [av_enc_kind]. rewrite !len_cons, len_nil. guards. lia_guards. reflexivity.
  - cbn [av_dec_kind]. list_eval. rewrite !len_cons, len_nil. guards.
    unfold av_slice. rewrite !len_cons, len_nil. guards. list_eval. cbn [av_bind].
    unfold av_dec_u16, av_to. rewrite !len_cons, len_nil. guards. list_eval. cbn [av_rd16 av_bind].
    rewrite rd16_be16' by lia.
    replace ((ty * 512 + code) / 512) with ty by lia. replace ((ty * 512 + code) mod 512) with code by lia.
    lia_guards. reflexivity.
Qed.

Lemma take_len_eq n l : len l = n -> take n l = l.
Proof. intros <-. apply take_all. Qed.
Lemma drop4_cons a b c d (l:bytes) : drop 4 (a :: b :: c :: d :: l) = l.
Proof. reflexivity. Qed.
Lemma drop2_cons a b (l:bytes) : drop 2 (a :: b :: l) = l.
Proof. reflexivity. Qed.
Lemma drop1_cons a (l:bytes) : drop 1 (a :: l) = l.
Proof. reflexivity. Qed.
Lemma take2_cons a b (l:bytes) : take 2 (a :: b :: l) = [a; b].
Proof. reflexivity. Qed.

Lemma dec_sockaddr_enc (v6:bool) port ip :
  port < 65536 -> len ip = (if v6 then 16 else 4) ->
  av_dec_sockaddr ([0; if v6 then 2 else 1] ++ av_be16 port ++ ip) = VOk (v6, port, ip).
Proof.
  intros Hp Hl. unfold av_dec_sockaddr, av_at, av_slice. cbn [app av_be16 av_be_n]. rewrite !len_cons, Hl.
  destruct v6; guards; rewrite drop1_cons, drop2_cons, take2_cons, drop4_cons; cbn [av_bind av_rd16]; guards;
    rewrite rd16_be16' by exact Hp; rewrite take_len_eq by exact Hl; reflexivity.
Qed.

Lemma dec_enc_addr hdr (v6:bool) port ip :
  port < 65536 -> len ip = (if v6 then 16 else 4) -> rt AvkAddr hdr (AvAddr v6 port ip).
Proof.
  intros Hp Hl. exists ([0; if v6 then 2 else 1] ++ av_be16 port ++ ip). split.
  - intros room Hr. rewrite len_app, len_app, len_be16, !len_cons, len_nil, Hl in Hr.
    cbn [av_enc_kind]. rewrite Hl. destruct v6; guards; lia_guards; reflexivity.
  - cbn [av_dec_kind]. rewrite dec_sockaddr_enc by assumption. reflexivity.
Qed.

Lemma lxor_lt_pow2 a b n : a < 2 ^ n -> b < 2 ^ n -> N.lxor a b < 2 ^ n.
Proof.
  intros Ha Hb.
  destruct (N.eq_dec a 0) as [->|Na]; [rewrite N.lxor_0_l; exact Hb|].
  destruct (N.eq_dec b 0) as [->|Nb]; [rewrite N.lxor_0_r; exact Ha|].
  destruct (N.eq_dec (N.lxor a b) 0) as [->|Nx]; [lia|].
  apply N.log2_lt_pow2; [lia|].
  apply N.log2_lt_pow2 in Ha; [|lia]. apply N.log2_lt_pow2 in Hb; [|lia].
  pose proof (N.log2_lxor a b). lia.
Qed.
Lemma lxor_invol a k : N.lxor (N.lxor a k) k = a.
Proof. rewrite N.lxor_assoc, N.lxor_nilpotent, N.lxor_0_r. reflexivity. Qed.
Lemma xor_bytes_invol : forall a k, av_xor_bytes (av_xor_bytes a k) k = a.
Proof.
  induction a as [|x a IH]; intros k; [destruct k; reflexivity|].
  destruct k as [|y k]; [reflexivity|]. cbn [av_xor_bytes]. rewrite lxor_invol, IH. reflexivity.
Qed.
Lemma len_xor_bytes : forall a k, len (av_xor_bytes a k) = len a.
Proof.
  induction a as [|x a IH]; intros k; [destruct k; reflexivity|].
  destruct k as [|y k]; [reflexivity|]. cbn [av_xor_bytes]. rewrite !len_cons, IH. reflexivity.
Qed.

Lemma dec_enc_xor_addr hdr txid (v6:bool) port ip :
  av_dec_header hdr = VOk txid ->
  port < 65536 -> len ip = (if v6 then 16 else 4) -> rt AvkXorAddr hdr (AvAddr v6 port ip).
Proof.
  intros Hh Hp Hl.
  set (key := if v6 then av_cookie ++ txid else av_cookie).
  exists ([0; if v6 then 2 else 1] ++ av_be16 (N.lxor port 0x2112) ++ av_xor_bytes ip key). split.
  - intros room Hr. rewrite len_app, len_app, len_be16, len_xor_bytes, !len_cons, len_nil, Hl in Hr.
    cbn [av_enc_kind]. rewrite Hh. cbn [av_bind av_xor_addr]. fold key. rewrite Hl.
    destruct v6; guards; lia_guards; reflexivity.
  - cbn [av_dec_kind]. rewrite Hh. cbn [av_bind].
    rewrite dec_sockaddr_enc.
    + cbn [av_bind av_xor_addr]. fold key. rewrite lxor_invol, xor_bytes_invol. reflexivity.
    + apply (lxor_lt_pow2 _ _ 16); [exact Hp|reflexivity].
    + rewrite len_xor_bytes. exact Hl.
Qed.

Lemma land7 c : c < 8 -> N.land c 7 = c.
Proof. intros H. change 7 with (N.ones 3). rewrite N.land_ones. apply N.mod_small. exact H. Qed.

Lemma dec_error_code_enc x y code reason :
  300 <= code -> code < 700 -> av_utf8_ok reason = true -> len reason <= 509 ->
  av_dec_error_code (x :: y :: (code - code mod 100) / 100 :: code mod 100 :: reason) = VOk (code, reason).
Proof.
  intros H1 H2 Hu Hl. unfold av_dec_error_code, av_at, av_from. rewrite !len_cons. list_eval. lia_guards.
  rewrite land7 by lia. lia_guards. rewrite Hu. lia_guards.
  replace ((code - code mod 100) / 100 * 100 + code mod 100) with code by lia. lia_guards. reflexivity.
Qed.
Lemma enc_error_code_ok code reason room :
  300 <= code -> code < 700 -> len reason <= 509 -> 4 + len reason <= room ->
  av_enc_error_code code reason room = VOk ([0; 0; (code - code mod 100) / 100; code mod 100] ++ reason).
Proof. intros H1 H2 Hl Hr. unfold av_enc_error_code. cbv zeta. lia_guards. reflexivity. Qed.

Lemma dec_enc_err hdr code reason :
  300 <= code -> code < 700 -> av_utf8_ok reason = true -> len reason <= 509 -> rt AvkErr hdr (AvErr code reason).
Proof.
  intros H1 H2 Hu Hl. exists ([0; 0; (code - code mod 100) / 100; code mod 100] ++ reason). split.
  - intros room Hr. rewrite len_app, !len_cons, len_nil in Hr. cbn [av_enc_kind].
    apply enc_error_code_ok; try assumption; lia.
  - cbn [av_dec_kind app]. rewrite dec_error_code_enc by assumption. reflexivity.
Qed.

Lemma dec_enc_aerr hdr fam code reason :
  (fam =? 1) || (fam =? 2) = true ->
  300 <= code -> code < 700 -> av_utf8_ok reason = true -> len reason <= 509 -> rt AvkAErr hdr (AvAErr fam code reason).
Proof.
  intros Hf H1 H2 Hu Hl. exists (fam :: 0 :: (code - code mod 100) / 100 :: code mod 100 :: reason). split.
  - intros room Hr. rewrite !len_cons in Hr. cbn [av_enc_kind].
    rewrite enc_error_code_ok by (try assumption; lia). cbn [av_bind]. rewrite Hf. lia_guards. reflexivity.
  - cbn [av_dec_kind]. unfold av_dec_family, av_at. rewrite !len_cons. list_eval. lia_guards. rewrite Hf.
    rewrite dec_error_code_enc by assumption. reflexivity.
Qed.

(* PASSWORD-ALGORITHM *)
Definition plen (p:option bytes) : N := match p with Some b => len b | None => 0 end.
Definition pbytes (p:option bytes) : bytes := match p with Some b => b | None => [] end.
Definition alg_bytes (alg:N) (p:option bytes) : bytes := av_be16 alg ++ av_be16 (plen p) ++ pbytes p.
Definition popt_ok (p:option bytes) : Prop := match p with Some b => 0 < len b /\ len b + 4 < 65536 | None => True end.

Lemma len_alg_bytes alg p : len (alg_bytes alg p) = 4 + plen p.
Proof. unfold alg_bytes. rewrite !len_app, !len_be16. destruct p; cbn [plen pbytes]; rewrite ?len_nil; lia. Qed.

Lemma enc_alg_ok alg p room : 4 + plen p <= room -> plen p < 65536 -> av_enc_alg alg p room = VOk (alg_bytes alg p).
Proof.
  intros H1 H2. unfold av_enc_alg. cbv zeta. fold (plen p). fold (pbytes p). lia_guards. reflexivity.
Qed.

Lemma dec_alg_enc alg p tail : alg < 65536 -> popt_ok p ->
  av_dec_alg (alg_bytes alg p ++ tail) = VOk (alg, p, 4 + plen p).
Proof.
  intros Ha Hp. unfold av_dec_alg, av_to, av_slice, alg_bytes.
  assert (Hl : plen p + 4 < 65536) by (destruct p; cbn [plen popt_ok] in *; lia).
  cbn [app av_be16 av_be_n]. rewrite !len_cons, len_app. fold (len (pbytes p)).
  assert (Lp : len (pbytes p) = plen p) by (destruct p; reflexivity).
  rewrite Lp. lia_guards. rewrite take2_cons. cbn [av_rd16 av_bind]. rewrite rd16_be16' by exact Ha.
  guards. lia_guards. rewrite drop2_cons, take2_cons. cbn [av_rd16 av_bind]. rewrite rd16_be16' by lia.
  lia_guards. rewrite drop4_cons.
  replace (plen p + 4 - 4) with (len (pbytes p)) by lia. rewrite take_app_exact. cbn [av_bind].
  destruct p as [b|]; cbn [plen pbytes popt_ok] in *.
  - replace (0 <? len b) with true by (symmetry; apply N.ltb_lt; lia). reflexivity.
  - guards. reflexivity.
Qed.

Lemma dec_enc_alg hdr alg p : alg < 65536 -> popt_ok p -> rt AvkAlg hdr (AvAlg alg p).
Proof.
  intros Ha Hp. exists (alg_bytes alg p). split.
  - intros room Hr. rewrite len_alg_bytes in Hr. cbn [av_enc_kind]. apply enc_alg_ok; [exact Hr|].
    destruct p; cbn [plen popt_ok] in *; lia.
  - cbn [av_dec_kind]. rewrite <- (app_nil_r (alg_bytes alg p)). rewrite dec_alg_enc by assumption. reflexivity.
Qed.

(* UNKNOWN-ATTRIBUTES *)
Lemma existsb_eqb_false x (l:list N) : ~ In x l -> existsb (N.eqb x) l = false.
Proof.
  induction l as [|y l IH]; intros H; [reflexivity|]. cbn [existsb].
  destruct (N.eqb_spec x y) as [->|Ne]; [exfalso; apply H; left; reflexivity|].
  apply IH. intros I. apply H. right. exact I.
Qed.
Lemma av_nodup_spec (l:list N) : av_nodup l = true -> NoDup l.
Proof.
  induction l as [|x l IH]; intros H; [constructor|]. cbn [av_nodup] in H. apply andb_prop in H as [H1 H2].
  constructor; [|apply IH; exact H2].
  intros I. apply negb_true_iff in H1. assert (E : existsb (N.eqb x) l = true).
  { apply existsb_exists. exists x. split; [exact I|apply N.eqb_refl]. }
  congruence.
Qed.
Lemma dec_uattrs_enc : forall l acc,
  Forall (fun x => x < 65536) l -> NoDup l -> (forall x, In x l -> ~ In x acc) ->
  av_dec_uattrs (flat_map av_be16 l) acc = VOk (acc ++ l).
Proof.
  induction l as [|x l IH]; intros acc Hf Hn Hd.
  - cbn. rewrite app_nil_r. reflexivity.
  - inversion Hf as [|? ? Hx Hf']; subst. inversion Hn as [|? ? Hx' Hn']; subst.
    cbn [flat_map av_be16 av_be_n app av_dec_uattrs]. rewrite rd16_be16' by exact Hx.
    unfold av_ua_add. rewrite existsb_eqb_false by (apply Hd; left; reflexivity).
    rewrite IH; [rewrite <- app_assoc; reflexivity|exact Hf'|exact Hn'|].
    intros y Hy I. apply in_app_or in I as [I|[<-|[]]]; [apply (Hd y); [right; exact Hy|exact I]|].
    apply Hx'. exact Hy.
Qed.
Lemma len_flat_be16 (l:list N) : len (flat_map av_be16 l) = 2 * len l.
Proof.
  induction l as [|x l IH]; [reflexivity|]. cbn [flat_map]. rewrite len_app, len_be16, IH, len_cons. lia.
Qed.
Lemma dec_enc_uattrs hdr l :
  Forall (fun x => x < 65536) l -> NoDup l -> rt AvkUAttrs hdr (AvUAttrs l).
Proof.
  intros Hf Hn. exists (flat_map av_be16 l). split.
  - intros room Hr. rewrite len_flat_be16 in Hr. cbn [av_enc_kind]. lia_guards. reflexivity.
  - cbn [av_dec_kind]. rewrite len_flat_be16.
    replace (N.land (2 * len l) 1) with 0.
    + guards. rewrite dec_uattrs_enc; [reflexivity|exact Hf|exact Hn|]. intros x _ [].
    + change 1 with (N.ones 1). rewrite N.land_ones. change (2 ^ 1) with 2. lia.
Qed.

(* USERNAME (the ASCII fragment of the OpaqueString profile) *)
Lemma ascii_utf8 : forall s, forallb (fun b => b <? 0x80) s = true -> av_utf8 s = Some s.
Proof.
  induction s as [|b s IH]; intros H; [reflexivity|]. cbn [forallb] in H. apply andb_prop in H as [H1 H2].
  rewrite av_utf8_cons_eq, H1, (IH H2). reflexivity.
Qed.
Lemma forallb_impl {A} (f g:A -> bool) l : (forall x, f x = true -> g x = true) -> forallb f l = true -> forallb g l = true.
Proof. intros H. induction l as [|x l IH]; [reflexivity|]. cbn [forallb]. rewrite !andb_true_iff. intros [H1 H2]. split; auto. Qed.
Lemma existsb_false_of_forallb {A} (f g:A -> bool) l :
  (forall x, f x = true -> g x = false) -> forallb f l = true -> existsb g l = false.
Proof.
  intros H. induction l as [|x l IH]; [reflexivity|]. cbn [forallb existsb]. rewrite andb_true_iff. intros [H1 H2].
  rewrite (H x H1), (IH H2). reflexivity.
Qed.
Lemma dec_enc_user hdr s : av_ascii_print s = true -> 0 < len s -> len s < 509 -> rt AvkUser hdr (AvUser s).
Proof.
  intros Ha H0 Hl. exists s. split.
  - intros room Hr. cbn [av_enc_kind]. unfold av_enc_bytes. lia_guards. reflexivity.
  - cbn [av_dec_kind]. unfold av_utf8_ok. rewrite ascii_utf8.
    + cbn [negb]. lia_guards. unfold av_precis.
      destruct s as [|b s]; [rewrite len_nil in H0; lia|].
      assert (E1 : existsb av_is_ctl (b :: s) = false).
      { apply (existsb_false_of_forallb (fun b => (0x20 <=? b) && (b <=? 0x7E))); [|exact Ha].
        intros x Hx. apply andb_prop in Hx as [Hx1 Hx2]. apply N.leb_le in Hx1, Hx2.
        unfold av_is_ctl. apply orb_false_iff. split; [apply N.ltb_ge; lia|apply N.eqb_neq; lia]. }
      assert (E2 : existsb (fun b => 0x80 <=? b) (b :: s) = false).
      { apply (existsb_false_of_forallb (fun b => (0x20 <=? b) && (b <=? 0x7E))); [|exact Ha].
        intros x Hx. apply andb_prop in Hx as [Hx1 Hx2]. apply N.leb_le in Hx1, Hx2. apply N.leb_gt. lia. }
      rewrite E1, E2. reflexivity.
    + revert Ha. apply forallb_impl. intros x Hx. apply andb_prop in Hx as [_ Hx]. apply N.leb_le in Hx. apply N.ltb_lt. lia.
Qed.

(* PASSWORD-ALGORITHMS: padding between the entries only *)
Fixpoint algs_bytes (l:list (N * option bytes)) : bytes :=
  match l with
  | [] => []
  | (a, p) :: rest =>
      alg_bytes a p ++ match rest with [] => [] | _ => zeros (pad (len (alg_bytes a p))) ++ algs_bytes rest end
  end.
Definition alg_entry_ok (e:N * option bytes) : Prop := fst e < 65536 /\ popt_ok (snd e).

Lemma enc_algs_ok : forall l room out,
  Forall alg_entry_ok l -> len out + len (algs_bytes l) <= room ->
  av_enc_algs l room out = VOk (out ++ algs_bytes l).
Proof.
  induction l as [|[a p] rest IH]; intros room out Hf Hr.
  - cbn. rewrite app_nil_r. reflexivity.
  - inversion Hf as [|? ? [Ha Hp] Hf']; subst. cbn [fst snd] in *.
    cbn [av_enc_algs algs_bytes] in *. cbv zeta.
    assert (Hpl : plen p < 65536) by (destruct p; cbn [plen popt_ok] in *; lia).
    rewrite len_app, len_alg_bytes in Hr.
    destruct (N.ltb_spec room (len out)); [lia|].
    rewrite enc_alg_ok by lia. cbn [av_bind].
    destruct rest as [|e rest]; [rewrite app_nil_r; reflexivity|].
    rewrite len_app, len_zeros in Hr. rewrite !len_app, len_alg_bytes in *.
    destruct (N.ltb_spec room (len out + (4 + plen p))); [lia|].
    destruct (N.ltb_spec (room - (len out + (4 + plen p))) (pad (4 + plen p))); [lia|].
    rewrite IH; [rewrite <- !app_assoc; reflexivity|exact Hf'|].
    rewrite !len_app, len_zeros, len_alg_bytes. lia.
Qed.

Lemma av_dec_algs_step f x rest size acc :
  av_dec_algs (S f) (x :: rest) size acc =
    if len (x :: rest) <? pad size then VErr
    else vlet sub := av_from (x :: rest) (pad size) in
         vlet r := av_dec_alg sub in
         let '(alg, params, l) := r in
         vlet rest' := av_from sub l in av_dec_algs f rest' l (acc ++ [(alg, params)]).
Proof. reflexivity. Qed.

Lemma dec_algs_one f size acc a p tail : a < 65536 -> popt_ok p ->
  av_dec_algs (S f) (zeros (pad size) ++ alg_bytes a p ++ tail) size acc
  = av_dec_algs f tail (len (alg_bytes a p)) (acc ++ [(a, p)]).
Proof.
  intros Ha Hp.
  assert (L4 : 4 <= len (alg_bytes a p)) by (rewrite len_alg_bytes; lia).
  set (whole := zeros (pad size) ++ alg_bytes a p ++ tail) in *.
  assert (Lw : len whole = pad size + len (alg_bytes a p) + len tail)
    by (unfold whole; rewrite !len_app, len_zeros; lia).
  assert (Ed : drop (pad size) whole = alg_bytes a p ++ tail).
  { unfold whole. rewrite <- (len_zeros (pad size)) at 1. apply drop_app_exact. }
  destruct whole as [|x w] eqn:Ew; [rewrite len_nil in Lw; lia|].
  rewrite av_dec_algs_step.
  destruct (N.ltb_spec (len (x :: w)) (pad size)); [lia|].
  rewrite av_from_ok by lia. cbn [av_bind].
  rewrite Ed, dec_alg_enc by assumption. cbn [av_bind].
  rewrite <- (len_alg_bytes a p). rewrite av_from_ok by (rewrite len_app; lia). cbn [av_bind].
  rewrite drop_app_exact. reflexivity.
Qed.

Lemma dec_algs_enc : forall l fuel size acc,
  l <> [] -> Forall alg_entry_ok l ->
  (length (zeros (pad size) ++ algs_bytes l) <= fuel)%nat ->
  av_dec_algs fuel (zeros (pad size) ++ algs_bytes l) size acc = VOk (acc ++ l).
Proof.
  induction l as [|[a p] rest IH]; intros fuel size acc Hne Hf Hfuel; [congruence|].
  inversion Hf as [|? ? [Ha Hp] Hf']; subst. cbn [fst snd] in *.
  assert (L4 : (4 <= length (alg_bytes a p))%nat).
  { pose proof (len_alg_bytes a p) as L. unfold len in L. lia. }
  cbn [algs_bytes] in *.
  destruct fuel as [|f]; [rewrite !app_length in Hfuel; lia|].
  rewrite dec_algs_one by assumption.
  destruct rest as [|e rest].
  - destruct f; reflexivity.
  - rewrite IH; [rewrite <- app_assoc; reflexivity|discriminate|exact Hf'|].
    rewrite !app_length in Hfuel. rewrite app_length. lia.
Qed.

Lemma dec_enc_algs hdr l : Forall alg_entry_ok l -> rt AvkAlgs hdr (AvAlgs l).
Proof.
  intros Hf. exists (algs_bytes l). split.
  - intros room Hr. cbn [av_enc_kind]. rewrite enc_algs_ok; [reflexivity|exact Hf|rewrite len_nil; lia].
  - cbn [av_dec_kind]. destruct l as [|e l]; [reflexivity|].
    change (algs_bytes (e :: l)) with (zeros (pad 0) ++ algs_bytes (e :: l)) at 2.
    rewrite dec_algs_enc; [reflexivity|discriminate|exact Hf|]. cbn [app zeros]. change (zeros (pad 0)) with (@nil N). cbn [app]. lia.
Qed.

(* REALM / NONCE: canonical quoted texts (accepted by the grammar, nothing to trim) *)
Lemma utf8_nil s : av_utf8 s = Some [] -> s = [].
Proof.
  destruct s as [|b0 r]; [reflexivity|]. intros H.
  destruct (av_utf8_cons_inv _ _ _ H) as (c & cs & h & t & E & _). discriminate.
Qed.
Lemma av_bytes_eqb_refl s : av_bytes_eqb s s = true.
Proof. induction s as [|x s IH]; [reflexivity|]. cbn [av_bytes_eqb]. rewrite N.eqb_refl, IH. reflexivity. Qed.
Lemma boundary_end s : av_is_boundary s (len s) = true.
Proof.
  unfold av_is_boundary. destruct (len s =? 0); [reflexivity|].
  destruct (N.ltb_spec (len s) (len s)); [lia|]. rewrite N.eqb_refl. reflexivity.
Qed.
Lemma rev_last_head (l:list N) : l <> [] -> exists t, rev l = last l 0 :: t.
Proof.
  intros H. pose proof (app_removelast_last 0 H) as E.
  assert (R : rev l = rev (removelast l ++ [last l 0])) by (f_equal; exact E).
  rewrite rev_app_distr in R. cbn [rev app] in R. eauto.
Qed.

Lemma dec_quoted_string_ok s : av_quoted_ok s = true -> av_dec_quoted_string s = VOk s.
Proof.
  unfold av_quoted_ok, av_dec_quoted_string. destruct (av_utf8 s) as [cps|] eqn:Eu; [|discriminate].
  intros H. apply andb_prop in H as [Hq Ht]. unfold av_formatted. rewrite Hq. cbn [negb andb].
  destruct cps as [|c cs].
  - apply utf8_nil in Eu. subst s. reflexivity.
  - cbn [av_trimmed] in Ht. apply andb_prop in Ht as [T1 T2]. apply negb_true_iff in T1.
    cbn [av_skip_start]. rewrite T1. unfold av_str_from. cbn [av_is_boundary N.eqb]. 
    change (av_is_boundary s 0) with true. cbn [av_bind]. rewrite drop_0.
    rewrite (av_chars_some _ _ Eu). rewrite (skip_trail_stop _ T2).
    destruct (N.ltb_spec (len s) 0); [lia|].
    unfold av_str_to. rewrite N.sub_0_r, boundary_end, take_all. cbn [av_bind].
    rewrite av_bytes_eqb_refl. reflexivity.
Qed.

Lemma dec_enc_quoted hdr s : av_quoted_ok s = true -> len s <= 509 -> rt AvkQuoted hdr (AvQuoted s).
Proof.
  intros Hq Hl. exists s. split.
  - intros room Hr. cbn [av_enc_kind]. unfold av_enc_bytes. lia_guards. reflexivity.
  - cbn [av_dec_kind]. lia_guards. rewrite dec_quoted_string_ok by exact Hq. reflexivity.
Qed.

(* ------------------------------------------------------------------------------------ (c) all families *)
Lemma registry_text ty me md : av_registry ty = Some (AvkText me md) -> me <= md.
Proof.
  unfold av_registry.
  repeat match goal with |- (if ?c then _ else _) = _ -> _ => destruct c end;
    intros E; try discriminate; injection E as <- <-; lia.
Qed.

Lemma opt_ok_popt p : av_opt_ok p = true -> popt_ok p.
Proof.
  destruct p as [b|]; cbn [av_opt_ok popt_ok]; [|trivial].
  intros H. apply andb_prop in H as [H H2]. apply andb_prop in H as [_ H1].
  apply N.ltb_lt in H1, H2. split; assumption.
Qed.
Lemma alg_ok_entry e : av_alg_ok e = true -> alg_entry_ok e.
Proof.
  unfold av_alg_ok, alg_entry_ok. intros H. apply andb_prop in H as [H1 H2].
  split; [apply N.ltb_lt; exact H1|apply opt_ok_popt; exact H2].
Qed.
Lemma forallb_Forall {A} (f:A -> bool) (P:A -> Prop) l :
  (forall x, f x = true -> P x) -> forallb f l = true -> Forall P l.
Proof.
  intros H. induction l as [|x l IH]; intros F; [constructor|].
  cbn [forallb] in F. apply andb_prop in F as [F1 F2]. constructor; auto.
Qed.

Ltac split_wf H :=
  repeat match type of H with
  | (_ && _) = true => let H' := fresh H in apply andb_prop in H as [H H']; try split_wf H'
  end.

(* C01 at the level of one attribute value: under the documented limits the encoder succeeds in every buffer
   that is large enough and the decoder returns the same value, for all 35 kinds whose value survives the trip
   (Encodable MESSAGE-INTEGRITY / -SHA256 / FINGERPRINT decode as the Decodable variant; Unknown never encodes) *)
Theorem dec_enc_attr : forall ud hdr ty a,
  av_wf ty a = true -> av_hdr_ok hdr = true ->
  exists v, (forall room, len v <= room -> av_enc_attr hdr ty a room = VOk v) /\ av_dec_attr ud hdr ty v = VOk a.
Proof.
  intros ud hdr ty a Hwf Hh. unfold av_wf, av_enc_attr, av_dec_attr in *.
  destruct (av_registry ty) as [k|] eqn:R; [|discriminate].
  change (rt k hdr a).
  destruct k; destruct a; try discriminate.
  - (* Addr *) split_wf Hwf. apply dec_enc_addr; [apply N.ltb_lt; assumption|].
    apply N.eqb_eq. assumption.
  - (* XorAddr *) split_wf Hwf. unfold av_hdr_ok in Hh. destruct (av_dec_header hdr) as [txid| | |] eqn:Eh; try discriminate.
    apply (dec_enc_xor_addr hdr txid); [exact Eh|apply N.ltb_lt; assumption|apply N.eqb_eq; assumption].
  - apply dec_enc_u16. apply N.ltb_lt. exact Hwf.
  - apply dec_enc_u32. apply N.ltb_lt. exact Hwf.
  - apply dec_enc_u64. apply N.ltb_lt. exact Hwf.
  - apply dec_enc_empty.
  - split_wf Hwf. apply dec_enc_text; [eapply registry_text; exact R|assumption|apply N.leb_le; assumption].
  - split_wf Hwf. apply dec_enc_quoted; [assumption|apply N.leb_le; assumption].
  - split_wf Hwf. apply dec_enc_user; [assumption|apply N.ltb_lt; assumption|apply N.ltb_lt; assumption].
  - split_wf Hwf. apply dec_enc_err; [apply N.leb_le|apply N.ltb_lt|idtac|apply N.leb_le]; assumption.
  - split_wf Hwf. apply dec_enc_aerr; [idtac|apply N.leb_le|apply N.ltb_lt|idtac|apply N.leb_le]; assumption.
  - apply alg_ok_entry in Hwf. destruct Hwf as [H1 H2]. apply dec_enc_alg; assumption.
  - apply dec_enc_algs. revert Hwf. apply forallb_Forall. apply alg_ok_entry.
  - split_wf Hwf. apply dec_enc_uattrs; [|apply av_nodup_spec; assumption].
    revert Hwf. apply forallb_Forall. intros x Hx. apply N.ltb_lt. exact Hx.
  - split_wf Hwf. apply dec_enc_hash. apply N.eqb_eq. assumption.
  - split_wf Hwf. apply dec_enc_token. apply N.eqb_eq. assumption.
  - apply dec_enc_opaque.
  - apply dec_enc_chan. apply N.ltb_lt. exact Hwf.
  - apply dec_enc_even.
  - apply dec_enc_proto.
  - apply dec_enc_fam. exact Hwf.
  - split_wf Hwf. apply dec_enc_icmp; [apply N.leb_le|apply N.leb_le|apply N.eqb_eq]; assumption.
Qed.
Print Assumptions dec_enc_attr.

(* the three kinds whose value does not survive the trip: the Encodable variant writes a place holder that
   post_encode overwrites; what is decoded is the Decodable variant holding the wire bytes *)
Lemma enc_mi_placeholder hdr room : 20 <= room -> av_enc_kind AvkMI hdr AvMIEnc room = VOk (zeros 20).
Proof. intros H. cbn [av_enc_kind]. lia_guards. reflexivity. Qed.
Lemma enc_sha_placeholder hdr room : 32 <= room -> av_enc_kind AvkSha hdr AvShaEnc room = VOk (zeros 32).
Proof. intros H. cbn [av_enc_kind]. lia_guards. reflexivity. Qed.
Lemma enc_fp_placeholder hdr room : 4 <= room -> av_enc_kind AvkFp hdr AvFpEnc room = VOk (zeros 4).
Proof. intros H. cbn [av_enc_kind]. lia_guards. reflexivity. Qed.
Lemma dec_mi_exact hdr v : len v = 20 -> av_dec_kind AvkMI hdr v = VOk (AvMI v).
Proof. intros H. cbn [av_dec_kind]. rewrite H. guards. reflexivity. Qed.
Lemma dec_sha_exact hdr v : len v = 32 -> av_dec_kind AvkSha hdr v = VOk (AvSha v).
Proof. intros H. cbn [av_dec_kind]. rewrite H. guards. reflexivity. Qed.
Lemma dec_mi_other hdr v : len v <> 20 -> av_dec_kind AvkMI hdr v = VErr.
Proof. intros H. cbn [av_dec_kind]. destruct (N.ltb_spec (len v) 20); [reflexivity|]. destruct (N.eqb_spec (len v) 20); [lia|reflexivity]. Qed.
Lemma dec_sha_other hdr v : len v <> 32 -> av_dec_kind AvkSha hdr v = VErr.
Proof. intros H. cbn [av_dec_kind]. destruct (N.ltb_spec (len v) 32); [reflexivity|]. destruct (N.eqb_spec (len v) 32); [lia|reflexivity]. Qed.

(* non-vacuity: concrete values inside the documented limits, coded by the model as stun-rs codes them *)
Definition ex_hdr : bytes := av_suite_hdr 0 [0xB7; 0xE7; 0xA7; 0x01; 0xBC; 0x34; 0xD6; 0x86; 0xFA; 0x87; 0xDF; 0xAE].
Example ex_hdr_ok : av_hdr_ok ex_hdr = true. Proof. vm_compute. reflexivity. Qed.
(* RFC 5769 2.2: XOR-MAPPED-ADDRESS 192.0.2.1:32853 under that transaction id *)
Example ex_xor_mapped_wf : av_wf 0x0020 (AvAddr false 32853 [192; 0; 2; 1]) = true. Proof. vm_compute. reflexivity. Qed.
Example ex_xor_mapped_bytes :
  av_enc_attr ex_hdr 0x0020 (AvAddr false 32853 [192; 0; 2; 1]) 8 = VOk [0x00; 0x01; 0xA1; 0x47; 0xE1; 0x12; 0xA6; 0x43].
Proof. vm_compute. reflexivity. Qed.
(* RFC 5769 2.3: XOR-MAPPED-ADDRESS [2001:db8:1234:5678:11:2233:4455:6677]:32853 *)
Example ex_xor_mapped6_bytes :
  av_enc_attr ex_hdr 0x0020
    (AvAddr true 32853 [0x20; 0x01; 0x0d; 0xb8; 0x12; 0x34; 0x56; 0x78; 0x00; 0x11; 0x22; 0x33; 0x44; 0x55; 0x66; 0x77]) 20
  = VOk [0x00; 0x02; 0xa1; 0x47; 0x01; 0x13; 0xa9; 0xfa; 0xa5; 0xd3; 0xf1; 0x79; 0xbc; 0x25; 0xf4; 0xb5; 0xbe; 0xd2; 0xb9; 0xd9].
Proof. vm_compute. reflexivity. Qed.
(* a NONCE with a quoted pair, linear white space and an accepted non-ASCII sequence (U+00C0 U+0080) *)
Example ex_nonce_wf : av_wf 0x0015 (AvQuoted [0x61; 0x5C; 0x22; 0x20; 0x0D; 0x0A; 0x09; 0xC3; 0x80; 0xC2; 0x80; 0x7A]) = true.
Proof. vm_compute. reflexivity. Qed.
(* D8 of DESIGN.md: the four bytes a b c BACKSLASH, which the Nonce constructor stores when given that text followed by
   a double quote, are outside the limits and do not decode *)
Example ex_nonce_d8 : av_wf 0x0015 (AvQuoted [0x61; 0x62; 0x63; 0x5C]) = false
  /\ av_dec_attr false ex_hdr 0x0015 [0x61; 0x62; 0x63; 0x5C] = VErr.
Proof. vm_compute. split; reflexivity. Qed.
Example ex_error_code_wf : av_wf 0x0009 (AvErr 420 [0x55; 0x6E; 0x6B]) = true. Proof. vm_compute. reflexivity. Qed.
Example ex_algs_wf : av_wf 0x8002 (AvAlgs [(1, None); (2, Some [7; 7; 7])]) = true. Proof. vm_compute. reflexivity. Qed.
Example ex_algs_bytes : av_enc_attr ex_hdr 0x8002 (AvAlgs [(2, Some [7; 7; 7]); (1, None)]) 12
  = VOk [0; 2; 0; 3; 7; 7; 7; 0; 0; 1; 0; 0].
Proof. vm_compute. reflexivity. Qed.

(* ------------------------------------------------------------------------------------ further facts *)
(* what a decoder returns satisfies the invariants of the Rust types, so it can be handed to the encoder *)
Lemma dec_error_code_inv raw code reason : av_dec_error_code raw = VOk (code, reason) -> (300 <=? code) && (code <? 700) = true.
Proof.
  unfold av_dec_error_code.
  repeat match goal with
  | |- (if ?c then _ else _) = _ -> _ => destruct c eqn:?
  | |- av_bind ?r _ = _ -> _ => destruct r; cbn [av_bind]
  end; try discriminate.
  intros E. injection E as <- <-.
  match goal with H : (_ || _) = false |- _ => apply orb_false_iff in H as [H1 H2] end.
  apply N.ltb_ge in H1. apply N.leb_gt in H2. apply andb_true_iff. split; [apply N.leb_le|apply N.ltb_lt]; lia.
Qed.

Theorem dec_attr_inv : forall ud hdr ty v a, av_dec_attr ud hdr ty v = VOk a -> av_inv a = true.
Proof.
  intros ud hdr ty v a. unfold av_dec_attr. destruct (av_registry ty) as [k|]; [|intros E; injection E as <-; reflexivity].
  destruct k; cbn [av_dec_kind];
    repeat match goal with
    | |- (if ?c then _ else _) = _ -> _ => destruct c
    | |- av_bind ?r _ = _ -> _ => let E := fresh "E" in destruct r as [?| | |] eqn:E; cbn [av_bind]
    | |- (let '(_, _) := ?p in _) = _ -> _ => destruct p
    end; try discriminate; try (intros E'; injection E' as <-; reflexivity).
  - destruct a0 as [code reason]. intros E'. injection E' as <-. cbn [av_inv fst snd]. eapply dec_error_code_inv; eassumption.
  - destruct a1 as [code reason]. intros E'. injection E' as <-. cbn [av_inv fst snd]. eapply dec_error_code_inv; eassumption.
Qed.
Print Assumptions dec_attr_inv.

Corollary dec_then_enc_no_panic : forall ud hdr ty v a hdr' ty' room,
  av_dec_attr ud hdr ty v = VOk a -> av_enc_attr hdr' ty' a room <> VPanic.
Proof. intros. apply enc_attr_no_panic. eapply dec_attr_inv. eassumption. Qed.

(* a value encoder never reports more bytes than the buffer it was given holds (C14 at the value level) *)
Lemma enc_error_code_fits code reason room v : av_enc_error_code code reason room = VOk v -> len v <= room.
Proof.
  unfold av_enc_error_code. cbv zeta.
  destruct (_ <? _); [discriminate|]. destruct (N.ltb_spec room (4 + len reason)); [discriminate|].
  destruct (_ <? _); [discriminate|]. destruct (_ <? _); [discriminate|]. destruct (_ <? _); [discriminate|].
  intros E. injection E as <-. rewrite ?len_app, !len_cons, ?len_nil. lia.
Qed.
Lemma enc_algs_fits : forall l room out v, len out <= room -> av_enc_algs l room out = VOk v -> len v <= room.
Proof.
  induction l as [|[alg p] rest IH]; intros room out v Ho; cbn [av_enc_algs].
  - intros E. injection E as <-. exact Ho.
  - cbv zeta. destruct (N.ltb_spec room (len out)); [discriminate|].
    destruct (av_enc_alg alg p (room - len out)) as [e| | |] eqn:Ee; cbn [av_bind]; try discriminate.
    apply av_enc_alg_len in Ee as [_ Ee].
    destruct rest as [|x rest].
    + intros E. injection E as <-. rewrite len_app. lia.
    + rewrite len_app. destruct (N.ltb_spec room (len out + len e)); [discriminate|].
      destruct (N.ltb_spec (room - (len out + len e)) (pad (len e))); [discriminate|].
      apply IH. rewrite !len_app, len_zeros. lia.
Qed.
Lemma enc_bytes_fits room b v : av_enc_bytes room b = VOk v -> len v <= room.
Proof. unfold av_enc_bytes. destruct (N.ltb_spec room (len b)); [discriminate|]. intros E. injection E as <-. assumption. Qed.

Theorem enc_attr_fits : forall hdr ty a room v, av_enc_attr hdr ty a room = VOk v -> len v <= room.
Proof.
  intros hdr ty a room v. unfold av_enc_attr. destruct (av_registry ty) as [k|]; [|discriminate].
  destruct k; destruct a; cbn [av_enc_kind]; try discriminate;
    try (apply enc_bytes_fits); try (apply enc_error_code_fits).
  all: repeat match goal with
    | |- av_bind ?r _ = _ -> _ => let E := fresh "E" in destruct r as [?| | |] eqn:E; cbn [av_bind av_xor_addr]
    | |- (if N.ltb ?a ?b then _ else _) = _ -> _ => destruct (N.ltb_spec a b)
    | |- (if ?c then _ else _) = _ -> _ => let E := fresh "E" in destruct c eqn:E
    end; try discriminate.
  all: try (intros E'; injection E' as <-;
            rewrite ?len_app, ?len_be16, ?len_be32, ?len_be64, ?len_zeros, ?len_cons, ?len_nil, ?len_xor_bytes, ?len_flat_be16;
            repeat match goal with H : (_ =? _) = true |- _ => apply N.eqb_eq in H end;
            repeat match goal with H : negb (_ =? _) = false |- _ => apply negb_false_iff, N.eqb_eq in H end;
            try lia).
  all: try (apply enc_bytes_fits); try (eapply enc_algs_fits; rewrite len_nil; lia).
  - destruct v6; repeat match goal with H : negb (_ =? _) = false |- _ => apply negb_false_iff, N.eqb_eq in H end; lia.
  - destruct v6; repeat match goal with H : negb (_ =? _) = false |- _ => apply negb_false_iff, N.eqb_eq in H end; lia.
  - match goal with H : av_enc_error_code _ _ _ = VOk ?a |- _ => apply enc_error_code_fits in H; destruct a as [|x t] end;
      cbn [tl]; rewrite ?len_cons, ?len_nil in *; lia.
  - intros E'. apply av_enc_alg_len in E' as [_ E']. exact E'.
Qed.
Print Assumptions enc_attr_fits.

(* C18 at the value level: `with_unknown_data` changes nothing for a registered type, and for an unregistered one
   only whether the raw bytes are kept *)
Theorem dec_attr_unknown_data : forall ud ud' hdr ty v,
  av_dec_attr ud hdr ty v = av_dec_attr ud' hdr ty v
  \/ (av_registry ty = None /\ av_dec_attr ud hdr ty v = VOk (AvUnknown ty (if ud then Some v else None))).
Proof.
  intros. unfold av_dec_attr. destruct (av_registry ty); [left; reflexivity|right; split; reflexivity].
Qed.
