(* The quoted-string constructor path (strings.rs formatted_quoted_string_from with the REPAIRED skip_trailing_characteres,
   defect D8): whatever text the grammar accepts (quoted-text or quoted-string), the trimmed result is canonical —
   it is a quoted-text, its first character is not removable and its last character is not removable or is the second
   half of a quoted-pair (av_quoted_ok) — hence formatting it again is the identity and it decodes to itself.

   The scanner av_qscan reads tokens from the left, the trimming works from the right: the proof follows the scanner
   over `keep ++ tail` (tail = the removed characters) carrying the reversed prefix read so far (`acc`), whose run of
   leading backslashes is even at every token boundary. *)
From Coq Require Import List NArith Lia Bool.
Import ListNotations.
From Rustun Require Import Base.Tlv Codec.AttrValue Proofs.AttrValueProofs.
Open Scope N_scope.

(* ------------------------------------------------------------------------------------------ characters *)
Lemma removable_cases c : av_removable c = true -> c = 13 \/ c = 10 \/ c = 32 \/ c = 9 \/ c = 34.
Proof. unfold av_removable. rewrite !orb_true_iff, !N.eqb_eq. tauto. Qed.
Lemma removable_nbs c : av_removable c = true -> (c =? 92) = false.
Proof. intros H. apply N.eqb_neq. apply removable_cases in H. lia. Qed.
Lemma wsp_removable c : av_is_wsp c = true -> av_removable c = true.
Proof.
  unfold av_is_wsp, av_removable. rewrite !orb_true_iff, !N.eqb_eq. tauto.
Qed.
Lemma ucont_nr c : av_ucont c = true -> av_removable c = false.
Proof.
  unfold av_ucont. intros H. apply andb_prop in H as [H _]. apply N.leb_le in H.
  apply not_true_is_false. intros R. apply removable_cases in R. lia.
Qed.
Lemma ucont_nbs c : av_ucont c = true -> (c =? 92) = false.
Proof. unfold av_ucont. intros H. apply andb_prop in H as [H _]. apply N.leb_le in H. apply N.eqb_neq. lia. Qed.
Lemma qd_nbs c : av_qd_single c = true -> (c =? 92) = false.
Proof.
  unfold av_qd_single. intros H. apply N.eqb_neq. apply orb_prop in H as [H|H]; [apply orb_prop in H as [H|H]|].
  - apply N.eqb_eq in H. lia.
  - apply andb_prop in H as [H1 H2]. apply N.leb_le in H1, H2. lia.
  - apply andb_prop in H as [H1 H2]. apply N.leb_le in H1, H2. lia.
Qed.
Lemma bs_odd_nbs c r : (c =? 92) = false -> av_bs_odd (c :: r) = false.
Proof. intros H. cbn [av_bs_odd]. rewrite H. reflexivity. Qed.

(* ------------------------------------------------------------------------------------------ lists *)
Lemma rev_tok_acc (tok k2 acc:list N) : rev (tok ++ k2) ++ acc = rev k2 ++ (rev tok ++ acc).
Proof. rewrite rev_app_distr, <- app_assoc. reflexivity. Qed.

(* a token `c cs` whose characters after the first are not removable is not cut by a boundary that is followed by
   removable characters only *)
Lemma split_tok : forall cs keep tail rest,
  keep ++ tail = cs ++ rest -> forallb av_removable tail = true -> forallb (fun x => negb (av_removable x)) cs = true ->
  exists k2, keep = cs ++ k2 /\ rest = k2 ++ tail.
Proof.
  induction cs as [|d cs IH]; intros keep tail rest E Hr Hn.
  - exists keep. split; [reflexivity|]. symmetry. exact E.
  - cbn [forallb] in Hn. apply andb_prop in Hn as [Hd Hn]. apply negb_true_iff in Hd.
    destruct keep as [|x keep].
    + cbn [app] in E. subst tail. cbn [forallb] in Hr. apply andb_prop in Hr as [Hr _]. congruence.
    + cbn [app] in E. injection E as -> E. destruct (IH _ _ _ E Hr Hn) as (k2 & -> & ->).
      exists k2. split; reflexivity.
Qed.

(* ------------------------------------------------------------------------------------------ the scanner and the kept prefix *)
Definition keep_ok (n:nat) : Prop := forall keep, (length keep <= n)%nat -> keep <> [] ->
  forall tail acc closing pend,
  av_qscan closing pend (keep ++ tail) = true -> av_bs_odd acc = false -> forallb av_removable tail = true ->
  (tail <> [] -> av_bs_odd (rev keep ++ acc) = false) -> av_trail_stop (rev keep ++ acc) = true ->
  av_qscan false pend keep = true.

Lemma keep_step n (IH:keep_ok n) tok k2 tail acc closing pend :
  (length k2 <= n)%nat ->
  av_qscan closing pend (k2 ++ tail) = true -> av_bs_odd (rev tok ++ acc) = false -> forallb av_removable tail = true ->
  (tail <> [] -> av_bs_odd (rev (tok ++ k2) ++ acc) = false) -> av_trail_stop (rev (tok ++ k2) ++ acc) = true ->
  (k2 = [] -> pend = false) ->
  av_qscan false pend k2 = true.
Proof.
  intros Hl H Hacc Hrem Htail Hstop Hp. destruct k2 as [|x k2].
  - rewrite (Hp eq_refl). reflexivity.
  - rewrite rev_tok_acc in Htail, Hstop.
    apply (IH (x :: k2) Hl ltac:(discriminate) tail (rev tok ++ acc) closing pend); assumption.
Qed.

Ltac conts_nr U :=
  let U' := fresh "U" in
  pose proof U as U'; cbn [forallb];
  repeat (let Hc := fresh "Hc" in apply andb_prop in U' as [U' Hc]; rewrite (ucont_nr _ Hc));
  rewrite (ucont_nr _ U'); reflexivity.
Ltac last_cont U :=
  let U' := fresh "U" in
  pose proof U as U'; cbn [rev app]; apply bs_odd_nbs, ucont_nbs;
  first [exact U' | apply andb_prop in U' as [_ U']; exact U'].

Lemma keep_all : forall n, keep_ok n.
Proof.
  induction n as [|n IH]; intros keep Hl Hne tail acc closing pend H Hacc Hrem Htail Hstop.
  { destruct keep; [congruence|cbn in Hl; lia]. }
  destruct keep as [|c k]; [congruence|]. clear Hne. cbn [length] in Hl. assert (Hl' : (length k <= n)%nat) by lia.
  cbn [app av_qscan] in H. cbn [av_qscan].
  destruct (av_is_wsp c) eqn:Ew.
  { (* SP / HTAB *)
    refine (keep_step n IH [c] k tail acc closing false Hl' H _ Hrem Htail Hstop _).
    - cbn [rev app]. apply bs_odd_nbs, removable_nbs, wsp_removable. exact Ew.
    - reflexivity. }
  destruct (c =? 13) eqn:Ecr.
  { (* CR LF *)
    apply N.eqb_eq in Ecr. subst c. destruct k as [|d k].
    - exfalso. cbn [rev app av_trail_stop] in Hstop. rewrite Hacc in Hstop. discriminate Hstop.
    - cbn [app] in H. destruct (d =? 10) eqn:Ed; [|discriminate H]. apply N.eqb_eq in Ed. subst d.
      refine (keep_step n IH [13; 10] k tail acc closing true _ H _ Hrem Htail Hstop _).
      + cbn [length] in Hl'. lia.
      + reflexivity.
      + intros ->. exfalso. cbn [rev app av_trail_stop] in Hstop. discriminate Hstop. }
  destruct pend; [discriminate H|].
  destruct (av_qd_single c) eqn:Eq.
  { refine (keep_step n IH [c] k tail acc closing false Hl' H _ Hrem Htail Hstop _).
    - cbn [rev app]. apply bs_odd_nbs, qd_nbs. exact Eq.
    - reflexivity. }
  destruct (c =? 92) eqn:Eb.
  { (* quoted-pair *)
    apply N.eqb_eq in Eb. subst c. destruct k as [|d k].
    - exfalso. cbn [app] in H. destruct tail as [|t tl]; [discriminate H|].
      specialize (Htail ltac:(discriminate)). cbn [rev app av_bs_odd] in Htail.
      change (92 =? 92) with true in Htail. cbv iota in Htail. rewrite Hacc in Htail. discriminate Htail.
    - cbn [app] in H. destruct (av_qpair2 d) eqn:Ep; [|discriminate H].
      refine (keep_step n IH [92; d] k tail acc closing false _ H _ Hrem Htail Hstop _).
      + cbn [length] in Hl'. lia.
      + cbn [rev app av_bs_odd]. destruct (d =? 92); [|reflexivity].
        change (92 =? 92) with true. cbv iota. rewrite Hacc. reflexivity.
      + reflexivity. }
  destruct (c =? 34) eqn:Edq.
  { (* the closing DQUOTE is the last character: then nothing is kept *)
    destruct closing; [|discriminate H]. destruct (k ++ tail) eqn:E; [|discriminate H].
    apply app_eq_nil in E as [-> ->]. exfalso. apply N.eqb_eq in Edq. subst c.
    cbn [rev app av_trail_stop] in Hstop. rewrite Hacc in Hstop. discriminate Hstop. }
  destruct ((192 <=? c) && (c <=? 223)) eqn:E2.
  { destruct (k ++ tail) as [|c1 r1] eqn:E; [discriminate H|].
    destruct (av_ucont c1) eqn:U; [|discriminate H].
    destruct (split_tok [c1] k tail r1 E Hrem) as (k2 & -> & ->); [conts_nr U|].
    cbn [app]. rewrite U.
    refine (keep_step n IH [c; c1] k2 tail acc closing false _ H _ Hrem Htail Hstop _).
    - cbn [length app] in Hl'. lia.
    - last_cont U.
    - reflexivity. }
  destruct ((224 <=? c) && (c <=? 239)) eqn:E3.
  { destruct (k ++ tail) as [|c1 [|c2 r2]] eqn:E; try discriminate H.
    destruct (av_ucont c1 && av_ucont c2) eqn:U; [|discriminate H].
    destruct (split_tok [c1; c2] k tail r2 E Hrem) as (k2 & -> & ->); [conts_nr U|].
    cbn [app]. rewrite U.
    refine (keep_step n IH [c; c1; c2] k2 tail acc closing false _ H _ Hrem Htail Hstop _).
    - cbn [length app] in Hl'. lia.
    - last_cont U.
    - reflexivity. }
  destruct ((240 <=? c) && (c <=? 247)) eqn:E4.
  { destruct (k ++ tail) as [|c1 [|c2 [|c3 r3]]] eqn:E; try discriminate H.
    destruct (av_ucont c1 && av_ucont c2 && av_ucont c3) eqn:U; [|discriminate H].
    destruct (split_tok [c1; c2; c3] k tail r3 E Hrem) as (k2 & -> & ->); [conts_nr U|].
    cbn [app]. rewrite U.
    refine (keep_step n IH [c; c1; c2; c3] k2 tail acc closing false _ H _ Hrem Htail Hstop _).
    - cbn [length app] in Hl'. lia.
    - last_cont U.
    - reflexivity. }
  destruct ((248 <=? c) && (c <=? 251)) eqn:E5.
  { destruct (k ++ tail) as [|c1 [|c2 [|c3 [|c4 r4]]]] eqn:E; try discriminate H.
    destruct (av_ucont c1 && av_ucont c2 && av_ucont c3 && av_ucont c4) eqn:U; [|discriminate H].
    destruct (split_tok [c1; c2; c3; c4] k tail r4 E Hrem) as (k2 & -> & ->); [conts_nr U|].
    cbn [app]. rewrite U.
    refine (keep_step n IH [c; c1; c2; c3; c4] k2 tail acc closing false _ H _ Hrem Htail Hstop _).
    - cbn [length app] in Hl'. lia.
    - last_cont U.
    - reflexivity. }
  destruct ((252 <=? c) && (c <=? 253)) eqn:E6; [|discriminate H].
  destruct (k ++ tail) as [|c1 [|c2 [|c3 [|c4 [|c5 r5]]]]] eqn:E; try discriminate H.
  destruct (av_ucont c1 && av_ucont c2 && av_ucont c3 && av_ucont c4 && av_ucont c5) eqn:U; [|discriminate H].
  destruct (split_tok [c1; c2; c3; c4; c5] k tail r5 E Hrem) as (k2 & -> & ->); [conts_nr U|].
  cbn [app]. rewrite U.
  refine (keep_step n IH [c; c1; c2; c3; c4; c5] k2 tail acc closing false _ H _ Hrem Htail Hstop _).
  - cbn [length app] in Hl'. lia.
  - last_cont U.
  - reflexivity.
Qed.

(* the prefix that skip_trailing_characteres keeps is accepted as a quoted-text *)
Lemma scan_keep keep tail closing :
  keep <> [] -> av_qscan closing false (keep ++ tail) = true -> forallb av_removable tail = true ->
  (tail <> [] -> av_bs_odd (rev keep) = false) -> av_trail_stop (rev keep) = true ->
  av_quoted_text keep = true.
Proof.
  intros Hne H Hrem Htail Hstop. unfold av_quoted_text.
  apply (keep_all (length keep) keep (le_n _) Hne tail [] closing false); rewrite ?app_nil_r; auto.
Qed.

(* ------------------------------------------------------------------------------------------ the leading trim *)
(* skip_starting_characteres: the removed prefix, the first kept character *)
Lemma skip_start_split : forall l idx p, av_skip_start idx l = Some p ->
  exists pre c post, l = pre ++ c :: post /\ idx <= p /\ len pre = p - idx /\
                     forallb av_removable pre = true /\ av_removable c = false.
Proof.
  induction l as [|c l IH]; intros idx p H; [discriminate|].
  cbn [av_skip_start] in H. destruct (av_removable c) eqn:R.
  - destruct (IH _ _ H) as (pre & c' & post & -> & I1 & I2 & I3 & I4).
    exists (c :: pre), c', post. rewrite len_cons. cbn [forallb]. rewrite R, I3. repeat split; try lia. exact I4.
  - injection H as <-. exists [], c, l. rewrite len_nil. repeat split; try lia. exact R.
Qed.
Lemma skip_start_none : forall l idx, av_skip_start idx l = None -> forallb av_removable l = true.
Proof.
  induction l as [|c l IH]; intros idx H; [reflexivity|].
  cbn [av_skip_start] in H. cbn [forallb]. destruct (av_removable c); [|discriminate]. exact (IH _ H).
Qed.

(* the scanner over removable characters: what follows them is scanned from a clean state *)
Lemma scan_lead : forall n pre, (length pre <= n)%nat -> forall c post closing pend,
  forallb av_removable pre = true -> av_removable c = false ->
  av_qscan closing pend (pre ++ c :: post) = true -> av_qscan closing false (c :: post) = true.
Proof.
  induction n as [|n IH]; intros pre Hl c post closing pend Hr Hc H.
  { destruct pre; [|cbn in Hl; lia]. cbn [app] in H.
    destruct pend; [|exact H]. exfalso. cbn [av_qscan] in H.
    assert (W : av_is_wsp c = false).
    { apply not_true_is_false. intros W. apply wsp_removable in W. congruence. }
    assert (C : (c =? 13) = false).
    { apply N.eqb_neq. intros ->. discriminate Hc. }
    rewrite W, C in H. discriminate H. }
  destruct pre as [|x pre].
  { apply (IH [] ltac:(cbn; lia) c post closing pend); auto. }
  cbn [forallb] in Hr. apply andb_prop in Hr as [Hx Hr]. cbn [length] in Hl.
  cbn [app av_qscan] in H.
  destruct (av_is_wsp x) eqn:Ew.
  { apply (IH pre ltac:(lia) c post closing false); auto. }
  destruct (x =? 13) eqn:Ecr.
  { destruct pre as [|d pre].
    - cbn [app] in H. destruct (c =? 10) eqn:Ec; [|discriminate H]. apply N.eqb_eq in Ec. subst c. discriminate Hc.
    - cbn [app] in H. destruct (d =? 10); [|discriminate H].
      cbn [forallb] in Hr. apply andb_prop in Hr as [_ Hr]. cbn [length] in Hl.
      apply (IH pre ltac:(lia) c post closing true); auto. }
  destruct pend; [discriminate H|].
  apply removable_cases in Hx. unfold av_is_wsp in Ew. apply orb_false_elim in Ew as [E32 E9].
  apply N.eqb_neq in Ecr, E32, E9.
  destruct Hx as [->|[->|[->|[->| ->]]]]; try congruence.
  - (* LF alone *) discriminate H.
  - (* DQUOTE: only the closing one, at the very end *)
    cbn in H. destruct closing; [|discriminate H]. destruct pre; discriminate H.
Qed.


(* the grammar check of formatted_quoted_string_from, then the leading trim *)
Lemma lws_removable : forall n l, (length l <= n)%nat -> forall seen r, av_lws seen l = Some r ->
  exists pre, l = pre ++ r /\ forallb av_removable pre = true.
Proof.
  induction n as [|n IH]; intros l Hl seen r H.
  { destruct l; [|cbn in Hl; lia]. cbn [av_lws] in H. destruct seen; [|discriminate]. injection H as <-. exists []. auto. }
  destruct l as [|c l].
  { cbn [av_lws] in H. destruct seen; [|discriminate]. injection H as <-. exists []. auto. }
  cbn [length] in Hl. cbn [av_lws] in H.
  assert (Stop : (if seen then Some (c :: l) else None) = Some r ->
                 exists pre, c :: l = pre ++ r /\ forallb av_removable pre = true).
  { destruct seen; [|discriminate]. intros E. injection E as <-. exists []. auto. }
  destruct (av_is_wsp c) eqn:Ew.
  { destruct (IH l ltac:(lia) _ _ H) as (pre & -> & Hp). exists (c :: pre). cbn [forallb].
    rewrite (wsp_removable _ Ew), Hp. auto. }
  destruct (c =? 13) eqn:Ecr; [|exact (Stop H)].
  destruct l as [|d l']; [exact (Stop H)|].
  destruct (d =? 10) eqn:Ed; [|exact (Stop H)].
  apply N.eqb_eq in Ecr, Ed. subst c d. cbn [length] in Hl.
  destruct (IH l' ltac:(lia) _ _ H) as (pre & -> & Hp). exists (13 :: 10 :: pre). cbn [forallb app]. rewrite Hp. auto.
Qed.

(* two ways of cutting a list after removable characters *)
Lemma removable_prefix : forall A r pre c post,
  A ++ r = pre ++ c :: post -> forallb av_removable A = true -> forallb av_removable pre = true -> av_removable c = false ->
  exists pre2, pre = A ++ pre2 /\ r = pre2 ++ c :: post.
Proof.
  induction A as [|a A IH]; intros r pre c post E HA Hp Hc.
  - exists pre. auto.
  - cbn [forallb] in HA. apply andb_prop in HA as [Ha HA]. destruct pre as [|x pre].
    + cbn [app] in E. injection E as -> _. congruence.
    + cbn [app] in E. injection E as -> E. cbn [forallb] in Hp. apply andb_prop in Hp as [_ Hp].
      destruct (IH _ _ _ _ E HA Hp Hc) as (pre2 & -> & ->). exists pre2. auto.
Qed.
Lemma forallb_app_true {A} (f:A -> bool) a b : forallb f a = true -> forallb f b = true -> forallb f (a ++ b) = true.
Proof. intros Ha Hb. rewrite forallb_app, Ha, Hb. reflexivity. Qed.

Lemma grammar_lead cps pre c post :
  negb (av_quoted_text cps) && negb (av_quoted_string cps) = false ->
  cps = pre ++ c :: post -> forallb av_removable pre = true -> av_removable c = false ->
  exists closing, av_qscan closing false (c :: post) = true.
Proof.
  intros G E Hp Hc. destruct (av_quoted_text cps) eqn:T.
  - exists false. unfold av_quoted_text in T. rewrite E in T.
    exact (scan_lead (length pre) pre (le_n _) c post false false Hp Hc T).
  - cbn [negb andb] in G. apply negb_false_iff in G. exists true. unfold av_quoted_string in G.
    assert (L : exists A l1, cps = A ++ l1 /\ forallb av_removable A = true /\
                             match l1 with c0 :: r => if c0 =? 34 then av_qscan true false r else false | [] => false end = true).
    { destruct (av_lws false cps) as [r|] eqn:El.
      - destruct (lws_removable (length cps) cps (le_n _) _ _ El) as (A & EA & HA). exists A, r. auto.
      - exists [], cps. auto. }
    destruct L as (A & l1 & EA & HA & Hl1).
    destruct l1 as [|c0 r]; [discriminate Hl1|]. destruct (c0 =? 34) eqn:E0; [|discriminate Hl1].
    apply N.eqb_eq in E0. subst c0.
    assert (E2 : (A ++ [34]) ++ r = pre ++ c :: post) by (rewrite <- app_assoc; cbn [app]; congruence).
    destruct (removable_prefix _ _ _ _ _ E2 (forallb_app_true av_removable A [34] HA eq_refl) Hp Hc) as (pre2 & -> & ->).
    rewrite forallb_app in Hp. apply andb_prop in Hp as [_ Hp2].
    exact (scan_lead (length pre2) pre2 (le_n _) c post true false Hp2 Hc Hl1).
Qed.

(* ------------------------------------------------------------------------------------------ the trailing trim *)
Lemma skip_trail_rev_spec : forall rl idx p, av_skip_trail_rev idx rl = Some p ->
  exists rt rk, rl = rt ++ rk /\ idx <= p /\ len rt = p - idx /\ forallb av_removable rt = true /\
                av_trail_stop rk = true /\ (rt <> [] -> av_bs_odd rk = false).
Proof.
  induction rl as [|c r IH]; intros idx p H; [discriminate|].
  cbn [av_skip_trail_rev] in H. destruct (negb (av_removable c) || av_bs_odd r) eqn:S.
  - injection H as <-. exists [], (c :: r). rewrite len_nil. repeat split; try lia; auto. congruence.
  - apply orb_false_elim in S as [R B]. apply negb_false_iff in R.
    destruct (IH _ _ H) as (rt & rk & -> & I1 & I2 & I3 & I4 & I5).
    exists (c :: rt), rk. rewrite len_cons. cbn [forallb]. rewrite R, I3. repeat split; try lia; auto.
    intros _. destruct rt as [|x rt]; [exact B|]. apply I5. discriminate.
Qed.
Lemma skip_trail_rev_none : forall rl idx, av_skip_trail_rev idx rl = None -> forallb av_removable rl = true.
Proof.
  induction rl as [|c r IH]; intros idx H; [reflexivity|].
  cbn [av_skip_trail_rev] in H. cbn [forallb]. destruct (av_removable c); cbn [negb orb] in H; [|discriminate].
  destruct (av_bs_odd r); [discriminate|]. exact (IH _ H).
Qed.
Lemma forallb_rev {A} (f:A -> bool) l : forallb f l = true -> forallb f (rev l) = true.
Proof. rewrite !forallb_forall. intros H x Hx. apply H. apply in_rev. exact Hx. Qed.

(* skip_trailing_characteres in terms of the text: what is kept, what is removed *)
Lemma skip_trail_spec cps p : av_skip_trail cps = Some p ->
  exists keep tail, cps = keep ++ tail /\ len tail = p /\ forallb av_removable tail = true /\
                    av_trail_stop (rev keep) = true /\ (tail <> [] -> av_bs_odd (rev keep) = false).
Proof.
  rewrite skip_trail_rev_eq. intros H.
  destruct (skip_trail_rev_spec _ _ _ H) as (rt & rk & E & _ & L & R & S & B).
  exists (rev rk), (rev rt). rewrite rev_involutive. repeat split.
  - rewrite <- rev_app_distr, <- E, rev_involutive. reflexivity.
  - rewrite len_rev. lia.
  - apply forallb_rev. exact R.
  - exact S.
  - intros Hn. apply B. intros ->. apply Hn. reflexivity.
Qed.

(* ------------------------------------------------------------------------------------------ UTF-8: cutting ASCII off *)
Lemma av_utf8_cons_inv2 b0 r cps : av_utf8 (b0 :: r) = Some cps ->
  exists c cs h t, cps = c :: cs /\ av_utf8 t = Some cs /\ b0 :: r = h ++ t /\
     (forall t' cs', av_utf8 t' = Some cs' -> av_utf8 (h ++ t') = Some (c :: cs')).
Proof.
  rewrite av_utf8_cons_eq.
  destruct (b0 <? 0x80) eqn:H0.
  { intros E. apply av_cons_opt_some in E as (cs & E1 & ->).
    exists b0, cs, [b0], r. repeat split; auto.
    intros t' cs' E'. cbn [app]. rewrite av_utf8_cons_eq, H0, E'. reflexivity. }
  destruct (b0 <? 0xC2) eqn:H1; [discriminate|].
  destruct (b0 <? 0xE0) eqn:H2.
  { destruct r as [|b1 r1]; [discriminate|]. destruct (av_cont b1) eqn:C1; [|discriminate].
    intros E. apply av_cons_opt_some in E as (cs & E1 & ->).
    exists ((b0 - 0xC0) * 64 + (b1 - 0x80)), cs, [b0; b1], r1. repeat split; auto.
    intros t' cs' E'. cbn [app]. rewrite av_utf8_cons_eq, H0, H1, H2, C1, E'. reflexivity. }
  destruct (b0 <? 0xF0) eqn:H3.
  { destruct r as [|b1 [|b2 r2]]; try discriminate.
    destruct (_ && _) eqn:C; [|discriminate].
    intros E. apply av_cons_opt_some in E as (cs & E1 & ->).
    exists (((b0 - 0xE0) * 64 + (b1 - 0x80)) * 64 + (b2 - 0x80)), cs, [b0; b1; b2], r2. repeat split; auto.
    intros t' cs' E'. cbn [app]. rewrite av_utf8_cons_eq, H0, H1, H2, H3, C, E'. reflexivity. }
  destruct (b0 <? 0xF5) eqn:H4; [|discriminate].
  destruct r as [|b1 [|b2 [|b3 r3]]]; try discriminate.
  destruct (_ && _) eqn:C; [|discriminate].
  intros E. apply av_cons_opt_some in E as (cs & E1 & ->).
  exists ((((b0 - 0xF0) * 64 + (b1 - 0x80)) * 64 + (b2 - 0x80)) * 64 + (b3 - 0x80)), cs, [b0; b1; b2; b3], r3.
  repeat split; auto.
  intros t' cs' E'. cbn [app]. rewrite av_utf8_cons_eq, H0, H1, H2, H3, H4, C, E'. reflexivity.
Qed.

Lemma removable_all_ascii l : forallb av_removable l = true -> Forall (fun c => c < 0x80) l.
Proof.
  intros H. apply Forall_forall. intros x Hx. rewrite forallb_forall in H. apply removable_ascii. apply H. exact Hx.
Qed.

(* an ASCII prefix of the characters is the same prefix of the bytes *)
Lemma utf8_cut_head : forall pre s post, av_utf8 s = Some (pre ++ post) -> Forall (fun c => c < 0x80) pre ->
  exists s1, s = pre ++ s1 /\ av_utf8 s1 = Some post.
Proof.
  induction pre as [|c pre IH]; intros s post H F.
  - exists s. auto.
  - inversion F as [|? ? Fc F']; subst. destruct s as [|b0 r]; [discriminate H|].
    destruct (av_utf8_cons_inv _ _ _ H) as (c' & cs & h & t & E & Ht & _ & _ & Hc).
    cbn [app] in E. injection E as <- <-.
    destruct Hc as [(_ & -> & ->)|(_ & Hc)]; [|lia].
    destruct (IH _ _ Ht F') as (s1 & -> & H1). exists s1. auto.
Qed.
(* an ASCII suffix of the characters is the same suffix of the bytes *)
Lemma utf8_cut_tail : forall keep s tail, av_utf8 s = Some (keep ++ tail) -> Forall (fun c => c < 0x80) tail ->
  exists q, s = q ++ tail /\ av_utf8 q = Some keep.
Proof.
  induction keep as [|c keep IH]; intros s tail H F.
  - cbn [app] in H. exists []. split; [apply (utf8_ascii _ _ H F)|reflexivity].
  - destruct s as [|b0 r]; [discriminate H|].
    destruct (av_utf8_cons_inv2 _ _ _ H) as (c' & cs & h & t & E & Ht & Eh & Hh).
    cbn [app] in E. injection E as <- <-.
    destruct (IH _ _ Ht F) as (q & -> & Hq). exists (h ++ q). split.
    + rewrite Eh, app_assoc. reflexivity.
    + apply Hh. exact Hq.
Qed.

(* ------------------------------------------------------------------------------------------ the theorem *)
(* formatted_quoted_string_from returns a sub-slice of its input *)
Lemma formatted_slice s cps q : av_formatted s cps = VOk q -> exists i j, q = take j (drop i s).
Proof.
  unfold av_formatted. destruct (_ && _); [discriminate|].
  destruct (av_skip_start 0 cps) as [pos|].
  - unfold av_str_from. destruct (av_is_boundary s pos); [|discriminate]. cbn [av_bind].
    destruct (av_skip_trail _) as [p|].
    + destruct (_ <? _); [discriminate|]. unfold av_str_to. destruct (av_is_boundary _ _); [|discriminate].
      intros E. injection E as <-. eauto.
    + intros E. injection E as <-. exists pos, (len (drop pos s)). rewrite take_all. reflexivity.
  - unfold av_str_to. destruct (av_is_boundary s 0); [|discriminate]. intros E. injection E as <-.
    exists 0, 0. rewrite drop_0. reflexivity.
Qed.

(* THE REPAIRED CONSTRUCTOR PATH: whatever it accepts, the result is canonical *)
Theorem formatted_canonical s cps q : av_utf8 s = Some cps -> av_formatted s cps = VOk q -> av_quoted_ok q = true.
Proof.
  intros Hu H. unfold av_formatted in H.
  destruct (negb (av_quoted_text cps) && negb (av_quoted_string cps)) eqn:G; [discriminate|].
  destruct (av_skip_start 0 cps) as [pos|] eqn:Es.
  2:{ unfold av_str_to in H. change (av_is_boundary s 0) with true in H. cbv iota in H. injection H as <-. reflexivity. }
  destruct (skip_start_split _ _ _ Es) as (pre & c & post & E & _ & Lp & Hp & Hc). rewrite N.sub_0_r in Lp.
  destruct (grammar_lead _ _ _ _ G E Hp Hc) as (closing & Hscan).
  rewrite E in Hu. destruct (utf8_cut_head _ _ _ Hu (removable_all_ascii _ Hp)) as (s1 & -> & Hu1).
  unfold av_str_from in H. destruct (av_is_boundary (pre ++ s1) pos); [|discriminate H]. cbn [av_bind] in H.
  rewrite <- Lp, drop_len_app, (av_chars_some _ _ Hu1) in H.
  destruct (av_skip_trail (c :: post)) as [p|] eqn:Et.
  2:{ exfalso. rewrite skip_trail_rev_eq in Et. apply skip_trail_rev_none in Et.
      rewrite forallb_forall in Et. specialize (Et c). rewrite Hc in Et. discriminate Et.
      apply -> in_rev. left. reflexivity. }
  destruct (skip_trail_spec _ _ Et) as (keep & tail & Ek & Lt & Hr & Hstop & Hodd).
  assert (Hne : keep <> []).
  { intros ->. discriminate Hstop. }
  rewrite Ek in Hscan, Hu1.
  pose proof (scan_keep keep tail closing Hne Hscan Hr Hodd Hstop) as Hq.
  destruct (utf8_cut_tail _ _ _ Hu1 (removable_all_ascii _ Hr)) as (q' & -> & Hq').
  destruct (len (q' ++ tail) <? p); [discriminate H|].
  unfold av_str_to in H. destruct (av_is_boundary _ _); [|discriminate H]. injection H as <-.
  rewrite len_app, <- Lt. replace (len q' + len tail - len tail) with (len q') by lia. rewrite take_app_exact.
  unfold av_quoted_ok. rewrite Hq', Hq. cbn [andb].
  destruct keep as [|k0 keep']; [congruence|]. cbn [app] in Ek. injection Ek as <- _.
  cbn [av_trimmed]. rewrite Hc, Hstop. reflexivity.
Qed.

(* a canonical value is left alone by formatted_quoted_string_from *)
Lemma formatted_quoted_ok q cps : av_utf8 q = Some cps -> av_quoted_ok q = true -> av_formatted q cps = VOk q.
Proof.
  intros Eu H. unfold av_quoted_ok in H. rewrite Eu in H. apply andb_prop in H as [Hq Ht].
  unfold av_formatted. rewrite Hq. cbn [negb andb].
  destruct cps as [|c cs].
  - apply utf8_nil in Eu. subst q. reflexivity.
  - cbn [av_trimmed] in Ht. apply andb_prop in Ht as [T1 T2]. apply negb_true_iff in T1.
    cbn [av_skip_start]. rewrite T1. unfold av_str_from. change (av_is_boundary q 0) with true. cbn [av_bind].
    rewrite drop_0, (av_chars_some _ _ Eu), (skip_trail_stop _ T2).
    destruct (N.ltb_spec (len q) 0); [lia|].
    unfold av_str_to. rewrite N.sub_0_r, boundary_end, take_all. reflexivity.
Qed.

(* all of it at once: the result of formatted_quoted_string_from is a quoted-text, formatting it again returns it, and the
   decoder of QuotedString returns it *)
Theorem formatted_fixpoint s cps q : av_utf8 s = Some cps -> av_formatted s cps = VOk q ->
  exists cq, av_utf8 q = Some cq /\ av_quoted_text cq = true /\ av_trimmed cq = true /\
             av_formatted q cq = VOk q /\ av_dec_quoted_string q = VOk q.
Proof.
  intros Hu H. pose proof (formatted_canonical _ _ _ Hu H) as Hok.
  pose proof Hok as Hok2. unfold av_quoted_ok in Hok2. destruct (av_utf8 q) as [cq|] eqn:Eq; [|discriminate].
  apply andb_prop in Hok2 as [H1 H2]. exists cq. repeat split; auto.
  - apply formatted_quoted_ok; assumption.
  - apply dec_quoted_string_ok. exact Hok.
Qed.
