(* Agreement of the retransmission-schedule code GENERATED from /repo's current stun-agent/src/timeout.rs
   (Generated/Code.v: RtoCalculator::new / next_rto, RtoManager::new / next_rto, translated by tools/rs2v.py) with the
   hand-written model Agent/Rto.v that the C06 / C11 theorems are about — for every calculator / manager state and every
   instant.  History: the pinned commit kept the doubling multiplier in a u32 (`self.rm *= 2`); the translated code carried
   the overflow check, the agreement lemma could only be proved under rm * 2^rc < 2^32 (Rc <= 31), and running the real
   client at that boundary (Rc = 32, RTO = 1 ns) panicked in a debug build and sent zero-length intervals in a release
   build: defect D9, repaired by `fix:` commit 60b0366.  The repaired code doubles a Duration with saturating_mul; the
   only remaining hypothesis is that the doubled interval fits a Duration. *)
From Coq Require Import List NArith ZArith Lia Bool.
Import ListNotations.
From Rustun Require Import Base.GRes Generated.Constants Generated.Code Agent.Rto.
Open Scope N_scope.
Arguments N.add : simpl never. Arguments N.sub : simpl never. Arguments N.mul : simpl never.
Arguments N.pow : simpl never. Arguments N.eqb : simpl never. Arguments N.ltb : simpl never. Arguments N.leb : simpl never.

Definition conv_calc (c:calc) : RtoCalculator :=
  {| RtoCalculator_rtt := c_rtt c; RtoCalculator_rto := c_rtt c * c_rm c; RtoCalculator_rc := c_rc c; RtoCalculator_last_rm := c_last c |}.
Definition conv_mgr (m:mgr) : RtoManager :=
  {| RtoManager_latest := latest m; RtoManager_last_rto := last_rto m; RtoManager_calculator := conv_calc (mcalc m) |}.

(* The code keeps the doubled interval as a Duration (fix D9) and doubles it with saturating_mul: the agreement holds as long
   as the doubled interval stays below Duration::MAX (about 5.8e11 years) during the remaining calls *)
Definition calc_safe (c:calc) : Prop := c_rc c = 0 \/ c_rtt c * c_rm c * 2 ^ c_rc c <= duration_max.

Lemma pow_ge_2 k : 1 <= k -> 2 <= 2 ^ k.
Proof. intros H. replace k with (1 + (k - 1)) by lia. rewrite N.pow_add_r. change (2^1) with 2.
  assert (1 <= 2^(k-1)) by (apply N.lt_pred_le; apply N.neq_0_lt_0; apply N.pow_nonzero; lia). nia. Qed.

Lemma calc_safe_next c t c' : calc_safe c -> calc_next c = Some (t, c') -> calc_safe c' /\ c_rtt c * c_rm c * 2 <= duration_max.
Proof.
  unfold calc_safe, calc_next. intros Hs H. destruct (N.eqb_spec (c_rc c) 0) as [E|E]; [discriminate|].
  injection H as _ <-. cbn [c_rc c_rm c_rtt]. destruct Hs as [Hs|Hs]; [contradiction|].
  assert (Hp : 2 <= 2 ^ c_rc c) by (apply pow_ge_2; lia).
  split; [|nia].
  destruct (N.eq_dec (c_rc c - 1) 0) as [Z|Z]; [left; exact Z|right].
  replace (c_rc c) with (1 + (c_rc c - 1)) in Hs by lia. rewrite N.pow_add_r in Hs. change (2^1) with 2 in Hs. nia.
Qed.

Definition calc_result (c:calc) : option N * RtoCalculator :=
  match calc_next c with None => (None, conv_calc c) | Some (t, c') => (Some t, conv_calc c') end.

Lemma gen_calc_next_agrees : forall c, calc_safe c -> gen_RtoCalculator_next_rto (conv_calc c) = GOk (calc_result c).
Proof.
  intros c Hs. unfold gen_RtoCalculator_next_rto, calc_result, conv_calc.
  cbn [RtoCalculator_rtt RtoCalculator_rto RtoCalculator_rc RtoCalculator_last_rm].
  destruct (calc_next c) as [[t c']|] eqn:E.
  - destruct (calc_safe_next c t c' Hs E) as [_ Hm].
    unfold calc_next in E. destruct (N.eqb_spec (c_rc c) 0) as [Z|Z]; [discriminate|]. injection E as <- <-.
    assert ((1 <=? c_rc c) = true) as -> by (apply N.leb_le; lia). cbn [negb c_rtt c_rm c_rc c_last].
    rewrite N.min_l by exact Hm.
    replace (c_rtt c * c_rm c * 2) with (c_rtt c * (2 * c_rm c)) by lia. reflexivity.
  - unfold calc_next in E. destruct (N.eqb_spec (c_rc c) 0) as [Z|Z]; [reflexivity|discriminate].
Qed.

Lemma gen_calc_new_agrees : forall rtt last rc,
  gen_RtoCalculator_new rtt last rc = conv_calc {| c_rtt := rtt; c_rm := 1; c_rc := rc; c_last := last |}.
Proof. intros. unfold gen_RtoCalculator_new, conv_calc. cbn [c_rtt c_rm c_rc c_last]. rewrite N.mul_1_r. reflexivity. Qed.
Lemma gen_mgr_new_agrees : forall rtt rm rc,
  gen_RtoManager_new rtt rm rc = conv_mgr {| latest := None; last_rto := 0; mcalc := {| c_rtt := rtt; c_rm := 1; c_rc := rc; c_last := rm |} |}.
Proof. intros. unfold gen_RtoManager_new, conv_mgr. cbn [latest last_rto mcalc]. rewrite gen_calc_new_agrees. reflexivity. Qed.

(* the translated `while let Some(timeout) = self.calculator.next_rto()` loop is Rto.skip *)
Lemma gen_loop_agrees : forall fuel c nt now l0 la lr,
  calc_safe c -> (N.to_nat (c_rc c) < fuel)%nat ->
  gen_RtoManager_next_rto_loop_1 fuel now l0 la lr (conv_calc c) nt
  = GOk (match skip fuel c nt now with
         | (Some nt', c') => (Some (nt' - now), {| RtoManager_latest := Some now; RtoManager_last_rto := nt' - now; RtoManager_calculator := conv_calc c' |})
         | (None, c') => (None, {| RtoManager_latest := None; RtoManager_last_rto := lr; RtoManager_calculator := conv_calc c' |})
         end).
Proof.
  induction fuel as [|fuel IH]; intros c nt now l0 la lr Hs Hf; [lia|].
  cbn [gen_RtoManager_next_rto_loop_1 skip]. rewrite (gen_calc_next_agrees c Hs). unfold calc_result.
  destruct (calc_next c) as [[t c']|] eqn:E.
  - destruct (calc_safe_next c t c' Hs E) as [Hs' _].
    destruct (N.ltb_spec now (nt + t)) as [L|L]; [reflexivity|].
    apply IH; [exact Hs'|].
    unfold calc_next in E. destruct (N.eqb_spec (c_rc c) 0) as [Z|Z]; [discriminate|]. injection E as _ <-. cbn [c_rc]. lia.
  - reflexivity.
Qed.

Theorem gen_next_rto_agrees : forall m now, calc_safe (mcalc m) ->
  gen_RtoManager_next_rto (S (N.to_nat (c_rc (mcalc m)))) (conv_mgr m) now
  = GOk (fst (next_rto m now), conv_mgr (snd (next_rto m now))).
Proof.
  intros m now Hs. unfold gen_RtoManager_next_rto, next_rto, conv_mgr.
  cbn [RtoManager_latest RtoManager_last_rto RtoManager_calculator].
  destruct (latest m) as [l|] eqn:El.
  - destruct (N.leb_spec (l + last_rto m) now) as [L|L].
    + rewrite gen_loop_agrees by (try exact Hs; lia).
      destruct (skip (S (N.to_nat (c_rc (mcalc m)))) (mcalc m) (l + last_rto m) now) as [[nt'|] c']; reflexivity.
    + reflexivity.
  - rewrite (gen_calc_next_agrees _ Hs). unfold calc_result.
    destruct (calc_next (mcalc m)) as [[t c']|]; cbn [fst snd latest last_rto mcalc]; [reflexivity|].
    rewrite El. destruct m as [la lr mc]; cbn in *. subst la. reflexivity.
Qed.

(* the state a request starts with is safe whenever the last doubled interval RTO * 2^Rc fits a Duration (with the
   largest RTO the harness uses, 3 s, that is every Rc <= 62; with RTO = 1 ns every Rc <= 93) *)
Lemma calc_safe_initial : forall rtt last rc, rtt * 2 ^ rc <= duration_max -> calc_safe {| c_rtt := rtt; c_rm := 1; c_rc := rc; c_last := last |}.
Proof. intros rtt last rc H. unfold calc_safe. cbn [c_rc c_rm c_rtt]. right. rewrite N.mul_1_r. exact H. Qed.
Example calc_safe_defaults : calc_safe {| c_rtt := 500000000; c_rm := 1; c_rc := 7; c_last := 16 |}.
Proof. apply calc_safe_initial. vm_compute. discriminate. Qed.
(* and safety is preserved by every call, so the agreement holds along the whole life of a request *)
Lemma calc_safe_preserved : forall m now, calc_safe (mcalc m) -> calc_safe (mcalc (snd (next_rto m now))).
Proof.
  assert (Hskip : forall fuel c nt now, calc_safe c -> calc_safe (snd (skip fuel c nt now))).
  { induction fuel as [|fuel IH]; intros c nt now Hs; cbn [skip]; [exact Hs|].
    destruct (calc_next c) as [[t c']|] eqn:E; [|exact Hs].
    destruct (calc_safe_next c t c' Hs E) as [Hs' _].
    destruct (now <? nt + t); [exact Hs'|apply IH; exact Hs']. }
  intros m now Hs. unfold next_rto. destruct (latest m) as [l|].
  - destruct (l + last_rto m <=? now); [|exact Hs].
    specialize (Hskip (S (N.to_nat (c_rc (mcalc m)))) (mcalc m) (l + last_rto m) now Hs).
    destruct (skip _ _ _ _) as [[nt'|] c']; exact Hskip.
  - destruct (calc_next (mcalc m)) as [[t c']|] eqn:E; [|exact Hs].
    destruct (calc_safe_next _ t c' Hs E) as [Hs' _]. exact Hs'.
Qed.
