(* Agreement of the definitions GENERATED from /repo's current Rust text (Generated/Code.v, by tools/rs2v.py) with the
   hand-written codec models the property theorems are about.  Each lemma is for ALL arguments of the Rust type: the
   theorems about the models therefore speak about what the code says now; a change of the Rust text changes the generated
   definition and the lemma below no longer checks.
     stun-rs/src/common.rs   padding                         = Tlv.pad                       (C01, C02, C14, C16)
     stun-rs/src/context.rs  ignore_attribute                = Filter.ignore_attribute       (C09, C18)
     stun-rs/src/message.rs  MessageType::as_u16 / from(u16) = MsgType.as_u16 / of_u16       (C02, C19)
                             MessageMethod / MessageClass conversions *)
From Coq Require Import List NArith ZArith Lia Bool ZifyBool ZifyN.
Ltac Zify.zify_post_hook ::= Z.div_mod_to_equations.
Import ListNotations.
From Rustun Require Import Base.GRes Base.Tlv Generated.Constants Generated.Code Codec.Filter Codec.InputText Codec.Wire Codec.MsgType.
Open Scope N_scope.

(* ---- padding (usize): (4 - (n & 3)) & 3, never underflows *)
Lemma land3 n : N.land n 3 = n mod 4.
Proof. change 3 with (N.ones 2). rewrite N.land_ones. reflexivity. Qed.
Lemma gen_padding_agrees : forall n, gen_padding n = GOk (pad n).
Proof.
  intros n. unfold gen_padding, pad. rewrite !land3.
  assert (H : n mod 4 < 4) by (apply N.mod_lt; lia).
  assert ((n mod 4 <=? 4) = true) as -> by (apply N.leb_le; lia). cbn [negb]. reflexivity.
Qed.

(* ---- the admission filter of the decoder *)
Definition conv_filter (f:flt) : AttributeFilter :=
  {| AttributeFilter_message_integrity := f_mi f; AttributeFilter_message_integrity_sha256 := f_sha f; AttributeFilter_fingerprint := f_fp f |}.
Lemma gen_ignore_attribute_agrees : forall f ty,
  gen_ignore_attribute (conv_filter f) ty
  = GOk (fst (ignore_attribute f (kind_of_type ty)), conv_filter (snd (ignore_attribute f (kind_of_type ty)))).
Proof.
  intros [a b c] ty. unfold gen_ignore_attribute, ignore_attribute, kind_of_type, conv_filter.
  cbn [AttributeFilter_message_integrity AttributeFilter_message_integrity_sha256 AttributeFilter_fingerprint f_mi f_sha f_fp].
  change gen_T_MESSAGE_INTEGRITY with T_MI. change gen_T_MESSAGE_INTEGRITY_SHA256 with T_SHA. change gen_T_FINGERPRINT with T_FP.
  destruct (N.eqb_spec ty T_MI) as [E1|E1].
  - subst ty. destruct a, b, c; reflexivity.
  - destruct (N.eqb_spec ty T_SHA) as [E2|E2].
    + subst ty. destruct a, b, c; reflexivity.
    + destruct (N.eqb_spec ty T_FP) as [E3|E3].
      * subst ty. destruct a, b, c; reflexivity.
      * destruct a, b, c; reflexivity.
Qed.
(* every record of the generated type is the image of a model filter state *)
Lemma conv_filter_onto : forall g, exists f, g = conv_filter f.
Proof. intros [a b c]. exists {| f_mi := a; f_sha := b; f_fp := c |}. reflexivity. Qed.

(* ---- message type: finite domains, exhaustively *)
Definition mt (m c:N) : MessageType := {| MessageType_method := m; MessageType_class := c |}.
Definition chk_as (m c:N) : bool := gen_MessageType_as_u16 (mt m c) =? as_u16 m c.
Lemma chk_as_all : forall_bits 12 (fun m => forall_bits 2 (fun c => chk_as m c)) = true. Proof. vm_compute. reflexivity. Qed.
Lemma gen_as_u16_agrees : forall m c, m < 4096 -> c < 4 -> gen_MessageType_as_u16 (mt m c) = as_u16 m c.
Proof.
  intros m c Hm Hc.
  pose proof (forall_bits_spec 12 _ chk_as_all m Hm) as H1. cbn beta in H1.
  pose proof (forall_bits_spec 2 _ H1 c Hc) as H2. apply N.eqb_eq in H2. exact H2.
Qed.

Definition gres_mt_eqb (r:gres MessageType) (p:N * N) : bool :=
  match r with GOk t => (MessageType_method t =? fst p) && (MessageType_class t =? snd p) | _ => false end.
Lemma chk_from_all : forall_bits 16 (fun v => gres_mt_eqb (gen_MessageType_from_u16 v) (of_u16 v)) = true.
Proof. vm_compute. reflexivity. Qed.
(* From<u16> never panics (the unwraps are unreachable) and yields the model's (method, class) *)
Lemma gen_from_u16_agrees : forall v, v < 65536 -> gen_MessageType_from_u16 v = GOk (mt (fst (of_u16 v)) (snd (of_u16 v))).
Proof.
  intros v Hv. pose proof (forall_bits_spec 16 _ chk_from_all v Hv) as H. cbn beta in H.
  destruct (gen_MessageType_from_u16 v) as [[m c]| |]; cbn [gres_mt_eqb] in H; try discriminate.
  cbn [MessageType_method MessageType_class] in H. apply andb_prop in H as [A B]. apply N.eqb_eq in A, B. subst. reflexivity.
Qed.

(* MessageMethod::try_from accepts exactly 0..0xFFF; MessageClass::try_from exactly 0..3 (variants by index), and as_u16
   is its inverse *)
Lemma chk_method_all : forall_bits 16 (fun v => match gen_MessageMethod_try_from v with Some m => (v <? 4096) && (m =? v) | None => 4096 <=? v end) = true.
Proof. vm_compute. reflexivity. Qed.
Lemma gen_method_try_from_agrees : forall v, v < 65536 -> gen_MessageMethod_try_from v = if v <? 4096 then Some v else None.
Proof.
  intros v Hv. pose proof (forall_bits_spec 16 _ chk_method_all v Hv) as H. cbn beta in H.
  destruct (gen_MessageMethod_try_from v) as [m|].
  - apply andb_prop in H as [A B]. rewrite A. apply N.eqb_eq in B. subst. reflexivity.
  - destruct (N.ltb_spec v 4096); [apply N.leb_le in H; lia|reflexivity].
Qed.
Lemma chk_class_all : forall_bits 8 (fun v => match gen_MessageClass_try_from v with Some c => (v <? 4) && (gen_MessageClass_as_u16 c =? v) && (c <? gen_MessageClass_variants) | None => 4 <=? v end) = true.
Proof. vm_compute. reflexivity. Qed.
Lemma gen_class_try_from_agrees : forall v, v < 256 ->
  match gen_MessageClass_try_from v with Some c => v < 4 /\ gen_MessageClass_as_u16 c = v | None => 4 <= v end.
Proof.
  intros v Hv. pose proof (forall_bits_spec 8 _ chk_class_all v Hv) as H. cbn beta in H.
  destruct (gen_MessageClass_try_from v) as [c|].
  - apply andb_prop in H as [H _]. apply andb_prop in H as [A B]. apply N.ltb_lt in A. apply N.eqb_eq in B. auto.
  - apply N.leb_le in H. exact H.
Qed.
Lemma gen_method_as_u16_agrees : forall m, gen_MessageMethod_as_u16 m = m.
Proof. reflexivity. Qed.

(* ---- composition: the code of ignore_attribute, run over the type codes of a message from the decoder's initial filter,
   admits exactly what the RFC 8489 ordering rule of the property text (Filter.allow) admits *)
Fixpoint gen_run (f:AttributeFilter) (tys:list N) : list bool :=
  match tys with
  | [] => []
  | t :: r => match gen_ignore_attribute f t with GOk (i, f') => negb i :: gen_run f' r | _ => [] end
  end.
Lemma gen_run_agrees : forall tys f, gen_run (conv_filter f) tys = run ignore_attribute f (map kind_of_type tys).
Proof.
  induction tys as [|t r IH]; intros f; cbn [gen_run run map]; [reflexivity|].
  rewrite gen_ignore_attribute_agrees. destruct (ignore_attribute f (kind_of_type t)) as [i f']. cbn [fst snd].
  rewrite IH. reflexivity.
Qed.
Theorem code_filter_is_rfc_rule : forall tys,
  gen_run {| AttributeFilter_message_integrity := false; AttributeFilter_message_integrity_sha256 := false; AttributeFilter_fingerprint := false |} tys
  = allow {| s_mi := false; s_sha := false; s_fp := false |} (map kind_of_type tys).
Proof.
  intros tys. change {| AttributeFilter_message_integrity := false; AttributeFilter_message_integrity_sha256 := false; AttributeFilter_fingerprint := false |}
    with (conv_filter {| f_mi := false; f_sha := false; f_fp := false |}).
  rewrite gen_run_agrees. apply C09_from_start.
Qed.
