(* Agreement of the message-type conversions (stun-rs/src/message.rs: MessageType::as_u16 / from(u16), MessageMethod /
   MessageClass conversions), GENERATED from /repo's current Rust text, with the bit layout MsgType.as_u16 / of_u16 that is
   proved equal to the RFC figure (C02, C19). padding is in CodeAgreePad.v, ignore_attribute in CodeAgreeFilter.v. *)
From Coq Require Import List NArith ZArith Lia Bool ZifyBool ZifyN.
Ltac Zify.zify_post_hook ::= Z.div_mod_to_equations.
Import ListNotations.
From Rustun Require Import Base.GRes Base.Tlv Generated.Constants Generated.Code Codec.Filter Codec.InputText Codec.Wire Codec.MsgType.
Open Scope N_scope.

(* ---- message type: finite domains, exhaustively *)
Definition mt (m c:N) : MessageType := {| MessageType_method := m; MessageType_class := c |}.
Definition chk_as (m c:N) : bool := gen_MessageType_as_u16 (mt m c) =? as_u16 m c.
Lemma chk_as_all : forall_bits 12 (fun m => forall_bits 2 (fun c => chk_as m c)) = true. Proof. vm_compute. reflexivity. Qed.
Lemma gen_as_u16_agrees : forall m c, m < 4096 -> c < 4 -> gen_MessageType_as_u16 (mt m c) = as_u16 m c.
Proof.
  intros m c Hm Hc.
  pose proof (forall_bits_spec 12 _ chk_as_all m Hm) as H1. cbn beta in H1.
  pose proof (forall_bits_spec 2 _ H1 c Hc) as H2. apply N.eqb_eq in H2. exact H2.
Qed.

Definition gres_mt_eqb (r:gres MessageType) (p:N * N) : bool :=
  match r with GOk t => (MessageType_method t =? fst p) && (MessageType_class t =? snd p) | _ => false end.
Lemma chk_from_all : forall_bits 16 (fun v => gres_mt_eqb (gen_MessageType_from_u16 v) (of_u16 v)) = true.
Proof. vm_compute. reflexivity. Qed.
(* From<u16> never panics (the unwraps are unreachable) and yields the model's (method, class) *)
Lemma gen_from_u16_agrees : forall v, v < 65536 -> gen_MessageType_from_u16 v = GOk (mt (fst (of_u16 v)) (snd (of_u16 v))).
Proof.
  intros v Hv. pose proof (forall_bits_spec 16 _ chk_from_all v Hv) as H. cbn beta in H.
  destruct (gen_MessageType_from_u16 v) as [[m c]| |]; cbn [gres_mt_eqb] in H; try discriminate.
  cbn [MessageType_method MessageType_class] in H. apply andb_prop in H as [A B]. apply N.eqb_eq in A, B. subst. reflexivity.
Qed.

(* MessageMethod::try_from accepts exactly 0..0xFFF; MessageClass::try_from exactly 0..3 (variants by index), and as_u16
   is its inverse *)
Lemma chk_method_all : forall_bits 16 (fun v => match gen_MessageMethod_try_from v with Some m => (v <? 4096) && (m =? v) | None => 4096 <=? v end) = true.
Proof. vm_compute. reflexivity. Qed.
Lemma gen_method_try_from_agrees : forall v, v < 65536 -> gen_MessageMethod_try_from v = if v <? 4096 then Some v else None.
Proof.
  intros v Hv. pose proof (forall_bits_spec 16 _ chk_method_all v Hv) as H. cbn beta in H.
  destruct (gen_MessageMethod_try_from v) as [m|].
  - apply andb_prop in H as [A B]. rewrite A. apply N.eqb_eq in B. subst. reflexivity.
  - destruct (N.ltb_spec v 4096); [apply N.leb_le in H; lia|reflexivity].
Qed.
Lemma chk_class_all : forall_bits 8 (fun v => match gen_MessageClass_try_from v with Some c => (v <? 4) && (gen_MessageClass_as_u16 c =? v) && (c <? gen_MessageClass_variants) | None => 4 <=? v end) = true.
Proof. vm_compute. reflexivity. Qed.
Lemma gen_class_try_from_agrees : forall v, v < 256 ->
  match gen_MessageClass_try_from v with Some c => v < 4 /\ gen_MessageClass_as_u16 c = v | None => 4 <= v end.
Proof.
  intros v Hv. pose proof (forall_bits_spec 8 _ chk_class_all v Hv) as H. cbn beta in H.
  destruct (gen_MessageClass_try_from v) as [c|].
  - apply andb_prop in H as [H _]. apply andb_prop in H as [A B]. apply N.ltb_lt in A. apply N.eqb_eq in B. auto.
  - apply N.leb_le in H. exact H.
Qed.
Lemma gen_method_as_u16_agrees : forall m, gen_MessageMethod_as_u16 m = m.
Proof. reflexivity. Qed.

