(* C10 at byte level: replacing any one byte of a text (any length, any position) by a different byte changes its CRC-32;
   in particular every single-bit change does. Assembled from the GF(2) linearity of the register (Crypto/Crc.v). *)
From Coq Require Import List NArith Lia Bool Arith.
Import ListNotations.
From Rustun Require Import Crypto.Crc.
Open Scope N_scope.

Lemma bits_aux_lxor : forall n x v, bits_of_byte_aux n (N.lxor x v) = xor_bits (bits_of_byte_aux n x) (bits_of_byte_aux n v).
Proof.
  induction n as [|n IH]; intros x v; cbn [bits_of_byte_aux xor_bits]; [reflexivity|].
  rewrite odd_lxor, N.shiftr_lxor, IH. reflexivity.
Qed.
Lemma bits_aux_length n v : length (bits_of_byte_aux n v) = n.
Proof. revert v. induction n as [|n IH]; intros v; cbn [bits_of_byte_aux length]; [reflexivity|]. rewrite IH. reflexivity. Qed.
Lemma bits_of_length l : length (bits_of l) = (8 * length l)%nat.
Proof. unfold bits_of. induction l as [|a l IH]; cbn [flat_map length]; [reflexivity|]. rewrite app_length, IH. unfold bits_of_byte. rewrite bits_aux_length. lia. Qed.

Lemma xor_bits_false_r : forall a, xor_bits a (repeat false (length a)) = a.
Proof. induction a as [|x a IH]; cbn [xor_bits repeat length]; [reflexivity|]. rewrite IH, xorb_false_r. reflexivity. Qed.
Lemma xor_bits_app : forall a1 a2 e1 e2, length a1 = length e1 -> xor_bits (a1 ++ a2) (e1 ++ e2) = xor_bits a1 e1 ++ xor_bits a2 e2.
Proof.
  induction a1 as [|x a1 IH]; intros a2 [|y e1] e2 Hl; try discriminate; cbn [app xor_bits]; [reflexivity|].
  rewrite IH by (cbn in Hl; lia). reflexivity.
Qed.

(* bits of a text with one byte replaced = bits of the text XOR an error pattern confined to that byte *)
Lemma bits_replace pre x v post :
  bits_of (pre ++ v :: post) =
  xor_bits (bits_of (pre ++ x :: post))
           (repeat false (8 * length pre) ++ bits_of_byte (N.lxor x v) ++ repeat false (8 * length post)).
Proof.
  unfold bits_of. rewrite !flat_map_app. cbn [flat_map]. fold (bits_of pre) (bits_of post).
  rewrite xor_bits_app by (rewrite bits_of_length, repeat_length; reflexivity).
  rewrite <- (bits_of_length pre) at 1. rewrite xor_bits_false_r.
  rewrite xor_bits_app by (unfold bits_of_byte; rewrite !bits_aux_length; reflexivity).
  rewrite <- (bits_of_length post). rewrite xor_bits_false_r. f_equal. f_equal.
  unfold bits_of_byte. rewrite <- bits_aux_lxor. rewrite <- N.lxor_assoc, N.lxor_nilpotent, N.lxor_0_l. reflexivity.
Qed.

Lemma lxor_byte_bounds x v : x < 256 -> v < 256 -> x <> v -> 0 < N.lxor x v < 256.
Proof.
  intros Hx Hv Hne. split.
  - apply N.neq_0_lt_0. intros E. apply N.lxor_eq in E. contradiction.
  - change 256 with (2^8). apply lxor_lt; assumption.
Qed.

Theorem crc32_single_byte_detected pre x v post :
  x < 256 -> v < 256 -> x <> v -> crc32 (pre ++ v :: post) <> crc32 (pre ++ x :: post).
Proof.
  intros Hx Hv Hne Heq. unfold crc32 in Heq. apply (f_equal (fun z => N.lxor z 0xFFFFFFFF)) in Heq.
  rewrite !N.lxor_assoc, !N.lxor_nilpotent, !N.lxor_0_r in Heq.
  rewrite (bits_replace pre x v post) in Heq.
  revert Heq. apply crc_detects.
  - rewrite !app_length, !repeat_length, bits_of_length, app_length. unfold bits_of_byte. rewrite bits_aux_length. cbn [length]. lia.
  - apply single_byte_error_nonzero. apply lxor_byte_bounds; assumption.
Qed.

(* hence the FINGERPRINT value (CRC xor 0x5354554e) changes too *)
Corollary fingerprint_single_byte_detected pre x v post :
  x < 256 -> v < 256 -> x <> v ->
  N.lxor (crc32 (pre ++ v :: post)) 0x5354554e <> N.lxor (crc32 (pre ++ x :: post)) 0x5354554e.
Proof.
  intros Hx Hv Hne E. apply (crc32_single_byte_detected pre x v post Hx Hv Hne).
  apply (f_equal (fun z => N.lxor z 0x5354554e)) in E. rewrite !N.lxor_assoc, !N.lxor_nilpotent, !N.lxor_0_r in E. exact E.
Qed.
Print Assumptions crc32_single_byte_detected.
