(* The client defaults (RTO, Rm, Rc: the documented schedule 0, 500, ..., 39500 ms; outstanding limit; granularity) equal the
   ones extracted from the CURRENT source of /repo. Used by C06, C12, C15. The nonce-cookie and estimator constants are
   in ConstantsAgentNonce.v / ConstantsAgentRtt.v so that a constant only concerns the properties that speak about it. *)
From Coq Require Import List NArith ZArith Bool.
Import ListNotations.
From Rustun Require Import Generated.Constants Base.Tlv Agent.F32 Agent.Rto Agent.Model Agent.RttExact Agent.AbsGlue.
Open Scope N_scope.

Lemma client_defaults : map (slot gen_DEFAULT_RTO_MS gen_DEFAULT_RM gen_DEFAULT_RC) [0;1;2;3;4;5;6;7] = [0;500;1500;3500;7500;15500;31500;39500]
  /\ gen_DEFAULT_MAX_TRANSACTIONS = 10 /\ gen_DEFAULT_GRANULARITY_MS = 1.
Proof. repeat split; reflexivity. Qed.
