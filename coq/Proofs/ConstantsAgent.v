(* Constants of stun-agent (and the nonce cookie of stun-rs) used by the agent-side models equal the ones the translator
   (tools/gen_constants.py) extracted from the CURRENT source of /repo into Generated/Constants.v. *)
From Coq Require Import List NArith ZArith Bool.
Import ListNotations.
From Rustun Require Import Generated.Constants Base.Tlv Agent.F32 Agent.Rto Agent.Model Agent.RttExact Agent.AbsGlue.
Open Scope N_scope.

(* ---- nonce cookie *)
Lemma nonce_cookie_constants : gen_NONCE_COOKIE_HEADER = nonce_cookie_header
  /\ gen_FEATURE_BIT_PASSWORD_ALGORITHMS = 31 /\ gen_FEATURE_BIT_USERNAME_ANONYMITY = 30.
Proof. repeat split; reflexivity. Qed.

(* ---- the estimator: ALPHA, BETA and K of rtt.rs as the f32 constants of the model, the staleness limit, the defaults *)
Lemma estimator_constants :
  rnd gen_RTT_ALPHA_NUM gen_RTT_ALPHA_DEN 0 = c_0125 /\ rnd (gen_RTT_ALPHA_DEN - gen_RTT_ALPHA_NUM) gen_RTT_ALPHA_DEN 0 = c_0875
  /\ rnd gen_RTT_BETA_NUM gen_RTT_BETA_DEN 0 = c_025 /\ rnd (gen_RTT_BETA_DEN - gen_RTT_BETA_NUM) gen_RTT_BETA_DEN 0 = c_075
  /\ of_nat_f32 gen_RTT_K = c_4.
Proof. vm_compute. repeat split; reflexivity. Qed.
Lemma staleness_limit : forall s l now, e_last s = Some l ->
  est_send s now = {| e_calc := if gen_STALE_SECS * NANOS <? now - l then rtt_reset (e_calc s) else e_calc s; e_last := Some now |}.
Proof. intros s l now H. unfold est_send. rewrite H. reflexivity. Qed.
Lemma client_defaults : map (slot gen_DEFAULT_RTO_MS gen_DEFAULT_RM gen_DEFAULT_RC) [0;1;2;3;4;5;6;7] = [0;500;1500;3500;7500;15500;31500;39500]
  /\ gen_DEFAULT_MAX_TRANSACTIONS = 10 /\ gen_DEFAULT_GRANULARITY_MS = 1.
Proof. repeat split; reflexivity. Qed.
