(* C02, last sentence: the decoder model does not depend on the bits that Codec/Ignored.v marks as "must be ignored by the
   receiver" (reserved / RFFU fields of the typed attributes, the padding inside PASSWORD-ALGORITHMS, the 0-3 padding bytes
   after every attribute value).  Main theorem: decode_typed_ignores. *)
From Coq Require Import List NArith Lia Bool Arith.
Import ListNotations.
From Rustun Require Import Base.Tlv Codec.Filter Codec.DecodeLoop Codec.InputText Codec.Wire Codec.AttrValue Codec.WireFull
                           Codec.Message Codec.Ignored.
Open Scope N_scope.
Arguments N.add : simpl never. Arguments N.sub : simpl never. Arguments N.mul : simpl never.
Arguments N.div : simpl never. Arguments N.modulo : simpl never.
Arguments N.eqb : simpl never. Arguments N.ltb : simpl never. Arguments N.leb : simpl never.
Arguments N.land : simpl never. Arguments N.lor : simpl never. Arguments N.lxor : simpl never.

(* ------------------------------------------------------------------------------------------------ bit lemmas *)
Lemma lor_mask_land x y m c : N.land m c = 0 -> N.lor x m = N.lor y m -> N.land x c = N.land y c.
Proof.
  intros Hm H.
  assert (E : N.land (N.lor x m) c = N.land (N.lor y m) c) by (rewrite H; reflexivity).
  rewrite !N.land_lor_distr_l, Hm, !N.lor_0_r in E. exact E.
Qed.
Lemma lor_0_eq x y : N.lor x 0 = N.lor y 0 -> x = y.
Proof. rewrite !N.lor_0_r. auto. Qed.

(* ------------------------------------------------------------------------------------------- list helpers *)
Lemma len_cons a l : len (a :: l) = len l + 1.
Proof. unfold len. cbn [length]. lia. Qed.
Lemma len_eq_length a b : length a = length b -> len a = len b.
Proof. unfold len. intros ->. reflexivity. Qed.
Lemma length_zeros n : length (zeros n) = N.to_nat n.
Proof. unfold zeros. apply repeat_length. Qed.
Lemma length_take n l : n <= len l -> length (take n l) = N.to_nat n.
Proof. unfold take, len. intros H. rewrite firstn_length. lia. Qed.
Lemma length_take_le n l : (length (take n l) <= length l)%nat.
Proof. unfold take. rewrite firstn_length. lia. Qed.
Lemma length_drop n l : length (drop n l) = (length l - N.to_nat n)%nat.
Proof. unfold drop. apply skipn_length. Qed.
Lemma my_skipn_skipn {A} : forall x y (l:list A), skipn x (skipn y l) = skipn (y + x) l.
Proof.
  intros x y. induction y as [|y IH]; intros l; [reflexivity|].
  destruct l as [|a l]; cbn [skipn Nat.add]; [destruct x; reflexivity|apply IH].
Qed.
Lemma firstn_firstn_same {A} n m (l:list A) : (n <= m)%nat -> firstn n (firstn m l) = firstn n l.
Proof. intros H. rewrite firstn_firstn. f_equal. lia. Qed.

(* ------------------------------------------------------------------------------------------- same_outside *)
Lemma so_length : forall m v v', same_outside m v v' = true -> length v' = length v /\ length m = length v.
Proof.
  induction m as [|a m IH]; intros [|x v] [|y v']; cbn [same_outside]; try discriminate; auto.
  intros H. apply andb_prop in H as [_ H]. apply IH in H. cbn [length]. lia.
Qed.
Lemma so_len m v v' : same_outside m v v' = true -> len v' = len v.
Proof. intros H. apply len_eq_length. apply so_length in H. tauto. Qed.

Lemma so_repeat0 : forall n v v', same_outside (repeat 0 n) v v' = true -> v' = v.
Proof.
  induction n as [|n IH]; intros [|x v] [|y v']; cbn [repeat same_outside]; try discriminate; auto.
  intros H. apply andb_prop in H as [H1 H2]. apply N.eqb_eq in H1. apply lor_0_eq in H1. subst y. f_equal. auto.
Qed.
Lemma same_outside_zeros n v v' : same_outside (zeros n) v v' = true -> v' = v.
Proof. apply so_repeat0. Qed.

Lemma so_refl : forall m v, length m = length v -> same_outside m v v = true.
Proof.
  induction m as [|a m IH]; intros [|x v]; cbn [length same_outside]; try discriminate; auto.
  intros H. rewrite N.eqb_refl. cbn [andb]. apply IH. lia.
Qed.

(* splitting at the end of a first mask *)
Lemma so_app : forall m1 m2 v v', same_outside (m1 ++ m2) v v' = true ->
  same_outside m1 (firstn (length m1) v) (firstn (length m1) v') = true /\
  same_outside m2 (skipn (length m1) v) (skipn (length m1) v') = true.
Proof.
  induction m1 as [|a m1 IH]; intros m2 v v' H; cbn [app length firstn skipn] in *.
  - split; [reflexivity|exact H].
  - destruct v as [|x v]; destruct v' as [|y v']; cbn [same_outside] in H; try discriminate.
    apply andb_prop in H as [H1 H2]. apply IH in H2 as [A B]. cbn [same_outside]. rewrite H1, A. split; [reflexivity|exact B].
Qed.

(* prefixes and suffixes of related strings are related *)
Lemma so_firstn : forall n m v v', same_outside m v v' = true ->
  same_outside (firstn n m) (firstn n v) (firstn n v') = true.
Proof.
  induction n as [|n IH]; intros m v v' H; [reflexivity|].
  destruct m as [|a m]; destruct v as [|x v]; destruct v' as [|y v']; cbn [same_outside firstn] in *; try discriminate; auto.
  apply andb_prop in H as [H1 H2]. rewrite H1. cbn [andb]. auto.
Qed.
Lemma so_skipn : forall n m v v', same_outside m v v' = true ->
  same_outside (skipn n m) (skipn n v) (skipn n v') = true.
Proof.
  induction n as [|n IH]; intros m v v' H; [exact H|].
  destruct m as [|a m]; destruct v as [|x v]; destruct v' as [|y v']; cbn [same_outside skipn] in *; try discriminate; auto.
  apply andb_prop in H as [H1 H2]. auto.
Qed.
Lemma so_take n m v v' : same_outside m v v' = true -> same_outside (take n m) (take n v) (take n v') = true.
Proof. apply so_firstn. Qed.
Lemma so_drop n m v v' : same_outside m v v' = true -> same_outside (drop n m) (drop n v) (drop n v') = true.
Proof. apply so_skipn. Qed.

(* ------------------------------------------------------------------------------------------- mask_prefix *)
Lemma mask_prefix_nil v : mask_prefix [] v = repeat 0 (length v).
Proof. unfold mask_prefix. cbn [app]. apply firstn_all2. rewrite repeat_length. lia. Qed.
Lemma mask_prefix_nil_r p : mask_prefix p [] = [].
Proof. reflexivity. Qed.
Lemma mask_prefix_cons a p x r : mask_prefix (a :: p) (x :: r) = a :: mask_prefix p r.
Proof.
  unfold mask_prefix. cbn [length app firstn]. f_equal.
  change (repeat 0 (S (length r))) with (0 :: repeat 0 (length r)). rewrite repeat_cons, app_assoc, firstn_app.
  rewrite app_length, repeat_length.
  replace (length r - (length p + length r))%nat with 0%nat by lia. cbn [firstn]. apply app_nil_r.
Qed.
Lemma mask_prefix_length p v : length (mask_prefix p v) = length v.
Proof. unfold mask_prefix. rewrite firstn_length, app_length, repeat_length. lia. Qed.

(* peel the bytes of a prefix mask off the hypothesis H : same_outside (mask_prefix p v) v v' = true; one goal per
   length of v up to the length of p; afterwards v and v' are explicit and share their tail *)
Ltac peel H :=
  repeat match type of H with
  | same_outside (mask_prefix [] _) _ _ = true => rewrite mask_prefix_nil in H; apply so_repeat0 in H
  | same_outside (mask_prefix (_ :: _) []) [] ?w = true =>
      rewrite mask_prefix_nil_r in H; destruct w; cbn [same_outside] in H; [clear H|discriminate H]
  | same_outside (mask_prefix (_ :: _) (_ :: _)) (_ :: _) ?w = true =>
      rewrite mask_prefix_cons in H;
      destruct w as [|? w]; cbn [same_outside] in H; [discriminate H|];
      let E := fresh "E" in apply andb_prop in H as [E H]; apply N.eqb_eq in E
  | same_outside (mask_prefix (_ :: _) ?v) ?v _ = true => destruct v as [|? v]
  end.

(* ------------------------------------------------------------------------- the kinds with a prefix mask *)

Lemma k_addr hdr v v' : same_outside (ign_mask AvkAddr v) v v' = true -> av_dec_kind AvkAddr hdr v' = av_dec_kind AvkAddr hdr v.
Proof.
  cbn [ign_mask]. intros H. peel H. 
  - reflexivity.
  - subst. reflexivity.
Qed.
Lemma k_xaddr hdr v v' : same_outside (ign_mask AvkXorAddr v) v v' = true -> av_dec_kind AvkXorAddr hdr v' = av_dec_kind AvkXorAddr hdr v.
Proof.
  cbn [ign_mask]. intros H. peel H. 
  - reflexivity.
  - subst. reflexivity.
Qed.
Lemma k_icmp hdr v v' : same_outside (ign_mask AvkIcmp v) v v' = true -> av_dec_kind AvkIcmp hdr v' = av_dec_kind AvkIcmp hdr v.
Proof.
  cbn [ign_mask]. intros H. peel H. 
  - reflexivity.
  - reflexivity.
  - subst. reflexivity.
Qed.
Lemma k_proto hdr v v' : same_outside (ign_mask AvkProto v) v v' = true -> av_dec_kind AvkProto hdr v' = av_dec_kind AvkProto hdr v.
Proof.
  cbn [ign_mask]. intros H. peel H. 
  all: repeat match goal with E : N.lor _ 0 = N.lor _ 0 |- _ => apply lor_0_eq in E end; subst.
  all: reflexivity.
Qed.
Lemma k_fam hdr v v' : same_outside (ign_mask AvkFam v) v v' = true -> av_dec_kind AvkFam hdr v' = av_dec_kind AvkFam hdr v.
Proof.
  cbn [ign_mask]. intros H. peel H. 
  all: repeat match goal with E : N.lor _ 0 = N.lor _ 0 |- _ => apply lor_0_eq in E end; subst.
  all: reflexivity.
Qed.


Ltac ltb_false :=
  repeat match goal with
  | |- context [?a <? ?b] =>
      let H := fresh in assert (H : (a <? b) = false) by (apply N.ltb_ge; lia); rewrite H; clear H
  end.

Lemma chan_full hdr a b c d v : av_dec_kind AvkChan hdr (a :: b :: c :: d :: v) = VOk (AvChan (rd16 a b)).
Proof.
  cbn [av_dec_kind]. unfold av_dec_u16, av_to, av_from. rewrite !len_cons. ltb_false.
  change (take 2 (a :: b :: c :: d :: v)) with [a; b]. cbn [av_bind av_rd16].
  change (drop 2 (a :: b :: c :: d :: v)) with (c :: d :: v). rewrite !len_cons. ltb_false.
  reflexivity.
Qed.

Lemma k_chan hdr v v' : same_outside (ign_mask AvkChan v) v v' = true -> av_dec_kind AvkChan hdr v' = av_dec_kind AvkChan hdr v.
Proof.
  cbn [ign_mask]. intros H. peel H. 
  all: repeat match goal with E : N.lor _ 0 = N.lor _ 0 |- _ => apply lor_0_eq in E end; subst.
  1-4: reflexivity.
  rewrite !chan_full. reflexivity.
Qed.

Lemma k_even hdr v v' : same_outside (ign_mask AvkEven v) v v' = true -> av_dec_kind AvkEven hdr v' = av_dec_kind AvkEven hdr v.
Proof.
  cbn [ign_mask]. intros H. peel H; [reflexivity|]. subst.
  cbn [av_dec_kind]. rewrite !len_cons.
  match goal with |- context [av_at (?y :: ?r) 0] => change (av_at (y :: r) 0) with (VOk y) end.
  match goal with |- context [av_at (?y :: ?r) 0] => change (av_at (y :: r) 0) with (VOk y) end.
  cbn [av_bind]. rewrite (lor_mask_land _ _ 127 128 eq_refl E). reflexivity.
Qed.

Lemma error_code_full x0 x1 x2 y0 y1 y2 r : N.lor x2 248 = N.lor y2 248 ->
  av_dec_error_code (y0 :: y1 :: y2 :: r) = av_dec_error_code (x0 :: x1 :: x2 :: r).
Proof.
  intros E. unfold av_dec_error_code. rewrite !len_cons.
  change (av_at (y0 :: y1 :: y2 :: r) 2) with (VOk y2). change (av_at (x0 :: x1 :: x2 :: r) 2) with (VOk x2).
  cbn [av_bind]. rewrite (lor_mask_land _ _ 248 7 eq_refl E). reflexivity.
Qed.

Lemma k_err hdr v v' : same_outside (ign_mask AvkErr v) v v' = true -> av_dec_kind AvkErr hdr v' = av_dec_kind AvkErr hdr v.
Proof.
  cbn [ign_mask]. intros H. peel H. 
  1-3: reflexivity.
  subst. cbn [av_dec_kind]. erewrite error_code_full by exact E1. reflexivity.
Qed.

Lemma k_aerr hdr v v' : same_outside (ign_mask AvkAErr v) v v' = true -> av_dec_kind AvkAErr hdr v' = av_dec_kind AvkAErr hdr v.
Proof.
  cbn [ign_mask]. intros H. peel H. 
  all: repeat match goal with E : N.lor _ 0 = N.lor _ 0 |- _ => apply lor_0_eq in E end; subst.
  1-3: reflexivity.
  cbn [av_dec_kind]. erewrite error_code_full by exact E1. reflexivity.
Qed.

(* ------------------------------------------------------------------------------------ PASSWORD-ALGORITHMS *)

Lemma av_dec_alg_cons4 a0 a1 b0 b1 t :
  av_dec_alg (a0 :: a1 :: b0 :: b1 :: t) =
  if len t <? rd16 b0 b1 then VErr
  else if 65535 <? rd16 b0 b1 + 4 then VPanic
  else VOk (rd16 a0 a1, (if 0 <? rd16 b0 b1 then Some (take (rd16 b0 b1) t) else None), 4 + rd16 b0 b1).
Proof.
  unfold av_dec_alg, av_to, av_slice. rewrite !len_cons.
  change (4 <? 2) with false. cbv iota.
  assert (A : (len t + 1 + 1 + 1 + 1 <? 4) = false) by (apply N.ltb_ge; lia). rewrite A.
  assert (B : (len t + 1 + 1 + 1 + 1 <? 2) = false) by (apply N.ltb_ge; lia). rewrite B.
  change (take 2 (a0 :: a1 :: b0 :: b1 :: t)) with [a0; a1].
  change (take (4 - 2) (drop 2 (a0 :: a1 :: b0 :: b1 :: t))) with [b0; b1].
  cbn [av_bind av_rd16]. set (plen := rd16 b0 b1).
  assert (C : (len t + 1 + 1 + 1 + 1 <? 4 + plen) = (len t <? plen)).
  { destruct (N.ltb_spec (len t) plen); [apply N.ltb_lt|apply N.ltb_ge]; lia. }
  rewrite C. destruct (len t <? plen) eqn:D; [reflexivity|]. apply N.ltb_ge in D.
  destruct (65535 <? plen + 4); [reflexivity|].
  assert (E : (plen + 4 <? 4) = false) by (apply N.ltb_ge; lia). rewrite E.
  assert (F : (len t + 1 + 1 + 1 + 1 <? plen + 4) = false) by (apply N.ltb_ge; lia). rewrite F.
  change (drop 4 (a0 :: a1 :: b0 :: b1 :: t)) with t.
  replace (plen + 4 - 4) with plen by lia. reflexivity.
Qed.

(* a successful entry decoder reads the first l bytes (l = the size it reports) and the length *)
Lemma av_dec_alg_prefix s s' a pa l : av_dec_alg s = VOk (a, pa, l) -> len s' = len s -> take l s' = take l s ->
  av_dec_alg s' = VOk (a, pa, l) /\ l <= len s.
Proof.
  intros H Hl Ht.
  destruct s as [|a0 [|a1 [|b0 [|b1 t]]]]; try discriminate H.
  destruct s' as [|a0' [|a1' [|b0' [|b1' t']]]]; try (exfalso; unfold len in Hl; cbn [length] in Hl; lia).
  rewrite av_dec_alg_cons4 in H. rewrite av_dec_alg_cons4.
  destruct (len t <? rd16 b0 b1) eqn:D; [discriminate|]. destruct (65535 <? rd16 b0 b1 + 4) eqn:D2; [discriminate|].
  inversion H; subst a pa l; clear H. apply N.ltb_ge in D.
  unfold take in Ht. replace (N.to_nat (4 + rd16 b0 b1)) with (S (S (S (S (N.to_nat (rd16 b0 b1)))))) in Ht by lia.
  cbn [firstn] in Ht. injection Ht as -> -> -> -> Ht.
  assert (Hlt : len t' = len t) by (rewrite !len_cons in Hl; lia).
  rewrite Hlt, D2. assert (D' : (len t <? rd16 b0 b1) = false) by (apply N.ltb_ge; lia). rewrite D'.
  unfold take. rewrite Ht. split; [reflexivity|rewrite !len_cons; lia].
Qed.

Lemma algs_mask_S f rest size : rest <> [] ->
  algs_mask (S f) rest size =
  if len rest <? pad size then zeros (len rest)
  else match av_dec_alg (drop (pad size) rest) with
       | VOk (_, _, l) =>
           if len (drop (pad size) rest) <? l then zeros (len rest)
           else repeat 255 (N.to_nat (pad size)) ++ zeros l ++ algs_mask f (drop l (drop (pad size) rest)) l
       | _ => zeros (len rest)
       end.
Proof. destruct rest; [congruence|reflexivity]. Qed.
Lemma av_dec_algs_S f rest size acc : rest <> [] ->
  av_dec_algs (S f) rest size acc =
  if len rest <? pad size then VErr
  else vlet sub := av_from rest (pad size) in
       vlet r := av_dec_alg sub in
       let '(alg, params, l) := r in
       vlet rest' := av_from sub l in av_dec_algs f rest' l (acc ++ [(alg, params)]).
Proof. destruct rest; [congruence|reflexivity]. Qed.

Lemma length_zeros_len l : length (zeros (len l)) = length l.
Proof. rewrite length_zeros. unfold len. lia. Qed.

Lemma algs_mask_length : forall f rest size, length (algs_mask f rest size) = length rest.
Proof.
  induction f as [|f IH]; intros rest size.
  - destruct rest; [reflexivity|]. cbn [algs_mask]. apply length_zeros_len.
  - destruct rest as [|x r]; [reflexivity|]. rewrite algs_mask_S by discriminate.
    set (rest := x :: r).
    destruct (len rest <? pad size) eqn:A; [apply length_zeros_len|]. apply N.ltb_ge in A.
    destruct (av_dec_alg (drop (pad size) rest)) as [[[a pa] l]| | |]; try apply length_zeros_len.
    destruct (len (drop (pad size) rest) <? l) eqn:B; [apply length_zeros_len|]. apply N.ltb_ge in B.
    rewrite !app_length, repeat_length, length_zeros, IH, !length_drop.
    unfold len in A, B. rewrite length_drop in B. lia.
Qed.

Lemma dec_algs_ign : forall f rest rest' size acc, same_outside (algs_mask f rest size) rest rest' = true ->
  av_dec_algs f rest' size acc = av_dec_algs f rest size acc.
Proof.
  induction f as [|f IH]; intros rest rest' size acc H.
  - destruct rest as [|x r]; cbn [algs_mask] in H.
    + destruct rest'; [reflexivity|discriminate].
    + apply same_outside_zeros in H. subst. reflexivity.
  - destruct rest as [|x r].
    { destruct rest'; [reflexivity|discriminate]. }
    pose proof (so_len _ _ _ H) as Hlen.
    assert (Hne' : rest' <> []) by (intros ->; unfold len in Hlen; cbn [length] in Hlen; lia).
    rewrite algs_mask_S in H by discriminate. rewrite !av_dec_algs_S by (assumption || discriminate).
    set (rest := x :: r) in *. rewrite Hlen.
    destruct (len rest <? pad size) eqn:A; [reflexivity|].
    unfold av_from at 1 3. rewrite Hlen, A. cbn [av_bind].
    destruct (av_dec_alg (drop (pad size) rest)) as [[[a pa] l]| | |] eqn:Ha;
      try (apply same_outside_zeros in H; subst rest'; rewrite Ha; reflexivity).
    destruct (len (drop (pad size) rest) <? l) eqn:B.
    { apply same_outside_zeros in H; subst rest'; rewrite Ha; reflexivity. }
    apply so_app in H as [_ H]. rewrite repeat_length in H. fold (drop (pad size) rest) (drop (pad size) rest') in H.
    apply so_app in H as [H1 H2]. rewrite length_zeros in H1, H2. apply same_outside_zeros in H1.
    fold (take l (drop (pad size) rest)) (take l (drop (pad size) rest')) in H1.
    fold (drop l (drop (pad size) rest)) (drop l (drop (pad size) rest')) in H2.
    assert (Hl2 : len (drop (pad size) rest') = len (drop (pad size) rest)).
    { apply len_eq_length. rewrite !length_drop. unfold len in Hlen. lia. }
    destruct (av_dec_alg_prefix _ _ _ _ _ Ha Hl2 H1) as [Ha' _]. rewrite Ha'. cbn [av_bind].
    unfold av_from. rewrite Hl2, B. cbn [av_bind]. apply IH. exact H2.
Qed.

Lemma k_algs hdr v v' : same_outside (ign_mask AvkAlgs v) v v' = true -> av_dec_kind AvkAlgs hdr v' = av_dec_kind AvkAlgs hdr v.
Proof.
  cbn [ign_mask av_dec_kind]. intros H. destruct (so_length _ _ _ H) as [-> _]. rewrite (dec_algs_ign _ _ _ _ _ H). reflexivity.
Qed.

(* ------------------------------------------------------------------------------------------ theorems 2, 3 *)
Theorem dec_kind_ignores : forall k hdr v v',
  same_outside (ign_mask k v) v v' = true -> av_dec_kind k hdr v' = av_dec_kind k hdr v.
Proof.
  intros k hdr v v' H.
  destruct k;
    try (cbn [ign_mask] in H; apply same_outside_zeros in H; subst v'; reflexivity).
  - apply k_addr; exact H.
  - apply k_xaddr; exact H.
  - apply k_err; exact H.
  - apply k_aerr; exact H.
  - apply k_algs; exact H.
  - apply k_chan; exact H.
  - apply k_even; exact H.
  - apply k_proto; exact H.
  - apply k_fam; exact H.
  - apply k_icmp; exact H.
Qed.
Print Assumptions dec_kind_ignores.

Theorem dec_attr_ignores : forall ud hdr ty v v',
  same_outside (value_mask ty v) v v' = true -> av_dec_attr ud hdr ty v' = av_dec_attr ud hdr ty v.
Proof.
  intros ud hdr ty v v' H. unfold av_dec_attr, value_mask in *.
  destruct (av_registry ty) as [k|].
  - apply dec_kind_ignores; exact H.
  - apply same_outside_zeros in H. subst v'. reflexivity.
Qed.
Print Assumptions dec_attr_ignores.

Lemma ign_mask_length k v : length (ign_mask k v) = length v.
Proof.
  destruct k; cbn [ign_mask]; try apply length_zeros_len; try apply mask_prefix_length. apply algs_mask_length.
Qed.
Lemma value_mask_length ty v : length (value_mask ty v) = length v.
Proof. unfold value_mask. destruct (av_registry ty); [apply ign_mask_length|apply length_zeros_len]. Qed.


(* ------------------------------------------------------------------------------------------ the TLV walk *)
Definition tlv_rel (a a':tlv) : Prop :=
  fst a' = fst a /\ same_outside (value_mask (fst a) (snd a)) (snd a) (snd a') = true.
Definition tlvs_rel (r r':res (list tlv)) : Prop :=
  match r, r' with
  | Ok l, Ok l' => Forall2 tlv_rel l l'
  | Err, Err => True
  | Panic, Panic => True
  | _, _ => False
  end.

Lemma tlv_rel_refl a : tlv_rel a a.
Proof. split; [reflexivity|]. apply so_refl. apply value_mask_length. Qed.
Lemma tlvs_rel_refl r : tlvs_rel r r.
Proof.
  destruct r as [l| |]; unfold tlvs_rel; auto. induction l; constructor; auto using tlv_rel_refl.
Qed.

Lemma tlvs_mask_length : forall f b, length (tlvs_mask f b) = length b.
Proof.
  induction f as [|f IH]; intros b; [apply length_zeros_len|].
  destruct b as [|t1 [|t2 [|l1 [|l2 rest]]]]; try apply length_zeros_len.
  cbn [tlvs_mask]. set (n := rd16 l1 l2).
  destruct (len rest <? n + pad n) eqn:A; [apply length_zeros_len|]. apply N.ltb_ge in A.
  rewrite !app_length, value_mask_length, repeat_length, IH, length_drop, length_take by lia.
  cbn [length]. unfold len in A. lia.
Qed.

Lemma dec_tlvs_ignores_rel : forall fuel b b', same_outside (tlvs_mask fuel b) b b' = true ->
  tlvs_rel (dec_tlvs fuel b) (dec_tlvs fuel b').
Proof.
  induction fuel as [|f IH]; intros b b' H.
  - cbn [tlvs_mask] in H. apply same_outside_zeros in H. subst b'. apply tlvs_rel_refl.
  - destruct b as [|t1 [|t2 [|l1 [|l2 rest]]]];
      try (cbn [tlvs_mask] in H; apply same_outside_zeros in H; subst b'; apply tlvs_rel_refl).
    cbn [tlvs_mask] in H. set (n := rd16 l1 l2) in *.
    destruct (len rest <? n + pad n) eqn:A.
    { apply same_outside_zeros in H; subst b'; apply tlvs_rel_refl. }
    cbn [app] in H.
    destruct b' as [|t1' [|t2' [|l1' [|l2' rest']]]]; cbn [same_outside] in H; try discriminate H;
      try (rewrite ?andb_false_r in H; discriminate H).
    apply andb_prop in H as [E1 H]. apply andb_prop in H as [E2 H]. apply andb_prop in H as [E3 H]. apply andb_prop in H as [E4 H].
    apply N.eqb_eq in E1, E2, E3, E4. apply lor_0_eq in E1, E2, E3, E4. subst t1' t2' l1' l2'.
    pose proof (so_len _ _ _ H) as Hlen.
    pose proof A as A'. apply N.ltb_ge in A'.
    apply so_app in H as [H1 H2]. rewrite value_mask_length, length_take in H1, H2 by lia.
    fold (take n rest) (take n rest') in H1.
    apply so_app in H2 as [_ H2]. rewrite repeat_length, !my_skipn_skipn in H2.
    replace (N.to_nat n + N.to_nat (pad n))%nat with (N.to_nat (n + pad n)) in H2 by lia.
    fold (drop (n + pad n) rest) (drop (n + pad n) rest') in H2.
    cbn [dec_tlvs]. fold n. rewrite Hlen, A.
    assert (B : (len rest <? n) = false) by (apply N.ltb_ge; lia). rewrite B.
    specialize (IH _ _ H2). unfold tlvs_rel in *.
    destruct (dec_tlvs f (drop (n + pad n) rest)) as [l| |]; destruct (dec_tlvs f (drop (n + pad n) rest')) as [l'| |];
      try contradiction; auto.
    constructor; [|exact IH]. split; [reflexivity|exact H1].
Qed.

Lemma dec_tlvs_ignores : forall fuel b b', same_outside (tlvs_mask fuel b) b b' = true ->
  match dec_tlvs fuel b, dec_tlvs fuel b' with
  | Ok l, Ok l' => Forall2 (fun a a' => fst a' = fst a /\ same_outside (value_mask (fst a) (snd a)) (snd a) (snd a') = true) l l'
  | Err, Err => True
  | Panic, Panic => True
  | _, _ => False
  end.
Proof. exact dec_tlvs_ignores_rel. Qed.


(* ------------------------------------------------------------------------------------------ the decode loop *)
(* without validation the loop never consults the verifier; related inputs give the same positions *)
Definition wtlv_rel (ud:bool) (hdr:bytes) (x x':N * (N * bytes)) : Prop :=
  w_pos x' = w_pos x /\ w_ty x' = w_ty x /\
  dec_ok_full ud hdr (w_ty x') (w_val x') = dec_ok_full ud hdr (w_ty x) (w_val x).

Lemma loop_ignores hdr ver ver' o : o_validate o = false ->
  forall l l', Forall2 (wtlv_rel (o_unknown o) hdr) l l' -> forall f,
  option_map (map w_pos)
    (loop _ _ (fun x => kind_of_type (w_ty x))
       (fun ud x => match dec_ok_full ud hdr (w_ty x) (w_val x) with Some true => Some x | _ => None end) ver' o f l') =
  option_map (map w_pos)
    (loop _ _ (fun x => kind_of_type (w_ty x))
       (fun ud x => match dec_ok_full ud hdr (w_ty x) (w_val x) with Some true => Some x | _ => None end) ver o f l).
Proof.
  intros Hv l l' HF. induction HF as [|x x' l l' (Hp & Ht & Hd) HF IH]; intros f; [reflexivity|].
  cbn [loop]. rewrite Hd, Ht, Hv.
  destruct (dec_ok_full (o_unknown o) hdr (w_ty x) (w_val x)) as [[|]|]; try reflexivity.
  destruct (ignore_attribute f (kind_of_type (w_ty x))) as [ign f'].
  cbn [andb]. specialize (IH f').
  destruct (negb ign || o_not_ignore o); [|exact IH].
  match type of IH with option_map _ ?a = option_map _ ?b => destruct a; destruct b end;
    cbn [option_map map] in *; try discriminate IH; [|reflexivity].
  injection IH as IH. rewrite Hp, IH. reflexivity.
Qed.

Lemma number_rel ud hdr : forall l l' pos, Forall2 tlv_rel l l' ->
  Forall2 (wtlv_rel ud hdr) (number pos l) (number pos l').
Proof.
  induction l as [|[ty v] l IH]; intros l' pos H; inversion H as [|? [ty' v'] ? ? [Ht Hs] Hr]; subst; cbn [number]; constructor.
  - cbn [fst snd] in *. subst ty'. unfold wtlv_rel, w_pos, w_ty, w_val, dec_ok_full. cbn [fst snd].
    rewrite (dec_attr_ignores _ _ _ _ _ Hs). auto.
  - apply IH. exact Hr.
Qed.

Lemma existsb_rel ud hdr : forall l l', Forall2 tlv_rel l l' ->
  existsb (fun a => match dec_ok_full ud hdr (fst a) (snd a) with None => true | Some _ => false end) l' =
  existsb (fun a => match dec_ok_full ud hdr (fst a) (snd a) with None => true | Some _ => false end) l.
Proof.
  induction 1 as [|[ty v] [ty' v'] l l' [Ht Hs] _ IH]; [reflexivity|].
  cbn [existsb fst snd] in *. subst ty'. unfold dec_ok_full at 1 3. rewrite (dec_attr_ignores _ _ _ _ _ Hs), IH. reflexivity.
Qed.

Lemma nth_error_rel {A} (R:A -> A -> Prop) : forall l l', Forall2 R l l' -> forall n,
  match nth_error l n, nth_error l' n with
  | Some a, Some a' => R a a'
  | None, None => True
  | _, _ => False
  end.
Proof.
  induction 1 as [|a a' l l' Ha _ IH]; intros [|n]; cbn [nth_error]; auto. apply IH.
Qed.

(* ------------------------------------------------------------------------------------------- the message *)
Lemma firstn_20 {A} (l:list A) : (20 <= length l)%nat ->
  exists h r, l = h ++ r /\ length h = 20%nat.
Proof. intros H. exists (firstn 20 l), (skipn 20 l). rewrite firstn_skipn, firstn_length. split; [reflexivity|lia]. Qed.

Lemma msg_parts b b' : same_outside (msg_mask b) b b' = true ->
  exists h r r', b = h ++ r /\ b' = h ++ r' /\ length h = 20%nat /\
    same_outside (tlvs_mask (length b) (take (msg_length b) r) ++ zeros (len b - 20 - msg_length b)) r r' = true.
Proof.
  unfold msg_mask. intros H. apply so_app in H as [H1 H2]. rewrite length_zeros in H1, H2.
  change (N.to_nat 20) with 20%nat in *.
  pose proof (so_length _ _ _ H1) as [_ L]. rewrite length_zeros in L. change (N.to_nat 20) with 20%nat in L.
  apply same_outside_zeros in H1.
  exists (firstn 20 b), (skipn 20 b), (skipn 20 b').
  split; [symmetry; apply firstn_skipn|]. split; [rewrite <- H1; symmetry; apply firstn_skipn|].
  split; [symmetry; exact L|exact H2].
Qed.

Lemma hdr_valid_parts h r r' : length h = 20%nat -> length r' = length r -> hdr_valid (h ++ r') = hdr_valid (h ++ r).
Proof.
  intros Hh Hr.
  do 20 (destruct h as [|? h]; [discriminate Hh|]). destruct h; [|discriminate Hh].
  cbn [app hdr_valid]. rewrite !len_cons. rewrite (len_eq_length _ _ Hr). reflexivity.
Qed.
Lemma msg_length_parts h r r' : length h = 20%nat -> msg_length (h ++ r') = msg_length (h ++ r).
Proof.
  intros Hh. do 4 (destruct h as [|? h]; [discriminate Hh|]). reflexivity.
Qed.
Lemma take_20_parts h r : length h = 20%nat -> take 20 (h ++ r) = h.
Proof. intros Hh. replace 20 with (len h) by (unfold len; rewrite Hh; reflexivity). apply take_app_exact. Qed.
Lemma drop_20_parts h r : length h = 20%nat -> drop 20 (h ++ r) = r.
Proof. intros Hh. replace 20 with (len h) by (unfold len; rewrite Hh; reflexivity). apply drop_app_exact. Qed.

Theorem decode_typed_ignores : forall b b', same_outside (msg_mask b) b b' = true -> decode_typed b' = decode_typed b.
Proof.
  intros b b' H. pose proof (so_length _ _ _ H) as [Hlen _].
  destruct (msg_parts _ _ H) as (h & r & r' & Hb & Hb' & Hh & Hr).
  pose proof (so_length _ _ _ Hr) as [Hrl _].
  assert (Ehv : hdr_valid b' = hdr_valid b) by (subst b b'; apply hdr_valid_parts; assumption).
  assert (Eml : msg_length b' = msg_length b) by (subst b b'; apply msg_length_parts; assumption).
  assert (Et : take 20 b' = take 20 b) by (subst b b'; rewrite !take_20_parts by assumption; reflexivity).
  assert (Ed : drop 20 b = r) by (subst b; apply drop_20_parts; assumption).
  assert (Ed' : drop 20 b' = r') by (subst b'; apply drop_20_parts; assumption).
  assert (El : len b' = len b) by (apply len_eq_length; exact Hlen).
  unfold decode_typed, decode, typed_attrs. rewrite Ehv, Eml, El, Et, Ed, Ed', Hlen.
  set (L := msg_length b) in *.
  destruct (negb (hdr_valid b)); [reflexivity|].
  destruct (len b <? 20 + L) eqn:A; [reflexivity|]. apply N.ltb_ge in A.
  (* the attribute area *)
  assert (Hlr : len b = 20 + len r).
  { rewrite Hb. unfold len. rewrite app_length, Hh. lia. }
  apply so_app in Hr as [Hr _]. rewrite tlvs_mask_length, length_take in Hr by lia.
  fold (take L r) (take L r') in Hr.
  pose proof (dec_tlvs_ignores_rel _ _ _ Hr) as Hrel. unfold tlvs_rel in Hrel.
  destruct (dec_tlvs (length b) (take L r)) as [l| |]; destruct (dec_tlvs (length b) (take L r')) as [l'| |];
    try contradiction; try reflexivity.
  cbn [w_opts default_wctx o_unknown w_key].
  rewrite (existsb_rel false (take 20 b) _ _ Hrel).
  match goal with |- context [existsb ?f l] => destruct (existsb f l) end; [reflexivity|].
  pose proof (loop_ignores (take 20 b)
                (verify_attr None (take (20 + L) b)) (verify_attr None (take (20 + L) b'))
                {| o_validate := false; o_unknown := false; o_not_ignore := false |} eq_refl
                _ _ (number_rel false (take 20 b) _ _ 0 Hrel) {| f_mi := false; f_sha := false; f_fp := false |}) as Hloop.
  cbn [o_unknown] in Hloop.
  match type of Hloop with option_map _ ?a = option_map _ ?b => destruct a as [ps'|]; destruct b as [ps|] end;
    cbn [option_map] in Hloop; try discriminate Hloop; [|reflexivity].
  injection Hloop as Hloop. rewrite Hloop. f_equal.
  apply map_ext. intros p. pose proof (nth_error_rel _ _ _ Hrel (N.to_nat p)) as Hn.
  destruct (nth_error l (N.to_nat p)) as [[ty v]|]; destruct (nth_error l' (N.to_nat p)) as [[ty' v']|];
    try contradiction; [|reflexivity].
  destruct Hn as [Ht Hs]. cbn [fst snd] in *. subst ty'. rewrite (dec_attr_ignores _ _ _ _ _ Hs). reflexivity.
Qed.
Print Assumptions decode_typed_ignores.

(* ------------------------------------------------------------------------------------------- non-vacuity *)
(* a Binding success response with MAPPED-ADDRESS 192.0.2.1:32853, ERROR-CODE 401 "Unauth" (two padding bytes) and
   EVEN-PORT R=1 (three padding bytes) ... *)
Definition ex_txid : bytes := [1; 2; 3; 4; 5; 6; 7; 8; 9; 10; 11; 12].
Definition ex_b : bytes :=
  [0x01; 0x01; 0x00; 0x24; 0x21; 0x12; 0xA4; 0x42] ++ ex_txid ++
  [0x00; 0x01; 0x00; 0x08;  0x00; 0x01; 0x80; 0x55; 0xC0; 0x00; 0x02; 0x01] ++
  [0x00; 0x09; 0x00; 0x0A;  0x00; 0x00; 0x04; 0x01; 0x55; 0x6E; 0x61; 0x75; 0x74; 0x68;  0x00; 0x00] ++
  [0x00; 0x18; 0x00; 0x01;  0x80;  0x00; 0x00; 0x00].
(* ... and a copy with the reserved byte of the address = 0xFF, the 21 reserved bits of ERROR-CODE set, the seven RFFU bits
   of EVEN-PORT set and all five padding bytes non-zero (54 bits differ) *)
Definition ex_b' : bytes :=
  [0x01; 0x01; 0x00; 0x24; 0x21; 0x12; 0xA4; 0x42] ++ ex_txid ++
  [0x00; 0x01; 0x00; 0x08;  0xFF; 0x01; 0x80; 0x55; 0xC0; 0x00; 0x02; 0x01] ++
  [0x00; 0x09; 0x00; 0x0A;  0xFF; 0xFF; 0xFC; 0x01; 0x55; 0x6E; 0x61; 0x75; 0x74; 0x68;  0xAB; 0xCD] ++
  [0x00; 0x18; 0x00; 0x01;  0xFF;  0x11; 0x22; 0x33].

Example ex_mask : msg_mask ex_b =
  zeros 20 ++ [0; 0; 0; 0;  255; 0; 0; 0; 0; 0; 0; 0] ++ [0; 0; 0; 0;  255; 255; 248; 0; 0; 0; 0; 0; 0; 0;  255; 255]
           ++ [0; 0; 0; 0;  127;  255; 255; 255].
Proof. vm_compute. reflexivity. Qed.
Example ex_related : same_outside (msg_mask ex_b) ex_b ex_b' = true.
Proof. vm_compute. reflexivity. Qed.
Example ex_diff_bits : diff_bits ex_b ex_b' = 54.
Proof. vm_compute. reflexivity. Qed.
Example ex_decodes : decode_typed ex_b =
  DOk 56 [(0x0001, VOk (AvAddr false 32853 [192; 0; 2; 1]));
          (0x0009, VOk (AvErr 401 [0x55; 0x6E; 0x61; 0x75; 0x74; 0x68]));
          (0x0018, VOk (AvEven true))].
Proof. vm_compute. reflexivity. Qed.
(* by the theorem, not by computation *)
Example ex_decodes' : decode_typed ex_b' =
  DOk 56 [(0x0001, VOk (AvAddr false 32853 [192; 0; 2; 1]));
          (0x0009, VOk (AvErr 401 [0x55; 0x6E; 0x61; 0x75; 0x74; 0x68]));
          (0x0018, VOk (AvEven true))].
Proof. rewrite (decode_typed_ignores ex_b ex_b' ex_related). exact ex_decodes. Qed.
(* the mask is tight where it matters: the R bit of EVEN-PORT (bit 7 of the same byte) is not ignorable *)
Definition ex_b'' : bytes := firstn 52 ex_b ++ [0x00; 0x00; 0x00; 0x00].
Example ex_unrelated : same_outside (msg_mask ex_b) ex_b ex_b'' = false /\ decode_typed ex_b'' <> decode_typed ex_b.
Proof. split; [vm_compute; reflexivity|vm_compute; discriminate]. Qed.

(* PASSWORD-ALGORITHMS: entry (algorithm 2, one byte of params) + three inner padding bytes + entry (algorithm 1, no params); the inner
   padding is ignorable, the entries are not *)
Definition ex_algs : bytes := [0x00; 0x02; 0x00; 0x01; 0xAA; 0x00; 0x00; 0x00;  0x00; 0x01; 0x00; 0x00].
Definition ex_algs' : bytes := [0x00; 0x02; 0x00; 0x01; 0xAA; 0xDE; 0xAD; 0xFF;  0x00; 0x01; 0x00; 0x00].
Example ex_algs_mask : value_mask 0x8002 ex_algs = [0; 0; 0; 0; 0; 255; 255; 255; 0; 0; 0; 0].
Proof. vm_compute. reflexivity. Qed.
Example ex_algs_related : same_outside (value_mask 0x8002 ex_algs) ex_algs ex_algs' = true.
Proof. vm_compute. reflexivity. Qed.
Example ex_algs_decodes : av_dec_attr false [] 0x8002 ex_algs = VOk (AvAlgs [(2, Some [0xAA]); (1, None)]).
Proof. vm_compute. reflexivity. Qed.
Example ex_algs_decodes' : av_dec_attr false [] 0x8002 ex_algs' = VOk (AvAlgs [(2, Some [0xAA]); (1, None)]).
Proof. rewrite (dec_attr_ignores false [] 0x8002 ex_algs ex_algs' ex_algs_related). exact ex_algs_decodes. Qed.
